/-
  Lemmas.PubSubInv — invariants of the subscription table: entry names are pairwise distinct and no entry lists a
  subscriber twice; preserved by every command and by dispatch.
-/
import SugarModel.Model.PubSub
namespace Sugar.PubSub
open Sugar

def NamesDistinct (t : Table) : Prop := (t.map (·.name)).Nodup
def SubsNodup (t : Table) : Prop := ∀ c ∈ t, c.subs.Nodup
def Inv (t : Table) : Prop := NamesDistinct t ∧ SubsNodup t

theorem addSub_name (c : Chan) (conn : Nat) : (c.addSub conn).name = c.name := by
  unfold Chan.addSub; split <;> rfl

theorem addSub_pat (c : Chan) (conn : Nat) : (c.addSub conn).pat = c.pat := by
  unfold Chan.addSub; split <;> rfl

theorem addSub_nodup (c : Chan) (conn : Nat) (h : c.subs.Nodup) : (c.addSub conn).subs.Nodup := by
  unfold Chan.addSub
  split
  · exact h
  · rename_i hc
    simp only [List.nodup_append]
    refine ⟨h, by simp, ?_⟩
    intro a ha b hb
    simp at hb
    subst hb
    intro e
    subst e
    exact hc (by simpa using ha)

theorem mem_addSub (c : Chan) (conn : Nat) : conn ∈ (c.addSub conn).subs := by
  unfold Chan.addSub
  split
  · rename_i h; simpa using h
  · simp

theorem mem_addSub_of_mem (c : Chan) (conn s : Nat) (h : s ∈ c.subs) : s ∈ (c.addSub conn).subs := by
  unfold Chan.addSub
  split
  · exact h
  · simp [h]

theorem subFirst_names (conn : Nat) (n : Bytes) (t : Table) : (subFirst conn n t).map (·.name) = t.map (·.name) := by
  induction t with
  | nil => rfl
  | cons c r ih =>
    unfold subFirst
    split
    · simp [addSub_name]
    · simp [ih]

theorem subFirst_subsNodup (conn : Nat) (n : Bytes) (t : Table) (h : SubsNodup t) : SubsNodup (subFirst conn n t) := by
  induction t with
  | nil => exact h
  | cons c r ih =>
    unfold subFirst
    split
    · intro x hx
      simp at hx
      rcases hx with rfl | hx
      · exact addSub_nodup c conn (h c (by simp))
      · exact h x (by simp [hx])
    · intro x hx
      simp at hx
      rcases hx with rfl | hx
      · exact h _ (by simp)
      · exact ih (fun y hy => h y (by simp [hy])) x hx

theorem not_mem_names_of_hasName (t : Table) (n : Bytes) (h : hasName t n = false) : n ∉ t.map (·.name) := by
  intro hm
  simp only [List.mem_map] at hm
  obtain ⟨c, hc, rfl⟩ := hm
  have : hasName t c.name = true := by
    unfold hasName
    simp only [List.any_eq_true]
    exact ⟨c, hc, by simp⟩
  simp [this] at h

theorem subscribeLoop_inv (conn : Nat) (wp : Bool) (names : List Bytes) :
    ∀ (i : Nat) (t : Table) (ps : List Push), Inv t → Inv (subscribeLoop conn wp names i t ps).1 := by
  induction names with
  | nil => intro i t ps h; exact h
  | cons n r ih =>
    intro i t ps h
    unfold subscribeLoop
    split
    · apply ih
      exact ⟨by unfold NamesDistinct; rw [subFirst_names]; exact h.1, subFirst_subsNodup conn n t h.2⟩
    · rename_i hn
      apply ih
      constructor
      · unfold NamesDistinct
        simp only [List.map_append, List.map_cons, List.map_nil, List.nodup_append]
        refine ⟨h.1, by simp, ?_⟩
        intro a ha b hb
        simp at hb
        subst hb
        intro e
        subst e
        exact not_mem_names_of_hasName t a (by simpa using hn) ha
      · intro x hx
        simp at hx
        rcases hx with hx | rfl
        · exact h.2 x hx
        · simp

theorem subscribe_inv (conn : Nat) (wp : Bool) (names : List Bytes) (t : Table) (h : Inv t) :
    Inv (subscribe conn wp names t).1 := by
  unfold subscribe
  split
  · exact h
  · exact subscribeLoop_inv conn wp names 0 t [] h

theorem unsubWhere_names (conn : Nat) (sel : Chan → Bool) (t : Table) :
    (unsubWhere conn sel t).1.map (·.name) = t.map (·.name) := by
  induction t with
  | nil => rfl
  | cons c r ih =>
    unfold unsubWhere
    simp only
    split <;> simp [ih]

theorem unsubWhere_subsNodup (conn : Nat) (sel : Chan → Bool) (t : Table) (h : SubsNodup t) :
    SubsNodup (unsubWhere conn sel t).1 := by
  induction t with
  | nil => exact h
  | cons c r ih =>
    have hr : SubsNodup r := fun y hy => h y (by simp [hy])
    unfold unsubWhere
    simp only
    split
    · intro x hx
      simp at hx
      rcases hx with rfl | hx
      · exact (h c (by simp)).erase conn
      · exact ih hr x hx
    · intro x hx
      simp at hx
      rcases hx with rfl | hx
      · exact h _ (by simp)
      · exact ih hr x hx

theorem unsubWhere_inv (conn : Nat) (sel : Chan → Bool) (t : Table) (h : Inv t) : Inv (unsubWhere conn sel t).1 :=
  ⟨by unfold NamesDistinct; rw [unsubWhere_names]; exact h.1, unsubWhere_subsNodup conn sel t h.2⟩

theorem unsubGlobs_inv (conn : Nat) (ps : List Bytes) : ∀ (t : Table) (acc : List Bytes), Inv t → Inv (unsubGlobs conn ps t acc).1 := by
  induction ps with
  | nil => intro t acc h; exact h
  | cons p r ih =>
    intro t acc h
    unfold unsubGlobs
    split
    · exact ih _ _ h
    · exact ih _ _ (unsubWhere_inv conn _ t h)

theorem unsubscribe_inv (conn : Nat) (wp : Bool) (names : List Bytes) (t : Table) (h : Inv t) :
    Inv (unsubscribe conn wp names t).1 := by
  unfold unsubscribe
  have h1 : Inv (if names.isEmpty then unsubWhere conn (fun c => c.pat == wp) t else (t, [])).1 := by
    split
    · exact unsubWhere_inv conn _ t h
    · exact h
  have h2 := unsubWhere_inv conn (fun c => names.contains c.name) _ h1
  simp only
  split
  · exact unsubGlobs_inv conn names _ [] h2
  · exact h2

theorem publish_names (msg ch : Bytes) (t : Table) : (publish msg ch t).map (·.name) = t.map (·.name) := by
  unfold publish
  simp only [List.map_map]
  apply List.map_congr_left
  intro c _
  simp only [Function.comp]
  split <;> rfl

theorem publish_inv (msg ch : Bytes) (t : Table) (h : Inv t) : Inv (publish msg ch t) := by
  constructor
  · unfold NamesDistinct; rw [publish_names]; exact h.1
  · intro x hx
    unfold publish at hx
    simp only [List.mem_map] at hx
    obtain ⟨c, hc, rfl⟩ := hx
    split <;> exact h.2 c hc

theorem dispatchAll_inv (t : Table) (h : Inv t) : Inv (dispatchAll t).1 := by
  unfold dispatchAll
  constructor
  · unfold NamesDistinct
    simp only [List.map_map]
    exact h.1
  · intro x hx
    simp only [List.mem_map] at hx
    obtain ⟨c, hc, rfl⟩ := hx
    exact h.2 c hc

end Sugar.PubSub

namespace Sugar.PubSub

theorem exec_inv (t : Table) (conn : Nat) (c : Cmd) (h : Inv t) : Inv (exec t conn c).table := by
  cases c with
  | sub wp args =>
    simp only [exec]
    split
    · exact h
    · split
      · exact h
      · split
        · exact h
        · exact subscribe_inv conn wp args t h
  | unsub wp args => exact unsubscribe_inv conn wp args t h
  | publish args =>
    simp only [exec]
    split
    · exact publish_inv _ _ t h
    · exact h
  | pubsub name args =>
    simp only [exec]
    split
    · exact h
    · repeat' split
      all_goals exact h
  | other => exact h

theorem step_inv (t : Table) (conn : Nat) (cmd : List Bytes) (h : Inv t) : Inv (step t conn cmd).table := by
  unfold step
  split
  · exact h
  · exact exec_inv t conn _ h

/-- the table after a history of commands, every dispatcher running to completion after each -/
def run : Table → List (Nat × List Bytes) → Table
  | t, [] => t
  | t, (conn, cmd) :: rest => run (dispatchAll (step t conn cmd).table).1 rest

theorem run_inv (cmds : List (Nat × List Bytes)) : ∀ t, Inv t → Inv (run t cmds) := by
  induction cmds with
  | nil => intro t h; exact h
  | cons c r ih =>
    intro t h
    obtain ⟨conn, cmd⟩ := c
    exact ih _ (dispatchAll_inv _ (step_inv t conn cmd h))

theorem runBlock_inv (imm : Bool) (cmds : List (Nat × List Bytes)) : ∀ t, Inv t → Inv (runBlock imm t cmds).1 := by
  induction cmds with
  | nil => intro t h; exact dispatchAll_inv t h
  | cons c r ih =>
    intro t h
    obtain ⟨conn, cmd⟩ := c
    unfold runBlock
    simp only
    apply ih
    split
    · exact dispatchAll_inv _ (step_inv t conn cmd h)
    · exact step_inv t conn cmd h

end Sugar.PubSub
