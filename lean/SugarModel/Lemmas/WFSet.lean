/-
  Lemmas.WFSet — reply well-formedness of the set handlers. The member-listing reply builder
  `setArrReply` answers the bare `*0` (no CR LF) for an empty result, and SRANDMEMBER / SPOP answer the same
  bytes for count 0: those handlers get `handleX_wf_partial` with exception class `Star0`.
-/
import SugarModel.Lemmas.WFCore
namespace Sugar

/-- exception class: the truncated empty array `*0` -/
def Star0 (r : Res) : Prop := r = .ok (b "*0")

theorem rx_star0 : (Prog.ret (Res.ok (b "*0"))).AllRet (Res.WFx Star0) := Or.inr rfl

/-- the member-listing reply: well-formed unless the list is empty, then exactly `*0` -/
theorem rx_setArr (ms : List Bytes) : (Prog.ret (setArrReply ms)).AllRet (Res.WFx Star0) := by
  unfold setArrReply
  split
  · exact rx_star0
  · exact rx_permMap _ 1 _ _ (fun x => grp_one _ (wf1_bulk _)) _ (Nat.mul_one _).symm

/-- for a non-empty list the member-listing reply is well-formed -/
theorem setArrReply_wf (ms : List Bytes) (h : ms ≠ []) : Res.WFok (setArrReply ms) := by
  unfold setArrReply
  split
  · rename_i he; simp at he; exact absurd he h
  · have := rx_permMap NoExc 1 ms bulkStr (fun x => grp_one _ (wf1_bulk _)) _ (Nat.mul_one _).symm
    exact this.elim id False.elim

theorem withSet_rx (E : Res → Prop) (cmd : List Bytes) (a : Bool) (r : Res) (m : Bytes → Bytes)
    (k : Bytes → List Bytes → Prog Res) (hr : Res.WFok r) (h : ∀ x y, (k x y).AllRet (Res.WFx E)) :
    (withSet cmd a r m k).AllRet (Res.WFx E) := by
  unfold withSet; wf
  · exact rx_res _ _ hr
  · exact h _ _

theorem collectSets_rx (P : Res → Prop) (ks : List Bytes) : ∀ (k : List (List Bytes) → Prog Res),
    (∀ x, (k x).AllRet P) → (collectSets ks k).AllRet P := by
  induction ks with
  | nil => intro k h; exact h _
  | cons x r ih =>
    intro k h
    unfold collectSets
    intro vs
    apply ih
    intro acc
    split
    · exact h _
    · exact h _

theorem interLoop_rx (E : Res → Prop) (l : List (Bytes × Bool)) (r : Res) (hr : Res.WFok r) :
    ∀ (k : List (Nat × List Bytes) → Prog Res), (∀ x, (k x).AllRet (Res.WFx E)) → (interLoop l r k).AllRet (Res.WFx E) := by
  induction l with
  | nil => intro k h; exact h _
  | cons x rest ih =>
    intro k h
    obtain ⟨key, e⟩ := x
    unfold interLoop
    split
    · exact rx_res _ _ hr
    · intro vs
      dsimp only
      split
      · exact rx_err _ _
      · apply ih; intro acc; exact h _

theorem writeBack_rx (P : Res → Prop) (l : List (Bytes × List Bytes × List Bytes)) (k : Prog Res) (h : k.AllRet P) :
    (writeBack l k).AllRet P := by
  induction l with
  | nil => exact h
  | cons x r ih =>
    obtain ⟨a, o, n⟩ := x
    unfold writeBack
    split
    · exact ih
    · exact fun _ => ih

/-- `wf` extended with the set-module combinators and the `Star0` leaves -/
macro "wfs" : tactic => `(tactic| (
  repeat' (first
    | exact rx_err _ _
    | exact rx_panic _ _
    | exact rx_unmod _ _
    | exact rx_star0
    | exact rx_setArr _
    | (refine rx_ok _ _ ?_; wfleaf)
    | (apply setOrErr_rx)
    | (apply collectSets_rx; intro _)
    | (apply writeBack_rx)
    | (refine rx_call _ _ _ ?_; intro _)
    | split
    | (dsimp only))))

theorem handleSAdd_wf (c : Ctx) (cmd : List Bytes) : (handleSAdd c cmd).AllRet Res.WFok := by
  apply allRet_full; unfold handleSAdd; wfs
theorem handleSCard_wf (c : Ctx) (cmd : List Bytes) : (handleSCard c cmd).AllRet Res.WFok := by
  apply allRet_full; unfold handleSCard
  exact withSet_rx _ _ _ _ _ _ (wf_int _) (fun _ _ => rx_ok _ _ (wf_int _))
theorem handleSIsMember_wf (c : Ctx) (cmd : List Bytes) : (handleSIsMember c cmd).AllRet Res.WFok := by
  apply allRet_full; unfold handleSIsMember
  exact withSet_rx _ _ _ _ _ _ (wf_int _) (fun _ _ => rx_ok _ _ (wf_int _))
theorem handleSMIsMember_wf (c : Ctx) (cmd : List Bytes) : (handleSMIsMember c cmd).AllRet Res.WFok := by
  apply allRet_full; unfold handleSMIsMember
  exact withSet_rx _ _ _ _ _ _ (wf_arrMap _ _ (fun _ => wf1_int _))
    (fun _ _ => rx_ok _ _ (wf_arrMap _ _ (fun _ => wf1_int _)))
theorem handleSRem_wf (c : Ctx) (cmd : List Bytes) : (handleSRem c cmd).AllRet Res.WFok := by
  apply allRet_full; unfold handleSRem
  refine withSet_rx _ _ _ _ _ _ (wf_int _) (fun _ _ => ?_)
  wfs
theorem handleSMove_wf (c : Ctx) (cmd : List Bytes) : (handleSMove c cmd).AllRet Res.WFok := by
  apply allRet_full; unfold handleSMove; wfs

/-- SMEMBERS: well-formed except the bare `*0` answered for a stored empty set -/
theorem handleSMembers_wf_partial (c : Ctx) (cmd : List Bytes) : (handleSMembers c cmd).AllRet (Res.WFx Star0) := by
  unfold handleSMembers
  exact withSet_rx _ _ _ _ _ _ wf_emptyArr (fun _ _ => rx_setArr _)

/-- SRANDMEMBER: well-formed except the bare `*0` (count 0, or a stored empty set) -/
theorem handleSRandMember_wf_partial (c : Ctx) (cmd : List Bytes) :
    (handleSRandMember c cmd).AllRet (Res.WFx Star0) := by
  unfold handleSRandMember; wfs
  all_goals exact rx_pickMap _ 1 _ _ _ _ (fun x => grp_one _ (wf1_bulk _)) _ (Nat.mul_one _).symm

/-- SPOP: well-formed except the bare `*0` (count 0, or a stored empty set) -/
theorem handleSPop_wf_partial (c : Ctx) (cmd : List Bytes) : (handleSPop c cmd).AllRet (Res.WFx Star0) := by
  unfold handleSPop; wfs

/-- SDIFF / SDIFFSTORE: well-formed except the bare `*0` of an empty difference -/
theorem handleSDiff_wf_partial (st : Bool) (c : Ctx) (cmd : List Bytes) :
    (handleSDiff st c cmd).AllRet (Res.WFx Star0) := by
  unfold handleSDiff; wfs

theorem handleSDiffStore_wf (c : Ctx) (cmd : List Bytes) : (handleSDiff true c cmd).AllRet Res.WFok := by
  apply allRet_full; unfold handleSDiff; wfs
  all_goals exact absurd rfl ‹¬true = true›

theorem sinterStore_wf (E : Res → Prop) (a d : Bytes) (s : List (Nat × List Bytes)) (r : List Bytes) :
    (sinterStore a d s r).AllRet (Res.WFx E) := by
  unfold sinterStore; wfs

/-- what follows the SINTER operand loop: only mode 0 (SINTER proper) lists members -/
theorem sinterTail_rx (m : Nat) (l : Int) (a d : Bytes) (s : List (Nat × List Bytes)) :
    (sinterTail m l a d s).AllRet (Res.WFx Star0) := by
  unfold sinterTail; wfs
  all_goals exact sinterStore_wf _ _ _ _ _

theorem sinterTail_wf (m : Nat) (hm : (m == 0) = false) (l : Int) (a d : Bytes) (s : List (Nat × List Bytes)) :
    (sinterTail m l a d s).AllRet (Res.WFx NoExc) := by
  unfold sinterTail; wfs
  all_goals first
    | exact sinterStore_wf _ _ _ _ _
    | (rename_i h; rw [hm] at h; cases h)

/-- SINTER / SINTERCARD / SINTERSTORE: well-formed except SINTER's bare `*0` for an empty intersection -/
theorem handleSInter_wf_partial (m : Nat) (c : Ctx) (cmd : List Bytes) :
    (handleSInter m c cmd).AllRet (Res.WFx Star0) := by
  unfold handleSInter; wfs
  all_goals first
    | (refine interLoop_rx _ _ _ ?_ _ (fun _ => sinterTail_rx _ _ _ _ _); first | exact wf_emptyArr | exact wf_int _)

/-- SINTERCARD and SINTERSTORE never list members -/
theorem handleSInter_wf (m : Nat) (hm : (m == 0) = false) (c : Ctx) (cmd : List Bytes) :
    (handleSInter m c cmd).AllRet Res.WFok := by
  apply allRet_full; unfold handleSInter; wfs
  all_goals first
    | (refine interLoop_rx _ _ _ ?_ _ (fun _ => sinterTail_wf _ hm _ _ _ _); first | exact wf_emptyArr | exact wf_int _)

theorem sunionTail_rx (st : Bool) (d : Bytes) (o : List (Bytes × Nat × List Bytes)) :
    (sunionTail st d o).AllRet (Res.WFx Star0) := by
  unfold sunionTail; wfs

theorem sunionTailStore_wf (d : Bytes) (o : List (Bytes × Nat × List Bytes)) :
    (sunionTail true d o).AllRet (Res.WFx NoExc) := by
  unfold sunionTail; wfs
  all_goals exact absurd ‹(!true) = true› (by decide)

attribute [local irreducible] sunionTail

/-- SUNION / SUNIONSTORE: well-formed except SUNION's bare `*0` for an empty union -/
theorem handleSUnion_wf_partial (st : Bool) (c : Ctx) (cmd : List Bytes) :
    (handleSUnion st c cmd).AllRet (Res.WFx Star0) := by
  unfold handleSUnion; wfs
  all_goals exact sunionTail_rx _ _ _

theorem handleSUnionStore_wf (c : Ctx) (cmd : List Bytes) : (handleSUnion true c cmd).AllRet Res.WFok := by
  apply allRet_full; unfold handleSUnion
  simp only [↓reduceIte]
  wfs
  all_goals exact sunionTailStore_wf _ _

end Sugar
