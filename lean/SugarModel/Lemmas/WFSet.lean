/-
  Lemmas.WFSet — reply well-formedness of the set handlers (all full). The member-listing reply builder
  `setArrReply` is `*n\r\n` followed by the members as bulk strings in map order, for every `n` including 0
  (the unterminated `*0` of the empty listing was repaired upstream; the exception class `Star0` is gone).
-/
import SugarModel.Lemmas.WFCore
namespace Sugar

/-- the member-listing reply is well-formed for every member list, the empty one included -/
theorem setArrReply_wf (ms : List Bytes) : Res.WFok (setArrReply ms) := by
  unfold setArrReply
  have := wfok_perm 1 (ms.map bulkStr) (by
    intro g hg
    rw [List.mem_map] at hg
    obtain ⟨x, _, rfl⟩ := hg
    exact grp_one _ (wf1_bulk _))
  rw [List.length_map, Nat.mul_one] at this
  exact this

theorem rx_setArr (E : Res → Prop) (ms : List Bytes) : (Prog.ret (setArrReply ms)).AllRet (Res.WFx E) :=
  rx_res _ _ (setArrReply_wf ms)

theorem withSet_rx (E : Res → Prop) (cmd : List Bytes) (a : Bool) (r : Res) (m : Bytes → Bytes)
    (k : Bytes → List Bytes → Prog Res) (hr : Res.WFok r) (h : ∀ x y, (k x y).AllRet (Res.WFx E)) :
    (withSet cmd a r m k).AllRet (Res.WFx E) := by
  unfold withSet; wf
  · exact rx_res _ _ hr
  · exact h _ _

theorem collectSets_rx (P : Res → Prop) (ks : List Bytes) : ∀ (k : List (List Bytes) → Prog Res),
    (∀ x, (k x).AllRet P) → (collectSets ks k).AllRet P := by
  induction ks with
  | nil => intro k h; exact h _
  | cons x r ih =>
    intro k h
    unfold collectSets
    intro vs
    apply ih
    intro acc
    split
    · exact h _
    · exact h _

theorem interLoop_rx (E : Res → Prop) (l : List (Bytes × Bool)) (r : Res) (hr : Res.WFok r) :
    ∀ (k : List (Nat × List Bytes) → Prog Res), (∀ x, (k x).AllRet (Res.WFx E)) → (interLoop l r k).AllRet (Res.WFx E) := by
  induction l with
  | nil => intro k h; exact h _
  | cons x rest ih =>
    intro k h
    obtain ⟨key, e⟩ := x
    unfold interLoop
    split
    · exact rx_res _ _ hr
    · intro vs
      dsimp only
      split
      · exact rx_err _ _
      · apply ih; intro acc; exact h _

theorem storeLoop_rx (E : Res → Prop) (l : List (Bytes × Bool)) :
    ∀ (k : Bool → List (List Bytes) → Prog Res), (∀ e x, (k e x).AllRet (Res.WFx E)) → (storeLoop l k).AllRet (Res.WFx E) := by
  induction l with
  | nil => intro k h; exact h _ _
  | cons x rest ih =>
    intro k h
    obtain ⟨key, e⟩ := x
    unfold storeLoop
    split
    · apply ih; intro _ acc; exact h _ _
    · intro vs
      dsimp only
      split
      · exact rx_err _ _
      · apply ih; intro _ acc; exact h _ _

/-- `wf` extended with the set-module combinators and the member-listing leaf -/
macro "wfs" : tactic => `(tactic| (
  repeat' (first
    | exact rx_err _ _
    | exact rx_panic _ _
    | exact rx_unmod _ _
    | exact rx_setArr _ _
    | (refine rx_ok _ _ ?_; wfleaf)
    | (apply setOrErr_rx)
    | (apply collectSets_rx; intro _)
    | (apply storeLoop_rx; intro _ _)
    | (refine rx_call _ _ _ ?_; intro _)
    | split
    | (dsimp only))))

theorem handleSAdd_wf (c : Ctx) (cmd : List Bytes) : (handleSAdd c cmd).AllRet Res.WFok := by
  apply allRet_full; unfold handleSAdd; wfs
theorem handleSCard_wf (c : Ctx) (cmd : List Bytes) : (handleSCard c cmd).AllRet Res.WFok := by
  apply allRet_full; unfold handleSCard
  exact withSet_rx _ _ _ _ _ _ (wf_int _) (fun _ _ => rx_ok _ _ (wf_int _))
theorem handleSIsMember_wf (c : Ctx) (cmd : List Bytes) : (handleSIsMember c cmd).AllRet Res.WFok := by
  apply allRet_full; unfold handleSIsMember
  exact withSet_rx _ _ _ _ _ _ (wf_int _) (fun _ _ => rx_ok _ _ (wf_int _))
theorem handleSMIsMember_wf (c : Ctx) (cmd : List Bytes) : (handleSMIsMember c cmd).AllRet Res.WFok := by
  apply allRet_full; unfold handleSMIsMember
  exact withSet_rx _ _ _ _ _ _ (wf_arrMap _ _ (fun _ => wf1_int _))
    (fun _ _ => rx_ok _ _ (wf_arrMap _ _ (fun _ => wf1_int _)))
theorem handleSRem_wf (c : Ctx) (cmd : List Bytes) : (handleSRem c cmd).AllRet Res.WFok := by
  apply allRet_full; unfold handleSRem
  refine withSet_rx _ _ _ _ _ _ (wf_int _) (fun _ _ => ?_)
  wfs
theorem handleSMove_wf (c : Ctx) (cmd : List Bytes) : (handleSMove c cmd).AllRet Res.WFok := by
  apply allRet_full; unfold handleSMove; wfs

/-- SMEMBERS -/
theorem handleSMembers_wf (c : Ctx) (cmd : List Bytes) : (handleSMembers c cmd).AllRet Res.WFok := by
  apply allRet_full; unfold handleSMembers
  exact withSet_rx _ _ _ _ _ _ wf_emptyArr (fun _ _ => rx_setArr _ _)

/-- SRANDMEMBER: `*-1`, `*0\r\n`, the whole set in map order, or `count` random picks -/
theorem handleSRandMember_wf (c : Ctx) (cmd : List Bytes) : (handleSRandMember c cmd).AllRet Res.WFok := by
  apply allRet_full; unfold handleSRandMember; wfs
  all_goals exact rx_pickMap _ 1 _ _ _ _ (fun x => grp_one _ (wf1_bulk _)) _ (Nat.mul_one _).symm

/-- SPOP -/
theorem handleSPop_wf (c : Ctx) (cmd : List Bytes) : (handleSPop c cmd).AllRet Res.WFok := by
  apply allRet_full; unfold handleSPop; wfs

/-- SDIFF / SDIFFSTORE -/
theorem handleSDiff_wf (st : Bool) (c : Ctx) (cmd : List Bytes) : (handleSDiff st c cmd).AllRet Res.WFok := by
  apply allRet_full; unfold handleSDiff; wfs

/-- what follows the SINTER / SINTERCARD operand loop -/
theorem sinterTail_wf (E : Res → Prop) (m : Nat) (l : Int) (s : List (Nat × List Bytes)) :
    (sinterTail m l s).AllRet (Res.WFx E) := by
  unfold sinterTail; wfs

/-- SINTERSTORE: an error, or the cardinality of the set just stored -/
theorem handleSInterStore_wf (E : Res → Prop) (cmd : List Bytes) : (handleSInterStore cmd).AllRet (Res.WFx E) := by
  unfold handleSInterStore; wfs

/-- SINTER / SINTERCARD / SINTERSTORE (mode 0 / 2 / 1) -/
theorem handleSInter_wf (m : Nat) (c : Ctx) (cmd : List Bytes) : (handleSInter m c cmd).AllRet Res.WFok := by
  apply allRet_full; unfold handleSInter; split
  · exact handleSInterStore_wf _ _
  · unfold handleSInterRead; wfs
    all_goals first
      | (refine interLoop_rx _ _ _ ?_ _ (fun _ => sinterTail_wf _ _ _ _); first | exact wf_emptyArr | exact wf_int _)

/-- SUNION / SUNIONSTORE: an error, the members of the union as an array, or the cardinality stored -/
theorem handleSUnion_wf (st : Bool) (c : Ctx) (cmd : List Bytes) : (handleSUnion st c cmd).AllRet Res.WFok := by
  apply allRet_full; unfold handleSUnion; wfs

end Sugar
