/-
  Lemmas.SchedCommute — keyspace primitives of two clients with disjoint key footprints commute, up to an
  observational equivalence of states (association lists reorder), and the lifting of that commutation to
  step programs and to the scheduling steps of Model.Sched.

  Footprint discipline: `Prim.keys p = some ks` means `p` reads and writes only the cells (c.db, k), k ∈ ks,
  the memory counter additively, and nothing else; `none` = global (flush, swapDbs, setConnDb, newOid, tagOid,
  and a SetValues that stores a shared object).
  Standing assumptions of the commutation (each one necessary, see Props/C05): no memory limit (SetValues
  reads the global counter otherwise), the clients' databases exist (SetValues creates an absent database,
  SetExpiry panics on one), no set object is shared between keys (`mutObj` writes through every alias).
-/
import SugarModel.Model.Sched
import SugarModel.Lemmas.Coll
namespace Sugar
set_option linter.unusedSimpArgs false

/-! ### footprints -/

/-- the keys a primitive touches in the caller's database; `none` = not key-local -/
def Prim.keys : Prim → Option (List Bytes)
  | .keysExist ks => some ks
  | .getExpiry k => some [k]
  | .getValues ks => some ks
  | .setValues es => if es.all (fun kv => kv.2.oid == 0) then some (es.map (·.1)) else none
  | .setExpiry k _ _ => some [k]
  | .deleteKey k => some [k]
  | .mutObj k _ => some [k]
  | .flush _ => none
  | .newOid => none
  | .tagOid _ _ => none
  | .setConnDb _ => none
  | .swapDbs _ _ => none

/-- every primitive the program can issue, whatever the results it is fed, is key-local inside `K` -/
def Prog.Within {α : Type} (K : Bytes → Prop) : Prog α → Prop
  | .ret _ => True
  | .panic _ => True
  | .unmod _ => True
  | .call p k => (∃ ks, p.keys = some ks ∧ ∀ x ∈ ks, K x) ∧ ∀ r, (k r).Within K

/-! ### observational equivalence of states -/

/-- same content: every cell reads the same, same volatile-index membership, same databases present, same
    memory counter, same connection table -/
structure State.Equiv (s t : State) : Prop where
  look : ∀ i k, s.lookup i k = t.lookup i k
  vol : ∀ i k, k ∈ (s.db i).vol ↔ k ∈ (t.db i).vol
  has : ∀ i, s.hasDb i = t.hasDb i
  mem : s.mem = t.mem
  conns : s.conns = t.conns
  emb : s.embDb = t.embDb

theorem State.Equiv.refl (s : State) : s.Equiv s := ⟨fun _ _ => rfl, fun _ _ => Iff.rfl, fun _ => rfl, rfl, rfl, rfl⟩
theorem State.Equiv.symm {s t : State} (h : s.Equiv t) : t.Equiv s :=
  ⟨fun i k => (h.look i k).symm, fun i k => (h.vol i k).symm, fun i => (h.has i).symm, h.mem.symm, h.conns.symm, h.emb.symm⟩
theorem State.Equiv.trans {s t u : State} (h : s.Equiv t) (g : t.Equiv u) : s.Equiv u :=
  ⟨fun i k => (h.look i k).trans (g.look i k), fun i k => (h.vol i k).trans (g.vol i k),
   fun i => (h.has i).trans (g.has i), h.mem.trans g.mem, h.conns.trans g.conns, h.emb.trans g.emb⟩

/-- no stored object is shared between keys (every stored value carries object id 0) -/
def NoShare (s : State) : Prop := ∀ i k e, s.lookup i k = some e → e.val.oid = 0

theorem NoShare.of_equiv {s t : State} (h : s.Equiv t) (hs : NoShare s) : NoShare t :=
  fun i k e he => hs i k e ((h.look i k).trans he)

/-! ### two-state locality -/

/-- a set of cells (database, key) -/
abbrev Cells := Nat → Bytes → Prop

/-- the cells of database `i` named by `ks` -/
def cellsOf (i : Nat) (ks : List Bytes) : Cells := fun j k => j = i ∧ k ∈ ks

/-- `s` and `t` read the same on the cells in `F` -/
def AgreeOn (F : Cells) (s t : State) : Prop :=
  ∀ i k, F i k → s.lookup i k = t.lookup i k ∧ (k ∈ (s.db i).vol ↔ k ∈ (t.db i).vol)

/-- `s'` differs from `s` only inside `F` (and in the memory counter) -/
structure FrameOf (F : Cells) (s s' : State) : Prop where
  look : ∀ i k, ¬ F i k → s'.lookup i k = s.lookup i k
  vol : ∀ i k, ¬ F i k → (k ∈ (s'.db i).vol ↔ k ∈ (s.db i).vol)
  has : ∀ i, s'.hasDb i = s.hasDb i
  conns : s'.conns = s.conns
  emb : s'.embDb = s.embDb

theorem FrameOf.refl (F : Cells) (s : State) : FrameOf F s s :=
  ⟨fun _ _ _ => rfl, fun _ _ _ => Iff.rfl, fun _ => rfl, rfl, rfl⟩
theorem FrameOf.trans {F : Cells} {s s' s'' : State} (h : FrameOf F s s') (g : FrameOf F s' s'') : FrameOf F s s'' :=
  ⟨fun i k hf => (g.look i k hf).trans (h.look i k hf), fun i k hf => (g.vol i k hf).trans (h.vol i k hf),
   fun i => (g.has i).trans (h.has i), g.conns.trans h.conns, g.emb.trans h.emb⟩
theorem FrameOf.mono {F G : Cells} (hFG : ∀ i k, F i k → G i k) {s s' : State} (h : FrameOf F s s') : FrameOf G s s' :=
  ⟨fun i k hg => h.look i k (fun hf => hg (hFG i k hf)), fun i k hg => h.vol i k (fun hf => hg (hFG i k hf)),
   h.has, h.conns, h.emb⟩

/-- the same action run from two states that agree on `F`: the results agree on `F`, both runs stay inside
    `F`, and both move the memory counter by the same amount -/
structure Joint (F : Cells) (s t s' t' : State) : Prop where
  agree : AgreeOn F s' t'
  fs : FrameOf F s s'
  ft : FrameOf F t t'
  mem : s'.mem - s.mem = t'.mem - t.mem

theorem Joint.refl {F : Cells} {s t : State} (h : AgreeOn F s t) : Joint F s t s t :=
  ⟨h, FrameOf.refl F s, FrameOf.refl F t, by omega⟩
theorem Joint.trans {F : Cells} {s t s' t' s'' t'' : State} (h : Joint F s t s' t') (g : Joint F s' t' s'' t'') :
    Joint F s t s'' t'' :=
  ⟨g.agree, h.fs.trans g.fs, h.ft.trans g.ft, by have := h.mem; have := g.mem; omega⟩

/-! ### single-cell updates -/

theorem db_of_put (s s' : State) (i : Nat) (d : Db) (h : s'.dbs = s.dbs.put i d) (j : Nat) :
    s'.db j = if j = i then d else s.db j := by
  unfold State.db
  rw [h]
  by_cases hj : j = i
  · subst hj; simp
  · rw [NMap.get_put_other _ _ _ _ (Ne.symm hj)]; simp [hj]

theorem hasDb_of_put (s s' : State) (i : Nat) (d : Db) (h : s'.dbs = s.dbs.put i d) (hi : s.hasDb i = true) (j : Nat) :
    s'.hasDb j = s.hasDb j := by
  unfold State.hasDb at *
  rw [h]
  by_cases hj : j = i
  · subst hj; simp [hi]
  · rw [NMap.get_put_other _ _ _ _ (Ne.symm hj)]

/-- effect on the volatile-index membership of the updated key -/
inductive VolEff where
  | keep | set | clear

/-- `s'` is `s` with the one cell (i, k) rewritten: its entry by `g`, its index membership by `eff`, the
    memory counter moved by `m` — both functions of what the cell held -/
structure CellUpd (i : Nat) (k : Bytes) (g : Option Entry → Option Entry) (eff : VolEff) (m : Option Entry → Int)
    (s s' : State) : Prop where
  look_same : s'.lookup i k = g (s.lookup i k)
  look_other : ∀ j x, ¬ (j = i ∧ x = k) → s'.lookup j x = s.lookup j x
  vol_same : match eff with
    | .keep => (k ∈ (s'.db i).vol ↔ k ∈ (s.db i).vol)
    | .set => k ∈ (s'.db i).vol
    | .clear => ¬ k ∈ (s'.db i).vol
  vol_other : ∀ j x, ¬ (j = i ∧ x = k) → (x ∈ (s'.db j).vol ↔ x ∈ (s.db j).vol)
  mem : s'.mem = s.mem + m (s.lookup i k)
  has : ∀ j, s'.hasDb j = s.hasDb j
  conns : s'.conns = s.conns
  emb : s'.embDb = s.embDb

theorem CellUpd.frame {i k g eff m s s'} (h : CellUpd i k g eff m s s') (F : Cells) (hF : F i k) : FrameOf F s s' :=
  ⟨fun j x hn => h.look_other j x (fun ⟨a, b⟩ => hn (a ▸ b ▸ hF)),
   fun j x hn => h.vol_other j x (fun ⟨a, b⟩ => hn (a ▸ b ▸ hF)), h.has, h.conns, h.emb⟩

theorem CellUpd.joint {i k g eff m s s' t t'} (hs : CellUpd i k g eff m s s') (ht : CellUpd i k g eff m t t')
    (F : Cells) (hF : F i k) (ha : AgreeOn F s t) : Joint F s t s' t' := by
  refine ⟨?_, hs.frame F hF, ht.frame F hF, ?_⟩
  · intro j x hjx
    by_cases hc : j = i ∧ x = k
    · obtain ⟨rfl, rfl⟩ := hc
      refine ⟨by rw [hs.look_same, ht.look_same, (ha _ _ hF).1], ?_⟩
      have v1 := hs.vol_same
      have v2 := ht.vol_same
      cases eff with
      | keep => exact v1.trans ((ha _ _ hF).2.trans v2.symm)
      | set => exact ⟨fun _ => v2, fun _ => v1⟩
      | clear => exact ⟨fun a => absurd a v1, fun a => absurd a v2⟩
    · exact ⟨by rw [hs.look_other j x hc, ht.look_other j x hc, (ha j x hjx).1],
        (hs.vol_other j x hc).trans ((ha j x hjx).2.trans (ht.vol_other j x hc).symm)⟩
  · rw [hs.mem, ht.mem, (ha _ _ hF).1]; omega

theorem CellUpd.noShare {i k g eff m s s'} (h : CellUpd i k g eff m s s') (hn : NoShare s)
    (hg : ∀ e, g (s.lookup i k) = some e → e.val.oid = 0) : NoShare s' := by
  intro j x e he
  by_cases hc : j = i ∧ x = k
  · obtain ⟨rfl, rfl⟩ := hc
    rw [h.look_same] at he; exact hg e he
  · rw [h.look_other j x hc] at he; exact hn j x e he

/-! ### the state transformers behind the key-local primitives are single-cell updates -/

theorem lookup_eq_store (s : State) (i : Nat) (k : Bytes) : s.lookup i k = (s.db i).store.get k := rfl

/-- deleteKey (database present) -/
theorem deleteKey_cellUpd (s : State) (i : Nat) (k : Bytes) (hi : s.hasDb i = true) :
    CellUpd i k (fun _ => none) .clear (fun e => - (e.getD ⟨.nil, none⟩).getMem - keyMem k) s (deleteKey s i k) := by
  have hd : (deleteKey s i k).dbs = s.dbs.put i ⟨(s.db i).store.del k, (s.db i).vol.filter (· != k)⟩ := by
    simp [deleteKey, hi]
  have hdb := db_of_put s _ i _ hd
  refine ⟨?_, ?_, ?_, ?_, ?_, hasDb_of_put s _ i _ hd hi, rfl, rfl⟩
  · simp [lookup_deleteKey]
  · intro j x hn
    by_cases hj : j = i
    · subst hj
      have : k ≠ x := fun e => hn ⟨rfl, e.symm⟩
      simp [lookup_deleteKey, this]
    · exact lookup_deleteKey_otherdb s i j k x hj
  · show ¬ k ∈ ((deleteKey s i k).db i).vol
    rw [hdb]; simp
  · intro j x hn
    rw [hdb]
    by_cases hj : j = i
    · subst hj
      have : x ≠ k := fun e => hn ⟨rfl, e⟩
      simp [this]
    · simp [hj]
  · simp only [deleteKey, lookup_eq_store]; omega

/-- one SetValues loop body (database present) -/
theorem setOne_cellUpd (s : State) (i : Nat) (k : Bytes) (v : Val) (hi : s.hasDb i = true) :
    CellUpd i k (fun e => some ⟨v, e.bind (·.exp)⟩) .keep
      (fun e => (⟨v, e.bind (·.exp)⟩ : Entry).getMem + keyMem k) s (setOne i s (k, v)) := by
  have hexp : (match (s.db i).store.get k with | some e => e.exp | none => none) = ((s.db i).store.get k).bind (·.exp) := by
    cases (s.db i).store.get k <;> rfl
  have hd : (setOne i s (k, v)).dbs = s.dbs.put i ⟨(s.db i).store.put k ⟨v, ((s.db i).store.get k).bind (·.exp)⟩, (s.db i).vol⟩ := by
    simp only [setOne]
    cases (s.db i).store.get k <;> rfl
  have hdb := db_of_put s _ i _ hd
  refine ⟨?_, ?_, ?_, ?_, ?_, hasDb_of_put s _ i _ hd hi, rfl, rfl⟩
  · rw [lookup_setOne_same]
  · intro j x hn
    by_cases hj : j = i
    · subst hj
      exact lookup_setOne_other _ _ _ _ _ (fun e => hn ⟨rfl, e.symm⟩)
    · unfold State.lookup; rw [hdb]; simp [hj]
  · show k ∈ ((setOne i s (k, v)).db i).vol ↔ _
    rw [hdb]; simp
  · intro j x _
    rw [hdb]
    by_cases hj : j = i
    · subst hj; simp
    · simp [hj]
  · simp only [setOne, lookup_eq_store]
    cases (s.db i).store.get k <;> simp <;> omega

/-- setExpiry (database present): never panics, one cell rewritten, the key enters the volatile index -/
theorem setExpiry_cellUpd (c : Ctx) (s : State) (k : Bytes) (exp : Option Int) (hi : s.hasDb c.db = true) :
    ∃ s', setExpiry c s k exp = some s' ∧
      CellUpd c.db k (fun e => some ⟨(e.map (·.val)).getD .nil, exp⟩) .set (fun _ => 0) s s' := by
  have hs : setExpiry c s k exp = some { s with dbs := s.dbs.put c.db (⟨(s.db c.db).store.put k ⟨(((s.db c.db).store.get k).map (·.val)).getD .nil, exp⟩,
       if (s.db c.db).vol.contains k then (s.db c.db).vol else (s.db c.db).vol ++ [k]⟩ : Db) } := by
    unfold setExpiry
    rw [if_neg (by simp [hi])]
    dsimp only
    cases (s.db c.db).store.get k <;> rfl
  refine ⟨_, hs, ?_⟩
  have hd : ({ s with dbs := s.dbs.put c.db ⟨(s.db c.db).store.put k ⟨(((s.db c.db).store.get k).map (·.val)).getD .nil, exp⟩,
      if (s.db c.db).vol.contains k then (s.db c.db).vol else (s.db c.db).vol ++ [k]⟩ } : State).dbs = s.dbs.put c.db _ := rfl
  have hdb := db_of_put s _ c.db _ hd
  refine ⟨?_, ?_, ?_, ?_, ?_, hasDb_of_put s _ c.db _ hd hi, rfl, rfl⟩
  · unfold State.lookup; rw [hdb]; simp
  · intro j x hn
    unfold State.lookup; rw [hdb]
    by_cases hj : j = c.db
    · subst hj
      have : k ≠ x := fun e => hn ⟨rfl, e.symm⟩
      simp [KMap.get_put_other _ _ _ _ this]
    · simp [hj]
  · show k ∈ (State.db _ c.db).vol
    rw [hdb]
    by_cases hc : k ∈ (s.db c.db).vol
    · simp [hc]
    · simp [hc]
  · intro j x hn
    rw [hdb]
    by_cases hj : j = c.db
    · subst hj
      have : x ≠ k := fun e => hn ⟨rfl, e⟩
      by_cases hc : k ∈ (s.db c.db).vol
      · simp [hc]
      · simp [hc, this]
    · simp [hj]
  · simp

/-- in-place mutation of an unshared object: only the named key's value changes -/
theorem mutObj_cellUpd (s : State) (i : Nat) (k : Bytes) (v : Val) (hi : s.hasDb i = true) (hn : NoShare s) :
    CellUpd i k (fun e => e.map fun e => ⟨v.withOid 0, e.exp⟩) .keep (fun _ => 0) s (mutObj s i k v) := by
  cases hl : s.lookup i k with
  | none =>
    have : mutObj s i k v = s := by simp [mutObj, hl]
    rw [this]
    exact ⟨by simp [hl], fun _ _ _ => rfl, Iff.rfl, fun _ _ _ => Iff.rfl, by simp, fun _ => rfl, rfl, rfl⟩
  | some e =>
    have ho : e.val.oid = 0 := hn i k e hl
    let f : Bytes × Entry → Bytes × Entry := fun (p : Bytes × Entry) =>
      if p.1 = k || (e.val.oid != 0 && p.2.val.oid == e.val.oid) then (p.1, (⟨v.withOid e.val.oid, p.2.exp⟩ : Entry)) else (p.1, p.2)
    have hf : ∀ p, (f p).1 = p.1 := by intro p; simp only [f]; split <;> rfl
    have hd : (mutObj s i k v).dbs = s.dbs.put i ⟨(s.db i).store.map f, (s.db i).vol⟩ := by
      simp [mutObj, hl, f]
    have hdb := db_of_put s _ i _ hd
    refine ⟨?_, ?_, ?_, ?_, by simp [mutObj, hl], hasDb_of_put s _ i _ hd hi, ?_, ?_⟩
    · unfold State.lookup at hl ⊢
      rw [hdb]; simp only [if_true]
      rw [KMap.get_map_key _ f hf, hl]
      simp [f, ho]
    · intro j x hne
      unfold State.lookup
      rw [hdb]
      by_cases hj : j = i
      · subst hj
        have hx : ¬ x = k := fun e => hne ⟨rfl, e⟩
        simp only [if_true]
        rw [KMap.get_map_key _ f hf]
        cases (s.db j).store.get x with
        | none => rfl
        | some e' => simp [f, hx, ho]
      · simp [hj]
    · show k ∈ ((mutObj s i k v).db i).vol ↔ _
      rw [hdb]; simp
    · intro j x _
      rw [hdb]
      by_cases hj : j = i
      · subst hj; simp
      · simp [hj]
    · simp [mutObj, hl]
    · simp [mutObj, hl]

/-! ### every key-local primitive is local: same results from agreeing states, effects confined to its cells -/

/-- standing assumptions for a client: its database exists, no stored object is shared -/
def Pre (c : Ctx) (s : State) : Prop := s.hasDb c.db = true ∧ NoShare s

theorem getValues_local (c : Ctx) (F : Cells) : ∀ (ks : List Bytes), (∀ k ∈ ks, F c.db k) → ∀ (s t : State),
    Pre c s → Pre c t → AgreeOn F s t →
    (getValues c s ks).2 = (getValues c t ks).2 ∧ Joint F s t (getValues c s ks).1 (getValues c t ks).1 ∧
    NoShare (getValues c s ks).1 ∧ NoShare (getValues c t ks).1 := by
  intro ks
  induction ks with
  | nil => intro _ s t hs ht ha; exact ⟨rfl, Joint.refl ha, hs.2, ht.2⟩
  | cons k r ih =>
    intro hF s t hs ht ha
    have hFk : F c.db k := hF k (by simp)
    have hFr : ∀ x ∈ r, F c.db x := fun x hx => hF x (by simp [hx])
    have hl := (ha _ _ hFk).1
    unfold getValues
    rw [← hl]
    cases hlk : s.lookup c.db k with
    | none =>
      obtain ⟨h1, h2, h3, h4⟩ := ih hFr s t hs ht ha
      simp only [h1]
      exact ⟨trivial, h2, h3, h4⟩
    | some e =>
      simp only
      by_cases he : e.expired c.now = true
      · simp only [he, if_true]
        have us := deleteKey_cellUpd s c.db k hs.1
        have ut := deleteKey_cellUpd t c.db k ht.1
        have j1 := us.joint ut F hFk ha
        have ns : NoShare (deleteKey s c.db k) := us.noShare hs.2 (by intro e h; cases h)
        have nt : NoShare (deleteKey t c.db k) := ut.noShare ht.2 (by intro e h; cases h)
        have ps : Pre c (deleteKey s c.db k) := ⟨by rw [us.has]; exact hs.1, ns⟩
        have pt : Pre c (deleteKey t c.db k) := ⟨by rw [ut.has]; exact ht.1, nt⟩
        obtain ⟨h1, h2, h3, h4⟩ := ih hFr _ _ ps pt j1.agree
        simp only [h1]
        exact ⟨trivial, j1.trans h2, h3, h4⟩
      · simp only [he, Bool.false_eq_true, if_false]
        obtain ⟨h1, h2, h3, h4⟩ := ih hFr s t hs ht ha
        simp only [h1]
        exact ⟨trivial, h2, h3, h4⟩

theorem foldl_setOne_local (c : Ctx) (F : Cells) : ∀ (l : List (Bytes × Val)), (∀ kv ∈ l, F c.db kv.1) →
    (∀ kv ∈ l, kv.2.oid = 0) → ∀ (s t : State), Pre c s → Pre c t → AgreeOn F s t →
    Joint F s t (l.foldl (setOne c.db) s) (l.foldl (setOne c.db) t) ∧
    NoShare (l.foldl (setOne c.db) s) ∧ NoShare (l.foldl (setOne c.db) t) := by
  intro l
  induction l with
  | nil => intro _ _ s t hs ht ha; exact ⟨Joint.refl ha, hs.2, ht.2⟩
  | cons kv r ih =>
    intro hF ho s t hs ht ha
    obtain ⟨k, v⟩ := kv
    have hFk : F c.db k := hF (k, v) (by simp)
    have hov : v.oid = 0 := ho (k, v) (by simp)
    have us := setOne_cellUpd s c.db k v hs.1
    have ut := setOne_cellUpd t c.db k v ht.1
    have j1 := us.joint ut F hFk ha
    have ns : NoShare (setOne c.db s (k, v)) := us.noShare hs.2 (by intro e h; cases h; exact hov)
    have nt : NoShare (setOne c.db t (k, v)) := ut.noShare ht.2 (by intro e h; cases h; exact hov)
    have ps : Pre c (setOne c.db s (k, v)) := ⟨by rw [us.has]; exact hs.1, ns⟩
    have pt : Pre c (setOne c.db t (k, v)) := ⟨by rw [ut.has]; exact ht.1, nt⟩
    obtain ⟨h2, h3, h4⟩ := ih (fun x hx => hF x (by simp [hx])) (fun x hx => ho x (by simp [hx])) _ _ ps pt j1.agree
    simp only [List.foldl]
    exact ⟨j1.trans h2, h3, h4⟩

theorem mem_put {α : Type} (m : KMap α) (k : Bytes) (v : α) (p : Bytes × α) (h : p ∈ KMap.put m k v) : p ∈ m ∨ p = (k, v) := by
  induction m with
  | nil => simp [KMap.put] at h; exact Or.inr h
  | cons q r ih =>
    obtain ⟨k', v'⟩ := q
    unfold KMap.put at h
    by_cases hk : k' = k
    · simp only [hk, if_true, List.mem_cons] at h
      rcases h with h | h
      · exact Or.inr h
      · exact Or.inl (by simp [h])
    · simp only [hk, if_false, List.mem_cons] at h
      rcases h with h | h
      · exact Or.inl (by simp [h])
      · rcases ih h with h | h
        · exact Or.inl (by simp [h])
        · exact Or.inr h

theorem mem_dedupLast (es : List (Bytes × Val)) (p : Bytes × Val) (h : p ∈ dedupLast es) : p ∈ es := by
  unfold dedupLast at h
  have : ∀ (l : List (Bytes × Val)) (acc : KMap Val), p ∈ l.foldl (fun acc (kv : Bytes × Val) => KMap.put acc kv.1 kv.2) acc → p ∈ acc ∨ p ∈ l := by
    intro l
    induction l with
    | nil => intro acc h; exact Or.inl h
    | cons q r ih =>
      intro acc h
      simp only [List.foldl] at h
      rcases ih _ h with h | h
      · rcases mem_put _ _ _ _ h with h | h
        · exact Or.inl h
        · exact Or.inr (by simp [h])
      · exact Or.inr (by simp [h])
  rcases this es [] h with h | h
  · simp at h
  · exact h

theorem setValues_eq (c : Ctx) (hm : c.cfg.maxMemory = 0) (s : State) (hs : s.hasDb c.db = true) (es : List (Bytes × Val)) :
    setValues c s es = ((dedupLast es).foldl (setOne c.db) s, true) := by
  unfold setValues
  simp only [isMaxMemoryExceeded, hm, bne_self_eq_false, Bool.false_and, Bool.false_eq_true, if_false]
  simp [State.createDb, hs]

/-- **locality of the key-local primitives**: run from two states that agree on the primitive's cells (no
    memory limit, database present, nothing shared) it does not panic, answers the same, leaves states that
    agree on those cells, touches nothing else, and moves the memory counter by the same amount -/
theorem exec_local (c : Ctx) (hm : c.cfg.maxMemory = 0) (p : Prim) (ks : List Bytes) (hk : p.keys = some ks)
    (s t : State) (hs : Pre c s) (ht : Pre c t) (ha : AgreeOn (cellsOf c.db ks) s t) :
    ∃ s' t' r, p.exec c s = some (s', r) ∧ p.exec c t = some (t', r) ∧
      Joint (cellsOf c.db ks) s t s' t' ∧ NoShare s' ∧ NoShare t' := by
  cases p with
  | keysExist l =>
    simp only [Prim.keys, Option.some.injEq] at hk; subst hk
    refine ⟨s, t, keysExist s c.db l, rfl, ?_, Joint.refl ha, hs.2, ht.2⟩
    have : keysExist t c.db l = keysExist s c.db l := by
      unfold keysExist
      apply List.map_congr_left
      intro k hk; rw [(ha c.db k ⟨rfl, hk⟩).1]
    simp only [Prim.exec, this]
  | getExpiry k =>
    simp only [Prim.keys, Option.some.injEq] at hk; subst hk
    refine ⟨s, t, getExpiry s c.db k, rfl, ?_, Joint.refl ha, hs.2, ht.2⟩
    have : getExpiry t c.db k = getExpiry s c.db k := by
      unfold getExpiry; rw [(ha c.db k ⟨rfl, by simp⟩).1]
    simp only [Prim.exec, this]
  | getValues l =>
    simp only [Prim.keys, Option.some.injEq] at hk; subst hk
    obtain ⟨h1, h2, h3, h4⟩ := getValues_local c (cellsOf c.db l) l (fun k hk => ⟨rfl, hk⟩) s t hs ht ha
    exact ⟨(getValues c s l).1, (getValues c t l).1, (getValues c s l).2, rfl,
      by rw [h1]; rfl, h2, h3, h4⟩
  | setValues es =>
    simp only [Prim.keys] at hk
    split at hk
    · rename_i hall
      simp only [Option.some.injEq] at hk; subst hk
      have hF : ∀ kv ∈ dedupLast es, cellsOf c.db (es.map (·.1)) c.db kv.1 :=
        fun kv h => ⟨rfl, List.mem_map_of_mem (mem_dedupLast es kv h)⟩
      have ho : ∀ kv ∈ dedupLast es, kv.2.oid = 0 := by
        intro kv h
        have := List.all_eq_true.mp hall kv (mem_dedupLast es kv h)
        simpa using this
      obtain ⟨h2, h3, h4⟩ := foldl_setOne_local c _ (dedupLast es) hF ho s t hs ht ha
      refine ⟨_, _, true, ?_, ?_, h2, h3, h4⟩
      · show some (setValues c s es) = _
        rw [setValues_eq c hm s hs.1]; rfl
      · show some (setValues c t es) = _
        rw [setValues_eq c hm t ht.1]; rfl
    · cases hk
  | setExpiry k e tch =>
    simp only [Prim.keys, Option.some.injEq] at hk; subst hk
    obtain ⟨s', e1, us⟩ := setExpiry_cellUpd c s k e hs.1
    obtain ⟨t', e2, ut⟩ := setExpiry_cellUpd c t k e ht.1
    have hF : cellsOf c.db [k] c.db k := ⟨rfl, by simp⟩
    refine ⟨s', t', (), by simp [Prim.exec, e1], by simp [Prim.exec, e2], us.joint ut _ hF ha, ?_, ?_⟩
    · refine us.noShare hs.2 ?_
      intro x hx
      simp only [Option.some.injEq] at hx; subst hx
      cases hl : s.lookup c.db k with
      | none => rfl
      | some e0 => exact hs.2 c.db k e0 hl
    · refine ut.noShare ht.2 ?_
      intro x hx
      simp only [Option.some.injEq] at hx; subst hx
      cases hl : t.lookup c.db k with
      | none => rfl
      | some e0 => exact ht.2 c.db k e0 hl
  | deleteKey k =>
    simp only [Prim.keys, Option.some.injEq] at hk; subst hk
    have us := deleteKey_cellUpd s c.db k hs.1
    have ut := deleteKey_cellUpd t c.db k ht.1
    have hF : cellsOf c.db [k] c.db k := ⟨rfl, by simp⟩
    exact ⟨_, _, (), rfl, rfl, us.joint ut _ hF ha, us.noShare hs.2 (by intro e h; cases h),
      ut.noShare ht.2 (by intro e h; cases h)⟩
  | mutObj k v =>
    simp only [Prim.keys, Option.some.injEq] at hk; subst hk
    have us := mutObj_cellUpd s c.db k v hs.1 hs.2
    have ut := mutObj_cellUpd t c.db k v ht.1 ht.2
    have hF : cellsOf c.db [k] c.db k := ⟨rfl, by simp⟩
    have hoid : ∀ (w : State) (e : Entry), (w.lookup c.db k).map (fun e => (⟨v.withOid 0, e.exp⟩ : Entry)) = some e → e.val.oid = 0 := by
      intro w e h
      cases hl : w.lookup c.db k with
      | none => rw [hl] at h; cases h
      | some e0 =>
        rw [hl] at h; simp only [Option.map_some, Option.some.injEq] at h; subst h
        cases v <;> rfl
    exact ⟨_, _, (), rfl, rfl, us.joint ut _ hF ha, us.noShare hs.2 (hoid s), ut.noShare ht.2 (hoid t)⟩
  | flush a => cases hk
  | newOid => cases hk
  | tagOid k o => cases hk
  | setConnDb d => cases hk
  | swapDbs a b => cases hk

/-! ### congruence and commutation of primitives -/

theorem AgreeOn.of_equiv {s t : State} (h : s.Equiv t) (F : Cells) : AgreeOn F s t :=
  fun i k _ => ⟨h.look i k, h.vol i k⟩

theorem Pre.of_equiv {c : Ctx} {s t : State} (h : s.Equiv t) (hs : Pre c s) : Pre c t :=
  ⟨by rw [← h.has]; exact hs.1, hs.2.of_equiv h⟩

/-- equivalent states stay equivalent under the same joint step -/
theorem Joint.equiv {F : Cells} {s t s' t' : State} (j : Joint F s t s' t') (h : s.Equiv t) : s'.Equiv t' := by
  refine ⟨?_, ?_, ?_, ?_, ?_, ?_⟩
  · intro i k
    by_cases hf : F i k
    · exact (j.agree i k hf).1
    · rw [j.fs.look i k hf, j.ft.look i k hf, h.look]
  · intro i k
    by_cases hf : F i k
    · exact (j.agree i k hf).2
    · exact (j.fs.vol i k hf).trans ((h.vol i k).trans (j.ft.vol i k hf).symm)
  · intro i; rw [j.fs.has, j.ft.has, h.has]
  · have := j.mem; have := h.mem; omega
  · rw [j.fs.conns, j.ft.conns, h.conns]
  · rw [j.fs.emb, j.ft.emb, h.emb]

/-- **`Equiv` is a congruence for every key-local primitive**: equal results, equivalent states -/
theorem exec_congr (c : Ctx) (hm : c.cfg.maxMemory = 0) (p : Prim) (ks : List Bytes) (hk : p.keys = some ks)
    (s t : State) (hs : Pre c s) (he : s.Equiv t) :
    ∃ s' t' r, p.exec c s = some (s', r) ∧ p.exec c t = some (t', r) ∧ s'.Equiv t' ∧
      FrameOf (cellsOf c.db ks) s s' ∧ NoShare s' := by
  obtain ⟨s', t', r, e1, e2, j, n1, _⟩ := exec_local c hm p ks hk s t hs (hs.of_equiv he) (AgreeOn.of_equiv he _)
  exact ⟨s', t', r, e1, e2, j.equiv he, j.fs, n1⟩

/-- the standing assumptions for a pair of clients -/
def Inv (cA cB : Ctx) (s : State) : Prop := s.hasDb cA.db = true ∧ s.hasDb cB.db = true ∧ NoShare s

theorem Inv.preA {cA cB : Ctx} {s : State} (h : Inv cA cB s) : Pre cA s := ⟨h.1, h.2.2⟩
theorem Inv.preB {cA cB : Ctx} {s : State} (h : Inv cA cB s) : Pre cB s := ⟨h.2.1, h.2.2⟩
theorem Inv.of_frame {cA cB : Ctx} {F : Cells} {s s' : State} (h : Inv cA cB s) (f : FrameOf F s s') (n : NoShare s') :
    Inv cA cB s' := ⟨by rw [f.has]; exact h.1, by rw [f.has]; exact h.2.1, n⟩
theorem Inv.of_equiv {cA cB : Ctx} {s t : State} (h : Inv cA cB s) (e : s.Equiv t) : Inv cA cB t :=
  ⟨by rw [← e.has]; exact h.1, by rw [← e.has]; exact h.2.1, h.2.2.of_equiv e⟩
theorem Inv.swap {cA cB : Ctx} {s : State} (h : Inv cA cB s) : Inv cB cA s := ⟨h.2.1, h.1, h.2.2⟩

/-- **two key-local primitives of two clients on disjoint cells commute**: either order gives each the same
    result and leaves equivalent states -/
theorem exec_comm (cA cB : Ctx) (hmA : cA.cfg.maxMemory = 0) (hmB : cB.cfg.maxMemory = 0)
    (p q : Prim) (ksA ksB : List Bytes) (hp : p.keys = some ksA) (hq : q.keys = some ksB)
    (hdisj : ∀ i k, cellsOf cA.db ksA i k → cellsOf cB.db ksB i k → False)
    (s : State) (hs : Inv cA cB s) :
    ∃ s1 s12 s2 s21 r1 r2, p.exec cA s = some (s1, r1) ∧ q.exec cB s1 = some (s12, r2) ∧
      q.exec cB s = some (s2, r2) ∧ p.exec cA s2 = some (s21, r1) ∧ s12.Equiv s21 ∧
      Inv cA cB s1 ∧ Inv cA cB s2 ∧ Inv cA cB s12 := by
  -- q alone from s
  obtain ⟨s2, _, r2, eq2, _, jq, nq, _⟩ := exec_local cB hmB q ksB hq s s hs.preB hs.preB (AgreeOn.of_equiv (State.Equiv.refl s) _)
  have i2 : Inv cA cB s2 := hs.of_frame jq.fs nq
  -- p from s and from s2, which agree on p's cells
  have a1 : AgreeOn (cellsOf cA.db ksA) s s2 := fun i k hf =>
    ⟨(jq.fs.look i k (fun hg => hdisj i k hf hg)).symm, (jq.fs.vol i k (fun hg => hdisj i k hf hg)).symm⟩
  obtain ⟨s1, s21, r1, ep1, ep2, jp, n1, n21⟩ := exec_local cA hmA p ksA hp s s2 hs.preA i2.preA a1
  have i1 : Inv cA cB s1 := hs.of_frame jp.fs n1
  -- q from s and from s1, which agree on q's cells
  have a2 : AgreeOn (cellsOf cB.db ksB) s s1 := fun i k hg =>
    ⟨(jp.fs.look i k (fun hf => hdisj i k hf hg)).symm, (jp.fs.vol i k (fun hf => hdisj i k hf hg)).symm⟩
  obtain ⟨s2', s12, r2', eq2', eq12, jq2, _, n12⟩ := exec_local cB hmB q ksB hq s s1 hs.preB i1.preB a2
  have hinj : (s2', r2') = (s2, r2) := Option.some.inj (eq2'.symm.trans eq2)
  obtain ⟨rfl, rfl⟩ := Prod.mk.inj hinj
  refine ⟨s1, s12, s2', s21, r1, r2', ep1, eq12, eq2, ep2, ?_, i1, i2, i1.of_frame jq2.ft n12⟩
  refine ⟨?_, ?_, ?_, ?_, ?_, ?_⟩
  · intro i k
    by_cases hf : cellsOf cA.db ksA i k
    · have hg : ¬ cellsOf cB.db ksB i k := fun hg => hdisj i k hf hg
      rw [jq2.ft.look i k hg]; exact (jp.agree i k hf).1
    · by_cases hg : cellsOf cB.db ksB i k
      · rw [jp.ft.look i k hf]; exact ((jq2.agree i k hg).1).symm
      · rw [jq2.ft.look i k hg, jp.fs.look i k hf, jp.ft.look i k hf, jq2.fs.look i k hg]
  · intro i k
    by_cases hf : cellsOf cA.db ksA i k
    · have hg : ¬ cellsOf cB.db ksB i k := fun hg => hdisj i k hf hg
      exact (jq2.ft.vol i k hg).trans (jp.agree i k hf).2
    · by_cases hg : cellsOf cB.db ksB i k
      · exact ((jq2.agree i k hg).2).symm.trans (jp.ft.vol i k hf).symm
      · exact (jq2.ft.vol i k hg).trans ((jp.fs.vol i k hf).trans
          ((jq2.fs.vol i k hg).symm.trans (jp.ft.vol i k hf).symm))
  · intro i; rw [jq2.ft.has, jp.fs.has, jp.ft.has, jq2.fs.has]
  · have := jp.mem; have := jq2.mem; omega
  · rw [jq2.ft.conns, jp.fs.conns, jp.ft.conns, jq2.fs.conns]
  · rw [jq2.ft.emb, jp.fs.emb, jp.ft.emb, jq2.fs.emb]

/-! ### lifting to step programs -/

/-- the cells of a client whose keys lie in `K` -/
def cellsIn (i : Nat) (K : Bytes → Prop) : Cells := fun j k => j = i ∧ K k

/-- the two clients' footprints cannot meet: different databases, or disjoint key sets -/
def Disjoint (cA cB : Ctx) (KA KB : Bytes → Prop) : Prop := cA.db = cB.db → ∀ k, KA k → KB k → False

theorem Disjoint.symm {cA cB : Ctx} {KA KB : Bytes → Prop} (h : Disjoint cA cB KA KB) : Disjoint cB cA KB KA :=
  fun e k hb ha => h e.symm k ha hb

theorem Disjoint.cells {cA cB : Ctx} {KA KB : Bytes → Prop} (h : Disjoint cA cB KA KB) (ksA ksB : List Bytes)
    (hA : ∀ x ∈ ksA, KA x) (hB : ∀ x ∈ ksB, KB x) :
    ∀ i k, cellsOf cA.db ksA i k → cellsOf cB.db ksB i k → False :=
  fun _ k ⟨e1, m1⟩ ⟨e2, m2⟩ => h (e1.symm.trans e2) k (hA k m1) (hB k m2)

/-- a program confined to `K` keeps the standing assumptions, whichever of the two clients runs it -/
theorem run_inv {α : Type} (cA cB c : Ctx) (hc : c.db = cA.db ∨ c.db = cB.db) (hm : c.cfg.maxMemory = 0) (K : Bytes → Prop) :
    ∀ (p : Prog α), p.Within K → ∀ s, Inv cA cB s → Inv cA cB (p.run c s).1 := by
  intro p
  induction p with
  | ret a => intro _ s h; exact h
  | panic w => intro _ s h; exact h
  | unmod w => intro _ s h; exact h
  | call q k ih =>
    intro hw s h
    obtain ⟨⟨ks, hk, _⟩, hrest⟩ := hw
    have hpre : Pre c s := by
      rcases hc with e | e
      · exact ⟨by rw [e]; exact h.1, h.2.2⟩
      · exact ⟨by rw [e]; exact h.2.1, h.2.2⟩
    obtain ⟨s', _, r, e1, _, _, f, n⟩ := exec_congr c hm q ks hk s s hpre (State.Equiv.refl s)
    simp only [Prog.run, e1]
    exact ih r (hrest r) s' (h.of_frame f n)

/-- **`Equiv` is a congruence for programs confined to key-local primitives** -/
theorem run_congr {α : Type} (c : Ctx) (hm : c.cfg.maxMemory = 0) (K : Bytes → Prop) :
    ∀ (p : Prog α), p.Within K → ∀ s t, Pre c s → s.Equiv t →
      (p.run c s).2 = (p.run c t).2 ∧ (p.run c s).1.Equiv (p.run c t).1 := by
  intro p
  induction p with
  | ret a => intro _ s t _ h; exact ⟨rfl, h⟩
  | panic w => intro _ s t _ h; exact ⟨rfl, h⟩
  | unmod w => intro _ s t _ h; exact ⟨rfl, h⟩
  | call q k ih =>
    intro hw s t hs h
    obtain ⟨⟨ks, hk, _⟩, hrest⟩ := hw
    obtain ⟨s', t', r, e1, e2, he, f, n⟩ := exec_congr c hm q ks hk s t hs h
    simp only [Prog.run, e1, e2]
    exact ih r (hrest r) s' t' ⟨by rw [f.has]; exact hs.1, n⟩ he

/-- **a program of A commutes with one primitive of B on cells outside A's footprint** -/
theorem run_comm_prim {α : Type} (cA cB : Ctx) (hmA : cA.cfg.maxMemory = 0) (hmB : cB.cfg.maxMemory = 0)
    (KA KB : Bytes → Prop) (hd : Disjoint cA cB KA KB)
    (q : Prim) (ksB : List Bytes) (hq : q.keys = some ksB) (hqB : ∀ x ∈ ksB, KB x) :
    ∀ (p : Prog α), p.Within KA → ∀ s, Inv cA cB s →
      ∃ sq r s4, q.exec cB s = some (sq, r) ∧ q.exec cB (p.run cA s).1 = some (s4, r) ∧
        (p.run cA sq).2 = (p.run cA s).2 ∧ (p.run cA sq).1.Equiv s4 ∧ Inv cA cB sq := by
  intro p
  induction p with
  | ret a =>
    intro _ s h
    obtain ⟨sq, _, r, e1, _, _, f, n⟩ := exec_congr cB hmB q ksB hq s s h.preB (State.Equiv.refl s)
    exact ⟨sq, r, sq, e1, e1, rfl, State.Equiv.refl _, h.of_frame f n⟩
  | panic w =>
    intro _ s h
    obtain ⟨sq, _, r, e1, _, _, f, n⟩ := exec_congr cB hmB q ksB hq s s h.preB (State.Equiv.refl s)
    exact ⟨sq, r, sq, e1, e1, rfl, State.Equiv.refl _, h.of_frame f n⟩
  | unmod w =>
    intro _ s h
    obtain ⟨sq, _, r, e1, _, _, f, n⟩ := exec_congr cB hmB q ksB hq s s h.preB (State.Equiv.refl s)
    exact ⟨sq, r, sq, e1, e1, rfl, State.Equiv.refl _, h.of_frame f n⟩
  | call p k ih =>
    intro hw s h
    obtain ⟨⟨ksA, hp, hpA⟩, hrest⟩ := hw
    -- p then q  ≈  q then p, from s
    obtain ⟨sp, spq, sq, sqp, rp, rq, e1, e2, e3, e4, heq, i1, i2, _⟩ :=
      exec_comm cA cB hmA hmB p q ksA ksB hp hq (hd.cells ksA ksB hpA hqB) s h
    -- the rest of the program against q, from sp
    obtain ⟨sq', r', s4, f1, f2, f3, f4, _⟩ := ih rp (hrest rp) sp i1
    have hinj : (sq', r') = (spq, rq) := Option.some.inj (f1.symm.trans e2)
    obtain ⟨rfl, rfl⟩ := Prod.mk.inj hinj
    -- the rest of the program from the two equivalent states sqp ≈ spq
    have i_sqp : Inv cA cB sqp := by
      obtain ⟨_, _, _, e1', _, _, f, n⟩ := exec_congr cA hmA p ksA hp sq sq i2.preA (State.Equiv.refl sq)
      have : (sqp, rp) = _ := Option.some.inj (e4.symm.trans e1')
      obtain ⟨rfl, rfl⟩ := Prod.mk.inj this
      exact i2.of_frame f n
    obtain ⟨c1, c2⟩ := run_congr cA hmA KA (k rp) (hrest rp) sqp sq' i_sqp.preA heq.symm
    refine ⟨sq, r', s4, e3, ?_, ?_, ?_, i2⟩
    · simp only [Prog.run, e1]; exact f2
    · simp only [Prog.run, e1, e4]; rw [c1, f3]
    · simp only [Prog.run, e4]; exact c2.trans f4

/-- **programs of two clients with disjoint footprints commute**: B-then-A and A-then-B give both the same
    outcomes and equivalent states -/
theorem run_comm_run {α β : Type} (cA cB : Ctx) (hmA : cA.cfg.maxMemory = 0) (hmB : cB.cfg.maxMemory = 0)
    (KA KB : Bytes → Prop) (hd : Disjoint cA cB KA KB) (pA : Prog α) (hA : pA.Within KA) :
    ∀ (pB : Prog β), pB.Within KB → ∀ s, Inv cA cB s →
      (pA.run cA (pB.run cB s).1).2 = (pA.run cA s).2 ∧
      (pB.run cB (pA.run cA s).1).2 = (pB.run cB s).2 ∧
      (pA.run cA (pB.run cB s).1).1.Equiv (pB.run cB (pA.run cA s).1).1 := by
  intro pB
  induction pB with
  | ret a => intro _ s _; exact ⟨rfl, rfl, State.Equiv.refl _⟩
  | panic w => intro _ s _; exact ⟨rfl, rfl, State.Equiv.refl _⟩
  | unmod w => intro _ s _; exact ⟨rfl, rfl, State.Equiv.refl _⟩
  | call q k ih =>
    intro hw s h
    obtain ⟨⟨ksB, hq, hqB⟩, hrest⟩ := hw
    obtain ⟨sq, r, s4, e1, e2, o1, eq1, iq⟩ := run_comm_prim cA cB hmA hmB KA KB hd q ksB hq hqB pA hA s h
    obtain ⟨g1, g2, g3⟩ := ih r (hrest r) sq iq
    -- the continuation of B from the two equivalent states
    have iA : Inv cA cB (pA.run cA sq).1 := run_inv cA cB cA (Or.inl rfl) hmA KA pA hA sq iq
    obtain ⟨c1, c2⟩ := run_congr cB hmB KB (k r) (hrest r) _ _ iA.preB eq1
    refine ⟨?_, ?_, ?_⟩
    · simp only [Prog.run, e1]; rw [g1, o1]
    · simp only [Prog.run, e1, e2]; rw [← c1, g2]
    · simp only [Prog.run, e1, e2]; exact g3.trans c2

end Sugar

namespace Sugar.Sched
open Sugar

/-! ### scheduling steps as program runs -/

/-- the client's own code up to its next hooked primitive, as a program that returns the thread -/
def park : Prog Res → Prog Thread
  | .ret a => .ret (.done (.done a))
  | .panic w => .ret (.done (.panic w))
  | .unmod w => .ret (.done (.unmod w))
  | .call p k => if hooked p then .ret (.parked p k) else .call p fun r => park (k r)

/-- a run of a thread-valued program read as a thread (a panicking primitive finishes the client) -/
def thr : Outcome Thread → Thread
  | .done t => t
  | .panic w => .done (.panic w)
  | .unmod w => .done (.unmod w)

/-- the rest of the client's command -/
def Thread.prog : Thread → Prog Res
  | .done o => Prog.ofOutcome o
  | .parked p k => .call p k

/-- one scheduling step of the client: its pending primitive, then its own code -/
def Thread.stepProg : Thread → Prog Thread
  | .done o => .ret (.done o)
  | .parked p k => .call p fun r => park (k r)

/-- the keys the rest of the command can touch lie in `K` -/
def Thread.Within (K : Bytes → Prop) (t : Thread) : Prop := t.prog.Within K

theorem settle_eq (c : Ctx) : ∀ (p : Prog Res) (s : State),
    settle c p s = (((park p).run c s).1, thr ((park p).run c s).2) := by
  intro p
  induction p with
  | ret a => intro s; rfl
  | panic w => intro s; rfl
  | unmod w => intro s; rfl
  | call q k ih =>
    intro s
    unfold settle park
    by_cases hh : hooked q = true
    · simp only [hh, if_true]; rfl
    · simp only [hh, Bool.false_eq_true, if_false, Prog.run]
      cases q.exec c s with
      | none => rfl
      | some sr => obtain ⟨s', r⟩ := sr; exact ih r s'

theorem stepThread_eq (c : Ctx) (t : Thread) (s : State) :
    (stepThread c t s).1 = (t.stepProg.run c s).1 ∧ (stepThread c t s).2.1 = thr (t.stepProg.run c s).2 := by
  cases t with
  | done o => exact ⟨rfl, rfl⟩
  | parked p k =>
    simp only [stepThread, Thread.stepProg, Prog.run]
    cases p.exec c s with
    | none => exact ⟨rfl, rfl⟩
    | some sr =>
      obtain ⟨s', r⟩ := sr
      simp only [settle_eq c (k r) s']
      first | exact ⟨rfl, rfl⟩ | exact ⟨trivial, rfl⟩ | exact ⟨rfl, trivial⟩ | trivial

theorem runAlone_eq (c : Ctx) (p : Prog Res) (s : State) :
    (runAlone c p s).1 = (p.run c s).1 ∧ (runAlone c p s).2.1 = (p.run c s).2 := by
  induction p generalizing s with
  | ret a => exact ⟨rfl, rfl⟩
  | panic w => exact ⟨rfl, rfl⟩
  | unmod w => exact ⟨rfl, rfl⟩
  | call q k ih =>
    simp only [runAlone, Prog.run]
    cases q.exec c s with
    | none => exact ⟨rfl, rfl⟩
    | some sr => obtain ⟨s', r⟩ := sr; exact ih r s'

theorem finish_eq (c : Ctx) (t : Thread) (s : State) :
    (finish c t s).1 = (t.prog.run c s).1 ∧ (finish c t s).2.1 = (t.prog.run c s).2 := by
  cases t with
  | done o => cases o <;> exact ⟨rfl, rfl⟩
  | parked p k => exact runAlone_eq c (.call p k) s

/-- running the parked remainder after the client's own code is running the program -/
theorem run_park (c : Ctx) : ∀ (p : Prog Res) (s : State),
    (thr ((park p).run c s).2).prog.run c ((park p).run c s).1 = p.run c s := by
  intro p
  induction p with
  | ret a => intro s; rfl
  | panic w => intro s; rfl
  | unmod w => intro s; rfl
  | call q k ih =>
    intro s
    unfold park
    by_cases hh : hooked q = true
    · simp only [hh, if_true]; rfl
    · simp only [hh, Bool.false_eq_true, if_false, Prog.run]
      cases q.exec c s with
      | none => rfl
      | some sr => obtain ⟨s', r⟩ := sr; exact ih r s'

/-- **a scheduling step followed by running the rest is running the whole remainder** -/
theorem run_stepProg (c : Ctx) (t : Thread) (s : State) :
    (thr (t.stepProg.run c s).2).prog.run c (t.stepProg.run c s).1 = t.prog.run c s := by
  cases t with
  | done o => rfl
  | parked p k =>
    simp only [Thread.stepProg, Thread.prog, Prog.run]
    cases p.exec c s with
    | none => rfl
    | some sr => obtain ⟨s', r⟩ := sr; exact run_park c (k r) s'

/-- every value the program can return satisfies `P` -/
def Rets {α : Type} (P : α → Prop) : Prog α → Prop
  | .ret a => P a
  | .panic _ => True
  | .unmod _ => True
  | .call _ k => ∀ r, Rets P (k r)

theorem rets_run {α : Type} (P : α → Prop) (c : Ctx) : ∀ (p : Prog α), Rets P p → ∀ s,
    match (p.run c s).2 with | .done a => P a | _ => True := by
  intro p
  induction p with
  | ret a => intro h s; exact h
  | panic w => intro _ s; trivial
  | unmod w => intro _ s; trivial
  | call q k ih =>
    intro h s
    simp only [Prog.run]
    cases q.exec c s with
    | none => trivial
    | some sr => obtain ⟨s', r⟩ := sr; exact ih r (h r) s'

theorem park_within (K : Bytes → Prop) : ∀ (p : Prog Res), p.Within K →
    (park p).Within K ∧ Rets (Thread.Within K) (park p) := by
  intro p
  induction p with
  | ret a => intro _; exact ⟨trivial, trivial⟩
  | panic w => intro _; exact ⟨trivial, trivial⟩
  | unmod w => intro _; exact ⟨trivial, trivial⟩
  | call q k ih =>
    intro hw
    unfold park
    by_cases hh : hooked q = true
    · simp only [hh, if_true]; exact ⟨trivial, hw⟩
    · simp only [hh, Bool.false_eq_true, if_false]
      exact ⟨⟨hw.1, fun r => (ih r (hw.2 r)).1⟩, fun r => (ih r (hw.2 r)).2⟩

theorem stepProg_within (K : Bytes → Prop) (t : Thread) (h : t.Within K) :
    t.stepProg.Within K ∧ Rets (Thread.Within K) t.stepProg := by
  cases t with
  | done o => exact ⟨trivial, by cases o <;> trivial⟩
  | parked p k =>
    exact ⟨⟨h.1, fun r => (park_within K (k r) (h.2 r)).1⟩, fun r => (park_within K (k r) (h.2 r)).2⟩

/-- the thread after a scheduling step is again confined to `K` -/
theorem thr_within (K : Bytes → Prop) (c : Ctx) (t : Thread) (h : t.Within K) (s : State) :
    (thr (t.stepProg.run c s).2).Within K := by
  have := rets_run (Thread.Within K) c t.stepProg (stepProg_within K t h).2 s
  cases hx : (t.stepProg.run c s).2 with
  | done a => rw [hx] at this; exact this
  | panic w => trivial
  | unmod w => trivial

/-! ### every schedule of two clients with disjoint footprints is the serial order A then B -/

theorem runSched_serial (cA cB : Ctx) (hmA : cA.cfg.maxMemory = 0) (hmB : cB.cfg.maxMemory = 0)
    (KA KB : Bytes → Prop) (hd : Disjoint cA cB KA KB) :
    ∀ (sched : List Bool) (tA tB : Thread) (s : State) (trA trB : List String),
      tA.Within KA → tB.Within KB → Inv cA cB s →
      (runSched cA cB sched tA tB s trA trB).a = (tA.prog.run cA s).2 ∧
      (runSched cA cB sched tA tB s trA trB).b = (tB.prog.run cB (tA.prog.run cA s).1).2 ∧
      (runSched cA cB sched tA tB s trA trB).post.Equiv (tB.prog.run cB (tA.prog.run cA s).1).1 := by
  intro sched
  induction sched with
  | nil =>
    intro tA tB s trA trB _ _ _
    obtain ⟨a1, a2⟩ := finish_eq cA tA s
    obtain ⟨b1, b2⟩ := finish_eq cB tB (tA.prog.run cA s).1
    simp only [runSched]
    rw [a1]
    exact ⟨a2, b2, by rw [b1]; exact State.Equiv.refl _⟩
  | cons x r ih =>
    intro tA tB s trA trB hA hB hs
    cases x with
    | true =>
      obtain ⟨e1, e2⟩ := stepThread_eq cA tA s
      have hA' := thr_within KA cA tA hA s
      have hs' : Inv cA cB (tA.stepProg.run cA s).1 :=
        run_inv cA cB cA (Or.inl rfl) hmA KA _ (stepProg_within KA tA hA).1 s hs
      have := ih (thr (tA.stepProg.run cA s).2) tB (tA.stepProg.run cA s).1
        (trA ++ (stepThread cA tA s).2.2.toList) trB hA' hB hs'
      rw [run_stepProg cA tA s] at this
      simp only [runSched]
      rw [e1, e2]
      exact this
    | false =>
      obtain ⟨e1, e2⟩ := stepThread_eq cB tB s
      have hB' := thr_within KB cB tB hB s
      have hs' : Inv cA cB (tB.stepProg.run cB s).1 :=
        run_inv cA cB cB (Or.inr rfl) hmB KB _ (stepProg_within KB tB hB).1 s hs
      obtain ⟨i1, i2, i3⟩ := ih tA (thr (tB.stepProg.run cB s).2) (tB.stepProg.run cB s).1
        trA (trB ++ (stepThread cB tB s).2.2.toList) hA hB' hs'
      -- B's step commutes with the whole remainder of A
      obtain ⟨g1, g2, g3⟩ := run_comm_run cA cB hmA hmB KA KB hd tA.prog hA tB.stepProg (stepProg_within KB tB hB).1 s hs
      -- the remainder of B from the two equivalent states
      have hsA : Inv cA cB (tA.prog.run cA (tB.stepProg.run cB s).1).1 :=
        run_inv cA cB cA (Or.inl rfl) hmA KA _ hA _ hs'
      obtain ⟨c1, c2⟩ := run_congr cB hmB KB (thr (tB.stepProg.run cB s).2).prog hB' _ _ hsA.preB g3
      have hrest := run_stepProg cB tB (tA.prog.run cA s).1
      rw [g2] at hrest
      simp only [runSched]
      rw [e1, e2]
      refine ⟨i1.trans g1, ?_, ?_⟩
      · rw [i2, c1, hrest]
      · refine i3.trans ?_
        rw [← hrest]; exact c2

end Sugar.Sched
