/-
  Lemmas.ReplayLemmas — what the replay of the log does with `SET key value` records (the fragment on
  which "acknowledged writes survive a restart" is proved for arbitrary command sequences).
-/
import SugarModel.Lemmas.PersistLemmas
import SugarModel.Lemmas.Kv
import SugarModel.Lemmas.RestoreLemmas
import SugarModel.Lemmas.Frame
namespace Sugar.Persist
open Sugar

theorem handleSet_run (c : Ctx) (s : State) (n k v : Bytes) (hm : c.cfg.maxMemory = 0) (hv : adaptType v = .str v) :
    (handleSet c [n, k, v]).run c s = ((setValues c s [(k, .str v)]).1, .done (.ok okReply)) := by
  obtain ⟨hs1, _, _⟩ := setValues_single c s k (.str v) hm
  simp [handleSet, getSetCommandOptions, adaptOr, hv, Adapted.toVal?, setOrErr, hs1, b_XX_ne_nil, b_NX_ne_nil]

/-- one replayed record that is not SELECT, touches no `[]interface{}` key and completes: the replay
    continues in the same database from the state the command left, executed in the current database
    `d` at the restore-time clock -/
theorem replay_cmd_done (now : Int) (d : Nat) (name : Bytes) (args : List Bytes) (rest : List LogItem) (s s1 : State) (r : Res)
    (hsel : (eqFold name (b "select") && isAscii name) = false)
    (hi : ∀ x ∈ args, ∀ xs e, s.lookup d x ≠ some ⟨.ilist xs, e⟩)
    (hstep : step { db := d, now := now, conn := some 0 } s (name :: args) = some (s1, .done r)) :
    replay now (d : Int) (.cmd (name :: args) :: rest) s = replay now (d : Int) rest s1 := by
  have hneg : ¬ ((d : Int) < 0) := by omega
  rw [replay]
  · simp only [List.headD_cons, hsel, Bool.false_eq_true, if_false, List.drop_succ_cons, List.drop_zero, hneg,
      Int.toNat_natCast]
    split
    · rename_i hany
      exfalso
      rw [List.any_eq_true] at hany
      obtain ⟨x, hx, hm⟩ := hany
      split at hm
      · rename_i xs e heq
        exact hi x hx xs e heq
      · simp at hm
    · simp only [hstep]
  · intro hnil; simp at hnil

/-- replay of `SET k v` (string value) in database `d` -/
theorem replay_set (now : Int) (d : Nat) (k v : Bytes) (rest : List LogItem) (s : State)
    (hv : adaptType v = .str v)
    (hi : ∀ x ∈ [k, v], ∀ xs e, s.lookup d x ≠ some ⟨.ilist xs, e⟩) :
    replay now (d : Int) (.cmd [b "SET", k, v] :: rest) s =
      replay now (d : Int) rest (setValues { db := d, now := now, conn := some 0 } s [(k, .str v)]).1 := by
  have h1 : (eqFold (b "SET") (b "select") && isAscii (b "SET")) = false := by decide
  have h2 : handlerOf (b "SET") = some handleSet := by rfl
  have h3 : isAscii (b "SET") = true := by decide
  have hrun := handleSet_run { db := d, now := now, conn := some 0 } s (b "SET") k v rfl hv
  apply replay_cmd_done now d (b "SET") [k, v] rest s _ (.ok okReply) h1 hi
  simp only [step, progOf, h3, Bool.not_true, Bool.false_eq_true, if_false, h2, Option.map_some, hrun]

/-- the text last written to `x` by a sequence of `SET key value` commands -/
def lastWrite (kvs : List (Bytes × Bytes)) (m : Bytes → Option Bytes) : Bytes → Option Bytes :=
  kvs.foldl (fun m kv => fun x => if kv.1 = x then some kv.2 else m x) m

/-- replay of a sequence of string SETs in database `d`: every key of `d` holds the text last written
    to it, every other database is as before -/
theorem replay_sets (now : Int) (d : Nat) : ∀ (kvs : List (Bytes × Bytes)) (s : State) (m : Bytes → Option Bytes),
    (∀ kv ∈ kvs, adaptType kv.2 = .str kv.2) →
    (∀ x, s.lookup d x = (m x).map fun v => ⟨.str v, none⟩) →
    ∃ s', replay now (d : Int) (kvs.map fun kv => .cmd [b "SET", kv.1, kv.2]) s = .ok s' ∧
      (∀ x, s'.lookup d x = (lastWrite kvs m x).map fun v => ⟨.str v, none⟩) ∧
      (∀ j, j ≠ d → s'.db j = s.db j) := by
  intro kvs
  induction kvs with
  | nil => intro s m _ hr; exact ⟨s, by simp [replay], hr, fun _ _ => rfl⟩
  | cons kv r ih =>
    intro s m hv hr
    obtain ⟨k, v⟩ := kv
    have hv1 : adaptType v = .str v := hv (k, v) List.mem_cons_self
    have hi : ∀ x ∈ [k, v], ∀ xs e, s.lookup d x ≠ some ⟨.ilist xs, e⟩ := by
      intro x _ xs e h
      rw [hr x] at h
      cases hm : m x <;> simp [hm] at h
    simp only [List.map_cons]
    rw [replay_set now d k v _ s hv1 hi]
    obtain ⟨_, hs2, hs3⟩ := setValues_single { db := d, now := now, conn := some 0 } s k (.str v) rfl
    obtain ⟨s', g1, g2, g3⟩ := ih (setValues { db := d, now := now, conn := some 0 } s [(k, .str v)]).1
      (fun x => if k = x then some v else m x) (fun kv h => hv kv (List.mem_cons_of_mem _ h)) (by
        intro x
        by_cases hx : k = x
        · subst hx
          simp only [if_true, Option.map_some]
          rw [hs2, hr k]
          cases m k <;> rfl
        · simp only [hx, if_false]
          rw [hs3 x hx, hr x])
    refine ⟨s', g1, g2, ?_⟩
    intro j hj
    rw [g3 j hj]
    exact db_of_get_eq _ _ _ (setValues_frame { db := d, now := now, conn := some 0 } s _ j hj)

/-- the SET option parser on `PX n` -/
theorem opts_px (now : Int) (arg : Bytes) (n : Int) (hp : parseInt64 arg = some n) (hn : n.natAbs ≤ 4000000000000) :
    getSetCommandOptions now [b "PX", arg] {} = .ok { expireAt := some (now + n) } := by
  have h1 : isAscii (b "PX") = true := by decide
  have h2 : toLower (b "PX") = b "px" := by decide
  have h3 : (b "px" == b "get") = false := by decide
  have h4 : (b "px" == b "nx") = false := by decide
  have h5 : (b "px" == b "xx") = false := by decide
  have h6 : (b "px" == b "ex") = false := by decide
  have h8 : (b "px" == b "exat") = false := by decide
  simp [getSetCommandOptions, setOptExpiry, h1, h2, h3, h4, h5, h6, h8, hp, addMillis, hn]

theorem handleSet_px_run (c : Ctx) (s : State) (n0 k v arg : Bytes) (n : Int) (hm : c.cfg.maxMemory = 0)
    (hv : adaptType v = .str v) (hp : parseInt64 arg = some n) (hn : n.natAbs ≤ 4000000000000) :
    ∃ s', ((handleSet c [n0, k, v, b "PX", arg]).run c s).1 = s' ∧
      ((handleSet c [n0, k, v, b "PX", arg]).run c s).2 = .done (.ok okReply) ∧
      s'.lookup c.db k = some ⟨.str v, some (c.now + n)⟩ := by
  obtain ⟨hs1, hs2, _⟩ := setValues_single c s k (.str v) hm
  have hdb : (setValues c s [(k, .str v)]).1.hasDb c.db = true := by
    unfold setValues
    simp only [isMaxMemoryExceeded, hm, bne_self_eq_false, Bool.false_and, Bool.false_eq_true, if_false,
      dedupLast, List.foldl, KMap.put]
    unfold setOne
    exact hasDb_put _ _ _
  obtain ⟨s2, he, hl, _, _⟩ := setExpiry_spec c (setValues c s [(k, .str v)]).1 k (some (c.now + n)) (.str v) _ hdb hs2
  refine ⟨_, rfl, ?_, ?_⟩ <;>
  simp [handleSet, opts_px c.now arg n hp hn, adaptOr, hv, Adapted.toVal?, setOrErr, hs1, b_XX_ne_nil, b_NX_ne_nil,
    run_setExpiry_some _ _ _ _ _ _ _ he, hl]

/-- replay of `SET k v PX n` in database `d` of the empty keyspace at restore time `now`: the key holds
    `v` with the deadline `now + n` — counted from the restart, not from the original write -/
theorem replay_set_px (now : Int) (d : Nat) (k v arg : Bytes) (n : Int) (hv : adaptType v = .str v)
    (hp : parseInt64 arg = some n) (hn : n.natAbs ≤ 4000000000000) :
    ∃ s', replay now (d : Int) [.cmd [b "SET", k, v, b "PX", arg]] { dbs := [], mem := 0 } = .ok s' ∧
      s'.lookup d k = some ⟨.str v, some (now + n)⟩ := by
  obtain ⟨s', h1, h2, h3⟩ := handleSet_px_run { db := d, now := now, conn := some 0 } { dbs := [], mem := 0 }
    (b "SET") k v arg n rfl hv hp hn
  have hsel : (eqFold (b "SET") (b "select") && isAscii (b "SET")) = false := by decide
  have hh : handlerOf (b "SET") = some handleSet := by rfl
  have ha : isAscii (b "SET") = true := by decide
  refine ⟨s', ?_, h3⟩
  rw [replay_cmd_done now d (b "SET") [k, v, b "PX", arg] [] _ s' (.ok okReply) hsel (fun _ _ _ _ h => by simp [State.lookup, State.db, NMap.get] at h)]
  · simp [replay]
  · simp only [step, progOf, ha, Bool.not_true, Bool.false_eq_true, if_false, hh, Option.map_some, Option.some.injEq]
    rw [← h1, ← h2]

end Sugar.Persist
