/-
  Lemmas.RaftLemmas — helper lemmas for Props.C07: the cluster interpreter `runCl` does not look at the
  map-order / random-pick fields of the context, frames databases like the standalone interpreter, and
  which handler models never read their context.
-/
import SugarModel.Model.Raft
import SugarModel.Lemmas.NoFlush
import SugarModel.Lemmas.ReadOnly
namespace Sugar.Raft
open Sugar

/-! ### independence from `order` / `hint` -/

theorem getValuesCl_env (role : Role) (c : Ctx) (o : Nat) (h : List Bytes) (s : State) (ks : List Bytes) :
    getValuesCl role { c with order := o, hint := h } s ks = getValuesCl role c s ks := by
  induction ks with
  | nil => rfl
  | cons k r ih =>
    simp only [getValuesCl]
    rw [ih]

theorem execCl_env (role : Role) (c : Ctx) (o : Nat) (h : List Bytes) (s : State) (p : Prim) :
    execCl role { c with order := o, hint := h } s p = execCl role c s p := by
  cases p with
  | getValues ks => simp only [execCl, getValuesCl_env]
  | flush all => cases all <;> rfl
  | _ => rfl

theorem runCl_env {α : Type} (role : Role) (c : Ctx) (o : Nat) (h : List Bytes) (p : Prog α) :
    ∀ s, runCl role { c with order := o, hint := h } p s = runCl role c p s := by
  induction p with
  | ret a => intro s; rfl
  | panic w => intro s; rfl
  | unmod w => intro s; rfl
  | call q k ih =>
    intro s
    simp only [runCl, execCl_env]
    cases execCl role c s q with
    | panic => rfl
    | hang => rfl
    | ok s' r => exact ih r s'

/-! ### frame -/

theorem execCl_frame (role : Role) (c : Ctx) (s : State) (p : Prim) (s' : State) (r : p.Res) (j : Nat)
    (hj : j ≠ c.db) (hp : p ≠ .flush true) (h : execCl role c s p = .ok s' r) : s'.db j = s.db j := by
  by_cases hg : ∃ ks, p = .getValues ks
  · obtain ⟨ks, rfl⟩ := hg
    simp only [execCl] at h
    split at h
    · cases h
    · injection h with h1 _; rw [← h1]
  · have hx : p.exec c s = some (s', r) := by
      cases p with
      | getValues ks => exact absurd ⟨ks, rfl⟩ hg
      | flush all =>
        cases all <;> (simp only [execCl] at h; split at h <;> first | (cases h; done) | (rename_i heq; injection h with h1 h2; subst h1; subst h2; exact heq) | (cases h; assumption))
      | _ =>
        simp only [execCl] at h
        split at h
        · cases h
        · rename_i heq; injection h with h1 h2; subst h1; subst h2; exact heq
    exact prim_frame c s p s' r j hj hp hx

theorem runCl_frame {α : Type} (role : Role) (p : Prog α) : ∀ (c : Ctx) (s : State) (j : Nat),
    j ≠ c.db → p.NoFlushAll → (runCl role c p s).1.db j = s.db j := by
  induction p with
  | ret a => intro c s j _ _; rfl
  | panic w => intro c s j _ _; rfl
  | unmod w => intro c s j _ _; rfl
  | call q k ih =>
    intro c s j hj hp
    obtain ⟨hp1, hp2⟩ := hp
    simp only [runCl]
    cases hx : execCl role c s q with
    | panic => rfl
    | hang => rfl
    | ok s' r =>
      simp only
      rw [ih r c s' j hj (hp2 r)]
      exact execCl_frame role c s q s' r j hj hp1 hx

/-! ### reading programs on a cluster node -/

/-- a reading primitive leaves a cluster node's state exactly as it was (in a cluster GetValues never deletes an
    expired key itself: the leader proposes the deletion, a follower forwards it) -/
theorem execCl_read_state (role : Role) (c : Ctx) (s s' : State) (p : Prim) (r : p.Res)
    (hp : p.isRead = true) (h : execCl role c s p = .ok s' r) : s' = s := by
  cases p with
  | getValues ks =>
    simp only [execCl] at h
    split at h
    · cases h
    · injection h with h1 _; exact h1.symm
  | keysExist ks => simp only [execCl, Prim.exec] at h; injection h with h1 _; exact h1.symm
  | getExpiry k => simp only [execCl, Prim.exec] at h; injection h with h1 _; exact h1.symm
  | newOid => simp only [execCl, Prim.exec] at h; injection h with h1 _; exact h1.symm
  | setValues _ => simp [Prim.isRead] at hp
  | setExpiry _ _ _ => simp [Prim.isRead] at hp
  | deleteKey _ => simp [Prim.isRead] at hp
  | flush _ => simp [Prim.isRead] at hp
  | mutObj _ _ => simp [Prim.isRead] at hp
  | tagOid _ _ => simp [Prim.isRead] at hp
  | setConnDb _ => simp [Prim.isRead] at hp
  | swapDbs _ _ => simp [Prim.isRead] at hp

/-- **a program that issues reading primitives only leaves the dataset of the node that runs it exactly as it
    was**, in either role, whatever it answers (done, hang) -/
theorem runCl_readOnly_state {α : Type} (role : Role) (p : Prog α) : ∀ (c : Ctx) (s : State),
    p.ReadOnly → (runCl role c p s).1 = s := by
  induction p with
  | ret a => intro c s _; rfl
  | panic w => intro c s _; rfl
  | unmod w => intro c s _; rfl
  | call q k ih =>
    intro c s hp
    obtain ⟨hp1, hp2⟩ := hp
    simp only [runCl]
    cases hx : execCl role c s q with
    | panic => rfl
    | hang => rfl
    | ok s' r =>
      simp only
      rw [ih r c s' (hp2 r)]
      exact execCl_read_state role c s s' q r hp1 hx

/-! ### handler models that never read their context -/

/-- command words whose handler model takes the context into account (clock, map order, random picks) -/
def envSensitive : List Bytes :=
  [b "set", b "ttl", b "pttl", b "expire", b "pexpire", b "getex", b "spop",
   -- SINTER / SINTERCARD walk their operand map in Go map order (which key an error names). SINTERSTORE, SUNION and
   -- SUNIONSTORE are not listed any more: they examine their operands in the order of the command line and build a
   -- new set (repaired upstream), so `table_env_free` below covers their rows
   b "sinter", b "sintercard",
   -- sorted-set handlers whose model reads the map-order / tie oracle of the context
   b "zlexcount", b "zmpop", b "zpopmax", b "zpopmin", b "zrange", b "zrangestore", b "zrank", b "zremrangebyrank", b "zrevrank"]

theorem table_env_free : ∀ e ∈ handlerTable, e.1 ∉ envSensitive →
    ∀ (c c' : Ctx) (cmd : List Bytes), e.2 c cmd = e.2 c' cmd := by
  unfold handlerTable
  simp only [List.forall_mem_cons, List.not_mem_nil, false_imp_iff, implies_true, and_true]
  and_intros
  all_goals first
    | (intro _ c c' cmd; rfl)
    | (intro hn; exact absurd (by decide) hn)

end Sugar.Raft
