/-
  Lemmas.PersistLemmas — the log writer and the log reader are inverse on canonical records
  (`Wire.parseBulk` / `Wire.parseCommand` read back what `bulkStr` / `encodeCmd` wrote, whatever
  follows), and a proper prefix of a canonical record is never a complete command.
-/
import SugarModel.Model.Persist
import SugarModel.Lemmas.WireLemmas
import SugarModel.Lemmas.RespWF
namespace Sugar.Persist
open Sugar

/-- a bulk string followed by any bytes is read back as its payload, leaving exactly those bytes -/
theorem parseBulk_bulkStr (s rest : Bytes) : Wire.parseBulk (bulkStr s ++ rest) = some (s, rest) := by
  have hsplit : splitCrlf (natDigits s.length ++ 13 :: 10 :: (s ++ 13 :: 10 :: rest)) =
      some (natDigits s.length, s ++ 13 :: 10 :: rest) := splitCrlf_clean _ _ (cleanLine_natDigits _)
  have e : bulkStr s ++ rest = 36 :: (natDigits s.length ++ 13 :: 10 :: (s ++ 13 :: 10 :: rest)) := by
    simp [bulkStr, fmtNat, crlf]
  rw [e]
  simp only [Wire.parseBulk, hsplit, allDigits_natDigits, digitsVal_natDigits, Bool.not_true,
    Bool.false_eq_true, if_false]
  simp

theorem parseBulks_bulkStrs : ∀ (xs : List Bytes) (rest : Bytes),
    Wire.parseBulks xs.length ((xs.map bulkStr).flatten ++ rest) = some (xs, rest) := by
  intro xs
  induction xs with
  | nil => intro rest; simp [Wire.parseBulks]
  | cons x r ih =>
    intro rest
    simp only [List.length_cons, List.map_cons, List.flatten_cons, List.append_assoc]
    simp only [Wire.parseBulks, bind, Option.bind, parseBulk_bulkStr, ih, pure]

/-- a canonical record followed by any bytes is read back as its argument vector -/
theorem parseCommand_encodeCmd (cmd : List Bytes) (rest : Bytes) :
    Wire.parseCommand (encodeCmd cmd ++ rest) = some (cmd, rest) := by
  have e : encodeCmd cmd ++ rest =
      42 :: (natDigits cmd.length ++ 13 :: 10 :: ((cmd.map bulkStr).flatten ++ rest)) := by
    simp [encodeCmd, arrHdr, fmtNat, crlf]
  rw [e]
  simp only [Wire.parseCommand, splitCrlf_clean _ _ (cleanLine_natDigits _), allDigits_natDigits,
    digitsVal_natDigits, Bool.not_true, Bool.false_eq_true, if_false]
  exact parseBulks_bulkStrs cmd rest


theorem encodeCmd_eq_cons (cmd : List Bytes) :
    encodeCmd cmd = 42 :: (natDigits cmd.length ++ 13 :: 10 :: (cmd.map bulkStr).flatten) := by
  simp [encodeCmd, arrHdr, fmtNat, crlf]

theorem bulkStr_eq_cons (s : Bytes) :
    bulkStr s = 36 :: (natDigits s.length ++ 13 :: 10 :: (s ++ [13, 10])) := by
  simp [bulkStr, fmtNat, crlf]

/-- one reader step over a canonical record -/
theorem parseLogItems_encodeCmd (f : Nat) (c : List Bytes) (rest : Bytes) :
    parseLogItems (f + 1) (encodeCmd c ++ rest) =
      (.cmd c :: (parseLogItems f rest).1, (parseLogItems f rest).2) := by
  have hp := parseCommand_encodeCmd c rest
  rw [encodeCmd_eq_cons] at hp ⊢
  simp only [List.cons_append] at hp ⊢
  conv => lhs; unfold parseLogItems; simp only [hp]

/-- the reader over a sequence of canonical records followed by anything -/
theorem parseLogItems_records : ∀ (cs : List (List Bytes)) (f : Nat) (rest : Bytes),
    parseLogItems (cs.length + f) ((cs.map encodeCmd).flatten ++ rest) =
      (cs.map .cmd ++ (parseLogItems f rest).1, (parseLogItems f rest).2) := by
  intro cs
  induction cs with
  | nil => intro f rest; simp
  | cons c r ih =>
    intro f rest
    have e : (c :: r).length + f = (r.length + f) + 1 := by simp; omega
    rw [e]
    simp only [List.map_cons, List.flatten_cons, List.append_assoc]
    rw [parseLogItems_encodeCmd, ih]
    simp

/-- a proper prefix of a canonical record is not a complete command -/
theorem parseCommand_torn (c : List Bytes) (t u : Bytes) (h : t ++ u = encodeCmd c) (hu : u ≠ []) :
    Wire.parseCommand t = none := by
  cases hp : Wire.parseCommand t with
  | none => rfl
  | some p =>
    obtain ⟨cmd, r⟩ := p
    have h1 := Wire.parseCommand_append t cmd r u hp
    have h2 := parseCommand_encodeCmd c []
    rw [List.append_nil, ← h, h1] at h2
    simp only [Option.some.injEq, Prod.mk.injEq, List.append_eq_nil_iff] at h2
    exact absurd h2.2.2 hu

theorem bulksMeetNonBulk_torn : ∀ (xs : List Bytes) (k : Nat) (t u : Bytes),
    t ++ u = (xs.map bulkStr).flatten → Wire.bulksMeetNonBulk k t = false := by
  intro xs
  induction xs with
  | nil =>
    intro k t u h
    simp only [List.map_nil, List.flatten_nil, List.append_eq_nil_iff] at h
    rw [h.1]
    cases k <;> simp [Wire.bulksMeetNonBulk]
  | cons x r ih =>
    intro k t u h
    cases k with
    | zero => simp [Wire.bulksMeetNonBulk]
    | succ k =>
      cases t with
      | nil => simp [Wire.bulksMeetNonBulk]
      | cons a t' =>
        simp only [List.map_cons, List.flatten_cons] at h
        have ha : a = 36 := by
          rw [bulkStr_eq_cons] at h
          simp only [List.cons_append, List.cons.injEq] at h
          exact h.1
        subst ha
        unfold Wire.bulksMeetNonBulk
        cases hp : Wire.parseBulk (36 :: t') with
        | none => simp
        | some p =>
          obtain ⟨v, r1⟩ := p
          have h1 := Wire.parseBulk_append _ v r1 u hp
          rw [h, parseBulk_bulkStr] at h1
          simp only [Option.some.injEq, Prod.mk.injEq] at h1
          simp only
          exact ih k r1 u h1.2.symm

/-- a prefix of a canonical record never shows the reader a non-bulk array element -/
theorem hasNonBulkElement_torn (c : List Bytes) (t u : Bytes) (h : t ++ u = encodeCmd c) :
    Wire.hasNonBulkElement t = false := by
  cases t with
  | nil => simp [Wire.hasNonBulkElement]
  | cons a t' =>
    rw [encodeCmd_eq_cons] at h
    simp only [List.cons_append, List.cons.injEq] at h
    obtain ⟨ha, h⟩ := h
    subst ha
    simp only [Wire.hasNonBulkElement]
    cases hs : splitCrlf t' with
    | none => rfl
    | some p =>
      obtain ⟨line, rest⟩ := p
      have h1 := Wire.splitCrlf_append t' line rest u hs
      rw [h, splitCrlf_clean _ _ (cleanLine_natDigits _)] at h1
      simp only [Option.some.injEq, Prod.mk.injEq] at h1
      simp only
      split
      · rfl
      · exact bulksMeetNonBulk_torn c _ rest u h1.2.symm

/-- the reader stops, returning nothing, at a torn canonical record -/
theorem parseLogItems_torn (f : Nat) (c : List Bytes) (t u : Bytes) (h : t ++ u = encodeCmd c) (hu : u ≠ []) :
    parseLogItems f t = ([], t) := by
  cases t with
  | nil => cases f <;> simp [parseLogItems]
  | cons a t' =>
    cases f with
    | zero => simp [parseLogItems]
    | succ f =>
      have hp := parseCommand_torn c _ u h hu
      have hn := hasNonBulkElement_torn c _ u h
      have ha : a = 42 := by
        rw [encodeCmd_eq_cons] at h
        simp only [List.cons_append, List.cons.injEq] at h
        exact h.1
      subst ha
      unfold parseLogItems
      simp only [hp, hn]
      simp


theorem marker_bytes : b "*2\r\n$6\r\nSELECT\r\n$" =
    [42,50,13,10,36,54,13,10,83,69,76,69,67,84,13,10,36] := by decide

/-- the marker is the canonical record `SELECT db` for every index: the length prefix is the real
    length of the index (the fixed `$1` prefix, which made negative indices and indices ≥ 10
    unreadable, was repaired upstream) -/
theorem selectMarker_eq_record (db : Int) : selectMarker db = encodeCmd [b "SELECT", fmtInt db] := by
  have h : b "*2\r\n$6\r\nSELECT\r\n$" = arrHdr 2 ++ bulkStr (b "SELECT") ++ [36] := by decide
  simp only [selectMarker, h, encodeCmd, bulkStr, List.length_cons, List.length_nil, List.map_cons, List.map_nil,
    List.flatten_cons, List.flatten_nil]
  simp

/-- the replay of a SELECT record: a parsable index becomes the database of the records that follow,
    an unparsable one ends the replay with success -/
theorem replay_select (now : Int) (db : Int) (x : Bytes) (rest : List LogItem) (s : State) :
    replay now db (.cmd [b "SELECT", x] :: rest) s =
      (match parseInt64 x with | some i => replay now i rest s | none => .ok s) := by
  have h1 : (eqFold (b "SELECT") (b "select") && isAscii (b "SELECT")) = true := by decide
  rw [replay]
  · simp only [List.headD_cons, h1, if_true, List.getD_cons_succ, List.getD_cons_zero]
    cases parseInt64 x <;> rfl
  · intro hnil; simp at hnil

/-- on a store whose current index is the initial -1 (fresh start, or right after a rewrite on a fresh
    log) every write is preceded by its own marker, whatever its database -/
theorem logAppend_fresh (db : Nat) (r : Bytes) : logAppend (-1) db r = (selectMarker db ++ r, (db : Int)) := by
  have : ((db : Int) != -1) = true := by simp only [bne_iff_ne, ne_eq]; omega
  simp [logAppend, this]

/-- a single-digit index is parsed back by the replay's strconv.Atoi -/
theorem parseInt64_digit (db : Nat) (h9 : db ≤ 9) : parseInt64 (fmtInt db) = some (db : Int) := by
  have : db = 0 ∨ db = 1 ∨ db = 2 ∨ db = 3 ∨ db = 4 ∨ db = 5 ∨ db = 6 ∨ db = 7 ∨ db = 8 ∨ db = 9 := by omega
  rcases this with h | h | h | h | h | h | h | h | h | h <;> subst h <;> decide

/-- every index in the int64 range is parsed back by the replay's strconv.Atoi -/
theorem parseInt64_fmtNat (n : Nat) (h : (n : Int) ≤ maxInt64) : parseInt64 (fmtInt n) = some (n : Int) := by
  have hd := allDigits_natDigits n
  have hv := digitsVal_natDigits n
  have hfmt : fmtInt (n : Int) = natDigits n := rfl
  rw [hfmt]
  cases hn : natDigits n with
  | nil => rw [hn] at hd; simp [allDigits] at hd
  | cons c r =>
    have hc : isDigit c = true := by rw [hn] at hd; simp [allDigits] at hd; exact hd.1
    have h43 : c ≠ 43 := by intro h; subst h; simp [isDigit] at hc
    have h45 : c ≠ 45 := by intro h; subst h; simp [isDigit] at hc
    rw [hn] at hd hv
    have hmin : minInt64 ≤ (n : Int) := by unfold minInt64; omega
    unfold parseInt64
    split
    rename_i neg ds heq
    have hnd : neg = false ∧ ds = c :: r := by
      split at heq
      · rename_i h1; simp at h1; exact absurd h1.1 h43
      · rename_i h1; simp at h1; exact absurd h1.1 h45
      · simp only [Prod.mk.injEq] at heq; exact ⟨heq.1.symm, heq.2.symm⟩
    obtain ⟨rfl, rfl⟩ := hnd
    simp [hd, hv, hmin, h]

/-- every index in the int64 range, negative ones included, is parsed back by the replay's strconv.Atoi -/
theorem parseInt64_fmtInt (i : Int) (h1 : minInt64 ≤ i) (h2 : i ≤ maxInt64) : parseInt64 (fmtInt i) = some i := by
  cases i with
  | ofNat n => exact parseInt64_fmtNat n h2
  | negSucc n =>
    have hd := allDigits_natDigits (n + 1)
    have hv := digitsVal_natDigits (n + 1)
    have hfmt : fmtInt (Int.negSucc n) = 45 :: natDigits (n + 1) := rfl
    rw [hfmt]
    unfold parseInt64
    simp only [hd, hv, if_true]
    have hneg : -(((n + 1 : Nat) : Int)) = Int.negSucc n := by omega
    rw [hneg]
    simp [h1, h2]

/-- the marker followed by anything is read back as the record `SELECT db`, for every index -/
theorem parseCommand_selectMarker (db : Int) (rest : Bytes) :
    Wire.parseCommand (selectMarker db ++ rest) = some ([b "SELECT", fmtInt db], rest) := by
  rw [selectMarker_eq_record]; exact parseCommand_encodeCmd _ rest

/-- a log read as command items only is returned by `parseLog` as those commands -/
theorem parseLog_of_items (f : Nat) (bs r : Bytes) (cs : List (List Bytes))
    (h : parseLogItems f bs = (cs.map .cmd, r)) : parseLog f bs = (cs, r) := by
  unfold parseLog
  rw [h]
  simp only [Prod.mk.injEq, and_true]
  clear h
  induction cs with
  | nil => rfl
  | cons c r ih => simp only [List.map_cons, List.filterMap_cons, ih]

end Sugar.Persist
