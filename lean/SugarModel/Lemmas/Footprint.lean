/-
  Lemmas.Footprint — the handler models of the single-key command families issue key-local primitives on
  their key argument only (`Prog.Within (· = key)`): syntactic fact, handler by handler.
-/
import SugarModel.Lemmas.SchedCommute
namespace Sugar
set_option linter.unusedSimpArgs false

theorem wi_call {α : Type} (K : Bytes → Prop) (p : Prim) (k : p.Res → Prog α) (ks : List Bytes)
    (h1 : p.keys = some ks) (h2 : ∀ x ∈ ks, K x) (h3 : ∀ r, (k r).Within K) : (Prog.call p k).Within K :=
  ⟨⟨ks, h1, h2⟩, h3⟩

theorem plusV_wi (K : Bytes → Prop) (v : Val) (k : Bytes → Prog Res) (h : ∀ r, (k r).Within K) : (plusV v k).Within K := by
  unfold plusV; split
  · exact h _
  · trivial

theorem adaptOr_wi (K : Bytes → Prop) (s : Bytes) (k : Val → Prog Res) (h : ∀ v, v.oid = 0 → (k v).Within K) :
    (adaptOr s k).Within K := by
  unfold adaptOr; split
  · rename_i v hv
    refine h v ?_
    cases ha : adaptType s <;> rw [ha] at hv <;> simp [Adapted.toVal?] at hv <;> subst hv <;> rfl
  · trivial

theorem ofOutcome_wi {α : Type} (K : Bytes → Prop) (o : Outcome α) : (Prog.ofOutcome o).Within K := by
  cases o <;> trivial

/-- SetValues of unshared values on keys in `K`, then a continuation in `K` -/
theorem setOrErr_wi (K : Bytes → Prop) (es : List (Bytes × Val)) (k : Prog Res)
    (ho : es.all (fun kv => kv.2.oid == 0) = true) (hK : ∀ kv ∈ es, K kv.1) (h : k.Within K) : (setOrErr es k).Within K := by
  unfold setOrErr
  refine wi_call K _ _ (es.map (·.1)) (by simp only [Prim.keys, ho, if_true]) ?_ ?_
  · intro x hx
    obtain ⟨kv, hkv, rfl⟩ := List.mem_map.mp hx
    exact hK kv hkv
  · intro r; split
    · exact h
    · trivial

/-- discharge `Within (· = key)` goals of handler bodies: split control flow, peel `.call`s -/
macro "wi" : tactic => `(tactic| (
  repeat' (first
    | trivial
    | (apply plusV_wi; intro _)
    | (apply adaptOr_wi; intro _ _)
    | (exact ofOutcome_wi _ _)
    | (refine setOrErr_wi _ _ _ (by first | (simp [*]; done) | simp [Val.oid]) (by simp) ?_)
    | (refine wi_call _ _ _ _ rfl (by simp) ?_; intro _)
    | split
    | (dsimp only))))

theorem incrCore_within (key : Bytes) (a : Int) (f : Int → Int) : (incrCore key a f).Within (· = key) := by
  unfold incrCore; wi

theorem handleIncr_within (c : Ctx) (n key : Bytes) : (handleIncr c [n, key]).Within (· = key) := by
  simp only [handleIncr]; exact incrCore_within key 1 _

theorem handleGet_within (c : Ctx) (n key : Bytes) : (handleGet c [n, key]).Within (· = key) := by
  simp only [handleGet]; wi

theorem handleSet_within (c : Ctx) (n key v : Bytes) (opts : List Bytes) :
    (handleSet c (n :: key :: v :: opts)).Within (· = key) := by
  unfold handleSet; wi

theorem handlePush_within (left : Bool) (c : Ctx) (n key : Bytes) (es : List Bytes) :
    (handlePush left c (n :: key :: es)).Within (· = key) := by
  simp only [handlePush]; wi

theorem handlePop_within (c : Ctx) (n key : Bytes) (rest : List Bytes) :
    (handlePop c (n :: key :: rest)).Within (· = key) := by
  simp only [handlePop]; wi

theorem handleLLen_within (c : Ctx) (n key : Bytes) : (handleLLen c [n, key]).Within (· = key) := by
  simp only [handleLLen]; wi

theorem handleHSet_within (c : Ctx) (n key : Bytes) (args : List Bytes) :
    (handleHSet c (n :: key :: args)).Within (· = key) := by
  simp only [handleHSet]; wi

theorem handleSAdd_within (c : Ctx) (n key : Bytes) (es : List Bytes) :
    (handleSAdd c (n :: key :: es)).Within (· = key) := by
  simp only [handleSAdd]; wi

theorem handleStrLen_within (c : Ctx) (n key : Bytes) : (handleStrLen c [n, key]).Within (· = key) := by
  simp only [handleStrLen]; wi

theorem handleAppend_within (c : Ctx) (n key v : Bytes) : (handleAppend c [n, key, v]).Within (· = key) := by
  simp only [handleAppend]; wi

/-! ### a decidable footprint for the single-key command families, and `Within` for the programs they denote -/

theorem handlerOf_get (n : Bytes) (h : toLower n = b "get") : handlerOf n = some (handleGet) := by
  unfold handlerOf; rw [h]; rfl
theorem handlerOf_incr (n : Bytes) (h : toLower n = b "incr") : handlerOf n = some (handleIncr) := by
  unfold handlerOf; rw [h]; rfl
theorem handlerOf_strlen (n : Bytes) (h : toLower n = b "strlen") : handlerOf n = some (handleStrLen) := by
  unfold handlerOf; rw [h]; rfl
theorem handlerOf_llen (n : Bytes) (h : toLower n = b "llen") : handlerOf n = some (handleLLen) := by
  unfold handlerOf; rw [h]; rfl
theorem handlerOf_lpush (n : Bytes) (h : toLower n = b "lpush") : handlerOf n = some (handlePush true) := by
  unfold handlerOf; rw [h]; rfl
theorem handlerOf_lpushx (n : Bytes) (h : toLower n = b "lpushx") : handlerOf n = some (handlePush true) := by
  unfold handlerOf; rw [h]; rfl
theorem handlerOf_rpush (n : Bytes) (h : toLower n = b "rpush") : handlerOf n = some (handlePush false) := by
  unfold handlerOf; rw [h]; rfl
theorem handlerOf_rpushx (n : Bytes) (h : toLower n = b "rpushx") : handlerOf n = some (handlePush false) := by
  unfold handlerOf; rw [h]; rfl
theorem handlerOf_lpop (n : Bytes) (h : toLower n = b "lpop") : handlerOf n = some (handlePop) := by
  unfold handlerOf; rw [h]; rfl
theorem handlerOf_rpop (n : Bytes) (h : toLower n = b "rpop") : handlerOf n = some (handlePop) := by
  unfold handlerOf; rw [h]; rfl
theorem handlerOf_hset (n : Bytes) (h : toLower n = b "hset") : handlerOf n = some (handleHSet) := by
  unfold handlerOf; rw [h]; rfl
theorem handlerOf_hsetnx (n : Bytes) (h : toLower n = b "hsetnx") : handlerOf n = some (handleHSet) := by
  unfold handlerOf; rw [h]; rfl
theorem handlerOf_sadd (n : Bytes) (h : toLower n = b "sadd") : handlerOf n = some (handleSAdd) := by
  unfold handlerOf; rw [h]; rfl
theorem handlerOf_set (n : Bytes) (h : toLower n = b "set") : handlerOf n = some (handleSet) := by
  unfold handlerOf; rw [h]; rfl
theorem handlerOf_append (n : Bytes) (h : toLower n = b "append") : handlerOf n = some (handleAppend) := by
  unfold handlerOf; rw [h]; rfl

/-- the key a command of the single-key families touches (`none` = not covered here) -/
def footprint (cmd : List Bytes) : Option Bytes :=
  match cmd with
  | [n, k] => if isAscii n && (toLower n == b "get" || toLower n == b "incr" || toLower n == b "strlen" || toLower n == b "llen" || toLower n == b "lpush" || toLower n == b "lpushx" || toLower n == b "rpush" || toLower n == b "rpushx" || toLower n == b "lpop" || toLower n == b "rpop" || toLower n == b "hset" || toLower n == b "hsetnx" || toLower n == b "sadd") then some k else none
  | [n, k, _] => if isAscii n && (toLower n == b "lpush" || toLower n == b "lpushx" || toLower n == b "rpush" || toLower n == b "rpushx" || toLower n == b "lpop" || toLower n == b "rpop" || toLower n == b "hset" || toLower n == b "hsetnx" || toLower n == b "sadd" || toLower n == b "set" || toLower n == b "append") then some k else none
  | n :: k :: _ :: _ :: _ => if isAscii n && (toLower n == b "lpush" || toLower n == b "lpushx" || toLower n == b "rpush" || toLower n == b "rpushx" || toLower n == b "lpop" || toLower n == b "rpop" || toLower n == b "hset" || toLower n == b "hsetnx" || toLower n == b "sadd" || toLower n == b "set") then some k else none
  | _ => none

theorem progOf_cons (c : Ctx) (n : Bytes) (rest : List Bytes) (h : Handler) (ha : isAscii n = true)
    (hh : handlerOf n = some h) : progOf c (n :: rest) = some (h c (n :: rest)) := by
  simp [progOf, ha, hh]

/-- **the program a covered command denotes touches its key only** -/
theorem progOf_within (c : Ctx) (cmd : List Bytes) (k : Bytes) (p : Prog Res)
    (hf : footprint cmd = some k) (hp : progOf c cmd = some p) : p.Within (· = k) := by
  unfold footprint at hf
  split at hf
  · rename_i n k'
    split at hf
    · rename_i hc
      simp only [Option.some.injEq] at hf; subst hf
      simp only [Bool.and_eq_true, Bool.or_eq_true, beq_iff_eq] at hc
      obtain ⟨ha, hn⟩ := hc
      rcases hn with ((((((((((((hn | hn) | hn) | hn) | hn) | hn) | hn) | hn) | hn) | hn) | hn) | hn) | hn)
      · rw [progOf_cons c n _ _ ha (handlerOf_get n hn)] at hp; cases hp; exact handleGet_within c n k'
      · rw [progOf_cons c n _ _ ha (handlerOf_incr n hn)] at hp; cases hp; exact handleIncr_within c n k'
      · rw [progOf_cons c n _ _ ha (handlerOf_strlen n hn)] at hp; cases hp; exact handleStrLen_within c n k'
      · rw [progOf_cons c n _ _ ha (handlerOf_llen n hn)] at hp; cases hp; exact handleLLen_within c n k'
      · rw [progOf_cons c n _ _ ha (handlerOf_lpush n hn)] at hp; cases hp; exact handlePush_within true c n k' _
      · rw [progOf_cons c n _ _ ha (handlerOf_lpushx n hn)] at hp; cases hp; exact handlePush_within true c n k' _
      · rw [progOf_cons c n _ _ ha (handlerOf_rpush n hn)] at hp; cases hp; exact handlePush_within false c n k' _
      · rw [progOf_cons c n _ _ ha (handlerOf_rpushx n hn)] at hp; cases hp; exact handlePush_within false c n k' _
      · rw [progOf_cons c n _ _ ha (handlerOf_lpop n hn)] at hp; cases hp; exact handlePop_within c n k' _
      · rw [progOf_cons c n _ _ ha (handlerOf_rpop n hn)] at hp; cases hp; exact handlePop_within c n k' _
      · rw [progOf_cons c n _ _ ha (handlerOf_hset n hn)] at hp; cases hp; exact handleHSet_within c n k' _
      · rw [progOf_cons c n _ _ ha (handlerOf_hsetnx n hn)] at hp; cases hp; exact handleHSet_within c n k' _
      · rw [progOf_cons c n _ _ ha (handlerOf_sadd n hn)] at hp; cases hp; exact handleSAdd_within c n k' _
    · cases hf
  · rename_i n k' v
    split at hf
    · rename_i hc
      simp only [Option.some.injEq] at hf; subst hf
      simp only [Bool.and_eq_true, Bool.or_eq_true, beq_iff_eq] at hc
      obtain ⟨ha, hn⟩ := hc
      rcases hn with ((((((((((hn | hn) | hn) | hn) | hn) | hn) | hn) | hn) | hn) | hn) | hn)
      · rw [progOf_cons c n _ _ ha (handlerOf_lpush n hn)] at hp; cases hp; exact handlePush_within true c n k' _
      · rw [progOf_cons c n _ _ ha (handlerOf_lpushx n hn)] at hp; cases hp; exact handlePush_within true c n k' _
      · rw [progOf_cons c n _ _ ha (handlerOf_rpush n hn)] at hp; cases hp; exact handlePush_within false c n k' _
      · rw [progOf_cons c n _ _ ha (handlerOf_rpushx n hn)] at hp; cases hp; exact handlePush_within false c n k' _
      · rw [progOf_cons c n _ _ ha (handlerOf_lpop n hn)] at hp; cases hp; exact handlePop_within c n k' _
      · rw [progOf_cons c n _ _ ha (handlerOf_rpop n hn)] at hp; cases hp; exact handlePop_within c n k' _
      · rw [progOf_cons c n _ _ ha (handlerOf_hset n hn)] at hp; cases hp; exact handleHSet_within c n k' _
      · rw [progOf_cons c n _ _ ha (handlerOf_hsetnx n hn)] at hp; cases hp; exact handleHSet_within c n k' _
      · rw [progOf_cons c n _ _ ha (handlerOf_sadd n hn)] at hp; cases hp; exact handleSAdd_within c n k' _
      · rw [progOf_cons c n _ _ ha (handlerOf_set n hn)] at hp; cases hp; exact handleSet_within c n k' v []
      · rw [progOf_cons c n _ _ ha (handlerOf_append n hn)] at hp; cases hp; exact handleAppend_within c n k' v
    · cases hf
  · rename_i n k' v w r
    split at hf
    · rename_i hc
      simp only [Option.some.injEq] at hf; subst hf
      simp only [Bool.and_eq_true, Bool.or_eq_true, beq_iff_eq] at hc
      obtain ⟨ha, hn⟩ := hc
      rcases hn with (((((((((hn | hn) | hn) | hn) | hn) | hn) | hn) | hn) | hn) | hn)
      · rw [progOf_cons c n _ _ ha (handlerOf_lpush n hn)] at hp; cases hp; exact handlePush_within true c n k' _
      · rw [progOf_cons c n _ _ ha (handlerOf_lpushx n hn)] at hp; cases hp; exact handlePush_within true c n k' _
      · rw [progOf_cons c n _ _ ha (handlerOf_rpush n hn)] at hp; cases hp; exact handlePush_within false c n k' _
      · rw [progOf_cons c n _ _ ha (handlerOf_rpushx n hn)] at hp; cases hp; exact handlePush_within false c n k' _
      · rw [progOf_cons c n _ _ ha (handlerOf_lpop n hn)] at hp; cases hp; exact handlePop_within c n k' _
      · rw [progOf_cons c n _ _ ha (handlerOf_rpop n hn)] at hp; cases hp; exact handlePop_within c n k' _
      · rw [progOf_cons c n _ _ ha (handlerOf_hset n hn)] at hp; cases hp; exact handleHSet_within c n k' _
      · rw [progOf_cons c n _ _ ha (handlerOf_hsetnx n hn)] at hp; cases hp; exact handleHSet_within c n k' _
      · rw [progOf_cons c n _ _ ha (handlerOf_sadd n hn)] at hp; cases hp; exact handleSAdd_within c n k' _
      · rw [progOf_cons c n _ _ ha (handlerOf_set n hn)] at hp; cases hp; exact handleSet_within c n k' v (w :: r)
    · cases hf
  · cases hf

end Sugar
