/-
  Lemmas.SetLemmas — pure facts about the set helpers of Model.SetCmd (`setAdd`, `setRemove`, `subtract`,
  `inter2`, `nthPerm` on two elements) read as plain list-as-set operations, and evaluation lemmas for the
  shared `withSet` prologue. Used by Props.C16.
-/
import SugarModel.Lemmas.Coll
import SugarModel.Model.SetCmd
namespace Sugar

/-! ### Set.Add -/

/-- one step of the `setAdd` fold -/
def addStep (acc : List Bytes × Nat) (e : Bytes) : List Bytes × Nat :=
  if acc.1.contains e then acc else (acc.1 ++ [e], acc.2 + 1)

/-- `setAdd` is the left fold of `addStep` -/
theorem setAdd_eq_foldl (ms es : List Bytes) : setAdd ms es = es.foldl addStep (ms, 0) := rfl

/-- adding a present element changes nothing -/
theorem addStep_mem (acc : List Bytes × Nat) (e : Bytes) (h : e ∈ acc.1) : addStep acc e = acc := by
  have hc : acc.1.contains e = true := List.contains_iff_mem.mpr h
  unfold addStep; rw [if_pos hc]

/-- adding an absent element appends it and counts it -/
theorem addStep_not_mem (acc : List Bytes × Nat) (e : Bytes) (h : e ∉ acc.1) :
    addStep acc e = (acc.1 ++ [e], acc.2 + 1) := by
  have hc : ¬ (acc.1.contains e = true) := fun hc => h (List.contains_iff_mem.mp hc)
  unfold addStep; rw [if_neg hc]

/-- membership after the fold, for any accumulator -/
theorem foldl_addStep_mem (es : List Bytes) (acc : List Bytes × Nat) (x : Bytes) :
    x ∈ (es.foldl addStep acc).1 ↔ x ∈ acc.1 ∨ x ∈ es := by
  induction es generalizing acc with
  | nil => simp
  | cons e r ih =>
    simp only [List.foldl_cons, ih, List.mem_cons]
    by_cases hm : e ∈ acc.1
    · rw [addStep_mem _ _ hm]
      constructor
      · rintro (h1 | h1)
        · exact Or.inl h1
        · exact Or.inr (Or.inr h1)
      · rintro (h1 | h1 | h1)
        · exact Or.inl h1
        · exact Or.inl (h1 ▸ hm)
        · exact Or.inr h1
    · rw [addStep_not_mem _ _ hm]
      simp only [List.mem_append, List.mem_singleton]
      constructor
      · rintro ((h1 | h1) | h1)
        · exact Or.inl h1
        · exact Or.inr (Or.inl h1)
        · exact Or.inr (Or.inr h1)
      · rintro (h1 | h1 | h1)
        · exact Or.inl (Or.inl h1)
        · exact Or.inl (Or.inr h1)
        · exact Or.inr h1

/-- membership after Set.Add: the old members and the added elements, nothing else -/
theorem mem_setAdd (ms es : List Bytes) (x : Bytes) : x ∈ (setAdd ms es).1 ↔ x ∈ ms ∨ x ∈ es :=
  foldl_addStep_mem es (ms, 0) x

/-- the fold keeps a duplicate-free accumulator duplicate-free -/
theorem foldl_addStep_nodup (es : List Bytes) (acc : List Bytes × Nat) (h : acc.1.Nodup) :
    (es.foldl addStep acc).1.Nodup := by
  induction es generalizing acc with
  | nil => simpa
  | cons e r ih =>
    simp only [List.foldl_cons]
    apply ih
    by_cases hm : e ∈ acc.1
    · rw [addStep_mem _ _ hm]; exact h
    · rw [addStep_not_mem _ _ hm]
      show (acc.1 ++ [e]).Nodup
      rw [List.nodup_append]
      refine ⟨h, by simp, ?_⟩
      intro a ha b hb
      simp only [List.mem_singleton] at hb
      subst hb
      intro hab; subst hab; exact hm ha

/-- Set.Add keeps a duplicate-free member list duplicate-free -/
theorem nodup_setAdd (ms es : List Bytes) (h : ms.Nodup) : (setAdd ms es).1.Nodup :=
  foldl_addStep_nodup es (ms, 0) h

/-- the counter grows exactly as the list does, for any accumulator -/
theorem foldl_addStep_length (es : List Bytes) (acc : List Bytes × Nat) :
    (es.foldl addStep acc).1.length + acc.2 = acc.1.length + (es.foldl addStep acc).2 := by
  induction es generalizing acc with
  | nil => simp only [List.foldl_nil, Nat.add_comm]
  | cons e r ih =>
    simp only [List.foldl_cons]
    have := ih (addStep acc e)
    by_cases hm : e ∈ acc.1
    · rw [addStep_mem _ _ hm] at this ⊢; exact this
    · rw [addStep_not_mem _ _ hm] at this ⊢
      simp only [List.length_append, List.length_singleton] at this
      omega

/-- the count reported by Set.Add is exactly the growth of the member list -/
theorem length_setAdd (ms es : List Bytes) : (setAdd ms es).1.length = ms.length + (setAdd ms es).2 := by
  have := foldl_addStep_length es (ms, 0)
  rw [setAdd_eq_foldl]; simpa using this

/-- the fold only appends, for any accumulator -/
theorem foldl_addStep_prefix (es : List Bytes) (acc : List Bytes × Nat) :
    ∃ t, (es.foldl addStep acc).1 = acc.1 ++ t := by
  induction es generalizing acc with
  | nil => exact ⟨[], by simp⟩
  | cons e r ih =>
    simp only [List.foldl_cons]
    obtain ⟨t, ht⟩ := ih (addStep acc e)
    by_cases hm : e ∈ acc.1
    · rw [addStep_mem _ _ hm] at ht ⊢; exact ⟨t, ht⟩
    · rw [addStep_not_mem _ _ hm] at ht ⊢
      exact ⟨[e] ++ t, by rw [ht]; simp⟩

/-- Set.Add only appends: the old member list is a prefix of the new one -/
theorem setAdd_prefix (ms es : List Bytes) : ∃ t, (setAdd ms es).1 = ms ++ t :=
  foldl_addStep_prefix es (ms, 0)

/-- folding pairwise distinct, all-new elements appends them all -/
theorem foldl_addStep_fresh (es : List Bytes) (acc : List Bytes × Nat)
    (hn : es.Nodup) (hd : ∀ x, x ∈ es → x ∉ acc.1) :
    es.foldl addStep acc = (acc.1 ++ es, acc.2 + es.length) := by
  induction es generalizing acc with
  | nil => simp
  | cons e r ih =>
    simp only [List.foldl_cons]
    rw [addStep_not_mem _ _ (hd e (by simp))]
    rw [List.nodup_cons] at hn
    rw [ih _ hn.2]
    · simp only [List.append_assoc, List.singleton_append, List.length_cons, Prod.mk.injEq, true_and]
      omega
    · intro x hx
      simp only [List.mem_append, List.mem_singleton, not_or]
      exact ⟨hd x (by simp [hx]), fun h => hn.1 (h ▸ hx)⟩

/-- adding pairwise distinct elements to the empty set stores exactly that list -/
theorem setAdd_nil_nodup (es : List Bytes) (h : es.Nodup) : setAdd [] es = (es, es.length) := by
  have := foldl_addStep_fresh es ([], 0) h (by simp)
  simpa [setAdd_eq_foldl] using this

/-- adding one element that is absent appends it -/
theorem setAdd_single_new (ms : List Bytes) (m : Bytes) (h : m ∉ ms) : setAdd ms [m] = (ms ++ [m], 1) := by
  simp [setAdd, h]

/-- adding one element that is present changes nothing -/
theorem setAdd_single_old (ms : List Bytes) (m : Bytes) (h : m ∈ ms) : setAdd ms [m] = (ms, 0) := by
  simp [setAdd, h]

/-! ### Set.Remove -/

/-- one step of the `setRemove` fold -/
def remStep (acc : List Bytes × Nat) (e : Bytes) : List Bytes × Nat :=
  if acc.1.contains e then (acc.1.erase e, acc.2 + 1) else acc

/-- `setRemove` is the left fold of `remStep` -/
theorem setRemove_eq_foldl (ms es : List Bytes) : setRemove ms es = es.foldl remStep (ms, 0) := rfl

/-- removing a present element erases it and counts it -/
theorem remStep_mem (acc : List Bytes × Nat) (e : Bytes) (h : e ∈ acc.1) :
    remStep acc e = (acc.1.erase e, acc.2 + 1) := by
  have hc : acc.1.contains e = true := List.contains_iff_mem.mpr h
  unfold remStep; rw [if_pos hc]

/-- removing an absent element changes nothing -/
theorem remStep_not_mem (acc : List Bytes × Nat) (e : Bytes) (h : e ∉ acc.1) : remStep acc e = acc := by
  have hc : ¬ (acc.1.contains e = true) := fun hc => h (List.contains_iff_mem.mp hc)
  unfold remStep; rw [if_neg hc]

/-- the fold keeps a duplicate-free accumulator duplicate-free -/
theorem foldl_remStep_nodup (es : List Bytes) (acc : List Bytes × Nat) (h : acc.1.Nodup) :
    (es.foldl remStep acc).1.Nodup := by
  induction es generalizing acc with
  | nil => simpa
  | cons e r ih =>
    simp only [List.foldl_cons]
    apply ih
    by_cases hm : e ∈ acc.1
    · rw [remStep_mem _ _ hm]; exact h.erase e
    · rw [remStep_not_mem _ _ hm]; exact h

/-- Set.Remove keeps a duplicate-free member list duplicate-free -/
theorem nodup_setRemove (ms es : List Bytes) (h : ms.Nodup) : (setRemove ms es).1.Nodup :=
  foldl_remStep_nodup es (ms, 0) h

/-- membership after the fold (duplicate-free accumulator) -/
theorem foldl_remStep_mem (es : List Bytes) (acc : List Bytes × Nat) (h : acc.1.Nodup) (x : Bytes) :
    x ∈ (es.foldl remStep acc).1 ↔ x ∈ acc.1 ∧ x ∉ es := by
  induction es generalizing acc with
  | nil => simp
  | cons e r ih =>
    simp only [List.foldl_cons, List.mem_cons, not_or]
    by_cases hm : e ∈ acc.1
    · rw [remStep_mem _ _ hm, ih _ (h.erase e)]
      simp only [h.mem_erase_iff]
      constructor
      · rintro ⟨⟨h1, h2⟩, h3⟩; exact ⟨h2, h1, h3⟩
      · rintro ⟨h1, h2, h3⟩; exact ⟨⟨h2, h1⟩, h3⟩
    · rw [remStep_not_mem _ _ hm, ih _ h]
      constructor
      · rintro ⟨h1, h2⟩; exact ⟨h1, fun he => hm (he ▸ h1), h2⟩
      · rintro ⟨h1, _, h3⟩; exact ⟨h1, h3⟩

/-- membership after Set.Remove (duplicate-free set): the old members not named -/
theorem mem_setRemove (ms es : List Bytes) (h : ms.Nodup) (x : Bytes) :
    x ∈ (setRemove ms es).1 ↔ x ∈ ms ∧ x ∉ es :=
  foldl_remStep_mem es (ms, 0) h x

/-- the counter grows exactly as the list shrinks, for any accumulator -/
theorem foldl_remStep_length (es : List Bytes) (acc : List Bytes × Nat) :
    (es.foldl remStep acc).1.length + (es.foldl remStep acc).2 = acc.1.length + acc.2 := by
  induction es generalizing acc with
  | nil => simp
  | cons e r ih =>
    simp only [List.foldl_cons]
    rw [ih]
    by_cases hm : e ∈ acc.1
    · rw [remStep_mem _ _ hm]
      have := List.length_erase_of_mem hm
      have hp : 0 < acc.1.length := List.length_pos_of_mem hm
      simp only [this]; omega
    · rw [remStep_not_mem _ _ hm]

/-- the count reported by Set.Remove is exactly the shrinkage of the member list -/
theorem length_setRemove (ms es : List Bytes) : (setRemove ms es).1.length + (setRemove ms es).2 = ms.length := by
  have := foldl_remStep_length es (ms, 0)
  rw [setRemove_eq_foldl]; simpa using this

/-- removal never invents members (no Nodup needed) -/
theorem foldl_remStep_sub (es : List Bytes) (acc : List Bytes × Nat) (x : Bytes) :
    x ∈ (es.foldl remStep acc).1 → x ∈ acc.1 := by
  induction es generalizing acc with
  | nil => simp
  | cons e r ih =>
    simp only [List.foldl_cons]
    intro hx
    have := ih _ hx
    by_cases hm : e ∈ acc.1
    · rw [remStep_mem _ _ hm] at this; exact List.mem_of_mem_erase this
    · rw [remStep_not_mem _ _ hm] at this; exact this

/-- Set.Remove never invents members -/
theorem mem_of_mem_setRemove (ms es : List Bytes) (x : Bytes) : x ∈ (setRemove ms es).1 → x ∈ ms :=
  foldl_remStep_sub es (ms, 0) x

/-- removing one present member erases it, count 1 -/
theorem setRemove_single_mem (ms : List Bytes) (m : Bytes) (h : m ∈ ms) : setRemove ms [m] = (ms.erase m, 1) := by
  simp [setRemove, h]

/-- removing one absent member changes nothing, count 0 -/
theorem setRemove_single_absent (ms : List Bytes) (m : Bytes) (h : m ∉ ms) : setRemove ms [m] = (ms, 0) := by
  simp [setRemove, h]

/-- removing nothing changes nothing -/
theorem setRemove_nil (ms : List Bytes) : setRemove ms [] = (ms, 0) := rfl

/-! ### difference / intersection helpers -/

/-- SDIFF against one other set: the base members the other set does not hold, in base order -/
theorem subtract_single (bm om : List Bytes) : subtract bm [om] = bm.filter fun m => !om.contains m := by
  simp [subtract]

/-- SDIFF against no other set (all others absent): the base set itself -/
theorem subtract_nil (bm : List Bytes) : subtract bm [] = bm := by
  simp [subtract]

/-- membership in the SDIFF result: in the base and in none of the others -/
theorem mem_subtract (bm : List Bytes) (others : List (List Bytes)) (x : Bytes) :
    x ∈ subtract bm others ↔ x ∈ bm ∧ ∀ o, o ∈ others → x ∉ o := by
  simp [subtract]

/-- the SDIFF result of a duplicate-free base is duplicate-free -/
theorem nodup_subtract (bm : List Bytes) (others : List (List Bytes)) (h : bm.Nodup) : (subtract bm others).Nodup :=
  h.filter _

/-- membership in the unlimited two-set intersection -/
theorem mem_inter2_zero (a c : List Bytes) (x : Bytes) : x ∈ inter2 0 a c ↔ x ∈ a ∧ x ∈ c := by
  simp [inter2]

/-- the intersection of a duplicate-free set is duplicate-free -/
theorem nodup_inter2_zero (a c : List Bytes) (h : a.Nodup) : (inter2 0 a c).Nodup := by
  simp only [inter2, Int.lt_irrefl, if_false]
  exact h.filter _

/-- SINTERCARD LIMIT n: the size is capped at n -/
theorem length_inter2_limit (n : Nat) (hn : 0 < n) (a c : List Bytes) :
    (inter2 (n : Int) a c).length = min n (a.filter c.contains).length := by
  simp [inter2, hn, List.length_take]

/-- **the divide-and-conquer intersection holds exactly the members common to every operand** (any number
    of operands ≥ 1, enough recursion fuel — the handler passes the number of operands) -/
theorem mem_interAll (x : Bytes) : ∀ (f : Nat) (l : List (List Bytes)), l ≠ [] → l.length ≤ f + 2 →
    (x ∈ interAll f l ↔ ∀ a ∈ l, x ∈ a) := by
  intro f
  induction f with
  | zero =>
    intro l hne hlen
    match l, hne, hlen with
    | [a], _, _ => simp [interAll]
    | [a, c], _, _ => simp [interAll, mem_inter2_zero]
  | succ f ih =>
    intro l hne hlen
    match l, hne, hlen with
    | [a], _, _ => simp [interAll]
    | [a, c], _, _ => simp [interAll, mem_inter2_zero]
    | a :: c :: d :: r, _, hlen =>
      have hl : (a :: c :: d :: r).length = r.length + 3 := by simp
      have h1 : ((a :: c :: d :: r).take ((a :: c :: d :: r).length / 2)) ≠ [] := by
        intro h0; have := congrArg List.length h0
        rw [List.length_take, hl] at this; simp at this; omega
      have h2 : ((a :: c :: d :: r).drop ((a :: c :: d :: r).length / 2)) ≠ [] := by
        intro h0; have := congrArg List.length h0
        rw [List.length_drop, hl] at this; simp at this; omega
      have l1 : ((a :: c :: d :: r).take ((a :: c :: d :: r).length / 2)).length ≤ f + 2 := by
        rw [List.length_take, hl]; rw [hl] at hlen; omega
      have l2 : ((a :: c :: d :: r).drop ((a :: c :: d :: r).length / 2)).length ≤ f + 2 := by
        rw [List.length_drop, hl]; rw [hl] at hlen; omega
      have e : interAll (f + 1) (a :: c :: d :: r) =
          inter2 0 (interAll f ((a :: c :: d :: r).take ((a :: c :: d :: r).length / 2)))
            (interAll f ((a :: c :: d :: r).drop ((a :: c :: d :: r).length / 2))) := by
        simp [interAll]
      rw [e, mem_inter2_zero, ih _ h1 l1, ih _ h2 l2]
      constructor
      · rintro ⟨ht, hd⟩ y hy
        rw [← List.take_append_drop ((a :: c :: d :: r).length / 2) (a :: c :: d :: r)] at hy
        rcases List.mem_append.mp hy with hy | hy
        · exact ht y hy
        · exact hd y hy
      · intro hall
        exact ⟨fun y hy => hall y (List.mem_of_mem_take hy), fun y hy => hall y (List.mem_of_mem_drop hy)⟩

/-- the intersection of duplicate-free operands is duplicate-free -/
theorem nodup_interAll : ∀ (f : Nat) (l : List (List Bytes)), (∀ a ∈ l, a.Nodup) → (interAll f l).Nodup := by
  intro f
  induction f with
  | zero =>
    intro l h
    match l with
    | [] => simp [interAll]
    | [a] => simpa [interAll] using h
    | [a, c] => simp only [interAll]; exact nodup_inter2_zero a c (h a (by simp))
    | a :: c :: d :: r => simp [interAll]
  | succ f ih =>
    intro l h
    match l with
    | [] => simp [interAll]
    | [a] => simpa [interAll] using h
    | [a, c] => simp only [interAll]; exact nodup_inter2_zero a c (h a (by simp))
    | a :: c :: d :: r =>
      have e : interAll (f + 1) (a :: c :: d :: r) =
          inter2 0 (interAll f ((a :: c :: d :: r).take ((a :: c :: d :: r).length / 2)))
            (interAll f ((a :: c :: d :: r).drop ((a :: c :: d :: r).length / 2))) := by
        simp [interAll]
      rw [e]
      exact nodup_inter2_zero _ _ (ih _ fun y hy => h y (List.mem_of_mem_take hy))

/-- the two orders of a two-element list -/
theorem nthPerm_pair {α : Type} (n : Nat) (x y : α) : nthPerm n [x, y] = [x, y] ∨ nthPerm n [x, y] = [y, x] := by
  unfold nthPerm
  simp only [List.length_cons, List.length_nil, nthPermF, List.isEmpty_cons, Bool.false_eq_true, if_false]
  rcases Nat.mod_two_eq_zero_or_one n with h | h
  · left; simp [h, Nat.mod_one]
  · right; simp [h, Nat.mod_one]

/-- a one-element list has one order -/
theorem nthPerm_single {α : Type} (n : Nat) (x : α) : nthPerm n [x] = [x] := by
  simp [nthPerm, nthPermF, Nat.mod_one]

/-- order 0 is the order of the command line -/
theorem nthPerm_zero_pair {α : Type} (x y : α) : nthPerm 0 [x, y] = [x, y] := by
  simp [nthPerm, nthPermF]

/-- two distinct keys survive duplicate removal in order -/
theorem eraseDups_pair (k1 k2 : Bytes) (h : k1 ≠ k2) : [k1, k2].eraseDups = [k1, k2] := by
  have hb : (k2 == k1) = false := by simpa using Ne.symm h
  simp [List.eraseDups, List.eraseDupsBy, List.eraseDupsBy.loop, hb]

/-! ### the shared `withSet` prologue -/

/-- a live, unshared set at the key: the command body runs on its members, state untouched so far -/
theorem run_withSet_live (c : Ctx) (s : State) (n k : Bytes) (rest ms : List Bytes) (ex : Option Int)
    (absent : Res) (msg : Bytes → Bytes) (kont : Bytes → List Bytes → Prog Res)
    (h : s.lookup c.db k = some ⟨.set 0 ms, ex⟩) (hlive : (⟨.set 0 ms, ex⟩ : Entry).expired c.now = false) :
    (withSet (n :: k :: rest) true absent msg kont).run c s = (kont k ms).run c s := by
  simp [withSet, keysExist_single, h, getValues_live _ _ _ _ h hlive, asSet?]

/-- absent key: the command answers its fixed "absent" reply, state untouched -/
theorem run_withSet_absent (c : Ctx) (s : State) (n k : Bytes) (rest : List Bytes)
    (absent : Res) (msg : Bytes → Bytes) (kont : Bytes → List Bytes → Prog Res)
    (h : s.lookup c.db k = none) :
    (withSet (n :: k :: rest) true absent msg kont).run c s = (s, .done absent) := by
  simp [withSet, keysExist_single, h]

/-- a live value that is not a set: error, state untouched -/
theorem run_withSet_wrongtype (c : Ctx) (s : State) (n k : Bytes) (rest : List Bytes) (v : Val) (ex : Option Int)
    (absent : Res) (msg : Bytes → Bytes) (kont : Bytes → List Bytes → Prog Res)
    (h : s.lookup c.db k = some ⟨v, ex⟩) (hlive : (⟨v, ex⟩ : Entry).expired c.now = false)
    (hv : asSet? v = none) :
    (withSet (n :: k :: rest) true absent msg kont).run c s = (s, .done (.err (msg k))) := by
  simp [withSet, keysExist_single, h, getValues_live _ _ _ _ h hlive, hv]

/-! ### the SINTER operand loop on two keys -/

/-- both operands live unshared sets: the loop reads both (state untouched) and hands them over in loop order -/
theorem run_interLoop_two (c : Ctx) (s : State) (ka kb : Bytes) (ma mb : List Bytes) (ea eb : Option Int)
    (onAbsent : Res) (kont : List (Nat × List Bytes) → Prog Res)
    (ha : s.lookup c.db ka = some ⟨.set 0 ma, ea⟩) (la : (⟨.set 0 ma, ea⟩ : Entry).expired c.now = false)
    (hb : s.lookup c.db kb = some ⟨.set 0 mb, eb⟩) (lb : (⟨.set 0 mb, eb⟩ : Entry).expired c.now = false) :
    (interLoop [(ka, true), (kb, true)] onAbsent kont).run c s = (kont [(0, ma), (0, mb)]).run c s := by
  simp [interLoop, getValues_live _ _ _ _ ha la, getValues_live _ _ _ _ hb lb, asSet?]

/-- first operand (in loop order) absent: the loop answers `onAbsent` at once -/
theorem run_interLoop_absent_first (c : Ctx) (s : State) (ka : Bytes) (r : List (Bytes × Bool))
    (onAbsent : Res) (kont : List (Nat × List Bytes) → Prog Res) :
    (interLoop ((ka, false) :: r) onAbsent kont).run c s = (s, .done onAbsent) := by
  simp [interLoop]

/-- second operand absent, first a live set: the loop answers `onAbsent`, state untouched -/
theorem run_interLoop_absent_second (c : Ctx) (s : State) (ka kb : Bytes) (ma : List Bytes) (ea : Option Int)
    (onAbsent : Res) (kont : List (Nat × List Bytes) → Prog Res)
    (ha : s.lookup c.db ka = some ⟨.set 0 ma, ea⟩) (la : (⟨.set 0 ma, ea⟩ : Entry).expired c.now = false) :
    (interLoop [(ka, true), (kb, false)] onAbsent kont).run c s = (s, .done onAbsent) := by
  simp [interLoop, getValues_live _ _ _ _ ha la, asSet?]

/-! ### the SINTER operand loop on any number of keys -/

/-- an element and the list without it make up the list -/
theorem perm_getElem_eraseIdx {α : Type} : ∀ (l : List α) (i : Nat) (h : i < l.length), (l[i] :: l.eraseIdx i).Perm l
  | a :: r, 0, _ => by simp
  | a :: r, i + 1, h => by
    have h' : i < r.length := by simpa using h
    simp only [List.getElem_cons_succ, List.eraseIdx_cons_succ]
    exact (List.Perm.swap a r[i] (r.eraseIdx i)).trans (List.Perm.cons a (perm_getElem_eraseIdx r i h'))


/-- a list without duplicates loses nothing to duplicate removal -/
theorem eraseDups_of_nodup : ∀ l : List Bytes, l.Nodup → l.eraseDups = l := by
  intro l
  induction l with
  | nil => intro _; simp
  | cons a as ih =>
    intro h
    rw [List.nodup_cons] at h
    have hf : as.filter (fun b => !b == a) = as := by
      rw [List.filter_eq_self]; intro x hx
      have : x ≠ a := fun e => h.1 (e ▸ hx)
      simp [this]
    rw [List.eraseDups_cons, hf, ih h.2]

/-- the operand order the model draws is a permutation of the operands -/
theorem nthPermF_perm {α : Type} : ∀ (f n : Nat) (l : List α), (nthPermF f n l).Perm l := by
  intro f
  induction f with
  | zero => intro n l; simp [nthPermF]
  | succ f ih =>
    intro n l
    unfold nthPermF
    split
    · rename_i he; simp at he; subst he; exact List.Perm.refl _
    · rename_i he
      have hpos : 0 < l.length := by
        cases l with
        | nil => simp at he
        | cons a r => simp
      have hi : n % l.length < l.length := Nat.mod_lt _ hpos
      simp only [List.getElem?_eq_getElem hi]
      have h1 := ih (n / l.length) (l.eraseIdx (n % l.length))
      have h2 : (l[n % l.length] :: l.eraseIdx (n % l.length)).Perm l := perm_getElem_eraseIdx l _ hi
      exact (List.Perm.cons _ h1).trans h2

theorem nthPerm_perm {α : Type} (n : Nat) (l : List α) : (nthPerm n l).Perm l := nthPermF_perm _ _ _

/-- every operand present and a live unshared set: the loop reads them all (state untouched) and hands their
    member lists over in loop order -/
theorem run_interLoop_all (c : Ctx) (s : State) (mem : Bytes → List Bytes) (onAbsent : Res) :
    ∀ (L : List (Bytes × Bool)) (kont : List (Nat × List Bytes) → Prog Res),
    (∀ p ∈ L, p.2 = true ∧ ∃ ex, s.lookup c.db p.1 = some ⟨.set 0 (mem p.1), ex⟩ ∧
        (⟨.set 0 (mem p.1), ex⟩ : Entry).expired c.now = false) →
    (interLoop L onAbsent kont).run c s = (kont (L.map fun p => (0, mem p.1))).run c s := by
  intro L
  induction L with
  | nil => intro kont _; simp [interLoop]
  | cons p r ih =>
    intro kont h
    obtain ⟨k, e⟩ := p
    obtain ⟨he, ex, hl, hlive⟩ := h (k, e) (by simp)
    simp only at he hl hlive
    subst he
    simp only [interLoop, Bool.not_true, Bool.false_eq_true, if_false, run_getValues, getValues_live _ _ _ _ hl hlive,
      List.headD_cons, asSet?]
    rw [ih _ (fun q hq => h q (by simp [hq]))]
    simp

/-- a prefix on which the predicate fails everywhere only shifts the index found -/
theorem findIdx?_skip (p : Bytes → Bool) (ks rest : List Bytes) (h : ∀ k ∈ ks, p k = false) :
    (ks ++ rest).findIdx? p = (rest.findIdx? p).map (· + ks.length) := by
  rw [List.findIdx?_append]
  have : ks.findIdx? p = none := by
    rw [List.findIdx?_eq_none_iff]; exact h
  rw [this]; simp

/-- every key present: the existence flags zipped onto the keys -/
theorem zip_map_true (ks : List Bytes) : ks.zip (ks.map fun _ => true) = ks.map fun k => (k, true) := by
  induction ks with
  | nil => rfl
  | cons a r ih => simp [ih]

/-! ### the SDIFF operand loop on any number of keys -/

/-- the members a key contributes to a set-algebra command: those of the set stored there, none if absent -/
def membersAt (s : State) (db : Nat) (k : Bytes) : Option (List Bytes) :=
  match s.lookup db k with
  | some ⟨.set _ ms, _⟩ => some ms
  | _ => none

/-- the key is absent, or holds a live unshared set -/
def SetOrAbsent (c : Ctx) (s : State) (k : Bytes) : Prop :=
  s.lookup c.db k = none ∨
  ∃ ms ex, s.lookup c.db k = some ⟨.set 0 ms, ex⟩ ∧ (⟨.set 0 ms, ex⟩ : Entry).expired c.now = false

/-- the SDIFF operand loop reads every listed key (state untouched) and hands over the member lists of those
    that hold a set, in command order; absent keys are skipped -/
theorem run_collectSets (c : Ctx) (s : State) (others : List Bytes) (kont : List (List Bytes) → Prog Res)
    (h : ∀ k, k ∈ others → SetOrAbsent c s k) :
    (collectSets others kont).run c s = (kont (others.filterMap (membersAt s c.db))).run c s := by
  induction others generalizing kont with
  | nil => simp [collectSets]
  | cons key r ih =>
    have hr : ∀ k, k ∈ r → SetOrAbsent c s k := fun k hk => h k (by simp [hk])
    rcases h key (by simp) with h0 | ⟨ms, ex, h1, l1⟩
    · simp [collectSets, getValues_absent _ _ _ h0, ih _ hr, asSet?, membersAt, h0]
    · simp [collectSets, getValues_live _ _ _ _ h1 l1, ih _ hr, asSet?, membersAt, h1]

/-! ### duplicate removal (the validity test SPOP applies to its random picks) -/

/-- duplicate removal never lengthens a list (fuelled form) -/
theorem length_eraseDups_le_aux (n : Nat) : ∀ l : List Bytes, l.length ≤ n → l.eraseDups.length ≤ l.length := by
  induction n with
  | zero => intro l h; cases l with
    | nil => simp
    | cons a as => simp at h
  | succ n ih =>
    intro l h
    cases l with
    | nil => simp
    | cons a as =>
      rw [List.eraseDups_cons]
      have h1 := List.length_filter_le (fun b => !b == a) as
      have h2 := ih (as.filter fun b => !b == a) (by simp at h; omega)
      simp only [List.length_cons]; omega

/-- duplicate removal never lengthens a list -/
theorem length_eraseDups_le (l : List Bytes) : l.eraseDups.length ≤ l.length :=
  length_eraseDups_le_aux l.length l (Nat.le_refl _)

/-- a list that loses nothing to duplicate removal has no duplicates -/
theorem nodup_of_length_eraseDups (l : List Bytes) (h : l.eraseDups.length = l.length) : l.Nodup := by
  induction l with
  | nil => exact List.nodup_nil
  | cons a as ih =>
    rw [List.eraseDups_cons] at h
    have h1 := List.length_filter_le (fun b => !b == a) as
    have h2 := length_eraseDups_le (as.filter fun b => !b == a)
    simp only [List.length_cons] at h
    have h3 : (as.filter fun b => !b == a).length = as.length := by omega
    have h4 : as.filter (fun b => !b == a) = as := by
      rw [List.filter_eq_self]; exact List.length_filter_eq_length_iff.mp h3
    rw [h4] at h
    rw [List.nodup_cons]
    refine ⟨?_, ih (by omega)⟩
    intro hm
    have := (List.filter_eq_self.mp h4) a hm
    simp at this
/-- duplicate removal leaves no duplicates (fuelled form) -/
theorem nodup_eraseDups_aux (n : Nat) : ∀ l : List Bytes, l.length ≤ n → l.eraseDups.Nodup := by
  induction n with
  | zero => intro l h; cases l with
    | nil => simp
    | cons a as => simp at h
  | succ n ih =>
    intro l h
    cases l with
    | nil => simp
    | cons a as =>
      rw [List.eraseDups_cons, List.nodup_cons]
      have h1 := List.length_filter_le (fun b => !b == a) as
      refine ⟨?_, ih (as.filter fun b => !b == a) (by simp at h; omega)⟩
      intro hm
      have := (List.mem_filter.mp (List.mem_eraseDups.mp hm)).2
      simp at this

/-- duplicate removal leaves no duplicates -/
theorem nodup_eraseDups (l : List Bytes) : l.eraseDups.Nodup := nodup_eraseDups_aux l.length l (Nat.le_refl _)

/-- **the count Set.Add reports on a fresh set is the number of distinct elements named** -/
theorem setAdd_nil_count (es : List Bytes) : (setAdd [] es).2 = es.eraseDups.length := by
  have hp : (setAdd [] es).1.Perm es.eraseDups :=
    (List.perm_ext_iff_of_nodup (nodup_setAdd [] es List.nodup_nil) (nodup_eraseDups es)).mpr fun x => by
      rw [mem_setAdd, List.mem_eraseDups]; simp
  have := length_setAdd [] es
  rw [hp.length_eq] at this
  simpa using this.symm

/-! ### set.Union -/

/-- **the union holds exactly the members of the operands** -/
theorem mem_unionMembers (sets : List (List Bytes)) (x : Bytes) : x ∈ unionMembers sets ↔ ∃ ms ∈ sets, x ∈ ms := by
  unfold unionMembers
  rw [mem_setAdd]
  simp [List.mem_flatten]

/-- the union is duplicate-free whatever the operands are (it is built by Set.Add from the empty set) -/
theorem nodup_unionMembers (sets : List (List Bytes)) : (unionMembers sets).Nodup :=
  nodup_setAdd [] _ List.nodup_nil

/-- the value an operand key contributes to the one GetValues call of SUNION: nil when absent -/
def valAt (s : State) (db : Nat) (k : Bytes) : Val :=
  match s.lookup db k with
  | some e => e.val
  | none => .nil

/-- GetValues over keys that are absent or hold a live set serves their values and changes nothing -/
theorem getValues_setOrAbsent (c : Ctx) (s : State) (ks : List Bytes) (h : ∀ k, k ∈ ks → SetOrAbsent c s k) :
    getValues c s ks = (s, ks.map (valAt s c.db)) := by
  induction ks with
  | nil => rfl
  | cons k r ih =>
    have hr := ih fun k' hk' => h k' (by simp [hk'])
    rcases h k (by simp) with h0 | ⟨ms, ex, h1, l1⟩
    · simp [getValues, h0, hr, valAt]
    · simp [getValues, h1, l1, hr, valAt]

/-- an absent key, or one that holds a set, is not refused by SUNION -/
theorem notSetVal_valAt (c : Ctx) (s : State) (k : Bytes) (h : SetOrAbsent c s k) : notSetVal (valAt s c.db k) = false := by
  rcases h with h0 | ⟨ms, ex, h1, _⟩
  · simp [valAt, h0, notSetVal]
  · simp [valAt, h1, notSetVal, asSet?]

/-- the members an operand contributes, read off its value -/
theorem asSet_valAt (s : State) (db : Nat) (k : Bytes) :
    (asSet? (valAt s db k)).map (·.2) = membersAt s db k := by
  unfold valAt membersAt
  cases h : s.lookup db k with
  | none => rfl
  | some e =>
    obtain ⟨v, ex⟩ := e
    cases v <;> rfl

/-! ### the SINTERSTORE operand loop -/

/-- every operand absent or a live unshared set, with its existence flag: the loop reads the present ones
    (state untouched) and hands over whether one was absent and the member lists in command order -/
theorem run_storeLoop (c : Ctx) (s : State) :
    ∀ (L : List (Bytes × Bool)) (kont : Bool → List (List Bytes) → Prog Res),
    (∀ p ∈ L, p.2 = (s.lookup c.db p.1).isSome ∧ SetOrAbsent c s p.1) →
    (storeLoop L kont).run c s = (kont (L.any fun p => !p.2) (L.filterMap fun p => membersAt s c.db p.1)).run c s := by
  intro L
  induction L with
  | nil => intro kont _; simp [storeLoop]
  | cons p r ih =>
    intro kont h
    obtain ⟨k, e⟩ := p
    have hr : ∀ q ∈ r, q.2 = (s.lookup c.db q.1).isSome ∧ SetOrAbsent c s q.1 := fun q hq => h q (by simp [hq])
    obtain ⟨he, hk⟩ := h (k, e) (by simp)
    simp only at he hk
    rcases hk with h0 | ⟨ms, ex, h1, l1⟩
    · rw [h0] at he; subst he
      simp [storeLoop, ih _ hr, membersAt, h0]
    · rw [h1] at he; subst he
      simp [storeLoop, getValues_live _ _ _ _ h1 l1, asSet?, ih _ hr, membersAt, h1]

/-- the existence flags zipped onto the keys -/
theorem zip_keysExist (s : State) (db : Nat) (ks : List Bytes) :
    ks.zip (keysExist s db ks) = ks.map fun k => (k, (s.lookup db k).isSome) := by
  unfold keysExist
  induction ks with
  | nil => rfl
  | cons a r ih => simp [ih]

end Sugar
