/-
  Lemmas.HashLemmas — helper facts for the hash property C14: evaluation of the shared reader prologue
  `withHash`, and lookup laws of the three merge folds of HSET / HSETNX / HDEL over association lists.
-/
import SugarModel.Lemmas.Coll
import SugarModel.Lemmas.Mem
import SugarModel.Model.HashCmd
namespace Sugar

/-! ### the shared prologue of the hash readers -/

/-- key holds a live hash: the prologue hands the stored hash to the continuation, state untouched -/
theorem run_withHash_live (c : Ctx) (s : State) (n k : Bytes) (rest : List Bytes) (absent : Res)
    (kont : Bytes → KMap Scalar → Prog Res) (h : KMap Scalar) (ex : Option Int)
    (hl : s.lookup c.db k = some ⟨.hash h, ex⟩) (hlive : (⟨.hash h, ex⟩ : Entry).expired c.now = false) :
    (withHash (n :: k :: rest) true absent kont).run c s = (kont k h).run c s := by
  simp [withHash, keysExist_single, hl, getValues_live _ _ _ _ hl hlive, asHash?]

/-- key absent: the prologue answers the command's "absent" reply, state untouched -/
theorem run_withHash_absent (c : Ctx) (s : State) (n k : Bytes) (rest : List Bytes) (absent : Res)
    (kont : Bytes → KMap Scalar → Prog Res) (hl : s.lookup c.db k = none) :
    (withHash (n :: k :: rest) true absent kont).run c s = (s, .done absent) := by
  simp [withHash, keysExist_single, hl]

/-- key holds a live value that is not a hash: error, state untouched -/
theorem run_withHash_wrongtype (c : Ctx) (s : State) (n k : Bytes) (rest : List Bytes) (absent : Res)
    (kont : Bytes → KMap Scalar → Prog Res) (v : Val) (ex : Option Int)
    (hl : s.lookup c.db k = some ⟨v, ex⟩) (hlive : (⟨v, ex⟩ : Entry).expired c.now = false)
    (hv : asHash? v = none) :
    (withHash (n :: k :: rest) true absent kont).run c s = (s, .done (.err (notHash k))) := by
  simp [withHash, keysExist_single, hl, getValues_live _ _ _ _ hl hlive, hv]

/-! ### merge folds -/

/-- the HSET merge loop: copy every old field that the new entries do not mention -/
def hsetMerge (hash entries : KMap Scalar) : KMap Scalar :=
  hash.foldl (fun (m : KMap Scalar) (fv : Bytes × Scalar) => if (m.get fv.1).isNone then m.put fv.1 fv.2 else m) entries

/-- the HSETNX merge loop: every old field overwrites the new entries -/
def hsetnxMerge (hash entries : KMap Scalar) : KMap Scalar :=
  hash.foldl (fun (m : KMap Scalar) (fv : Bytes × Scalar) => m.put fv.1 fv.2) entries

/-- the HDEL loop: remove each named field that is present, counting removals -/
def hdelFold (h : KMap Scalar) (fs : List Bytes) : KMap Scalar × Nat :=
  fs.foldl (fun (acc : KMap Scalar × Nat) f =>
      if (acc.1.get f).isSome then (acc.1.del f, acc.2 + 1) else acc) (h, 0)

/-- contents after HSET: new entries win, old fields otherwise (no uniqueness assumption needed) -/
theorem hsetMerge_get (hash entries : KMap Scalar) (g : Bytes) :
    (hsetMerge hash entries).get g = match entries.get g with
      | some v => some v
      | none => hash.get g := by
  unfold hsetMerge
  induction hash generalizing entries with
  | nil => cases he : entries.get g <;> simp [he]
  | cons p r ih =>
    obtain ⟨f, v⟩ := p
    simp only [List.foldl_cons]
    rw [ih]
    by_cases hfg : f = g
    · subst hfg
      cases he : entries.get f with
      | none => simp [KMap.get]
      | some w => simp [he]
    · cases he : entries.get f with
      | none => simp [KMap.get_put_other _ _ _ _ hfg, KMap.get, hfg]
      | some w => simp [KMap.get, hfg]

/-- contents after HSETNX on a hash with unique fields: old fields win, new entries otherwise -/
theorem hsetnxMerge_get (hash entries : KMap Scalar) (g : Bytes) (hn : KMap.NoDup hash) :
    (hsetnxMerge hash entries).get g = match hash.get g with
      | some v => some v
      | none => entries.get g := by
  unfold hsetnxMerge
  induction hash generalizing entries with
  | nil => simp
  | cons p r ih =>
    obtain ⟨f, v⟩ := p
    unfold KMap.NoDup at hn
    simp only [List.map_cons, List.nodup_cons] at hn
    simp only [List.foldl_cons]
    rw [ih _ hn.2]
    by_cases hfg : f = g
    · subst hfg
      simp [KMap.get_none_of_not_mem r f hn.1, KMap.get]
    · simp [KMap.get_put_other _ _ _ _ hfg, KMap.get, hfg]

/-- HDEL loop with an arbitrary starting count: a field reads as absent iff it was named -/
theorem hdelFold_get_aux (fs : List Bytes) (h : KMap Scalar) (n : Nat) (g : Bytes) :
    (fs.foldl (fun (acc : KMap Scalar × Nat) f =>
      if (acc.1.get f).isSome then (acc.1.del f, acc.2 + 1) else acc) (h, n)).1.get g
      = if g ∈ fs then none else h.get g := by
  induction fs generalizing h n with
  | nil => simp
  | cons f r ih =>
    simp only [List.foldl_cons]
    cases hf : h.get f with
    | none =>
      simp only [Option.isSome_none, Bool.false_eq_true, if_false]
      rw [ih]
      by_cases hg : g = f
      · subst hg; simp [hf]
      · simp [hg]
    | some w =>
      simp only [Option.isSome_some, if_true]
      rw [ih, KMap.get_del]
      by_cases hg : g = f
      · subst hg; simp
      · have : ¬ f = g := fun e => hg e.symm
        simp [hg, this]

/-- contents after HDEL: exactly the named fields are gone -/
theorem hdelFold_get (h : KMap Scalar) (fs : List Bytes) (g : Bytes) :
    (hdelFold h fs).1.get g = if g ∈ fs then none else h.get g :=
  hdelFold_get_aux fs h 0 g

/-- a field that `get` finds is among the keys -/
theorem KMap.get_isSome_mem {α : Type} (m : KMap α) (k : Bytes) (h : (m.get k).isSome = true) : k ∈ m.map Prod.fst := by
  induction m with
  | nil => simp at h
  | cons p r ih =>
    obtain ⟨k', v⟩ := p
    by_cases hk : k' = k
    · simp [hk]
    · simp only [KMap.get, hk, if_false] at h
      simp [ih h]

/-- deleting never introduces a key -/
theorem KMap.del_keys_sub {α : Type} (m : KMap α) (k x : Bytes) (h : x ∈ (m.del k).map Prod.fst) : x ∈ m.map Prod.fst := by
  induction m with
  | nil => simp [KMap.del] at h
  | cons p r ih =>
    obtain ⟨k', v⟩ := p
    by_cases hk : k' = k
    · simp only [KMap.del, hk, if_true] at h
      simp [ih h]
    · simp only [KMap.del, hk, if_false, List.map_cons, List.mem_cons] at h
      rcases h with h | h
      · simp [h]
      · simp [ih h]

/-- deleting a field keeps the fields unique -/
theorem KMap.NoDup_del {α : Type} (m : KMap α) (k : Bytes) (hn : KMap.NoDup m) : KMap.NoDup (m.del k) := by
  induction m with
  | nil => simpa [KMap.del] using hn
  | cons p r ih =>
    obtain ⟨k', v⟩ := p
    unfold KMap.NoDup at hn ih ⊢
    simp only [List.map_cons, List.nodup_cons] at hn
    by_cases hk : k' = k
    · simp only [KMap.del, hk, if_true]; exact ih hn.2
    · simp only [KMap.del, hk, if_false, List.map_cons, List.nodup_cons]
      exact ⟨fun hx => hn.1 (KMap.del_keys_sub r k k' hx), ih hn.2⟩

/-- deleting a present field of a hash with unique fields removes exactly one binding -/
theorem KMap.length_del_present {α : Type} (m : KMap α) (k : Bytes) (hn : KMap.NoDup m)
    (h : (m.get k).isSome = true) : (m.del k).length + 1 = m.length := by
  induction m with
  | nil => simp at h
  | cons p r ih =>
    obtain ⟨k', v⟩ := p
    unfold KMap.NoDup at hn ih
    simp only [List.map_cons, List.nodup_cons] at hn
    by_cases hk : k' = k
    · subst hk
      simp [KMap.del, KMap.del_of_not_mem r k' hn.1]
    · simp only [KMap.get, hk, if_false] at h
      simp only [KMap.del, hk, if_false, List.length_cons]
      have := ih hn.2 h
      omega

/-- HDEL accounting: removals counted + fields left = fields before (unique fields) -/
theorem hdelFold_count_aux (fs : List Bytes) (h : KMap Scalar) (n : Nat) (hn : KMap.NoDup h) :
    let r := fs.foldl (fun (acc : KMap Scalar × Nat) f =>
      if (acc.1.get f).isSome then (acc.1.del f, acc.2 + 1) else acc) (h, n)
    r.2 + r.1.length = n + h.length ∧ KMap.NoDup r.1 := by
  induction fs generalizing h n with
  | nil => simp [hn]
  | cons f r ih =>
    simp only [List.foldl_cons]
    cases hf : (h.get f).isSome with
    | false => simpa using ih h n hn
    | true =>
      simp only [if_true]
      have h1 := ih (h.del f) (n + 1) (KMap.NoDup_del h f hn)
      have h2 := KMap.length_del_present h f hn hf
      refine ⟨?_, h1.2⟩
      have := h1.1
      omega

/-- the HDEL reply is the number of fields that disappeared -/
theorem hdelFold_count (h : KMap Scalar) (fs : List Bytes) (hn : KMap.NoDup h) :
    (hdelFold h fs).2 + (hdelFold h fs).1.length = h.length ∧ KMap.NoDup (hdelFold h fs).1 := by
  have := hdelFold_count_aux fs h 0 hn
  simpa [hdelFold] using this

/-- in-range sums are not wrapped -/
theorem wrap64_id (i : Int) (h1 : minInt64 ≤ i) (h2 : i ≤ maxInt64) : wrap64 i = i := by
  unfold wrap64 minInt64 maxInt64 at *
  simp only
  split <;> omega

/-! ### argument parsing of HSET -/

/-- one field/value pair whose value AdaptType accepts -/
theorem hsetEntries_single (f v : Bytes) (sv : Scalar) (hv : (adaptType v).toScalar? = some sv) :
    hsetEntries [f, v] = some [(f, sv)] := by
  simp [hsetEntries, hsetEntries.go, hv, KMap.put]

/-- the HSET argument loop over string-typed pairs, from any accumulator -/
theorem hsetEntries_go_pairs (fvs : List (Bytes × Bytes)) (acc : KMap Scalar)
    (hv : ∀ p ∈ fvs, adaptType p.2 = .str p.2) :
    hsetEntries.go (fvs.flatMap fun p => [p.1, p.2]) acc
      = some (fvs.foldl (fun (m : KMap Scalar) p => m.put p.1 (.str p.2)) acc) := by
  induction fvs generalizing acc with
  | nil => simp [hsetEntries.go]
  | cons p r ih =>
    obtain ⟨f, v⟩ := p
    have h1 : adaptType v = .str v := hv (f, v) (by simp)
    simp only [List.flatMap_cons, List.cons_append, List.nil_append, hsetEntries.go, h1, Adapted.toScalar?, List.foldl_cons]
    exact ih _ (fun p hp => hv p (by simp [hp]))

/-- any number of field/value pairs whose values AdaptType leaves strings: the entries map is built by
    successive `put` (a repeated field keeps its last value) -/
theorem hsetEntries_pairs (fvs : List (Bytes × Bytes)) (hv : ∀ p ∈ fvs, adaptType p.2 = .str p.2) :
    hsetEntries (fvs.flatMap fun p => [p.1, p.2])
      = some (fvs.foldl (fun (m : KMap Scalar) p => m.put p.1 (.str p.2)) []) :=
  hsetEntries_go_pairs fvs [] hv

/-- n pairs make 2n arguments -/
theorem flatMap_pairs_length (fvs : List (Bytes × Bytes)) :
    (fvs.flatMap fun p => [p.1, p.2]).length = 2 * fvs.length := by
  induction fvs with
  | nil => rfl
  | cons p r ih => simp only [List.flatMap_cons, List.length_append, ih, List.length_cons, List.length_nil]; omega

/-! ### closed facts about the command names -/

/-- HSET / HSETNX name tests, decided -/
theorem hset_facts : isAscii (b "hset") = true ∧ (toLower (b "hset") == b "hsetnx") = false ∧
    isAscii (b "hsetnx") = true ∧ (toLower (b "hsetnx") == b "hsetnx") = true := by decide

/-- HINCRBY / HINCRBYFLOAT name tests, decided -/
theorem hincr_facts : isAscii (b "hincrby") = true ∧ eqFold (b "hincrby") (b "hincrbyfloat") = false ∧
    isAscii (b "hincrbyfloat") = true ∧ eqFold (b "hincrbyfloat") (b "hincrbyfloat") = true := by decide

/-- the WITHVALUES token test, decided -/
theorem withvalues_facts : isAscii (b "withvalues") = true ∧ eqFold (b "withvalues") (b "withvalues") = true := by decide

/-! ### small association-list facts -/

/-- uniqueness of fields is decidable (used by the non-vacuity examples) -/
instance {α : Type} (m : KMap α) : Decidable (KMap.NoDup m) := by unfold KMap.NoDup; infer_instance

/-- a second `put` of the same field overwrites the first -/
theorem KMap.put_put_same {α : Type} (m : KMap α) (k : Bytes) (v w : α) : (m.put k v).put k w = m.put k w := by
  induction m with
  | nil => simp [KMap.put]
  | cons p r ih =>
    obtain ⟨k', v'⟩ := p
    by_cases h : k' = k
    · simp [KMap.put, h]
    · simp [KMap.put, h, ih]

/-- HDEL loop on one present field -/
theorem hdelFold_single_present (h : KMap Scalar) (f : Bytes) (hf : (h.get f).isSome = true) :
    hdelFold h [f] = (h.del f, 1) := by
  simp [hdelFold, hf]

/-- HDEL loop on one absent field -/
theorem hdelFold_single_absent (h : KMap Scalar) (f : Bytes) (hf : h.get f = none) :
    hdelFold h [f] = (h, 0) := by
  simp [hdelFold, hf]

/-! ### integer arguments -/

/-- the range test at the end of ParseInt, in isolation -/
theorem parseInt64_range_aux (ds : Bytes) (v d : Int)
    (h : (if allDigits ds then
      (if minInt64 ≤ v && v ≤ maxInt64 then some v else none) else none) = some d) :
    minInt64 ≤ d ∧ d ≤ maxInt64 := by
  by_cases h1 : allDigits ds = true
  · by_cases h2 : (decide (minInt64 ≤ v) && decide (v ≤ maxInt64)) = true
    · simp only [h1, h2, if_true, Option.some.injEq] at h
      rw [← h]
      simpa using h2
    · simp [h1, h2] at h
  · simp [h1] at h

/-- whatever ParseInt accepts lies in the 64-bit range -/
theorem parseInt64_range (s : Bytes) (d : Int) (h : parseInt64 s = some d) : minInt64 ≤ d ∧ d ≤ maxInt64 := by
  unfold parseInt64 at h
  split at h
  rename_i neg ds _
  exact parseInt64_range_aux ds _ d h

/-! ### the hash operations keep fields unique; the exact HSET reply -/

/-- `put` of a present field keeps the key list -/
theorem KMap.put_keys_present {α : Type} (m : KMap α) (k : Bytes) (v : α) (h : (m.get k).isSome = true) :
    (m.put k v).map Prod.fst = m.map Prod.fst := by
  induction m with
  | nil => simp at h
  | cons p r ih =>
    obtain ⟨k', v'⟩ := p
    by_cases hk : k' = k
    · simp [KMap.put, hk]
    · simp only [KMap.get, hk, if_false] at h
      simp [KMap.put, hk, ih h]

/-- `put` of an absent field appends it to the key list -/
theorem KMap.put_keys_absent {α : Type} (m : KMap α) (k : Bytes) (v : α) (h : m.get k = none) :
    (m.put k v).map Prod.fst = m.map Prod.fst ++ [k] := by
  induction m with
  | nil => simp [KMap.put]
  | cons p r ih =>
    obtain ⟨k', v'⟩ := p
    by_cases hk : k' = k
    · simp [KMap.get, hk] at h
    · simp only [KMap.get, hk, if_false] at h
      simp [KMap.put, hk, ih h]

/-- a field `get` does not find is not among the keys -/
theorem KMap.not_mem_of_get_none {α : Type} (m : KMap α) (k : Bytes) (h : m.get k = none) : k ∉ m.map Prod.fst := by
  induction m with
  | nil => simp
  | cons p r ih =>
    obtain ⟨k', v'⟩ := p
    by_cases hk : k' = k
    · simp [KMap.get, hk] at h
    · simp only [KMap.get, hk, if_false] at h
      simp only [List.map_cons, List.mem_cons, not_or]
      exact ⟨fun e => hk e.symm, ih h⟩

/-- `put` keeps the fields unique -/
theorem KMap.NoDup_put {α : Type} (m : KMap α) (k : Bytes) (v : α) (hn : KMap.NoDup m) : KMap.NoDup (m.put k v) := by
  unfold KMap.NoDup at *
  cases hg : m.get k with
  | some w => rw [KMap.put_keys_present m k v (by simp [hg])]; exact hn
  | none =>
    rw [KMap.put_keys_absent m k v hg]
    have := KMap.not_mem_of_get_none m k hg
    rw [List.nodup_append]
    refine ⟨hn, by simp, ?_⟩
    intro a ha b hb
    simp only [List.mem_singleton] at hb
    subst hb
    intro e; subst e; exact this ha

/-- `put` of an absent field grows the map by one -/
theorem KMap.length_put_absent {α : Type} (m : KMap α) (k : Bytes) (v : α) (h : m.get k = none) :
    (m.put k v).length = m.length + 1 := by
  have := congrArg List.length (KMap.put_keys_absent m k v h)
  simpa using this

/-- the HSET merge keeps fields unique -/
theorem hsetMerge_NoDup (h entries : KMap Scalar) (hn : KMap.NoDup entries) : KMap.NoDup (hsetMerge h entries) := by
  unfold hsetMerge
  induction h generalizing entries with
  | nil => exact hn
  | cons p r ih =>
    simp only [List.foldl_cons]
    apply ih
    split
    · exact KMap.NoDup_put _ _ _ hn
    · exact hn

/-- the HSETNX merge keeps fields unique -/
theorem hsetnxMerge_NoDup (h entries : KMap Scalar) (hn : KMap.NoDup entries) : KMap.NoDup (hsetnxMerge h entries) := by
  unfold hsetnxMerge
  induction h generalizing entries with
  | nil => exact hn
  | cons p r ih =>
    simp only [List.foldl_cons]
    exact ih _ (KMap.NoDup_put _ _ _ hn)

/-- the HSET argument loop keeps fields unique -/
theorem hsetEntries_go_NoDup (args : List Bytes) (acc entries : KMap Scalar) (hn : KMap.NoDup acc)
    (h : hsetEntries.go args acc = some entries) : KMap.NoDup entries := by
  induction args, acc using hsetEntries.go.induct with
  | case1 f v r acc sv hsv ih =>
    simp only [hsetEntries.go, hsv] at h
    exact ih (KMap.NoDup_put _ _ _ hn) h
  | case2 f v r acc hsv =>
    simp [hsetEntries.go, hsv] at h
  | case3 t acc hne =>
    unfold hsetEntries.go at h
    split at h
    · exact absurd rfl (hne _ _ _)
    · simp only [Option.some.injEq] at h; rw [← h]; exact hn

/-- the entries map HSET builds from its arguments has unique fields -/
theorem hsetEntries_NoDup (args : List Bytes) (entries : KMap Scalar) (h : hsetEntries args = some entries) :
    KMap.NoDup entries :=
  hsetEntries_go_NoDup args [] entries (by simp [KMap.NoDup]) h

/-- the HSET reply, exactly: all new entries plus every old field they do not mention -/
theorem hsetMerge_length (h entries : KMap Scalar) (hn : KMap.NoDup h) :
    (hsetMerge h entries).length = entries.length + (h.filter fun fv => (entries.get fv.1).isNone).length := by
  unfold hsetMerge
  induction h generalizing entries with
  | nil => simp
  | cons p r ih =>
    obtain ⟨f, v⟩ := p
    unfold KMap.NoDup at hn ih
    simp only [List.map_cons, List.nodup_cons] at hn
    simp only [List.foldl_cons]
    rw [ih _ hn.2]
    cases hg : entries.get f with
    | some w =>
      simp [hg]
    | none =>
      simp only [Option.isNone_none, if_true, List.filter_cons]
      rw [KMap.length_put_absent _ _ _ hg]
      have : (r.filter fun fv => ((entries.put f v).get fv.1).isNone) = r.filter fun fv => (entries.get fv.1).isNone := by
        apply List.filter_congr
        intro x hx
        have : f ≠ x.1 := by
          intro e; apply hn.1; rw [e]; exact List.mem_map_of_mem hx
        rw [KMap.get_put_other _ _ _ _ this]
      rw [this]
      simp [hg]
      omega

end Sugar
