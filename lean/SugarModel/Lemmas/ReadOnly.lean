/-
  Lemmas.ReadOnly — the handler models of the read-category commands issue reading primitives only
  (syntactic fact, handler by handler). SUNION is among them since Union builds a new set.
-/
import SugarModel.Lemmas.Pure
import SugarModel.Lemmas.NoFlush
namespace Sugar

theorem plusV_ro (v : Val) (k : Bytes → Prog Res) (h : ∀ r, (k r).ReadOnly) : (plusV v k).ReadOnly := by
  unfold plusV; split
  · exact h _
  · trivial

theorem ofOutcome_ro {α : Type} (o : Outcome α) : (Prog.ofOutcome o).ReadOnly := by
  cases o <;> trivial

theorem collectSets_ro (ks : List Bytes) : ∀ (k : List (List Bytes) → Prog Res), (∀ x, (k x).ReadOnly) →
    (collectSets ks k).ReadOnly := by
  induction ks with
  | nil => intro k h; exact h _
  | cons x r ih =>
    intro k h
    unfold collectSets
    refine ro_call _ _ rfl ?_
    intro vs
    apply ih
    intro acc
    split
    · exact h _
    · exact h _

theorem interLoop_ro (l : List (Bytes × Bool)) (r : Res) : ∀ (k : List (Nat × List Bytes) → Prog Res),
    (∀ x, (k x).ReadOnly) → (interLoop l r k).ReadOnly := by
  induction l with
  | nil => intro k h; exact h _
  | cons x rest ih =>
    intro k h
    obtain ⟨key, e⟩ := x
    unfold interLoop
    split
    · trivial
    · refine ro_call _ _ rfl ?_
      intro vs
      split
      · trivial
      · apply ih; intro acc; exact h _

/-- discharge `ReadOnly` goals of handler bodies -/
macro "ro" : tactic => `(tactic| (
  repeat' (first
    | trivial
    | (apply plusV_ro; intro _)
    | (exact ofOutcome_ro _)
    | (apply collectSets_ro; intro _)
    | (apply interLoop_ro; intro _)
    | (refine ro_call _ _ rfl ?_; intro _)
    | split
    | (dsimp only))))

theorem withHash_ro (cmd : List Bytes) (a : Bool) (r : Res) (k : Bytes → KMap Scalar → Prog Res)
    (h : ∀ x y, (k x y).ReadOnly) : (withHash cmd a r k).ReadOnly := by
  unfold withHash; ro; exact h _ _
theorem withSet_ro (cmd : List Bytes) (a : Bool) (r : Res) (m : Bytes → Bytes) (k : Bytes → List Bytes → Prog Res)
    (h : ∀ x y, (k x y).ReadOnly) : (withSet cmd a r m k).ReadOnly := by
  unfold withSet; ro; exact h _ _

theorem handleGet_ro (c : Ctx) (cmd : List Bytes) : (handleGet c cmd).ReadOnly := by unfold handleGet; ro
theorem handleMGet_ro (c : Ctx) (cmd : List Bytes) : (handleMGet c cmd).ReadOnly := by unfold handleMGet; ro
theorem handleExpireTime_ro (c : Ctx) (cmd : List Bytes) : (handleExpireTime c cmd).ReadOnly := by unfold handleExpireTime; ro
theorem handleTTL_ro (c : Ctx) (cmd : List Bytes) : (handleTTL c cmd).ReadOnly := by unfold handleTTL; ro
theorem handleType_ro (c : Ctx) (cmd : List Bytes) : (handleType c cmd).ReadOnly := by unfold handleType; ro
theorem handleStrLen_ro (c : Ctx) (cmd : List Bytes) : (handleStrLen c cmd).ReadOnly := by unfold handleStrLen; ro
theorem handleSubStr_ro (c : Ctx) (cmd : List Bytes) : (handleSubStr c cmd).ReadOnly := by unfold handleSubStr; ro
theorem handleLLen_ro (c : Ctx) (cmd : List Bytes) : (handleLLen c cmd).ReadOnly := by unfold handleLLen; ro
theorem handleLIndex_ro (c : Ctx) (cmd : List Bytes) : (handleLIndex c cmd).ReadOnly := by unfold handleLIndex; ro
theorem handleLRange_ro (c : Ctx) (cmd : List Bytes) : (handleLRange c cmd).ReadOnly := by unfold handleLRange; ro
theorem handleHGet_ro (c : Ctx) (cmd : List Bytes) : (handleHGet c cmd).ReadOnly := by
  unfold handleHGet; apply withHash_ro; intros; ro
theorem handleHStrLen_ro (c : Ctx) (cmd : List Bytes) : (handleHStrLen c cmd).ReadOnly := by
  unfold handleHStrLen; apply withHash_ro; intros; ro
theorem handleHVals_ro (c : Ctx) (cmd : List Bytes) : (handleHVals c cmd).ReadOnly := by
  unfold handleHVals; apply withHash_ro; intros; ro
theorem handleHLen_ro (c : Ctx) (cmd : List Bytes) : (handleHLen c cmd).ReadOnly := by
  unfold handleHLen; apply withHash_ro; intros; ro
theorem handleHKeys_ro (c : Ctx) (cmd : List Bytes) : (handleHKeys c cmd).ReadOnly := by
  unfold handleHKeys; apply withHash_ro; intros; ro
theorem handleHGetAll_ro (c : Ctx) (cmd : List Bytes) : (handleHGetAll c cmd).ReadOnly := by
  unfold handleHGetAll; apply withHash_ro; intros; ro
theorem handleHExists_ro (c : Ctx) (cmd : List Bytes) : (handleHExists c cmd).ReadOnly := by
  unfold handleHExists; apply withHash_ro; intros; ro
theorem handleHRandField_ro (c : Ctx) (cmd : List Bytes) : (handleHRandField c cmd).ReadOnly := by unfold handleHRandField; ro
theorem handleSCard_ro (c : Ctx) (cmd : List Bytes) : (handleSCard c cmd).ReadOnly := by
  unfold handleSCard; apply withSet_ro; intros; ro
theorem handleSIsMember_ro (c : Ctx) (cmd : List Bytes) : (handleSIsMember c cmd).ReadOnly := by
  unfold handleSIsMember; apply withSet_ro; intros; ro
theorem handleSMembers_ro (c : Ctx) (cmd : List Bytes) : (handleSMembers c cmd).ReadOnly := by
  unfold handleSMembers; apply withSet_ro; intros; ro
theorem handleSMIsMember_ro (c : Ctx) (cmd : List Bytes) : (handleSMIsMember c cmd).ReadOnly := by
  unfold handleSMIsMember; apply withSet_ro; intros; ro
theorem handleSRandMember_ro (c : Ctx) (cmd : List Bytes) : (handleSRandMember c cmd).ReadOnly := by unfold handleSRandMember; ro
theorem handleSDiff_ro (c : Ctx) (cmd : List Bytes) : (handleSDiff false c cmd).ReadOnly := by
  unfold handleSDiff; ro
theorem sinterTail_ro (m : Nat) (l : Int) (s : List (Nat × List Bytes)) : (sinterTail m l s).ReadOnly := by
  unfold sinterTail; ro
theorem handleSInter_ro (m : Nat) (hm : m = 0 ∨ m = 2) (c : Ctx) (cmd : List Bytes) : (handleSInter m c cmd).ReadOnly := by
  rcases hm with rfl | rfl <;> (unfold handleSInter handleSInterRead; ro) <;> exact sinterTail_ro _ _ _
/-- SUNION builds its answer from one GetValues call and nothing else: no operand is written -/
theorem handleSUnion_ro (c : Ctx) (cmd : List Bytes) : (handleSUnion false c cmd).ReadOnly := by
  unfold handleSUnion; ro <;> simp_all


/-! ### sorted-set readers -/

theorem withZSet_ro {α : Type} (cmd : List Bytes) (a : Bool) (p : PRes α) (r : Res) (m : Bytes → Bytes)
    (k : Bytes → KMap Flt → α → Prog Res) (h : ∀ x y z, (k x y z).ReadOnly) : (withZSet cmd a p r m k).ReadOnly := by
  unfold withZSet; ro; exact h _ _ _
theorem collectZSets_ro (ks : List (Bytes × Bool)) : ∀ (k : List (KMap Flt) → Prog Res), (∀ x, (k x).ReadOnly) →
    (collectZSets ks k).ReadOnly := by
  induction ks with
  | nil => intro k h; exact h _
  | cons x r ih =>
    intro k h
    obtain ⟨key, e⟩ := x
    unfold collectZSets
    split
    · exact ih k h
    · refine ro_call _ _ rfl ?_
      intro vs
      split
      · trivial
      · apply ih; intro acc; exact h _
theorem handleZCard_ro (c : Ctx) (cmd : List Bytes) : (handleZCard c cmd).ReadOnly := by
  unfold handleZCard; apply withZSet_ro; intros; ro
theorem handleZCount_ro (c : Ctx) (cmd : List Bytes) : (handleZCount c cmd).ReadOnly := by
  unfold handleZCount; apply withZSet_ro; intros; ro
theorem handleZLexCount_ro (c : Ctx) (cmd : List Bytes) : (handleZLexCount c cmd).ReadOnly := by
  unfold handleZLexCount; apply withZSet_ro; intros; ro
theorem handleZMScore_ro (c : Ctx) (cmd : List Bytes) : (handleZMScore c cmd).ReadOnly := by
  unfold handleZMScore; apply withZSet_ro; intros; ro
theorem handleZScore_ro (c : Ctx) (cmd : List Bytes) : (handleZScore c cmd).ReadOnly := by
  unfold handleZScore; apply withZSet_ro; intros; ro
theorem handleZRandMember_ro (c : Ctx) (cmd : List Bytes) : (handleZRandMember c cmd).ReadOnly := by
  unfold handleZRandMember; apply withZSet_ro; intros; ro
theorem handleZRank_ro (c : Ctx) (cmd : List Bytes) : (handleZRank c cmd).ReadOnly := by
  unfold handleZRank; apply withZSet_ro; intros; ro
theorem handleZRange_ro (c : Ctx) (cmd : List Bytes) : (handleZRange c cmd).ReadOnly := by
  unfold handleZRange; apply withZSet_ro; intros; ro
theorem handleZDiff_ro (c : Ctx) (cmd : List Bytes) : (handleZDiff false c cmd).ReadOnly := by
  unfold handleZDiff; ro <;> (apply collectZSets_ro; intro _; ro) <;> simp_all
theorem zCombineTail_ro (i ws : Bool) (d a : Bytes) (rows : List (Bytes × Bool × Val × Int)) :
    (zCombineTail i false ws d a rows).ReadOnly := by
  unfold zCombineTail; ro <;> simp_all
theorem handleZCombine_ro (i : Bool) (c : Ctx) (cmd : List Bytes) : (handleZCombine i false c cmd).ReadOnly := by
  unfold handleZCombine; ro <;> first | exact zCombineTail_ro _ _ _ _ _ | simp_all

end Sugar
