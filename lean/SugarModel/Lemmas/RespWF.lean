/-
  Lemmas.RespWF — the reply builders the handlers use produce exactly one strict RESP2 value that
  decodes back to what was put in, whatever the payload bytes.
-/
import SugarModel.Lemmas.Digits
import SugarModel.Base.Resp
namespace Sugar

theorem splitCrlf_clean (line rest : Bytes) (h : cleanLine line = true) :
    splitCrlf (line ++ 13 :: 10 :: rest) = some (line, rest) := by
  induction line with
  | nil => simp [splitCrlf]
  | cons c l ih =>
    simp only [cleanLine, List.all_cons, Bool.and_eq_true, bne_iff_ne, ne_eq] at h
    have ih' := ih (by simpa [cleanLine] using h.2)
    have hc : c ≠ 13 := h.1.1
    cases hl : l ++ 13 :: 10 :: rest with
    | nil => simp at hl
    | cons d r =>
      simp only [List.cons_append, hl]
      rw [hl] at ih'
      unfold splitCrlf
      split
      · rename_i heq; simp at heq
      · rename_i heq; simp at heq
      · rename_i heq; simp at heq; exact absurd heq.1 hc
      · rename_i heq
        simp only [List.cons.injEq] at heq
        obtain ⟨h1, h2⟩ := heq
        subst h1; rw [← h2, ih']; rfl

theorem cleanLine_natDigits (n : Nat) : cleanLine (natDigits n) = true := natDigits_clean n

theorem natDigits_ne_minus1 (n : Nat) : (natDigits n == b "-1") = false := by
  have h := allDigits_natDigits n
  cases hd : natDigits n with
  | nil => rfl
  | cons c r =>
    rw [hd] at h
    simp only [allDigits, List.all_cons, Bool.and_eq_true] at h
    have hc : isDigit c = true := h.2.1
    by_cases h45 : c = 45
    · subst h45; simp [isDigit] at hc
    · have : b "-1" = [45, 49] := by decide
      rw [this]
      simp [h45]

end Sugar

namespace Sugar

theorem b36 : ((36 : UInt8) == 43) = false ∧ ((36 : UInt8) == 45) = false ∧ ((36 : UInt8) == 58) = false := by decide

/-- a bulk string reply followed by any residue parses to its payload and leaves the residue -/
theorem parseOne_bulkStr (f : Nat) (s rest : Bytes) :
    parseOne (f + 1) (bulkStr s ++ rest) = some (.bulk s, rest) := by
  have hsplit : splitCrlf (natDigits s.length ++ 13 :: 10 :: (s ++ 13 :: 10 :: rest)) =
      some (natDigits s.length, s ++ 13 :: 10 :: rest) := splitCrlf_clean _ _ (cleanLine_natDigits _)
  have e : bulkStr s ++ rest = 36 :: (natDigits s.length ++ 13 :: 10 :: (s ++ 13 :: 10 :: rest)) := by
    simp [bulkStr, fmtNat, crlf]
  rw [e]
  simp only [parseOne, hsplit, cleanLine_natDigits, Bool.not_true, Bool.false_eq_true, if_false,
    b36.1, b36.2.1, b36.2.2, natDigits_ne_minus1, allDigits_natDigits, digitsVal_natDigits]
  simp

theorem b58 : ((58 : UInt8) == 43) = false ∧ ((58 : UInt8) == 45) = false := by decide
theorem b42 : ((42 : UInt8) == 43) = false ∧ ((42 : UInt8) == 45) = false ∧ ((42 : UInt8) == 58) = false
    ∧ ((42 : UInt8) == 36) = false := by decide

theorem parseIntDec_fmtInt (i : Int) : parseIntDec (fmtInt i) = some i := by
  cases i with
  | ofNat n =>
    have hd := allDigits_natDigits n
    have hv := digitsVal_natDigits n
    cases hn : natDigits n with
    | nil => rw [hn] at hd; simp [allDigits] at hd
    | cons c r =>
      have hc : isDigit c = true := by rw [hn] at hd; simp [allDigits] at hd; exact hd.1
      have h43 : c ≠ 43 := by intro h; subst h; simp [isDigit] at hc
      have h45 : c ≠ 45 := by intro h; subst h; simp [isDigit] at hc
      rw [hn] at hd hv
      unfold parseIntDec fmtInt
      simp only [hn]
      split
      · rename_i heq; simp at heq; exact absurd heq.1 h45
      · rename_i heq; simp at heq; exact absurd heq.1 h43
      · simp [hd, hv]
  | negSucc n =>
    have hd := allDigits_natDigits (n + 1)
    have hv := digitsVal_natDigits (n + 1)
    unfold parseIntDec fmtInt
    simp only [hd, if_true, hv]
    congr 1

/-- an integer reply followed by any residue parses to its integer -/
theorem parseOne_intReply (f : Nat) (i : Int) (rest : Bytes) :
    parseOne (f + 1) (intReply i ++ rest) = some (.int i, rest) := by
  have hclean : cleanLine (fmtInt i) = true := by
    cases i with
    | ofNat n => exact cleanLine_natDigits n
    | negSucc n =>
      have := cleanLine_natDigits (n + 1)
      simp only [fmtInt, cleanLine, List.all_cons] at this ⊢
      simp [this]
  have e : intReply i ++ rest = 58 :: (fmtInt i ++ 13 :: 10 :: rest) := by simp [intReply, crlf]
  rw [e]
  simp only [parseOne, splitCrlf_clean _ _ hclean, hclean, Bool.not_true, Bool.false_eq_true, if_false,
    b58.1, b58.2, parseIntDec_fmtInt i]
  simp

/-- a simple string whose text has no CR or LF parses to that text -/
theorem parseOne_simpleStr (f : Nat) (s rest : Bytes) (h : cleanLine s = true) :
    parseOne (f + 1) (simpleStr s ++ rest) = some (.simple s, rest) := by
  have e : simpleStr s ++ rest = 43 :: (s ++ 13 :: 10 :: rest) := by simp [simpleStr, crlf]
  rw [e]
  simp [parseOne, splitCrlf_clean _ _ h, h]

/-- an error line whose text has no CR or LF parses to that text -/
theorem parseOne_error (f : Nat) (s rest : Bytes) (h : cleanLine s = true) :
    parseOne (f + 1) ((45 :: s ++ crlf) ++ rest) = some (.error s, rest) := by
  have e : (45 :: s ++ crlf) ++ rest = 45 :: (s ++ 13 :: 10 :: rest) := by simp [crlf]
  rw [e]
  simp [parseOne, splitCrlf_clean _ _ h, h]

theorem parseOne_nilBulk (f : Nat) (rest : Bytes) : parseOne (f + 1) (nilBulk ++ rest) = some (.nullBulk, rest) := by
  have e : nilBulk ++ rest = 36 :: (b "-1" ++ 13 :: 10 :: rest) := by
    have : nilBulk = [36, 45, 49, 13, 10] := by decide
    have h2 : b "-1" = [45, 49] := by decide
    rw [this, h2]; rfl
  rw [e]
  have hc : cleanLine (b "-1") = true := by decide
  simp only [parseOne, splitCrlf_clean _ _ hc, hc, Bool.not_true, Bool.false_eq_true, if_false, b36.1, b36.2.1, b36.2.2]
  simp

/-- n well-formed values in a row are consumed by the array-element loop -/
theorem elems_bulks (f : Nat) : ∀ (xs : List Bytes) (rest : Bytes) (acc : List RespVal),
    parseOne.elems (f + 1) xs.length ((xs.map bulkStr).flatten ++ rest) acc =
      some (acc.reverse ++ xs.map RespVal.bulk, rest) := by
  intro xs
  induction xs with
  | nil => intro rest acc; simp [parseOne.elems]
  | cons x r ih =>
    intro rest acc
    simp only [List.length_cons, List.map_cons, List.flatten_cons, List.append_assoc]
    unfold parseOne.elems
    rw [parseOne_bulkStr]
    simp only
    rw [ih]
    simp

/-- an array of bulk strings parses to the array of its payloads -/
theorem parseOne_bulkArr (f : Nat) (xs : List Bytes) (rest : Bytes) :
    parseOne (f + 2) ((arrHdr xs.length ++ (xs.map bulkStr).flatten) ++ rest) = some (.arr (xs.map .bulk), rest) := by
  have e : (arrHdr xs.length ++ (xs.map bulkStr).flatten) ++ rest =
      42 :: (natDigits xs.length ++ 13 :: 10 :: ((xs.map bulkStr).flatten ++ rest)) := by
    simp [arrHdr, fmtNat, crlf]
  rw [e]
  simp only [parseOne, splitCrlf_clean _ _ (cleanLine_natDigits _), cleanLine_natDigits, Bool.not_true,
    Bool.false_eq_true, if_false, b42.1, b42.2.1, b42.2.2.1, b42.2.2.2, natDigits_ne_minus1, allDigits_natDigits,
    digitsVal_natDigits, elems_bulks]
  simp

end Sugar
