/-
  Lemmas.Pure — observational content of a state (what any key reads as at clock `now`), and the
  fact that programs built only from the reading primitives preserve it in every database.
-/
import SugarModel.Lemmas.Frame
namespace Sugar

/-- what key `k` of database `j` holds as seen at clock reading `now`: nothing if absent or its
    deadline has passed, else its value and deadline -/
def obsAt (now : Int) (s : State) (j : Nat) (k : Bytes) : Option Entry :=
  match s.lookup j k with
  | none => none
  | some e => if e.expired now then none else some e

/-- reading primitives -/
def Prim.isRead : Prim → Bool
  | .keysExist _ => true
  | .getExpiry _ => true
  | .getValues _ => true
  | .newOid => true
  | _ => false

/-- the program only issues reading primitives -/
def Prog.ReadOnly {α : Type} : Prog α → Prop
  | .ret _ => True
  | .panic _ => True
  | .unmod _ => True
  | .call p k => p.isRead = true ∧ ∀ r, (k r).ReadOnly

theorem lookup_deleteKey (s : State) (i : Nat) (k k2 : Bytes) :
    (deleteKey s i k).lookup i k2 = if k = k2 then none else s.lookup i k2 := by
  unfold deleteKey State.lookup State.db
  simp only
  cases h : s.dbs.get i with
  | none =>
    simp [State.hasDb, h, KMap.get]
  | some d =>
    simp [State.hasDb, h, KMap.get_del]

theorem lookup_deleteKey_otherdb (s : State) (i j : Nat) (k k2 : Bytes) (h : j ≠ i) :
    (deleteKey s i k).lookup j k2 = s.lookup j k2 := by
  unfold State.lookup State.db
  rw [deleteKey_frame s i j k h]

/-- deleting an expired key changes nothing observable -/
theorem obsAt_deleteKey_expired (now : Int) (s : State) (i : Nat) (k : Bytes) (e : Entry)
    (h1 : s.lookup i k = some e) (h2 : e.expired now = true) (j : Nat) (k2 : Bytes) :
    obsAt now (deleteKey s i k) j k2 = obsAt now s j k2 := by
  unfold obsAt
  by_cases hj : j = i
  · subst hj
    rw [lookup_deleteKey]
    by_cases hk : k = k2
    · subst hk; simp [h1, h2]
    · simp [hk]
  · rw [lookup_deleteKey_otherdb s i j k k2 hj]

/-- lazy expiry inside getValues is unobservable -/
theorem getValues_obs (c : Ctx) (ks : List Bytes) : ∀ (s : State) (j : Nat) (k2 : Bytes),
    obsAt c.now (getValues c s ks).1 j k2 = obsAt c.now s j k2 := by
  induction ks with
  | nil => intro s j k2; simp [getValues]
  | cons k r ih =>
    intro s j k2
    unfold getValues
    cases h : s.lookup c.db k with
    | none => simp [ih]
    | some e =>
      simp only
      by_cases he : e.expired c.now = true
      · simp [he, ih, obsAt_deleteKey_expired c.now s c.db k e h he]
      · simp [he, ih]

/-- getValues never removes a key whose deadline has not passed (and never changes any entry) -/
theorem getValues_keeps_unexpired (c : Ctx) (ks : List Bytes) : ∀ (s : State) (j : Nat) (k2 : Bytes) (e : Entry),
    s.lookup j k2 = some e → e.expired c.now = false → (getValues c s ks).1.lookup j k2 = some e := by
  intro s j k2 e h1 h2
  have := getValues_obs c ks s j k2
  unfold obsAt at this
  rw [h1] at this
  simp only [h2] at this
  cases h : (getValues c s ks).1.lookup j k2 with
  | none => simp [h] at this
  | some e' =>
    simp only [h] at this
    split at this
    · simp at this
    · simp at this; rw [this]

theorem readOnly_prim_obs (c : Ctx) (s s' : State) (p : Prim) (r : p.Res)
    (hp : p.isRead = true)
    (h : p.exec c s = some (s', r)) (j : Nat) (k2 : Bytes) :
    obsAt c.now s' j k2 = obsAt c.now s j k2 := by
  cases p with
  | keysExist ks =>
    simp only [Prim.exec] at h
    rw [show s' = s from by rw [← (Prod.mk.inj (Option.some.inj h)).1]]
  | getExpiry k =>
    simp only [Prim.exec] at h
    rw [show s' = s from by rw [← (Prod.mk.inj (Option.some.inj h)).1]]
  | getValues ks =>
    simp only [Prim.exec] at h
    rw [show s' = (getValues c s ks).1 from by rw [Option.some.inj h]]
    exact getValues_obs c ks s j k2
  | newOid =>
    simp only [Prim.exec] at h
    rw [show s' = s from by rw [← (Prod.mk.inj (Option.some.inj h)).1]]
  | setValues _ => simp [Prim.isRead] at hp
  | setExpiry _ _ _ => simp [Prim.isRead] at hp
  | deleteKey _ => simp [Prim.isRead] at hp
  | flush _ => simp [Prim.isRead] at hp
  | mutObj _ _ => simp [Prim.isRead] at hp
  | tagOid _ _ => simp [Prim.isRead] at hp
  | setConnDb _ => simp [Prim.isRead] at hp
  | swapDbs _ _ => simp [Prim.isRead] at hp

/-- a read-only program leaves what every key of every database reads as unchanged -/
theorem readOnly_run_obs {α : Type} (p : Prog α) : ∀ (c : Ctx) (s : State) (j : Nat) (k2 : Bytes),
    p.ReadOnly → obsAt c.now (p.run c s).1 j k2 = obsAt c.now s j k2 := by
  induction p with
  | ret a => intro c s j k2 _; rfl
  | panic w => intro c s j k2 _; rfl
  | unmod w => intro c s j k2 _; rfl
  | call p k ih =>
    intro c s j k2 hp
    obtain ⟨hp1, hp2⟩ := hp
    simp only [Prog.run]
    cases hx : p.exec c s with
    | none => rfl
    | some sr =>
      obtain ⟨s', r⟩ := sr
      simp only
      rw [ih r c s' j k2 (hp2 r)]
      exact readOnly_prim_obs c s s' p r hp1 hx j k2

/-- the memory figure is not touched by a read-only program that deletes nothing; in general lazy
    expiry subtracts exactly what it deletes — the reading primitives never *add* to memUsed -/
theorem ro_call {α : Type} (p : Prim) (k : p.Res → Prog α)
    (h1 : p.isRead = true) (h2 : ∀ r, (k r).ReadOnly) : (Prog.call p k).ReadOnly := ⟨h1, h2⟩

end Sugar
