/-
  Lemmas.Digits — decimal rendering and parsing of naturals are inverse to each other.
-/
import SugarModel.Base.Bytes
namespace Sugar

theorem digitByte_toNat (k : Nat) (hk : k < 10) : ((48 + k).toUInt8).toNat = 48 + k := by
  simp [Nat.toUInt8, UInt8.ofNat, UInt8.toNat]
  omega

theorem valRev_digitsRevF : ∀ (f n : Nat), n < f → valRev (digitsRevF f n) = n := by
  intro f
  induction f with
  | zero => intro n h; omega
  | succ f ih =>
    intro n h
    simp only [digitsRevF, valRev]
    rw [digitByte_toNat (n % 10) (Nat.mod_lt _ (by omega))]
    split
    · rename_i h10
      simp [valRev]
      omega
    · rename_i h10
      rw [ih (n / 10) (by omega)]
      omega

theorem digitsVal_natDigits (n : Nat) : digitsVal (natDigits n) = n := by
  simp [digitsVal, natDigits, valRev_digitsRevF (n + 1) n (by omega)]

theorem isDigit_digitByte (k : Nat) (hk : k < 10) : isDigit ((48 + k).toUInt8) = true := by
  have h := digitByte_toNat k hk
  simp only [isDigit, Bool.and_eq_true, decide_eq_true_eq]
  constructor
  · show (48 : UInt8) ≤ _
    rw [UInt8.le_iff_toNat_le, h]; simp
  · rw [UInt8.le_iff_toNat_le, h]; simp; omega

theorem all_isDigit_digitsRevF : ∀ (f n : Nat), (digitsRevF f n).all isDigit = true := by
  intro f
  induction f with
  | zero => intro n; rfl
  | succ f ih =>
    intro n
    simp only [digitsRevF, List.all_cons, Bool.and_eq_true]
    refine ⟨isDigit_digitByte _ (Nat.mod_lt _ (by omega)), ?_⟩
    split
    · rfl
    · exact ih _

theorem allDigits_natDigits (n : Nat) : allDigits (natDigits n) = true := by
  simp only [allDigits, natDigits, Bool.and_eq_true, Bool.not_eq_true', List.all_reverse]
  refine ⟨?_, all_isDigit_digitsRevF _ _⟩
  simp [digitsRevF]

/-- digits never contain CR or LF -/
theorem natDigits_clean (n : Nat) : (natDigits n).all (fun c => c != 13 && c != 10) = true := by
  have h := allDigits_natDigits n
  simp only [allDigits, Bool.and_eq_true] at h
  rw [List.all_eq_true] at h ⊢
  intro c hc
  have hd := h.2 c hc
  simp only [isDigit, Bool.and_eq_true, decide_eq_true_eq] at hd
  have h1 : (48 : UInt8).toNat ≤ c.toNat := UInt8.le_iff_toNat_le.mp hd.1
  simp only [Bool.and_eq_true, bne_iff_ne, ne_eq]
  constructor <;> (intro hc2; rw [hc2] at h1; simp at h1)

end Sugar
