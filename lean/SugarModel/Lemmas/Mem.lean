/-
  Lemmas.Mem — the accounted size of a dataset (`memFn`, what a fresh server loaded with the dataset
  reports) against the running counter `State.mem`; exact drift of every writing primitive.
-/
import SugarModel.Lemmas.Pure
namespace Sugar

/-- accounted size of one database's store -/
def storeSize (m : KMap Entry) : Int := (m.map fun (ke : Bytes × Entry) => ke.2.getMem + keyMem ke.1).sum

/-- accounted size of the whole dataset: the figure of a fresh server loaded with it -/
def memFn (s : State) : Int := (s.dbs.map fun (id : Nat × Db) => storeSize id.2.store).sum

/-- distance between the reported figure and the accounted size of the current dataset -/
def drift (s : State) : Int := s.mem - memFn s

def entrySize (k : Bytes) (e : Entry) : Int := e.getMem + keyMem k

/-- accounted size of the entry currently stored under `k` (0 if none) -/
def oldSize (m : KMap Entry) (k : Bytes) : Int :=
  match m.get k with
  | some e0 => entrySize k e0
  | none => 0

@[simp] theorem oldSize_nil (k : Bytes) : oldSize [] k = 0 := rfl
theorem oldSize_cons_same (k : Bytes) (e : Entry) (r : KMap Entry) : oldSize ((k, e) :: r) k = entrySize k e := by
  simp [oldSize, KMap.get]
theorem oldSize_cons_other (k k' : Bytes) (e : Entry) (r : KMap Entry) (h : k' ≠ k) :
    oldSize ((k', e) :: r) k = oldSize r k := by
  simp [oldSize, KMap.get, h]

theorem storeSize_cons (k : Bytes) (e : Entry) (r : KMap Entry) :
    storeSize ((k, e) :: r) = entrySize k e + storeSize r := by
  simp [storeSize, entrySize]

theorem storeSize_put (m : KMap Entry) (k : Bytes) (e : Entry) :
    storeSize (m.put k e) = storeSize m + entrySize k e - oldSize m k := by
  induction m with
  | nil => simp [KMap.put, storeSize, entrySize]
  | cons p r ih =>
    obtain ⟨k', e'⟩ := p
    by_cases h : k' = k
    · subst h
      simp only [KMap.put, if_true, storeSize_cons, oldSize_cons_same]
      omega
    · simp only [KMap.put, h, if_false, storeSize_cons, oldSize_cons_other k k' e' r h]
      rw [ih]; omega

/-- keys of the association list are pairwise distinct (a Go map) -/
def KMap.NoDup {α : Type} (m : KMap α) : Prop := (m.map Prod.fst).Nodup

theorem KMap.get_none_of_not_mem {α : Type} (m : KMap α) (k : Bytes) (h : k ∉ m.map Prod.fst) : m.get k = none := by
  induction m with
  | nil => rfl
  | cons p r ih =>
    obtain ⟨k', v⟩ := p
    simp only [List.map_cons, List.mem_cons, not_or] at h
    simp [KMap.get, Ne.symm h.1, ih h.2]

theorem KMap.del_of_not_mem {α : Type} (m : KMap α) (k : Bytes) (h : k ∉ m.map Prod.fst) : m.del k = m := by
  induction m with
  | nil => rfl
  | cons p r ih =>
    obtain ⟨k', v⟩ := p
    simp only [List.map_cons, List.mem_cons, not_or] at h
    simp [KMap.del, Ne.symm h.1, ih h.2]

theorem oldSize_of_not_mem (m : KMap Entry) (k : Bytes) (h : k ∉ m.map Prod.fst) : oldSize m k = 0 := by
  simp [oldSize, KMap.get_none_of_not_mem m k h]

theorem storeSize_del (m : KMap Entry) (k : Bytes) (hn : KMap.NoDup m) :
    storeSize (m.del k) = storeSize m - oldSize m k := by
  induction m with
  | nil => simp [KMap.del, storeSize]
  | cons p r ih =>
    obtain ⟨k', e'⟩ := p
    unfold KMap.NoDup at hn
    simp only [List.map_cons, List.nodup_cons] at hn
    by_cases h : k' = k
    · subst h
      simp only [KMap.del, if_true, storeSize_cons, oldSize_cons_same]
      rw [KMap.del_of_not_mem r k' hn.1]
      omega
    · simp only [KMap.del, h, if_false, storeSize_cons, oldSize_cons_other k k' e' r h]
      rw [ih hn.2]; omega

/-- size of the database currently stored under index `i` (0 if none) -/
def oldDbSize (m : NMap Db) (i : Nat) : Int := ((m.get i).map fun d => storeSize d.store).getD 0

theorem dbsSum_put (m : NMap Db) (i : Nat) (d : Db) :
    ((m.put i d).map fun (id : Nat × Db) => storeSize id.2.store).sum =
      (m.map fun (id : Nat × Db) => storeSize id.2.store).sum + storeSize d.store - oldDbSize m i := by
  induction m with
  | nil => simp [NMap.put, NMap.get, oldDbSize]
  | cons p r ih =>
    obtain ⟨i', d'⟩ := p
    by_cases h : i' = i
    · subst h; simp [NMap.put, NMap.get, oldDbSize]; omega
    · simp only [NMap.put, h, if_false, List.map_cons, List.sum_cons]
      rw [ih]
      simp [oldDbSize, NMap.get, h]
      omega

theorem memFn_createDb (s : State) (i : Nat) : memFn (s.createDb i) = memFn s := by
  unfold State.createDb
  split
  · rfl
  · rename_i h
    unfold memFn
    simp only
    rw [dbsSum_put]
    simp only [State.hasDb, Option.isSome_iff_ne_none, ne_eq, Decidable.not_not] at h
    simp [h, storeSize, oldDbSize]

theorem createDb_db (s : State) (i : Nat) : (s.createDb i).db i = s.db i := by
  unfold State.createDb State.db
  split
  · rfl
  · rename_i h
    simp only [State.hasDb, Option.isSome_iff_ne_none, ne_eq, Decidable.not_not] at h
    simp [h]

theorem dbs_get_of_hasDb (s : State) (i : Nat) (hdb : s.hasDb i = true) : s.dbs.get i = some (s.db i) := by
  unfold State.db
  cases h : s.dbs.get i with
  | none => simp [State.hasDb, h] at hdb
  | some d => simp

/-- **exact drift of one write** (the loop body of setValues): the new entry's size is added, the
    overwritten entry's size is *not* subtracted — drift grows by exactly the old entry's size -/
theorem drift_setOne (i : Nat) (s : State) (kv : Bytes × Val) (hdb : s.hasDb i = true) :
    drift (setOne i s kv) = drift s + oldSize (s.db i).store kv.1 := by
  unfold drift memFn setOne
  simp only
  rw [dbsSum_put]
  simp only [oldDbSize, dbs_get_of_hasDb s i hdb, Option.map_some, Option.getD_some]
  rw [storeSize_put]
  simp only [entrySize]
  omega

/-- deleting a present key (unique keys) keeps the drift; deleting an absent key *lowers* it by the
    size of an empty entry (the zero KeyData is measured) -/
theorem drift_deleteKey (s : State) (i : Nat) (k : Bytes) (hdb : s.hasDb i = true) (hn : KMap.NoDup (s.db i).store) :
    drift (deleteKey s i k) = drift s + oldSize (s.db i).store k -
      entrySize k (((s.db i).store.get k).getD ⟨.nil, none⟩) := by
  unfold drift memFn deleteKey
  simp only [hdb, if_true]
  rw [dbsSum_put]
  simp only [oldDbSize, dbs_get_of_hasDb s i hdb, Option.map_some, Option.getD_some]
  rw [storeSize_del _ _ hn]
  simp only [entrySize]
  omega

theorem memFn_empty : memFn { dbs := [], mem := 0 } = 0 := rfl

theorem hasDb_createDb (s : State) (i : Nat) : (s.createDb i).hasDb i = true := by
  unfold State.createDb
  split
  · assumption
  · simp [State.hasDb]

/-- one admitted `setValues` of a single key moves the drift by the accounted size of the entry it overwrites -/
theorem drift_setValues_single (c : Ctx) (s : State) (k : Bytes) (v : Val) (hok : (setValues c s [(k, v)]).2 = true) :
    drift (setValues c s [(k, v)]).1 = drift s + oldSize (s.db c.db).store k := by
  unfold setValues at hok ⊢
  split at hok
  · simp at hok
  · rename_i hc
    simp only [hc, Bool.false_eq_true, if_false]
    have hd : dedupLast [(k, v)] = [(k, v)] := by simp [dedupLast, KMap.put]
    rw [hd]
    simp only [List.foldl]
    rw [drift_setOne c.db (s.createDb c.db) (k, v) (hasDb_createDb s c.db), createDb_db]
    unfold drift
    rw [memFn_createDb]
    have : (s.createDb c.db).mem = s.mem := by unfold State.createDb; split <;> rfl
    rw [this]

/-- what FLUSHDB deducts is the accounted size of the database's store -/
theorem Db.cost_eq (d : Db) : d.cost = storeSize d.store := rfl

/-- **FLUSHDB keeps the drift**: the counter loses exactly what the dataset loses -/
theorem drift_flushDb (s s' : State) (i : Nat) (h : flushDb s i = some s') : drift s' = drift s := by
  unfold flushDb at h
  split at h
  · injection h with h; rw [← h]
  · rename_i hdb
    have hdb' : s.hasDb i = true := by simpa using hdb
    injection h with h; rw [← h]
    unfold drift memFn
    simp only
    rw [dbsSum_put]
    simp only [oldDbSize, dbs_get_of_hasDb s i hdb', Option.map_some, Option.getD_some, Db.cost_eq]
    simp only [storeSize, List.map_nil, List.sum_nil]
    omega

theorem memFn_flushAll (s : State) : memFn (flushAll s) = 0 := by
  unfold memFn flushAll
  simp only
  generalize s.dbs = l
  induction l with
  | nil => rfl
  | cons p r ih =>
    simp only [List.map_cons, List.sum_cons, ih]
    simp [storeSize]

/-- **FLUSHALL makes the figure exact**: counter and dataset size are both zero, whatever the drift was before -/
theorem drift_flushAll (s : State) : drift (flushAll s) = 0 := by
  unfold drift
  rw [memFn_flushAll]
  simp [flushAll]

end Sugar
