/-
  Lemmas.WireLemmas — request parsing is stable under appended bytes (a complete command in front of
  more bytes parses to the same command and leaves exactly those bytes).
-/
import SugarModel.Model.Wire
namespace Sugar.Wire
open Sugar

theorem splitCrlf_append : ∀ (x : Bytes) (l r y : Bytes), splitCrlf x = some (l, r) →
    splitCrlf (x ++ y) = some (l, r ++ y) := by
  intro x
  induction x using splitCrlf.induct with
  | case1 => intro l r y h; simp [splitCrlf] at h
  | case2 c => intro l r y h; simp [splitCrlf] at h
  | case3 r0 =>
    intro l r y h
    simp only [splitCrlf, Option.some.injEq, Prod.mk.injEq] at h
    obtain ⟨h1, h2⟩ := h
    subst h1; subst h2
    simp [splitCrlf]
  | case4 c r0 hne1 hne2 ih =>
    intro l r y h
    rw [splitCrlf] at h
    · cases hs : splitCrlf r0 with
      | none => simp [hs] at h
      | some p =>
        obtain ⟨l0, r1⟩ := p
        simp only [hs, Option.map_some, Option.some.injEq, Prod.mk.injEq] at h
        obtain ⟨h1, h2⟩ := h
        subst h1; subst h2
        have := ih l0 r1 y hs
        cases hr : r0 with
        | nil => simp [hr, splitCrlf] at hs
        | cons d t =>
          rw [hr] at this hne2
          simp only [List.cons_append]
          rw [splitCrlf]
          · simp only [List.cons_append] at this
            rw [this]; rfl
          · intro heq; simp at heq
          · intro r' h13 heq
            simp only [List.cons.injEq] at heq
            exact hne2 t h13 (by rw [heq.1])
    · exact hne1
    · exact hne2

theorem parseBulk_append (x v r y : Bytes) (h : parseBulk x = some (v, r)) :
    parseBulk (x ++ y) = some (v, r ++ y) := by
  cases x with
  | nil => simp [parseBulk] at h
  | cons t x0 =>
    by_cases ht : t = 36
    · subst ht
      simp only [parseBulk] at h
      cases hs : splitCrlf x0 with
      | none => simp [hs] at h
      | some p =>
        obtain ⟨line, rest⟩ := p
        simp only [hs] at h
        by_cases hd : allDigits line = true
        · simp only [hd, Bool.not_true, Bool.false_eq_true, if_false] at h
          by_cases hl : rest.length < digitsVal line + 2
          · simp [hl] at h
          · simp only [hl, if_false] at h
            have hge : digitsVal line + 2 ≤ rest.length := Nat.le_of_not_lt hl
            simp only [List.cons_append, parseBulk, splitCrlf_append x0 line rest y hs, hd, Bool.not_true,
              Bool.false_eq_true, if_false]
            have hl2 : ¬ ((rest ++ y).length < digitsVal line + 2) := by simp; omega
            simp only [hl2, if_false]
            have hdrop : List.drop (digitsVal line) (rest ++ y) = List.drop (digitsVal line) rest ++ y := by
              rw [List.drop_append_of_le_length (by omega)]
            have htake : List.take (digitsVal line) (rest ++ y) = List.take (digitsVal line) rest := by
              rw [List.take_append_of_le_length (by omega)]
            rw [hdrop, htake]
            cases hdr : List.drop (digitsVal line) rest with
            | nil => simp [hdr] at h
            | cons a t1 =>
              cases t1 with
              | nil => simp [hdr] at h
              | cons a2 t2 =>
                rw [hdr] at h
                by_cases ha : a = 13 ∧ a2 = 10
                · obtain ⟨ha1, ha2⟩ := ha
                  subst ha1; subst ha2
                  simp only [Option.some.injEq, Prod.mk.injEq] at h
                  obtain ⟨h1, h2⟩ := h
                  subst h1; subst h2
                  simp
                · exfalso
                  split at h
                  · rename_i heq
                    simp only [List.cons.injEq] at heq
                    exact ha ⟨heq.1, heq.2.1⟩
                  · simp at h
        · simp [hd] at h
    · exfalso
      unfold parseBulk at h
      split at h
      · rename_i heq; simp only [List.cons.injEq] at heq; exact ht heq.1
      · simp at h

theorem parseBulks_append : ∀ (k : Nat) (x : Bytes) (vs : List Bytes) (r y : Bytes),
    parseBulks k x = some (vs, r) → parseBulks k (x ++ y) = some (vs, r ++ y) := by
  intro k
  induction k with
  | zero =>
    intro x vs r y h
    simp only [parseBulks, Option.some.injEq, Prod.mk.injEq] at h ⊢
    exact ⟨h.1, by rw [h.2]⟩
  | succ k ih =>
    intro x vs r y h
    simp only [parseBulks, bind, Option.bind] at h ⊢
    cases h1 : parseBulk x with
    | none => simp [h1] at h
    | some p1 =>
      obtain ⟨v, r1⟩ := p1
      simp only [h1] at h
      cases h2 : parseBulks k r1 with
      | none => simp [h2] at h
      | some p2 =>
        obtain ⟨vs2, r2⟩ := p2
        simp only [h2, pure, Option.some.injEq, Prod.mk.injEq] at h
        obtain ⟨e1, e2⟩ := h
        subst e1; subst e2
        simp [parseBulk_append x v r1 y h1, ih r1 vs2 r2 y h2]

theorem parseCommand_append (x : Bytes) (cmd : List Bytes) (r y : Bytes)
    (h : parseCommand x = some (cmd, r)) : parseCommand (x ++ y) = some (cmd, r ++ y) := by
  cases x with
  | nil => simp [parseCommand] at h
  | cons t x0 =>
    by_cases ht : t = 42
    · subst ht
      simp only [parseCommand] at h
      cases hs : splitCrlf x0 with
      | none => simp [hs] at h
      | some p =>
        obtain ⟨line, rest⟩ := p
        simp only [hs] at h
        by_cases hd : allDigits line = true
        · simp only [hd, Bool.not_true, Bool.false_eq_true, if_false] at h
          simp only [List.cons_append, parseCommand, splitCrlf_append x0 line rest y hs, hd, Bool.not_true,
            Bool.false_eq_true, if_false]
          exact parseBulks_append _ rest cmd r y h
        · simp [hd] at h
    · exfalso
      unfold parseCommand at h
      split at h
      · rename_i heq; simp only [List.cons.injEq] at heq; exact ht heq.1
      · simp at h

end Sugar.Wire
