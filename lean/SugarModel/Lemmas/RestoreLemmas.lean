/-
  Lemmas.RestoreLemmas — what `restoreKey` / `restoreDataset` (preamble and snapshot restore) leave
  in the keyspace, stated on state lookups: every unexpired decoded entry is stored as decoded, an
  entry whose deadline has passed is skipped, nothing else is touched.
-/
import SugarModel.Model.Persist
import SugarModel.Lemmas.Kv
import SugarModel.Lemmas.Frame
namespace Sugar.Persist
open Sugar

theorem hasDb_put (s : State) (i : Nat) (d : Db) : ({ s with dbs := s.dbs.put i d } : State).hasDb i = true := by
  simp [State.hasDb]

theorem hasDb_createDb (s : State) (i : Nat) : (s.createDb i).hasDb i = true := by
  unfold State.createDb
  split
  · assumption
  · exact hasDb_put s i _

theorem lookup_put_same (s : State) (i : Nat) (st : KMap Entry) (vol : List Bytes) (k : Bytes) :
    ({ s with dbs := s.dbs.put i ⟨st, vol⟩ } : State).lookup i k = st.get k := by
  simp [State.lookup, State.db]

theorem db_put_other (s : State) (i j : Nat) (d : Db) (h : j ≠ i) :
    ({ s with dbs := s.dbs.put i d } : State).db j = s.db j := by
  simp [State.db, NMap.get_put_other _ _ _ _ (Ne.symm h)]

/-- SetExpiry on a stored key of an existing database: the value is kept, the deadline replaced,
    nothing else changes -/
theorem setExpiry_spec (c : Ctx) (s1 : State) (k : Bytes) (exp : Option Int) (v : Val) (x : Option Int)
    (hdb : s1.hasDb c.db = true) (hl : s1.lookup c.db k = some ⟨v, x⟩) :
    ∃ s', setExpiry c s1 k exp = some s' ∧ s'.lookup c.db k = some ⟨v, exp⟩ ∧
      (∀ k2, k ≠ k2 → s'.lookup c.db k2 = s1.lookup c.db k2) ∧ (∀ j, j ≠ c.db → s'.db j = s1.db j) := by
  unfold setExpiry
  simp only [hdb, Bool.not_true, Bool.false_eq_true, if_false]
  refine ⟨_, rfl, ?_, ?_, ?_⟩
  · have hl' : (s1.db c.db).store.get k = some ⟨v, x⟩ := hl
    rw [lookup_put_same, KMap.get_put_same, hl']
  · intro k2 h
    rw [lookup_put_same, KMap.get_put_other _ _ _ _ h]; rfl
  · intro j h
    exact db_put_other s1 c.db j _ h

theorem db_of_lookup (s : State) (i : Nat) (k : Bytes) : s.lookup i k = (s.db i).store.get k := rfl

/-- one decoded entry restored into database `i`: it is stored exactly as decoded (value and
    deadline, whatever the value — a `[]interface{}` included), every other key of the database and
    every other database are as before -/
theorem restoreKey_spec (now : Int) (s : State) (i : Nat) (k : Bytes) (e : Entry) :
    ∃ s', restoreKey now s i k e = some s' ∧ s'.lookup i k = some e ∧
      (∀ k2, k ≠ k2 → s'.lookup i k2 = s.lookup i k2) ∧ (∀ j, j ≠ i → s'.db j = s.db j) := by
  have key : ∀ s1 : State, s1.hasDb i = true → (∃ x, s1.lookup i k = some ⟨e.val, x⟩) →
      (∀ k2, k ≠ k2 → s1.lookup i k2 = s.lookup i k2) → (∀ j, j ≠ i → s1.db j = s.db j) →
      ∃ s', setExpiry { db := i, now := now, conn := some 0 } s1 k e.exp = some s' ∧ s'.lookup i k = some e ∧
        (∀ k2, k ≠ k2 → s'.lookup i k2 = s.lookup i k2) ∧ (∀ j, j ≠ i → s'.db j = s.db j) := by
    intro s1 h1 ⟨x, h2⟩ h3 h4
    obtain ⟨s', ha, hb, hc, hd⟩ := setExpiry_spec { db := i, now := now, conn := some 0 } s1 k e.exp e.val x h1 h2
    refine ⟨s', ha, hb, ?_, ?_⟩
    · intro k2 h; rw [hc k2 h, h3 k2 h]
    · intro j h; rw [hd j h, h4 j h]
  unfold restoreKey
  simp only
  split
  · -- []interface{}: stored directly
    rename_i xs hv
    apply key
    · exact hasDb_put _ i _
    · refine ⟨?x, ?_⟩
      case x => exact ((s.createDb i).db i).store.get k |>.bind (·.exp)
      rw [lookup_put_same, KMap.get_put_same, hv]
    · intro k2 h
      rw [lookup_put_same, KMap.get_put_other _ _ _ _ h, ← db_of_lookup, lookup_createDb]
    · intro j h
      rw [db_put_other _ i j _ h, createDb_db_all]
  · -- every other value: SetValues
    obtain ⟨_, hs2, hs3⟩ := setValues_single { db := i, now := now, conn := some 0 } s k e.val rfl
    apply key
    · unfold setValues
      simp only [isMaxMemoryExceeded, bne_self_eq_false, Bool.false_and, Bool.false_eq_true, if_false,
        dedupLast, List.foldl, KMap.put]
      unfold setOne
      exact hasDb_put _ i _
    · exact ⟨_, hs2⟩
    · exact hs3
    · intro j h
      exact db_of_get_eq _ _ _ (setValues_frame { db := i, now := now, conn := some 0 } s _ j h)


/-- the inner loop of `restoreDataset`: the entries of one database -/
def restoreDb (now : Int) (i : Nat) (s : State) (es : List (Bytes × Entry)) : Option State :=
  es.foldlM (fun s (k, e) =>
    match e.exp with
    | some t => if t < now then some s else restoreKey now s i k e
    | none => restoreKey now s i k e) s

theorem restoreDataset_eq (now : Int) (s : State) (ds : List (Nat × List (Bytes × Entry))) :
    restoreDataset now s ds = ds.foldlM (fun s (ies : Nat × List (Bytes × Entry)) => restoreDb now ies.1 s ies.2) s := rfl

/-- one entry of the loop: skipped when its deadline has passed, restored otherwise -/
theorem restoreStep_spec (now : Int) (s : State) (i : Nat) (k : Bytes) (e : Entry) :
    ∃ s1, (match e.exp with
          | some t => if t < now then some s else restoreKey now s i k e
          | none => restoreKey now s i k e) = some s1 ∧
      s1.lookup i k = (if e.expired now then s.lookup i k else some e) ∧
      (∀ k2, k ≠ k2 → s1.lookup i k2 = s.lookup i k2) ∧ (∀ j, j ≠ i → s1.db j = s.db j) := by
  obtain ⟨s', h1, h2, h3, h4⟩ := restoreKey_spec now s i k e
  cases hx : e.exp with
  | none =>
    simp only [Entry.expired, hx]
    exact ⟨s', h1, by simpa using h2, h3, h4⟩
  | some t =>
    simp only [Entry.expired, hx]
    by_cases ht : t < now
    · simp only [ht, if_true, decide_true]
      exact ⟨s, rfl, rfl, fun _ _ => rfl, fun _ _ => rfl⟩
    · simp only [ht, if_false, decide_false]
      exact ⟨s', h1, by simpa using h2, h3, h4⟩

/-- **restore of one database, key by key**: for a decoded dataset with pairwise distinct keys, every
    entry whose deadline has not passed is stored exactly as decoded; a key all of whose entries have
    expired (in particular a key that is not in the dataset) is as before; other databases are as before -/
theorem restoreDb_spec (now : Int) (i : Nat) : ∀ (es : List (Bytes × Entry)) (s : State),
    (es.map Prod.fst).Nodup →
    ∃ s', restoreDb now i s es = some s' ∧
      (∀ k e, (k, e) ∈ es → e.expired now = false → s'.lookup i k = some e) ∧
      (∀ k, (∀ e, (k, e) ∈ es → e.expired now = true) → s'.lookup i k = s.lookup i k) ∧
      (∀ j, j ≠ i → s'.db j = s.db j) := by
  intro es
  induction es with
  | nil => intro s _; exact ⟨s, rfl, by simp, fun _ _ => rfl, fun _ _ => rfl⟩
  | cons ke r ih =>
    intro s hnd
    obtain ⟨k, e⟩ := ke
    simp only [List.map_cons, List.nodup_cons] at hnd
    obtain ⟨hk, hnd⟩ := hnd
    obtain ⟨s1, g1, g2, g3, g4⟩ := restoreStep_spec now s i k e
    obtain ⟨s', f1, f2, f3, f4⟩ := ih s1 hnd
    have hkr : ∀ e', (k, e') ∈ r → False := fun e' hm => hk (List.mem_map.mpr ⟨(k, e'), hm, rfl⟩)
    refine ⟨s', ?_, ?_, ?_, ?_⟩
    · unfold restoreDb at f1 ⊢
      rw [List.foldlM_cons]
      simp only [g1, Option.bind_eq_bind, Option.bind_some]
      exact f1
    · intro k' e' hm hlive
      rcases List.mem_cons.mp hm with heq | hm
      · simp only [Prod.mk.injEq] at heq
        obtain ⟨rfl, rfl⟩ := heq
        rw [f3 k' (fun e'' hm' => (hkr e'' hm').elim), g2, hlive]; rfl
      · exact f2 k' e' hm hlive
    · intro k' hall
      by_cases hkk : k = k'
      · subst hkk
        rw [f3 k (fun e'' hm' => (hkr e'' hm').elim), g2, hall e List.mem_cons_self]; rfl
      · rw [f3 k' (fun e'' hm' => hall e'' (List.mem_cons_of_mem _ hm')), g3 k' hkk]
    · intro j hj
      rw [f4 j hj, g4 j hj]

/-- **restore of a whole decoded dataset** (distinct database indices, distinct keys per database) -/
theorem restoreDataset_spec (now : Int) : ∀ (ds : List (Nat × List (Bytes × Entry))) (s : State),
    (ds.map Prod.fst).Nodup → (∀ i es, (i, es) ∈ ds → (es.map Prod.fst).Nodup) →
    ∃ s', restoreDataset now s ds = some s' ∧
      (∀ i es, (i, es) ∈ ds → ∀ k e, (k, e) ∈ es → e.expired now = false → s'.lookup i k = some e) ∧
      (∀ i es, (i, es) ∈ ds → ∀ k, (∀ e, (k, e) ∈ es → e.expired now = true) → s'.lookup i k = s.lookup i k) ∧
      (∀ j, j ∉ ds.map Prod.fst → s'.db j = s.db j) := by
  intro ds
  induction ds with
  | nil => intro s _ _; exact ⟨s, rfl, by simp, by simp, fun _ _ => rfl⟩
  | cons ies r ih =>
    intro s hnd hk
    obtain ⟨i, es⟩ := ies
    simp only [List.map_cons, List.nodup_cons] at hnd
    obtain ⟨hi, hnd⟩ := hnd
    obtain ⟨s1, g1, g2, g3, g4⟩ := restoreDb_spec now i es s (hk i es List.mem_cons_self)
    obtain ⟨s', f1, f2, f3, f4⟩ := ih s1 hnd (fun i' es' hm => hk i' es' (List.mem_cons_of_mem _ hm))
    have hir : ∀ es', (i, es') ∈ r → False := fun es' hm => hi (List.mem_map.mpr ⟨(i, es'), hm, rfl⟩)
    have hsame : ∀ k, s'.lookup i k = s1.lookup i k := fun k => by
      unfold State.lookup; rw [f4 i hi]
    refine ⟨s', ?_, ?_, ?_, ?_⟩
    · rw [restoreDataset_eq] at f1 ⊢
      rw [List.foldlM_cons]
      simp only [g1, Option.bind_eq_bind, Option.bind_some]
      exact f1
    · intro i' es' hm k e hke hlive
      rcases List.mem_cons.mp hm with heq | hm
      · simp only [Prod.mk.injEq] at heq
        obtain ⟨rfl, rfl⟩ := heq
        rw [hsame, g2 k e hke hlive]
      · exact f2 i' es' hm k e hke hlive
    · intro i' es' hm k hall
      rcases List.mem_cons.mp hm with heq | hm
      · simp only [Prod.mk.injEq] at heq
        obtain ⟨rfl, rfl⟩ := heq
        rw [hsame, g3 k hall]
      · have hne : i' ≠ i := fun h => hir es' (h ▸ hm)
        rw [f3 i' es' hm k hall]
        unfold State.lookup; rw [g4 i' hne]
    · intro j hj
      simp only [List.map_cons, List.mem_cons, not_or] at hj
      rw [f4 j hj.2, g4 j hj.1]

end Sugar.Persist
