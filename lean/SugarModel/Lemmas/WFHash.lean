/-
  Lemmas.WFHash — reply well-formedness of the hash handlers (all full).
-/
import SugarModel.Lemmas.WFCore
namespace Sugar

theorem cleanLine_of_subset {x y : Bytes} (h : ∀ c ∈ x, c ∈ y) (hy : cleanLine y = true) : cleanLine x = true := by
  unfold cleanLine at *
  rw [List.all_eq_true] at *
  exact fun c hc => hy c (h c hc)

theorem cleanLine_replicate48 (n : Nat) : cleanLine (List.replicate n 48) = true := by
  unfold cleanLine
  rw [List.all_eq_true]
  intro c hc
  rw [List.mem_replicate] at hc
  rw [hc.2]; decide

theorem cleanLine_decFmtF (a : Dec) : cleanLine a.fmtF = true := by
  have hd : cleanLine (natDigits a.m.natAbs) = true := cleanLine_natDigits _
  have hs : cleanLine (if a.m < 0 then b "-" else []) = true := by split <;> decide
  have h0 : cleanLine (b "0.") = true := by decide
  have hp : cleanLine (b ".") = true := by decide
  unfold Dec.fmtF
  split
  · decide
  · extract_lets ds nd dp sign
    have hds : cleanLine ds = true := hd
    have hsg : cleanLine sign = true := hs
    split
    · simp only [cleanLine_append, hsg, h0, cleanLine_replicate48, hds, Bool.and_self]
    · split
      · simp only [cleanLine_append, hsg, cleanLine_replicate48, hds, Bool.and_self]
      · have ht : cleanLine (ds.take dp.toNat) = true := cleanLine_of_subset (fun c hc => List.mem_of_mem_take hc) hds
        have hr : cleanLine (ds.drop dp.toNat) = true := cleanLine_of_subset (fun c hc => List.mem_of_mem_drop hc) hds
        simp only [cleanLine_append, hsg, hp, ht, hr, Bool.and_self]

theorem cleanLine_fltFmtF (f : Flt) : cleanLine f.fmtF = true := by
  cases f with
  | fin d => exact cleanLine_decFmtF d
  | pinf => decide
  | ninf => decide

theorem wf1_hashVal (v : Scalar) : WF1 (hashValReply v) := by
  cases v with
  | str s => exact wf1_bulk s
  | int i => exact wf1_int i
  | flt f => exact wf1_bulk _

theorem withHash_rx (E : Res → Prop) (cmd : List Bytes) (a : Bool) (r : Res) (k : Bytes → KMap Scalar → Prog Res)
    (hr : Res.WFok r) (h : ∀ x y, (k x y).AllRet (Res.WFx E)) : (withHash cmd a r k).AllRet (Res.WFx E) := by
  unfold withHash; wf
  · exact rx_res _ _ hr
  · exact h _ _

theorem handleHSet_wf (c : Ctx) (cmd : List Bytes) : (handleHSet c cmd).AllRet Res.WFok := by
  apply allRet_full; unfold handleHSet; wf

theorem handleHGet_wf (c : Ctx) (cmd : List Bytes) : (handleHGet c cmd).AllRet Res.WFok := by
  apply allRet_full; unfold handleHGet
  refine withHash_rx _ _ _ _ _ wf_nil (fun _ h => ?_)
  refine rx_ok _ _ (wf_arrMap _ _ (fun f => ?_))
  split
  · exact wf1_hashVal _
  · exact wf1_nil

theorem handleHStrLen_wf (c : Ctx) (cmd : List Bytes) : (handleHStrLen c cmd).AllRet Res.WFok := by
  apply allRet_full; unfold handleHStrLen
  refine withHash_rx _ _ _ _ _ wf_nil (fun _ h => ?_)
  refine rx_ok _ _ (wf_arrMap _ _ (fun f => ?_))
  split <;> exact wf1_int _

theorem handleHVals_wf (c : Ctx) (cmd : List Bytes) : (handleHVals c cmd).AllRet Res.WFok := by
  apply allRet_full; unfold handleHVals
  refine withHash_rx _ _ _ _ _ wf_emptyArr (fun _ h => rx_res _ _ ?_)
  have := wfok_perm 1 (h.map fun (x : Bytes × Scalar) => hashValReply x.2) (by
    intro g hg
    simp only [List.mem_map] at hg
    obtain ⟨x, _, rfl⟩ := hg
    exact grp_one _ (wf1_hashVal _))
  simpa using this

theorem handleHLen_wf (c : Ctx) (cmd : List Bytes) : (handleHLen c cmd).AllRet Res.WFok := by
  apply allRet_full; unfold handleHLen
  exact withHash_rx _ _ _ _ _ (wf_int _) (fun _ h => rx_ok _ _ (wf_int _))

theorem handleHKeys_wf (c : Ctx) (cmd : List Bytes) : (handleHKeys c cmd).AllRet Res.WFok := by
  apply allRet_full; unfold handleHKeys
  refine withHash_rx _ _ _ _ _ wf_emptyArr (fun _ h => rx_res _ _ ?_)
  have := wfok_perm 1 (h.map fun (x : Bytes × Scalar) => bulkStr x.1) (by
    intro g hg
    simp only [List.mem_map] at hg
    obtain ⟨x, _, rfl⟩ := hg
    exact grp_one _ (wf1_bulk _))
  simpa using this

theorem handleHGetAll_wf (c : Ctx) (cmd : List Bytes) : (handleHGetAll c cmd).AllRet Res.WFok := by
  apply allRet_full; unfold handleHGetAll
  refine withHash_rx _ _ _ _ _ wf_emptyArr (fun _ h => rx_res _ _ ?_)
  have := wfok_perm 2 (h.map fun (x : Bytes × Scalar) => bulkStr x.1 ++ hashValReply x.2) (by
    intro g hg
    simp only [List.mem_map] at hg
    obtain ⟨x, _, rfl⟩ := hg
    exact grp_two _ _ (wf1_bulk _) (wf1_hashVal _))
  simpa using this

theorem handleHExists_wf (c : Ctx) (cmd : List Bytes) : (handleHExists c cmd).AllRet Res.WFok := by
  apply allRet_full; unfold handleHExists
  exact withHash_rx _ _ _ _ _ (wf_int _) (fun _ h => rx_ok _ _ (wf_int _))

theorem handleHDel_wf (c : Ctx) (cmd : List Bytes) : (handleHDel c cmd).AllRet Res.WFok := by
  apply allRet_full; unfold handleHDel
  refine withHash_rx _ _ _ _ _ (wf_int _) (fun _ h => ?_)
  wf

theorem grp_one' (x : Bytes) (h : WF1 x) : Grp 1 (x ++ []) := by
  rw [List.append_nil]; exact grp_one x h

/-- the reply-building tail of HRANDFIELD, for either value of WITHVALUES -/
theorem hrandTail_rx (E : Res → Prop) (wv : Bool) (count : Int) (h : KMap Scalar) :
    (if h.isEmpty then Prog.ret (Res.ok (b "*0\r\n"))
      else if count ≥ h.length then
        Prog.ret (Res.okPerm (arrHdr (h.length * (if wv = true then 2 else 1)))
          (h.map fun (fv : Bytes × Scalar) => bulkStr fv.1 ++ (if wv = true then hashValReply fv.2 else [])))
      else Prog.ret (Res.okPick (arrHdr (count.natAbs * (if wv = true then 2 else 1))) count.natAbs (decide (count > 0))
          (h.map fun (fv : Bytes × Scalar) => bulkStr fv.1 ++ (if wv = true then hashValReply fv.2 else [])))).AllRet
      (Res.WFx E) := by
  cases wv
  · split
    · exact rx_ok _ _ wf_emptyArr
    · split
      · exact rx_permMap _ 1 _ _ (fun x => grp_one' _ (wf1_bulk _)) _ rfl
      · exact rx_pickMap _ 1 _ _ _ _ (fun x => grp_one' _ (wf1_bulk _)) _ rfl
  · split
    · exact rx_ok _ _ wf_emptyArr
    · split
      · exact rx_permMap _ 2 _ _ (fun x => grp_two _ _ (wf1_bulk _) (wf1_hashVal _)) _ rfl
      · exact rx_pickMap _ 2 _ _ _ _ (fun x => grp_two _ _ (wf1_bulk _) (wf1_hashVal _)) _ rfl

theorem handleHRandField_wf (c : Ctx) (cmd : List Bytes) : (handleHRandField c cmd).AllRet Res.WFok := by
  apply allRet_full; unfold handleHRandField
  repeat' (first
    | exact hrandTail_rx _ _ _ _
    | exact rx_err _ _
    | exact rx_panic _ _
    | exact rx_unmod _ _
    | (refine rx_ok _ _ ?_; wfleaf)
    | (refine rx_call _ _ _ ?_; intro _)
    | split
    | (dsimp only))

/-- HINCRBY / HINCRBYFLOAT: the reply is `:int` or `+float-text` (digits, sign, point — never CR/LF);
    the empty reply of the `string` arm is unreachable because the new value is always numeric -/
theorem handleHIncrBy_wf (c : Ctx) (cmd : List Bytes) : (handleHIncrBy c cmd).AllRet Res.WFok := by
  apply allRet_full; unfold handleHIncrBy; wf
  all_goals first
    | exact rx_ok _ _ (wf_simple _ (cleanLine_fltFmtF _))
    | (exfalso; rename_i heq; split at heq <;> first | cases heq | (split at heq <;> cases heq))

end Sugar
