/-
  Lemmas.WFGeneric — reply well-formedness of the generic / string / connection handlers.
  Full results: `handleX_wf`. Handlers that answer `+<stored value>\r\n` (SET … GET, GET, GETDEL, GETEX)
  get `handleX_wf_partial` with the exception class `SimpleDirty`, and a reachability witness each.
-/
import SugarModel.Lemmas.WFCore
namespace Sugar

/-- exception class: a simple-string reply whose text contains CR or LF (stored data echoed with `+%v\r\n`) -/
def SimpleDirty (r : Res) : Prop := ∃ t, cleanLine t = false ∧ r = .ok (simpleStr t)

theorem rx_simpleDirty (t : Bytes) : (Prog.ret (Res.ok (simpleStr t))).AllRet (Res.WFx SimpleDirty) := by
  cases h : cleanLine t with
  | true => exact Or.inl (wf_simple t h)
  | false => exact Or.inr ⟨t, h, rfl⟩

theorem incrCore_wf (E : Res → Prop) (key : Bytes) (a : Int) (f : Int → Int) :
    (incrCore key a f).AllRet (Res.WFx E) := by
  unfold incrCore; wf

theorem expireTail_wf (E : Res → Prop) (key : Bytes) (cmd : List Bytes) (t : Int) (e : Bool) :
    (expireTail key cmd t e).AllRet (Res.WFx E) := by
  unfold expireTail; wf

theorem handleMSet_wf (c : Ctx) (cmd : List Bytes) : (handleMSet c cmd).AllRet Res.WFok := by
  apply allRet_full; unfold handleMSet; wf
theorem handleDel_wf (c : Ctx) (cmd : List Bytes) : (handleDel c cmd).AllRet Res.WFok := by
  apply allRet_full; unfold handleDel; wf
theorem handlePersist_wf (c : Ctx) (cmd : List Bytes) : (handlePersist c cmd).AllRet Res.WFok := by
  apply allRet_full; unfold handlePersist; wf
theorem handleExpireTime_wf (c : Ctx) (cmd : List Bytes) : (handleExpireTime c cmd).AllRet Res.WFok := by
  apply allRet_full; unfold handleExpireTime; wf
theorem handleTTL_wf (c : Ctx) (cmd : List Bytes) : (handleTTL c cmd).AllRet Res.WFok := by
  apply allRet_full; unfold handleTTL; wf
theorem handleExpire_wf (c : Ctx) (cmd : List Bytes) : (handleExpire c cmd).AllRet Res.WFok := by
  apply allRet_full; unfold handleExpire; wf <;> exact expireTail_wf _ _ _ _ _
theorem handleExpireAt_wf (c : Ctx) (cmd : List Bytes) : (handleExpireAt c cmd).AllRet Res.WFok := by
  apply allRet_full; unfold handleExpireAt; wf <;> exact expireTail_wf _ _ _ _ _
theorem handleIncr_wf (c : Ctx) (cmd : List Bytes) : (handleIncr c cmd).AllRet Res.WFok := by
  apply allRet_full; unfold handleIncr; wf <;> exact incrCore_wf _ _ _ _
theorem handleDecr_wf (c : Ctx) (cmd : List Bytes) : (handleDecr c cmd).AllRet Res.WFok := by
  apply allRet_full; unfold handleDecr; wf <;> exact incrCore_wf _ _ _ _
theorem handleIncrBy_wf (c : Ctx) (cmd : List Bytes) : (handleIncrBy c cmd).AllRet Res.WFok := by
  apply allRet_full; unfold handleIncrBy; wf <;> exact incrCore_wf _ _ _ _
theorem handleDecrBy_wf (c : Ctx) (cmd : List Bytes) : (handleDecrBy c cmd).AllRet Res.WFok := by
  apply allRet_full; unfold handleDecrBy; wf <;> exact incrCore_wf _ _ _ _
theorem handleIncrByFloat_wf (c : Ctx) (cmd : List Bytes) : (handleIncrByFloat c cmd).AllRet Res.WFok := by
  apply allRet_full; unfold handleIncrByFloat; wf
theorem handleRename_wf (c : Ctx) (cmd : List Bytes) : (handleRename c cmd).AllRet Res.WFok := by
  apply allRet_full; unfold handleRename; wf
theorem handleFlush_wf (c : Ctx) (cmd : List Bytes) : (handleFlush c cmd).AllRet Res.WFok := by
  apply allRet_full; unfold handleFlush; wf
theorem handleType_wf (c : Ctx) (cmd : List Bytes) : (handleType c cmd).AllRet Res.WFok := by
  apply allRet_full; unfold handleType; wf
theorem handleSetRange_wf (c : Ctx) (cmd : List Bytes) : (handleSetRange c cmd).AllRet Res.WFok := by
  apply allRet_full; unfold handleSetRange; wf
theorem handleStrLen_wf (c : Ctx) (cmd : List Bytes) : (handleStrLen c cmd).AllRet Res.WFok := by
  apply allRet_full; unfold handleStrLen; wf
theorem handleAppend_wf (c : Ctx) (cmd : List Bytes) : (handleAppend c cmd).AllRet Res.WFok := by
  apply allRet_full; unfold handleAppend; wf

theorem subStrPure_wf (value : Bytes) (s e : Int) (r : Res) (h : subStrPure value s e = .done r) : Res.WFok r := by
  unfold subStrPure at h
  extract_lets se rev lo hi str at h
  split at h
  · split at h
    · cases h
    · injection h with h; subst h; exact wf_bulk _
  · injection h with h; subst h; exact wf_bulk _

/-- GETRANGE / SUBSTR index arithmetic never leaves the string: the slice `value[lo:hi]` the handler takes
    always satisfies `0 ≤ lo ≤ hi ≤ len`, for every start and end. -/
theorem subStrIdx_bounds (len start end_ : Int) (hl : 0 ≤ len) :
    0 ≤ (subStrIdx len start end_).1 ∧ (subStrIdx len start end_).1 ≤ len ∧
    0 ≤ (subStrIdx len start end_).2 ∧ (subStrIdx len start end_).2 ≤ len := by
  unfold subStrIdx
  extract_lets s1 e1 s2 s3 e2 e3 e4 e5
  refine ⟨?_, ?_, ?_, ?_⟩ <;>
    (simp only [s3, s2, e5, e4, e3, e2, Bool.and_eq_true, decide_eq_true_eq]; repeat' split) <;> omega

/-- GETRANGE / SUBSTR cannot panic: the computation always finishes (or is outside the exactly-modelled
    domain: a reversed range over non-ASCII bytes) -/
theorem subStrPure_no_panic (value : Bytes) (s e : Int) (w : String) : subStrPure value s e ≠ .panic w := by
  unfold subStrPure
  extract_lets se rev lo hi str
  split
  · split <;> simp
  · simp

theorem handleSubStr_wf (c : Ctx) (cmd : List Bytes) : (handleSubStr c cmd).AllRet Res.WFok := by
  apply allRet_full; unfold handleSubStr; wf
  all_goals exact ofOutcome_rx _ _ (fun a h => Or.inl (subStrPure_wf _ _ _ a h))

/-- a program without a `panic` leaf whose primitives are the two total readers `KeysExist` / `GetValues` -/
def Prog.ReadsNoPanic {α : Type} : Prog α → Prop
  | .ret _ => True
  | .unmod _ => True
  | .panic _ => False
  | .call (.keysExist _) k => ∀ r, (k r).ReadsNoPanic
  | .call (.getValues _) k => ∀ r, (k r).ReadsNoPanic
  | .call _ _ => False

theorem readsNoPanic_run {α : Type} (c : Ctx) : ∀ (p : Prog α) (s : State), p.ReadsNoPanic →
    ∀ w, (p.run c s).2 ≠ .panic w := by
  intro p
  induction p with
  | ret a => intro s _ w; simp [Prog.run]
  | unmod y => intro s _ w; simp [Prog.run]
  | panic y => intro s h; exact absurd h (by simp [Prog.ReadsNoPanic])
  | call q k ih =>
    intro s h w
    cases q with
    | keysExist ks => exact ih _ s (h _) w
    | getValues ks => exact ih _ _ (h _) w
    | _ => exact absurd h (by simp [Prog.ReadsNoPanic])

theorem ofOutcome_readsNoPanic {α : Type} (o : Outcome α) (h : ∀ w, o ≠ .panic w) : (Prog.ofOutcome o).ReadsNoPanic := by
  cases o with
  | done a => trivial
  | unmod y => trivial
  | panic y => exact absurd rfl (h y)

/-- GETRANGE / SUBSTR have no panicking path left, whatever the arguments and the stored bytes -/
theorem handleSubStr_readsNoPanic (c : Ctx) (cmd : List Bytes) : (handleSubStr c cmd).ReadsNoPanic := by
  unfold handleSubStr
  split
  · intro ex
    split <;> try trivial
    dsimp only
    split <;> try trivial
    intro vs
    dsimp only
    split
    · exact ofOutcome_readsNoPanic _ (subStrPure_no_panic _ _ _)
    · trivial
  · trivial

theorem handleSubStr_no_panic (c : Ctx) (cmd : List Bytes) (s : State) (w : String) :
    ((handleSubStr c cmd).run c s).2 ≠ .panic w :=
  readsNoPanic_run c _ s (handleSubStr_readsNoPanic c cmd) w

/-- TYPE has no panicking path left: a value that reads as nil is answered like a missing key -/
theorem handleType_readsNoPanic (c : Ctx) (cmd : List Bytes) : (handleType c cmd).ReadsNoPanic := by
  unfold handleType
  split
  · intro ex
    dsimp only
    split <;> try trivial
    intro vs
    dsimp only
    split <;> trivial
  · trivial

theorem handleType_no_panic (c : Ctx) (cmd : List Bytes) (s : State) (w : String) :
    ((handleType c cmd).run c s).2 ≠ .panic w :=
  readsNoPanic_run c _ s (handleType_readsNoPanic c cmd) w

theorem handleSelect_wf (c : Ctx) (cmd : List Bytes) : (handleSelect c cmd).AllRet Res.WFok := by
  apply allRet_full; unfold handleSelect; wf
theorem handleSwapDB_wf (c : Ctx) (cmd : List Bytes) : (handleSwapDB c cmd).AllRet Res.WFok := by
  apply allRet_full; unfold handleSwapDB; wf
theorem handlePing_wf (c : Ctx) (cmd : List Bytes) : (handlePing c cmd).AllRet Res.WFok := by
  apply allRet_full; unfold handlePing; wf
theorem handleEcho_wf (c : Ctx) (cmd : List Bytes) : (handleEcho c cmd).AllRet Res.WFok := by
  apply allRet_full; unfold handleEcho; wf

/-! ### handlers that echo stored data as a simple string -/

/-- `wf` plus the dirty simple-string leaf -/
macro "wfd" : tactic => `(tactic| (wf <;> first | exact rx_simpleDirty _ | skip))

/-- GET: well-formed except `+<value>\r\n` with CR/LF inside the stored value's `%v` text -/
theorem handleGet_wf_partial (c : Ctx) (cmd : List Bytes) : (handleGet c cmd).AllRet (Res.WFx SimpleDirty) := by
  unfold handleGet; wfd
/-- GETDEL: as GET -/
theorem handleGetdel_wf_partial (c : Ctx) (cmd : List Bytes) : (handleGetdel c cmd).AllRet (Res.WFx SimpleDirty) := by
  unfold handleGetdel; wfd
/-- GETEX: as GET -/
theorem handleGetex_wf_partial (c : Ctx) (cmd : List Bytes) : (handleGetex c cmd).AllRet (Res.WFx SimpleDirty) := by
  unfold handleGetex; wfd
/-- SET: only the `GET` option's old-value reply `+<old value>\r\n` can be malformed -/
theorem handleSet_wf_partial (c : Ctx) (cmd : List Bytes) : (handleSet c cmd).AllRet (Res.WFx SimpleDirty) := by
  unfold handleSet; wfd

/-! ### MGET: the element count is the key count, the elements come from `GetValues` — well-formed as soon
    as `GetValues` answers one value per key, which it always does (`Prim.Post`) -/

/-- what the result of a primitive is guaranteed to satisfy, whatever the state -/
def Prim.Post : (p : Prim) → p.Res → Prop := fun p =>
  match p with
  | .getValues ks => fun (vs : List Val) => vs.length = ks.length
  | .keysExist ks => fun (ex : List Bool) => ex.length = ks.length
  | _ => fun _ => True

/-- `AllRet` relative to the primitives' postconditions -/
def Prog.AllRetP {α : Type} (P : α → Prop) : Prog α → Prop
  | .ret a => P a
  | .call p k => ∀ r, p.Post r → (k r).AllRetP P
  | .panic _ => True
  | .unmod _ => True

theorem getValues_length (c : Ctx) : ∀ (ks : List Bytes) (s : State), (getValues c s ks).2.length = ks.length := by
  intro ks
  induction ks with
  | nil => intro s; rfl
  | cons k r ih =>
    intro s
    unfold getValues
    split
    · simp [ih]
    · split <;> simp [ih]

theorem exec_post (c : Ctx) (s : State) (p : Prim) (s' : State) (r : p.Res) (h : p.exec c s = some (s', r)) :
    p.Post r := by
  cases p with
  | getValues ks =>
    simp only [Prim.exec] at h
    injection h with h
    have := getValues_length c ks s
    rw [h] at this
    exact this
  | keysExist ks =>
    simp only [Prim.exec] at h
    injection h with h
    injection h with _ h
    subst h
    show (Sugar.keysExist s c.db ks).length = ks.length
    unfold Sugar.keysExist
    exact List.length_map _
  | _ => exact True.intro

theorem allRetP_run {α : Type} (P : α → Prop) (c : Ctx) : ∀ (p : Prog α) (s : State), p.AllRetP P →
    ∀ a, (p.run c s).2 = .done a → P a := by
  intro p
  induction p with
  | ret a => intro s h a' hr; simp [Prog.run] at hr; subst hr; exact h
  | call q k ih =>
    intro s h a hr
    simp only [Prog.run] at hr
    cases hq : q.exec c s with
    | none => simp [hq] at hr
    | some sr =>
      obtain ⟨s', r⟩ := sr
      simp only [hq] at hr
      exact ih r s' (h r (exec_post c s q s' r hq)) a hr
  | panic w => intro s _ a hr; simp [Prog.run] at hr
  | unmod w => intro s _ a hr; simp [Prog.run] at hr

theorem Prog.AllRet.toP {α : Type} {P : α → Prop} : ∀ {p : Prog α}, p.AllRet P → p.AllRetP P := by
  intro p
  induction p with
  | ret a => exact id
  | call q k ih => intro h r _; exact ih r (h r)
  | panic w => intro _; trivial
  | unmod w => intro _; trivial

theorem mgetBody_scalars : ∀ (vs : List Val) (body : Bytes), mgetBody vs = some body →
    ∃ xs : List Bytes, xs.length = vs.length ∧ (∀ x ∈ xs, WF1 x) ∧ body = xs.flatten := by
  intro vs
  induction vs with
  | nil =>
    intro body h
    simp only [mgetBody, Option.some.injEq] at h
    subst h
    exact ⟨[], rfl, (by intro x hx; cases hx), rfl⟩
  | cons v r ih =>
    intro body h
    unfold mgetBody at h
    cases ht : mgetText v with
    | none => simp [ht] at h
    | some t =>
      cases hr : mgetBody r with
      | none => simp [ht, hr] at h
      | some rest =>
        obtain ⟨xs, hl, hw, he⟩ := ih rest hr
        simp only [ht, hr, Option.bind_eq_bind, Option.bind_some, Option.pure_def, Option.some.injEq] at h
        subst h
        refine ⟨(if (v == Val.nil) = true then nilBulk else bulkStr t) :: xs, by simp [hl], ?_, by simp [he]⟩
        intro x hx
        rcases List.mem_cons.mp hx with rfl | hx
        · split
          · exact wf1_nil
          · exact wf1_bulk _
        · exact hw x hx

/-- MGET: every reply is well-formed given that `GetValues` returns one value per requested key.
    (Without that postcondition the statement is false: the header counts keys, the body counts values.) -/
theorem handleMGet_wfP (c : Ctx) (cmd : List Bytes) : (handleMGet c cmd).AllRetP Res.WFok := by
  unfold handleMGet
  split
  · trivial
  · intro vs hvs
    dsimp only
    split
    · rename_i body hb
      obtain ⟨xs, hl, hw, he⟩ := mgetBody_scalars vs body hb
      have hvs' : vs.length = (cmd.drop 1).length := hvs
      show WF _
      rw [← hvs', ← hl, he]
      exact wf_arr xs hw
    · trivial

/-- the run-level consequence for MGET -/
theorem handleMGet_wf_run (c : Ctx) (cmd : List Bytes) (s : State) (r : Res)
    (h : ((handleMGet c cmd).run c s).2 = .done r) : Res.WFok r :=
  allRetP_run _ c _ s (handleMGet_wfP c cmd) r h

end Sugar
