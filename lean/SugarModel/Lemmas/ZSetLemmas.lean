/-
  Lemmas.ZSetLemmas — helper facts for the sorted-set theorems (C17): in-place mutation through the
  stored pointer, the fold of AddOrUpdate, insertion sort.
-/
import SugarModel.Lemmas.Kv
namespace Sugar

@[simp] theorem run_mutObj {α : Type} (c : Ctx) (s : State) (key : Bytes) (v : Val) (k : (Prim.mutObj key v).Res → Prog α) :
    (Prog.call (.mutObj key v) k).run c s = (k ()).run c (mutObj s c.db key v) := rfl

theorem KMap.get_map_val {α : Type} (m : KMap α) (f : Bytes × α → Bytes × α) (hf : ∀ p, (f p).1 = p.1) (k : Bytes) :
    KMap.get (m.map f) k = (KMap.get m k).map fun v => (f (k, v)).2 := by
  induction m with
  | nil => simp [KMap.get]
  | cons p r ih =>
    obtain ⟨k', v'⟩ := p
    have h1 := hf (k', v')
    simp only [List.map_cons, KMap.get]
    by_cases h : k' = k
    · subst h
      cases hfp : f (k', v') with
      | mk a c => simp [hfp] at h1; subst h1; simp [KMap.get, hfp]
    · cases hfp : f (k', v') with
      | mk a c => simp [hfp] at h1; subst h1; simp [KMap.get, h, ih]

/-- in-place mutation of an unshared object: the key now reads as the new value, deadline kept -/
theorem zlookup_mutObj_same (s : State) (i : Nat) (k : Bytes) (e : Entry) (v : Val)
    (h : s.lookup i k = some e) (ho : e.val.oid = 0) :
    (mutObj s i k v).lookup i k = some ⟨v.withOid 0, e.exp⟩ := by
  unfold mutObj
  simp only [h, ho]
  unfold State.lookup State.db at *
  simp only [NMap.get_put_same, Option.getD_some]
  rw [KMap.get_map_val]
  · simp [h]
  · intro p; obtain ⟨a, c⟩ := p; simp only; split <;> rfl

/-- … and every other key of the database is untouched -/
theorem zlookup_mutObj_other (s : State) (i : Nat) (k k2 : Bytes) (e : Entry) (v : Val)
    (h : s.lookup i k = some e) (ho : e.val.oid = 0) (hne : k2 ≠ k) :
    (mutObj s i k v).lookup i k2 = s.lookup i k2 := by
  unfold mutObj
  simp only [h, ho]
  unfold State.lookup State.db at *
  simp only [NMap.get_put_same, Option.getD_some]
  rw [KMap.get_map_val]
  · cases hg : KMap.get ((NMap.get s.dbs i).getD ⟨[], []⟩).store k2 with
    | none => simp
    | some e2 => simp [hne]
  · intro p; obtain ⟨a, c⟩ := p; simp only; split <;> rfl

/-! ### insertion sort returns a permutation of its input, whatever the comparator -/

theorem insertRight_perm {α : Type} (lt : α → α → Bool) (x : α) (p : List α) :
    (insertRight lt x p).Perm (x :: p) := by
  unfold insertRight
  have h1 : (p.reverse.dropWhile fun y => lt x y).reverse ++ [x] ++ (p.reverse.takeWhile fun y => lt x y).reverse
      = (p.reverse.dropWhile fun y => lt x y).reverse ++ (x :: (p.reverse.takeWhile fun y => lt x y).reverse) := by simp
  rw [h1]
  refine List.perm_middle.trans (List.Perm.cons x ?_)
  have h2 : ((p.reverse.dropWhile fun y => lt x y).reverse ++ (p.reverse.takeWhile fun y => lt x y).reverse).Perm
      ((p.reverse.takeWhile fun y => lt x y) ++ (p.reverse.dropWhile fun y => lt x y)) :=
    (List.Perm.append (List.reverse_perm _) (List.reverse_perm _)).trans List.perm_append_comm
  rw [List.takeWhile_append_dropWhile] at h2
  exact h2.trans (List.reverse_perm p)

theorem foldl_insertRight_perm {α : Type} (lt : α → α → Bool) (l : List α) : ∀ acc : List α,
    (l.foldl (fun p x => insertRight lt x p) acc).Perm (acc ++ l) := by
  induction l with
  | nil => intro acc; simp
  | cons x r ih =>
    intro acc
    simp only [List.foldl_cons]
    refine (ih _).trans ?_
    have : (insertRight lt x acc ++ r).Perm ((x :: acc) ++ r) := List.Perm.append_right r (insertRight_perm lt x acc)
    refine this.trans ?_
    simp only [List.cons_append]
    exact List.perm_middle.symm

/-! ### evaluated string tests used by the AddOrUpdate flag proofs -/

theorem w1 : (toLower (b "gt") == b "lt") = false := by decide
theorem w2 : (toLower (b "gt") == b "gt") = true := by decide
theorem w3 : (toLower (b "lt") == b "lt") = true := by decide
theorem w4 : (toLower (b "lt") == b "gt") = false := by decide
theorem w5 : (toLower ([] : Bytes) == b "lt") = false := by decide
theorem w6 : (toLower ([] : Bytes) == b "gt") = false := by decide
theorem w7 : (toLower (b "nx") == b "nx") = true := by decide
theorem w8 : (toLower (b "nx") == b "xx") = false := by decide
theorem w9 : (toLower (b "xx") == b "nx") = false := by decide
theorem w10 : (toLower (b "xx") == b "xx") = true := by decide
theorem v1 : eqFold ([] : Bytes) (b "xx") = false := by decide
theorem v2 : eqFold ([] : Bytes) (b "nx") = false := by decide
theorem v3 : eqFold (b "ch") (b "ch") = true := by decide
theorem v4 : eqFold (b "xx") (b "xx") = true := by decide
theorem v5 : eqFold (b "xx") (b "nx") = false := by decide
theorem v6 : eqFold (b "nx") (b "xx") = false := by decide
theorem v7 : eqFold (b "nx") (b "nx") = true := by decide
theorem u1 : (b "gt" != ([] : Bytes)) = true := by decide
theorem u2 : (b "lt" != ([] : Bytes)) = true := by decide


theorem del_absent {α : Type} (ms : KMap α) (m : Bytes) (hn : ms.get m = none) : ms.del m = ms := by
  induction ms with
  | nil => rfl
  | cons p r ih =>
    obtain ⟨a, v⟩ := p
    by_cases ha : a = m
    · subst ha; simp [KMap.get] at hn
    · simp only [KMap.get, ha, if_false] at hn
      simp [KMap.del, ha, ih hn]


/-! ### insertion sort orders its input when the comparator is a strict weak order -/

/-- no element is strictly below an earlier one -/
def SortedBy {α : Type} (lt : α → α → Bool) (l : List α) : Prop := l.Pairwise fun x y => lt y x = false

theorem mem_takeWhile_pred {α : Type} (P : α → Bool) : ∀ (q : List α) (y : α), y ∈ q.takeWhile P → P y = true := by
  intro q
  induction q with
  | nil => intro y h; cases h
  | cons a r ih =>
    intro y h
    simp only [List.takeWhile] at h
    split at h
    · rename_i hp
      simp only [List.mem_cons] at h
      rcases h with rfl | h
      · exact hp
      · exact ih y h
    · cases h

theorem dropWhile_all_le {α : Type} (lt : α → α → Bool) (x : α)
    (htrans : ∀ a c d, lt c a = false → lt d c = false → lt d a = false) :
    ∀ (q : List α), q.Pairwise (fun a c => lt a c = false) → ∀ z ∈ q.dropWhile (fun y => lt x y), lt x z = false := by
  intro q
  induction q with
  | nil => intro _ z h; cases h
  | cons a r ih =>
    intro hp z hz
    rw [List.pairwise_cons] at hp
    simp only [List.dropWhile] at hz
    split at hz
    · exact ih hp.2 z hz
    · rename_i hxa
      simp only [List.mem_cons] at hz
      rcases hz with rfl | hz
      · simpa using hxa
      · exact htrans z a x (hp.1 z hz) (by simpa using hxa)

theorem insertRight_sorted {α : Type} (lt : α → α → Bool) (x : α) (p : List α)
    (hasym : ∀ a c, lt a c = true → lt c a = false)
    (htrans : ∀ a c d, lt c a = false → lt d c = false → lt d a = false)
    (hs : SortedBy lt p) : SortedBy lt (insertRight lt x p) := by
  unfold insertRight SortedBy at *
  have hsplit : p = (p.reverse.dropWhile fun y => lt x y).reverse ++ (p.reverse.takeWhile fun y => lt x y).reverse := by
    have := List.takeWhile_append_dropWhile (p := fun y => lt x y) (l := p.reverse)
    have h2 := congrArg List.reverse this
    simp only [List.reverse_append, List.reverse_reverse] at h2
    exact h2.symm
  have hrev : p.reverse.Pairwise (fun a c => lt a c = false) := by
    rw [List.pairwise_reverse]; exact hs
  have hfront : ∀ z ∈ (p.reverse.dropWhile fun y => lt x y).reverse, lt x z = false := by
    intro z hz
    exact dropWhile_all_le lt x htrans p.reverse hrev z (by simpa using hz)
  have hback : ∀ y ∈ (p.reverse.takeWhile fun y => lt x y).reverse, lt x y = true := by
    intro y hy
    exact mem_takeWhile_pred (fun y => lt x y) p.reverse y (by simpa using hy)
  generalize (p.reverse.dropWhile fun y => lt x y).reverse = front at *
  generalize (p.reverse.takeWhile fun y => lt x y).reverse = back at *
  rw [hsplit] at hs
  rw [List.pairwise_append] at hs
  obtain ⟨hfs, hbs, hfb⟩ := hs
  simp only [List.append_assoc, List.singleton_append]
  rw [List.pairwise_append]
  refine ⟨hfs, ?_, ?_⟩
  · rw [List.pairwise_cons]
    exact ⟨fun y hy => hasym x y (hback y hy), hbs⟩
  · intro a ha c hc
    simp only [List.mem_cons] at hc
    rcases hc with rfl | hc
    · exact hfront a ha
    · exact hfb a ha c hc

theorem foldl_insertRight_sorted {α : Type} (lt : α → α → Bool)
    (hasym : ∀ a c, lt a c = true → lt c a = false)
    (htrans : ∀ a c d, lt c a = false → lt d c = false → lt d a = false) :
    ∀ (l acc : List α), SortedBy lt acc → SortedBy lt (l.foldl (fun p x => insertRight lt x p) acc) := by
  intro l
  induction l with
  | nil => intro acc h; exact h
  | cons x r ih => intro acc h; exact ih _ (insertRight_sorted lt x acc hasym htrans h)

/-! ### the four combining commands never panic (ZINTER / ZUNION / ZINTERSTORE / ZUNIONSTORE) -/

/-- no `panic` leaf, and every primitive called is one that cannot fail -/
def Prog.ZNoPanic {α : Type} : Prog α → Prop
  | .ret _ => True
  | .call p k => (∀ (c : Ctx) (s : State), (p.exec c s).isSome = true) ∧ ∀ r, (k r).ZNoPanic
  | .panic _ => False
  | .unmod _ => True

theorem zNoPanic_run {α : Type} (c : Ctx) : ∀ (p : Prog α) (s : State), p.ZNoPanic → ∀ w, (p.run c s).2 ≠ .panic w := by
  intro p
  induction p with
  | ret a => intro s _ w h; simp [Prog.run] at h
  | call q k ih =>
    intro s h w
    simp only [Prog.run]
    have hq := h.1 c s
    cases he : q.exec c s with
    | none => simp [he] at hq
    | some sr => exact ih sr.2 sr.1 (h.2 sr.2) w
  | panic w' => intro s h; exact absurd h id
  | unmod w' => intro s _ w h; simp [Prog.run] at h

theorem firstMod_zero (wi ai si : Option Nat)
    (h : ([wi, ai, si].filterMap id).foldl (fun (acc : Option Nat) i => match acc with
        | none => some i
        | some j => some (min i j)) none = some 0) : wi = some 0 ∨ ai = some 0 ∨ si = some 0 := by
  cases wi <;> cases ai <;> cases si <;> simp at h <;> simp <;> omega

theorem findIdx_zero_head (p : Bytes → Bool) (cmd : List Bytes) (h : cmd.findIdx? p = some 0) : p (cmd.headD []) = true := by
  cases cmd with
  | nil => simp at h
  | cons a r =>
    simp only [List.findIdx?_cons] at h
    split at h
    · simpa
    · simp at h

theorem extractKWA_no_panic (cmd : List Bytes) (h : isModifierTok (cmd.headD []) = false) (w : String) :
    extractKWA cmd ≠ .panic w := by
  unfold extractKWA
  split
  · intro hh; cases hh
  · dsimp only
    repeat' split
    all_goals first
      | (intro hh; cases hh; done)
      | skip
    rename_i hz
    exfalso
    have hm : isModifierTok (cmd.headD []) = true := by
      unfold isModifierTok
      rcases firstMod_zero _ _ _ hz with h0 | h0 | h0
      · have e : eqFold (cmd.headD []) (b "weights") = true := findIdx_zero_head (fun t => eqFold t (b "weights")) cmd h0
        rw [e]; rfl
      · have e : eqFold (cmd.headD []) (b "aggregate") = true := findIdx_zero_head (fun t => eqFold t (b "aggregate")) cmd h0
        rw [e]; simp
      · have e : eqFold (cmd.headD []) (b "withscores") = true := findIdx_zero_head (fun t => eqFold t (b "withscores")) cmd h0
        rw [e]; simp
    rw [h] at hm
    cases hm


theorem head_take_append (cmd rest : List Bytes) (hne : cmd ≠ []) : (cmd.take 1 ++ rest).headD [] = cmd.headD [] := by
  cases cmd with
  | nil => exact absurd rfl hne
  | cons a r => rfl

/-- `setOrErr` around a program without panic -/
theorem setOrErr_zNoPanic (es : List (Bytes × Val)) (k : Prog Res) (h : k.ZNoPanic) : (setOrErr es k).ZNoPanic := by
  unfold setOrErr
  refine ⟨fun c s => rfl, fun r => ?_⟩
  dsimp only
  split
  · exact h
  · trivial

theorem zCombineTail_noPanic (inter store ws : Bool) (dest agg : Bytes) (rows : List (Bytes × Bool × Val × Int)) :
    (zCombineTail inter store ws dest agg rows).ZNoPanic := by
  unfold zCombineTail
  repeat' split
  all_goals first
    | trivial
    | (apply setOrErr_zNoPanic; trivial)

theorem handleZCombine_noPanic (inter store : Bool) (c : Ctx) (cmd : List Bytes)
    (hh : isModifierTok (cmd.headD []) = false) :
    (handleZCombine inter store c cmd).ZNoPanic := by
  have hx2 : ∀ w, extractKWA cmd ≠ .panic w := extractKWA_no_panic cmd hh
  have hx1 : ∀ w, extractKWA (cmd.take 1 ++ (cmd.drop 1).filter (fun t => t != cmd.getD 1 [])) ≠ .panic w := by
    intro w
    cases cmd with
    | nil => exact extractKWA_no_panic _ hh w
    | cons a r =>
      apply extractKWA_no_panic
      rw [head_take_append (a :: r) _ (by simp)]
      exact hh
  have hx3 : ∀ w, extractKWA (if store = true then cmd.take 1 ++ (cmd.drop 1).filter (fun t => t != cmd.getD 1 []) else cmd) ≠ .panic w := by
    intro w
    split
    · exact hx1 w
    · exact hx2 w
  unfold handleZCombine
  repeat' (first
    | trivial
    | exact zCombineTail_noPanic _ _ _ _ _ _
    | exact absurd ‹extractKWA cmd = XRes.panic _› (hx2 _)
    | exact absurd ‹extractKWA _ = XRes.panic _› (hx1 _)
    | exact absurd ‹extractKWA _ = XRes.panic _› (hx3 _)
    | (refine ⟨fun c s => rfl, fun r => ?_⟩)
    | split
    | (dsimp only))

end Sugar
