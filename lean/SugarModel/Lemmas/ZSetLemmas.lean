/-
  Lemmas.ZSetLemmas — helper facts for the sorted-set theorems (C17): in-place mutation through the
  stored pointer, the fold of AddOrUpdate, insertion sort.
-/
import SugarModel.Lemmas.Kv
namespace Sugar

@[simp] theorem run_mutObj {α : Type} (c : Ctx) (s : State) (key : Bytes) (v : Val) (k : (Prim.mutObj key v).Res → Prog α) :
    (Prog.call (.mutObj key v) k).run c s = (k ()).run c (mutObj s c.db key v) := rfl

theorem KMap.get_map_val {α : Type} (m : KMap α) (f : Bytes × α → Bytes × α) (hf : ∀ p, (f p).1 = p.1) (k : Bytes) :
    KMap.get (m.map f) k = (KMap.get m k).map fun v => (f (k, v)).2 := by
  induction m with
  | nil => simp [KMap.get]
  | cons p r ih =>
    obtain ⟨k', v'⟩ := p
    have h1 := hf (k', v')
    simp only [List.map_cons, KMap.get]
    by_cases h : k' = k
    · subst h
      cases hfp : f (k', v') with
      | mk a c => simp [hfp] at h1; subst h1; simp [KMap.get, hfp]
    · cases hfp : f (k', v') with
      | mk a c => simp [hfp] at h1; subst h1; simp [KMap.get, h, ih]

/-- in-place mutation of an unshared object: the key now reads as the new value, deadline kept -/
theorem lookup_mutObj_same (s : State) (i : Nat) (k : Bytes) (e : Entry) (v : Val)
    (h : s.lookup i k = some e) (ho : e.val.oid = 0) :
    (mutObj s i k v).lookup i k = some ⟨v.withOid 0, e.exp⟩ := by
  unfold mutObj
  simp only [h, ho]
  unfold State.lookup State.db at *
  simp only [NMap.get_put_same, Option.getD_some]
  rw [KMap.get_map_val]
  · simp [h]
  · intro p; obtain ⟨a, c⟩ := p; simp only; split <;> rfl

/-- … and every other key of the database is untouched -/
theorem lookup_mutObj_other (s : State) (i : Nat) (k k2 : Bytes) (e : Entry) (v : Val)
    (h : s.lookup i k = some e) (ho : e.val.oid = 0) (hne : k2 ≠ k) :
    (mutObj s i k v).lookup i k2 = s.lookup i k2 := by
  unfold mutObj
  simp only [h, ho]
  unfold State.lookup State.db at *
  simp only [NMap.get_put_same, Option.getD_some]
  rw [KMap.get_map_val]
  · cases hg : KMap.get ((NMap.get s.dbs i).getD ⟨[], []⟩).store k2 with
    | none => simp
    | some e2 => simp [hne]
  · intro p; obtain ⟨a, c⟩ := p; simp only; split <;> rfl

/-! ### insertion sort returns a permutation of its input, whatever the comparator -/

theorem insertRight_perm {α : Type} (lt : α → α → Bool) (x : α) (p : List α) :
    (insertRight lt x p).Perm (x :: p) := by
  unfold insertRight
  have h1 : (p.reverse.dropWhile fun y => lt x y).reverse ++ [x] ++ (p.reverse.takeWhile fun y => lt x y).reverse
      = (p.reverse.dropWhile fun y => lt x y).reverse ++ (x :: (p.reverse.takeWhile fun y => lt x y).reverse) := by simp
  rw [h1]
  refine List.perm_middle.trans (List.Perm.cons x ?_)
  have h2 : ((p.reverse.dropWhile fun y => lt x y).reverse ++ (p.reverse.takeWhile fun y => lt x y).reverse).Perm
      ((p.reverse.takeWhile fun y => lt x y) ++ (p.reverse.dropWhile fun y => lt x y)) :=
    (List.Perm.append (List.reverse_perm _) (List.reverse_perm _)).trans List.perm_append_comm
  rw [List.takeWhile_append_dropWhile] at h2
  exact h2.trans (List.reverse_perm p)

theorem foldl_insertRight_perm {α : Type} (lt : α → α → Bool) (l : List α) : ∀ acc : List α,
    (l.foldl (fun p x => insertRight lt x p) acc).Perm (acc ++ l) := by
  induction l with
  | nil => intro acc; simp
  | cons x r ih =>
    intro acc
    simp only [List.foldl_cons]
    refine (ih _).trans ?_
    have : (insertRight lt x acc ++ r).Perm ((x :: acc) ++ r) := List.Perm.append_right r (insertRight_perm lt x acc)
    refine this.trans ?_
    simp only [List.cons_append]
    exact List.perm_middle.symm

/-! ### evaluated string tests used by the AddOrUpdate flag proofs -/

theorem w1 : (toLower (b "gt") == b "lt") = false := by decide
theorem w2 : (toLower (b "gt") == b "gt") = true := by decide
theorem w3 : (toLower (b "lt") == b "lt") = true := by decide
theorem w4 : (toLower (b "lt") == b "gt") = false := by decide
theorem w5 : (toLower ([] : Bytes) == b "lt") = false := by decide
theorem w6 : (toLower ([] : Bytes) == b "gt") = false := by decide
theorem w7 : (toLower (b "nx") == b "nx") = true := by decide
theorem w8 : (toLower (b "nx") == b "xx") = false := by decide
theorem w9 : (toLower (b "xx") == b "nx") = false := by decide
theorem w10 : (toLower (b "xx") == b "xx") = true := by decide
theorem v1 : eqFold ([] : Bytes) (b "xx") = false := by decide
theorem v2 : eqFold ([] : Bytes) (b "nx") = false := by decide
theorem v3 : eqFold (b "ch") (b "ch") = true := by decide
theorem v4 : eqFold (b "xx") (b "xx") = true := by decide
theorem v5 : eqFold (b "xx") (b "nx") = false := by decide
theorem v6 : eqFold (b "nx") (b "xx") = false := by decide
theorem v7 : eqFold (b "nx") (b "nx") = true := by decide
theorem u1 : (b "gt" != ([] : Bytes)) = true := by decide
theorem u2 : (b "lt" != ([] : Bytes)) = true := by decide


theorem del_absent {α : Type} (ms : KMap α) (m : Bytes) (hn : ms.get m = none) : ms.del m = ms := by
  induction ms with
  | nil => rfl
  | cons p r ih =>
    obtain ⟨a, v⟩ := p
    by_cases ha : a = m
    · subst ha; simp [KMap.get] at hn
    · simp only [KMap.get, ha, if_false] at hn
      simp [KMap.del, ha, ih hn]


end Sugar
