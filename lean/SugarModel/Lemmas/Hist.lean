/-
  Lemmas.Hist — histories of commands issued by several connections (used by Props.C20), and lookup through a
  value-wise map of the connection table.
-/
import SugarModel.Lemmas.NoFlush
namespace Sugar

/-- a history: each command with the request context of the connection that issued it (selected database, clock,
    caller); `none` as soon as one command is outside the modelled table -/
def runHist : State → List (Ctx × List Bytes) → Option State
  | s, [] => some s
  | s, (c, cmd) :: rest =>
    match step c s cmd with
    | none => none
    | some (s', _) => runHist s' rest

/-- lookup through a value-wise map of a connection table -/
theorem get_mapVals (m : NMap Nat) (f : Nat → Nat) (i : Nat) :
    NMap.get (m.map fun (p : Nat × Nat) => (p.1, f p.2)) i = (NMap.get m i).map f := by
  induction m with
  | nil => simp [NMap.get]
  | cons p r ih =>
    obtain ⟨k, v⟩ := p
    by_cases h : k = i
    · simp [NMap.get, h]
    · simp only [List.map, NMap.get, h, if_false]; exact ih

end Sugar
