/-
  Lemmas.WFTable — reply well-formedness over the whole handler table.
  `table_wf`: every row outside `wfExceptions` returns only well-formed success replies (syntactically, for all
  primitive results). `table_known`: every row, exceptions included, returns only well-formed replies or one of
  the two named malformed shapes (`SimpleDirty`, `Star0`), relative to the primitives' postconditions;
  `table_known_run` / `progOf_known_run` state that for actual runs.
-/
import SugarModel.Lemmas.WFGeneric
import SugarModel.Lemmas.WFList
import SugarModel.Lemmas.WFHash
import SugarModel.Lemmas.WFSet
import SugarModel.Lemmas.NoFlush
namespace Sugar

/-- the sorted-set rows: their reply well-formedness is not proved yet (correspondence and the wire column
    of the check cover them); every table theorem below excludes them explicitly -/
def wfUnproved : List Bytes := [b "zadd", b "zcard", b "zcount", b "zdiff", b "zdiffstore", b "zincrby", b "zinter", b "zinterstore", b "zmpop", b "zmscore", b "zpopmax", b "zpopmin", b "zrandmember", b "zrank", b "zrevrank", b "zrem", b "zscore", b "zremrangebylex", b "zremrangebyrank", b "zremrangebyscore", b "zlexcount", b "zrange", b "zrangestore", b "zunion", b "zunionstore"]

/-- command words whose handler can return a malformed success reply (or, for MGET, whose well-formedness
    needs the `GetValues` length postcondition) -/
def wfExceptions : List Bytes := [b "set", b "get", b "mget", b "getdel", b "getex", b "sdiff", b "sinter", b "smembers", b "spop", b "srandmember", b "sunion"]

/-- every row of the handler table outside the exception list returns only well-formed success replies -/
theorem table_wf : ∀ e ∈ handlerTable, e.1 ∉ wfExceptions ++ wfUnproved → ∀ (c : Ctx) (cmd : List Bytes), (e.2 c cmd).AllRet Res.WFok := by
  unfold handlerTable
  simp only [List.forall_mem_cons, List.not_mem_nil, false_imp_iff, implies_true, and_true]
  exact ⟨fun h => (h (by decide)).elim,
    fun _ c cmd => handleMSet_wf c cmd,
    fun h => (h (by decide)).elim,
    fun h => (h (by decide)).elim,
    fun _ c cmd => handleDel_wf c cmd,
    fun _ c cmd => handlePersist_wf c cmd,
    fun _ c cmd => handleExpireTime_wf c cmd,
    fun _ c cmd => handleExpireTime_wf c cmd,
    fun _ c cmd => handleTTL_wf c cmd,
    fun _ c cmd => handleTTL_wf c cmd,
    fun _ c cmd => handleExpire_wf c cmd,
    fun _ c cmd => handleExpire_wf c cmd,
    fun _ c cmd => handleExpireAt_wf c cmd,
    fun _ c cmd => handleExpireAt_wf c cmd,
    fun _ c cmd => handleIncr_wf c cmd,
    fun _ c cmd => handleDecr_wf c cmd,
    fun _ c cmd => handleIncrBy_wf c cmd,
    fun _ c cmd => handleDecrBy_wf c cmd,
    fun _ c cmd => handleIncrByFloat_wf c cmd,
    fun _ c cmd => handleRename_wf c cmd,
    fun _ c cmd => handleFlush_wf c cmd,
    fun _ c cmd => handleFlush_wf c cmd,
    fun h => (h (by decide)).elim,
    fun h => (h (by decide)).elim,
    fun _ c cmd => handleType_wf c cmd,
    fun _ c cmd => handleSetRange_wf c cmd,
    fun _ c cmd => handleStrLen_wf c cmd,
    fun _ c cmd => handleSubStr_wf c cmd,
    fun _ c cmd => handleSubStr_wf c cmd,
    fun _ c cmd => handleAppend_wf c cmd,
    fun _ c cmd => handlePush_wf _ c cmd,
    fun _ c cmd => handlePush_wf _ c cmd,
    fun _ c cmd => handlePush_wf _ c cmd,
    fun _ c cmd => handlePush_wf _ c cmd,
    fun _ c cmd => handlePop_wf c cmd,
    fun _ c cmd => handlePop_wf c cmd,
    fun _ c cmd => handleLLen_wf c cmd,
    fun _ c cmd => handleLRange_wf c cmd,
    fun _ c cmd => handleLIndex_wf c cmd,
    fun _ c cmd => handleLSet_wf c cmd,
    fun _ c cmd => handleLTrim_wf c cmd,
    fun _ c cmd => handleLRem_wf c cmd,
    fun _ c cmd => handleLMove_wf c cmd,
    fun _ c cmd => handleHSet_wf c cmd,
    fun _ c cmd => handleHSet_wf c cmd,
    fun _ c cmd => handleHGet_wf c cmd,
    fun _ c cmd => handleHGet_wf c cmd,
    fun _ c cmd => handleHStrLen_wf c cmd,
    fun _ c cmd => handleHVals_wf c cmd,
    fun _ c cmd => handleHRandField_wf c cmd,
    fun _ c cmd => handleHLen_wf c cmd,
    fun _ c cmd => handleHKeys_wf c cmd,
    fun _ c cmd => handleHIncrBy_wf c cmd,
    fun _ c cmd => handleHIncrBy_wf c cmd,
    fun _ c cmd => handleHGetAll_wf c cmd,
    fun _ c cmd => handleHExists_wf c cmd,
    fun _ c cmd => handleHDel_wf c cmd,
    fun _ c cmd => handleSAdd_wf c cmd,
    fun _ c cmd => handleSCard_wf c cmd,
    fun h => (h (by decide)).elim,
    fun _ c cmd => handleSDiffStore_wf c cmd,
    fun h => (h (by decide)).elim,
    fun _ c cmd => handleSInter_wf _ rfl c cmd,
    fun _ c cmd => handleSInter_wf _ rfl c cmd,
    fun _ c cmd => handleSIsMember_wf c cmd,
    fun h => (h (by decide)).elim,
    fun _ c cmd => handleSMIsMember_wf c cmd,
    fun _ c cmd => handleSMove_wf c cmd,
    fun h => (h (by decide)).elim,
    fun h => (h (by decide)).elim,
    fun _ c cmd => handleSRem_wf c cmd,
    fun h => (h (by decide)).elim,
    fun _ c cmd => handleSUnionStore_wf c cmd,
    fun _ c cmd => handleSelect_wf c cmd,
    fun _ c cmd => handleSwapDB_wf c cmd,
    fun _ c cmd => handlePing_wf c cmd,
    fun _ c cmd => handleEcho_wf c cmd,
    fun h => (h (by decide)).elim,
    fun h => (h (by decide)).elim,
    fun h => (h (by decide)).elim,
    fun h => (h (by decide)).elim,
    fun h => (h (by decide)).elim,
    fun h => (h (by decide)).elim,
    fun h => (h (by decide)).elim,
    fun h => (h (by decide)).elim,
    fun h => (h (by decide)).elim,
    fun h => (h (by decide)).elim,
    fun h => (h (by decide)).elim,
    fun h => (h (by decide)).elim,
    fun h => (h (by decide)).elim,
    fun h => (h (by decide)).elim,
    fun h => (h (by decide)).elim,
    fun h => (h (by decide)).elim,
    fun h => (h (by decide)).elim,
    fun h => (h (by decide)).elim,
    fun h => (h (by decide)).elim,
    fun h => (h (by decide)).elim,
    fun h => (h (by decide)).elim,
    fun h => (h (by decide)).elim,
    fun h => (h (by decide)).elim,
    fun h => (h (by decide)).elim,
    fun h => (h (by decide)).elim⟩

/-- the two malformed reply shapes the modelled handlers can emit -/
def KnownBad (r : Res) : Prop := SimpleDirty r ∨ Star0 r

theorem allRetP_mono {α : Type} {P Q : α → Prop} (h : ∀ a, P a → Q a) :
    ∀ p : Prog α, p.AllRetP P → p.AllRetP Q := by
  intro p
  induction p with
  | ret a => exact h a
  | call q k ih => intro hp r hr; exact ih r (hp r hr)
  | panic w => intro _; trivial
  | unmod w => intro _; trivial

/-- every row of the handler table: a success reply is well-formed, or a simple string echoing stored bytes
    with CR/LF inside, or the bare `*0` -/
theorem table_known : ∀ e ∈ handlerTable, e.1 ∉ wfUnproved → ∀ (c : Ctx) (cmd : List Bytes), (e.2 c cmd).AllRetP (Res.WFx KnownBad) := by
  have full : ∀ {p : Prog Res}, p.AllRet Res.WFok → p.AllRetP (Res.WFx KnownBad) :=
    fun h => (allRet_weaken _ h).toP
  have dirty : ∀ {p : Prog Res}, p.AllRet (Res.WFx SimpleDirty) → p.AllRetP (Res.WFx KnownBad) :=
    fun h => (allRet_mono (fun _ hr => hr.elim Or.inl (fun e => Or.inr (Or.inl e))) _ h).toP
  have star : ∀ {p : Prog Res}, p.AllRet (Res.WFx Star0) → p.AllRetP (Res.WFx KnownBad) :=
    fun h => (allRet_mono (fun _ hr => hr.elim Or.inl (fun e => Or.inr (Or.inr e))) _ h).toP
  unfold handlerTable
  simp only [List.forall_mem_cons, List.not_mem_nil, false_imp_iff, implies_true, and_true]
  exact ⟨fun _ c cmd => dirty (handleSet_wf_partial c cmd),
    fun _ c cmd => full (handleMSet_wf c cmd),
    fun _ c cmd => dirty (handleGet_wf_partial c cmd),
    fun _ c cmd => allRetP_mono (fun _ h => Or.inl h) _ (handleMGet_wfP c cmd),
    fun _ c cmd => full (handleDel_wf c cmd),
    fun _ c cmd => full (handlePersist_wf c cmd),
    fun _ c cmd => full (handleExpireTime_wf c cmd),
    fun _ c cmd => full (handleExpireTime_wf c cmd),
    fun _ c cmd => full (handleTTL_wf c cmd),
    fun _ c cmd => full (handleTTL_wf c cmd),
    fun _ c cmd => full (handleExpire_wf c cmd),
    fun _ c cmd => full (handleExpire_wf c cmd),
    fun _ c cmd => full (handleExpireAt_wf c cmd),
    fun _ c cmd => full (handleExpireAt_wf c cmd),
    fun _ c cmd => full (handleIncr_wf c cmd),
    fun _ c cmd => full (handleDecr_wf c cmd),
    fun _ c cmd => full (handleIncrBy_wf c cmd),
    fun _ c cmd => full (handleDecrBy_wf c cmd),
    fun _ c cmd => full (handleIncrByFloat_wf c cmd),
    fun _ c cmd => full (handleRename_wf c cmd),
    fun _ c cmd => full (handleFlush_wf c cmd),
    fun _ c cmd => full (handleFlush_wf c cmd),
    fun _ c cmd => dirty (handleGetdel_wf_partial c cmd),
    fun _ c cmd => dirty (handleGetex_wf_partial c cmd),
    fun _ c cmd => full (handleType_wf c cmd),
    fun _ c cmd => full (handleSetRange_wf c cmd),
    fun _ c cmd => full (handleStrLen_wf c cmd),
    fun _ c cmd => full (handleSubStr_wf c cmd),
    fun _ c cmd => full (handleSubStr_wf c cmd),
    fun _ c cmd => full (handleAppend_wf c cmd),
    fun _ c cmd => full (handlePush_wf _ c cmd),
    fun _ c cmd => full (handlePush_wf _ c cmd),
    fun _ c cmd => full (handlePush_wf _ c cmd),
    fun _ c cmd => full (handlePush_wf _ c cmd),
    fun _ c cmd => full (handlePop_wf c cmd),
    fun _ c cmd => full (handlePop_wf c cmd),
    fun _ c cmd => full (handleLLen_wf c cmd),
    fun _ c cmd => full (handleLRange_wf c cmd),
    fun _ c cmd => full (handleLIndex_wf c cmd),
    fun _ c cmd => full (handleLSet_wf c cmd),
    fun _ c cmd => full (handleLTrim_wf c cmd),
    fun _ c cmd => full (handleLRem_wf c cmd),
    fun _ c cmd => full (handleLMove_wf c cmd),
    fun _ c cmd => full (handleHSet_wf c cmd),
    fun _ c cmd => full (handleHSet_wf c cmd),
    fun _ c cmd => full (handleHGet_wf c cmd),
    fun _ c cmd => full (handleHGet_wf c cmd),
    fun _ c cmd => full (handleHStrLen_wf c cmd),
    fun _ c cmd => full (handleHVals_wf c cmd),
    fun _ c cmd => full (handleHRandField_wf c cmd),
    fun _ c cmd => full (handleHLen_wf c cmd),
    fun _ c cmd => full (handleHKeys_wf c cmd),
    fun _ c cmd => full (handleHIncrBy_wf c cmd),
    fun _ c cmd => full (handleHIncrBy_wf c cmd),
    fun _ c cmd => full (handleHGetAll_wf c cmd),
    fun _ c cmd => full (handleHExists_wf c cmd),
    fun _ c cmd => full (handleHDel_wf c cmd),
    fun _ c cmd => full (handleSAdd_wf c cmd),
    fun _ c cmd => full (handleSCard_wf c cmd),
    fun _ c cmd => star (handleSDiff_wf_partial _ c cmd),
    fun _ c cmd => full (handleSDiffStore_wf c cmd),
    fun _ c cmd => star (handleSInter_wf_partial _ c cmd),
    fun _ c cmd => full (handleSInter_wf _ rfl c cmd),
    fun _ c cmd => full (handleSInter_wf _ rfl c cmd),
    fun _ c cmd => full (handleSIsMember_wf c cmd),
    fun _ c cmd => star (handleSMembers_wf_partial c cmd),
    fun _ c cmd => full (handleSMIsMember_wf c cmd),
    fun _ c cmd => full (handleSMove_wf c cmd),
    fun _ c cmd => star (handleSPop_wf_partial c cmd),
    fun _ c cmd => star (handleSRandMember_wf_partial c cmd),
    fun _ c cmd => full (handleSRem_wf c cmd),
    fun _ c cmd => star (handleSUnion_wf_partial _ c cmd),
    fun _ c cmd => full (handleSUnionStore_wf c cmd),
    fun _ c cmd => full (handleSelect_wf c cmd),
    fun _ c cmd => full (handleSwapDB_wf c cmd),
    fun _ c cmd => full (handlePing_wf c cmd),
    fun _ c cmd => full (handleEcho_wf c cmd),
    fun h => (h (by decide)).elim,
    fun h => (h (by decide)).elim,
    fun h => (h (by decide)).elim,
    fun h => (h (by decide)).elim,
    fun h => (h (by decide)).elim,
    fun h => (h (by decide)).elim,
    fun h => (h (by decide)).elim,
    fun h => (h (by decide)).elim,
    fun h => (h (by decide)).elim,
    fun h => (h (by decide)).elim,
    fun h => (h (by decide)).elim,
    fun h => (h (by decide)).elim,
    fun h => (h (by decide)).elim,
    fun h => (h (by decide)).elim,
    fun h => (h (by decide)).elim,
    fun h => (h (by decide)).elim,
    fun h => (h (by decide)).elim,
    fun h => (h (by decide)).elim,
    fun h => (h (by decide)).elim,
    fun h => (h (by decide)).elim,
    fun h => (h (by decide)).elim,
    fun h => (h (by decide)).elim,
    fun h => (h (by decide)).elim,
    fun h => (h (by decide)).elim,
    fun h => (h (by decide)).elim⟩

/-- run-level form: whatever the state, a handler that completes answers a well-formed reply or one of the
    two known malformed shapes -/
theorem table_known_run : ∀ e ∈ handlerTable, e.1 ∉ wfUnproved → ∀ (c : Ctx) (cmd : List Bytes) (s : State) (r : Res),
    ((e.2 c cmd).run c s).2 = .done r → Res.WFok r ∨ SimpleDirty r ∨ Star0 r :=
  fun e he hx c cmd s r h => allRetP_run _ c _ s (table_known e he hx c cmd) r h

/-- command words whose handler really can answer a malformed success reply (witnesses in `Lemmas.WFWitness`) -/
def wfMalformed : List Bytes := [b "set", b "get", b "getdel", b "getex", b "sdiff", b "sinter", b "smembers", b "spop", b "srandmember", b "sunion"]

/-- run-level table theorem: outside the ten words of `wfMalformed` (so including MGET), whatever the state,
    a handler that completes answers exactly one well-formed RESP value -/
theorem table_wf_run : ∀ e ∈ handlerTable, e.1 ∉ wfMalformed ++ wfUnproved → ∀ (c : Ctx) (cmd : List Bytes) (s : State) (r : Res),
    ((e.2 c cmd).run c s).2 = .done r → Res.WFok r := by
  unfold handlerTable
  simp only [List.forall_mem_cons, List.not_mem_nil, false_imp_iff, implies_true, and_true]
  exact ⟨fun h => (h (by decide)).elim,
    fun _ c cmd s r h => allRet_run _ c _ s (handleMSet_wf c cmd) r h,
    fun h => (h (by decide)).elim,
    fun _ c cmd s r h => handleMGet_wf_run c cmd s r h,
    fun _ c cmd s r h => allRet_run _ c _ s (handleDel_wf c cmd) r h,
    fun _ c cmd s r h => allRet_run _ c _ s (handlePersist_wf c cmd) r h,
    fun _ c cmd s r h => allRet_run _ c _ s (handleExpireTime_wf c cmd) r h,
    fun _ c cmd s r h => allRet_run _ c _ s (handleExpireTime_wf c cmd) r h,
    fun _ c cmd s r h => allRet_run _ c _ s (handleTTL_wf c cmd) r h,
    fun _ c cmd s r h => allRet_run _ c _ s (handleTTL_wf c cmd) r h,
    fun _ c cmd s r h => allRet_run _ c _ s (handleExpire_wf c cmd) r h,
    fun _ c cmd s r h => allRet_run _ c _ s (handleExpire_wf c cmd) r h,
    fun _ c cmd s r h => allRet_run _ c _ s (handleExpireAt_wf c cmd) r h,
    fun _ c cmd s r h => allRet_run _ c _ s (handleExpireAt_wf c cmd) r h,
    fun _ c cmd s r h => allRet_run _ c _ s (handleIncr_wf c cmd) r h,
    fun _ c cmd s r h => allRet_run _ c _ s (handleDecr_wf c cmd) r h,
    fun _ c cmd s r h => allRet_run _ c _ s (handleIncrBy_wf c cmd) r h,
    fun _ c cmd s r h => allRet_run _ c _ s (handleDecrBy_wf c cmd) r h,
    fun _ c cmd s r h => allRet_run _ c _ s (handleIncrByFloat_wf c cmd) r h,
    fun _ c cmd s r h => allRet_run _ c _ s (handleRename_wf c cmd) r h,
    fun _ c cmd s r h => allRet_run _ c _ s (handleFlush_wf c cmd) r h,
    fun _ c cmd s r h => allRet_run _ c _ s (handleFlush_wf c cmd) r h,
    fun h => (h (by decide)).elim,
    fun h => (h (by decide)).elim,
    fun _ c cmd s r h => allRet_run _ c _ s (handleType_wf c cmd) r h,
    fun _ c cmd s r h => allRet_run _ c _ s (handleSetRange_wf c cmd) r h,
    fun _ c cmd s r h => allRet_run _ c _ s (handleStrLen_wf c cmd) r h,
    fun _ c cmd s r h => allRet_run _ c _ s (handleSubStr_wf c cmd) r h,
    fun _ c cmd s r h => allRet_run _ c _ s (handleSubStr_wf c cmd) r h,
    fun _ c cmd s r h => allRet_run _ c _ s (handleAppend_wf c cmd) r h,
    fun _ c cmd s r h => allRet_run _ c _ s (handlePush_wf _ c cmd) r h,
    fun _ c cmd s r h => allRet_run _ c _ s (handlePush_wf _ c cmd) r h,
    fun _ c cmd s r h => allRet_run _ c _ s (handlePush_wf _ c cmd) r h,
    fun _ c cmd s r h => allRet_run _ c _ s (handlePush_wf _ c cmd) r h,
    fun _ c cmd s r h => allRet_run _ c _ s (handlePop_wf c cmd) r h,
    fun _ c cmd s r h => allRet_run _ c _ s (handlePop_wf c cmd) r h,
    fun _ c cmd s r h => allRet_run _ c _ s (handleLLen_wf c cmd) r h,
    fun _ c cmd s r h => allRet_run _ c _ s (handleLRange_wf c cmd) r h,
    fun _ c cmd s r h => allRet_run _ c _ s (handleLIndex_wf c cmd) r h,
    fun _ c cmd s r h => allRet_run _ c _ s (handleLSet_wf c cmd) r h,
    fun _ c cmd s r h => allRet_run _ c _ s (handleLTrim_wf c cmd) r h,
    fun _ c cmd s r h => allRet_run _ c _ s (handleLRem_wf c cmd) r h,
    fun _ c cmd s r h => allRet_run _ c _ s (handleLMove_wf c cmd) r h,
    fun _ c cmd s r h => allRet_run _ c _ s (handleHSet_wf c cmd) r h,
    fun _ c cmd s r h => allRet_run _ c _ s (handleHSet_wf c cmd) r h,
    fun _ c cmd s r h => allRet_run _ c _ s (handleHGet_wf c cmd) r h,
    fun _ c cmd s r h => allRet_run _ c _ s (handleHGet_wf c cmd) r h,
    fun _ c cmd s r h => allRet_run _ c _ s (handleHStrLen_wf c cmd) r h,
    fun _ c cmd s r h => allRet_run _ c _ s (handleHVals_wf c cmd) r h,
    fun _ c cmd s r h => allRet_run _ c _ s (handleHRandField_wf c cmd) r h,
    fun _ c cmd s r h => allRet_run _ c _ s (handleHLen_wf c cmd) r h,
    fun _ c cmd s r h => allRet_run _ c _ s (handleHKeys_wf c cmd) r h,
    fun _ c cmd s r h => allRet_run _ c _ s (handleHIncrBy_wf c cmd) r h,
    fun _ c cmd s r h => allRet_run _ c _ s (handleHIncrBy_wf c cmd) r h,
    fun _ c cmd s r h => allRet_run _ c _ s (handleHGetAll_wf c cmd) r h,
    fun _ c cmd s r h => allRet_run _ c _ s (handleHExists_wf c cmd) r h,
    fun _ c cmd s r h => allRet_run _ c _ s (handleHDel_wf c cmd) r h,
    fun _ c cmd s r h => allRet_run _ c _ s (handleSAdd_wf c cmd) r h,
    fun _ c cmd s r h => allRet_run _ c _ s (handleSCard_wf c cmd) r h,
    fun h => (h (by decide)).elim,
    fun _ c cmd s r h => allRet_run _ c _ s (handleSDiffStore_wf c cmd) r h,
    fun h => (h (by decide)).elim,
    fun _ c cmd s r h => allRet_run _ c _ s (handleSInter_wf _ rfl c cmd) r h,
    fun _ c cmd s r h => allRet_run _ c _ s (handleSInter_wf _ rfl c cmd) r h,
    fun _ c cmd s r h => allRet_run _ c _ s (handleSIsMember_wf c cmd) r h,
    fun h => (h (by decide)).elim,
    fun _ c cmd s r h => allRet_run _ c _ s (handleSMIsMember_wf c cmd) r h,
    fun _ c cmd s r h => allRet_run _ c _ s (handleSMove_wf c cmd) r h,
    fun h => (h (by decide)).elim,
    fun h => (h (by decide)).elim,
    fun _ c cmd s r h => allRet_run _ c _ s (handleSRem_wf c cmd) r h,
    fun h => (h (by decide)).elim,
    fun _ c cmd s r h => allRet_run _ c _ s (handleSUnionStore_wf c cmd) r h,
    fun _ c cmd s r h => allRet_run _ c _ s (handleSelect_wf c cmd) r h,
    fun _ c cmd s r h => allRet_run _ c _ s (handleSwapDB_wf c cmd) r h,
    fun _ c cmd s r h => allRet_run _ c _ s (handlePing_wf c cmd) r h,
    fun _ c cmd s r h => allRet_run _ c _ s (handleEcho_wf c cmd) r h,
    fun h => (h (by decide)).elim,
    fun h => (h (by decide)).elim,
    fun h => (h (by decide)).elim,
    fun h => (h (by decide)).elim,
    fun h => (h (by decide)).elim,
    fun h => (h (by decide)).elim,
    fun h => (h (by decide)).elim,
    fun h => (h (by decide)).elim,
    fun h => (h (by decide)).elim,
    fun h => (h (by decide)).elim,
    fun h => (h (by decide)).elim,
    fun h => (h (by decide)).elim,
    fun h => (h (by decide)).elim,
    fun h => (h (by decide)).elim,
    fun h => (h (by decide)).elim,
    fun h => (h (by decide)).elim,
    fun h => (h (by decide)).elim,
    fun h => (h (by decide)).elim,
    fun h => (h (by decide)).elim,
    fun h => (h (by decide)).elim,
    fun h => (h (by decide)).elim,
    fun h => (h (by decide)).elim,
    fun h => (h (by decide)).elim,
    fun h => (h (by decide)).elim,
    fun h => (h (by decide)).elim⟩

/-- the same through the dispatcher -/
theorem progOf_known_run (c : Ctx) (cmd : List Bytes) (p : Prog Res) (hp : progOf c cmd = some p)
    (hz : toLower (cmd.headD []) ∉ wfUnproved)
    (s : State) (r : Res) (h : (p.run c s).2 = .done r) : Res.WFok r ∨ SimpleDirty r ∨ Star0 r := by
  unfold progOf at hp
  split at hp
  · simp at hp
  · rename_i name rest
    split at hp
    · simp at hp
    · cases hh : handlerOf name with
      | none => simp [hh] at hp
      | some f =>
        simp only [hh, Option.map_some, Option.some.injEq] at hp
        subst hp
        exact table_known_run _ (lookupHandler_mem _ f _ hh) hz c _ s r h

/-- through the dispatcher, for a command word outside `wfMalformed` every completed run answers
    exactly one well-formed RESP value -/
theorem progOf_wf_run (c : Ctx) (cmd : List Bytes) (p : Prog Res) (hp : progOf c cmd = some p)
    (hx : toLower (cmd.headD []) ∉ wfMalformed ++ wfUnproved)
    (s : State) (r : Res) (h : (p.run c s).2 = .done r) : Res.WFok r := by
  unfold progOf at hp
  split at hp
  · simp at hp
  · rename_i name rest
    split at hp
    · simp at hp
    · cases hh : handlerOf name with
      | none => simp [hh] at hp
      | some f =>
        simp only [hh, Option.map_some, Option.some.injEq] at hp
        subst hp
        have hm := lookupHandler_mem _ f _ hh
        exact table_wf_run _ hm hx c _ s r h

end Sugar
