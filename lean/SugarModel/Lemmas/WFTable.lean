/-
  Lemmas.WFTable — reply well-formedness over the whole handler table (102 rows).
  `Res.WFok` = exactly one RESP value of nesting depth ≤ 2; `Res.WFok3` = depth ≤ 3 (the sorted-set member
  listings are arrays of `*2 $member +score` arrays).
  * `table_wf`   : every row outside `wfExceptions ++ wfNested` returns only `WFok` success replies
                   (syntactically, for all primitive results).
  * `table_wf3`  : every row outside `wfExceptions` returns only `WFok3` success replies.
  * `table_known`: every row, no exception, returns only `WFok3` replies or the one named malformed shape
                   `SimpleDirty`, relative to the primitives' postconditions. (The second shape of earlier
                   versions, the unterminated empty array `*0` of the set listings, was repaired upstream.)
  * `table_known_run`, `table_wf_run`, `table_wf2_run`, `progOf_*` : the same for actual runs.
-/
import SugarModel.Lemmas.WFGeneric
import SugarModel.Lemmas.WFList
import SugarModel.Lemmas.WFHash
import SugarModel.Lemmas.WFSet
import SugarModel.Lemmas.WFZSet
import SugarModel.Lemmas.NoFlush
namespace Sugar

/-- command words whose handler can return a malformed success reply (or, for MGET, whose well-formedness
    needs the `GetValues` length postcondition) -/
def wfExceptions : List Bytes := [b "set", b "get", b "mget", b "getdel", b "getex"]

/-- command words whose member-listing reply is an array of arrays: well-formed at depth 3, not at depth 2 -/
def wfNested : List Bytes := [b "zdiff", b "zinter", b "zmpop", b "zpopmax", b "zpopmin", b "zrandmember", b "zrange", b "zunion"]

/-- every row of the handler table outside the exception list and the nested listings returns only
    well-formed success replies of depth ≤ 2 -/
theorem table_wf : ∀ e ∈ handlerTable, e.1 ∉ wfExceptions ++ wfNested → ∀ (c : Ctx) (cmd : List Bytes), (e.2 c cmd).AllRet Res.WFok := by
  unfold handlerTable
  simp only [List.forall_mem_cons, List.not_mem_nil, false_imp_iff, implies_true, and_true]
  exact ⟨fun h => (h (by decide)).elim,
    fun _ c cmd => handleMSet_wf c cmd,
    fun h => (h (by decide)).elim,
    fun h => (h (by decide)).elim,
    fun _ c cmd => handleDel_wf c cmd,
    fun _ c cmd => handlePersist_wf c cmd,
    fun _ c cmd => handleExpireTime_wf c cmd,
    fun _ c cmd => handleExpireTime_wf c cmd,
    fun _ c cmd => handleTTL_wf c cmd,
    fun _ c cmd => handleTTL_wf c cmd,
    fun _ c cmd => handleExpire_wf c cmd,
    fun _ c cmd => handleExpire_wf c cmd,
    fun _ c cmd => handleExpireAt_wf c cmd,
    fun _ c cmd => handleExpireAt_wf c cmd,
    fun _ c cmd => handleIncr_wf c cmd,
    fun _ c cmd => handleDecr_wf c cmd,
    fun _ c cmd => handleIncrBy_wf c cmd,
    fun _ c cmd => handleDecrBy_wf c cmd,
    fun _ c cmd => handleIncrByFloat_wf c cmd,
    fun _ c cmd => handleRename_wf c cmd,
    fun _ c cmd => handleFlush_wf c cmd,
    fun _ c cmd => handleFlush_wf c cmd,
    fun h => (h (by decide)).elim,
    fun h => (h (by decide)).elim,
    fun _ c cmd => handleType_wf c cmd,
    fun _ c cmd => handleSetRange_wf c cmd,
    fun _ c cmd => handleStrLen_wf c cmd,
    fun _ c cmd => handleSubStr_wf c cmd,
    fun _ c cmd => handleSubStr_wf c cmd,
    fun _ c cmd => handleAppend_wf c cmd,
    fun _ c cmd => handlePush_wf _ c cmd,
    fun _ c cmd => handlePush_wf _ c cmd,
    fun _ c cmd => handlePush_wf _ c cmd,
    fun _ c cmd => handlePush_wf _ c cmd,
    fun _ c cmd => handlePop_wf c cmd,
    fun _ c cmd => handlePop_wf c cmd,
    fun _ c cmd => handleLLen_wf c cmd,
    fun _ c cmd => handleLRange_wf c cmd,
    fun _ c cmd => handleLIndex_wf c cmd,
    fun _ c cmd => handleLSet_wf c cmd,
    fun _ c cmd => handleLTrim_wf c cmd,
    fun _ c cmd => handleLRem_wf c cmd,
    fun _ c cmd => handleLMove_wf c cmd,
    fun _ c cmd => handleHSet_wf c cmd,
    fun _ c cmd => handleHSet_wf c cmd,
    fun _ c cmd => handleHGet_wf c cmd,
    fun _ c cmd => handleHGet_wf c cmd,
    fun _ c cmd => handleHStrLen_wf c cmd,
    fun _ c cmd => handleHVals_wf c cmd,
    fun _ c cmd => handleHRandField_wf c cmd,
    fun _ c cmd => handleHLen_wf c cmd,
    fun _ c cmd => handleHKeys_wf c cmd,
    fun _ c cmd => handleHIncrBy_wf c cmd,
    fun _ c cmd => handleHIncrBy_wf c cmd,
    fun _ c cmd => handleHGetAll_wf c cmd,
    fun _ c cmd => handleHExists_wf c cmd,
    fun _ c cmd => handleHDel_wf c cmd,
    fun _ c cmd => handleSAdd_wf c cmd,
    fun _ c cmd => handleSCard_wf c cmd,
    fun _ c cmd => handleSDiff_wf _ c cmd,
    fun _ c cmd => handleSDiff_wf _ c cmd,
    fun _ c cmd => handleSInter_wf _ c cmd,
    fun _ c cmd => handleSInter_wf _ c cmd,
    fun _ c cmd => handleSInter_wf _ c cmd,
    fun _ c cmd => handleSIsMember_wf c cmd,
    fun _ c cmd => handleSMembers_wf c cmd,
    fun _ c cmd => handleSMIsMember_wf c cmd,
    fun _ c cmd => handleSMove_wf c cmd,
    fun _ c cmd => handleSPop_wf c cmd,
    fun _ c cmd => handleSRandMember_wf c cmd,
    fun _ c cmd => handleSRem_wf c cmd,
    fun _ c cmd => handleSUnion_wf _ c cmd,
    fun _ c cmd => handleSUnion_wf _ c cmd,
    fun _ c cmd => handleSelect_wf c cmd,
    fun _ c cmd => handleSwapDB_wf c cmd,
    fun _ c cmd => handlePing_wf c cmd,
    fun _ c cmd => handleEcho_wf c cmd,
    fun _ c cmd => handleZAdd_wf c cmd,
    fun _ c cmd => handleZCard_wf c cmd,
    fun _ c cmd => handleZCount_wf c cmd,
    fun h => (h (by decide)).elim,
    fun _ c cmd => handleZDiffStore_wf c cmd,
    fun _ c cmd => handleZIncrBy_wf c cmd,
    fun h => (h (by decide)).elim,
    fun _ c cmd => handleZCombineStore_wf _ c cmd,
    fun h => (h (by decide)).elim,
    fun _ c cmd => handleZMScore_wf c cmd,
    fun h => (h (by decide)).elim,
    fun h => (h (by decide)).elim,
    fun h => (h (by decide)).elim,
    fun _ c cmd => handleZRank_wf c cmd,
    fun _ c cmd => handleZRank_wf c cmd,
    fun _ c cmd => handleZRem_wf c cmd,
    fun _ c cmd => handleZScore_wf c cmd,
    fun _ c cmd => handleZRemRangeByLex_wf c cmd,
    fun _ c cmd => handleZRemRangeByRank_wf c cmd,
    fun _ c cmd => handleZRemRangeByScore_wf c cmd,
    fun _ c cmd => handleZLexCount_wf c cmd,
    fun h => (h (by decide)).elim,
    fun _ c cmd => handleZRangeStore_wf c cmd,
    fun h => (h (by decide)).elim,
    fun _ c cmd => handleZCombineStore_wf _ c cmd⟩

/-- every row of the handler table outside the exception list returns only well-formed success replies
    (depth ≤ 3) -/
theorem table_wf3 : ∀ e ∈ handlerTable, e.1 ∉ wfExceptions → ∀ (c : Ctx) (cmd : List Bytes), (e.2 c cmd).AllRet Res.WFok3 := by
  unfold handlerTable
  simp only [List.forall_mem_cons, List.not_mem_nil, false_imp_iff, implies_true, and_true]
  exact ⟨fun h => (h (by decide)).elim,
    fun _ c cmd => allRet_to3 (handleMSet_wf c cmd),
    fun h => (h (by decide)).elim,
    fun h => (h (by decide)).elim,
    fun _ c cmd => allRet_to3 (handleDel_wf c cmd),
    fun _ c cmd => allRet_to3 (handlePersist_wf c cmd),
    fun _ c cmd => allRet_to3 (handleExpireTime_wf c cmd),
    fun _ c cmd => allRet_to3 (handleExpireTime_wf c cmd),
    fun _ c cmd => allRet_to3 (handleTTL_wf c cmd),
    fun _ c cmd => allRet_to3 (handleTTL_wf c cmd),
    fun _ c cmd => allRet_to3 (handleExpire_wf c cmd),
    fun _ c cmd => allRet_to3 (handleExpire_wf c cmd),
    fun _ c cmd => allRet_to3 (handleExpireAt_wf c cmd),
    fun _ c cmd => allRet_to3 (handleExpireAt_wf c cmd),
    fun _ c cmd => allRet_to3 (handleIncr_wf c cmd),
    fun _ c cmd => allRet_to3 (handleDecr_wf c cmd),
    fun _ c cmd => allRet_to3 (handleIncrBy_wf c cmd),
    fun _ c cmd => allRet_to3 (handleDecrBy_wf c cmd),
    fun _ c cmd => allRet_to3 (handleIncrByFloat_wf c cmd),
    fun _ c cmd => allRet_to3 (handleRename_wf c cmd),
    fun _ c cmd => allRet_to3 (handleFlush_wf c cmd),
    fun _ c cmd => allRet_to3 (handleFlush_wf c cmd),
    fun h => (h (by decide)).elim,
    fun h => (h (by decide)).elim,
    fun _ c cmd => allRet_to3 (handleType_wf c cmd),
    fun _ c cmd => allRet_to3 (handleSetRange_wf c cmd),
    fun _ c cmd => allRet_to3 (handleStrLen_wf c cmd),
    fun _ c cmd => allRet_to3 (handleSubStr_wf c cmd),
    fun _ c cmd => allRet_to3 (handleSubStr_wf c cmd),
    fun _ c cmd => allRet_to3 (handleAppend_wf c cmd),
    fun _ c cmd => allRet_to3 (handlePush_wf _ c cmd),
    fun _ c cmd => allRet_to3 (handlePush_wf _ c cmd),
    fun _ c cmd => allRet_to3 (handlePush_wf _ c cmd),
    fun _ c cmd => allRet_to3 (handlePush_wf _ c cmd),
    fun _ c cmd => allRet_to3 (handlePop_wf c cmd),
    fun _ c cmd => allRet_to3 (handlePop_wf c cmd),
    fun _ c cmd => allRet_to3 (handleLLen_wf c cmd),
    fun _ c cmd => allRet_to3 (handleLRange_wf c cmd),
    fun _ c cmd => allRet_to3 (handleLIndex_wf c cmd),
    fun _ c cmd => allRet_to3 (handleLSet_wf c cmd),
    fun _ c cmd => allRet_to3 (handleLTrim_wf c cmd),
    fun _ c cmd => allRet_to3 (handleLRem_wf c cmd),
    fun _ c cmd => allRet_to3 (handleLMove_wf c cmd),
    fun _ c cmd => allRet_to3 (handleHSet_wf c cmd),
    fun _ c cmd => allRet_to3 (handleHSet_wf c cmd),
    fun _ c cmd => allRet_to3 (handleHGet_wf c cmd),
    fun _ c cmd => allRet_to3 (handleHGet_wf c cmd),
    fun _ c cmd => allRet_to3 (handleHStrLen_wf c cmd),
    fun _ c cmd => allRet_to3 (handleHVals_wf c cmd),
    fun _ c cmd => allRet_to3 (handleHRandField_wf c cmd),
    fun _ c cmd => allRet_to3 (handleHLen_wf c cmd),
    fun _ c cmd => allRet_to3 (handleHKeys_wf c cmd),
    fun _ c cmd => allRet_to3 (handleHIncrBy_wf c cmd),
    fun _ c cmd => allRet_to3 (handleHIncrBy_wf c cmd),
    fun _ c cmd => allRet_to3 (handleHGetAll_wf c cmd),
    fun _ c cmd => allRet_to3 (handleHExists_wf c cmd),
    fun _ c cmd => allRet_to3 (handleHDel_wf c cmd),
    fun _ c cmd => allRet_to3 (handleSAdd_wf c cmd),
    fun _ c cmd => allRet_to3 (handleSCard_wf c cmd),
    fun _ c cmd => allRet_to3 (handleSDiff_wf _ c cmd),
    fun _ c cmd => allRet_to3 (handleSDiff_wf _ c cmd),
    fun _ c cmd => allRet_to3 (handleSInter_wf _ c cmd),
    fun _ c cmd => allRet_to3 (handleSInter_wf _ c cmd),
    fun _ c cmd => allRet_to3 (handleSInter_wf _ c cmd),
    fun _ c cmd => allRet_to3 (handleSIsMember_wf c cmd),
    fun _ c cmd => allRet_to3 (handleSMembers_wf c cmd),
    fun _ c cmd => allRet_to3 (handleSMIsMember_wf c cmd),
    fun _ c cmd => allRet_to3 (handleSMove_wf c cmd),
    fun _ c cmd => allRet_to3 (handleSPop_wf c cmd),
    fun _ c cmd => allRet_to3 (handleSRandMember_wf c cmd),
    fun _ c cmd => allRet_to3 (handleSRem_wf c cmd),
    fun _ c cmd => allRet_to3 (handleSUnion_wf _ c cmd),
    fun _ c cmd => allRet_to3 (handleSUnion_wf _ c cmd),
    fun _ c cmd => allRet_to3 (handleSelect_wf c cmd),
    fun _ c cmd => allRet_to3 (handleSwapDB_wf c cmd),
    fun _ c cmd => allRet_to3 (handlePing_wf c cmd),
    fun _ c cmd => allRet_to3 (handleEcho_wf c cmd),
    fun _ c cmd => allRet_to3 (handleZAdd_wf c cmd),
    fun _ c cmd => allRet_to3 (handleZCard_wf c cmd),
    fun _ c cmd => allRet_to3 (handleZCount_wf c cmd),
    fun _ c cmd => handleZDiff_wf3 _ c cmd,
    fun _ c cmd => allRet_to3 (handleZDiffStore_wf c cmd),
    fun _ c cmd => allRet_to3 (handleZIncrBy_wf c cmd),
    fun _ c cmd => handleZCombine_wf3 _ _ c cmd,
    fun _ c cmd => allRet_to3 (handleZCombineStore_wf _ c cmd),
    fun _ c cmd => handleZMPop_wf3 c cmd,
    fun _ c cmd => allRet_to3 (handleZMScore_wf c cmd),
    fun _ c cmd => handleZPop_wf3 c cmd,
    fun _ c cmd => handleZPop_wf3 c cmd,
    fun _ c cmd => handleZRandMember_wf3 c cmd,
    fun _ c cmd => allRet_to3 (handleZRank_wf c cmd),
    fun _ c cmd => allRet_to3 (handleZRank_wf c cmd),
    fun _ c cmd => allRet_to3 (handleZRem_wf c cmd),
    fun _ c cmd => allRet_to3 (handleZScore_wf c cmd),
    fun _ c cmd => allRet_to3 (handleZRemRangeByLex_wf c cmd),
    fun _ c cmd => allRet_to3 (handleZRemRangeByRank_wf c cmd),
    fun _ c cmd => allRet_to3 (handleZRemRangeByScore_wf c cmd),
    fun _ c cmd => allRet_to3 (handleZLexCount_wf c cmd),
    fun _ c cmd => handleZRange_wf3 c cmd,
    fun _ c cmd => allRet_to3 (handleZRangeStore_wf c cmd),
    fun _ c cmd => handleZCombine_wf3 _ _ c cmd,
    fun _ c cmd => allRet_to3 (handleZCombineStore_wf _ c cmd)⟩

/-- the one malformed reply shape the modelled handlers can emit: stored text echoed as a simple string -/
def KnownBad (r : Res) : Prop := SimpleDirty r

theorem allRetP_mono {α : Type} {P Q : α → Prop} (h : ∀ a, P a → Q a) :
    ∀ p : Prog α, p.AllRetP P → p.AllRetP Q := by
  intro p
  induction p with
  | ret a => exact h a
  | call q k ih => intro hp r hr; exact ih r (hp r hr)
  | panic w => intro _; trivial
  | unmod w => intro _; trivial

/-- every row of the handler table: a success reply is well-formed, or a simple string echoing stored bytes
    with CR/LF inside -/
theorem table_known : ∀ e ∈ handlerTable, ∀ (c : Ctx) (cmd : List Bytes), (e.2 c cmd).AllRetP (Res.WFx3 KnownBad) := by
  have full : ∀ {p : Prog Res}, p.AllRet Res.WFok → p.AllRetP (Res.WFx3 KnownBad) :=
    fun h => (allRet_mono (fun _ hr => Or.inl hr.to3) _ h).toP
  have nested : ∀ {p : Prog Res}, p.AllRet Res.WFok3 → p.AllRetP (Res.WFx3 KnownBad) :=
    fun h => (allRet_mono (fun _ hr => Or.inl hr) _ h).toP
  have dirty : ∀ {p : Prog Res}, p.AllRet (Res.WFx SimpleDirty) → p.AllRetP (Res.WFx3 KnownBad) :=
    fun h => (allRet_mono (fun _ hr => hr.elim (fun w => Or.inl w.to3) (fun e => Or.inr e)) _ h).toP
  unfold handlerTable
  simp only [List.forall_mem_cons, List.not_mem_nil, false_imp_iff, implies_true, and_true]
  exact ⟨fun c cmd => dirty (handleSet_wf_partial c cmd),
    fun c cmd => full (handleMSet_wf c cmd),
    fun c cmd => dirty (handleGet_wf_partial c cmd),
    fun c cmd => allRetP_mono (fun _ h => Or.inl h.to3) _ (handleMGet_wfP c cmd),
    fun c cmd => full (handleDel_wf c cmd),
    fun c cmd => full (handlePersist_wf c cmd),
    fun c cmd => full (handleExpireTime_wf c cmd),
    fun c cmd => full (handleExpireTime_wf c cmd),
    fun c cmd => full (handleTTL_wf c cmd),
    fun c cmd => full (handleTTL_wf c cmd),
    fun c cmd => full (handleExpire_wf c cmd),
    fun c cmd => full (handleExpire_wf c cmd),
    fun c cmd => full (handleExpireAt_wf c cmd),
    fun c cmd => full (handleExpireAt_wf c cmd),
    fun c cmd => full (handleIncr_wf c cmd),
    fun c cmd => full (handleDecr_wf c cmd),
    fun c cmd => full (handleIncrBy_wf c cmd),
    fun c cmd => full (handleDecrBy_wf c cmd),
    fun c cmd => full (handleIncrByFloat_wf c cmd),
    fun c cmd => full (handleRename_wf c cmd),
    fun c cmd => full (handleFlush_wf c cmd),
    fun c cmd => full (handleFlush_wf c cmd),
    fun c cmd => dirty (handleGetdel_wf_partial c cmd),
    fun c cmd => dirty (handleGetex_wf_partial c cmd),
    fun c cmd => full (handleType_wf c cmd),
    fun c cmd => full (handleSetRange_wf c cmd),
    fun c cmd => full (handleStrLen_wf c cmd),
    fun c cmd => full (handleSubStr_wf c cmd),
    fun c cmd => full (handleSubStr_wf c cmd),
    fun c cmd => full (handleAppend_wf c cmd),
    fun c cmd => full (handlePush_wf _ c cmd),
    fun c cmd => full (handlePush_wf _ c cmd),
    fun c cmd => full (handlePush_wf _ c cmd),
    fun c cmd => full (handlePush_wf _ c cmd),
    fun c cmd => full (handlePop_wf c cmd),
    fun c cmd => full (handlePop_wf c cmd),
    fun c cmd => full (handleLLen_wf c cmd),
    fun c cmd => full (handleLRange_wf c cmd),
    fun c cmd => full (handleLIndex_wf c cmd),
    fun c cmd => full (handleLSet_wf c cmd),
    fun c cmd => full (handleLTrim_wf c cmd),
    fun c cmd => full (handleLRem_wf c cmd),
    fun c cmd => full (handleLMove_wf c cmd),
    fun c cmd => full (handleHSet_wf c cmd),
    fun c cmd => full (handleHSet_wf c cmd),
    fun c cmd => full (handleHGet_wf c cmd),
    fun c cmd => full (handleHGet_wf c cmd),
    fun c cmd => full (handleHStrLen_wf c cmd),
    fun c cmd => full (handleHVals_wf c cmd),
    fun c cmd => full (handleHRandField_wf c cmd),
    fun c cmd => full (handleHLen_wf c cmd),
    fun c cmd => full (handleHKeys_wf c cmd),
    fun c cmd => full (handleHIncrBy_wf c cmd),
    fun c cmd => full (handleHIncrBy_wf c cmd),
    fun c cmd => full (handleHGetAll_wf c cmd),
    fun c cmd => full (handleHExists_wf c cmd),
    fun c cmd => full (handleHDel_wf c cmd),
    fun c cmd => full (handleSAdd_wf c cmd),
    fun c cmd => full (handleSCard_wf c cmd),
    fun c cmd => full (handleSDiff_wf _ c cmd),
    fun c cmd => full (handleSDiff_wf _ c cmd),
    fun c cmd => full (handleSInter_wf _ c cmd),
    fun c cmd => full (handleSInter_wf _ c cmd),
    fun c cmd => full (handleSInter_wf _ c cmd),
    fun c cmd => full (handleSIsMember_wf c cmd),
    fun c cmd => full (handleSMembers_wf c cmd),
    fun c cmd => full (handleSMIsMember_wf c cmd),
    fun c cmd => full (handleSMove_wf c cmd),
    fun c cmd => full (handleSPop_wf c cmd),
    fun c cmd => full (handleSRandMember_wf c cmd),
    fun c cmd => full (handleSRem_wf c cmd),
    fun c cmd => full (handleSUnion_wf _ c cmd),
    fun c cmd => full (handleSUnion_wf _ c cmd),
    fun c cmd => full (handleSelect_wf c cmd),
    fun c cmd => full (handleSwapDB_wf c cmd),
    fun c cmd => full (handlePing_wf c cmd),
    fun c cmd => full (handleEcho_wf c cmd),
    fun c cmd => full (handleZAdd_wf c cmd),
    fun c cmd => full (handleZCard_wf c cmd),
    fun c cmd => full (handleZCount_wf c cmd),
    fun c cmd => nested (handleZDiff_wf3 _ c cmd),
    fun c cmd => full (handleZDiffStore_wf c cmd),
    fun c cmd => full (handleZIncrBy_wf c cmd),
    fun c cmd => nested (handleZCombine_wf3 _ _ c cmd),
    fun c cmd => full (handleZCombineStore_wf _ c cmd),
    fun c cmd => nested (handleZMPop_wf3 c cmd),
    fun c cmd => full (handleZMScore_wf c cmd),
    fun c cmd => nested (handleZPop_wf3 c cmd),
    fun c cmd => nested (handleZPop_wf3 c cmd),
    fun c cmd => nested (handleZRandMember_wf3 c cmd),
    fun c cmd => full (handleZRank_wf c cmd),
    fun c cmd => full (handleZRank_wf c cmd),
    fun c cmd => full (handleZRem_wf c cmd),
    fun c cmd => full (handleZScore_wf c cmd),
    fun c cmd => full (handleZRemRangeByLex_wf c cmd),
    fun c cmd => full (handleZRemRangeByRank_wf c cmd),
    fun c cmd => full (handleZRemRangeByScore_wf c cmd),
    fun c cmd => full (handleZLexCount_wf c cmd),
    fun c cmd => nested (handleZRange_wf3 c cmd),
    fun c cmd => full (handleZRangeStore_wf c cmd),
    fun c cmd => nested (handleZCombine_wf3 _ _ c cmd),
    fun c cmd => full (handleZCombineStore_wf _ c cmd)⟩

/-- run-level form: whatever the state, a handler that completes answers a well-formed reply or the
    known malformed shape -/
theorem table_known_run : ∀ e ∈ handlerTable, ∀ (c : Ctx) (cmd : List Bytes) (s : State) (r : Res),
    ((e.2 c cmd).run c s).2 = .done r → Res.WFok3 r ∨ SimpleDirty r :=
  fun e he c cmd s r h => allRetP_run _ c _ s (table_known e he c cmd) r h

/-- command words whose handler really can answer a malformed success reply (witnesses in `Lemmas.WFWitness`) -/
def wfMalformed : List Bytes := [b "set", b "get", b "getdel", b "getex"]

/-- run-level table theorem: outside the four words of `wfMalformed` (so including MGET), whatever the state,
    a handler that completes answers exactly one well-formed RESP value -/
theorem table_wf_run : ∀ e ∈ handlerTable, e.1 ∉ wfMalformed → ∀ (c : Ctx) (cmd : List Bytes) (s : State) (r : Res),
    ((e.2 c cmd).run c s).2 = .done r → Res.WFok3 r := by
  unfold handlerTable
  simp only [List.forall_mem_cons, List.not_mem_nil, false_imp_iff, implies_true, and_true]
  exact ⟨fun h => (h (by decide)).elim,
    fun _ c cmd s r h => allRet_run _ c _ s (allRet_to3 (handleMSet_wf c cmd)) r h,
    fun h => (h (by decide)).elim,
    fun _ c cmd s r h => (handleMGet_wf_run c cmd s r h).to3,
    fun _ c cmd s r h => allRet_run _ c _ s (allRet_to3 (handleDel_wf c cmd)) r h,
    fun _ c cmd s r h => allRet_run _ c _ s (allRet_to3 (handlePersist_wf c cmd)) r h,
    fun _ c cmd s r h => allRet_run _ c _ s (allRet_to3 (handleExpireTime_wf c cmd)) r h,
    fun _ c cmd s r h => allRet_run _ c _ s (allRet_to3 (handleExpireTime_wf c cmd)) r h,
    fun _ c cmd s r h => allRet_run _ c _ s (allRet_to3 (handleTTL_wf c cmd)) r h,
    fun _ c cmd s r h => allRet_run _ c _ s (allRet_to3 (handleTTL_wf c cmd)) r h,
    fun _ c cmd s r h => allRet_run _ c _ s (allRet_to3 (handleExpire_wf c cmd)) r h,
    fun _ c cmd s r h => allRet_run _ c _ s (allRet_to3 (handleExpire_wf c cmd)) r h,
    fun _ c cmd s r h => allRet_run _ c _ s (allRet_to3 (handleExpireAt_wf c cmd)) r h,
    fun _ c cmd s r h => allRet_run _ c _ s (allRet_to3 (handleExpireAt_wf c cmd)) r h,
    fun _ c cmd s r h => allRet_run _ c _ s (allRet_to3 (handleIncr_wf c cmd)) r h,
    fun _ c cmd s r h => allRet_run _ c _ s (allRet_to3 (handleDecr_wf c cmd)) r h,
    fun _ c cmd s r h => allRet_run _ c _ s (allRet_to3 (handleIncrBy_wf c cmd)) r h,
    fun _ c cmd s r h => allRet_run _ c _ s (allRet_to3 (handleDecrBy_wf c cmd)) r h,
    fun _ c cmd s r h => allRet_run _ c _ s (allRet_to3 (handleIncrByFloat_wf c cmd)) r h,
    fun _ c cmd s r h => allRet_run _ c _ s (allRet_to3 (handleRename_wf c cmd)) r h,
    fun _ c cmd s r h => allRet_run _ c _ s (allRet_to3 (handleFlush_wf c cmd)) r h,
    fun _ c cmd s r h => allRet_run _ c _ s (allRet_to3 (handleFlush_wf c cmd)) r h,
    fun h => (h (by decide)).elim,
    fun h => (h (by decide)).elim,
    fun _ c cmd s r h => allRet_run _ c _ s (allRet_to3 (handleType_wf c cmd)) r h,
    fun _ c cmd s r h => allRet_run _ c _ s (allRet_to3 (handleSetRange_wf c cmd)) r h,
    fun _ c cmd s r h => allRet_run _ c _ s (allRet_to3 (handleStrLen_wf c cmd)) r h,
    fun _ c cmd s r h => allRet_run _ c _ s (allRet_to3 (handleSubStr_wf c cmd)) r h,
    fun _ c cmd s r h => allRet_run _ c _ s (allRet_to3 (handleSubStr_wf c cmd)) r h,
    fun _ c cmd s r h => allRet_run _ c _ s (allRet_to3 (handleAppend_wf c cmd)) r h,
    fun _ c cmd s r h => allRet_run _ c _ s (allRet_to3 (handlePush_wf _ c cmd)) r h,
    fun _ c cmd s r h => allRet_run _ c _ s (allRet_to3 (handlePush_wf _ c cmd)) r h,
    fun _ c cmd s r h => allRet_run _ c _ s (allRet_to3 (handlePush_wf _ c cmd)) r h,
    fun _ c cmd s r h => allRet_run _ c _ s (allRet_to3 (handlePush_wf _ c cmd)) r h,
    fun _ c cmd s r h => allRet_run _ c _ s (allRet_to3 (handlePop_wf c cmd)) r h,
    fun _ c cmd s r h => allRet_run _ c _ s (allRet_to3 (handlePop_wf c cmd)) r h,
    fun _ c cmd s r h => allRet_run _ c _ s (allRet_to3 (handleLLen_wf c cmd)) r h,
    fun _ c cmd s r h => allRet_run _ c _ s (allRet_to3 (handleLRange_wf c cmd)) r h,
    fun _ c cmd s r h => allRet_run _ c _ s (allRet_to3 (handleLIndex_wf c cmd)) r h,
    fun _ c cmd s r h => allRet_run _ c _ s (allRet_to3 (handleLSet_wf c cmd)) r h,
    fun _ c cmd s r h => allRet_run _ c _ s (allRet_to3 (handleLTrim_wf c cmd)) r h,
    fun _ c cmd s r h => allRet_run _ c _ s (allRet_to3 (handleLRem_wf c cmd)) r h,
    fun _ c cmd s r h => allRet_run _ c _ s (allRet_to3 (handleLMove_wf c cmd)) r h,
    fun _ c cmd s r h => allRet_run _ c _ s (allRet_to3 (handleHSet_wf c cmd)) r h,
    fun _ c cmd s r h => allRet_run _ c _ s (allRet_to3 (handleHSet_wf c cmd)) r h,
    fun _ c cmd s r h => allRet_run _ c _ s (allRet_to3 (handleHGet_wf c cmd)) r h,
    fun _ c cmd s r h => allRet_run _ c _ s (allRet_to3 (handleHGet_wf c cmd)) r h,
    fun _ c cmd s r h => allRet_run _ c _ s (allRet_to3 (handleHStrLen_wf c cmd)) r h,
    fun _ c cmd s r h => allRet_run _ c _ s (allRet_to3 (handleHVals_wf c cmd)) r h,
    fun _ c cmd s r h => allRet_run _ c _ s (allRet_to3 (handleHRandField_wf c cmd)) r h,
    fun _ c cmd s r h => allRet_run _ c _ s (allRet_to3 (handleHLen_wf c cmd)) r h,
    fun _ c cmd s r h => allRet_run _ c _ s (allRet_to3 (handleHKeys_wf c cmd)) r h,
    fun _ c cmd s r h => allRet_run _ c _ s (allRet_to3 (handleHIncrBy_wf c cmd)) r h,
    fun _ c cmd s r h => allRet_run _ c _ s (allRet_to3 (handleHIncrBy_wf c cmd)) r h,
    fun _ c cmd s r h => allRet_run _ c _ s (allRet_to3 (handleHGetAll_wf c cmd)) r h,
    fun _ c cmd s r h => allRet_run _ c _ s (allRet_to3 (handleHExists_wf c cmd)) r h,
    fun _ c cmd s r h => allRet_run _ c _ s (allRet_to3 (handleHDel_wf c cmd)) r h,
    fun _ c cmd s r h => allRet_run _ c _ s (allRet_to3 (handleSAdd_wf c cmd)) r h,
    fun _ c cmd s r h => allRet_run _ c _ s (allRet_to3 (handleSCard_wf c cmd)) r h,
    fun _ c cmd s r h => allRet_run _ c _ s (allRet_to3 (handleSDiff_wf _ c cmd)) r h,
    fun _ c cmd s r h => allRet_run _ c _ s (allRet_to3 (handleSDiff_wf _ c cmd)) r h,
    fun _ c cmd s r h => allRet_run _ c _ s (allRet_to3 (handleSInter_wf _ c cmd)) r h,
    fun _ c cmd s r h => allRet_run _ c _ s (allRet_to3 (handleSInter_wf _ c cmd)) r h,
    fun _ c cmd s r h => allRet_run _ c _ s (allRet_to3 (handleSInter_wf _ c cmd)) r h,
    fun _ c cmd s r h => allRet_run _ c _ s (allRet_to3 (handleSIsMember_wf c cmd)) r h,
    fun _ c cmd s r h => allRet_run _ c _ s (allRet_to3 (handleSMembers_wf c cmd)) r h,
    fun _ c cmd s r h => allRet_run _ c _ s (allRet_to3 (handleSMIsMember_wf c cmd)) r h,
    fun _ c cmd s r h => allRet_run _ c _ s (allRet_to3 (handleSMove_wf c cmd)) r h,
    fun _ c cmd s r h => allRet_run _ c _ s (allRet_to3 (handleSPop_wf c cmd)) r h,
    fun _ c cmd s r h => allRet_run _ c _ s (allRet_to3 (handleSRandMember_wf c cmd)) r h,
    fun _ c cmd s r h => allRet_run _ c _ s (allRet_to3 (handleSRem_wf c cmd)) r h,
    fun _ c cmd s r h => allRet_run _ c _ s (allRet_to3 (handleSUnion_wf _ c cmd)) r h,
    fun _ c cmd s r h => allRet_run _ c _ s (allRet_to3 (handleSUnion_wf _ c cmd)) r h,
    fun _ c cmd s r h => allRet_run _ c _ s (allRet_to3 (handleSelect_wf c cmd)) r h,
    fun _ c cmd s r h => allRet_run _ c _ s (allRet_to3 (handleSwapDB_wf c cmd)) r h,
    fun _ c cmd s r h => allRet_run _ c _ s (allRet_to3 (handlePing_wf c cmd)) r h,
    fun _ c cmd s r h => allRet_run _ c _ s (allRet_to3 (handleEcho_wf c cmd)) r h,
    fun _ c cmd s r h => allRet_run _ c _ s (allRet_to3 (handleZAdd_wf c cmd)) r h,
    fun _ c cmd s r h => allRet_run _ c _ s (allRet_to3 (handleZCard_wf c cmd)) r h,
    fun _ c cmd s r h => allRet_run _ c _ s (allRet_to3 (handleZCount_wf c cmd)) r h,
    fun _ c cmd s r h => allRet_run _ c _ s (handleZDiff_wf3 _ c cmd) r h,
    fun _ c cmd s r h => allRet_run _ c _ s (allRet_to3 (handleZDiffStore_wf c cmd)) r h,
    fun _ c cmd s r h => allRet_run _ c _ s (allRet_to3 (handleZIncrBy_wf c cmd)) r h,
    fun _ c cmd s r h => allRet_run _ c _ s (handleZCombine_wf3 _ _ c cmd) r h,
    fun _ c cmd s r h => allRet_run _ c _ s (allRet_to3 (handleZCombineStore_wf _ c cmd)) r h,
    fun _ c cmd s r h => allRet_run _ c _ s (handleZMPop_wf3 c cmd) r h,
    fun _ c cmd s r h => allRet_run _ c _ s (allRet_to3 (handleZMScore_wf c cmd)) r h,
    fun _ c cmd s r h => allRet_run _ c _ s (handleZPop_wf3 c cmd) r h,
    fun _ c cmd s r h => allRet_run _ c _ s (handleZPop_wf3 c cmd) r h,
    fun _ c cmd s r h => allRet_run _ c _ s (handleZRandMember_wf3 c cmd) r h,
    fun _ c cmd s r h => allRet_run _ c _ s (allRet_to3 (handleZRank_wf c cmd)) r h,
    fun _ c cmd s r h => allRet_run _ c _ s (allRet_to3 (handleZRank_wf c cmd)) r h,
    fun _ c cmd s r h => allRet_run _ c _ s (allRet_to3 (handleZRem_wf c cmd)) r h,
    fun _ c cmd s r h => allRet_run _ c _ s (allRet_to3 (handleZScore_wf c cmd)) r h,
    fun _ c cmd s r h => allRet_run _ c _ s (allRet_to3 (handleZRemRangeByLex_wf c cmd)) r h,
    fun _ c cmd s r h => allRet_run _ c _ s (allRet_to3 (handleZRemRangeByRank_wf c cmd)) r h,
    fun _ c cmd s r h => allRet_run _ c _ s (allRet_to3 (handleZRemRangeByScore_wf c cmd)) r h,
    fun _ c cmd s r h => allRet_run _ c _ s (allRet_to3 (handleZLexCount_wf c cmd)) r h,
    fun _ c cmd s r h => allRet_run _ c _ s (handleZRange_wf3 c cmd) r h,
    fun _ c cmd s r h => allRet_run _ c _ s (allRet_to3 (handleZRangeStore_wf c cmd)) r h,
    fun _ c cmd s r h => allRet_run _ c _ s (handleZCombine_wf3 _ _ c cmd) r h,
    fun _ c cmd s r h => allRet_run _ c _ s (allRet_to3 (handleZCombineStore_wf _ c cmd)) r h⟩

/-- the depth-2 refinement: outside `wfMalformed` and the nested listings the value has depth ≤ 2 -/
theorem table_wf2_run : ∀ e ∈ handlerTable, e.1 ∉ wfMalformed ++ wfNested → ∀ (c : Ctx) (cmd : List Bytes) (s : State) (r : Res),
    ((e.2 c cmd).run c s).2 = .done r → Res.WFok r := by
  unfold handlerTable
  simp only [List.forall_mem_cons, List.not_mem_nil, false_imp_iff, implies_true, and_true]
  exact ⟨fun h => (h (by decide)).elim,
    fun _ c cmd s r h => allRet_run _ c _ s (handleMSet_wf c cmd) r h,
    fun h => (h (by decide)).elim,
    fun _ c cmd s r h => handleMGet_wf_run c cmd s r h,
    fun _ c cmd s r h => allRet_run _ c _ s (handleDel_wf c cmd) r h,
    fun _ c cmd s r h => allRet_run _ c _ s (handlePersist_wf c cmd) r h,
    fun _ c cmd s r h => allRet_run _ c _ s (handleExpireTime_wf c cmd) r h,
    fun _ c cmd s r h => allRet_run _ c _ s (handleExpireTime_wf c cmd) r h,
    fun _ c cmd s r h => allRet_run _ c _ s (handleTTL_wf c cmd) r h,
    fun _ c cmd s r h => allRet_run _ c _ s (handleTTL_wf c cmd) r h,
    fun _ c cmd s r h => allRet_run _ c _ s (handleExpire_wf c cmd) r h,
    fun _ c cmd s r h => allRet_run _ c _ s (handleExpire_wf c cmd) r h,
    fun _ c cmd s r h => allRet_run _ c _ s (handleExpireAt_wf c cmd) r h,
    fun _ c cmd s r h => allRet_run _ c _ s (handleExpireAt_wf c cmd) r h,
    fun _ c cmd s r h => allRet_run _ c _ s (handleIncr_wf c cmd) r h,
    fun _ c cmd s r h => allRet_run _ c _ s (handleDecr_wf c cmd) r h,
    fun _ c cmd s r h => allRet_run _ c _ s (handleIncrBy_wf c cmd) r h,
    fun _ c cmd s r h => allRet_run _ c _ s (handleDecrBy_wf c cmd) r h,
    fun _ c cmd s r h => allRet_run _ c _ s (handleIncrByFloat_wf c cmd) r h,
    fun _ c cmd s r h => allRet_run _ c _ s (handleRename_wf c cmd) r h,
    fun _ c cmd s r h => allRet_run _ c _ s (handleFlush_wf c cmd) r h,
    fun _ c cmd s r h => allRet_run _ c _ s (handleFlush_wf c cmd) r h,
    fun h => (h (by decide)).elim,
    fun h => (h (by decide)).elim,
    fun _ c cmd s r h => allRet_run _ c _ s (handleType_wf c cmd) r h,
    fun _ c cmd s r h => allRet_run _ c _ s (handleSetRange_wf c cmd) r h,
    fun _ c cmd s r h => allRet_run _ c _ s (handleStrLen_wf c cmd) r h,
    fun _ c cmd s r h => allRet_run _ c _ s (handleSubStr_wf c cmd) r h,
    fun _ c cmd s r h => allRet_run _ c _ s (handleSubStr_wf c cmd) r h,
    fun _ c cmd s r h => allRet_run _ c _ s (handleAppend_wf c cmd) r h,
    fun _ c cmd s r h => allRet_run _ c _ s (handlePush_wf _ c cmd) r h,
    fun _ c cmd s r h => allRet_run _ c _ s (handlePush_wf _ c cmd) r h,
    fun _ c cmd s r h => allRet_run _ c _ s (handlePush_wf _ c cmd) r h,
    fun _ c cmd s r h => allRet_run _ c _ s (handlePush_wf _ c cmd) r h,
    fun _ c cmd s r h => allRet_run _ c _ s (handlePop_wf c cmd) r h,
    fun _ c cmd s r h => allRet_run _ c _ s (handlePop_wf c cmd) r h,
    fun _ c cmd s r h => allRet_run _ c _ s (handleLLen_wf c cmd) r h,
    fun _ c cmd s r h => allRet_run _ c _ s (handleLRange_wf c cmd) r h,
    fun _ c cmd s r h => allRet_run _ c _ s (handleLIndex_wf c cmd) r h,
    fun _ c cmd s r h => allRet_run _ c _ s (handleLSet_wf c cmd) r h,
    fun _ c cmd s r h => allRet_run _ c _ s (handleLTrim_wf c cmd) r h,
    fun _ c cmd s r h => allRet_run _ c _ s (handleLRem_wf c cmd) r h,
    fun _ c cmd s r h => allRet_run _ c _ s (handleLMove_wf c cmd) r h,
    fun _ c cmd s r h => allRet_run _ c _ s (handleHSet_wf c cmd) r h,
    fun _ c cmd s r h => allRet_run _ c _ s (handleHSet_wf c cmd) r h,
    fun _ c cmd s r h => allRet_run _ c _ s (handleHGet_wf c cmd) r h,
    fun _ c cmd s r h => allRet_run _ c _ s (handleHGet_wf c cmd) r h,
    fun _ c cmd s r h => allRet_run _ c _ s (handleHStrLen_wf c cmd) r h,
    fun _ c cmd s r h => allRet_run _ c _ s (handleHVals_wf c cmd) r h,
    fun _ c cmd s r h => allRet_run _ c _ s (handleHRandField_wf c cmd) r h,
    fun _ c cmd s r h => allRet_run _ c _ s (handleHLen_wf c cmd) r h,
    fun _ c cmd s r h => allRet_run _ c _ s (handleHKeys_wf c cmd) r h,
    fun _ c cmd s r h => allRet_run _ c _ s (handleHIncrBy_wf c cmd) r h,
    fun _ c cmd s r h => allRet_run _ c _ s (handleHIncrBy_wf c cmd) r h,
    fun _ c cmd s r h => allRet_run _ c _ s (handleHGetAll_wf c cmd) r h,
    fun _ c cmd s r h => allRet_run _ c _ s (handleHExists_wf c cmd) r h,
    fun _ c cmd s r h => allRet_run _ c _ s (handleHDel_wf c cmd) r h,
    fun _ c cmd s r h => allRet_run _ c _ s (handleSAdd_wf c cmd) r h,
    fun _ c cmd s r h => allRet_run _ c _ s (handleSCard_wf c cmd) r h,
    fun _ c cmd s r h => allRet_run _ c _ s (handleSDiff_wf _ c cmd) r h,
    fun _ c cmd s r h => allRet_run _ c _ s (handleSDiff_wf _ c cmd) r h,
    fun _ c cmd s r h => allRet_run _ c _ s (handleSInter_wf _ c cmd) r h,
    fun _ c cmd s r h => allRet_run _ c _ s (handleSInter_wf _ c cmd) r h,
    fun _ c cmd s r h => allRet_run _ c _ s (handleSInter_wf _ c cmd) r h,
    fun _ c cmd s r h => allRet_run _ c _ s (handleSIsMember_wf c cmd) r h,
    fun _ c cmd s r h => allRet_run _ c _ s (handleSMembers_wf c cmd) r h,
    fun _ c cmd s r h => allRet_run _ c _ s (handleSMIsMember_wf c cmd) r h,
    fun _ c cmd s r h => allRet_run _ c _ s (handleSMove_wf c cmd) r h,
    fun _ c cmd s r h => allRet_run _ c _ s (handleSPop_wf c cmd) r h,
    fun _ c cmd s r h => allRet_run _ c _ s (handleSRandMember_wf c cmd) r h,
    fun _ c cmd s r h => allRet_run _ c _ s (handleSRem_wf c cmd) r h,
    fun _ c cmd s r h => allRet_run _ c _ s (handleSUnion_wf _ c cmd) r h,
    fun _ c cmd s r h => allRet_run _ c _ s (handleSUnion_wf _ c cmd) r h,
    fun _ c cmd s r h => allRet_run _ c _ s (handleSelect_wf c cmd) r h,
    fun _ c cmd s r h => allRet_run _ c _ s (handleSwapDB_wf c cmd) r h,
    fun _ c cmd s r h => allRet_run _ c _ s (handlePing_wf c cmd) r h,
    fun _ c cmd s r h => allRet_run _ c _ s (handleEcho_wf c cmd) r h,
    fun _ c cmd s r h => allRet_run _ c _ s (handleZAdd_wf c cmd) r h,
    fun _ c cmd s r h => allRet_run _ c _ s (handleZCard_wf c cmd) r h,
    fun _ c cmd s r h => allRet_run _ c _ s (handleZCount_wf c cmd) r h,
    fun h => (h (by decide)).elim,
    fun _ c cmd s r h => allRet_run _ c _ s (handleZDiffStore_wf c cmd) r h,
    fun _ c cmd s r h => allRet_run _ c _ s (handleZIncrBy_wf c cmd) r h,
    fun h => (h (by decide)).elim,
    fun _ c cmd s r h => allRet_run _ c _ s (handleZCombineStore_wf _ c cmd) r h,
    fun h => (h (by decide)).elim,
    fun _ c cmd s r h => allRet_run _ c _ s (handleZMScore_wf c cmd) r h,
    fun h => (h (by decide)).elim,
    fun h => (h (by decide)).elim,
    fun h => (h (by decide)).elim,
    fun _ c cmd s r h => allRet_run _ c _ s (handleZRank_wf c cmd) r h,
    fun _ c cmd s r h => allRet_run _ c _ s (handleZRank_wf c cmd) r h,
    fun _ c cmd s r h => allRet_run _ c _ s (handleZRem_wf c cmd) r h,
    fun _ c cmd s r h => allRet_run _ c _ s (handleZScore_wf c cmd) r h,
    fun _ c cmd s r h => allRet_run _ c _ s (handleZRemRangeByLex_wf c cmd) r h,
    fun _ c cmd s r h => allRet_run _ c _ s (handleZRemRangeByRank_wf c cmd) r h,
    fun _ c cmd s r h => allRet_run _ c _ s (handleZRemRangeByScore_wf c cmd) r h,
    fun _ c cmd s r h => allRet_run _ c _ s (handleZLexCount_wf c cmd) r h,
    fun h => (h (by decide)).elim,
    fun _ c cmd s r h => allRet_run _ c _ s (handleZRangeStore_wf c cmd) r h,
    fun h => (h (by decide)).elim,
    fun _ c cmd s r h => allRet_run _ c _ s (handleZCombineStore_wf _ c cmd) r h⟩

/-- the same through the dispatcher -/
theorem progOf_known_run (c : Ctx) (cmd : List Bytes) (p : Prog Res) (hp : progOf c cmd = some p)
    (s : State) (r : Res) (h : (p.run c s).2 = .done r) : Res.WFok3 r ∨ SimpleDirty r := by
  unfold progOf at hp
  split at hp
  · simp at hp
  · rename_i name rest
    split at hp
    · simp at hp
    · cases hh : handlerOf name with
      | none => simp [hh] at hp
      | some f =>
        simp only [hh, Option.map_some, Option.some.injEq] at hp
        subst hp
        exact table_known_run _ (lookupHandler_mem _ f _ hh) c _ s r h

/-- through the dispatcher, for a command word outside `wfMalformed` every completed run answers
    exactly one well-formed RESP value -/
theorem progOf_wf_run (c : Ctx) (cmd : List Bytes) (p : Prog Res) (hp : progOf c cmd = some p)
    (hx : toLower (cmd.headD []) ∉ wfMalformed)
    (s : State) (r : Res) (h : (p.run c s).2 = .done r) : Res.WFok3 r := by
  unfold progOf at hp
  split at hp
  · simp at hp
  · rename_i name rest
    split at hp
    · simp at hp
    · cases hh : handlerOf name with
      | none => simp [hh] at hp
      | some f =>
        simp only [hh, Option.map_some, Option.some.injEq] at hp
        subst hp
        exact table_wf_run _ (lookupHandler_mem _ f _ hh) hx c _ s r h

/-- … of depth ≤ 2 outside the nested member listings -/
theorem progOf_wf2_run (c : Ctx) (cmd : List Bytes) (p : Prog Res) (hp : progOf c cmd = some p)
    (hx : toLower (cmd.headD []) ∉ wfMalformed ++ wfNested)
    (s : State) (r : Res) (h : (p.run c s).2 = .done r) : Res.WFok r := by
  unfold progOf at hp
  split at hp
  · simp at hp
  · rename_i name rest
    split at hp
    · simp at hp
    · cases hh : handlerOf name with
      | none => simp [hh] at hp
      | some f =>
        simp only [hh, Option.map_some, Option.some.injEq] at hp
        subst hp
        exact table_wf2_run _ (lookupHandler_mem _ f _ hh) hx c _ s r h

end Sugar
