/-
  Lemmas.Kv — read-your-writes facts about the keyspace primitives used by the C01/C04 theorems.
-/
import SugarModel.Lemmas.Pure
namespace Sugar

theorem Entry.expired_iff (e : Entry) (now t : Int) (h : e.exp = some t) : e.expired now = true ↔ t < now := by
  simp [Entry.expired, h]

theorem Entry.not_expired_none (e : Entry) (now : Int) (h : e.exp = none) : e.expired now = false := by
  simp [Entry.expired, h]

theorem lookup_setOne_same (i : Nat) (s : State) (k : Bytes) (v : Val) :
    (setOne i s (k, v)).lookup i k = some ⟨v, ((s.lookup i k).bind (·.exp))⟩ := by
  unfold setOne State.lookup State.db
  simp only [NMap.get_put_same, Option.getD_some, KMap.get_put_same]
  cases h : (KMap.get ((NMap.get s.dbs i).getD ⟨[], []⟩).store k) <;> simp

theorem lookup_setOne_other (i : Nat) (s : State) (k k2 : Bytes) (v : Val) (h : k ≠ k2) :
    (setOne i s (k, v)).lookup i k2 = s.lookup i k2 := by
  unfold setOne State.lookup State.db
  simp only [NMap.get_put_same, Option.getD_some]
  rw [KMap.get_put_other _ _ _ _ h]

theorem lookup_createDb (s : State) (i j : Nat) (k : Bytes) : (s.createDb i).lookup j k = s.lookup j k := by
  unfold State.lookup
  by_cases h : j = i
  · subst h; rw [createDb_db']
  · unfold State.db; rw [createDb_frame s i j h]
where
  createDb_db' {s : State} {j : Nat} : (s.createDb j).db j = s.db j := by
    unfold State.createDb State.db
    split
    · rfl
    · rename_i h
      simp only [State.hasDb, Option.isSome_iff_ne_none, ne_eq, Decidable.not_not] at h
      simp [h]

/-- single-entry setValues without a memory limit: the value is stored, the old deadline kept -/
theorem setValues_single (c : Ctx) (s : State) (k : Bytes) (v : Val) (hm : c.cfg.maxMemory = 0) :
    (setValues c s [(k, v)]).2 = true ∧
    (setValues c s [(k, v)]).1.lookup c.db k = some ⟨v, ((s.lookup c.db k).bind (·.exp))⟩ ∧
    ∀ k2, k ≠ k2 → (setValues c s [(k, v)]).1.lookup c.db k2 = s.lookup c.db k2 := by
  unfold setValues
  simp only [isMaxMemoryExceeded, hm, bne_self_eq_false, Bool.false_and, Bool.false_eq_true, if_false]
  refine ⟨trivial, ?_, ?_⟩
  · simp only [dedupLast, List.foldl, KMap.put]
    rw [lookup_setOne_same, lookup_createDb]
  · intro k2 h
    simp only [dedupLast, List.foldl, KMap.put]
    rw [lookup_setOne_other _ _ _ _ _ h, lookup_createDb]

/-- getValues on one stored, unexpired key serves the stored value and changes nothing -/
theorem getValues_live (c : Ctx) (s : State) (k : Bytes) (e : Entry) (h1 : s.lookup c.db k = some e)
    (h2 : e.expired c.now = false) : getValues c s [k] = (s, [e.val]) := by
  simp [getValues, h1, h2]

/-- getValues on a key whose deadline has passed answers nil (and collects the key) -/
theorem getValues_expired (c : Ctx) (s : State) (k : Bytes) (e : Entry) (h1 : s.lookup c.db k = some e)
    (h2 : e.expired c.now = true) : (getValues c s [k]).2 = [Val.nil] := by
  simp [getValues, h1, h2]

theorem getValues_absent (c : Ctx) (s : State) (k : Bytes) (h1 : s.lookup c.db k = none) :
    getValues c s [k] = (s, [Val.nil]) := by
  simp [getValues, h1]

theorem keysExist_single (s : State) (i : Nat) (k : Bytes) : keysExist s i [k] = [(s.lookup i k).isSome] := by
  simp [keysExist]

@[simp] theorem run_ret {α : Type} (c : Ctx) (s : State) (a : α) : (Prog.ret a).run c s = (s, .done a) := rfl
@[simp] theorem run_panic {α : Type} (c : Ctx) (s : State) (w : String) : (Prog.panic w : Prog α).run c s = (s, .panic w) := rfl
@[simp] theorem run_unmod {α : Type} (c : Ctx) (s : State) (w : String) : (Prog.unmod w : Prog α).run c s = (s, .unmod w) := rfl

/-! typed unfolding of one primitive call (the continuation's domain is the primitive's result type) -/
@[simp] theorem run_keysExist {α : Type} (c : Ctx) (s : State) (ks : List Bytes) (k : List Bool → Prog α) :
    (Prog.call (.keysExist ks) k).run c s = (k (keysExist s c.db ks)).run c s := rfl
@[simp] theorem run_getExpiry {α : Type} (c : Ctx) (s : State) (key : Bytes) (k : Option Int → Prog α) :
    (Prog.call (.getExpiry key) k).run c s = (k (getExpiry s c.db key)).run c s := rfl
@[simp] theorem run_getValues {α : Type} (c : Ctx) (s : State) (ks : List Bytes) (k : List Val → Prog α) :
    (Prog.call (.getValues ks) k).run c s = (k (getValues c s ks).2).run c (getValues c s ks).1 := rfl
@[simp] theorem run_setValues {α : Type} (c : Ctx) (s : State) (es : List (Bytes × Val)) (k : Bool → Prog α) :
    (Prog.call (.setValues es) k).run c s = (k (setValues c s es).2).run c (setValues c s es).1 := rfl
@[simp] theorem run_deleteKey {α : Type} (c : Ctx) (s : State) (key : Bytes) (k : (Prim.deleteKey key).Res → Prog α) :
    (Prog.call (.deleteKey key) k).run c s = (k ()).run c (deleteKey s c.db key) := rfl
theorem b_XX_ne_nil : ¬ (b "XX" = ([] : Bytes)) := by decide
theorem b_NX_ne_nil : ¬ (b "NX" = ([] : Bytes)) := by decide
@[simp] theorem eraseDups_single (k : Bytes) : [k].eraseDups = [k] := by
  simp [List.eraseDups, List.eraseDupsBy, List.eraseDupsBy.loop]

theorem run_call {α : Type} (c : Ctx) (s : State) (p : Prim) (k : p.Res → Prog α) :
    (Prog.call p k).run c s = match p.exec c s with
      | none => (s, .panic "primitive")
      | some (s', r) => (k r).run c s' := by
  simp only [Prog.run]
  cases p.exec c s <;> rfl

theorem run_setExpiry_some {α : Type} (c : Ctx) (s s' : State) (key : Bytes) (e : Option Int) (t : Bool)
    (k : (Prim.setExpiry key e t).Res → Prog α)
    (h : setExpiry c s key e = some s') :
    (Prog.call (.setExpiry key e t) k).run c s = (k ()).run c s' := by
  have hx : (Prim.setExpiry key e t).exec c s = some (s', ()) := by
    show (Sugar.setExpiry c s key e).map (fun s' => (s', ())) = _
    rw [h]; rfl
  exact (run_call c s (Prim.setExpiry key e t) k).trans (by rw [hx])

end Sugar
