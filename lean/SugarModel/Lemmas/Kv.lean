/-
  Lemmas.Kv — read-your-writes facts about the keyspace primitives used by the C01/C04 theorems.
-/
import SugarModel.Lemmas.Pure
namespace Sugar

theorem Entry.expired_iff (e : Entry) (now t : Int) (h : e.exp = some t) : e.expired now = true ↔ t < now := by
  simp [Entry.expired, h]

theorem Entry.not_expired_none (e : Entry) (now : Int) (h : e.exp = none) : e.expired now = false := by
  simp [Entry.expired, h]

theorem lookup_setOne_same (i : Nat) (s : State) (k : Bytes) (v : Val) :
    (setOne i s (k, v)).lookup i k = some ⟨v, ((s.lookup i k).bind (·.exp))⟩ := by
  unfold setOne State.lookup State.db
  simp only [NMap.get_put_same, Option.getD_some, KMap.get_put_same]
  cases h : (KMap.get ((NMap.get s.dbs i).getD ⟨[], []⟩).store k) <;> simp

theorem lookup_setOne_other (i : Nat) (s : State) (k k2 : Bytes) (v : Val) (h : k ≠ k2) :
    (setOne i s (k, v)).lookup i k2 = s.lookup i k2 := by
  unfold setOne State.lookup State.db
  simp only [NMap.get_put_same, Option.getD_some]
  rw [KMap.get_put_other _ _ _ _ h]

theorem lookup_createDb (s : State) (i j : Nat) (k : Bytes) : (s.createDb i).lookup j k = s.lookup j k := by
  unfold State.lookup
  by_cases h : j = i
  · subst h; rw [createDb_db']
  · unfold State.db; rw [createDb_frame s i j h]
where
  createDb_db' {s : State} {j : Nat} : (s.createDb j).db j = s.db j := by
    unfold State.createDb State.db
    split
    · rfl
    · rename_i h
      simp only [State.hasDb, Option.isSome_iff_ne_none, ne_eq, Decidable.not_not] at h
      simp [h]

/-- single-entry setValues without a memory limit: the value is stored, the old deadline kept -/
theorem setValues_single (c : Ctx) (s : State) (k : Bytes) (v : Val) (hm : c.cfg.maxMemory = 0) :
    (setValues c s [(k, v)]).2 = true ∧
    (setValues c s [(k, v)]).1.lookup c.db k = some ⟨v, ((s.lookup c.db k).bind (·.exp))⟩ ∧
    ∀ k2, k ≠ k2 → (setValues c s [(k, v)]).1.lookup c.db k2 = s.lookup c.db k2 := by
  unfold setValues
  simp only [isMaxMemoryExceeded, hm, bne_self_eq_false, Bool.false_and, Bool.false_eq_true, if_false]
  refine ⟨trivial, ?_, ?_⟩
  · simp only [dedupLast, List.foldl, KMap.put]
    rw [lookup_setOne_same, lookup_createDb]
  · intro k2 h
    simp only [dedupLast, List.foldl, KMap.put]
    rw [lookup_setOne_other _ _ _ _ _ h, lookup_createDb]

/-- getValues on one stored, unexpired key serves the stored value and changes nothing -/
theorem getValues_live (c : Ctx) (s : State) (k : Bytes) (e : Entry) (h1 : s.lookup c.db k = some e)
    (h2 : e.expired c.now = false) : getValues c s [k] = (s, [e.val]) := by
  simp [getValues, h1, h2]

/-- getValues on a key whose deadline has passed answers nil (and collects the key) -/
theorem getValues_expired (c : Ctx) (s : State) (k : Bytes) (e : Entry) (h1 : s.lookup c.db k = some e)
    (h2 : e.expired c.now = true) : (getValues c s [k]).2 = [Val.nil] := by
  simp [getValues, h1, h2]

theorem getValues_absent (c : Ctx) (s : State) (k : Bytes) (h1 : s.lookup c.db k = none) :
    getValues c s [k] = (s, [Val.nil]) := by
  simp [getValues, h1]

theorem keysExist_single (s : State) (i : Nat) (k : Bytes) : keysExist s i [k] = [(s.lookup i k).isSome] := by
  simp [keysExist]

/-! ### GETRANGE / SUBSTR against the reference substring -/

/-- the reference reading of a GETRANGE index pair (Redis): negative indices count from the end, the start is
    clamped to the first byte and the end to the last one; the range is the bytes `s … e` inclusive -/
def refRange (len start end_ : Int) : Int × Int :=
  let s := if start < 0 then len + start else start
  let e := if end_ < 0 then len + end_ else end_
  let s := if s < 0 then 0 else s
  let e := if e ≥ len then len - 1 else e
  (s, e)

/-- whenever the reference range is non-empty the handler's index arithmetic selects exactly it -/
theorem subStrIdx_ref (len start end_ : Int) (hl : 0 ≤ len)
    (h : (refRange len start end_).1 ≤ (refRange len start end_).2) :
    subStrIdx len start end_ = ((refRange len start end_).1, (refRange len start end_).2 + 1) := by
  unfold refRange at h ⊢
  unfold subStrIdx
  simp only [Prod.mk.injEq, Bool.and_eq_true, decide_eq_true_eq, ge_iff_le] at h ⊢
  constructor <;> (repeat' split) <;> omega

/-- **GETRANGE returns the reference substring, for every string and every start / end.** Whenever the
    reference range `s … e` is non-empty, the reply is the bulk string of exactly the bytes `s … e` of the
    stored value (and by `subStrPure_total` there is a reply in every other case as well). -/
theorem subStrPure_ref (t : Bytes) (start end_ : Int)
    (h : (refRange t.length start end_).1 ≤ (refRange t.length start end_).2) :
    subStrPure t start end_ =
      .done (.ok (bulkStr ((t.drop (refRange t.length start end_).1.toNat).take
        ((refRange t.length start end_).2 - (refRange t.length start end_).1 + 1).toNat))) := by
  have hi := subStrIdx_ref t.length start end_ (Int.natCast_nonneg _) h
  unfold subStrPure
  simp only [hi]
  have hnr : ¬ ((refRange t.length start end_).1 > (refRange t.length start end_).2 + 1) := by omega
  simp only [hnr, decide_false, Bool.false_eq_true, if_false]
  congr 4
  omega

/-- the index arithmetic never panics and never errors: every start / end on every string ends in a bulk reply
    (or, for a reversed range over non-ASCII bytes, outside the exactly-modelled domain) -/
theorem subStrPure_total (t : Bytes) (start end_ : Int) :
    (∃ x : Bytes, subStrPure t start end_ = .done (.ok (bulkStr x))) ∨ (∃ w, subStrPure t start end_ = .unmod w) := by
  unfold subStrPure
  extract_lets se rev lo hi str
  split
  · split
    · exact Or.inr ⟨_, rfl⟩
    · exact Or.inl ⟨_, rfl⟩
  · exact Or.inl ⟨_, rfl⟩

/-! ### MGET: one element per argument, nil exactly for the keys that read as absent -/

/-- what key `k` reads as: its value if stored and not past its deadline, else nil -/
def readVal (c : Ctx) (s : State) (k : Bytes) : Val := ((obsAt c.now s c.db k).map (·.val)).getD .nil

theorem getValues_readVal (c : Ctx) : ∀ (ks : List Bytes) (s : State), (getValues c s ks).2 = ks.map (readVal c s) := by
  intro ks
  induction ks with
  | nil => intro s; rfl
  | cons k r ih =>
    intro s
    unfold getValues
    cases h : s.lookup c.db k with
    | none =>
      simp only [List.map_cons, ih]
      simp [readVal, obsAt, h]
    | some e =>
      simp only
      by_cases he : e.expired c.now = true
      · simp only [he, if_true, List.map_cons, ih]
        have : readVal c (deleteKey s c.db k) = readVal c s := by
          funext k2; unfold readVal; rw [obsAt_deleteKey_expired c.now s c.db k e h he]
        rw [this]
        simp [readVal, obsAt, h, he]
      · simp only [he, List.map_cons, ih]
        simp [readVal, obsAt, h, he]

/-- the element MGET writes for one value: a nil bulk for nil, else the bulk string of its text -/
def mgetElem (v : Val) : Bytes :=
  match v with
  | .nil => nilBulk
  | v => bulkStr ((v.fmtV).getD [])

theorem mgetBody_elems : ∀ (vs : List Val), (∀ v ∈ vs, (mgetText v).isSome) →
    mgetBody vs = some (vs.map mgetElem).flatten := by
  intro vs
  induction vs with
  | nil => intro _; rfl
  | cons v r ih =>
    intro h
    have hv := h v (List.mem_cons_self ..)
    have hr := ih (fun x hx => h x (List.mem_cons_of_mem _ hx))
    unfold mgetBody
    cases ht : mgetText v with
    | none => simp [ht] at hv
    | some t =>
      simp only [hr, Option.bind_eq_bind, Option.bind_some, Option.pure_def, List.map_cons, List.flatten_cons]
      cases v <;> simp_all [mgetElem, mgetText]


/-- a key that is stored lives in a created database -/
theorem hasDb_of_lookup (s : State) (i : Nat) (k : Bytes) (e : Entry) (h : s.lookup i k = some e) : s.hasDb i = true := by
  unfold State.lookup State.db at h
  unfold State.hasDb
  cases hd : s.dbs.get i with
  | none => simp [hd] at h
  | some d => rfl

/-- setExpiry on a stored key: the deadline is replaced (or cleared), the value kept, every other key untouched -/
theorem setExpiry_present (c : Ctx) (s : State) (k : Bytes) (e : Entry) (x : Option Int)
    (h : s.lookup c.db k = some e) :
    ∃ s', setExpiry c s k x = some s' ∧ s'.lookup c.db k = some ⟨e.val, x⟩ ∧
      (∀ k2, k ≠ k2 → s'.lookup c.db k2 = s.lookup c.db k2) ∧ s'.mem = s.mem := by
  have hdb := hasDb_of_lookup s c.db k e h
  unfold setExpiry
  simp only [hdb, Bool.not_true, Bool.false_eq_true, if_false]
  refine ⟨_, rfl, ?_, ?_, rfl⟩
  · unfold State.lookup State.db at h
    simp [State.lookup, State.db, h]
  · intro k2 hne
    simp only [State.lookup, State.db, NMap.get_put_same, Option.getD_some]
    rw [KMap.get_put_other _ _ _ _ hne]


@[simp] theorem run_ret {α : Type} (c : Ctx) (s : State) (a : α) : (Prog.ret a).run c s = (s, .done a) := rfl
@[simp] theorem run_panic {α : Type} (c : Ctx) (s : State) (w : String) : (Prog.panic w : Prog α).run c s = (s, .panic w) := rfl
@[simp] theorem run_unmod {α : Type} (c : Ctx) (s : State) (w : String) : (Prog.unmod w : Prog α).run c s = (s, .unmod w) := rfl

/-! typed unfolding of one primitive call (the continuation's domain is the primitive's result type) -/
@[simp] theorem run_keysExist {α : Type} (c : Ctx) (s : State) (ks : List Bytes) (k : List Bool → Prog α) :
    (Prog.call (.keysExist ks) k).run c s = (k (keysExist s c.db ks)).run c s := rfl
@[simp] theorem run_getExpiry {α : Type} (c : Ctx) (s : State) (key : Bytes) (k : Option Int → Prog α) :
    (Prog.call (.getExpiry key) k).run c s = (k (getExpiry s c.db key)).run c s := rfl
@[simp] theorem run_getValues {α : Type} (c : Ctx) (s : State) (ks : List Bytes) (k : List Val → Prog α) :
    (Prog.call (.getValues ks) k).run c s = (k (getValues c s ks).2).run c (getValues c s ks).1 := rfl
@[simp] theorem run_setValues {α : Type} (c : Ctx) (s : State) (es : List (Bytes × Val)) (k : Bool → Prog α) :
    (Prog.call (.setValues es) k).run c s = (k (setValues c s es).2).run c (setValues c s es).1 := rfl
@[simp] theorem run_deleteKey {α : Type} (c : Ctx) (s : State) (key : Bytes) (k : (Prim.deleteKey key).Res → Prog α) :
    (Prog.call (.deleteKey key) k).run c s = (k ()).run c (deleteKey s c.db key) := rfl
theorem b_XX_ne_nil : ¬ (b "XX" = ([] : Bytes)) := by decide
theorem b_NX_ne_nil : ¬ (b "NX" = ([] : Bytes)) := by decide
@[simp] theorem eraseDups_single (k : Bytes) : [k].eraseDups = [k] := by
  simp [List.eraseDups, List.eraseDupsBy, List.eraseDupsBy.loop]

theorem run_call {α : Type} (c : Ctx) (s : State) (p : Prim) (k : p.Res → Prog α) :
    (Prog.call p k).run c s = match p.exec c s with
      | none => (s, .panic "primitive")
      | some (s', r) => (k r).run c s' := by
  simp only [Prog.run]
  cases p.exec c s <;> rfl

theorem run_setExpiry_some {α : Type} (c : Ctx) (s s' : State) (key : Bytes) (e : Option Int) (t : Bool)
    (k : (Prim.setExpiry key e t).Res → Prog α)
    (h : setExpiry c s key e = some s') :
    (Prog.call (.setExpiry key e t) k).run c s = (k ()).run c s' := by
  have hx : (Prim.setExpiry key e t).exec c s = some (s', ()) := by
    show (Sugar.setExpiry c s key e).map (fun s' => (s', ())) = _
    rw [h]; rfl
  exact (run_call c s (Prim.setExpiry key e t) k).trans (by rw [hx])

theorem persist_tokens : isAscii (b "persist") = true ∧ toUpper (b "persist") = b "PERSIST" ∧
    isAscii (b "PERSIST") = true ∧ toUpper (b "PERSIST") = b "PERSIST" := by decide

/-- GETEX k PERSIST [ignored] on a live key with a printable value: the run is exactly "answer the value, clear the
    deadline through setExpiry" -/
theorem handleGetex_persist_run (c : Ctx) (s : State) (k opt : Bytes) (rest : List Bytes) (e : Entry) (t : Bytes)
    (h : s.lookup c.db k = some e) (hlive : e.expired c.now = false) (hv : e.val.fmtV = some t)
    (ha : isAscii opt = true) (ho : toUpper opt = b "PERSIST") (hr : rest.length ≤ 1) :
    ∃ s', (handleGetex c (b "getex" :: k :: opt :: rest)).run c s = (s', .done (.ok (simpleStr t))) ∧
      s'.lookup c.db k = some ⟨e.val, none⟩ ∧ (∀ k2, k ≠ k2 → s'.lookup c.db k2 = s.lookup c.db k2) ∧ s'.mem = s.mem := by
  obtain ⟨s', hs, h1, h2, h3⟩ := setExpiry_present c s k e none h
  have hlen : ((b "getex" :: k :: opt :: rest).length < 2 || (b "getex" :: k :: opt :: rest).length > 4) = false := by
    simp only [List.length_cons]
    have : ¬ (rest.length + 1 + 1 + 1 < 2) := by omega
    have : ¬ (rest.length + 1 + 1 + 1 > 4) := by omega
    simp [*]
  refine ⟨s', ?_, h1, h2, h3⟩
  unfold handleGetex
  simp only [hlen, Bool.false_eq_true, if_false, run_keysExist, keysExist_single, h, Option.isSome_some,
    List.headD_cons, Bool.not_true, run_getValues, getValues_live c s k e h hlive, plusV, hv, ha, ho,
    BEq.rfl, if_true]
  rw [run_setExpiry_some c s s' k none false _ hs]
  rfl

/-! ### RENAME -/

theorem getExpiry_eq_bind (s : State) (i : Nat) (k : Bytes) : getExpiry s i k = (s.lookup i k).bind (·.exp) := by
  unfold getExpiry; cases s.lookup i k <;> rfl

/-- **RENAME of a live key onto another name** (any destination: absent, stored with or without a deadline,
    stale): the reply is OK, the destination holds the moved value under the SOURCE's deadline (or none), the
    source is gone and no other key of the database changes -/
theorem handleRename_run (c : Ctx) (s : State) (old new : Bytes) (e : Entry) (hm : c.cfg.maxMemory = 0)
    (h : s.lookup c.db old = some e) (hlive : e.expired c.now = false) (hv : e.val ≠ .nil) (hne : old ≠ new) :
    ∃ s', (handleRename c [b "rename", old, new]).run c s = (s', .done (.ok okReply)) ∧
      s'.lookup c.db new = some ⟨e.val, e.exp⟩ ∧ s'.lookup c.db old = none ∧
      ∀ k2, old ≠ k2 → new ≠ k2 → s'.lookup c.db k2 = s.lookup c.db k2 := by
  obtain ⟨v, ex⟩ := e
  simp only at hv ⊢
  have hg := getValues_live c s old _ h hlive
  obtain ⟨hs1, hs2, hs3⟩ := setValues_single c s new v hm
  have hbeq : (old == new) = false := by simpa using hne
  have hge : getExpiry s c.db old = ex := by simp [getExpiry, h]
  have hgn := getExpiry_eq_bind s c.db new
  by_cases heq : ex = (s.lookup c.db new).bind (·.exp)
  · refine ⟨deleteKey (setValues c s [(new, v)]).1 c.db old, ?_, ?_, ?_, ?_⟩
    · cases v <;>
        simp_all [handleRename, setOrErr]
    · rw [lookup_deleteKey, if_neg hne, hs2, heq]
    · rw [lookup_deleteKey, if_pos rfl]
    · intro k2 h1 h2
      rw [lookup_deleteKey, if_neg h1, hs3 k2 h2]
  · obtain ⟨s2, hx, hx1, hx2, _⟩ := setExpiry_present c (setValues c s [(new, v)]).1 new _ ex hs2
    refine ⟨deleteKey s2 c.db old, ?_, ?_, ?_, ?_⟩
    · subst hge
      have hr := fun (k : (Prim.setExpiry new (getExpiry s c.db old) false).Res → Prog Res) => run_setExpiry_some c _ s2 new _ false k hx
      cases v <;>
        simp_all [handleRename, setOrErr]
    · rw [lookup_deleteKey, if_neg hne, hx1]
    · rw [lookup_deleteKey, if_pos rfl]
    · intro k2 h1 h2
      rw [lookup_deleteKey, if_neg h1, hx2 k2 h2, hs3 k2 h2]

end Sugar
