/-
  Lemmas.WF — well-formedness of reply bytes as a compositional predicate, and the lift from the
  syntax of a handler program (`Prog.AllRet`) to every result of running it.
-/
import SugarModel.Lemmas.RespWF
import SugarModel.Model.Keyspace
namespace Sugar

/-- `r` is one scalar RESP value: it parses, in front of any residue, with any positive fuel -/
def WF1 (r : Bytes) : Prop := ∃ v, ∀ (f : Nat) (rest : Bytes), parseOne (f + 1) (r ++ rest) = some (v, rest)

/-- `r` is one RESP value of nesting depth at most 2 (an array of scalars, or a scalar) -/
def WF (r : Bytes) : Prop := ∃ v, ∀ (f : Nat) (rest : Bytes), parseOne (f + 2) (r ++ rest) = some (v, rest)

theorem WF1.toWF {r : Bytes} (h : WF1 r) : WF r := by
  obtain ⟨v, hv⟩ := h
  exact ⟨v, fun f rest => hv (f + 1) rest⟩

/-- a well-formed reply is accepted by the strict parser as exactly one value, nothing left over -/
theorem WF.parses {r : Bytes} (h : WF r) : (parseReply r).isSome = true := by
  obtain ⟨v, hv⟩ := h
  have hne : r ≠ [] := by
    intro h0; subst h0
    have := hv 0 []
    simp [parseOne] at this
  have hl : r.length + 1 = (r.length - 1) + 2 := by
    cases r with
    | nil => exact absurd rfl hne
    | cons c t => simp
  have := hv (r.length - 1) []
  rw [List.append_nil, ← hl] at this
  simp [parseReply, this]

theorem wf1_int (i : Int) : WF1 (intReply i) := ⟨.int i, fun f rest => parseOne_intReply f i rest⟩
theorem wf1_bulk (s : Bytes) : WF1 (bulkStr s) := ⟨.bulk s, fun f rest => parseOne_bulkStr f s rest⟩
theorem wf1_nil : WF1 nilBulk := ⟨.nullBulk, fun f rest => parseOne_nilBulk f rest⟩
theorem wf1_simple (s : Bytes) (h : cleanLine s = true) : WF1 (simpleStr s) :=
  ⟨.simple s, fun f rest => parseOne_simpleStr f s rest h⟩
theorem wf1_ok : WF1 okReply := by
  have : okReply = simpleStr (b "OK") := by decide
  rw [this]; exact wf1_simple _ (by decide)
theorem wf1_error (s : Bytes) (h : cleanLine s = true) : WF1 (45 :: s ++ crlf) :=
  ⟨.error s, fun f rest => parseOne_error f s rest h⟩

theorem wf_int (i : Int) : WF (intReply i) := (wf1_int i).toWF
theorem wf_bulk (s : Bytes) : WF (bulkStr s) := (wf1_bulk s).toWF
theorem wf_nil : WF nilBulk := wf1_nil.toWF
theorem wf_ok : WF okReply := wf1_ok.toWF
theorem wf_simple (s : Bytes) (h : cleanLine s = true) : WF (simpleStr s) := (wf1_simple s h).toWF

/-- the array-element loop consumes any list of scalar values -/
theorem elems_scalars (f : Nat) : ∀ (xs : List Bytes), (∀ x ∈ xs, WF1 x) → ∃ vs : List RespVal, ∀ (rest : Bytes) (acc : List RespVal),
    parseOne.elems (f + 1) xs.length (xs.flatten ++ rest) acc = some (acc.reverse ++ vs, rest) := by
  intro xs
  induction xs with
  | nil => intro _; exact ⟨[], fun rest acc => by simp [parseOne.elems]⟩
  | cons x r ih =>
    intro h
    obtain ⟨vs, hvs⟩ := ih (fun y hy => h y (List.mem_cons_of_mem _ hy))
    obtain ⟨v, hv⟩ := h x List.mem_cons_self
    refine ⟨v :: vs, fun rest acc => ?_⟩
    simp only [List.length_cons, List.flatten_cons, List.append_assoc]
    unfold parseOne.elems
    rw [hv]
    simp only
    rw [hvs]
    simp

/-- an array header with the right count in front of that many scalar values is one RESP value -/
theorem wf_arr (xs : List Bytes) (h : ∀ x ∈ xs, WF1 x) : WF (arrHdr xs.length ++ xs.flatten) := by
  -- the witness depends on fuel only through `elems_scalars`, whose result is fuel independent
  have key : ∀ f, ∃ vs : List RespVal, ∀ (rest : Bytes) (acc : List RespVal),
      parseOne.elems (f + 1) xs.length (xs.flatten ++ rest) acc = some (acc.reverse ++ vs, rest) :=
    fun f => elems_scalars f xs h
  obtain ⟨vs0, h0⟩ := key 0
  have same : ∀ f, ∀ (rest : Bytes) (acc : List RespVal),
      parseOne.elems (f + 1) xs.length (xs.flatten ++ rest) acc = some (acc.reverse ++ vs0, rest) := by
    intro f
    -- rebuild with the same per-element witnesses: every element's value is fuel independent
    clear key
    induction xs generalizing vs0 with
    | nil =>
      intro rest acc
      have := h0 rest acc
      simp [parseOne.elems] at this ⊢
      exact this
    | cons x r ih =>
      intro rest acc
      obtain ⟨v, hv⟩ := h x List.mem_cons_self
      have h0' := h0
      simp only [List.length_cons, List.flatten_cons, List.append_assoc] at h0' ⊢
      unfold parseOne.elems at h0' ⊢
      simp only [hv] at h0' ⊢
      -- tail witness
      obtain ⟨vs1, h1⟩ := elems_scalars 0 r (fun y hy => h y (List.mem_cons_of_mem _ hy))
      have hvs : vs0 = v :: vs1 := by
        have a := h0' [] []
        rw [h1] at a
        simpa using a.symm
      subst hvs
      have := ih (fun y hy => h y (List.mem_cons_of_mem _ hy)) vs1 h1 rest (v :: acc)
      rw [this]; simp
  refine ⟨.arr vs0, fun f rest => ?_⟩
  have e : (arrHdr xs.length ++ xs.flatten) ++ rest =
      42 :: (natDigits xs.length ++ 13 :: 10 :: (xs.flatten ++ rest)) := by
    simp [arrHdr, fmtNat, crlf]
  rw [e]
  simp only [parseOne, splitCrlf_clean _ _ (cleanLine_natDigits _), cleanLine_natDigits, Bool.not_true,
    Bool.false_eq_true, if_false, b42.1, b42.2.1, b42.2.2.1, b42.2.2.2, natDigits_ne_minus1, allDigits_natDigits,
    digitsVal_natDigits, same f rest []]
  simp

theorem wf_bulkArr (xs : List Bytes) : WF (arrHdr xs.length ++ (xs.map bulkStr).flatten) := by
  have := wf_arr (xs.map bulkStr) (by
    intro x hx
    simp only [List.mem_map] at hx
    obtain ⟨y, _, rfl⟩ := hx
    exact wf1_bulk y)
  simpa using this

/-- every value a program can return satisfies `P` (syntactic, over all primitive results) -/
def Prog.AllRet {α : Type} (P : α → Prop) : Prog α → Prop
  | .ret a => P a
  | .call _ k => ∀ r, (k r).AllRet P
  | .panic _ => True
  | .unmod _ => True

theorem allRet_run {α : Type} (P : α → Prop) (c : Ctx) : ∀ (p : Prog α) (s : State), p.AllRet P →
    ∀ a, (p.run c s).2 = .done a → P a := by
  intro p
  induction p with
  | ret a => intro s h a' hr; simp [Prog.run] at hr; subst hr; exact h
  | call q k ih =>
    intro s h a hr
    simp only [Prog.run] at hr
    cases hq : q.exec c s with
    | none => simp [hq] at hr
    | some sr =>
      obtain ⟨s', r⟩ := sr
      simp only [hq] at hr
      exact ih r s' (h r) a hr
  | panic w => intro s _ a hr; simp [Prog.run] at hr
  | unmod w => intro s _ a hr; simp [Prog.run] at hr

theorem allRet_bind {α β : Type} (P : β → Prop) (p : Prog α) (f : α → Prog β)
    (h : ∀ a, (f a).AllRet P) : (p.bind f).AllRet P := by
  induction p with
  | ret a => exact h a
  | call q k ih => intro r; exact ih r
  | panic w => trivial
  | unmod w => trivial

end Sugar
