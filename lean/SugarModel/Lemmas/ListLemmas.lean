/-
  Lemmas.ListLemmas — the slice arithmetic of the list handlers (`lrangePure`, `ltrimPure`, `lremFwd`,
  `lremBwd`) related to the plain sequence operations of the property statement (`Spec.normRange`,
  `Spec.removeFirstN`, `List.filter`): after the repairs of LRANGE / LTRIM / LREM / LMOVE they agree on every input,
  and the bounds checks kept in the model (`panic` branches) are unreachable.
-/
import SugarModel.Lemmas.Coll
import SugarModel.Known
namespace Sugar
set_option linter.unusedSimpArgs false

/-- the inclusive range `[s, e]` of the property statement: negative indices count from the tail,
    out-of-range indices are clamped (Spec.normRange) -/
def inclRange (l : List Bytes) (s e : Int) : List Bytes :=
  match Spec.normRange l.length s e with
  | none => []
  | some (lo, hi) => (l.drop lo).take (hi - lo + 1)

theorem bulkArr_nil : bulkArr [] = b "*0\r\n" := by decide

theorem bulkArr_take (l : List Bytes) (lo n m : Nat) (h1 : n = m) (h2 : lo + m ≤ l.length) :
    arrHdr n ++ (List.map bulkStr (List.take n (List.drop lo l))).flatten = bulkArr (List.take m (List.drop lo l)) := by
  subst h1
  unfold bulkArr
  simp only [List.length_take, List.length_drop]
  have : min n (l.length - lo) = n := by omega
  rw [this]

/-- **LRANGE index arithmetic is the inclusive range, for every list and every pair of indices** — in
    particular the bounds check of `list[i]` never fires -/
theorem lrangePure_eq (l : List Bytes) (s e : Int) :
    lrangePure l s e = .done (.ok (bulkArr (inclRange l s e))) := by
  unfold inclRange
  generalize hr : Spec.normRange l.length s e = r
  unfold Spec.normRange at hr
  unfold lrangePure
  simp only [Bool.or_eq_true, decide_eq_true_eq, beq_iff_eq] at hr ⊢
  revert hr
  repeat' split
  all_goals first
    | (intro hr; exfalso; omega)
    | (intro hr; cases hr <;> first
        | exact congrArg (fun x => Outcome.done (Res.ok x)) bulkArr_nil.symm
        | exact congrArg (fun x => Outcome.done (Res.ok x)) (bulkArr_take l _ _ _ (by omega) (by omega)))

/-- the whole list is the inclusive range 0 .. -1 -/
theorem inclRange_all (l : List Bytes) : inclRange l 0 (-1) = l := by
  unfold inclRange
  generalize hr : Spec.normRange l.length 0 (-1) = r
  unfold Spec.normRange at hr
  simp only [Bool.or_eq_true, decide_eq_true_eq, beq_iff_eq] at hr
  revert hr
  repeat' split
  all_goals first
    | (intro hr; exfalso; omega)
    | (intro hr; cases hr <;> first
        | (have : l.length = 0 := by omega
           exact (List.eq_nil_of_length_eq_zero this).symm)
        | (simp only [Int.toNat_zero, List.drop_zero]; apply List.take_of_length_le; omega))

/-- **LTRIM index arithmetic, for every list and every pair of indices**: the kept range is the inclusive
    range; an empty range deletes the key; the bounds check of `list[start:end]` never fires -/
theorem ltrimPure_eq (l : List Bytes) (s e : Int) :
    ltrimPure l s e = match Spec.normRange l.length s e with
      | none => .delete
      | some (lo, hi) => .store ((l.drop lo).take (hi - lo + 1)) := by
  generalize hr : Spec.normRange l.length s e = r
  unfold Spec.normRange at hr
  unfold ltrimPure
  simp only [Bool.or_eq_true, decide_eq_true_eq, beq_iff_eq] at hr ⊢
  revert hr
  repeat' split
  all_goals first
    | (intro hr; exfalso; omega)
    | (intro hr; cases hr <;> first | rfl | (congr 2; omega))

/-! ### LREM -/

theorem removeFirstN_zero (l : List Bytes) (v : Bytes) : Spec.removeFirstN l v 0 = l := by
  cases l <;> simp [Spec.removeFirstN]

/-- **the forward scan with a budget removes exactly the first `n` matches**, for every list -/
theorem lremFwd_some (v : Bytes) : ∀ (l : List Bytes) (n : Nat), lremFwd l v (some n) = Spec.removeFirstN l v n := by
  intro l
  induction l with
  | nil => intro n; simp [lremFwd, Spec.removeFirstN]
  | cons x r ih =>
    intro n
    simp only [lremFwd, Spec.removeFirstN, Option.map_some, ih]
    by_cases hn : n = 0 <;> simp [hn]

/-- **count 0: the forward scan removes every match**, for every list -/
theorem lremFwd_none (v : Bytes) : ∀ (l : List Bytes), lremFwd l v none = l.filter (· != v) := by
  intro l
  induction l with
  | nil => simp [lremFwd]
  | cons x r ih =>
    simp only [lremFwd, Option.map_none, ih, List.filter_cons]
    by_cases hx : x = v <;> simp [hx]

theorem lremBwd_go (v : Bytes) : ∀ (l : List Bytes) (n : Nat), lremBwd.go v l n = Spec.removeFirstN l v n := by
  intro l
  induction l with
  | nil => intro n; simp [lremBwd.go, Spec.removeFirstN]
  | cons x r ih =>
    intro n
    simp only [lremBwd.go, Spec.removeFirstN, ih]

/-- the backward scan removes the last `n` matches -/
theorem lremBwd_eq (l : List Bytes) (v : Bytes) (n : Nat) :
    lremBwd l v n = (Spec.removeFirstN l.reverse v n).reverse := by
  unfold lremBwd
  rw [lremBwd_go]

/-! ### no list handler panics -/

/-- a primitive that cannot fail in any state (all but SetExpiry and FLUSHDB, which dereference the
    per-database maps) -/
def Prim.Total : Prim → Prop
  | .setExpiry _ _ _ => False
  | .flush false => False
  | _ => True

theorem Prim.Total.exec_isSome {p : Prim} (h : p.Total) (c : Ctx) (s : State) : (p.exec c s).isSome = true := by
  cases p with
  | setExpiry k e t => exact h.elim
  | flush all => cases all with
    | false => exact h.elim
    | true => rfl
  | _ => rfl

/-- the program has no reachable `panic` leaf, whatever the primitives answer, and calls only primitives that
    cannot fail. (`unmod` leaves — inputs the model declines to describe — are not panics of the model.) -/
def Prog.NoPanic {α : Type} : Prog α → Prop
  | .ret _ => True
  | .call p k => p.Total ∧ ∀ r, (k r).NoPanic
  | .panic _ => False
  | .unmod _ => True

/-- a program without panic leaves never runs into a panic -/
theorem noPanic_run {α : Type} (c : Ctx) : ∀ (p : Prog α) (s : State), p.NoPanic → ∀ w, (p.run c s).2 ≠ .panic w := by
  intro p
  induction p with
  | ret a => intro s _ w hr; simp [Prog.run] at hr
  | call q k ih =>
    intro s h w hr
    simp only [Prog.run] at hr
    have hq := h.1.exec_isSome c s
    cases hx : q.exec c s with
    | none => rw [hx] at hq; cases hq
    | some sr =>
      obtain ⟨s', r⟩ := sr
      simp only [hx] at hr
      exact ih r s' (h.2 r) w hr
  | panic w => intro s h; exact h.elim
  | unmod w => intro s _ w' hr; simp [Prog.run] at hr

theorem setOrErr_np (es : List (Bytes × Val)) (k : Prog Res) (h : k.NoPanic) : (setOrErr es k).NoPanic := by
  unfold setOrErr
  refine ⟨trivial, fun r => ?_⟩
  dsimp only; split
  · exact h
  · exact trivial

/-- walk a handler body: split control flow, peel `.call`s, close `ret` / `unmod` leaves -/
macro "np" : tactic => `(tactic| (
  repeat' (first
    | exact trivial
    | (apply setOrErr_np)
    | (refine ⟨trivial, fun _ => ?_⟩)
    | split
    | (dsimp only))))

theorem handleLLen_np (c : Ctx) (cmd : List Bytes) : (handleLLen c cmd).NoPanic := by unfold handleLLen; np
theorem handleLIndex_np (c : Ctx) (cmd : List Bytes) : (handleLIndex c cmd).NoPanic := by unfold handleLIndex; np
theorem handleLSet_np (c : Ctx) (cmd : List Bytes) : (handleLSet c cmd).NoPanic := by unfold handleLSet; np
theorem handleLRem_np (c : Ctx) (cmd : List Bytes) : (handleLRem c cmd).NoPanic := by unfold handleLRem; np
theorem handlePush_np (l : Bool) (c : Ctx) (cmd : List Bytes) : (handlePush l c cmd).NoPanic := by unfold handlePush; np
theorem handlePop_np (c : Ctx) (cmd : List Bytes) : (handlePop c cmd).NoPanic := by unfold handlePop; np

/-! ### LPUSH / RPUSH creating a list: one write -/

theorem pushName_facts :
    isAscii (b "lpush") = true ∧ isAscii (b "rpush") = true ∧
    toLower (b "lpush") = b "lpush" ∧ toLower (b "rpush") = b "rpush" ∧
    ¬ (b "lpush" = b "lpushx") ∧ ¬ (b "rpush" = b "rpushx") := by decide

/-- **LPUSH / RPUSH on a key that is not there make exactly one SetValues call, with the whole list** — in every
    configuration: the state after the command is the state after that one write, and the command answers the
    number of elements if the write was admitted, "max memory reached" if it was refused. -/
theorem push_absent_run (left : Bool) (c : Ctx) (s : State) (k e0 : Bytes) (es : List Bytes)
    (h : s.lookup c.db k = none) :
    (handlePush left c ((if left then b "lpush" else b "rpush") :: k :: e0 :: es)).run c s =
      ((setValues c s [(k, .list (e0 :: es))]).1,
       if (setValues c s [(k, .list (e0 :: es))]).2 then .done (.ok (intReply ((e0 :: es).length : Nat)))
       else .done (.err maxMemErr)) := by
  have hlen : ¬ (es.length + 1 + 1 + 1 < 3) := by omega
  cases hs : (setValues c s [(k, .list (e0 :: es))]).2 <;> cases left <;>
    simp [handlePush, hlen, pushName_facts, keysExist_single, h, setOrErr, hs]

/-- LRANGE: the index arithmetic never leaves the list (`lrangePure_eq`) -/
theorem handleLRange_np (c : Ctx) (cmd : List Bytes) : (handleLRange c cmd).NoPanic := by
  unfold handleLRange; np
  all_goals (rw [lrangePure_eq]; exact trivial)

/-- LTRIM: the slice bounds are always within the list (`ltrimPure_eq`) -/
theorem handleLTrim_np (c : Ctx) (cmd : List Bytes) : (handleLTrim c cmd).NoPanic := by
  unfold handleLTrim; np
  all_goals (rename_i hp; rw [ltrimPure_eq] at hp; split at hp <;> cases hp)

/-- LMOVE: an empty source is answered before any element is taken -/
theorem handleLMove_np (c : Ctx) (cmd : List Bytes) : (handleLMove c cmd).NoPanic := by
  unfold handleLMove; np
  all_goals (rename_i sl dl _ _ hne _ hnone; cases sl <;> simp at hne hnone)

end Sugar
