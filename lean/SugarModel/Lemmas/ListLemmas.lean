/-
  Lemmas.ListLemmas — the slice arithmetic of the list handlers (`lrangePure`, `ltrimPure`, `lremFwd`,
  `lremBwd`) related to the plain sequence operations of the property statement (`Spec.normRange`,
  `Spec.removeFirstN`, `List.filter`), on exactly the inputs where they agree.
-/
import SugarModel.Lemmas.Coll
import SugarModel.Known
namespace Sugar
set_option linter.unusedSimpArgs false

/-- the inclusive range `[s, e]` of the property statement: negative indices count from the tail,
    out-of-range indices are clamped (Spec.normRange) -/
def inclRange (l : List Bytes) (s e : Int) : List Bytes :=
  match Spec.normRange l.length s e with
  | none => []
  | some (lo, hi) => (l.drop lo).take (hi - lo + 1)

theorem bulkArr_nil : bulkArr [] = b "*0\r\n" := by decide

theorem bulkArr_take (l : List Bytes) (lo n m : Nat) (h1 : n = m) (h2 : lo + m ≤ l.length) :
    arrHdr n ++ (List.map bulkStr (List.take n (List.drop lo l))).flatten = bulkArr (List.take m (List.drop lo l)) := by
  subst h1
  unfold bulkArr
  simp only [List.length_take, List.length_drop]
  have : min n (l.length - lo) = n := by omega
  rw [this]

/-- LRANGE index arithmetic agrees with the inclusive range whenever the end index is non-negative and
    not exactly the length, and the start index is not before the head -/
theorem lrangePure_eq (l : List Bytes) (s e : Int) (he : 0 ≤ e) (hne : e ≠ l.length) (hs : -(l.length : Int) ≤ s) :
    lrangePure l s e = .done (.ok (bulkArr (inclRange l s e))) := by
  unfold inclRange
  generalize hr : Spec.normRange l.length s e = r
  unfold Spec.normRange at hr
  unfold lrangePure
  simp only [Bool.or_eq_true, decide_eq_true_eq, beq_iff_eq] at hr ⊢
  revert hr
  repeat' split
  all_goals first
    | (intro hr; exfalso; omega)
    | (intro hr; cases hr <;> first
        | exact congrArg (fun x => Outcome.done (Res.ok x)) bulkArr_nil.symm
        | exact congrArg (fun x => Outcome.done (Res.ok x)) (bulkArr_take l _ _ _ (by omega) (by omega)))

/-- a negative end index is computed as `len - end` (> len) and then clamped to the last element: every
    negative end index behaves as -1 -/
theorem lrangePure_neg_end (l : List Bytes) (s e : Int) (he : e < 0) (hs : -(l.length : Int) ≤ s) :
    lrangePure l s e = .done (.ok (bulkArr (inclRange l s (-1)))) := by
  unfold inclRange
  generalize hr : Spec.normRange l.length s (-1) = r
  unfold Spec.normRange at hr
  unfold lrangePure
  simp only [Bool.or_eq_true, decide_eq_true_eq, beq_iff_eq] at hr ⊢
  revert hr
  repeat' split
  all_goals first
    | (intro hr; exfalso; omega)
    | (intro hr; cases hr <;> first
        | exact congrArg (fun x => Outcome.done (Res.ok x)) bulkArr_nil.symm
        | exact congrArg (fun x => Outcome.done (Res.ok x)) (bulkArr_take l _ _ _ (by omega) (by omega)))

/-- the whole list is the inclusive range 0 .. -1 -/
theorem inclRange_all (l : List Bytes) : inclRange l 0 (-1) = l := by
  unfold inclRange
  generalize hr : Spec.normRange l.length 0 (-1) = r
  unfold Spec.normRange at hr
  simp only [Bool.or_eq_true, decide_eq_true_eq, beq_iff_eq] at hr
  revert hr
  repeat' split
  all_goals first
    | (intro hr; exfalso; omega)
    | (intro hr; cases hr <;> first
        | (have : l.length = 0 := by omega
           exact (List.eq_nil_of_length_eq_zero this).symm)
        | (simp only [Int.toNat_zero, List.drop_zero]; apply List.take_of_length_le; omega))

/-- LTRIM index arithmetic: with a start index not before the head, the kept range is the inclusive
    range; an empty range deletes the key -/
theorem ltrimPure_eq (l : List Bytes) (s e : Int) (hs : -(l.length : Int) ≤ s) :
    ltrimPure l s e = match Spec.normRange l.length s e with
      | none => .delete
      | some (lo, hi) => .store ((l.drop lo).take (hi - lo + 1)) := by
  generalize hr : Spec.normRange l.length s e = r
  unfold Spec.normRange at hr
  unfold ltrimPure
  simp only [Bool.or_eq_true, decide_eq_true_eq, beq_iff_eq] at hr ⊢
  revert hr
  repeat' split
  all_goals first
    | (intro hr; exfalso; omega)
    | (intro hr; cases hr <;> first | rfl | (congr 2; omega))

/-! ### LREM -/

/-- no two neighbouring elements both equal `v` -/
def NoAdjacent (l : List Bytes) (v : Bytes) : Prop := Known.adjacentPair l v = false

instance (l : List Bytes) (v : Bytes) : Decidable (NoAdjacent l v) := by unfold NoAdjacent; exact inferInstance

theorem NoAdjacent.tail {x : Bytes} {r : List Bytes} {v : Bytes} (h : NoAdjacent (x :: r) v) : NoAdjacent r v := by
  unfold NoAdjacent at *
  cases r with
  | nil => rfl
  | cons y r' =>
    unfold Known.adjacentPair at h
    simp only [Bool.or_eq_false_iff] at h
    exact h.2

theorem lremFwd_zero (l : List Bytes) (v : Bytes) : lremFwd l v (some 0) = l := by
  cases l with
  | nil => rw [lremFwd.eq_def]
  | cons x r => rw [lremFwd.eq_def]; simp

theorem lremFwd_nil (v : Bytes) (bud : Option Nat) : lremFwd [] v bud = [] := by rw [lremFwd.eq_def]
theorem lremFwd_miss (x v : Bytes) (r : List Bytes) (n : Nat) (hn : ¬ n = 0) (hx : ¬ x = v) :
    lremFwd (x :: r) v (some n) = x :: lremFwd r v (some n) := by
  rw [lremFwd.eq_def]; simp [hn, hx]
theorem lremFwd_hit (x y : Bytes) (r : List Bytes) (n : Nat) (hn : ¬ n = 0) :
    lremFwd (x :: y :: r) x (some n) = y :: lremFwd r x (some (n - 1)) := by
  rw [lremFwd.eq_def]; simp [hn]
theorem lremFwd_hit_last (x : Bytes) (n : Nat) (hn : ¬ n = 0) : lremFwd [x] x (some n) = [] := by
  rw [lremFwd.eq_def]; simp [hn]
theorem lremFwd_all_hit (x y : Bytes) (r : List Bytes) : lremFwd (x :: y :: r) x none = y :: lremFwd r x none := by
  rw [lremFwd.eq_def]; simp
theorem lremFwd_all_miss (x v : Bytes) (r : List Bytes) (hx : ¬ x = v) :
    lremFwd (x :: r) v none = x :: lremFwd r v none := by
  rw [lremFwd.eq_def]; simp [hx]
theorem lremFwd_all_hit_last (x : Bytes) : lremFwd [x] x none = [] := by
  rw [lremFwd.eq_def]; simp

theorem removeFirstN_zero (l : List Bytes) (v : Bytes) : Spec.removeFirstN l v 0 = l := by
  cases l <;> simp [Spec.removeFirstN]

/-- the forward scan removes the first `n` matches, provided no two matches are neighbours -/
theorem lremFwd_some (v : Bytes) : ∀ (m : Nat) (l : List Bytes) (n : Nat), l.length ≤ m → NoAdjacent l v →
    lremFwd l v (some n) = Spec.removeFirstN l v n := by
  intro m
  induction m with
  | zero =>
    intro l n hl _
    cases l with
    | nil => simp [lremFwd_nil, Spec.removeFirstN]
    | cons x r => simp at hl
  | succ m ih =>
    intro l n hl hadj
    cases l with
    | nil => simp [lremFwd_nil, Spec.removeFirstN]
    | cons x r =>
      by_cases hn : n = 0
      · subst hn; rw [lremFwd_zero, removeFirstN_zero]
      · by_cases hx : x = v
        · subst hx
          cases r with
          | nil => simp [lremFwd_hit_last, Spec.removeFirstN, hn]
          | cons y r' =>
            have hy : ¬ (y = x) := by
              intro h; subst h
              unfold NoAdjacent Known.adjacentPair at hadj
              simp at hadj
            have hadj' : NoAdjacent r' x := hadj.tail.tail
            have hlen : r'.length ≤ m := by simp only [List.length_cons] at hl; omega
            by_cases hn1 : n - 1 = 0
            · simp [lremFwd_hit, Spec.removeFirstN, hn, hn1, lremFwd_zero]
            · simp [lremFwd_hit, Spec.removeFirstN, hn, hn1, hy, ih r' (n - 1) hlen hadj']
        · have hlen : r.length ≤ m := by simp only [List.length_cons] at hl; omega
          simp [lremFwd_miss, Spec.removeFirstN, hn, hx, ih r n hlen hadj.tail]

/-- count 0 (remove all): the forward scan removes every match, provided no two matches are neighbours -/
theorem lremFwd_none (v : Bytes) : ∀ (m : Nat) (l : List Bytes), l.length ≤ m → NoAdjacent l v →
    lremFwd l v none = l.filter (· != v) := by
  intro m
  induction m with
  | zero =>
    intro l hl _
    cases l with
    | nil => simp [lremFwd_nil]
    | cons x r => simp at hl
  | succ m ih =>
    intro l hl hadj
    cases l with
    | nil => simp [lremFwd_nil]
    | cons x r =>
      by_cases hx : x = v
      · subst hx
        cases r with
        | nil => simp [lremFwd_all_hit_last]
        | cons y r' =>
          have hy : ¬ (y = x) := by
            intro h; subst h
            unfold NoAdjacent Known.adjacentPair at hadj
            simp at hadj
          have hadj' : NoAdjacent r' x := hadj.tail.tail
          have hlen : r'.length ≤ m := by simp only [List.length_cons] at hl; omega
          simp [lremFwd_all_hit, hy, ih r' hlen hadj']
      · have hlen : r.length ≤ m := by simp only [List.length_cons] at hl; omega
        simp [lremFwd_all_miss, hx, ih r hlen hadj.tail]

theorem lremBwd_go (v : Bytes) : ∀ (l : List Bytes) (n : Nat), lremBwd.go v l n = Spec.removeFirstN l v n := by
  intro l
  induction l with
  | nil => intro n; simp [lremBwd.go, Spec.removeFirstN]
  | cons x r ih =>
    intro n
    simp only [lremBwd.go, Spec.removeFirstN, ih]

/-- the backward scan removes the last `n` matches -/
theorem lremBwd_eq (l : List Bytes) (v : Bytes) (n : Nat) :
    lremBwd l v n = (Spec.removeFirstN l.reverse v n).reverse := by
  unfold lremBwd
  rw [lremBwd_go]

end Sugar
