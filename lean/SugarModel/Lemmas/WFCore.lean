/-
  Lemmas.WFCore — "every success reply of a handler is one well-formed RESP value" as a syntactic
  property of handler programs: the predicate `Res.WFok`, its relaxation `Res.WFx E` (well-formed, or in
  the explicitly named exception class `E`), leaf lemmas for the reply builders, combinator lemmas and
  the tactic `wf` that walks a handler body.
-/
import SugarModel.Lemmas.WF
import SugarModel.Model.Dispatch
namespace Sugar

/-- success replies are exactly one RESP value, whatever arrangement the implementation may emit;
    error texts are not judged here -/
def Res.WFok : Res → Prop
  | .ok r => WF r
  | .err _ => True
  | .okPerm hdr groups => ∀ gs : List Bytes, gs.Perm groups → WF (hdr ++ gs.flatten)
  | .okPick hdr k _ groups => ∀ picks : List Bytes, picks.length = k → (∀ g ∈ picks, g ∈ groups) →
      WF (hdr ++ picks.flatten)

/-- well-formed, or a member of the named exception class -/
def Res.WFx (E : Res → Prop) (r : Res) : Prop := Res.WFok r ∨ E r

/-- the empty exception class -/
def NoExc : Res → Prop := fun _ => False

theorem allRet_mono {α : Type} {P Q : α → Prop} (h : ∀ a, P a → Q a) :
    ∀ p : Prog α, p.AllRet P → p.AllRet Q := by
  intro p
  induction p with
  | ret a => exact h a
  | call q k ih => intro hp r; exact ih r (hp r)
  | panic w => intro _; trivial
  | unmod w => intro _; trivial

/-- with no exceptions allowed, `WFx` is `WFok` -/
theorem allRet_full {p : Prog Res} (h : p.AllRet (Res.WFx NoExc)) : p.AllRet Res.WFok :=
  allRet_mono (fun _ hr => hr.elim id False.elim) p h

theorem allRet_weaken {p : Prog Res} (E : Res → Prop) (h : p.AllRet Res.WFok) : p.AllRet (Res.WFx E) :=
  allRet_mono (fun _ hr => Or.inl hr) p h

/-! ### leaves -/

theorem rx_err (E : Res → Prop) (m : Bytes) : (Prog.ret (Res.err m)).AllRet (Res.WFx E) := Or.inl trivial
theorem rx_ok (E : Res → Prop) (r : Bytes) (h : WF r) : (Prog.ret (Res.ok r)).AllRet (Res.WFx E) := Or.inl h
theorem rx_res (E : Res → Prop) (r : Res) (h : Res.WFok r) : (Prog.ret r).AllRet (Res.WFx E) := Or.inl h
theorem rx_exc (E : Res → Prop) (r : Res) (h : E r) : (Prog.ret r).AllRet (Res.WFx E) := Or.inr h
theorem rx_call {α : Type} (P : α → Prop) (p : Prim) (k : p.Res → Prog α) (h : ∀ r, (k r).AllRet P) :
    (Prog.call p k).AllRet P := h
theorem rx_panic {α : Type} (P : α → Prop) (w : String) : (Prog.panic w : Prog α).AllRet P := trivial
theorem rx_unmod {α : Type} (P : α → Prop) (w : String) : (Prog.unmod w : Prog α).AllRet P := trivial

theorem cleanLine_append (x y : Bytes) : cleanLine (x ++ y) = (cleanLine x && cleanLine y) := by
  simp [cleanLine]

/-- the empty array `*0\r\n` -/
theorem wf_emptyArr : WF (b "*0\r\n") := by
  have e : b "*0\r\n" = arrHdr ([] : List Bytes).length ++ ([] : List Bytes).flatten := by decide
  rw [e]; exact wf_arr [] (by intro x hx; cases hx)

/-- the null array `*-1\r\n` -/
theorem wf_nullArr : WF (b "*-1\r\n") := by
  refine ⟨.nullArr, fun f rest => ?_⟩
  have e : b "*-1\r\n" ++ rest = 42 :: (b "-1" ++ 13 :: 10 :: rest) := by
    have h1 : b "*-1\r\n" = [42, 45, 49, 13, 10] := by decide
    have h2 : b "-1" = [45, 49] := by decide
    rw [h1, h2]; rfl
  rw [e]
  have hc : cleanLine (b "-1") = true := by decide
  simp only [parseOne, splitCrlf_clean _ _ hc, hc, Bool.not_true, Bool.false_eq_true, if_false,
    b42.1, b42.2.1, b42.2.2.1, b42.2.2.2]
  simp

theorem wf_pong : WF (b "+PONG\r\n") := by
  have e : b "+PONG\r\n" = simpleStr (b "PONG") := by decide
  rw [e]; exact wf_simple _ (by decide)

/-- an array header in front of `xs.map f`, every image a scalar -/
theorem wf_arrMap {α : Type} (xs : List α) (f : α → Bytes) (h : ∀ x, WF1 (f x)) :
    WF (arrHdr xs.length ++ (xs.map f).flatten) := by
  have := wf_arr (xs.map f) (by
    intro y hy
    simp only [List.mem_map] at hy
    obtain ⟨x, _, rfl⟩ := hy
    exact h x)
  simpa using this

/-- `g` is the concatenation of exactly `m` scalar values -/
def Grp (m : Nat) (g : Bytes) : Prop := ∃ xs : List Bytes, xs.length = m ∧ (∀ x ∈ xs, WF1 x) ∧ g = xs.flatten

theorem grp_one (x : Bytes) (h : WF1 x) : Grp 1 x :=
  ⟨[x], rfl, by intro y hy; simp at hy; subst hy; exact h, by simp⟩

theorem grp_two (x y : Bytes) (hx : WF1 x) (hy : WF1 y) : Grp 2 (x ++ y) :=
  ⟨[x, y], rfl, by
    intro z hz
    simp at hz
    rcases hz with rfl | rfl
    · exact hx
    · exact hy, by simp⟩

/-- a header counting `n * m` in front of `n` groups of `m` scalars each -/
theorem wf_groups (m : Nat) (gs : List Bytes) (h : ∀ g ∈ gs, Grp m g) :
    WF (arrHdr (gs.length * m) ++ gs.flatten) := by
  have key : ∃ xs : List Bytes, xs.length = gs.length * m ∧ (∀ x ∈ xs, WF1 x) ∧ gs.flatten = xs.flatten := by
    induction gs with
    | nil => exact ⟨[], by simp, (by intro x hx; cases hx), rfl⟩
    | cons g r ih =>
      obtain ⟨ys, hl, hw, he⟩ := ih (fun y hy => h y (List.mem_cons_of_mem _ hy))
      obtain ⟨xs, hxl, hxw, hxe⟩ := h g List.mem_cons_self
      refine ⟨xs ++ ys, ?_, ?_, ?_⟩
      · simp only [List.length_append, List.length_cons, hl, hxl, Nat.add_mul, Nat.one_mul]; omega
      · intro x hx
        rcases List.mem_append.mp hx with hx | hx
        · exact hxw x hx
        · exact hw x hx
      · simp [he, hxe]
  obtain ⟨xs, hl, hw, he⟩ := key
  rw [← hl, he]
  exact wf_arr xs hw

theorem wfok_perm (m : Nat) (groups : List Bytes) (h : ∀ g ∈ groups, Grp m g) :
    Res.WFok (.okPerm (arrHdr (groups.length * m)) groups) := by
  intro gs hp
  rw [← hp.length_eq]
  exact wf_groups m gs (fun g hg => h g (hp.mem_iff.mp hg))

theorem wfok_pick (m k : Nat) (d : Bool) (groups : List Bytes) (h : ∀ g ∈ groups, Grp m g) :
    Res.WFok (.okPick (arrHdr (k * m)) k d groups) := by
  intro picks hl hm
  rw [← hl]
  exact wf_groups m picks (fun g hg => h g (hm g hg))

theorem rx_permMap {α : Type} (E : Res → Prop) (m : Nat) (xs : List α) (f : α → Bytes) (h : ∀ x, Grp m (f x))
    (n : Nat) (hn : n = xs.length * m) : (Prog.ret (Res.okPerm (arrHdr n) (xs.map f))).AllRet (Res.WFx E) := by
  subst hn
  have := wfok_perm m (xs.map f) (by
    intro g hg
    rw [List.mem_map] at hg
    obtain ⟨x, _, hx⟩ := hg
    rw [← hx]; exact h x)
  rw [List.length_map] at this
  exact rx_res _ _ this

theorem rx_pickMap {α : Type} (E : Res → Prop) (m k : Nat) (d : Bool) (xs : List α) (f : α → Bytes)
    (h : ∀ x, Grp m (f x)) (n : Nat) (hn : n = k * m) :
    (Prog.ret (Res.okPick (arrHdr n) k d (xs.map f))).AllRet (Res.WFx E) := by
  subst hn
  refine rx_res _ _ (wfok_pick m k d (xs.map f) ?_)
  intro g hg
  rw [List.mem_map] at hg
  obtain ⟨x, _, hx⟩ := hg
  rw [← hx]; exact h x

/-! ### combinators -/

theorem plusV_rx (P : Res → Prop) (v : Val) (k : Bytes → Prog Res) (h : ∀ t, (k (simpleStr t)).AllRet P) :
    (plusV v k).AllRet P := by
  unfold plusV; split
  · exact h _
  · trivial

theorem setOrErr_rx (E : Res → Prop) (es : List (Bytes × Val)) (k : Prog Res) (h : k.AllRet (Res.WFx E)) :
    (setOrErr es k).AllRet (Res.WFx E) := by
  unfold setOrErr
  intro r; dsimp only; split
  · exact h
  · exact rx_err _ _

theorem adaptOr_rx (P : Res → Prop) (s : Bytes) (k : Val → Prog Res) (h : ∀ v, (k v).AllRet P) :
    (adaptOr s k).AllRet P := by
  unfold adaptOr; split
  · exact h _
  · trivial

theorem ofOutcome_rx {α : Type} (P : α → Prop) (o : Outcome α) (h : ∀ a, o = .done a → P a) :
    (Prog.ofOutcome o).AllRet P := by
  cases o with
  | done a => exact h a rfl
  | panic w => trivial
  | unmod w => trivial

theorem delEach_rx (P : Res → Prop) (ks : List Bytes) (k : Prog Res) (h : k.AllRet P) : (delEach ks k).AllRet P := by
  induction ks with
  | nil => exact h
  | cons x r ih => exact fun _ => ih

/-- leaf replies built by the standard builders -/
macro "wfleaf" : tactic => `(tactic| first
  | exact wf_int _
  | exact wf_ok
  | exact wf_nil
  | exact wf_bulk _
  | exact wf_emptyArr
  | exact wf_nullArr
  | exact wf_bulkArr _
  | exact wf_pong
  | exact wf_simple _ (by decide))

/-- discharge `AllRet (Res.WFx E)` goals of handler bodies: split control flow, peel `.call`s, close leaves -/
macro "wf" : tactic => `(tactic| (
  repeat' (first
    | exact rx_err _ _
    | exact rx_panic _ _
    | exact rx_unmod _ _
    | (refine rx_ok _ _ ?_; wfleaf)
    | (apply plusV_rx; intro _)
    | (apply setOrErr_rx)
    | (apply adaptOr_rx; intro _)
    | (apply delEach_rx)
    | (refine rx_call _ _ _ ?_; intro _)
    | split
    | (dsimp only))))

end Sugar
