/-
  Lemmas.WFCore — "every success reply of a handler is one well-formed RESP value" as a syntactic
  property of handler programs: the predicate `Res.WFok`, its relaxation `Res.WFx E` (well-formed, or in
  the explicitly named exception class `E`), leaf lemmas for the reply builders, combinator lemmas and
  the tactic `wf` that walks a handler body.
-/
import SugarModel.Lemmas.WF
import SugarModel.Model.Dispatch
namespace Sugar

/-- success replies are exactly one RESP value, whatever arrangement the implementation may emit;
    error texts are not judged here -/
def Res.WFok : Res → Prop
  | .ok r => WF r
  | .err _ => True
  | .okPerm hdr groups => ∀ gs : List Bytes, gs.Perm groups → WF (hdr ++ gs.flatten)
  | .okPick hdr k _ groups => ∀ picks : List Bytes, picks.length = k → (∀ g ∈ picks, g ∈ groups) →
      WF (hdr ++ picks.flatten)

/-- well-formed, or a member of the named exception class -/
def Res.WFx (E : Res → Prop) (r : Res) : Prop := Res.WFok r ∨ E r

/-- the empty exception class -/
def NoExc : Res → Prop := fun _ => False

theorem allRet_mono {α : Type} {P Q : α → Prop} (h : ∀ a, P a → Q a) :
    ∀ p : Prog α, p.AllRet P → p.AllRet Q := by
  intro p
  induction p with
  | ret a => exact h a
  | call q k ih => intro hp r; exact ih r (hp r)
  | panic w => intro _; trivial
  | unmod w => intro _; trivial

/-- with no exceptions allowed, `WFx` is `WFok` -/
theorem allRet_full {p : Prog Res} (h : p.AllRet (Res.WFx NoExc)) : p.AllRet Res.WFok :=
  allRet_mono (fun _ hr => hr.elim id False.elim) p h

theorem allRet_weaken {p : Prog Res} (E : Res → Prop) (h : p.AllRet Res.WFok) : p.AllRet (Res.WFx E) :=
  allRet_mono (fun _ hr => Or.inl hr) p h

/-! ### leaves -/

theorem rx_err (E : Res → Prop) (m : Bytes) : (Prog.ret (Res.err m)).AllRet (Res.WFx E) := Or.inl trivial
theorem rx_ok (E : Res → Prop) (r : Bytes) (h : WF r) : (Prog.ret (Res.ok r)).AllRet (Res.WFx E) := Or.inl h
theorem rx_res (E : Res → Prop) (r : Res) (h : Res.WFok r) : (Prog.ret r).AllRet (Res.WFx E) := Or.inl h
theorem rx_exc (E : Res → Prop) (r : Res) (h : E r) : (Prog.ret r).AllRet (Res.WFx E) := Or.inr h
theorem rx_call {α : Type} (P : α → Prop) (p : Prim) (k : p.Res → Prog α) (h : ∀ r, (k r).AllRet P) :
    (Prog.call p k).AllRet P := h
theorem rx_panic {α : Type} (P : α → Prop) (w : String) : (Prog.panic w : Prog α).AllRet P := trivial
theorem rx_unmod {α : Type} (P : α → Prop) (w : String) : (Prog.unmod w : Prog α).AllRet P := trivial

theorem cleanLine_append (x y : Bytes) : cleanLine (x ++ y) = (cleanLine x && cleanLine y) := by
  simp [cleanLine]

/-- the empty array `*0\r\n` -/
theorem wf_emptyArr : WF (b "*0\r\n") := by
  have e : b "*0\r\n" = arrHdr ([] : List Bytes).length ++ ([] : List Bytes).flatten := by decide
  rw [e]; exact wf_arr [] (by intro x hx; cases hx)

/-- the null array `*-1\r\n` -/
theorem wf_nullArr : WF (b "*-1\r\n") := by
  refine ⟨.nullArr, fun f rest => ?_⟩
  have e : b "*-1\r\n" ++ rest = 42 :: (b "-1" ++ 13 :: 10 :: rest) := by
    have h1 : b "*-1\r\n" = [42, 45, 49, 13, 10] := by decide
    have h2 : b "-1" = [45, 49] := by decide
    rw [h1, h2]; rfl
  rw [e]
  have hc : cleanLine (b "-1") = true := by decide
  simp only [parseOne, splitCrlf_clean _ _ hc, hc, Bool.not_true, Bool.false_eq_true, if_false,
    b42.1, b42.2.1, b42.2.2.1, b42.2.2.2]
  simp

theorem wf_pong : WF (b "+PONG\r\n") := by
  have e : b "+PONG\r\n" = simpleStr (b "PONG") := by decide
  rw [e]; exact wf_simple _ (by decide)

/-- an array header in front of `xs.map f`, every image a scalar -/
theorem wf_arrMap {α : Type} (xs : List α) (f : α → Bytes) (h : ∀ x, WF1 (f x)) :
    WF (arrHdr xs.length ++ (xs.map f).flatten) := by
  have := wf_arr (xs.map f) (by
    intro y hy
    simp only [List.mem_map] at hy
    obtain ⟨x, _, rfl⟩ := hy
    exact h x)
  simpa using this

/-- `g` is the concatenation of exactly `m` scalar values -/
def Grp (m : Nat) (g : Bytes) : Prop := ∃ xs : List Bytes, xs.length = m ∧ (∀ x ∈ xs, WF1 x) ∧ g = xs.flatten

theorem grp_one (x : Bytes) (h : WF1 x) : Grp 1 x :=
  ⟨[x], rfl, by intro y hy; simp at hy; subst hy; exact h, by simp⟩

theorem grp_two (x y : Bytes) (hx : WF1 x) (hy : WF1 y) : Grp 2 (x ++ y) :=
  ⟨[x, y], rfl, by
    intro z hz
    simp at hz
    rcases hz with rfl | rfl
    · exact hx
    · exact hy, by simp⟩

/-- a header counting `n * m` in front of `n` groups of `m` scalars each -/
theorem wf_groups (m : Nat) (gs : List Bytes) (h : ∀ g ∈ gs, Grp m g) :
    WF (arrHdr (gs.length * m) ++ gs.flatten) := by
  have key : ∃ xs : List Bytes, xs.length = gs.length * m ∧ (∀ x ∈ xs, WF1 x) ∧ gs.flatten = xs.flatten := by
    induction gs with
    | nil => exact ⟨[], by simp, (by intro x hx; cases hx), rfl⟩
    | cons g r ih =>
      obtain ⟨ys, hl, hw, he⟩ := ih (fun y hy => h y (List.mem_cons_of_mem _ hy))
      obtain ⟨xs, hxl, hxw, hxe⟩ := h g List.mem_cons_self
      refine ⟨xs ++ ys, ?_, ?_, ?_⟩
      · simp only [List.length_append, List.length_cons, hl, hxl, Nat.add_mul, Nat.one_mul]; omega
      · intro x hx
        rcases List.mem_append.mp hx with hx | hx
        · exact hxw x hx
        · exact hw x hx
      · simp [he, hxe]
  obtain ⟨xs, hl, hw, he⟩ := key
  rw [← hl, he]
  exact wf_arr xs hw

theorem wfok_perm (m : Nat) (groups : List Bytes) (h : ∀ g ∈ groups, Grp m g) :
    Res.WFok (.okPerm (arrHdr (groups.length * m)) groups) := by
  intro gs hp
  rw [← hp.length_eq]
  exact wf_groups m gs (fun g hg => h g (hp.mem_iff.mp hg))

theorem wfok_pick (m k : Nat) (d : Bool) (groups : List Bytes) (h : ∀ g ∈ groups, Grp m g) :
    Res.WFok (.okPick (arrHdr (k * m)) k d groups) := by
  intro picks hl hm
  rw [← hl]
  exact wf_groups m picks (fun g hg => h g (hm g hg))

theorem rx_permMap {α : Type} (E : Res → Prop) (m : Nat) (xs : List α) (f : α → Bytes) (h : ∀ x, Grp m (f x))
    (n : Nat) (hn : n = xs.length * m) : (Prog.ret (Res.okPerm (arrHdr n) (xs.map f))).AllRet (Res.WFx E) := by
  subst hn
  have := wfok_perm m (xs.map f) (by
    intro g hg
    rw [List.mem_map] at hg
    obtain ⟨x, _, hx⟩ := hg
    rw [← hx]; exact h x)
  rw [List.length_map] at this
  exact rx_res _ _ this

theorem rx_pickMap {α : Type} (E : Res → Prop) (m k : Nat) (d : Bool) (xs : List α) (f : α → Bytes)
    (h : ∀ x, Grp m (f x)) (n : Nat) (hn : n = k * m) :
    (Prog.ret (Res.okPick (arrHdr n) k d (xs.map f))).AllRet (Res.WFx E) := by
  subst hn
  refine rx_res _ _ (wfok_pick m k d (xs.map f) ?_)
  intro g hg
  rw [List.mem_map] at hg
  obtain ⟨x, _, hx⟩ := hg
  rw [← hx]; exact h x

/-! ### combinators -/

theorem plusV_rx (P : Res → Prop) (v : Val) (k : Bytes → Prog Res) (h : ∀ t, (k (simpleStr t)).AllRet P) :
    (plusV v k).AllRet P := by
  unfold plusV; split
  · exact h _
  · trivial

theorem setOrErr_rx (E : Res → Prop) (es : List (Bytes × Val)) (k : Prog Res) (h : k.AllRet (Res.WFx E)) :
    (setOrErr es k).AllRet (Res.WFx E) := by
  unfold setOrErr
  intro r; dsimp only; split
  · exact h
  · exact rx_err _ _

theorem adaptOr_rx (P : Res → Prop) (s : Bytes) (k : Val → Prog Res) (h : ∀ v, (k v).AllRet P) :
    (adaptOr s k).AllRet P := by
  unfold adaptOr; split
  · exact h _
  · trivial

theorem ofOutcome_rx {α : Type} (P : α → Prop) (o : Outcome α) (h : ∀ a, o = .done a → P a) :
    (Prog.ofOutcome o).AllRet P := by
  cases o with
  | done a => exact h a rfl
  | panic w => trivial
  | unmod w => trivial

theorem delEach_rx (P : Res → Prop) (ks : List Bytes) (k : Prog Res) (h : k.AllRet P) : (delEach ks k).AllRet P := by
  induction ks with
  | nil => exact h
  | cons x r ih => exact fun _ => ih

/-- leaf replies built by the standard builders -/
macro "wfleaf" : tactic => `(tactic| first
  | exact wf_int _
  | exact wf_ok
  | exact wf_nil
  | exact wf_bulk _
  | exact wf_emptyArr
  | exact wf_nullArr
  | exact wf_bulkArr _
  | exact wf_pong
  | exact wf_simple _ (by decide))

/-- discharge `AllRet (Res.WFx E)` goals of handler bodies: split control flow, peel `.call`s, close leaves -/
macro "wf" : tactic => `(tactic| (
  repeat' (first
    | exact rx_err _ _
    | exact rx_panic _ _
    | exact rx_unmod _ _
    | (refine rx_ok _ _ ?_; wfleaf)
    | (apply plusV_rx; intro _)
    | (apply setOrErr_rx)
    | (apply adaptOr_rx; intro _)
    | (apply delEach_rx)
    | (refine rx_call _ _ _ ?_; intro _)
    | split
    | (dsimp only))))

/-! ### nesting depth as a parameter: arrays of arrays (sorted-set member listings are `*n` of `*2 $member +score`) -/

/-- `r` is one RESP value of nesting depth at most `d` (`WF1 = WFd 1`, `WF = WFd 2`) -/
def WFd (d : Nat) (r : Bytes) : Prop := ∃ v, ∀ (f : Nat) (rest : Bytes), parseOne (f + d) (r ++ rest) = some (v, rest)

/-- one RESP value of nesting depth at most 3 (an array of arrays of scalars, or shallower) -/
abbrev WF3 (r : Bytes) : Prop := WFd 3 r

theorem WF1.toWFd {r : Bytes} (h : WF1 r) : WFd 1 r := h
theorem WF.toWFd {r : Bytes} (h : WF r) : WFd 2 r := h
theorem WFd.toWF {r : Bytes} (h : WFd 2 r) : WF r := h

theorem WFd.succ {d : Nat} {r : Bytes} (h : WFd d r) : WFd (d + 1) r := by
  obtain ⟨v, hv⟩ := h
  refine ⟨v, fun f rest => ?_⟩
  have := hv (f + 1) rest
  rwa [Nat.add_assoc, Nat.add_comm 1 d] at this

theorem WF.toWF3 {r : Bytes} (h : WF r) : WF3 r := (WF.toWFd h).succ

/-- a depth-bounded well-formed reply is accepted by the strict parser as exactly one value -/
theorem WFd.parses {d : Nat} {r : Bytes} (h : WFd d r) (hd : d ≤ r.length + 1) : (parseReply r).isSome = true := by
  obtain ⟨v, hv⟩ := h
  have := hv (r.length + 1 - d) []
  rw [List.append_nil, Nat.sub_add_cancel hd] at this
  simp [parseReply, this]

theorem WF3.parses {r : Bytes} (h : WF3 r) : (parseReply r).isSome = true := by
  refine WFd.parses h ?_
  obtain ⟨v, hv⟩ := h
  have h0 := hv 0 []
  cases r with
  | nil => simp [parseOne] at h0
  | cons c t =>
    cases t with
    | nil => simp [parseOne, splitCrlf] at h0
    | cons c2 t2 => simp

/-- the array-element loop consumes any list of values of depth at most `d` -/
theorem elems_wfd (d f : Nat) : ∀ (xs : List Bytes), (∀ x ∈ xs, WFd d x) → ∃ vs : List RespVal, ∀ (rest : Bytes) (acc : List RespVal),
    parseOne.elems (f + d) xs.length (xs.flatten ++ rest) acc = some (acc.reverse ++ vs, rest) := by
  intro xs
  induction xs with
  | nil => intro _; exact ⟨[], fun rest acc => by simp [parseOne.elems]⟩
  | cons x r ih =>
    intro h
    obtain ⟨vs, hvs⟩ := ih (fun y hy => h y (List.mem_cons_of_mem _ hy))
    obtain ⟨v, hv⟩ := h x List.mem_cons_self
    refine ⟨v :: vs, fun rest acc => ?_⟩
    simp only [List.length_cons, List.flatten_cons, List.append_assoc]
    unfold parseOne.elems
    rw [hv]
    simp only
    rw [hvs]
    simp

/-- an array header with the right count in front of that many values of depth ≤ `d` is one value of depth ≤ `d + 1` -/
theorem wfd_arr (d : Nat) (xs : List Bytes) (h : ∀ x ∈ xs, WFd d x) : WFd (d + 1) (arrHdr xs.length ++ xs.flatten) := by
  obtain ⟨vs0, h0⟩ := elems_wfd d 0 xs h
  have same : ∀ f, ∀ (rest : Bytes) (acc : List RespVal),
      parseOne.elems (f + d) xs.length (xs.flatten ++ rest) acc = some (acc.reverse ++ vs0, rest) := by
    intro f
    induction xs generalizing vs0 with
    | nil =>
      intro rest acc
      have := h0 rest acc
      simp [parseOne.elems] at this ⊢
      exact this
    | cons x r ih =>
      intro rest acc
      obtain ⟨v, hv⟩ := h x List.mem_cons_self
      have h0' := h0
      simp only [List.length_cons, List.flatten_cons, List.append_assoc] at h0' ⊢
      unfold parseOne.elems at h0' ⊢
      simp only [hv] at h0' ⊢
      obtain ⟨vs1, h1⟩ := elems_wfd d 0 r (fun y hy => h y (List.mem_cons_of_mem _ hy))
      have hvs : vs0 = v :: vs1 := by
        have a := h0' [] []
        rw [h1] at a
        simpa using a.symm
      subst hvs
      have := ih (fun y hy => h y (List.mem_cons_of_mem _ hy)) vs1 h1 rest (v :: acc)
      rw [this]; simp
  refine ⟨.arr vs0, fun f rest => ?_⟩
  have e : (arrHdr xs.length ++ xs.flatten) ++ rest =
      42 :: (natDigits xs.length ++ 13 :: 10 :: (xs.flatten ++ rest)) := by
    simp [arrHdr, fmtNat, crlf]
  have ef : f + (d + 1) = (f + d) + 1 := by omega
  rw [e, ef]
  simp only [parseOne, splitCrlf_clean _ _ (cleanLine_natDigits _), cleanLine_natDigits, Bool.not_true,
    Bool.false_eq_true, if_false, b42.1, b42.2.1, b42.2.2.1, b42.2.2.2, natDigits_ne_minus1, allDigits_natDigits,
    digitsVal_natDigits, same f rest []]
  simp

theorem wfd_arrMap {α : Type} (d : Nat) (xs : List α) (f : α → Bytes) (h : ∀ x, WFd d (f x)) :
    WFd (d + 1) (arrHdr xs.length ++ (xs.map f).flatten) := by
  have := wfd_arr d (xs.map f) (by
    intro y hy
    simp only [List.mem_map] at hy
    obtain ⟨x, _, rfl⟩ := hy
    exact h x)
  simpa using this

/-- `*1` in front of one scalar -/
theorem wf_arr1 (a : Bytes) (ha : WF1 a) : WF (arrHdr 1 ++ a) := by
  have := wf_arr [a] (by intro x hx; simp at hx; subst hx; exact ha)
  simpa using this

/-- `*2` in front of two scalars -/
theorem wf_arr2 (a c : Bytes) (ha : WF1 a) (hc : WF1 c) : WF (arrHdr 2 ++ a ++ c) := by
  have := wf_arr [a, c] (by
    intro x hx
    simp at hx
    rcases hx with rfl | rfl
    · exact ha
    · exact hc)
  simpa [List.append_assoc] using this

/-- success replies are exactly one RESP value of nesting depth at most 3 (whatever arrangement is emitted) -/
def Res.WFok3 : Res → Prop
  | .ok r => WF3 r
  | .err _ => True
  | .okPerm hdr groups => ∀ gs : List Bytes, gs.Perm groups → WF3 (hdr ++ gs.flatten)
  | .okPick hdr k _ groups => ∀ picks : List Bytes, picks.length = k → (∀ g ∈ picks, g ∈ groups) →
      WF3 (hdr ++ picks.flatten)

theorem Res.WFok.to3 {r : Res} (h : Res.WFok r) : Res.WFok3 r := by
  cases r with
  | ok r => exact WF.toWF3 h
  | err m => trivial
  | okPerm hdr groups => exact fun gs hp => WF.toWF3 (h gs hp)
  | okPick hdr k d groups => exact fun picks hl hm => WF.toWF3 (h picks hl hm)

/-- depth-3 well-formed, or a member of the named exception class -/
def Res.WFx3 (E : Res → Prop) (r : Res) : Prop := Res.WFok3 r ∨ E r

/-- `WFx` with the depth-3 replies as the "exception": the `wf` tactic then proves depth ≤ 3 -/
theorem allRet_full3 {p : Prog Res} (h : p.AllRet (Res.WFx Res.WFok3)) : p.AllRet Res.WFok3 :=
  allRet_mono (fun _ hr => hr.elim Res.WFok.to3 id) p h

theorem allRet_to3 {p : Prog Res} (h : p.AllRet Res.WFok) : p.AllRet Res.WFok3 :=
  allRet_mono (fun _ hr => hr.to3) p h

/-- the members of a map-order reply are depth-2 values, the header counts them -/
theorem wfok3_perm (groups : List Bytes) (h : ∀ g ∈ groups, WF g) :
    Res.WFok3 (.okPerm (arrHdr groups.length) groups) := by
  intro gs hp
  rw [← hp.length_eq]
  exact wfd_arr 2 gs (fun g hg => h g (hp.mem_iff.mp hg))

theorem wfok3_pick (k : Nat) (d : Bool) (groups : List Bytes) (h : ∀ g ∈ groups, WF g) :
    Res.WFok3 (.okPick (arrHdr k) k d groups) := by
  intro picks hl hm
  rw [← hl]
  exact wfd_arr 2 picks (fun g hg => h g (hm g hg))

end Sugar
