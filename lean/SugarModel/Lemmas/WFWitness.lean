/-
  Lemmas.WFWitness — the exceptions of `wfExceptions` are real: for each handler with a `_wf_partial`
  theorem, a concrete context, state and command on which the model answers a success reply that the strict
  RESP parser rejects (and that therefore is not `WF`). The former second class — the unterminated empty
  array `*0` of the set listings — was repaired upstream: its reachability witnesses are gone, replaced by
  runs showing the terminated `*0\r\n`.
-/
import SugarModel.Lemmas.WFTable
namespace Sugar

/-- a reply the strict parser rejects is not well-formed -/
theorem not_wf_of_parse {r : Bytes} (h : (parseReply r).isSome = false) : ¬ WF r := by
  intro hw
  have := hw.parses
  rw [h] at this
  cases this

namespace WFWitness

def c0 : Ctx := { db := 0, now := 1000 }
/-- key `k` holds the string `a\r\nb` -/
def sCrlf : State := { dbs := [(0, ⟨[(b "k", ⟨.str (b "a\r\nb"), none⟩)], []⟩)], mem := 57 }
/-- key `k` holds an empty set, key `j` the set {x}, key `l` the set {y} -/
def sSets : State := { dbs := [(0, ⟨[(b "k", ⟨.set 0 [], none⟩), (b "j", ⟨.set 0 [b "x"], none⟩),
  (b "l", ⟨.set 0 [b "y"], none⟩)], []⟩)], mem := 200 }

/-- the malformed reply: a simple string whose text holds CR LF -/
def dirtyReply : Bytes := b "+a\r\nb\r\n"

theorem dirtyReply_rejected : (parseReply dirtyReply).isSome = false := by
  have e : dirtyReply = [43, 97, 13, 10, 98, 13, 10] := by decide
  rw [e]
  simp [parseReply, parseOne, splitCrlf, cleanLine]
/-- `*1\r\n` announces one element and delivers none -/
theorem star1_rejected : (parseReply (b "*1\r\n")).isSome = false := by
  have e : b "*1\r\n" = [42, 49, 13, 10] := by decide
  have h1 : ([49] : Bytes) ≠ b "-1" := by decide
  have h2 : allDigits [49] = true := by decide
  have h3 : digitsVal [49] = 1 := by decide
  rw [e]
  simp [parseReply, parseOne, splitCrlf, cleanLine, h1, h2, h3]
  unfold parseOne.elems
  simp [parseOne]
theorem dirtyReply_not_wf : ¬ WF dirtyReply := not_wf_of_parse dirtyReply_rejected
theorem dirtyReply_not_wfok : ¬ Res.WFok (.ok dirtyReply) := dirtyReply_not_wf

/-- GET answers `+a\r\nb\r\n` for a stored value containing CR LF -/
theorem get_dirty : ((handleGet c0 [b "get", b "k"]).run c0 sCrlf).2 = .done (.ok dirtyReply) := by decide
/-- GETDEL likewise -/
theorem getdel_dirty : ((handleGetdel c0 [b "getdel", b "k"]).run c0 sCrlf).2 = .done (.ok dirtyReply) := by decide
/-- GETEX likewise -/
theorem getex_dirty : ((handleGetex c0 [b "getex", b "k"]).run c0 sCrlf).2 = .done (.ok dirtyReply) := by decide
/-- SET … GET answers the old value the same way -/
theorem set_dirty : ((handleSet c0 [b "set", b "k", b "v", b "get"]).run c0 sCrlf).2 = .done (.ok dirtyReply) := by decide

/-! ### repaired upstream: the empty set listings are terminated (formerly the bare `*0`) -/

/-- SMEMBERS of a stored empty set answers the header `*0\r\n` and no members -/
theorem smembers_empty_terminated :
    ((handleSMembers c0 [b "smembers", b "k"]).run c0 sSets).2 = .done (.okPerm (b "*0\r\n") []) := by decide
/-- SRANDMEMBER with count 0 -/
theorem srandmember_zero_terminated :
    ((handleSRandMember c0 [b "srandmember", b "j", b "0"]).run c0 sSets).2 = .done (.ok (b "*0\r\n")) := by decide
/-- SDIFF of a set with itself -/
theorem sdiff_empty_terminated :
    ((handleSDiff false c0 [b "sdiff", b "j", b "j"]).run c0 sSets).2 = .done (.okPerm (b "*0\r\n") []) := by decide
/-- SINTER of two disjoint sets -/
theorem sinter_empty_terminated :
    ((handleSInter 0 c0 [b "sinter", b "j", b "l"]).run c0 sSets).2 = .done (.okPerm (b "*0\r\n") []) := by decide

/-- MGET is in the exception list only because its well-formedness needs the `GetValues` length
    postcondition: over *arbitrary* primitive results the syntactic statement is false -/
theorem mget_not_allRet : ¬ (handleMGet c0 [b "mget", b "k"]).AllRet Res.WFok := by
  intro h
  have h1 : Res.WFok (.ok (b "*1\r\n")) := h []
  exact not_wf_of_parse star1_rejected h1

/-! ### the nested member listings (`wfNested`) really need depth 3 -/

/-- key `z` holds the sorted set {a ↦ 1} -/
def sZ : State := { dbs := [(0, ⟨[(b "z", ⟨.zset 0 [(b "a", .fin ⟨1, 0⟩)], none⟩)], []⟩)], mem := 100 }

/-- `*1` of `*2 $a +1` -/
def nestedReply : Bytes := b "*1\r\n*2\r\n$1\r\na\r\n+1\r\n"

/-- ZRANGE … WITHSCORES answers an array of arrays -/
theorem zrange_nested :
    ((handleZRange c0 [b "zrange", b "z", b "0", b "5", b "withscores"]).run c0 sZ).2 = .done (.ok nestedReply) := by
  decide

/-- … which is one RESP value of depth 3 (instance of `handleZRange_wf3`) -/
theorem nestedReply_wf3 : WF3 nestedReply :=
  allRet_run Res.WFok3 c0 _ sZ (handleZRange_wf3 c0 _) _ zrange_nested

theorem nestedReply_parses : (parseReply nestedReply).isSome = true := nestedReply_wf3.parses

/-- … and not of depth 2: with two levels of fuel the inner array's elements are out of reach -/
theorem nestedReply_not_wf : ¬ WF nestedReply := by
  intro ⟨v, hv⟩
  have h0 := hv 0 []
  have e : nestedReply ++ [] = [42, 49, 13, 10, 42, 50, 13, 10, 36, 49, 13, 10, 97, 13, 10, 43, 49, 13, 10] := by decide
  have h1 : ([49] : Bytes) ≠ b "-1" := by decide
  have h2 : allDigits [49] = true := by decide
  have h3 : digitsVal [49] = 1 := by decide
  have k1 : ([50] : Bytes) ≠ b "-1" := by decide
  have k2 : allDigits [50] = true := by decide
  have k3 : digitsVal [50] = 2 := by decide
  rw [e] at h0
  simp [parseOne, splitCrlf, cleanLine, h1, h2, h3, k1, k2, k3, parseOne.elems] at h0

end WFWitness
end Sugar
