/-
  Lemmas.HeapLemmas — Go's container/heap on a list (Model.Evict `up`, `down`, `hpush`, `hpop`):
  the heap invariant w.r.t. any strict weak order is re-established by `up` from a single upward defect
  and by `down` from a single downward defect. Helper lemmas only; the property statements are in Props/C08.
-/
import SugarModel.Model.Evict
import SugarModel.Lemmas.Pure
namespace Sugar.Evict
variable {α : Type}

/-- what `Less` has to be for the heap invariant to mean anything: a strict weak order -/
structure StrictWeak (lt : α → α → Bool) : Prop where
  irrefl : ∀ a, lt a a = false
  trans : ∀ a b c, lt a b = true → lt b c = true → lt a c = true
  negTrans : ∀ a b c, lt a b = false → lt b c = false → lt a c = false

theorem StrictWeak.asymm {lt : α → α → Bool} (h : StrictWeak lt) {a c : α} (hac : lt a c = true) : lt c a = false := by
  cases hca : lt c a with
  | false => rfl
  | true =>
    have := h.trans a c a hac hca
    rw [h.irrefl] at this
    contradiction

/-- no child is `Less` than its parent -/
def Heap (lt : α → α → Bool) (xs : List α) : Prop :=
  ∀ k a p, 0 < k → xs[k]? = some a → xs[(k - 1) / 2]? = some p → lt a p = false

/-- the same on the first `n` cells -/
def HeapN (lt : α → α → Bool) (xs : List α) (n : Nat) : Prop :=
  ∀ k a p, 0 < k → k < n → xs[k]? = some a → xs[(k - 1) / 2]? = some p → lt a p = false

theorem swap_length (xs : List α) (i j : Nat) : (swap xs i j).length = xs.length := by
  unfold swap; split <;> simp

theorem lt_len_of_get {xs : List α} {i : Nat} {a : α} (h : xs[i]? = some a) : i < xs.length := by
  rcases List.getElem?_eq_some_iff.mp h with ⟨h, _⟩; exact h

theorem swap_get (xs : List α) (i j k : Nat) (a c : α) (hi : xs[i]? = some a) (hj : xs[j]? = some c) :
    (swap xs i j)[k]? = if k = j then some a else if k = i then some c else xs[k]? := by
  have hil := lt_len_of_get hi
  have hjl := lt_len_of_get hj
  unfold swap
  rw [hi, hj]
  simp only [List.getElem?_set, List.length_set]
  by_cases h1 : k = j
  · subst h1; simp [hjl]
  · by_cases h2 : k = i
    · subst h2; simp [hil, h1, Ne.symm h1]
    · simp [h1, h2, Ne.symm h1, Ne.symm h2]

theorem lessAt_true {lt : α → α → Bool} {xs : List α} {i j : Nat} (h : lessAt lt xs i j = true) :
    ∃ a c, xs[i]? = some a ∧ xs[j]? = some c ∧ lt a c = true := by
  unfold lessAt at h
  split at h
  · next a c ha hc => exact ⟨a, c, ha, hc, h⟩
  · simp at h

theorem lessAt_false {lt : α → α → Bool} {xs : List α} {i j : Nat} {a c : α} (h : lessAt lt xs i j = false)
    (ha : xs[i]? = some a) (hc : xs[j]? = some c) : lt a c = false := by
  unfold lessAt at h
  rw [ha, hc] at h
  exact h

theorem upF_length (lt : α → α → Bool) : ∀ (fuel : Nat) (xs : List α) (j : Nat), (upF lt fuel xs j).length = xs.length := by
  intro fuel
  induction fuel with
  | zero => intro xs j; simp [upF]
  | succ fuel ih =>
    intro xs j
    unfold upF
    by_cases j0 : j = 0
    · simp only [j0, if_true]
    · simp only [j0, if_false]
      cases hl : lessAt lt xs j ((j - 1) / 2) with
      | false => simp
      | true => simp only [if_true]; rw [ih, swap_length]

/-! ### up -/

/-- the first `n` cells form a heap except for the pair (j, parent j); the children of j already respect j's parent -/
def UpInvN (lt : α → α → Bool) (xs : List α) (j n : Nat) : Prop :=
  (∀ k a p, 0 < k → k < n → k ≠ j → xs[k]? = some a → xs[(k - 1) / 2]? = some p → lt a p = false) ∧
  (∀ k a g, 0 < j → 0 < k → k < n → (k - 1) / 2 = j → xs[k]? = some a → xs[(j - 1) / 2]? = some g → lt a g = false)

theorem upInvN_swap {lt : α → α → Bool} (h : StrictWeak lt) (xs : List α) (j n : Nat) (hj : 0 < j) (hjn : j < n) (a p : α)
    (ha : xs[j]? = some a) (hp : xs[(j - 1) / 2]? = some p) (hlt : lt a p = true) (inv : UpInvN lt xs j n) :
    UpInvN lt (swap xs ((j - 1) / 2) j) ((j - 1) / 2) n := by
  obtain ⟨c1, c2⟩ := inv
  have sg := fun k => swap_get xs ((j - 1) / 2) j k p a hp ha
  constructor
  · intro k a' p' hk hkn hki hka hkp
    rw [sg] at hka hkp
    by_cases e1 : k = j
    · subst e1
      rw [if_pos rfl] at hka
      have n1 : (k - 1) / 2 ≠ k := by omega
      rw [if_neg n1, if_pos rfl] at hkp
      cases hka; cases hkp
      exact h.asymm hlt
    · rw [if_neg e1, if_neg hki] at hka
      by_cases e2 : (k - 1) / 2 = j
      · rw [if_pos e2] at hkp
        cases hkp
        exact c2 k _ _ hj hk hkn e2 hka hp
      · rw [if_neg e2] at hkp
        by_cases e3 : (k - 1) / 2 = (j - 1) / 2
        · rw [if_pos e3] at hkp
          cases hkp
          have hfp : lt a' p = false := c1 k a' p hk hkn e1 hka (by rw [e3]; exact hp)
          cases hq : lt a' a with
          | false => rfl
          | true =>
            have := h.trans a' a p hq hlt
            rw [hfp] at this; contradiction
        · rw [if_neg e3] at hkp
          exact c1 k a' p' hk hkn e1 hka hkp
  · intro k a' g hi0 hk hkn hpar hka hg
    rw [sg] at hka hg
    have n1 : ((j - 1) / 2 - 1) / 2 ≠ j := by omega
    have n2 : ((j - 1) / 2 - 1) / 2 ≠ (j - 1) / 2 := by omega
    rw [if_neg n1, if_neg n2] at hg
    have hpg : lt p g = false := c1 ((j - 1) / 2) p g hi0 (by omega) (by omega) hp hg
    by_cases e1 : k = j
    · subst e1
      rw [if_pos rfl] at hka
      cases hka
      exact hpg
    · have e2 : k ≠ (j - 1) / 2 := by omega
      rw [if_neg e1, if_neg e2] at hka
      have hfp : lt a' p = false := c1 k a' p hk hkn e1 hka (by rw [hpar]; exact hp)
      exact h.negTrans a' p g hfp hpg

theorem upF_heapN {lt : α → α → Bool} (h : StrictWeak lt) :
    ∀ (fuel : Nat) (xs : List α) (j n : Nat), j ≤ fuel → j < n → UpInvN lt xs j n → HeapN lt (upF lt fuel xs j) n := by
  intro fuel
  induction fuel with
  | zero =>
    intro xs j n hj _ inv
    have : j = 0 := by omega
    subst this
    simp only [upF]
    intro k a p hk hkn hka hkp
    exact inv.1 k a p hk hkn (by omega) hka hkp
  | succ fuel ih =>
    intro xs j n hj hjn inv
    unfold upF
    by_cases j0 : j = 0
    · simp only [j0, if_true]
      intro k a p hk hkn hka hkp
      exact inv.1 k a p hk hkn (by omega) hka hkp
    · simp only [j0, if_false]
      cases hl : lessAt lt xs j ((j - 1) / 2) with
      | false =>
        simp only [Bool.false_eq_true, if_false]
        intro k a p hk hkn hka hkp
        by_cases e : k = j
        · subst e; exact lessAt_false hl hka hkp
        · exact inv.1 k a p hk hkn e hka hkp
      | true =>
        simp only [if_true]
        obtain ⟨a, p, ha, hp, hlt⟩ := lessAt_true hl
        exact ih _ _ n (by omega) (by omega) (upInvN_swap h xs j n (by omega) hjn a p ha hp hlt inv)

theorem heapN_length {lt : α → α → Bool} {xs : List α} (hN : HeapN lt xs xs.length) : Heap lt xs := by
  intro k a p hk hka hkp
  exact hN k a p hk (lt_len_of_get hka) hka hkp

theorem heap_heapN {lt : α → α → Bool} {xs : List α} (hp : Heap lt xs) (n : Nat) : HeapN lt xs n := by
  intro k a p hk _ hka hkp
  exact hp k a p hk hka hkp

/-- `up` never touches the cells above its starting point -/
theorem upF_frame (lt : α → α → Bool) :
    ∀ (fuel : Nat) (xs : List α) (j k : Nat), j < k → (upF lt fuel xs j)[k]? = xs[k]? := by
  intro fuel
  induction fuel with
  | zero => intro xs j k _; simp [upF]
  | succ fuel ih =>
    intro xs j k hjk
    unfold upF
    by_cases j0 : j = 0
    · simp only [j0, if_true]
    · simp only [j0, if_false]
      cases hl : lessAt lt xs j ((j - 1) / 2) with
      | false => simp
      | true =>
        simp only [if_true]
        obtain ⟨a, p, ha, hp, _⟩ := lessAt_true hl
        rw [ih _ _ k (by omega), swap_get xs _ j k p a hp ha]
        have n1 : k ≠ j := by omega
        have n2 : k ≠ (j - 1) / 2 := by omega
        rw [if_neg n1, if_neg n2]

/-- a heap except for the pair (j, parent j) — whole-list form used by `heap.Push` -/
def UpInv (lt : α → α → Bool) (xs : List α) (j : Nat) : Prop :=
  (∀ k a p, 0 < k → k ≠ j → xs[k]? = some a → xs[(k - 1) / 2]? = some p → lt a p = false) ∧
  (∀ k a g, 0 < j → 0 < k → (k - 1) / 2 = j → xs[k]? = some a → xs[(j - 1) / 2]? = some g → lt a g = false)

theorem upF_heap {lt : α → α → Bool} (h : StrictWeak lt) (fuel : Nat) (xs : List α) (j : Nat) (hjf : j ≤ fuel)
    (hjl : j < xs.length) (inv : UpInv lt xs j) : Heap lt (upF lt fuel xs j) := by
  apply heapN_length
  rw [upF_length]
  apply upF_heapN h fuel xs j xs.length hjf hjl
  exact ⟨fun k a p hk _ hkj hka hkp => inv.1 k a p hk hkj hka hkp,
         fun k a g hj hk _ hpar hka hg => inv.2 k a g hj hk hpar hka hg⟩

/-! ### down -/

/-- the first `n` cells form a heap except for the pairs (child of i, i); i's children respect i's parent -/
def DownInv (lt : α → α → Bool) (xs : List α) (i n : Nat) : Prop :=
  (∀ k a p, 0 < k → k < n → (k - 1) / 2 ≠ i → xs[k]? = some a → xs[(k - 1) / 2]? = some p → lt a p = false) ∧
  (∀ k a g, 0 < i → 0 < k → k < n → (k - 1) / 2 = i → xs[k]? = some a → xs[(i - 1) / 2]? = some g → lt a g = false)

/-- the chosen child: the right one iff it exists below `n` and is `Less` than the left one -/
def pickChild (lt : α → α → Bool) (xs : List α) (i n : Nat) : Nat :=
  if 2 * i + 1 + 1 < n && lessAt lt xs (2 * i + 1 + 1) (2 * i + 1) then 2 * i + 1 + 1 else 2 * i + 1

theorem pickChild_cases (lt : α → α → Bool) (xs : List α) (i n : Nat) :
    (pickChild lt xs i n = 2 * i + 2 ∧ 2 * i + 2 < n ∧ lessAt lt xs (2 * i + 2) (2 * i + 1) = true) ∨
    (pickChild lt xs i n = 2 * i + 1 ∧ (2 * i + 2 < n → lessAt lt xs (2 * i + 2) (2 * i + 1) = false)) := by
  unfold pickChild
  by_cases h1 : 2 * i + 1 + 1 < n
  · cases h2 : lessAt lt xs (2 * i + 1 + 1) (2 * i + 1) with
    | true => left; simp [h1, h2]
    | false => right; simp [h2]
  · right
    simp [h1]

/-- the sibling of the picked child is not `Less` than it -/
theorem sibling_ge {lt : α → α → Bool} (h : StrictWeak lt) (xs : List α) (i n k : Nat) (a' c : α)
    (hk : k < n) (hpar : (k - 1) / 2 = i) (hk0 : 0 < k) (hne : k ≠ pickChild lt xs i n)
    (hka : xs[k]? = some a') (hc : xs[pickChild lt xs i n]? = some c) : lt a' c = false := by
  have kk : k = 2 * i + 1 ∨ k = 2 * i + 2 := by omega
  rcases pickChild_cases lt xs i n with ⟨e, _, hl⟩ | ⟨e, hl⟩
  · rw [e] at hne hc
    have : k = 2 * i + 1 := by omega
    subst this
    obtain ⟨x, y, hx, hy, hxy⟩ := lessAt_true hl
    rw [hc] at hx; rw [hka] at hy
    cases hx; cases hy
    exact h.asymm hxy
  · rw [e] at hne hc
    have : k = 2 * i + 2 := by omega
    subst this
    exact lessAt_false (hl hk) hka hc

theorem downInv_swap {lt : α → α → Bool} (h : StrictWeak lt) (xs : List α) (i n : Nat)
    (hj1 : 2 * i + 1 < n) (a0 p0 : α)
    (ha : xs[pickChild lt xs i n]? = some a0) (hp : xs[i]? = some p0) (hlt : lt a0 p0 = true)
    (inv : DownInv lt xs i n) :
    DownInv lt (swap xs i (pickChild lt xs i n)) (pickChild lt xs i n) n := by
  obtain ⟨c1, c2⟩ := inv
  have hjn : pickChild lt xs i n < n := by
    rcases pickChild_cases lt xs i n with ⟨e, hh, _⟩ | ⟨e, _⟩ <;> omega
  have hjpar : (pickChild lt xs i n - 1) / 2 = i := by
    rcases pickChild_cases lt xs i n with ⟨e, _, _⟩ | ⟨e, _⟩ <;> omega
  have hj0 : 0 < pickChild lt xs i n := by
    rcases pickChild_cases lt xs i n with ⟨e, _, _⟩ | ⟨e, _⟩ <;> omega
  have sib := fun k a' hk1 hk2 hk3 hk4 hk5 => sibling_ge h xs i n k a' a0 hk1 hk2 hk3 hk4 hk5 ha
  have sg := fun k => swap_get xs i (pickChild lt xs i n) k p0 a0 hp ha
  have hij : i < pickChild lt xs i n := by omega
  constructor
  · intro k a' p' hk hkn hpar hka hkp
    rw [sg] at hka hkp
    by_cases e1 : k = pickChild lt xs i n
    · rw [if_pos e1] at hka
      have n1 : (k - 1) / 2 ≠ pickChild lt xs i n := by omega
      have n2 : (k - 1) / 2 = i := by omega
      rw [if_neg n1, if_pos n2] at hkp
      cases hka; cases hkp
      exact h.asymm hlt
    · rw [if_neg e1] at hka
      by_cases e2 : k = i
      · rw [if_pos e2] at hka
        cases hka
        have n1 : (k - 1) / 2 ≠ pickChild lt xs i n := by omega
        have n2 : (k - 1) / 2 ≠ i := by omega
        rw [if_neg n1, if_neg n2] at hkp
        have hi0 : 0 < i := by omega
        exact c2 (pickChild lt xs i n) _ _ hi0 hj0 hjn hjpar ha (by rw [← e2]; exact hkp)
      · rw [if_neg e2] at hka
        rw [if_neg hpar] at hkp
        by_cases e3 : (k - 1) / 2 = i
        · rw [if_pos e3] at hkp
          cases hkp
          exact sib k a' hkn e3 hk e1 hka
        · rw [if_neg e3] at hkp
          exact c1 k a' p' hk hkn e3 hka hkp
  · intro k a' g hj0' hk hkn hpar hka hg
    rw [sg] at hka hg
    have e1 : k ≠ pickChild lt xs i n := by omega
    have e2 : k ≠ i := by omega
    rw [if_neg e1, if_neg e2] at hka
    have n1 : (pickChild lt xs i n - 1) / 2 ≠ pickChild lt xs i n := by omega
    rw [if_neg n1, if_pos hjpar] at hg
    cases hg
    exact c1 k _ _ hk hkn (by omega) hka (by rw [hpar]; exact ha)

theorem downF_unfold (lt : α → α → Bool) (fuel : Nat) (xs : List α) (i n : Nat) :
    downF lt (fuel + 1) xs i n =
      if 2 * i + 1 ≥ n then (xs, i) else
      if !lessAt lt xs (pickChild lt xs i n) i then (xs, i) else
      downF lt fuel (swap xs i (pickChild lt xs i n)) (pickChild lt xs i n) n := by
  rfl

theorem downF_heap {lt : α → α → Bool} (h : StrictWeak lt) :
    ∀ (fuel : Nat) (xs : List α) (i n : Nat), n ≤ fuel + i → DownInv lt xs i n → HeapN lt (downF lt fuel xs i n).1 n := by
  intro fuel
  induction fuel with
  | zero =>
    intro xs i n hf inv
    simp only [downF]
    intro k a p hk hkn hka hkp
    exact inv.1 k a p hk hkn (by omega) hka hkp
  | succ fuel ih =>
    intro xs i n hf inv
    rw [downF_unfold]
    by_cases hj1 : 2 * i + 1 ≥ n
    · simp only [hj1, if_true]
      intro k a p hk hkn hka hkp
      exact inv.1 k a p hk hkn (by omega) hka hkp
    · simp only [hj1, if_false]
      have hjpar : (pickChild lt xs i n - 1) / 2 = i := by
        rcases pickChild_cases lt xs i n with ⟨e, _, _⟩ | ⟨e, _⟩ <;> omega
      have hjn : pickChild lt xs i n < n := by
        rcases pickChild_cases lt xs i n with ⟨e, hh, _⟩ | ⟨e, _⟩ <;> omega
      have hj0 : 0 < pickChild lt xs i n := by
        rcases pickChild_cases lt xs i n with ⟨e, _, _⟩ | ⟨e, _⟩ <;> omega
      cases hl : lessAt lt xs (pickChild lt xs i n) i with
      | false =>
        simp only [Bool.not_false, if_true]
        intro k a p hk hkn hka hkp
        by_cases e : (k - 1) / 2 = i
        · rw [e] at hkp
          by_cases e2 : k = pickChild lt xs i n
          · subst e2; exact lessAt_false hl hka hkp
          · -- the other child: not Less than the picked one, which is not Less than the parent
            cases hc : xs[pickChild lt xs i n]? with
            | none =>
              -- the picked child is below n ≤ length? if absent, k (same parent, below n) …
              have kk : k = 2 * i + 1 ∨ k = 2 * i + 2 := by omega
              have hkl := lt_len_of_get hka
              rcases pickChild_cases lt xs i n with ⟨e3, _, hl3⟩ | ⟨e3, hl3⟩
              · obtain ⟨x, y, hx, _, _⟩ := lessAt_true hl3
                rw [e3] at hc; rw [hc] at hx; contradiction
              · rw [e3] at hc e2
                have : k = 2 * i + 2 := by omega
                have hlen : 2 * i + 1 < xs.length := by omega
                have := List.getElem?_eq_none_iff.mp hc
                omega
            | some c =>
              have s1 := sibling_ge h xs i n k a c hkn e hk e2 hka hc
              have s2 := lessAt_false hl hc hkp
              exact h.negTrans a c p s1 s2
        · exact inv.1 k a p hk hkn e hka hkp
      | true =>
        simp only [Bool.not_true, Bool.false_eq_true, if_false]
        obtain ⟨a0, p0, ha, hp, hlt⟩ := lessAt_true hl
        exact ih _ _ n (by omega) (downInv_swap h xs i n (by omega) a0 p0 ha hp hlt inv)

theorem downF_length (lt : α → α → Bool) :
    ∀ (fuel : Nat) (xs : List α) (i n : Nat), (downF lt fuel xs i n).1.length = xs.length := by
  intro fuel
  induction fuel with
  | zero => intro xs i n; simp [downF]
  | succ fuel ih =>
    intro xs i n
    rw [downF_unfold]
    split
    · rfl
    · split
      · rfl
      · rw [ih, swap_length]

/-- `down` never touches the cells from `n` on (as long as it starts below `n`) -/
theorem downF_frame (lt : α → α → Bool) :
    ∀ (fuel : Nat) (xs : List α) (i n k : Nat), n ≤ k → i < n → (downF lt fuel xs i n).1[k]? = xs[k]? := by
  intro fuel
  induction fuel with
  | zero => intro xs i n k _ _; simp [downF]
  | succ fuel ih =>
    intro xs i n k hk hi
    rw [downF_unfold]
    by_cases hj1 : 2 * i + 1 ≥ n
    · simp [hj1]
    · simp only [hj1, if_false]
      have hjn : pickChild lt xs i n < n := by
        rcases pickChild_cases lt xs i n with ⟨e, hh, _⟩ | ⟨e, _⟩ <;> omega
      cases hl : lessAt lt xs (pickChild lt xs i n) i with
      | false => simp
      | true =>
        simp only [Bool.not_true, Bool.false_eq_true, if_false]
        obtain ⟨a0, p0, ha, hp, _⟩ := lessAt_true hl
        rw [ih _ _ n k hk hjn, swap_get xs i _ k p0 a0 hp ha]
        have : k ≠ pickChild lt xs i n := by omega
        have : k ≠ i := by omega
        simp [*]

/-! ### the root is a minimum -/

theorem heap_root_min {lt : α → α → Bool} (h : StrictWeak lt) (xs : List α) (hp : Heap lt xs) (r : α)
    (hr : xs[0]? = some r) : ∀ (k : Nat) (a : α), xs[k]? = some a → lt a r = false := by
  intro k
  induction k using Nat.strongRecOn with
  | _ k ih =>
    intro a hka
    by_cases k0 : k = 0
    · subst k0
      rw [hr] at hka; cases hka
      exact h.irrefl _
    · have hkl := lt_len_of_get hka
      have hpl : (k - 1) / 2 < xs.length := by omega
      have hpe : xs[(k - 1) / 2]? = some (xs[(k - 1) / 2]) := List.getElem?_eq_getElem hpl
      have s1 := hp k a _ (by omega) hka hpe
      have s2 := ih ((k - 1) / 2) (by omega) _ hpe
      exact h.negTrans _ _ _ s1 s2

/-! ### Fix and Remove: one cell holds an arbitrary value -/

/-- the first `n` cells form a heap except for the pairs that involve cell i; i's children respect i's parent -/
def FixInvN (lt : α → α → Bool) (xs : List α) (i n : Nat) : Prop :=
  (∀ k a p, 0 < k → k < n → k ≠ i → (k - 1) / 2 ≠ i → xs[k]? = some a → xs[(k - 1) / 2]? = some p → lt a p = false) ∧
  (∀ k a g, 0 < i → 0 < k → k < n → (k - 1) / 2 = i → xs[k]? = some a → xs[(i - 1) / 2]? = some g → lt a g = false)

/-- when no child below `n` is `Less` than cell i, `down` leaves everything where it is -/
theorem downF_stays (lt : α → α → Bool) (fuel : Nat) (xs : List α) (i n : Nat)
    (hc : ∀ k a p, 0 < k → k < n → (k - 1) / 2 = i → xs[k]? = some a → xs[i]? = some p → lt a p = false) :
    downF lt fuel xs i n = (xs, i) := by
  cases fuel with
  | zero => rfl
  | succ fuel =>
    rw [downF_unfold]
    by_cases hj1 : 2 * i + 1 ≥ n
    · simp [hj1]
    · simp only [hj1, if_false]
      have hjpar : (pickChild lt xs i n - 1) / 2 = i := by
        rcases pickChild_cases lt xs i n with ⟨e, _, _⟩ | ⟨e, _⟩ <;> omega
      have hjn : pickChild lt xs i n < n := by
        rcases pickChild_cases lt xs i n with ⟨e, hh, _⟩ | ⟨e, _⟩ <;> omega
      have hj0 : 0 < pickChild lt xs i n := by
        rcases pickChild_cases lt xs i n with ⟨e, _, _⟩ | ⟨e, _⟩ <;> omega
      cases hl : lessAt lt xs (pickChild lt xs i n) i with
      | false => simp
      | true =>
        obtain ⟨a, p, ha, hp, hlt⟩ := lessAt_true hl
        have := hc _ a p hj0 hjn hjpar ha hp
        rw [this] at hlt; contradiction

/-- `down` then (if nothing moved) `up`, as heap.Fix and heap.Remove do, re-establishes the invariant on the first
    `n` cells whatever value cell i holds -/
theorem fix_heapN {lt : α → α → Bool} (h : StrictWeak lt) (xs : List α) (i n : Nat) (hin : i < n) (hnl : n ≤ xs.length)
    (inv : FixInvN lt xs i n) :
    HeapN lt (if (downF lt n xs i n).2 > i then (downF lt n xs i n).1 else upF lt i (downF lt n xs i n).1 i) n := by
  obtain ⟨f1, f2⟩ := inv
  have hil : i < xs.length := by omega
  have hxi : xs[i]? = some xs[i] := List.getElem?_eq_getElem hil
  -- is the pair (i, parent i) in order?
  by_cases hup : i = 0 ∨ (∀ g, xs[(i - 1) / 2]? = some g → lt xs[i] g = false)
  · -- yes: `down` alone yields a heap; a following `up` starts from a heap
    have dinv : DownInv lt xs i n := by
      constructor
      · intro k a p hk hkn hpar hka hkp
        by_cases e : k = i
        · subst e
          rcases hup with h0 | hg
          · omega
          · rw [hxi] at hka; cases hka
            exact hg p hkp
        · exact f1 k a p hk hkn e hpar hka hkp
      · exact f2
    have hN := downF_heap h n xs i n (by omega) dinv
    split
    · exact hN
    · apply upF_heapN h i _ i n (Nat.le_refl _) hin
      exact ⟨fun k a p hk hkn _ hka hkp => hN k a p hk hkn hka hkp,
             fun k a g hi0 hk hkn hpar hka hg =>
               -- child ≥ i ≥ parent(i) inside a heap
               by
                 have hkl := lt_len_of_get hka
                 have hdl : (downF lt n xs i n).1.length = xs.length := downF_length lt n xs i n
                 have hil' : i < (downF lt n xs i n).1.length := by omega
                 have hyi := List.getElem?_eq_getElem hil'
                 have s1 := hN k a _ hk hkn hka (by rw [hpar]; exact hyi)
                 have s2 := hN i _ g hi0 hin hyi hg
                 exact h.negTrans _ _ _ s1 s2⟩
  · -- no: cell i is Less than its parent, hence than nothing below it: `down` stays, `up` repairs
    have hi0 : 0 < i := by
      rcases Nat.eq_zero_or_pos i with e | e
      · exact absurd (Or.inl e) hup
      · exact e
    have ⟨g, hg, hlt⟩ : ∃ g, xs[(i - 1) / 2]? = some g ∧ lt xs[i] g = true := by
      have hpl : (i - 1) / 2 < xs.length := by omega
      refine ⟨xs[(i - 1) / 2], List.getElem?_eq_getElem hpl, ?_⟩
      cases hq : lt xs[i] xs[(i - 1) / 2] with
      | true => rfl
      | false =>
        exfalso; apply hup; right
        intro g' hg'
        rw [List.getElem?_eq_getElem hpl] at hg'; cases hg'
        exact hq
    have hchild : ∀ k a p, 0 < k → k < n → (k - 1) / 2 = i → xs[k]? = some a → xs[i]? = some p → lt a p = false := by
      intro k a p hk hkn hpar hka hp
      rw [hxi] at hp; cases hp
      have s1 := f2 k a g hi0 hk hkn hpar hka hg
      cases hq : lt a xs[i] with
      | false => rfl
      | true =>
        have := h.trans _ _ _ hq hlt
        rw [s1] at this; contradiction
    rw [downF_stays lt n xs i n hchild]
    simp only [Nat.lt_irrefl, if_false]
    apply upF_heapN h i xs i n (Nat.le_refl _) hin
    constructor
    · intro k a p hk hkn hki hka hkp
      by_cases e : (k - 1) / 2 = i
      · rw [e] at hkp
        exact hchild k a p hk hkn e hka hkp
      · exact f1 k a p hk hkn hki e hka hkp
    · exact f2

/-- a heap in which cell i was overwritten satisfies `FixInvN` -/
theorem fixInvN_of_set {lt : α → α → Bool} (h : StrictWeak lt) (xs : List α) (i : Nat) (v : α) (hp : Heap lt xs) :
    FixInvN lt (xs.set i v) i xs.length := by
  constructor
  · intro k a p hk _ hki hpar hka hkp
    rw [List.getElem?_set] at hka hkp
    rw [if_neg (Ne.symm hki)] at hka
    rw [if_neg (Ne.symm hpar)] at hkp
    exact hp k a p hk hka hkp
  · intro k a g hi0 hk _ hpar hka hg
    have n1 : i ≠ k := by omega
    have n2 : i ≠ (i - 1) / 2 := by omega
    rw [List.getElem?_set, if_neg n1] at hka
    rw [List.getElem?_set, if_neg n2] at hg
    have hkl := lt_len_of_get hka
    have hil : i < xs.length := by omega
    have s1 := hp k a _ hk hka (by rw [hpar]; exact List.getElem?_eq_getElem hil)
    have s2 := hp i _ g hi0 (List.getElem?_eq_getElem hil) hg
    exact h.negTrans _ _ _ s1 s2

/-- `heap.Fix` after any change of cell i -/
theorem hfix_heap {lt : α → α → Bool} (h : StrictWeak lt) (xs : List α) (i : Nat) (v : α) (hil : i < xs.length)
    (hp : Heap lt xs) : Heap lt (hfix lt (xs.set i v) i) := by
  have hlen : (xs.set i v).length = xs.length := List.length_set
  have hN := fix_heapN h (xs.set i v) i (xs.set i v).length (by omega) (Nat.le_refl _)
    (by rw [hlen]; exact fixInvN_of_set h xs i v hp)
  unfold hfix down
  apply heapN_length
  have e1 : (downF lt (xs.set i v).length (xs.set i v) i (xs.set i v).length).1.length = (xs.set i v).length :=
    downF_length _ _ _ _ _
  split at hN
  · next hgt => simp only [hgt, if_true]; rw [e1]; exact hN
  · next hgt => simp only [hgt, if_false]; unfold up; rw [upF_length, e1]; exact hN

/-- `heap.Remove(h, i)` keeps the heap invariant on what remains -/
theorem hremove_heap {lt : α → α → Bool} (h : StrictWeak lt) (xs : List α) (i : Nat) (hil : i < xs.length)
    (hp : Heap lt xs) : Heap lt (hremove lt xs i) := by
  unfold hremove
  by_cases hni : xs.length - 1 = i
  · -- the last cell: nothing moves
    simp only [hni, ne_eq, not_true_eq_false, if_false]
    intro k a p hk hka hkp
    rw [List.getElem?_dropLast] at hka hkp
    split at hka
    · split at hkp
      · exact hp k a p hk hka hkp
      · contradiction
    · contradiction
  · simp only [ne_eq, hni, not_false_eq_true, if_true]
    have hn : xs.length - 1 < xs.length := by omega
    have hin : i < xs.length - 1 := by omega
    have hxi := List.getElem?_eq_getElem hil
    have hxn := List.getElem?_eq_getElem hn
    have sg := fun k => swap_get xs i (xs.length - 1) k _ _ hxi hxn
    have inv : FixInvN lt (swap xs i (xs.length - 1)) i (xs.length - 1) := by
      constructor
      · intro k a p hk hkn hki hpar hka hkp
        rw [sg] at hka hkp
        have n1 : k ≠ xs.length - 1 := by omega
        have n3 : (k - 1) / 2 ≠ xs.length - 1 := by omega
        rw [if_neg n1, if_neg hki] at hka
        rw [if_neg n3, if_neg hpar] at hkp
        exact hp k a p hk hka hkp
      · intro k a g hi0 hk hkn hpar hka hg
        rw [sg] at hka hg
        have n1 : k ≠ xs.length - 1 := by omega
        have n2 : k ≠ i := by omega
        have n3 : (i - 1) / 2 ≠ xs.length - 1 := by omega
        have n4 : (i - 1) / 2 ≠ i := by omega
        rw [if_neg n1, if_neg n2] at hka
        rw [if_neg n3, if_neg n4] at hg
        have s1 := hp k a _ hk hka (by rw [hpar]; exact hxi)
        have s2 := hp i _ g hi0 hxi hg
        exact h.negTrans _ _ _ s1 s2
    have hN := fix_heapN h (swap xs i (xs.length - 1)) i (xs.length - 1) hin (by rw [swap_length]; omega) inv
    unfold down up
    have e1 : (downF lt (xs.length - 1) (swap xs i (xs.length - 1)) i (xs.length - 1)).1.length = xs.length := by
      rw [downF_length, swap_length]
    intro k a p hk hka hkp
    rw [List.getElem?_dropLast] at hka hkp
    split at hN
    · next hgt =>
      simp only [hgt, if_true] at hka hkp
      rw [e1] at hka hkp
      split at hka
      · next hk1 =>
        have : (k - 1) / 2 < xs.length - 1 := by omega
        rw [if_pos this] at hkp
        exact hN k a p hk hk1 hka hkp
      · contradiction
    · next hgt =>
      simp only [hgt, if_false] at hka hkp
      rw [upF_length, e1] at hka hkp
      split at hka
      · next hk1 =>
        have : (k - 1) / 2 < xs.length - 1 := by omega
        rw [if_pos this] at hkp
        exact hN k a p hk hk1 hka hkp
      · contradiction

/-! ### small facts used by Props/C08 -/

theorem hpush_length (lt : α → α → Bool) (xs : List α) (x : α) : (hpush lt xs x).length = xs.length + 1 := by
  unfold hpush up
  rw [upF_length]; simp

/-- what `heap.Pop` computes, spelled out: the root, and `down` on the shortened slice -/
theorem hpop_eq (lt : α → α → Bool) (x0 : α) (r : List α) :
    hpop lt (x0 :: r) = some (((down lt (swap (x0 :: r) 0 r.length) 0 r.length).1).getLastD x0,
                              ((down lt (swap (x0 :: r) 0 r.length) 0 r.length).1).dropLast) := by
  simp [hpop]

theorem hpop_length (lt : α → α → Bool) (xs : List α) (e : α) (rest : List α) (hpop' : hpop lt xs = some (e, rest)) :
    rest.length + 1 = xs.length := by
  cases xs with
  | nil => simp [hpop] at hpop'
  | cons x0 r =>
    rw [hpop_eq] at hpop'
    injection hpop' with hpop'
    injection hpop' with _ hr
    subst hr
    simp only [List.length_dropLast, List.length_cons]
    unfold down; rw [downF_length, swap_length]; simp

theorem modify_eq_set {β : Type} (f : β → β) : ∀ (es : List β) (i : Nat) (h : i < es.length), es.modify i f = es.set i (f es[i]) := by
  intro es
  induction es with
  | nil => intro i h; simp at h
  | cons e r ih =>
    intro i h
    cases i with
    | zero => simp [List.modify]
    | succ i => simp [List.modify_succ_cons, ih i (by simpa using h)]

theorem unwrap_wrap {E : Type} (es : List E) : unwrapCells (wrap es) = some es := by
  induction es with
  | nil => rfl
  | cons e r ih => simp only [wrap, List.map_cons, unwrapCells] at *; rw [ih]; rfl

theorem heap_singleton {E : Type} (lt : E → E → Bool) (e : E) : Heap lt [e] := by
  intro k a p hk hka
  cases k with
  | zero => omega
  | succ k => simp at hka

theorem mem_addVol (v : List Bytes) (k : Bytes) (h : k ∈ v) : k ∈ (if v.contains k then v else v ++ [k]) := by
  by_cases hc : v.contains k = true <;> simp [hc, h]

/-! ### the random policies: what one round removes, and why the loops end -/

theorem heap_nil {E : Type} (lt : E → E → Bool) : Heap lt ([] : List E) := by
  intro k a p _ hka; simp at hka

/-- deleteKey with its cache leg changes the keyspace exactly as the plain deleteKey does -/
theorem deleteKeyE_state (cfg : Cfg) (es es' : EState) (db : Nat) (k : Bytes)
    (hdel : deleteKeyE cfg es db k = .ok es') : es'.s = Sugar.deleteKey es.s db k := by
  unfold deleteKeyE at hdel
  split at hdel
  · split at hdel
    · contradiction
    · split at hdel
      · contradiction
      · injection hdel with hdel; rw [← hdel]
  · split at hdel
    · split at hdel
      · contradiction
      · split at hdel
        · contradiction
        · injection hdel with hdel; rw [← hdel]
    · injection hdel with hdel; rw [← hdel]

/-- under the random policies deleteKey has no cache leg: it cannot fail -/
theorem deleteKeyE_random (cfg : Cfg) (es : EState) (db : Nat) (k : Bytes)
    (hpol : cfg.policy = .allkeysRandom ∨ cfg.policy = .volatileRandom) :
    deleteKeyE cfg es db k = .ok { es with s := Sugar.deleteKey es.s db k } := by
  unfold deleteKeyE
  cases hpol with
  | inl h => simp [isLfuPol, isLruPol, h]
  | inr h => simp [isLfuPol, isLruPol, h]

theorem hasDb_of_store_ne (s : State) (db : Nat) (h : (s.db db).store ≠ []) : s.hasDb db = true := by
  unfold State.db at h
  unfold State.hasDb
  cases hg : s.dbs.get db with
  | none => simp [hg] at h
  | some d => rfl

theorem hasDb_of_vol_ne (s : State) (db : Nat) (h : (s.db db).vol ≠ []) : s.hasDb db = true := by
  unfold State.db at h
  unfold State.hasDb
  cases hg : s.dbs.get db with
  | none => simp [hg] at h
  | some d => rfl

theorem db_deleteKey_same (s : State) (db : Nat) (k : Bytes) (hdb : s.hasDb db = true) :
    (Sugar.deleteKey s db k).db db = ⟨(s.db db).store.del k, (s.db db).vol.filter (· != k)⟩ := by
  simp [Sugar.deleteKey, hdb, State.db, NMap.get_put_same]

theorem kmap_del_length_le {α : Type} (m : KMap α) (k : Bytes) : (m.del k).length ≤ m.length := by
  induction m with
  | nil => simp [KMap.del]
  | cons p r ih =>
    obtain ⟨k', v⟩ := p
    by_cases h : k' = k
    · simp only [KMap.del, h, if_true, List.length_cons]; omega
    · simp only [KMap.del, h, if_false, List.length_cons]; omega

theorem kmap_del_length_lt {α : Type} (m : KMap α) (k : Bytes) (h : k ∈ m.map Prod.fst) :
    (m.del k).length < m.length := by
  induction m with
  | nil => simp at h
  | cons p r ih =>
    obtain ⟨k', v⟩ := p
    by_cases hk : k' = k
    · have := kmap_del_length_le r k
      simp only [KMap.del, hk, if_true, List.length_cons]; omega
    · simp only [List.map_cons, List.mem_cons] at h
      have hr : k ∈ r.map Prod.fst := by
        cases h with
        | inl h => exact absurd h.symm hk
        | inr h => exact h
      have := ih hr
      simp only [KMap.del, hk, if_false, List.length_cons]; omega

theorem filter_ne_length_lt (l : List Bytes) (k : Bytes) (h : k ∈ l) : (l.filter (· != k)).length < l.length := by
  induction l with
  | nil => simp at h
  | cons x r ih =>
    by_cases hx : x = k
    · have := List.length_filter_le (· != k) r
      simp only [List.filter, hx, bne_self_eq_false, List.length_cons]; omega
    · have hr : k ∈ r := by
        cases List.mem_cons.mp h with
        | inl h => exact absurd h.symm hx
        | inr h => exact h
      have := ih hr
      have hb : (x != k) = true := by simpa using hx
      simp only [List.filter, hb, List.length_cons]; omega

/-- every victim of allkeys-random is a key of the database -/
theorem victims_sub_store (env : Env) (s : State) (phase db : Nat) (k : Bytes) (h : k ∈ victims env s phase db) :
    k ∈ (s.db db).store.map Prod.fst := by
  unfold victims at h
  simp only [List.mem_mergeSort] at h
  exact (List.mem_filter.mp h).1

/-- **every victim of volatile-random is a cell of the volatile index of that database** -/
theorem volVictims_sub_vol (env : Env) (s : State) (phase db : Nat) (k : Bytes) (h : k ∈ volVictims env s phase db) :
    k ∈ (s.db db).vol := by
  unfold volVictims at h
  simp only [List.mem_mergeSort] at h
  exact (List.mem_filter.mp h).1

end Sugar.Evict
