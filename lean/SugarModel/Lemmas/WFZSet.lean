/-
  Lemmas.WFZSet — reply well-formedness of the sorted-set handlers. Scalar / flat replies are `Res.WFok`
  (depth ≤ 2); the member listings (`*n` of `*2 $member +score` / `*1 $member`) are arrays of arrays and get
  `Res.WFok3` (depth ≤ 3). No malformed shape occurs in this family: score texts (`%f`, `'f', -1`) never
  contain CR or LF, empty listings are the terminated `*0\r\n`.
-/
import SugarModel.Lemmas.WFCore
import SugarModel.Lemmas.WFHash
namespace Sugar

theorem cleanLine_decFmt6 (a : Dec) (t : Bytes) (h : a.fmt6 = some t) : cleanLine t = true := by
  unfold Dec.fmt6 at h
  split at h
  · cases h
  · split at h
    · injection h with h; subst h; decide
    · extract_lets scaled ds0 ds sign at h
      injection h with h; subst h
      have hds0 : cleanLine ds0 = true := cleanLine_natDigits _
      have hds : cleanLine ds = true := by
        show cleanLine (if ds0.length ≤ 6 then List.replicate (7 - ds0.length) 48 ++ ds0 else ds0) = true
        split
        · simp only [cleanLine_append, cleanLine_replicate48, hds0, Bool.and_self]
        · exact hds0
      have hsg : cleanLine sign = true := by
        show cleanLine (if a.m < 0 then b "-" else []) = true
        split <;> decide
      have hp : cleanLine (b ".") = true := by decide
      have ht : cleanLine (ds.take (ds.length - 6)) = true := cleanLine_of_subset (fun c hc => List.mem_of_mem_take hc) hds
      have hr : cleanLine (ds.drop (ds.length - 6)) = true := cleanLine_of_subset (fun c hc => List.mem_of_mem_drop hc) hds
      simp only [cleanLine_append, hsg, hp, ht, hr, Bool.and_self]

theorem cleanLine_fltFmt6 (f : Flt) (t : Bytes) (h : f.fmt6 = some t) : cleanLine t = true := by
  cases f with
  | fin d => exact cleanLine_decFmt6 d t h
  | pinf => injection h with h; subst h; decide
  | ninf => injection h with h; subst h; decide

/-- `+score` with the `'f', -1` text -/
theorem wf1_scoreF (f : Flt) : WF1 (simpleStr f.fmtF) := wf1_simple _ (cleanLine_fltFmtF f)
theorem wf_scoreF (f : Flt) : WF (simpleStr f.fmtF) := (wf1_scoreF f).toWF

/-- one element of a member listing is an array of one or two scalars -/
theorem wf_zElem (ws : Bool) (z : ZM) : WF (zElem ws z) := by
  unfold zElem
  split
  · exact wf_arr2 _ _ (wf1_bulk _) (wf1_scoreF _)
  · exact wf_arr1 _ (wf1_bulk _)

theorem wfok3_zArrOrdered (ws : Bool) (zs : List ZM) : Res.WFok3 (zArrOrdered ws zs) :=
  wfd_arrMap 2 zs (zElem ws) (fun z => wf_zElem ws z)

theorem wfok3_zArrAnyOrder (ws : Bool) (zs : List ZM) : Res.WFok3 (zArrAnyOrder ws zs) := by
  have := wfok3_perm (zs.map (zElem ws)) (by
    intro g hg
    rw [List.mem_map] at hg
    obtain ⟨z, _, rfl⟩ := hg
    exact wf_zElem ws z)
  rw [List.length_map] at this
  exact this

theorem wfok3_zPick (ws : Bool) (k : Nat) (d : Bool) (zs : List ZM) :
    Res.WFok3 (.okPick (arrHdr k) k d (zs.map (zElem ws))) :=
  wfok3_pick k d _ (by
    intro g hg
    rw [List.mem_map] at hg
    obtain ⟨z, _, rfl⟩ := hg
    exact wf_zElem ws z)

/-- leaves of the member-listing handlers -/
theorem rx3_anyOrder (ws : Bool) (zs : List ZM) : (Prog.ret (zArrAnyOrder ws zs)).AllRet (Res.WFx Res.WFok3) :=
  Or.inr (wfok3_zArrAnyOrder ws zs)
theorem rx3_ordered (ws : Bool) (zs : List ZM) : (Prog.ret (zArrOrdered ws zs)).AllRet (Res.WFx Res.WFok3) :=
  Or.inr (wfok3_zArrOrdered ws zs)
theorem rx3_pick (ws : Bool) (k : Nat) (d : Bool) (zs : List ZM) :
    (Prog.ret (Res.okPick (arrHdr k) k d (zs.map (zElem ws)))).AllRet (Res.WFx Res.WFok3) :=
  Or.inr (wfok3_zPick ws k d zs)

theorem withZSet_rx {α : Type} (E : Res → Prop) (cmd : List Bytes) (a : Bool) (parse : PRes α) (r : Res)
    (m : Bytes → Bytes) (k : Bytes → KMap Flt → α → Prog Res) (hr : Res.WFok r)
    (h : ∀ x y z, (k x y z).AllRet (Res.WFx E)) : (withZSet cmd a parse r m k).AllRet (Res.WFx E) := by
  unfold withZSet; wf
  · exact rx_res _ _ hr
  · exact h _ _ _

/-- `wf` extended with the sorted-set leaves -/
macro "wfz" : tactic => `(tactic| (
  repeat' (first
    | exact rx_err _ _
    | exact rx_panic _ _
    | exact rx_unmod _ _
    | exact rx3_anyOrder _ _
    | exact rx3_ordered _ _
    | exact rx3_pick _ _ _ _
    | (refine rx_ok _ _ ?_; first
        | wfleaf
        | exact wf_scoreF _
        | exact wf_arr2 _ _ (wf1_int _) (wf1_bulk _)
        | exact wf_arr1 _ (wf1_int _)
        | exact wf_simple _ (cleanLine_fltFmt6 _ _ ‹_›))
    | (apply setOrErr_rx)
    | (refine rx_call _ _ _ ?_; intro _)
    | split
    | (dsimp only))))

/-! ### flat replies -/

theorem zaddApply_wf (E : Res → Prop) (key : Bytes) (ex : Bool) (ms : List ZM) (o : ZAddOpts) :
    (zaddApply key ex ms o).AllRet (Res.WFx E) := by
  unfold zaddApply; wfz

theorem handleZAdd_wf (c : Ctx) (cmd : List Bytes) : (handleZAdd c cmd).AllRet Res.WFok := by
  apply allRet_full; unfold handleZAdd; wfz
  all_goals exact zaddApply_wf _ _ _ _ _

theorem handleZCard_wf (c : Ctx) (cmd : List Bytes) : (handleZCard c cmd).AllRet Res.WFok := by
  apply allRet_full; unfold handleZCard
  exact withZSet_rx _ _ _ _ _ _ _ (wf_int _) (fun _ _ _ => rx_ok _ _ (wf_int _))

theorem handleZCount_wf (c : Ctx) (cmd : List Bytes) : (handleZCount c cmd).AllRet Res.WFok := by
  apply allRet_full; unfold handleZCount
  exact withZSet_rx _ _ _ _ _ _ _ (wf_int _) (fun _ _ _ => rx_ok _ _ (wf_int _))

theorem handleZLexCount_wf (c : Ctx) (cmd : List Bytes) : (handleZLexCount c cmd).AllRet Res.WFok := by
  apply allRet_full; unfold handleZLexCount
  refine withZSet_rx _ _ _ _ _ _ _ (wf_int _) (fun _ _ _ => ?_)
  wfz

theorem handleZMScore_wf (c : Ctx) (cmd : List Bytes) : (handleZMScore c cmd).AllRet Res.WFok := by
  apply allRet_full; unfold handleZMScore
  refine withZSet_rx _ _ _ _ _ _ _ wf_emptyArr (fun _ ms _ => rx_ok _ _ (wf_arrMap _ _ (fun m => ?_)))
  split
  · exact wf1_nil
  · exact wf1_scoreF _

theorem handleZScore_wf (c : Ctx) (cmd : List Bytes) : (handleZScore c cmd).AllRet Res.WFok := by
  apply allRet_full; unfold handleZScore
  refine withZSet_rx _ _ _ _ _ _ _ wf_nil (fun _ _ _ => ?_)
  wfz

theorem handleZRem_wf (c : Ctx) (cmd : List Bytes) : (handleZRem c cmd).AllRet Res.WFok := by
  apply allRet_full; unfold handleZRem
  refine withZSet_rx _ _ _ _ _ _ _ (wf_int _) (fun _ _ _ => ?_)
  wfz

theorem handleZRank_wf (c : Ctx) (cmd : List Bytes) : (handleZRank c cmd).AllRet Res.WFok := by
  apply allRet_full; unfold handleZRank
  refine withZSet_rx _ _ _ _ _ _ _ wf_nil (fun _ _ _ => ?_)
  wfz

theorem handleZRemRangeByScore_wf (c : Ctx) (cmd : List Bytes) : (handleZRemRangeByScore c cmd).AllRet Res.WFok := by
  apply allRet_full; unfold handleZRemRangeByScore
  refine withZSet_rx _ _ _ _ _ _ _ (wf_int _) (fun _ _ _ => ?_)
  wfz

theorem handleZRemRangeByRank_wf (c : Ctx) (cmd : List Bytes) : (handleZRemRangeByRank c cmd).AllRet Res.WFok := by
  apply allRet_full; unfold handleZRemRangeByRank
  refine withZSet_rx _ _ _ _ _ _ _ (wf_int _) (fun _ _ _ => ?_)
  wfz

theorem handleZRemRangeByLex_wf (c : Ctx) (cmd : List Bytes) : (handleZRemRangeByLex c cmd).AllRet Res.WFok := by
  apply allRet_full; unfold handleZRemRangeByLex
  refine withZSet_rx _ _ _ _ _ _ _ (wf_int _) (fun _ _ _ => ?_)
  wfz

theorem handleZIncrBy_wf (c : Ctx) (cmd : List Bytes) : (handleZIncrBy c cmd).AllRet Res.WFok := by
  apply allRet_full; unfold handleZIncrBy; wfz

theorem handleZRangeStore_wf (c : Ctx) (cmd : List Bytes) : (handleZRangeStore c cmd).AllRet Res.WFok := by
  apply allRet_full; unfold handleZRangeStore; wfz

/-! ### member listings: arrays of arrays -/

theorem handleZRandMember_wf3 (c : Ctx) (cmd : List Bytes) : (handleZRandMember c cmd).AllRet Res.WFok3 := by
  apply allRet_full3; unfold handleZRandMember
  refine withZSet_rx _ _ _ _ _ _ _ wf_nil (fun _ _ _ => ?_)
  wfz

theorem handleZPop_wf3 (c : Ctx) (cmd : List Bytes) : (handleZPop c cmd).AllRet Res.WFok3 := by
  apply allRet_full3; unfold handleZPop
  refine withZSet_rx _ _ _ _ _ _ _ wf_emptyArr (fun _ _ _ => ?_)
  wfz

theorem handleZRange_wf3 (c : Ctx) (cmd : List Bytes) : (handleZRange c cmd).AllRet Res.WFok3 := by
  apply allRet_full3; unfold handleZRange
  refine withZSet_rx _ _ _ _ _ _ _ wf_emptyArr (fun _ _ _ => ?_)
  wfz

theorem collectZSets_rx (E : Res → Prop) (l : List (Bytes × Bool)) : ∀ (k : List (KMap Flt) → Prog Res),
    (∀ x, (k x).AllRet (Res.WFx E)) → (collectZSets l k).AllRet (Res.WFx E) := by
  induction l with
  | nil => intro k h; exact h _
  | cons x r ih =>
    intro k h
    obtain ⟨key, e⟩ := x
    unfold collectZSets
    split
    · exact ih k h
    · intro vs
      dsimp only
      split
      · exact rx_err _ _
      · exact ih _ (fun acc => h _)

/-- ZDIFF (member listing, depth 3) and ZDIFFSTORE -/
theorem handleZDiff_wf3 (st : Bool) (c : Ctx) (cmd : List Bytes) : (handleZDiff st c cmd).AllRet Res.WFok3 := by
  apply allRet_full3; unfold handleZDiff; wfz
  all_goals (refine collectZSets_rx _ _ _ (fun sets => ?_); wfz)

/-- ZDIFFSTORE answers an integer -/
theorem handleZDiffStore_wf (c : Ctx) (cmd : List Bytes) : (handleZDiff true c cmd).AllRet Res.WFok := by
  apply allRet_full; unfold handleZDiff; wfz
  all_goals (refine collectZSets_rx _ _ _ (fun sets => ?_); wfz)
  all_goals exact absurd rfl ‹¬true = true›


/-- the tail shared by ZINTER / ZINTERSTORE / ZUNION / ZUNIONSTORE -/
theorem zCombineTail_wf3 (inter store ws : Bool) (dest agg : Bytes) (rows : List (Bytes × Bool × Val × Int)) :
    (zCombineTail inter store ws dest agg rows).AllRet (Res.WFx Res.WFok3) := by
  unfold zCombineTail; wfz

/-- the STORE forms answer an integer -/
theorem zCombineTail_store_wf (E : Res → Prop) (inter ws : Bool) (dest agg : Bytes) (rows : List (Bytes × Bool × Val × Int)) :
    (zCombineTail inter true ws dest agg rows).AllRet (Res.WFx E) := by
  unfold zCombineTail; wfz

attribute [local irreducible] zCombineTail

/-- ZINTER / ZUNION (member listings, depth 3) and their STORE forms -/
theorem handleZCombine_wf3 (inter store : Bool) (c : Ctx) (cmd : List Bytes) :
    (handleZCombine inter store c cmd).AllRet Res.WFok3 := by
  apply allRet_full3; unfold handleZCombine; wfz
  all_goals exact zCombineTail_wf3 _ _ _ _ _ _

/-- ZINTERSTORE / ZUNIONSTORE answer an integer -/
theorem handleZCombineStore_wf (inter : Bool) (c : Ctx) (cmd : List Bytes) :
    (handleZCombine inter true c cmd).AllRet Res.WFok := by
  apply allRet_full; unfold handleZCombine; wfz
  all_goals exact zCombineTail_store_wf _ _ _ _ _ _

theorem zmpopLoop_wf3 (c : Ctx) (count : Nat) (mx : Bool) : ∀ (l : List (Bytes × Bool)),
    (zmpopLoop c count mx l).AllRet (Res.WFx Res.WFok3) := by
  intro l
  induction l with
  | nil => unfold zmpopLoop; exact rx_ok _ _ wf_emptyArr
  | cons x r ih =>
    obtain ⟨key, e⟩ := x
    unfold zmpopLoop
    split
    · exact ih
    · intro vs
      dsimp only
      split
      · exact ih
      · split
        · exact ih
        · wfz

attribute [local irreducible] zmpopLoop

theorem handleZMPop_wf3 (c : Ctx) (cmd : List Bytes) : (handleZMPop c cmd).AllRet Res.WFok3 := by
  apply allRet_full3; unfold handleZMPop; wfz
  all_goals exact zmpopLoop_wf3 _ _ _ _

end Sugar
