/-
  Lemmas.AclLemmas — Boolean inversion of the authorization procedure and bridges from its named
  checks to the components of the declarative policy.
-/
import SugarModel.Spec.Policy
import SugarModel.Model.AclStep
namespace Sugar.Acl
open Sugar Sugar.Spec

/-- what must hold when the procedure answers "allowed" for a non-exempt command under RequirePass -/
theorem authorize_none_inv (gmatch : Bytes → Bytes → Bool) (auth : Bool) (u : User) (m : CmdMeta)
    (hex : codeExempt m.comm = false) (h : authorize gmatch true auth u m = none) :
    auth = true ∧ u.enabled = true ∧ catsIncluded u m = true ∧ catsExcluded u m = false ∧ cmdIncluded u m = true ∧ cmdExcluded u m = false ∧
    (m.cats.contains (b "pubsub") = true → chanDenied gmatch u m = false) ∧
    (m.cats.contains (b "pubsub") = false → (m.readKeys.isEmpty && m.writeKeys.isEmpty) = false →
       u.noKeys = false ∧ readDenied gmatch u m = false ∧ writeDenied gmatch u m = false) := by
  unfold authorize at h
  rw [hex] at h
  revert h
  generalize u.enabled = a0
  generalize catsIncluded u m = a1
  generalize catsExcluded u m = a2
  generalize cmdIncluded u m = a3
  generalize cmdExcluded u m = a4
  generalize m.cats.contains (b "pubsub") = a5
  generalize chanDenied gmatch u m = a6
  generalize (m.readKeys.isEmpty && m.writeKeys.isEmpty) = a7
  generalize u.noKeys = a8
  generalize readDenied gmatch u m = a9
  generalize writeDenied gmatch u m = a10
  cases auth <;> cases a0 <;> cases a1 <;> cases a2 <;> cases a3 <;> cases a4 <;> cases a5 <;> cases a6 <;> cases a7 <;> cases a8 <;>
    cases a9 <;> cases a10 <;> simp

theorem mem_of_contains {l : List Bytes} {x : Bytes} (h : l.contains x = true) : x ∈ l := List.contains_iff_mem.mp h
theorem contains_of_mem {l : List Bytes} {x : Bytes} (h : x ∈ l) : l.contains x = true := List.contains_iff_mem.mpr h

theorem catAllowed_of (u : User) (m : CmdMeta) (h1 : catsIncluded u m = true) (h2 : catsExcluded u m = false) :
    m.cats.all (catAllowed u) = true := by
  rw [List.all_eq_true]
  intro c hc
  unfold catAllowed
  have hincl : (u.inclCats.contains star || u.inclCats.contains c) = true := by
    unfold catsIncluded at h1
    cases hs : u.inclCats.contains star with
    | true => rfl
    | false =>
      rw [hs, Bool.false_or] at h1
      simp only [Bool.false_or]
      cases hcc : u.inclCats.contains c with
      | true => rfl
      | false =>
        have : (m.cats.any fun c => !u.inclCats.contains c) = true := List.any_eq_true.mpr ⟨c, hc, by rw [hcc]; rfl⟩
        rw [this] at h1
        exact absurd h1 (by decide)
  have hexcl : (u.exclCats.contains star || u.exclCats.contains c) = false := by
    unfold catsExcluded at h2
    rw [List.any_eq_false] at h2
    have h3 := h2 c hc
    rw [Bool.not_eq_true, List.any_eq_false] at h3
    cases hs : u.exclCats.contains star with
    | true =>
      have := h3 star (mem_of_contains hs)
      simp at this
    | false =>
      cases hcc : u.exclCats.contains c with
      | true =>
        have := h3 c (mem_of_contains hcc)
        simp at this
      | false => rfl
  rw [hincl, hexcl]; rfl

theorem cmdAllowed_of (u : User) (m : CmdMeta) (h1 : cmdIncluded u m = true) (h2 : cmdExcluded u m = false) :
    cmdAllowed u m.comm = true := by
  unfold cmdAllowed
  have hincl : (u.inclCmds.contains star || u.inclCmds.contains m.comm) = true := by
    unfold cmdIncluded at h1
    rw [List.any_eq_true] at h1
    obtain ⟨x, hx, hx2⟩ := h1
    rw [Bool.or_eq_true, beq_iff_eq, beq_iff_eq] at hx2
    rcases hx2 with rfl | rfl
    · rw [contains_of_mem hx]; rfl
    · rw [contains_of_mem hx]; simp
  have hexcl : (u.exclCmds.contains star || u.exclCmds.contains m.comm) = false := by
    unfold cmdExcluded at h2
    rw [List.any_eq_false] at h2
    cases hs : u.exclCmds.contains star with
    | true =>
      have := h2 star (mem_of_contains hs)
      simp at this
    | false =>
      cases hcc : u.exclCmds.contains m.comm with
      | true =>
        have := h2 m.comm (mem_of_contains hcc)
        simp at this
      | false => rfl
  rw [hincl, hexcl]; rfl

theorem chans_of (gmatch : Bytes → Bytes → Bool) (u : User) (m : CmdMeta) (h : chanDenied gmatch u m = false) :
    (m.channels.all fun ch => (u.inclChans.any fun g => gmatch g ch) && !(u.exclChans.any fun g => gmatch g ch)) = true := by
  unfold chanDenied at h
  rw [List.any_eq_false] at h
  rw [List.all_eq_true]
  intro ch hch
  have h1 := h ch hch
  cases hi : (u.inclChans.any fun g => gmatch g ch) <;> cases he : (u.exclChans.any fun g => gmatch g ch) <;>
    simp [hi, he] at h1 ⊢

/-- the key loop of the code (steps 8 and 9: refuse when some key matches no pattern) is the every-key
    condition of the policy -/
theorem keys_all_of_not_denied (keys pats : List Bytes) (gmatch : Bytes → Bytes → Bool)
    (hd : (keys.any fun k => !(pats.any fun g => gmatch g k)) = false) :
    (keys.all fun k => pats.any fun g => gmatch g k) = true := by
  rw [List.any_eq_false] at hd
  rw [List.all_eq_true]
  intro k hk
  have := hd k hk
  simpa using this

theorem keys_denied_iff (keys pats : List Bytes) (gmatch : Bytes → Bytes → Bool) :
    (keys.any fun k => !(pats.any fun g => gmatch g k)) = !(keys.all fun k => pats.any fun g => gmatch g k) := by
  induction keys with
  | nil => rfl
  | cons x r ih => simp only [List.any_cons, List.all_cons, ih, Bool.not_and]

/-! ### the converse bridges: from the components of the policy to the named checks of the code -/

theorem catsIncluded_of (u : User) (m : CmdMeta) (h : m.cats.all (catAllowed u) = true) : catsIncluded u m = true := by
  unfold catsIncluded
  cases hs : u.inclCats.contains star with
  | true => rfl
  | false =>
    rw [Bool.false_or, Bool.not_eq_true', List.any_eq_false]
    intro c hc
    rw [List.all_eq_true] at h
    have := h c hc
    unfold catAllowed at this
    rw [hs, Bool.false_or, Bool.and_eq_true] at this
    rw [this.1]; decide

theorem catsExcluded_of (u : User) (m : CmdMeta) (h : m.cats.all (catAllowed u) = true) : catsExcluded u m = false := by
  unfold catsExcluded
  rw [List.any_eq_false]
  intro c hc
  rw [List.all_eq_true] at h
  have := h c hc
  unfold catAllowed at this
  rw [Bool.and_eq_true] at this
  have h2 := this.2
  simp only [Bool.not_eq_true', Bool.or_eq_false_iff] at h2
  rw [Bool.not_eq_true, List.any_eq_false]
  intro e he
  intro hc2
  rw [Bool.or_eq_true, beq_iff_eq, beq_iff_eq] at hc2
  rcases hc2 with rfl | rfl
  · rw [contains_of_mem he] at h2; exact absurd h2.1 (by decide)
  · rw [contains_of_mem he] at h2; exact absurd h2.2 (by decide)

theorem cmdIncluded_of (u : User) (m : CmdMeta) (h : cmdAllowed u m.comm = true) : cmdIncluded u m = true := by
  unfold cmdAllowed at h
  rw [Bool.and_eq_true, Bool.or_eq_true] at h
  unfold cmdIncluded
  rw [List.any_eq_true]
  rcases h.1 with h1 | h1
  · exact ⟨star, mem_of_contains h1, by simp⟩
  · exact ⟨m.comm, mem_of_contains h1, by simp⟩

theorem cmdExcluded_of (u : User) (m : CmdMeta) (h : cmdAllowed u m.comm = true) : cmdExcluded u m = false := by
  unfold cmdAllowed at h
  rw [Bool.and_eq_true] at h
  have h2 := h.2
  simp only [Bool.not_eq_true', Bool.or_eq_false_iff] at h2
  unfold cmdExcluded
  rw [List.any_eq_false]
  intro e he hc2
  rw [Bool.or_eq_true, beq_iff_eq, beq_iff_eq] at hc2
  rcases hc2 with rfl | rfl
  · rw [contains_of_mem he] at h2; exact absurd h2.1 (by decide)
  · rw [contains_of_mem he] at h2; exact absurd h2.2 (by decide)

theorem chanDenied_of (gmatch : Bytes → Bytes → Bool) (u : User) (m : CmdMeta)
    (h : (m.channels.all fun ch => (u.inclChans.any fun g => gmatch g ch) && !(u.exclChans.any fun g => gmatch g ch)) = true) :
    chanDenied gmatch u m = false := by
  unfold chanDenied
  rw [List.any_eq_false]
  rw [List.all_eq_true] at h
  intro ch hch
  have h1 := h ch hch
  cases hi : (u.inclChans.any fun g => gmatch g ch) <;> cases he : (u.exclChans.any fun g => gmatch g ch) <;>
    simp [hi, he] at h1 ⊢

/-! ### SETUSER: the `off` rule, and the guards that keep the parser inside its tokens -/

theorem updateTok_off (u : User) : updateTok u (b "off") = .ok { u with enabled := false } := rfl

/-- whatever rules precede it, a rule list ending in `off` leaves the user disabled -/
theorem updateToks_append_off (l : List Bytes) (u u' : User) (h : updateToks (l ++ [b "off"]) u = .ok u') :
    u'.enabled = false := by
  induction l generalizing u with
  | nil =>
    simp only [List.nil_append, updateToks, updateTok_off] at h
    cases h; rfl
  | cons t r ih =>
    simp only [List.cons_append, updateToks] at h
    cases ht : updateTok u t with
    | ok u1 => rw [ht] at h; exact ih u1 h
    | err m => rw [ht] at h; cases h
    | panic => rw [ht] at h; cases h
    | unmod => rw [ht] at h; cases h

theorem foldl_enabled (f : User → Bytes → User) (hf : ∀ u s, (f u s).enabled = u.enabled) (cmd : List Bytes) (u : User) :
    (cmd.foldl f u).enabled = u.enabled := by
  induction cmd generalizing u with
  | nil => rfl
  | cons s r ih => simp only [List.foldl_cons]; rw [ih, hf]

/-- the second and third loops of UpdateUser never touch Enabled -/
theorem updateTail_enabled (cmd : List Bytes) (u : User) : (updateTail cmd u).enabled = u.enabled := by
  unfold updateTail
  rw [foldl_enabled, foldl_enabled]
  · intro u s; split <;> rfl
  · intro u s
    simp only
    repeat' split
    all_goals rfl

theorem ite_ne_panic {c : Prop} [Decidable c] {a b : TokRes} (ha : a ≠ .panic) (hb : b ≠ .panic) :
    (if c then a else b) ≠ .panic := by split <;> assumption

/-- a token of at least one byte is parsed without reading outside it (every later index is guarded by a length test) -/
theorem updateTok_cons_no_panic (u : User) (c0 : UInt8) (rest : Bytes) : updateTok u (c0 :: rest) ≠ .panic := by
  unfold updateTok
  apply ite_ne_panic
  · intro h; cases h
  · dsimp only
    repeat' apply ite_ne_panic
    all_goals (intro h; cases h)

/-- the token loop meets `str[0]` of an empty token only if the rule list holds one -/
theorem updateToks_no_panic (cmd : List Bytes) (u : User) (h : cmd.contains [] = false) : updateToks cmd u ≠ .panic := by
  induction cmd generalizing u with
  | nil => simp [updateToks]
  | cons t r ih =>
    have hr : r.contains [] = false := by
      cases hc : r.contains [] with
      | false => rfl
      | true => simp at h; exact absurd (mem_of_contains hc) h.2
    unfold updateToks
    cases hu : updateTok u t with
    | ok u1 => exact ih u1 hr
    | err m => simp
    | unmod => simp
    | panic =>
      cases t with
      | nil => simp at h
      | cons c0 rest => exact absurd hu (updateTok_cons_no_panic u c0 rest)

/-- **UpdateUser cannot index outside a token**: an empty token is refused before the loops -/
theorem updateUser_no_panic (cmd : List Bytes) (u : User) : updateUser cmd u ≠ .panic := by
  unfold updateUser
  cases hc : cmd.contains [] with
  | true => simp
  | false =>
    simp only [Bool.false_eq_true, if_false]
    repeat' apply ite_ne_panic
    any_goals (intro h; cases h)
    have := updateToks_no_panic cmd u hc
    cases hu : updateToks cmd u with
    | ok u1 => simp
    | err m => simp
    | unmod => simp
    | panic => exact absurd hu this

/-- what UpdateUser answers `ok` on went through the token loop and the tail loops -/
theorem updateUser_ok_inv (cmd : List Bytes) (u u1 : User) (h : updateUser cmd u = .ok u1) :
    ∃ u2, updateToks cmd u = .ok u2 ∧ u1 = updateTail cmd u2 := by
  unfold updateUser at h
  split at h
  · cases h
  split at h
  · cases h
  split at h
  · cases h
  split at h
  · cases h
  split at h
  · cases h
  cases ht : updateToks cmd u with
  | ok u2 =>
    rw [ht] at h
    simp only [TokRes.ok.injEq] at h
    exact ⟨u2, rfl, h.symm⟩
  | err m => rw [ht] at h; cases h
  | panic => rw [ht] at h; cases h
  | unmod => rw [ht] at h; cases h

/-- a pattern that does not compile makes UpdateUser answer the error, whatever else the rule list holds
    (no empty token, tokens and patterns inside the modelled alphabet) -/
theorem updateUser_malformed (cmd : List Bytes) (u : User) (h0 : cmd.contains [] = false)
    (h1 : (cmd.any fun t => !isAscii t) = false) (h2 : ((rulePatterns cmd).any fun p => !PubSub.okBytes p) = false)
    (h3 : ((rulePatterns cmd).any fun p => !PubSub.compiles p) = true) :
    updateUser cmd u = .err PubSub.invalidPattern := by
  unfold updateUser
  simp only [h0, h1, h2, h3, Bool.false_eq_true, if_false, if_true]

/-- SetUser panics only on the empty vector (cmd[0]) -/
theorem setUser_no_panic (a : AclState) (name : Bytes) (rest : List Bytes) : (setUser a (name :: rest)).2 ≠ .panic := by
  unfold setUser
  simp only
  cases a.find name with
  | some uid =>
    simp only
    have := updateUser_no_panic (name :: rest) (a.get uid)
    cases hu : updateUser (name :: rest) (a.get uid) with
    | ok u1 => simp
    | err m => simp
    | unmod => simp
    | panic => exact absurd hu this
  | none =>
    simp only
    have := updateUser_no_panic (name :: rest) (createUser name)
    cases hu : updateUser (name :: rest) (createUser name) with
    | ok u1 => simp
    | err m => simp
    | unmod => simp
    | panic => exact absurd hu this

/-- SETUSER on an existing user with a rule list ending in `off` leaves that user object disabled -/
theorem setUser_off_disables (a : AclState) (name : Bytes) (rules : List Bytes) (uid : Nat)
    (hf : a.find name = some uid) (hok : (setUser a (name :: (rules ++ [b "off"]))).2 = .ok) :
    ((setUser a (name :: (rules ++ [b "off"]))).1.get uid).enabled = false := by
  unfold setUser at hok ⊢
  simp only [hf] at hok ⊢
  cases hu : updateUser (name :: (rules ++ [b "off"])) (a.get uid) with
  | ok u1 =>
    simp only [AclState.get, NMap.get_put_same, Option.getD_some]
    obtain ⟨u2, ht, he⟩ := updateUser_ok_inv _ _ _ hu
    rw [he, updateTail_enabled]
    exact updateToks_append_off (name :: rules) (a.get uid) u2 ht
  | err m => rw [hu] at hok; cases hok
  | panic => rw [hu] at hok; cases hok
  | unmod => rw [hu] at hok; cases hok

/-- **ACL SETUSER cannot take the server down**: whatever the argument vector -/
theorem aclHandler_setuser_no_panic (a : AclState) (cid : Nat) (cmd : List Bytes) (sha : Bytes)
    (h1 : toLower (cmd.headD []) = b "acl") (h2 : toLower (cmd.getD 1 []) = b "setuser") :
    (aclHandler a cid cmd sha).2 ≠ .panic := by
  unfold aclHandler
  simp only [h1, h2]
  have e1 : (b "acl" == b "auth") = false := by decide
  have e2 : (b "acl" == b "acl") = true := by decide
  have e3 : (b "setuser" == b "setuser") = true := by decide
  simp only [e1, e2, e3, Bool.false_eq_true, if_false, Bool.and_self, if_true]
  split
  · intro h; cases h
  · rename_i hl
    match cmd, hl with
    | c0 :: c1 :: name :: rest, _ =>
      simp only [List.drop_succ_cons, List.drop_zero]
      have := setUser_no_panic a name rest
      cases hs : setUser a (name :: rest) with
      | mk a' o =>
        rw [hs] at this
        cases o with
        | ok => simp
        | err m => simp
        | panic => exact absurd rfl this
        | unmod => simp
    | [], hl => simp at hl
    | [_], hl => simp at hl
    | [_, _], hl => simp at hl
/-- a run of authentication attempts (connection, argument vector, digest of the supplied password), one after the
    other on the same ACL state; the answers in order -/
def authRun : AclState → List (Nat × List Bytes × Bytes) → AclState × List AclOut
  | a, [] => (a, [])
  | a, (cid, cmd, sha) :: rest =>
    let r := authenticate a cid cmd sha
    let t := authRun r.1 rest
    (t.1, r.2 :: t.2)

end Sugar.Acl
