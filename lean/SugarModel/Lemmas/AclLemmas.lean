/-
  Lemmas.AclLemmas — Boolean inversion of the authorization procedure and bridges from its named
  checks to the components of the declarative policy.
-/
import SugarModel.Spec.Policy
import SugarModel.Model.AclStep
namespace Sugar.Acl
open Sugar Sugar.Spec

/-- what must hold when the procedure answers "allowed" for a non-exempt command under RequirePass -/
theorem authorize_none_inv (gmatch : Bytes → Bytes → Bool) (auth : Bool) (u : User) (m : CmdMeta)
    (hex : codeExempt m.comm = false) (h : authorize gmatch true auth u m = none) :
    auth = true ∧ catsIncluded u m = true ∧ catsExcluded u m = false ∧ cmdIncluded u m = true ∧ cmdExcluded u m = false ∧
    (m.cats.contains (b "pubsub") = true → chanDenied gmatch u m = false) ∧
    (m.cats.contains (b "pubsub") = false → (m.readKeys.isEmpty && m.writeKeys.isEmpty) = false →
       u.noKeys = false ∧ readDenied gmatch u m = false ∧ writeDenied gmatch u m = false) := by
  unfold authorize at h
  rw [hex] at h
  revert h
  generalize catsIncluded u m = a1
  generalize catsExcluded u m = a2
  generalize cmdIncluded u m = a3
  generalize cmdExcluded u m = a4
  generalize m.cats.contains (b "pubsub") = a5
  generalize chanDenied gmatch u m = a6
  generalize (m.readKeys.isEmpty && m.writeKeys.isEmpty) = a7
  generalize u.noKeys = a8
  generalize readDenied gmatch u m = a9
  generalize writeDenied gmatch u m = a10
  cases auth <;> cases a1 <;> cases a2 <;> cases a3 <;> cases a4 <;> cases a5 <;> cases a6 <;> cases a7 <;> cases a8 <;>
    cases a9 <;> cases a10 <;> simp

theorem mem_of_contains {l : List Bytes} {x : Bytes} (h : l.contains x = true) : x ∈ l := List.contains_iff_mem.mp h
theorem contains_of_mem {l : List Bytes} {x : Bytes} (h : x ∈ l) : l.contains x = true := List.contains_iff_mem.mpr h

theorem catAllowed_of (u : User) (m : CmdMeta) (h1 : catsIncluded u m = true) (h2 : catsExcluded u m = false) :
    m.cats.all (catAllowed u) = true := by
  rw [List.all_eq_true]
  intro c hc
  unfold catAllowed
  have hincl : (u.inclCats.contains star || u.inclCats.contains c) = true := by
    unfold catsIncluded at h1
    cases hs : u.inclCats.contains star with
    | true => rfl
    | false =>
      rw [hs, Bool.false_or] at h1
      simp only [Bool.false_or]
      cases hcc : u.inclCats.contains c with
      | true => rfl
      | false =>
        have : (m.cats.any fun c => !u.inclCats.contains c) = true := List.any_eq_true.mpr ⟨c, hc, by rw [hcc]; rfl⟩
        rw [this] at h1
        exact absurd h1 (by decide)
  have hexcl : (u.exclCats.contains star || u.exclCats.contains c) = false := by
    unfold catsExcluded at h2
    rw [List.any_eq_false] at h2
    have h3 := h2 c hc
    rw [Bool.not_eq_true, List.any_eq_false] at h3
    cases hs : u.exclCats.contains star with
    | true =>
      have := h3 star (mem_of_contains hs)
      simp at this
    | false =>
      cases hcc : u.exclCats.contains c with
      | true =>
        have := h3 c (mem_of_contains hcc)
        simp at this
      | false => rfl
  rw [hincl, hexcl]; rfl

theorem cmdAllowed_of (u : User) (m : CmdMeta) (h1 : cmdIncluded u m = true) (h2 : cmdExcluded u m = false) :
    cmdAllowed u m.comm = true := by
  unfold cmdAllowed
  have hincl : (u.inclCmds.contains star || u.inclCmds.contains m.comm) = true := by
    unfold cmdIncluded at h1
    rw [List.any_eq_true] at h1
    obtain ⟨x, hx, hx2⟩ := h1
    rw [Bool.or_eq_true, beq_iff_eq, beq_iff_eq] at hx2
    rcases hx2 with rfl | rfl
    · rw [contains_of_mem hx]; rfl
    · rw [contains_of_mem hx]; simp
  have hexcl : (u.exclCmds.contains star || u.exclCmds.contains m.comm) = false := by
    unfold cmdExcluded at h2
    rw [List.any_eq_false] at h2
    cases hs : u.exclCmds.contains star with
    | true =>
      have := h2 star (mem_of_contains hs)
      simp at this
    | false =>
      cases hcc : u.exclCmds.contains m.comm with
      | true =>
        have := h2 m.comm (mem_of_contains hcc)
        simp at this
      | false => rfl
  rw [hincl, hexcl]; rfl

theorem chans_of (gmatch : Bytes → Bytes → Bool) (u : User) (m : CmdMeta) (h : chanDenied gmatch u m = false) :
    (m.channels.all fun ch => (u.inclChans.any fun g => gmatch g ch) && !(u.exclChans.any fun g => gmatch g ch)) = true := by
  unfold chanDenied at h
  rw [List.any_eq_false] at h
  rw [List.all_eq_true]
  intro ch hch
  have h1 := h ch hch
  cases hi : (u.inclChans.any fun g => gmatch g ch) <;> cases he : (u.exclChans.any fun g => gmatch g ch) <;>
    simp [hi, he] at h1 ⊢

/-- under "all or none" the any-key check of the code is the every-key check of the policy -/
theorem keys_all_of_not_denied (keys pats : List Bytes) (gmatch : Bytes → Bytes → Bool)
    (hu : (keys.any fun k => pats.any fun g => gmatch g k) = true → (keys.all fun k => pats.any fun g => gmatch g k) = true)
    (hd : (!keys.isEmpty && !(keys.any fun k => pats.any fun g => gmatch g k)) = false) :
    (keys.all fun k => pats.any fun g => gmatch g k) = true := by
  cases hk : keys with
  | nil => rfl
  | cons x r =>
    rw [hk] at hd hu
    cases ha : ((x :: r).any fun k => pats.any fun g => gmatch g k) with
    | true => exact hu ha
    | false => simp [ha] at hd

end Sugar.Acl
