/-
  Lemmas.NoExpiryTable — which handler models never issue SetExpiry (syntactic fact, proved handler by
  handler in the style of Lemmas.NoFlush), and the positional table lemma over `handlerTable`.
-/
import SugarModel.Lemmas.NowFree
namespace Sugar

theorem nse_call {α : Type} (p : Prim) (k : p.Res → Prog α) (h1 : p.setsDeadline = false)
    (h2 : ∀ r, (k r).NoSetDeadline) : (Prog.call p k).NoSetDeadline := ⟨h1, fun r _ => h2 r⟩

/-- GetExpiry: only the answer "no deadline" has to be followed -/
theorem nse_getExpiry {α : Type} (key : Bytes) (k : Option Int → Prog α) (h : (k none).NoSetDeadline) :
    (Prog.call (.getExpiry key) k).NoSetDeadline :=
  ⟨rfl, fun r hr => by have e : r = none := hr; subst e; exact h⟩

theorem plusV_nse (v : Val) (k : Bytes → Prog Res) (h : ∀ r, (k r).NoSetDeadline) : (plusV v k).NoSetDeadline := by
  unfold plusV; split
  · exact h _
  · trivial

theorem setOrErr_nse (es : List (Bytes × Val)) (k : Prog Res) (h : k.NoSetDeadline) : (setOrErr es k).NoSetDeadline := by
  unfold setOrErr
  refine nse_call _ _ (by rfl) ?_
  intro r; split
  · exact h
  · trivial

theorem adaptOr_nse (s : Bytes) (k : Val → Prog Res) (h : ∀ v, (k v).NoSetDeadline) : (adaptOr s k).NoSetDeadline := by
  unfold adaptOr; split
  · exact h _
  · trivial

theorem ofOutcome_nse {α : Type} (o : Outcome α) : (Prog.ofOutcome o).NoSetDeadline := by
  cases o <;> trivial

theorem delEach_nse (ks : List Bytes) (k : Prog Res) (h : k.NoSetDeadline) : (delEach ks k).NoSetDeadline := by
  induction ks with
  | nil => exact h
  | cons x r ih => exact nse_call _ _ (by rfl) (fun _ => ih)

/-- discharge `NoSetDeadline` goals of handler bodies: split control flow, peel `.call`s -/
macro "nse" : tactic => `(tactic| (
  repeat' (first
    | trivial
    | (apply plusV_nse; intro _)
    | (apply setOrErr_nse)
    | (apply adaptOr_nse; intro _)
    | (apply delEach_nse)
    | (exact ofOutcome_nse _)
    | (refine nse_call _ _ (by rfl) ?_; intro _)
    | split
    | (dsimp only))))

theorem incrCore_nse (key : Bytes) (a : Int) (f : Int → Int) : (incrCore key a f).NoSetDeadline := by
  unfold incrCore; nse

theorem handleMSet_nse (c : Ctx) (cmd : List Bytes) : (handleMSet c cmd).NoSetDeadline := by unfold handleMSet; nse
theorem handleGet_nse (c : Ctx) (cmd : List Bytes) : (handleGet c cmd).NoSetDeadline := by unfold handleGet; nse
theorem handleMGet_nse (c : Ctx) (cmd : List Bytes) : (handleMGet c cmd).NoSetDeadline := by unfold handleMGet; nse
theorem handleDel_nse (c : Ctx) (cmd : List Bytes) : (handleDel c cmd).NoSetDeadline := by unfold handleDel; nse
theorem handlePersist_nse (c : Ctx) (cmd : List Bytes) : (handlePersist c cmd).NoSetDeadline := by unfold handlePersist; nse
theorem handleExpireTime_nse (c : Ctx) (cmd : List Bytes) : (handleExpireTime c cmd).NoSetDeadline := by unfold handleExpireTime; nse
theorem handleTTL_nse (c : Ctx) (cmd : List Bytes) : (handleTTL c cmd).NoSetDeadline := by unfold handleTTL; nse
theorem handleIncr_nse (c : Ctx) (cmd : List Bytes) : (handleIncr c cmd).NoSetDeadline := by
  unfold handleIncr; nse <;> exact incrCore_nse _ _ _
theorem handleDecr_nse (c : Ctx) (cmd : List Bytes) : (handleDecr c cmd).NoSetDeadline := by
  unfold handleDecr; nse <;> exact incrCore_nse _ _ _
theorem handleIncrBy_nse (c : Ctx) (cmd : List Bytes) : (handleIncrBy c cmd).NoSetDeadline := by
  unfold handleIncrBy; nse <;> exact incrCore_nse _ _ _
theorem handleDecrBy_nse (c : Ctx) (cmd : List Bytes) : (handleDecrBy c cmd).NoSetDeadline := by
  unfold handleDecrBy; nse <;> exact incrCore_nse _ _ _
theorem handleIncrByFloat_nse (c : Ctx) (cmd : List Bytes) : (handleIncrByFloat c cmd).NoSetDeadline := by unfold handleIncrByFloat; nse
/-- RENAME hands the deadline it read from the source on to SetExpiry: on a keyspace without deadlines both
    GetExpiry calls answer "no deadline", the two agree and no SetExpiry is issued -/
theorem handleRename_nse (c : Ctx) (cmd : List Bytes) : (handleRename c cmd).NoSetDeadline := by
  unfold handleRename
  split
  · refine nse_call _ _ (by rfl) ?_
    intro vs
    split
    · trivial
    · split
      · trivial
      · refine nse_getExpiry _ _ (nse_getExpiry _ _ ?_)
        nse
  · trivial
theorem handleGetdel_nse (c : Ctx) (cmd : List Bytes) : (handleGetdel c cmd).NoSetDeadline := by unfold handleGetdel; nse
theorem handleType_nse (c : Ctx) (cmd : List Bytes) : (handleType c cmd).NoSetDeadline := by unfold handleType; nse
theorem handleSetRange_nse (c : Ctx) (cmd : List Bytes) : (handleSetRange c cmd).NoSetDeadline := by unfold handleSetRange; nse
theorem handleStrLen_nse (c : Ctx) (cmd : List Bytes) : (handleStrLen c cmd).NoSetDeadline := by unfold handleStrLen; nse
theorem handleSubStr_nse (c : Ctx) (cmd : List Bytes) : (handleSubStr c cmd).NoSetDeadline := by unfold handleSubStr; nse
theorem handleAppend_nse (c : Ctx) (cmd : List Bytes) : (handleAppend c cmd).NoSetDeadline := by unfold handleAppend; nse


theorem handleLLen_nse (c : Ctx) (cmd : List Bytes) : (handleLLen c cmd).NoSetDeadline := by unfold handleLLen; nse
theorem handleLIndex_nse (c : Ctx) (cmd : List Bytes) : (handleLIndex c cmd).NoSetDeadline := by unfold handleLIndex; nse
theorem handleLRange_nse (c : Ctx) (cmd : List Bytes) : (handleLRange c cmd).NoSetDeadline := by unfold handleLRange; nse
theorem handleLSet_nse (c : Ctx) (cmd : List Bytes) : (handleLSet c cmd).NoSetDeadline := by unfold handleLSet; nse
theorem handleLTrim_nse (c : Ctx) (cmd : List Bytes) : (handleLTrim c cmd).NoSetDeadline := by unfold handleLTrim; nse
theorem handleLRem_nse (c : Ctx) (cmd : List Bytes) : (handleLRem c cmd).NoSetDeadline := by unfold handleLRem; nse
theorem handleLMove_nse (c : Ctx) (cmd : List Bytes) : (handleLMove c cmd).NoSetDeadline := by unfold handleLMove; nse
theorem handlePush_nse (l : Bool) (c : Ctx) (cmd : List Bytes) : (handlePush l c cmd).NoSetDeadline := by unfold handlePush; nse
theorem handlePop_nse (c : Ctx) (cmd : List Bytes) : (handlePop c cmd).NoSetDeadline := by unfold handlePop; nse

theorem withHash_nse (cmd : List Bytes) (a : Bool) (r : Res) (k : Bytes → KMap Scalar → Prog Res)
    (h : ∀ x y, (k x y).NoSetDeadline) : (withHash cmd a r k).NoSetDeadline := by
  unfold withHash; nse; exact h _ _
theorem handleHSet_nse (c : Ctx) (cmd : List Bytes) : (handleHSet c cmd).NoSetDeadline := by unfold handleHSet; nse
theorem handleHGet_nse (c : Ctx) (cmd : List Bytes) : (handleHGet c cmd).NoSetDeadline := by
  unfold handleHGet; apply withHash_nse; intros; nse
theorem handleHStrLen_nse (c : Ctx) (cmd : List Bytes) : (handleHStrLen c cmd).NoSetDeadline := by
  unfold handleHStrLen; apply withHash_nse; intros; nse
theorem handleHVals_nse (c : Ctx) (cmd : List Bytes) : (handleHVals c cmd).NoSetDeadline := by
  unfold handleHVals; apply withHash_nse; intros; nse
theorem handleHLen_nse (c : Ctx) (cmd : List Bytes) : (handleHLen c cmd).NoSetDeadline := by
  unfold handleHLen; apply withHash_nse; intros; nse
theorem handleHKeys_nse (c : Ctx) (cmd : List Bytes) : (handleHKeys c cmd).NoSetDeadline := by
  unfold handleHKeys; apply withHash_nse; intros; nse
theorem handleHGetAll_nse (c : Ctx) (cmd : List Bytes) : (handleHGetAll c cmd).NoSetDeadline := by
  unfold handleHGetAll; apply withHash_nse; intros; nse
theorem handleHExists_nse (c : Ctx) (cmd : List Bytes) : (handleHExists c cmd).NoSetDeadline := by
  unfold handleHExists; apply withHash_nse; intros; nse
theorem handleHDel_nse (c : Ctx) (cmd : List Bytes) : (handleHDel c cmd).NoSetDeadline := by
  unfold handleHDel; apply withHash_nse; intros; nse
theorem handleHRandField_nse (c : Ctx) (cmd : List Bytes) : (handleHRandField c cmd).NoSetDeadline := by unfold handleHRandField; nse
theorem handleHIncrBy_nse (c : Ctx) (cmd : List Bytes) : (handleHIncrBy c cmd).NoSetDeadline := by unfold handleHIncrBy; nse

theorem withSet_nse (cmd : List Bytes) (a : Bool) (r : Res) (m : Bytes → Bytes) (k : Bytes → List Bytes → Prog Res)
    (h : ∀ x y, (k x y).NoSetDeadline) : (withSet cmd a r m k).NoSetDeadline := by
  unfold withSet; nse; exact h _ _
theorem handleSAdd_nse (c : Ctx) (cmd : List Bytes) : (handleSAdd c cmd).NoSetDeadline := by unfold handleSAdd; nse
theorem handleSCard_nse (c : Ctx) (cmd : List Bytes) : (handleSCard c cmd).NoSetDeadline := by
  unfold handleSCard; apply withSet_nse; intros; nse
theorem handleSIsMember_nse (c : Ctx) (cmd : List Bytes) : (handleSIsMember c cmd).NoSetDeadline := by
  unfold handleSIsMember; apply withSet_nse; intros; nse
theorem handleSMembers_nse (c : Ctx) (cmd : List Bytes) : (handleSMembers c cmd).NoSetDeadline := by
  unfold handleSMembers; apply withSet_nse; intros; nse
theorem handleSMIsMember_nse (c : Ctx) (cmd : List Bytes) : (handleSMIsMember c cmd).NoSetDeadline := by
  unfold handleSMIsMember; apply withSet_nse; intros; nse
theorem handleSRem_nse (c : Ctx) (cmd : List Bytes) : (handleSRem c cmd).NoSetDeadline := by
  unfold handleSRem; apply withSet_nse; intros; nse
theorem handleSRandMember_nse (c : Ctx) (cmd : List Bytes) : (handleSRandMember c cmd).NoSetDeadline := by unfold handleSRandMember; nse
theorem handleSPop_nse (c : Ctx) (cmd : List Bytes) : (handleSPop c cmd).NoSetDeadline := by unfold handleSPop; nse
theorem handleSMove_nse (c : Ctx) (cmd : List Bytes) : (handleSMove c cmd).NoSetDeadline := by unfold handleSMove; nse
theorem collectSets_nse (ks : List Bytes) : ∀ (k : List (List Bytes) → Prog Res), (∀ x, (k x).NoSetDeadline) →
    (collectSets ks k).NoSetDeadline := by
  induction ks with
  | nil => intro k h; exact h _
  | cons x r ih =>
    intro k h
    unfold collectSets
    refine nse_call _ _ (by rfl) ?_
    intro vs
    apply ih
    intro acc
    split
    · exact h _
    · exact h _
theorem interLoop_nse (l : List (Bytes × Bool)) (r : Res) : ∀ (k : List (Nat × List Bytes) → Prog Res),
    (∀ x, (k x).NoSetDeadline) → (interLoop l r k).NoSetDeadline := by
  induction l with
  | nil => intro k h; exact h _
  | cons x rest ih =>
    intro k h
    obtain ⟨key, e⟩ := x
    unfold interLoop
    split
    · trivial
    · refine nse_call _ _ (by rfl) ?_
      intro vs
      split
      · trivial
      · apply ih; intro acc; exact h _
theorem storeLoop_nse (l : List (Bytes × Bool)) : ∀ (k : Bool → List (List Bytes) → Prog Res),
    (∀ e x, (k e x).NoSetDeadline) → (storeLoop l k).NoSetDeadline := by
  induction l with
  | nil => intro k h; exact h _ _
  | cons x rest ih =>
    intro k h
    obtain ⟨key, e⟩ := x
    unfold storeLoop
    split
    · apply ih; intro _ acc; exact h _ _
    · refine nse_call _ _ (by rfl) ?_
      intro vs
      split
      · trivial
      · apply ih; intro _ acc; exact h _ _

/-- `nse` extended with the set-module combinators -/
macro "nse2" : tactic => `(tactic| (
  repeat' (first
    | trivial
    | (apply plusV_nse; intro _)
    | (apply setOrErr_nse)
    | (apply adaptOr_nse; intro _)
    | (apply delEach_nse)
    | (exact ofOutcome_nse _)
    | (apply collectSets_nse; intro _)
    | (apply interLoop_nse; intro _)
    | (apply storeLoop_nse; intro _ _)
    | (refine nse_call _ _ (by rfl) ?_; intro _)
    | split
    | (dsimp only))))

theorem handleSDiff_nse (st : Bool) (c : Ctx) (cmd : List Bytes) : (handleSDiff st c cmd).NoSetDeadline := by
  unfold handleSDiff; nse2
theorem sinterTail_nse (m : Nat) (l : Int) (s : List (Nat × List Bytes)) : (sinterTail m l s).NoSetDeadline := by
  unfold sinterTail; nse2
theorem handleSInterStore_nse (cmd : List Bytes) : (handleSInterStore cmd).NoSetDeadline := by
  unfold handleSInterStore; nse2
theorem handleSInterRead_nse (m : Nat) (c : Ctx) (cmd : List Bytes) : (handleSInterRead m c cmd).NoSetDeadline := by
  unfold handleSInterRead; nse2 <;> exact sinterTail_nse _ _ _
theorem handleSInter_nse (m : Nat) (c : Ctx) (cmd : List Bytes) : (handleSInter m c cmd).NoSetDeadline := by
  unfold handleSInter; split
  · exact handleSInterStore_nse _
  · exact handleSInterRead_nse _ _ _
theorem handleSUnion_nse (st : Bool) (c : Ctx) (cmd : List Bytes) : (handleSUnion st c cmd).NoSetDeadline := by
  unfold handleSUnion; nse2


/-! ### sorted-set handlers -/

theorem withZSet_nse {α : Type} (cmd : List Bytes) (a : Bool) (p : PRes α) (r : Res) (m : Bytes → Bytes)
    (k : Bytes → KMap Flt → α → Prog Res) (h : ∀ x y z, (k x y z).NoSetDeadline) : (withZSet cmd a p r m k).NoSetDeadline := by
  unfold withZSet; nse2; exact h _ _ _
theorem collectZSets_nse (ks : List (Bytes × Bool)) : ∀ (k : List (KMap Flt) → Prog Res), (∀ x, (k x).NoSetDeadline) →
    (collectZSets ks k).NoSetDeadline := by
  induction ks with
  | nil => intro k h; exact h _
  | cons x r ih =>
    intro k h
    obtain ⟨key, e⟩ := x
    unfold collectZSets
    split
    · exact ih k h
    · refine nse_call _ _ (by rfl) ?_
      intro vs
      split
      · trivial
      · apply ih; intro acc; exact h _
theorem zmpopLoop_nse (c : Ctx) (n : Nat) (mx : Bool) (l : List (Bytes × Bool)) : (zmpopLoop c n mx l).NoSetDeadline := by
  induction l with
  | nil => unfold zmpopLoop; trivial
  | cons x r ih =>
    obtain ⟨key, e⟩ := x
    unfold zmpopLoop
    nse2 <;> exact ih
theorem zaddApply_nse (key : Bytes) (e : Bool) (ms : List ZM) (o : ZAddOpts) : (zaddApply key e ms o).NoSetDeadline := by
  unfold zaddApply; nse2
theorem handleZAdd_nse (c : Ctx) (cmd : List Bytes) : (handleZAdd c cmd).NoSetDeadline := by
  unfold handleZAdd; nse2 <;> exact zaddApply_nse _ _ _ _
theorem handleZCard_nse (c : Ctx) (cmd : List Bytes) : (handleZCard c cmd).NoSetDeadline := by
  unfold handleZCard; apply withZSet_nse; intros; nse2
theorem handleZCount_nse (c : Ctx) (cmd : List Bytes) : (handleZCount c cmd).NoSetDeadline := by
  unfold handleZCount; apply withZSet_nse; intros; nse2
theorem handleZLexCount_nse (c : Ctx) (cmd : List Bytes) : (handleZLexCount c cmd).NoSetDeadline := by
  unfold handleZLexCount; apply withZSet_nse; intros; nse2
theorem handleZMScore_nse (c : Ctx) (cmd : List Bytes) : (handleZMScore c cmd).NoSetDeadline := by
  unfold handleZMScore; apply withZSet_nse; intros; nse2
theorem handleZScore_nse (c : Ctx) (cmd : List Bytes) : (handleZScore c cmd).NoSetDeadline := by
  unfold handleZScore; apply withZSet_nse; intros; nse2
theorem handleZRem_nse (c : Ctx) (cmd : List Bytes) : (handleZRem c cmd).NoSetDeadline := by
  unfold handleZRem; apply withZSet_nse; intros; nse2
theorem handleZRandMember_nse (c : Ctx) (cmd : List Bytes) : (handleZRandMember c cmd).NoSetDeadline := by
  unfold handleZRandMember; apply withZSet_nse; intros; nse2
theorem handleZRank_nse (c : Ctx) (cmd : List Bytes) : (handleZRank c cmd).NoSetDeadline := by
  unfold handleZRank; apply withZSet_nse; intros; nse2
theorem handleZRemRangeByScore_nse (c : Ctx) (cmd : List Bytes) : (handleZRemRangeByScore c cmd).NoSetDeadline := by
  unfold handleZRemRangeByScore; apply withZSet_nse; intros; nse2
theorem handleZRemRangeByRank_nse (c : Ctx) (cmd : List Bytes) : (handleZRemRangeByRank c cmd).NoSetDeadline := by
  unfold handleZRemRangeByRank; apply withZSet_nse; intros; nse2
theorem handleZRemRangeByLex_nse (c : Ctx) (cmd : List Bytes) : (handleZRemRangeByLex c cmd).NoSetDeadline := by
  unfold handleZRemRangeByLex; apply withZSet_nse; intros; nse2
theorem handleZPop_nse (c : Ctx) (cmd : List Bytes) : (handleZPop c cmd).NoSetDeadline := by
  unfold handleZPop; apply withZSet_nse; intros; nse2
theorem handleZRange_nse (c : Ctx) (cmd : List Bytes) : (handleZRange c cmd).NoSetDeadline := by
  unfold handleZRange; apply withZSet_nse; intros; nse2
theorem handleZRangeStore_nse (c : Ctx) (cmd : List Bytes) : (handleZRangeStore c cmd).NoSetDeadline := by
  unfold handleZRangeStore; nse2
theorem handleZIncrBy_nse (c : Ctx) (cmd : List Bytes) : (handleZIncrBy c cmd).NoSetDeadline := by
  unfold handleZIncrBy; nse2
theorem handleZDiff_nse (st : Bool) (c : Ctx) (cmd : List Bytes) : (handleZDiff st c cmd).NoSetDeadline := by
  unfold handleZDiff; nse2 <;> (apply collectZSets_nse; intro _; nse2)
theorem zCombineTail_nse (i st ws : Bool) (d a : Bytes) (rows : List (Bytes × Bool × Val × Int)) :
    (zCombineTail i st ws d a rows).NoSetDeadline := by
  unfold zCombineTail; nse2
theorem handleZCombine_nse (i st : Bool) (c : Ctx) (cmd : List Bytes) : (handleZCombine i st c cmd).NoSetDeadline := by
  unfold handleZCombine; nse2 <;> exact zCombineTail_nse _ _ _ _ _ _
theorem handleZMPop_nse (c : Ctx) (cmd : List Bytes) : (handleZMPop c cmd).NoSetDeadline := by
  unfold handleZMPop; nse2 <;> exact zmpopLoop_nse _ _ _ _

theorem handleSelect_nse (c : Ctx) (cmd : List Bytes) : (handleSelect c cmd).NoSetDeadline := by unfold handleSelect; nse
theorem handleSwapDB_nse (c : Ctx) (cmd : List Bytes) : (handleSwapDB c cmd).NoSetDeadline := by unfold handleSwapDB; nse
theorem handlePing_nse (c : Ctx) (cmd : List Bytes) : (handlePing c cmd).NoSetDeadline := by unfold handlePing; nse
theorem handleEcho_nse (c : Ctx) (cmd : List Bytes) : (handleEcho c cmd).NoSetDeadline := by unfold handleEcho; nse


theorem handleFlush_nse (c : Ctx) (cmd : List Bytes) : (handleFlush c cmd).NoSetDeadline := by unfold handleFlush; nse

/-- `SET key value` without options never sets a deadline, and its program does not read the context -/
theorem handleSet_plain_nse (c : Ctx) (n k v : Bytes) : (handleSet c [n, k, v]).NoSetDeadline := by
  simp only [handleSet, getSetCommandOptions]
  nse

theorem handleSet_plain_env_free (c c' : Ctx) (n k v : Bytes) : handleSet c [n, k, v] = handleSet c' [n, k, v] := by
  simp only [handleSet, getSetCommandOptions]

/-- command words whose handler model can give a key a deadline -/
def expirySetters : List Bytes := [b "set", b "expire", b "pexpire", b "expireat", b "pexpireat", b "getex"]

/-- every row of the handler table outside `expirySetters` denotes programs that never set a deadline -/
theorem table_noSetDeadline : ∀ e ∈ handlerTable, e.1 ∉ expirySetters →
    ∀ (c : Ctx) (cmd : List Bytes), (e.2 c cmd).NoSetDeadline := by
  unfold handlerTable
  simp only [List.forall_mem_cons, List.not_mem_nil, false_imp_iff, implies_true, and_true]
  exact ⟨fun hn => absurd (by decide) hn,
    fun _ c cmd => handleMSet_nse c cmd,
    fun _ c cmd => handleGet_nse c cmd,
    fun _ c cmd => handleMGet_nse c cmd,
    fun _ c cmd => handleDel_nse c cmd,
    fun _ c cmd => handlePersist_nse c cmd,
    fun _ c cmd => handleExpireTime_nse c cmd,
    fun _ c cmd => handleExpireTime_nse c cmd,
    fun _ c cmd => handleTTL_nse c cmd,
    fun _ c cmd => handleTTL_nse c cmd,
    fun hn => absurd (by decide) hn,
    fun hn => absurd (by decide) hn,
    fun hn => absurd (by decide) hn,
    fun hn => absurd (by decide) hn,
    fun _ c cmd => handleIncr_nse c cmd,
    fun _ c cmd => handleDecr_nse c cmd,
    fun _ c cmd => handleIncrBy_nse c cmd,
    fun _ c cmd => handleDecrBy_nse c cmd,
    fun _ c cmd => handleIncrByFloat_nse c cmd,
    fun _ c cmd => handleRename_nse c cmd,
    fun _ c cmd => handleFlush_nse c cmd,
    fun _ c cmd => handleFlush_nse c cmd,
    fun _ c cmd => handleGetdel_nse c cmd,
    fun hn => absurd (by decide) hn,
    fun _ c cmd => handleType_nse c cmd,
    fun _ c cmd => handleSetRange_nse c cmd,
    fun _ c cmd => handleStrLen_nse c cmd,
    fun _ c cmd => handleSubStr_nse c cmd,
    fun _ c cmd => handleSubStr_nse c cmd,
    fun _ c cmd => handleAppend_nse c cmd,
    fun _ c cmd => handlePush_nse _ c cmd, fun _ c cmd => handlePush_nse _ c cmd,
    fun _ c cmd => handlePush_nse _ c cmd, fun _ c cmd => handlePush_nse _ c cmd,
    fun _ c cmd => handlePop_nse c cmd, fun _ c cmd => handlePop_nse c cmd,
    fun _ c cmd => handleLLen_nse c cmd, fun _ c cmd => handleLRange_nse c cmd,
    fun _ c cmd => handleLIndex_nse c cmd, fun _ c cmd => handleLSet_nse c cmd,
    fun _ c cmd => handleLTrim_nse c cmd, fun _ c cmd => handleLRem_nse c cmd,
    fun _ c cmd => handleLMove_nse c cmd,
    fun _ c cmd => handleHSet_nse c cmd, fun _ c cmd => handleHSet_nse c cmd,
    fun _ c cmd => handleHGet_nse c cmd, fun _ c cmd => handleHGet_nse c cmd,
    fun _ c cmd => handleHStrLen_nse c cmd, fun _ c cmd => handleHVals_nse c cmd,
    fun _ c cmd => handleHRandField_nse c cmd, fun _ c cmd => handleHLen_nse c cmd,
    fun _ c cmd => handleHKeys_nse c cmd, fun _ c cmd => handleHIncrBy_nse c cmd, fun _ c cmd => handleHIncrBy_nse c cmd,
    fun _ c cmd => handleHGetAll_nse c cmd, fun _ c cmd => handleHExists_nse c cmd, fun _ c cmd => handleHDel_nse c cmd,
    fun _ c cmd => handleSAdd_nse c cmd, fun _ c cmd => handleSCard_nse c cmd,
    fun _ c cmd => handleSDiff_nse _ c cmd, fun _ c cmd => handleSDiff_nse _ c cmd,
    fun _ c cmd => handleSInter_nse _ c cmd, fun _ c cmd => handleSInter_nse _ c cmd, fun _ c cmd => handleSInter_nse _ c cmd,
    fun _ c cmd => handleSIsMember_nse c cmd, fun _ c cmd => handleSMembers_nse c cmd, fun _ c cmd => handleSMIsMember_nse c cmd,
    fun _ c cmd => handleSMove_nse c cmd, fun _ c cmd => handleSPop_nse c cmd, fun _ c cmd => handleSRandMember_nse c cmd,
    fun _ c cmd => handleSRem_nse c cmd, fun _ c cmd => handleSUnion_nse _ c cmd, fun _ c cmd => handleSUnion_nse _ c cmd,
    fun _ c cmd => handleSelect_nse c cmd, fun _ c cmd => handleSwapDB_nse c cmd, fun _ c cmd => handlePing_nse c cmd, fun _ c cmd => handleEcho_nse c cmd,
    fun _ c cmd => handleZAdd_nse c cmd, fun _ c cmd => handleZCard_nse c cmd, fun _ c cmd => handleZCount_nse c cmd,
    fun _ c cmd => handleZDiff_nse _ c cmd, fun _ c cmd => handleZDiff_nse _ c cmd, fun _ c cmd => handleZIncrBy_nse c cmd,
    fun _ c cmd => handleZCombine_nse _ _ c cmd, fun _ c cmd => handleZCombine_nse _ _ c cmd,
    fun _ c cmd => handleZMPop_nse c cmd, fun _ c cmd => handleZMScore_nse c cmd, fun _ c cmd => handleZPop_nse c cmd, fun _ c cmd => handleZPop_nse c cmd,
    fun _ c cmd => handleZRandMember_nse c cmd, fun _ c cmd => handleZRank_nse c cmd, fun _ c cmd => handleZRank_nse c cmd,
    fun _ c cmd => handleZRem_nse c cmd, fun _ c cmd => handleZScore_nse c cmd, fun _ c cmd => handleZRemRangeByLex_nse c cmd,
    fun _ c cmd => handleZRemRangeByRank_nse c cmd, fun _ c cmd => handleZRemRangeByScore_nse c cmd,
    fun _ c cmd => handleZLexCount_nse c cmd, fun _ c cmd => handleZRange_nse c cmd, fun _ c cmd => handleZRangeStore_nse c cmd,
    fun _ c cmd => handleZCombine_nse _ _ c cmd, fun _ c cmd => handleZCombine_nse _ _ c cmd⟩

/-! ### clock-free commands -/

/-- a command whose effect does not depend on the clock reading when no deadline is involved: its word
    is outside `envSensitive` (handlers that read their context) and outside `expirySetters` (handlers
    that can set a deadline), or it is a plain three-word `SET key value` -/
def ClockFree (cmd : List Bytes) : Prop :=
  toLower (cmd.headD []) ∉ Raft.envSensitive ++ expirySetters ∨
  ∃ n k v, cmd = [n, k, v] ∧ toLower n = b "set"

/-- the program of a clock-free command is the same under every context and never sets a deadline -/
theorem progOf_clockFree (c c' : Ctx) (cmd : List Bytes) (h : ClockFree cmd) :
    progOf c' cmd = progOf c cmd ∧ ∀ p, progOf c cmd = some p → p.NoSetDeadline := by
  rcases h with h | ⟨n, k, v, rfl, hn⟩
  · simp only [List.mem_append, not_or] at h
    cases cmd with
    | nil => exact ⟨rfl, by intro p hp; simp [progOf] at hp⟩
    | cons name rest =>
      simp only [progOf]
      split
      · exact ⟨rfl, by intro p hp; simp at hp⟩
      · cases hh : handlerOf name with
        | none => exact ⟨rfl, by intro p hp; simp at hp⟩
        | some f =>
          have hmem := lookupHandler_mem (toLower name) f handlerTable hh
          simp only [Option.map_some, Option.some.injEq]
          refine ⟨Raft.table_env_free _ hmem (by simpa using h.1) _ _ _, ?_⟩
          intro p hp
          rw [← hp]
          exact table_noSetDeadline _ hmem (by simpa using h.2) c _
  · have hh : handlerOf n = some handleSet := by
      unfold handlerOf; rw [hn]; rfl
    simp only [progOf, hh, Option.map_some]
    split
    · exact ⟨rfl, by intro p hp; simp at hp⟩
    · refine ⟨by rw [handleSet_plain_env_free c' c], ?_⟩
      intro p hp
      simp only [Option.some.injEq] at hp
      rw [← hp]
      exact handleSet_plain_nse c n k v

/-- **one clock-free command on a keyspace without deadlines**: the same state and the same outcome
    whatever the clock (map order, random picks) of the context, and again no deadlines afterwards -/
theorem step_now_irrelevant (c c' : Ctx) (hc : c.SameButClock c') (cmd : List Bytes) (hcf : ClockFree cmd)
    (s : State) (h : s.NoDeadlines) :
    step c s cmd = step c' s cmd ∧ ∀ s' o, step c s cmd = some (s', o) → s'.NoDeadlines := by
  obtain ⟨hp, hns⟩ := progOf_clockFree c c' cmd hcf
  unfold step
  rw [hp]
  cases hq : progOf c cmd with
  | none => exact ⟨rfl, by intro s' o hx; simp at hx⟩
  | some p =>
    obtain ⟨h1, h2⟩ := run_now_irrelevant c c' hc p s (hns p hq) h
    simp only [Option.map_some, Option.some.injEq]
    refine ⟨h1, ?_⟩
    intro s' o hx
    rw [hx] at h2
    exact h2

end Sugar
