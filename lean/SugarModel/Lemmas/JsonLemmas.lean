/-
  Lemmas.JsonLemmas — the domain on which the JSON encoding of the preamble / snapshot state file is
  exact (`jsonFaithful`), the dataset `jsonState` produces on that domain, and the bridge between
  association-list membership and lookups used to state round trips on `State.lookup`.
-/
import SugarModel.Lemmas.RestoreLemmas
import SugarModel.Lemmas.Mem
namespace Sugar.Persist
open Sugar

/-! ### association lists: membership and lookup -/

theorem KMap.mem_of_get {α : Type} (m : KMap α) (k : Bytes) (v : α) (h : m.get k = some v) : (k, v) ∈ m := by
  induction m with
  | nil => simp at h
  | cons p r ih =>
    obtain ⟨k', v'⟩ := p
    by_cases hk : k' = k
    · subst hk; simp only [KMap.get, if_true, Option.some.injEq] at h; subst h; exact List.mem_cons_self
    · simp only [KMap.get, hk, if_false] at h; exact List.mem_cons_of_mem _ (ih h)

theorem KMap.get_of_mem_nodup {α : Type} (m : KMap α) (k : Bytes) (v : α) (hn : (m.map Prod.fst).Nodup)
    (h : (k, v) ∈ m) : m.get k = some v := by
  induction m with
  | nil => simp at h
  | cons p r ih =>
    obtain ⟨k', v'⟩ := p
    simp only [List.map_cons, List.nodup_cons] at hn
    rcases List.mem_cons.mp h with heq | hm
    · simp only [Prod.mk.injEq] at heq; obtain ⟨rfl, rfl⟩ := heq; simp [KMap.get]
    · have hk : k' ≠ k := fun hk => hn.1 (hk ▸ List.mem_map.mpr ⟨(k, v), hm, rfl⟩)
      simp only [KMap.get, hk, if_false]; exact ih hn.2 hm

theorem NMap.mem_of_get {α : Type} (m : NMap α) (k : Nat) (v : α) (h : m.get k = some v) : (k, v) ∈ m := by
  induction m with
  | nil => simp [NMap.get] at h
  | cons p r ih =>
    obtain ⟨k', v'⟩ := p
    by_cases hk : k' = k
    · subst hk; simp only [NMap.get, if_true, Option.some.injEq] at h; subst h; exact List.mem_cons_self
    · simp only [NMap.get, hk, if_false] at h; exact List.mem_cons_of_mem _ (ih h)

theorem NMap.get_of_mem_nodup {α : Type} (m : NMap α) (k : Nat) (v : α) (hn : (m.map Prod.fst).Nodup)
    (h : (k, v) ∈ m) : m.get k = some v := by
  induction m with
  | nil => simp at h
  | cons p r ih =>
    obtain ⟨k', v'⟩ := p
    simp only [List.map_cons, List.nodup_cons] at hn
    rcases List.mem_cons.mp h with heq | hm
    · simp only [Prod.mk.injEq] at heq; obtain ⟨rfl, rfl⟩ := heq; simp [NMap.get]
    · have hk : k' ≠ k := fun hk => hn.1 (hk ▸ List.mem_map.mpr ⟨(k, v), hm, rfl⟩)
      simp only [NMap.get, hk, if_false]; exact ih hn.2 hm

theorem NMap.not_mem_of_get_none {α : Type} (m : NMap α) (k : Nat) (h : m.get k = none) : k ∉ m.map Prod.fst := by
  induction m with
  | nil => simp
  | cons p r ih =>
    obtain ⟨k', v'⟩ := p
    by_cases hk : k' = k
    · subst hk; simp [NMap.get] at h
    · simp only [NMap.get, hk, if_false] at h
      simp only [List.map_cons, List.mem_cons, not_or]
      exact ⟨fun h' => hk h'.symm, ih h⟩

/-! ### mapM over Option -/

theorem mapM_some_map {α β : Type} (f : α → Option β) (g : α → β) : ∀ (l : List α),
    (∀ x ∈ l, f x = some (g x)) → l.mapM f = some (l.map g) := by
  intro l
  induction l with
  | nil => intro _; rfl
  | cons a r ih =>
    intro h
    rw [List.mapM_cons, h a List.mem_cons_self, ih (fun x hx => h x (List.mem_cons_of_mem _ hx))]
    rfl

/-! ### the exact domain of the JSON encoding -/

def scalarFaithful : Scalar → Bool
  | .str s => isAscii s
  | .int _ => false
  | .flt _ => true

/-- values that `json.Marshal` / `json.Unmarshal` return unchanged: nil, ASCII text, floats, hashes of
    ASCII fields holding ASCII text or floats (and an already retyped `[]interface{}`) -/
def jsonFaithful : Val → Bool
  | .nil => true
  | .str s => isAscii s
  | .int _ => false
  | .flt _ => true
  | .list _ => false
  | .ilist _ => true
  | .hash h => h.all fun fv => isAscii fv.1 && scalarFaithful fv.2
  | .set _ _ => false
  | .zset _ _ => false

theorem jsonScalar_faithful (v : Scalar) (h : scalarFaithful v = true) : jsonScalar v = some v := by
  cases v with
  | str s => simp only [scalarFaithful] at h; simp [jsonScalar, h]
  | int i => simp [scalarFaithful] at h
  | flt f => rfl

theorem jsonVal_faithful (v : Val) (h : jsonFaithful v = true) : jsonVal v = some v := by
  cases v with
  | nil => rfl
  | str s => simp only [jsonFaithful] at h; simp [jsonVal, h]
  | int i => simp [jsonFaithful] at h
  | flt f => rfl
  | list xs => simp [jsonFaithful] at h
  | ilist xs => rfl
  | set o ms => simp [jsonFaithful] at h
  | zset o ms => simp [jsonFaithful] at h
  | hash hm =>
    simp only [jsonFaithful, List.all_eq_true, Bool.and_eq_true] at h
    simp only [jsonVal]
    rw [mapM_some_map _ id]
    · simp
    · intro fv hfv
      obtain ⟨f, v⟩ := fv
      have := h (f, v) hfv
      simp only [this.1, if_true, jsonScalar_faithful v this.2, Option.map_some, id]

/-! ### the dataset a preamble / snapshot holds -/

/-- the entries of one database whose deadline has not passed at `now` -/
def liveStore (now : Int) (d : Db) : List (Bytes × Entry) := d.store.filter fun ke => !ke.2.expired now

/-- the dataset of `s` as FilterExpiredKeys leaves it at `now` -/
def liveDataset (now : Int) (s : State) : List (Nat × List (Bytes × Entry)) :=
  s.dbs.map fun id => (id.1, liveStore now id.2)

theorem filterExpired_dbs (now : Int) (s : State) :
    (filterExpired now s).dbs = s.dbs.map fun id => (id.1, (⟨liveStore now id.2, id.2.vol⟩ : Db)) := by
  unfold filterExpired liveStore
  simp only
  apply List.map_congr_left
  intro id _
  obtain ⟨i, d⟩ := id
  simp only [Prod.mk.injEq, Db.mk.injEq, and_true, true_and]
  apply List.filter_congr
  intro ke _
  obtain ⟨k, e⟩ := ke
  simp only [Entry.expired]
  cases e.exp <;> simp

/-- on the exact domain the encoded dataset is the live dataset, entry for entry -/
theorem jsonState_faithful (now : Int) (s : State)
    (h : ∀ i d, (i, d) ∈ s.dbs → ∀ k e, (k, e) ∈ d.store → e.expired now = false →
      isAscii k = true ∧ jsonFaithful e.val = true) :
    jsonState now s = some (liveDataset now s) := by
  unfold jsonState
  rw [filterExpired_dbs]
  rw [mapM_some_map _ (fun id => (id.1, id.2.store))]
  · simp [liveDataset, List.map_map, Function.comp_def]
  · intro id hid
    obtain ⟨i, d⟩ := id
    simp only [List.mem_map] at hid
    obtain ⟨⟨i0, d0⟩, hmem, heq⟩ := hid
    simp only [Prod.mk.injEq] at heq
    obtain ⟨rfl, rfl⟩ := heq
    simp only
    rw [mapM_some_map _ id]
    · simp
    · intro ke hke
      obtain ⟨k, e⟩ := ke
      simp only [liveStore, List.mem_filter, Bool.not_eq_true'] at hke
      obtain ⟨ha, hv⟩ := h i0 d0 hmem k e hke.1 hke.2
      simp only [ha, if_true, jsonVal_faithful e.val hv, Option.map_some, id]


/-- the keyspace is a map: database indices and the keys of each database are pairwise distinct
    (what Go maps guarantee; an invariant of every state the server builds) -/
def WellKeyed (s : State) : Prop :=
  (s.dbs.map Prod.fst).Nodup ∧ ∀ i d, (i, d) ∈ s.dbs → (d.store.map Prod.fst).Nodup

theorem liveDataset_nodup (now : Int) (s : State) (h : WellKeyed s) :
    ((liveDataset now s).map Prod.fst).Nodup ∧
    ∀ i es, (i, es) ∈ liveDataset now s → (es.map Prod.fst).Nodup := by
  constructor
  · have : (liveDataset now s).map Prod.fst = s.dbs.map Prod.fst := by
      simp [liveDataset, List.map_map, Function.comp_def]
    rw [this]; exact h.1
  · intro i es hm
    simp only [liveDataset, List.mem_map] at hm
    obtain ⟨⟨i0, d0⟩, hmem, heq⟩ := hm
    simp only [Prod.mk.injEq] at heq
    obtain ⟨rfl, rfl⟩ := heq
    exact List.Nodup.sublist (List.Sublist.map _ List.filter_sublist) (h.2 i0 d0 hmem)

/-- **restoring the live dataset of `s`** (written at `now`, restored at `now2`) into the empty
    keyspace: a key is served iff `s` held it and its deadline had passed neither when the file was
    written nor when it is restored, and then with exactly the entry `s` held -/
theorem restore_liveDataset (now now2 : Int) (s : State) (hw : WellKeyed s) :
    ∃ s', restoreDataset now2 { dbs := [], mem := 0 } (liveDataset now s) = some s' ∧
      ∀ i k, s'.lookup i k =
        (s.lookup i k).bind fun e => if e.expired now || e.expired now2 then none else some e := by
  obtain ⟨hn1, hn2⟩ := liveDataset_nodup now s hw
  obtain ⟨s', h0, ha, hb, hc⟩ := restoreDataset_spec now2 (liveDataset now s) { dbs := [], mem := 0 } hn1 hn2
  refine ⟨s', h0, ?_⟩
  intro i k
  have hempty : ∀ j x, ({ dbs := [], mem := 0 } : State).lookup j x = none := fun _ _ => rfl
  cases hg : s.dbs.get i with
  | none =>
    have hl : s.lookup i k = none := by simp [State.lookup, State.db, hg]
    have hnm : i ∉ (liveDataset now s).map Prod.fst := by
      have : (liveDataset now s).map Prod.fst = s.dbs.map Prod.fst := by
        simp [liveDataset, List.map_map, Function.comp_def]
      rw [this]; exact NMap.not_mem_of_get_none _ _ hg
    rw [hl]
    unfold State.lookup
    rw [hc i hnm]; rfl
  | some d =>
    have hmem : (i, d) ∈ s.dbs := NMap.mem_of_get _ _ _ hg
    have hds : (i, liveStore now d) ∈ liveDataset now s := by
      simp only [liveDataset, List.mem_map]
      exact ⟨(i, d), hmem, rfl⟩
    have hl : s.lookup i k = d.store.get k := by simp [State.lookup, State.db, hg]
    have hnd := hw.2 i d hmem
    rw [hl]
    cases hk : d.store.get k with
    | none =>
      simp only [Option.bind_none]
      rw [hb i _ hds k, hempty]
      intro e he
      simp only [liveStore, List.mem_filter] at he
      rw [KMap.get_of_mem_nodup _ _ _ hnd he.1] at hk
      simp at hk
    | some e =>
      simp only [Option.bind_some]
      have huniq : ∀ e', (k, e') ∈ liveStore now d → e' = e ∧ e.expired now = false := by
        intro e' he'
        simp only [liveStore, List.mem_filter, Bool.not_eq_true'] at he'
        have := KMap.get_of_mem_nodup _ _ _ hnd he'.1
        rw [hk] at this
        simp only [Option.some.injEq] at this
        subst this
        exact ⟨rfl, he'.2⟩
      by_cases h1 : e.expired now = true
      · simp only [h1, Bool.true_or, if_true]
        rw [hb i _ hds k, hempty]
        intro e' he'
        have := (huniq e' he').2
        rw [h1] at this; simp at this
      · simp only [Bool.not_eq_true] at h1
        by_cases h2 : e.expired now2 = true
        · simp only [h2, Bool.or_true, if_true]
          rw [hb i _ hds k, hempty]
          intro e' he'
          rw [(huniq e' he').1]; exact h2
        · simp only [Bool.not_eq_true] at h2
          simp only [h1, h2, Bool.or_self, Bool.false_eq_true, if_false]
          apply ha i _ hds k e _ h2
          simp only [liveStore, List.mem_filter, Bool.not_eq_true']
          exact ⟨KMap.mem_of_get _ _ _ hk, h1⟩

end Sugar.Persist
