/-
  Lemmas.NoFlush — every modelled handler except FLUSHALL denotes a program that never issues the
  all-databases flush (syntactic fact about the handler models, proved handler by handler).
-/
import SugarModel.Lemmas.Frame
namespace Sugar

theorem nf_call {α : Type} (p : Prim) (k : p.Res → Prog α) (h1 : p ≠ .flush true)
    (h2 : ∀ r, (k r).NoFlushAll) : (Prog.call p k).NoFlushAll := ⟨h1, h2⟩

theorem plusV_nf (v : Val) (k : Bytes → Prog Res) (h : ∀ r, (k r).NoFlushAll) : (plusV v k).NoFlushAll := by
  unfold plusV; split
  · exact h _
  · trivial

theorem setOrErr_nf (es : List (Bytes × Val)) (k : Prog Res) (h : k.NoFlushAll) : (setOrErr es k).NoFlushAll := by
  unfold setOrErr
  refine nf_call _ _ (by simp) ?_
  intro r; split
  · exact h
  · trivial

theorem adaptOr_nf (s : Bytes) (k : Val → Prog Res) (h : ∀ v, (k v).NoFlushAll) : (adaptOr s k).NoFlushAll := by
  unfold adaptOr; split
  · exact h _
  · trivial

theorem ofOutcome_nf {α : Type} (o : Outcome α) : (Prog.ofOutcome o).NoFlushAll := by
  cases o <;> trivial

theorem delEach_nf (ks : List Bytes) (k : Prog Res) (h : k.NoFlushAll) : (delEach ks k).NoFlushAll := by
  induction ks with
  | nil => exact h
  | cons x r ih => exact nf_call _ _ (by simp) (fun _ => ih)

/-- discharge `NoFlushAll` goals of handler bodies: split control flow, peel `.call`s -/
macro "nf" : tactic => `(tactic| (
  repeat' (first
    | trivial
    | (apply plusV_nf; intro _)
    | (apply setOrErr_nf)
    | (apply adaptOr_nf; intro _)
    | (apply delEach_nf)
    | (exact ofOutcome_nf _)
    | (refine nf_call _ _ (by simp) ?_; intro _)
    | split
    | (dsimp only))))

theorem incrCore_nf (key : Bytes) (a : Int) (f : Int → Int) : (incrCore key a f).NoFlushAll := by
  unfold incrCore; nf

theorem expireTail_nf (key : Bytes) (cmd : List Bytes) (t : Int) (e : Bool) : (expireTail key cmd t e).NoFlushAll := by
  unfold expireTail; nf

theorem handleSet_nf (c : Ctx) (cmd : List Bytes) : (handleSet c cmd).NoFlushAll := by unfold handleSet; nf
theorem handleMSet_nf (c : Ctx) (cmd : List Bytes) : (handleMSet c cmd).NoFlushAll := by unfold handleMSet; nf
theorem handleGet_nf (c : Ctx) (cmd : List Bytes) : (handleGet c cmd).NoFlushAll := by unfold handleGet; nf
theorem handleMGet_nf (c : Ctx) (cmd : List Bytes) : (handleMGet c cmd).NoFlushAll := by unfold handleMGet; nf
theorem handleDel_nf (c : Ctx) (cmd : List Bytes) : (handleDel c cmd).NoFlushAll := by unfold handleDel; nf
theorem handlePersist_nf (c : Ctx) (cmd : List Bytes) : (handlePersist c cmd).NoFlushAll := by unfold handlePersist; nf
theorem handleExpireTime_nf (c : Ctx) (cmd : List Bytes) : (handleExpireTime c cmd).NoFlushAll := by unfold handleExpireTime; nf
theorem handleTTL_nf (c : Ctx) (cmd : List Bytes) : (handleTTL c cmd).NoFlushAll := by unfold handleTTL; nf
theorem handleExpire_nf (c : Ctx) (cmd : List Bytes) : (handleExpire c cmd).NoFlushAll := by
  unfold handleExpire; nf <;> exact expireTail_nf _ _ _ _
theorem handleExpireAt_nf (c : Ctx) (cmd : List Bytes) : (handleExpireAt c cmd).NoFlushAll := by
  unfold handleExpireAt; nf <;> exact expireTail_nf _ _ _ _
theorem handleIncr_nf (c : Ctx) (cmd : List Bytes) : (handleIncr c cmd).NoFlushAll := by
  unfold handleIncr; nf <;> exact incrCore_nf _ _ _
theorem handleDecr_nf (c : Ctx) (cmd : List Bytes) : (handleDecr c cmd).NoFlushAll := by
  unfold handleDecr; nf <;> exact incrCore_nf _ _ _
theorem handleIncrBy_nf (c : Ctx) (cmd : List Bytes) : (handleIncrBy c cmd).NoFlushAll := by
  unfold handleIncrBy; nf <;> exact incrCore_nf _ _ _
theorem handleDecrBy_nf (c : Ctx) (cmd : List Bytes) : (handleDecrBy c cmd).NoFlushAll := by
  unfold handleDecrBy; nf <;> exact incrCore_nf _ _ _
theorem handleIncrByFloat_nf (c : Ctx) (cmd : List Bytes) : (handleIncrByFloat c cmd).NoFlushAll := by unfold handleIncrByFloat; nf
theorem handleRename_nf (c : Ctx) (cmd : List Bytes) : (handleRename c cmd).NoFlushAll := by unfold handleRename; nf
theorem handleGetdel_nf (c : Ctx) (cmd : List Bytes) : (handleGetdel c cmd).NoFlushAll := by unfold handleGetdel; nf
theorem handleGetex_nf (c : Ctx) (cmd : List Bytes) : (handleGetex c cmd).NoFlushAll := by unfold handleGetex; nf
theorem handleType_nf (c : Ctx) (cmd : List Bytes) : (handleType c cmd).NoFlushAll := by unfold handleType; nf
theorem handleSetRange_nf (c : Ctx) (cmd : List Bytes) : (handleSetRange c cmd).NoFlushAll := by unfold handleSetRange; nf
theorem handleStrLen_nf (c : Ctx) (cmd : List Bytes) : (handleStrLen c cmd).NoFlushAll := by unfold handleStrLen; nf
theorem handleSubStr_nf (c : Ctx) (cmd : List Bytes) : (handleSubStr c cmd).NoFlushAll := by unfold handleSubStr; nf
theorem handleAppend_nf (c : Ctx) (cmd : List Bytes) : (handleAppend c cmd).NoFlushAll := by unfold handleAppend; nf

end Sugar

namespace Sugar

theorem handleLLen_nf (c : Ctx) (cmd : List Bytes) : (handleLLen c cmd).NoFlushAll := by unfold handleLLen; nf
theorem handleLIndex_nf (c : Ctx) (cmd : List Bytes) : (handleLIndex c cmd).NoFlushAll := by unfold handleLIndex; nf
theorem handleLRange_nf (c : Ctx) (cmd : List Bytes) : (handleLRange c cmd).NoFlushAll := by unfold handleLRange; nf
theorem handleLSet_nf (c : Ctx) (cmd : List Bytes) : (handleLSet c cmd).NoFlushAll := by unfold handleLSet; nf
theorem handleLTrim_nf (c : Ctx) (cmd : List Bytes) : (handleLTrim c cmd).NoFlushAll := by unfold handleLTrim; nf
theorem handleLRem_nf (c : Ctx) (cmd : List Bytes) : (handleLRem c cmd).NoFlushAll := by unfold handleLRem; nf
theorem handleLMove_nf (c : Ctx) (cmd : List Bytes) : (handleLMove c cmd).NoFlushAll := by unfold handleLMove; nf
theorem handlePush_nf (l : Bool) (c : Ctx) (cmd : List Bytes) : (handlePush l c cmd).NoFlushAll := by unfold handlePush; nf
theorem handlePop_nf (c : Ctx) (cmd : List Bytes) : (handlePop c cmd).NoFlushAll := by unfold handlePop; nf

theorem withHash_nf (cmd : List Bytes) (a : Bool) (r : Res) (k : Bytes → KMap Scalar → Prog Res)
    (h : ∀ x y, (k x y).NoFlushAll) : (withHash cmd a r k).NoFlushAll := by
  unfold withHash; nf; exact h _ _
theorem handleHSet_nf (c : Ctx) (cmd : List Bytes) : (handleHSet c cmd).NoFlushAll := by unfold handleHSet; nf
theorem handleHGet_nf (c : Ctx) (cmd : List Bytes) : (handleHGet c cmd).NoFlushAll := by
  unfold handleHGet; apply withHash_nf; intros; nf
theorem handleHStrLen_nf (c : Ctx) (cmd : List Bytes) : (handleHStrLen c cmd).NoFlushAll := by
  unfold handleHStrLen; apply withHash_nf; intros; nf
theorem handleHVals_nf (c : Ctx) (cmd : List Bytes) : (handleHVals c cmd).NoFlushAll := by
  unfold handleHVals; apply withHash_nf; intros; nf
theorem handleHLen_nf (c : Ctx) (cmd : List Bytes) : (handleHLen c cmd).NoFlushAll := by
  unfold handleHLen; apply withHash_nf; intros; nf
theorem handleHKeys_nf (c : Ctx) (cmd : List Bytes) : (handleHKeys c cmd).NoFlushAll := by
  unfold handleHKeys; apply withHash_nf; intros; nf
theorem handleHGetAll_nf (c : Ctx) (cmd : List Bytes) : (handleHGetAll c cmd).NoFlushAll := by
  unfold handleHGetAll; apply withHash_nf; intros; nf
theorem handleHExists_nf (c : Ctx) (cmd : List Bytes) : (handleHExists c cmd).NoFlushAll := by
  unfold handleHExists; apply withHash_nf; intros; nf
theorem handleHDel_nf (c : Ctx) (cmd : List Bytes) : (handleHDel c cmd).NoFlushAll := by
  unfold handleHDel; apply withHash_nf; intros; nf
theorem handleHRandField_nf (c : Ctx) (cmd : List Bytes) : (handleHRandField c cmd).NoFlushAll := by unfold handleHRandField; nf
theorem handleHIncrBy_nf (c : Ctx) (cmd : List Bytes) : (handleHIncrBy c cmd).NoFlushAll := by unfold handleHIncrBy; nf

theorem withSet_nf (cmd : List Bytes) (a : Bool) (r : Res) (m : Bytes → Bytes) (k : Bytes → List Bytes → Prog Res)
    (h : ∀ x y, (k x y).NoFlushAll) : (withSet cmd a r m k).NoFlushAll := by
  unfold withSet; nf; exact h _ _
theorem handleSAdd_nf (c : Ctx) (cmd : List Bytes) : (handleSAdd c cmd).NoFlushAll := by unfold handleSAdd; nf
theorem handleSCard_nf (c : Ctx) (cmd : List Bytes) : (handleSCard c cmd).NoFlushAll := by
  unfold handleSCard; apply withSet_nf; intros; nf
theorem handleSIsMember_nf (c : Ctx) (cmd : List Bytes) : (handleSIsMember c cmd).NoFlushAll := by
  unfold handleSIsMember; apply withSet_nf; intros; nf
theorem handleSMembers_nf (c : Ctx) (cmd : List Bytes) : (handleSMembers c cmd).NoFlushAll := by
  unfold handleSMembers; apply withSet_nf; intros; nf
theorem handleSMIsMember_nf (c : Ctx) (cmd : List Bytes) : (handleSMIsMember c cmd).NoFlushAll := by
  unfold handleSMIsMember; apply withSet_nf; intros; nf
theorem handleSRem_nf (c : Ctx) (cmd : List Bytes) : (handleSRem c cmd).NoFlushAll := by
  unfold handleSRem; apply withSet_nf; intros; nf
theorem handleSRandMember_nf (c : Ctx) (cmd : List Bytes) : (handleSRandMember c cmd).NoFlushAll := by unfold handleSRandMember; nf
theorem handleSPop_nf (c : Ctx) (cmd : List Bytes) : (handleSPop c cmd).NoFlushAll := by unfold handleSPop; nf
theorem handleSMove_nf (c : Ctx) (cmd : List Bytes) : (handleSMove c cmd).NoFlushAll := by unfold handleSMove; nf
theorem collectSets_nf (ks : List Bytes) : ∀ (k : List (List Bytes) → Prog Res), (∀ x, (k x).NoFlushAll) →
    (collectSets ks k).NoFlushAll := by
  induction ks with
  | nil => intro k h; exact h _
  | cons x r ih =>
    intro k h
    unfold collectSets
    refine nf_call _ _ (by simp) ?_
    intro vs
    apply ih
    intro acc
    split
    · exact h _
    · exact h _
theorem interLoop_nf (l : List (Bytes × Bool)) (r : Res) : ∀ (k : List (Nat × List Bytes) → Prog Res),
    (∀ x, (k x).NoFlushAll) → (interLoop l r k).NoFlushAll := by
  induction l with
  | nil => intro k h; exact h _
  | cons x rest ih =>
    intro k h
    obtain ⟨key, e⟩ := x
    unfold interLoop
    split
    · trivial
    · refine nf_call _ _ (by simp) ?_
      intro vs
      split
      · trivial
      · apply ih; intro acc; exact h _
theorem storeLoop_nf (l : List (Bytes × Bool)) : ∀ (k : Bool → List (List Bytes) → Prog Res),
    (∀ e x, (k e x).NoFlushAll) → (storeLoop l k).NoFlushAll := by
  induction l with
  | nil => intro k h; exact h _ _
  | cons x rest ih =>
    intro k h
    obtain ⟨key, e⟩ := x
    unfold storeLoop
    split
    · apply ih; intro _ acc; exact h _ _
    · refine nf_call _ _ (by simp) ?_
      intro vs
      split
      · trivial
      · apply ih; intro _ acc; exact h _ _

/-- `nf` extended with the set-module combinators -/
macro "nf2" : tactic => `(tactic| (
  repeat' (first
    | trivial
    | (apply plusV_nf; intro _)
    | (apply setOrErr_nf)
    | (apply adaptOr_nf; intro _)
    | (apply delEach_nf)
    | (exact ofOutcome_nf _)
    | (apply collectSets_nf; intro _)
    | (apply interLoop_nf; intro _)
    | (apply storeLoop_nf; intro _ _)
    | (refine nf_call _ _ (by simp) ?_; intro _)
    | split
    | (dsimp only))))

theorem handleSDiff_nf (st : Bool) (c : Ctx) (cmd : List Bytes) : (handleSDiff st c cmd).NoFlushAll := by
  unfold handleSDiff; nf2
theorem sinterTail_nf (m : Nat) (l : Int) (s : List (Nat × List Bytes)) : (sinterTail m l s).NoFlushAll := by
  unfold sinterTail; nf2
theorem handleSInterStore_nf (cmd : List Bytes) : (handleSInterStore cmd).NoFlushAll := by
  unfold handleSInterStore; nf2
theorem handleSInterRead_nf (m : Nat) (c : Ctx) (cmd : List Bytes) : (handleSInterRead m c cmd).NoFlushAll := by
  unfold handleSInterRead; nf2 <;> exact sinterTail_nf _ _ _
theorem handleSInter_nf (m : Nat) (c : Ctx) (cmd : List Bytes) : (handleSInter m c cmd).NoFlushAll := by
  unfold handleSInter; split
  · exact handleSInterStore_nf _
  · exact handleSInterRead_nf _ _ _
theorem handleSUnion_nf (st : Bool) (c : Ctx) (cmd : List Bytes) : (handleSUnion st c cmd).NoFlushAll := by
  unfold handleSUnion; nf2


/-! ### sorted-set handlers -/

theorem withZSet_nf {α : Type} (cmd : List Bytes) (a : Bool) (p : PRes α) (r : Res) (m : Bytes → Bytes)
    (k : Bytes → KMap Flt → α → Prog Res) (h : ∀ x y z, (k x y z).NoFlushAll) : (withZSet cmd a p r m k).NoFlushAll := by
  unfold withZSet; nf2; exact h _ _ _
theorem collectZSets_nf (ks : List (Bytes × Bool)) : ∀ (k : List (KMap Flt) → Prog Res), (∀ x, (k x).NoFlushAll) →
    (collectZSets ks k).NoFlushAll := by
  induction ks with
  | nil => intro k h; exact h _
  | cons x r ih =>
    intro k h
    obtain ⟨key, e⟩ := x
    unfold collectZSets
    split
    · exact ih k h
    · refine nf_call _ _ (by simp) ?_
      intro vs
      split
      · trivial
      · apply ih; intro acc; exact h _
theorem zmpopLoop_nf (c : Ctx) (n : Nat) (mx : Bool) (l : List (Bytes × Bool)) : (zmpopLoop c n mx l).NoFlushAll := by
  induction l with
  | nil => unfold zmpopLoop; trivial
  | cons x r ih =>
    obtain ⟨key, e⟩ := x
    unfold zmpopLoop
    nf2 <;> exact ih
theorem zaddApply_nf (key : Bytes) (e : Bool) (ms : List ZM) (o : ZAddOpts) : (zaddApply key e ms o).NoFlushAll := by
  unfold zaddApply; nf2
theorem handleZAdd_nf (c : Ctx) (cmd : List Bytes) : (handleZAdd c cmd).NoFlushAll := by
  unfold handleZAdd; nf2 <;> exact zaddApply_nf _ _ _ _
theorem handleZCard_nf (c : Ctx) (cmd : List Bytes) : (handleZCard c cmd).NoFlushAll := by
  unfold handleZCard; apply withZSet_nf; intros; nf2
theorem handleZCount_nf (c : Ctx) (cmd : List Bytes) : (handleZCount c cmd).NoFlushAll := by
  unfold handleZCount; apply withZSet_nf; intros; nf2
theorem handleZLexCount_nf (c : Ctx) (cmd : List Bytes) : (handleZLexCount c cmd).NoFlushAll := by
  unfold handleZLexCount; apply withZSet_nf; intros; nf2
theorem handleZMScore_nf (c : Ctx) (cmd : List Bytes) : (handleZMScore c cmd).NoFlushAll := by
  unfold handleZMScore; apply withZSet_nf; intros; nf2
theorem handleZScore_nf (c : Ctx) (cmd : List Bytes) : (handleZScore c cmd).NoFlushAll := by
  unfold handleZScore; apply withZSet_nf; intros; nf2
theorem handleZRem_nf (c : Ctx) (cmd : List Bytes) : (handleZRem c cmd).NoFlushAll := by
  unfold handleZRem; apply withZSet_nf; intros; nf2
theorem handleZRandMember_nf (c : Ctx) (cmd : List Bytes) : (handleZRandMember c cmd).NoFlushAll := by
  unfold handleZRandMember; apply withZSet_nf; intros; nf2
theorem handleZRank_nf (c : Ctx) (cmd : List Bytes) : (handleZRank c cmd).NoFlushAll := by
  unfold handleZRank; apply withZSet_nf; intros; nf2
theorem handleZRemRangeByScore_nf (c : Ctx) (cmd : List Bytes) : (handleZRemRangeByScore c cmd).NoFlushAll := by
  unfold handleZRemRangeByScore; apply withZSet_nf; intros; nf2
theorem handleZRemRangeByRank_nf (c : Ctx) (cmd : List Bytes) : (handleZRemRangeByRank c cmd).NoFlushAll := by
  unfold handleZRemRangeByRank; apply withZSet_nf; intros; nf2
theorem handleZRemRangeByLex_nf (c : Ctx) (cmd : List Bytes) : (handleZRemRangeByLex c cmd).NoFlushAll := by
  unfold handleZRemRangeByLex; apply withZSet_nf; intros; nf2
theorem handleZPop_nf (c : Ctx) (cmd : List Bytes) : (handleZPop c cmd).NoFlushAll := by
  unfold handleZPop; apply withZSet_nf; intros; nf2
theorem handleZRange_nf (c : Ctx) (cmd : List Bytes) : (handleZRange c cmd).NoFlushAll := by
  unfold handleZRange; apply withZSet_nf; intros; nf2
theorem handleZRangeStore_nf (c : Ctx) (cmd : List Bytes) : (handleZRangeStore c cmd).NoFlushAll := by
  unfold handleZRangeStore; nf2
theorem handleZIncrBy_nf (c : Ctx) (cmd : List Bytes) : (handleZIncrBy c cmd).NoFlushAll := by
  unfold handleZIncrBy; nf2
theorem handleZDiff_nf (st : Bool) (c : Ctx) (cmd : List Bytes) : (handleZDiff st c cmd).NoFlushAll := by
  unfold handleZDiff; nf2 <;> (apply collectZSets_nf; intro _; nf2)
theorem zCombineTail_nf (i st ws : Bool) (d a : Bytes) (rows : List (Bytes × Bool × Val × Int)) :
    (zCombineTail i st ws d a rows).NoFlushAll := by
  unfold zCombineTail; nf2
theorem handleZCombine_nf (i st : Bool) (c : Ctx) (cmd : List Bytes) : (handleZCombine i st c cmd).NoFlushAll := by
  unfold handleZCombine; nf2 <;> exact zCombineTail_nf _ _ _ _ _ _
theorem handleZMPop_nf (c : Ctx) (cmd : List Bytes) : (handleZMPop c cmd).NoFlushAll := by
  unfold handleZMPop; nf2 <;> exact zmpopLoop_nf _ _ _ _

theorem handleSelect_nf (c : Ctx) (cmd : List Bytes) : (handleSelect c cmd).NoFlushAll := by unfold handleSelect; nf
theorem handleSwapDB_nf (c : Ctx) (cmd : List Bytes) : (handleSwapDB c cmd).NoFlushAll := by unfold handleSwapDB; nf
theorem handlePing_nf (c : Ctx) (cmd : List Bytes) : (handlePing c cmd).NoFlushAll := by unfold handlePing; nf
theorem handleEcho_nf (c : Ctx) (cmd : List Bytes) : (handleEcho c cmd).NoFlushAll := by unfold handleEcho; nf

theorem handleFlush_nf (c : Ctx) (cmd : List Bytes) (hn : ¬ eqFold (cmd.headD []) (b "flushall") = true) :
    (handleFlush c cmd).NoFlushAll := by
  unfold handleFlush
  split
  · rename_i name
    split
    · trivial
    · refine nf_call _ _ ?_ (fun _ => trivial)
      simp only [List.headD] at hn
      intro h
      injection h with h
      exact hn h
  · trivial

theorem lookupHandler_mem (n : Bytes) (h : Handler) : ∀ t : List (Bytes × Handler),
    lookupHandler n t = some h → (n, h) ∈ t := by
  intro t
  induction t with
  | nil => intro hh; simp [lookupHandler] at hh
  | cons x r ih =>
    obtain ⟨k, g⟩ := x
    intro hh
    simp only [lookupHandler] at hh
    split at hh
    · rename_i hk; subst hk; injection hh with hh; subst hh; exact List.mem_cons_self
    · exact List.mem_cons_of_mem _ (ih hh)

/-- every row of the handler table is flush-all free unless the command word is FLUSHALL -/
theorem table_noFlushAll : ∀ e ∈ handlerTable, ∀ (c : Ctx) (cmd : List Bytes),
    ¬ eqFold (cmd.headD []) (b "flushall") = true → (e.2 c cmd).NoFlushAll := by
  unfold handlerTable
  simp only [List.forall_mem_cons, List.not_mem_nil, false_imp_iff, implies_true, and_true]
  exact ⟨fun c cmd _ => handleSet_nf c cmd,
    fun c cmd _ => handleMSet_nf c cmd,
    fun c cmd _ => handleGet_nf c cmd,
    fun c cmd _ => handleMGet_nf c cmd,
    fun c cmd _ => handleDel_nf c cmd,
    fun c cmd _ => handlePersist_nf c cmd,
    fun c cmd _ => handleExpireTime_nf c cmd,
    fun c cmd _ => handleExpireTime_nf c cmd,
    fun c cmd _ => handleTTL_nf c cmd,
    fun c cmd _ => handleTTL_nf c cmd,
    fun c cmd _ => handleExpire_nf c cmd,
    fun c cmd _ => handleExpire_nf c cmd,
    fun c cmd _ => handleExpireAt_nf c cmd,
    fun c cmd _ => handleExpireAt_nf c cmd,
    fun c cmd _ => handleIncr_nf c cmd,
    fun c cmd _ => handleDecr_nf c cmd,
    fun c cmd _ => handleIncrBy_nf c cmd,
    fun c cmd _ => handleDecrBy_nf c cmd,
    fun c cmd _ => handleIncrByFloat_nf c cmd,
    fun c cmd _ => handleRename_nf c cmd,
    fun c cmd hn => handleFlush_nf c cmd hn,
    fun c cmd hn => handleFlush_nf c cmd hn,
    fun c cmd _ => handleGetdel_nf c cmd,
    fun c cmd _ => handleGetex_nf c cmd,
    fun c cmd _ => handleType_nf c cmd,
    fun c cmd _ => handleSetRange_nf c cmd,
    fun c cmd _ => handleStrLen_nf c cmd,
    fun c cmd _ => handleSubStr_nf c cmd,
    fun c cmd _ => handleSubStr_nf c cmd,
    fun c cmd _ => handleAppend_nf c cmd,
    fun c cmd _ => handlePush_nf _ c cmd, fun c cmd _ => handlePush_nf _ c cmd,
    fun c cmd _ => handlePush_nf _ c cmd, fun c cmd _ => handlePush_nf _ c cmd,
    fun c cmd _ => handlePop_nf c cmd, fun c cmd _ => handlePop_nf c cmd,
    fun c cmd _ => handleLLen_nf c cmd, fun c cmd _ => handleLRange_nf c cmd,
    fun c cmd _ => handleLIndex_nf c cmd, fun c cmd _ => handleLSet_nf c cmd,
    fun c cmd _ => handleLTrim_nf c cmd, fun c cmd _ => handleLRem_nf c cmd,
    fun c cmd _ => handleLMove_nf c cmd,
    fun c cmd _ => handleHSet_nf c cmd, fun c cmd _ => handleHSet_nf c cmd,
    fun c cmd _ => handleHGet_nf c cmd, fun c cmd _ => handleHGet_nf c cmd,
    fun c cmd _ => handleHStrLen_nf c cmd, fun c cmd _ => handleHVals_nf c cmd,
    fun c cmd _ => handleHRandField_nf c cmd, fun c cmd _ => handleHLen_nf c cmd,
    fun c cmd _ => handleHKeys_nf c cmd, fun c cmd _ => handleHIncrBy_nf c cmd, fun c cmd _ => handleHIncrBy_nf c cmd,
    fun c cmd _ => handleHGetAll_nf c cmd, fun c cmd _ => handleHExists_nf c cmd, fun c cmd _ => handleHDel_nf c cmd,
    fun c cmd _ => handleSAdd_nf c cmd, fun c cmd _ => handleSCard_nf c cmd,
    fun c cmd _ => handleSDiff_nf _ c cmd, fun c cmd _ => handleSDiff_nf _ c cmd,
    fun c cmd _ => handleSInter_nf _ c cmd, fun c cmd _ => handleSInter_nf _ c cmd, fun c cmd _ => handleSInter_nf _ c cmd,
    fun c cmd _ => handleSIsMember_nf c cmd, fun c cmd _ => handleSMembers_nf c cmd, fun c cmd _ => handleSMIsMember_nf c cmd,
    fun c cmd _ => handleSMove_nf c cmd, fun c cmd _ => handleSPop_nf c cmd, fun c cmd _ => handleSRandMember_nf c cmd,
    fun c cmd _ => handleSRem_nf c cmd, fun c cmd _ => handleSUnion_nf _ c cmd, fun c cmd _ => handleSUnion_nf _ c cmd,
    fun c cmd _ => handleSelect_nf c cmd, fun c cmd _ => handleSwapDB_nf c cmd, fun c cmd _ => handlePing_nf c cmd, fun c cmd _ => handleEcho_nf c cmd,
    fun c cmd _ => handleZAdd_nf c cmd, fun c cmd _ => handleZCard_nf c cmd, fun c cmd _ => handleZCount_nf c cmd,
    fun c cmd _ => handleZDiff_nf _ c cmd, fun c cmd _ => handleZDiff_nf _ c cmd, fun c cmd _ => handleZIncrBy_nf c cmd,
    fun c cmd _ => handleZCombine_nf _ _ c cmd, fun c cmd _ => handleZCombine_nf _ _ c cmd,
    fun c cmd _ => handleZMPop_nf c cmd, fun c cmd _ => handleZMScore_nf c cmd, fun c cmd _ => handleZPop_nf c cmd, fun c cmd _ => handleZPop_nf c cmd,
    fun c cmd _ => handleZRandMember_nf c cmd, fun c cmd _ => handleZRank_nf c cmd, fun c cmd _ => handleZRank_nf c cmd,
    fun c cmd _ => handleZRem_nf c cmd, fun c cmd _ => handleZScore_nf c cmd, fun c cmd _ => handleZRemRangeByLex_nf c cmd,
    fun c cmd _ => handleZRemRangeByRank_nf c cmd, fun c cmd _ => handleZRemRangeByScore_nf c cmd,
    fun c cmd _ => handleZLexCount_nf c cmd, fun c cmd _ => handleZRange_nf c cmd, fun c cmd _ => handleZRangeStore_nf c cmd,
    fun c cmd _ => handleZCombine_nf _ _ c cmd, fun c cmd _ => handleZCombine_nf _ _ c cmd⟩

theorem progOf_noFlushAll (c : Ctx) (cmd : List Bytes) (p : Prog Res)
    (h : progOf c cmd = some p) (hn : ¬ eqFold (cmd.headD []) (b "flushall") = true) :
    p.NoFlushAll := by
  unfold progOf at h
  split at h
  · simp at h
  · rename_i name rest
    split at h
    · simp at h
    · cases hh : handlerOf name with
      | none => simp [hh] at h
      | some f =>
        simp only [hh, Option.map_some, Option.some.injEq] at h
        subst h
        exact table_noFlushAll _ (lookupHandler_mem _ f _ hh) c _ hn

end Sugar
