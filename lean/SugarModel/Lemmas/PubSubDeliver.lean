/-
  Lemmas.PubSubDeliver — who is enqueued on a publish, how often a connection is written to, and in which order
  the write tasks of one entry are spawned.
-/
import SugarModel.Lemmas.PubSubInv
import SugarModel.Spec.SubTable
namespace Sugar.PubSub
open Sugar Sugar.Spec.Sub

/-- the write tasks of a publish on a table whose queues are empty -/
def publishTasks (msg ch : Bytes) (t : Table) : List Push :=
  (t.filter (·.matches ch)).flatMap fun c => c.subs.map fun s => Push.message s c.name msg

theorem publish_tasks (msg ch : Bytes) (t : Table) (hq : ∀ c ∈ t, c.queue = []) :
    (dispatchAll (publish msg ch t)).2 = publishTasks msg ch t := by
  unfold dispatchAll publishTasks publish
  simp only
  induction t with
  | nil => rfl
  | cons c r ih =>
    have hc : c.queue = [] := hq c (by simp)
    have hr : ∀ x ∈ r, x.queue = [] := fun x hx => hq x (by simp [hx])
    simp only [List.map_cons, List.flatMap_cons, List.filter_cons]
    rw [ih hr]
    by_cases hm : c.matches ch = true
    · simp [hm, Chan.tasks, hc]
    · simp [hm, Chan.tasks, hc]

theorem publish_receivers (msg ch : Bytes) (t : Table) (s : Nat) :
    (∃ p ∈ publishTasks msg ch t, p.conn = s) ↔ ∃ c ∈ t, c.matches ch = true ∧ s ∈ c.subs := by
  unfold publishTasks
  constructor
  · rintro ⟨p, hp, rfl⟩
    simp only [List.mem_flatMap, List.mem_filter, List.mem_map] at hp
    obtain ⟨c, ⟨hc, hm⟩, x, hx, rfl⟩ := hp
    exact ⟨c, hc, hm, hx⟩
  · rintro ⟨c, hc, hm, hs⟩
    refine ⟨.message s c.name msg, ?_, rfl⟩
    simp only [List.mem_flatMap, List.mem_filter, List.mem_map]
    exact ⟨c, ⟨hc, hm⟩, s, hs, rfl⟩

theorem mem_absT (t : Table) (s : Nat) (p : Bool) (n : Bytes) :
    (⟨s, p, n⟩ : Sub) ∈ absT t ↔ ∃ c ∈ t, c.pat = p ∧ c.name = n ∧ s ∈ c.subs := by
  unfold absT
  rw [List.mem_eraseDups]
  simp only [List.mem_flatMap, List.mem_map]
  constructor
  · rintro ⟨c, hc, x, hx, he⟩
    injection he with h1 h2 h3
    subst h1
    exact ⟨c, hc, h2, h3, hx⟩
  · rintro ⟨c, hc, rfl, rfl, hs⟩
    exact ⟨c, hc, s, hs, rfl⟩

theorem mem_targets (σ : Subs) (ch : Bytes) (s : Nat) :
    s ∈ targets σ ch ↔ ∃ x ∈ σ, x.matches ch = true ∧ x.conn = s := by
  unfold targets
  rw [List.mem_eraseDups]
  simp only [List.mem_map, List.mem_filter]
  constructor
  · rintro ⟨x, ⟨hx, hm⟩, rfl⟩; exact ⟨x, hx, hm, rfl⟩
  · rintro ⟨x, hx, hm, rfl⟩; exact ⟨x, ⟨hx, hm⟩, rfl⟩

/-- the connections written to are the reference's targets, when the compiled matcher and glob semantics agree on
    the published name for every pattern in the table -/
theorem receivers_eq_targets (msg ch : Bytes) (t : Table) (s : Nat)
    (hg : ∀ c ∈ t, c.pat = true → gmatch c.name ch = gideal c.name ch) :
    (∃ p ∈ publishTasks msg ch t, p.conn = s) ↔ s ∈ targets (absT t) ch := by
  rw [publish_receivers, mem_targets]
  constructor
  · rintro ⟨c, hc, hm, hs⟩
    refine ⟨⟨s, c.pat, c.name⟩, (mem_absT t s c.pat c.name).2 ⟨c, hc, rfl, rfl, hs⟩, ?_, rfl⟩
    unfold Chan.matches at hm
    unfold Sub.matches
    by_cases hp : c.pat = true
    · simp only [hp, if_true] at hm ⊢
      rw [← hg c hc hp]; exact hm
    · simp only [hp] at hm ⊢
      exact hm
  · rintro ⟨x, hx, hm, rfl⟩
    obtain ⟨xc, xp, xn⟩ := x
    obtain ⟨c, hc, rfl, rfl, hs⟩ := (mem_absT t xc xp xn).1 hx
    refine ⟨c, hc, ?_, hs⟩
    unfold Sub.matches at hm
    unfold Chan.matches
    by_cases hp : c.pat = true
    · simp only [hp, if_true] at hm ⊢
      rw [hg c hc hp]; exact hm
    · simp only [hp] at hm ⊢
      exact hm

/-- how many write tasks address connection `s` -/
def received (s : Nat) (l : List Push) : Nat := l.countP (·.conn == s)

theorem received_entry (c : Chan) (msg : Bytes) (s : Nat) (hn : c.subs.Nodup) :
    received s (c.subs.map fun x => Push.message x c.name msg) = if s ∈ c.subs then 1 else 0 := by
  unfold received
  rw [List.countP_map]
  have : ((fun p : Push => p.conn == s) ∘ fun x => Push.message x c.name msg) = fun x => x == s := by
    funext x; simp [Push.conn]
  rw [this, ← List.count_eq_countP, hn.count]

theorem received_zero (msg ch : Bytes) (t : Table) (s : Nat)
    (h : ∀ c ∈ t, c.matches ch = true → s ∉ c.subs) : received s (publishTasks msg ch t) = 0 := by
  unfold received
  rw [List.countP_eq_zero]
  intro p hp hc
  have := (publish_receivers msg ch t s).1 ⟨p, hp, by simpa using hc⟩
  obtain ⟨c, hc', hm, hs⟩ := this
  exact h c hc' hm hs

/-- exactly once: with distinct entry names and duplicate-free subscriber sets, a connection that is in at most one
    matching entry is written to once if it is in one, and not at all otherwise -/
theorem received_once (msg ch : Bytes) (s : Nat) : ∀ (t : Table), Inv t →
    (∀ c1 ∈ t, ∀ c2 ∈ t, c1.matches ch = true → c2.matches ch = true → s ∈ c1.subs → s ∈ c2.subs → c1.name = c2.name) →
    received s (publishTasks msg ch t) = if (∃ c ∈ t, c.matches ch = true ∧ s ∈ c.subs) then 1 else 0 := by
  intro t
  induction t with
  | nil => intro _ _; simp [received, publishTasks]
  | cons c r ih =>
    intro hinv hov
    have hinvr : Inv r := by
      refine ⟨?_, fun x hx => hinv.2 x (by simp [hx])⟩
      have := hinv.1
      unfold NamesDistinct at this ⊢
      simp only [List.map_cons, List.nodup_cons] at this
      exact this.2
    have hovr : ∀ c1 ∈ r, ∀ c2 ∈ r, c1.matches ch = true → c2.matches ch = true → s ∈ c1.subs → s ∈ c2.subs → c1.name = c2.name :=
      fun c1 h1 c2 h2 => hov c1 (by simp [h1]) c2 (by simp [h2])
    have hnotin : c.name ∉ r.map (·.name) := by
      have := hinv.1
      unfold NamesDistinct at this
      simp only [List.map_cons, List.nodup_cons] at this
      exact this.1
    by_cases hm : c.matches ch = true
    · have hsplit : publishTasks msg ch (c :: r) = (c.subs.map fun x => Push.message x c.name msg) ++ publishTasks msg ch r := by
        simp [publishTasks, hm]
      rw [hsplit]
      unfold received
      rw [List.countP_append]
      have h1 := received_entry c msg s (hinv.2 c (by simp))
      unfold received at h1
      rw [h1]
      by_cases hs : s ∈ c.subs
      · have h0 : received s (publishTasks msg ch r) = 0 := by
          apply received_zero
          intro c2 hc2 hm2 hs2
          have := hov c (by simp) c2 (by simp [hc2]) hm hm2 hs hs2
          exact hnotin (by rw [this]; exact List.mem_map.2 ⟨c2, hc2, rfl⟩)
        unfold received at h0
        rw [h0]
        have hex : ∃ x ∈ c :: r, x.matches ch = true ∧ s ∈ x.subs := ⟨c, by simp, hm, hs⟩
        rw [if_pos hs, if_pos hex]
      · have := ih hinvr hovr
        unfold received at this
        rw [this]
        simp only [hs, if_false, Nat.zero_add]
        have : (∃ x ∈ c :: r, x.matches ch = true ∧ s ∈ x.subs) ↔ (∃ x ∈ r, x.matches ch = true ∧ s ∈ x.subs) := by
          constructor
          · rintro ⟨x, hx, hxm, hxs⟩
            simp at hx
            rcases hx with rfl | hx
            · exact absurd hxs hs
            · exact ⟨x, hx, hxm, hxs⟩
          · rintro ⟨x, hx, hxm, hxs⟩; exact ⟨x, by simp [hx], hxm, hxs⟩
        simp only [this]
    · have hsplit : publishTasks msg ch (c :: r) = publishTasks msg ch r := by
        simp [publishTasks, hm]
      rw [hsplit, ih hinvr hovr]
      have : (∃ x ∈ c :: r, x.matches ch = true ∧ s ∈ x.subs) ↔ (∃ x ∈ r, x.matches ch = true ∧ s ∈ x.subs) := by
        constructor
        · rintro ⟨x, hx, hxm, hxs⟩
          simp at hx
          rcases hx with rfl | hx
          · exact absurd hxm hm
          · exact ⟨x, hx, hxm, hxs⟩
        · rintro ⟨x, hx, hxm, hxs⟩; exact ⟨x, by simp [hx], hxm, hxs⟩
      simp only [this]

/-- the payloads of the write tasks of one entry addressed to `s`, in spawn order -/
def payloadsFor (s : Nat) (l : List Push) : List Bytes :=
  (l.filter (·.conn == s)).filterMap fun p => (msgOf p).map (·.2)

theorem payloads_entry_one (c : Chan) (m : Bytes) (s : Nat) (hn : c.subs.Nodup) (hs : s ∈ c.subs) :
    payloadsFor s (c.subs.map fun x => Push.message x c.name m) = [m] := by
  unfold payloadsFor
  generalize c.subs = l at hn hs
  induction l with
  | nil => simp at hs
  | cons a r ih =>
    simp only [List.nodup_cons] at hn
    by_cases ha : a = s
    · subst ha
      have : ∀ x ∈ r, ¬ (x == a) = true := by
        intro x hx hxa
        have : x = a := by simpa using hxa
        subst this
        exact hn.1 hx
      have hnil : (r.map fun x => Push.message x c.name m).filter (·.conn == a) = [] := by
        rw [List.filter_eq_nil_iff]
        intro p hp
        simp only [List.mem_map] at hp
        obtain ⟨x, hx, rfl⟩ := hp
        simpa [Push.conn] using this x hx
      have hhead : ((Push.message a c.name m).conn == a) = true := by simp [Push.conn]
      rw [List.map_cons, List.filter_cons, if_pos hhead, hnil]
      rfl
    · have hs' : s ∈ r := by
        simp at hs
        rcases hs with rfl | hs
        · exact absurd rfl ha
        · exact hs
      have := ih hn.2 hs'
      have hhead : ¬ ((Push.message a c.name m).conn == s) = true := by simpa [Push.conn] using ha
      rw [List.map_cons, List.filter_cons, if_neg hhead]
      exact this

/-- if the write tasks of an entry run in the order they were spawned, a subscriber reads the messages in the order
    they were enqueued, i.e. in publish order -/
theorem payloads_in_spawn_order (c : Chan) (s : Nat) (hn : c.subs.Nodup) (hs : s ∈ c.subs) :
    payloadsFor s c.tasks = c.queue := by
  unfold Chan.tasks
  generalize c.queue = q
  induction q with
  | nil => rfl
  | cons m r ih =>
    simp only [List.flatMap_cons]
    have h1 := payloads_entry_one c m s hn hs
    unfold payloadsFor at h1 ih ⊢
    rw [List.filter_append, List.filterMap_append, h1, ih]
    rfl

end Sugar.PubSub
