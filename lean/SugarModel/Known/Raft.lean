/-
  Known.Raft — decidable classification (from the command and the nodes' pre-states / clocks) of the inputs
  on which replication is known to deviate from C07.
-/
import SugarModel.Model.Raft
import SugarModel.Known
namespace Sugar.Known.Raft
open Sugar Sugar.Raft

def nameOf (cmd : List Bytes) : Bytes := toLower (cmd.headD [])

/-- SET … EX|PX n, GETEX … EX|PX n, EXPIRE, PEXPIRE: the deadline is computed from the applying node's clock -/
def relativeExpiry (cmd : List Bytes) : Bool :=
  let n := nameOf cmd
  if n == b "expire" || n == b "pexpire" then cmd.length ≥ 3
  else if n == b "set" then (cmd.drop 3).any fun t => toLower t == b "ex" || toLower t == b "px"
  else if n == b "getex" then (cmd.drop 2).any fun t => toLower t == b "ex" || toLower t == b "px"
  else false

/-- SPOP on a key holding a set of two or more members: which members go is drawn by each node's math/rand -/
def spopRandom (s : State) (db : Nat) (cmd : List Bytes) : Bool :=
  nameOf cmd == b "spop" &&
  match s.lookup db (cmd.getD 1 []) with
  | some ⟨.set _ ms, _⟩ => ms.length ≥ 2
  | _ => false

/-- some argument names a key whose deadline has passed on this node's clock -/
def namesExpired (now : Int) (s : State) (db : Nat) (cmd : List Bytes) : Bool :=
  (cmd.drop 1).any fun k => expiredPresent { db := db, now := now } s k

/-- SUNION over two or more operand sets (the serving node adds members into one of them) -/
def sunionRead (cmd : List Bytes) : Bool := nameOf cmd == b "sunion" && cmd.length ≥ 3

def clsDeadlock := "leader-deadlocks-on-expired-key"
def clsSpop := "spop-pops-different-members-per-replica"
def clsRelExp := "relative-expiry-uses-each-replicas-clock"
def clsFwdDb0 := "forwarded-write-lands-in-database-0"
def clsFwdDup := "forwarded-identical-writes-collapse"
def clsMapOrder := "effect-depends-on-map-iteration-order"
def clsSunion := "read-served-locally-mutates-that-replica"

/-- class of one log entry applied by several nodes (their clocks and pre-states given) -/
def classifyEntry (nodes : List (Int × State)) (e : LogEntry) : Option String :=
  if nodes.any (fun (now, s) => namesExpired now s e.db e.cmd) then some clsDeadlock
  else if nodes.any (fun (_, s) => spopRandom s e.db e.cmd) then some clsSpop
  else if relativeExpiry e.cmd then some clsRelExp
  else none

end Sugar.Known.Raft
