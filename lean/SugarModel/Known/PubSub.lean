/-
  Known.PubSub — decidable classification of the pub/sub inputs (table, block of commands) on which the model of
  internal/modules/pubsub (hence the code it mirrors) departs from Spec.SubTable. One named class per defect.
-/
import SugarModel.Model.PubSub
import SugarModel.Spec.SubTable
namespace Sugar.Known.PubSub
open Sugar Sugar.PubSub Sugar.Spec.Sub

def permB (a c : List Push) : Bool := a.length == c.length && a.all fun x => a.count x == c.count x

/-- the confirmations the reference expects differ from the argument positions the code sends -/
def countMismatch (t : Table) (conn : Nat) (withPat : Bool) (args : List Bytes) : Bool :=
  let (_, ps) := subscribeSpec conn withPat args (absT t) []
  ps != (args.zipIdx.map fun (n, i) => Push.confirm conn (action withPat false) n (i + 1))

/-- does the model of the handler panic on this command (it did on a pattern that does not compile while the code
    used `glob.MustCompile`; since the repair — `glob.Compile` — it never does: `Props.C18.model_never_panics`) -/
def modelPanics (t : Table) (conn : Nat) (cmd : List Bytes) : Bool :=
  match (step t conn cmd).out with
  | .panic => true
  | _ => false

/-- class of one command on the model's current table -/
def cmdClass (t : Table) (conn : Nat) (cmd : List Bytes) : Option String :=
  match cmd with
  | [] => none
  | name :: args =>
    let n := toLower name
    let panics := modelPanics t conn cmd
    if n == b "subscribe" || n == b "psubscribe" then
      let withPat := n == b "psubscribe"
      if args.isEmpty || conn == 0 then none
      else if args.any (fun a => t.any fun c => c.name == a && c.pat != withPat) then some "subscribe-name-collision-joins-other-kind"
      else if withPat && args.any (fun a => !compiles a) then (if panics then some "malformed-pattern-panics" else none)
      else if countMismatch t conn withPat args then some "subscribe-count-is-argument-position"
      else none
    else if n == b "unsubscribe" || n == b "punsubscribe" then
      let withPat := n == b "punsubscribe"
      if args.any (fun a => t.any fun c => c.name == a && c.pat != withPat && c.subs.contains conn) then some "unsubscribe-ignores-subscription-kind"
      else if withPat && args.any (fun a => !compiles a) && panics then some "malformed-pattern-panics"
      else if withPat && args.any (fun p => t.any fun c => c.subs.contains conn && !args.contains c.name && gmatch p c.name) then
        some "punsubscribe-drops-matching-subscriptions"
      else
        let k := (unsubscribe conn withPat args t).2.length
        if k ≥ 1 && countOf (absT t) conn != k + 1 then some "unsubscribe-count-is-ordinal" else none
    else if n == b "publish" then
      match args with
      | [ch, _] =>
        let conns := (t.flatMap (·.subs)).eraseDups
        if t.any (fun e => e.pat && e.active && gmatch e.name ch != gideal e.name ch) then some "lone-wildcard-pattern-matches-empty-name" else
        if conns.any (fun c => (t.filter fun e => e.matches ch && e.subs.contains c).length ≥ 2) then
          some "overlapping-subscriptions-deliver-per-subscription" else none
      | _ => none
    else if n == b "pubsub" then
      match args with
      | sub :: rest =>
        let s := toLower sub
        if s == b "channels" then
          match rest with
          | [p] => if !p.isEmpty && !compiles p then (if panics then some "malformed-pattern-panics" else none)
                   else if !p.isEmpty && t.any (fun e => e.active && gmatch p e.name != gideal p e.name) then some "lone-wildcard-pattern-matches-empty-name"
                   else none
          | _ => none
        else if s == b "numsub" then
          if rest.any (fun nm => match t.find? (·.name == nm) with
            | some c => c.pat && c.active
            | none => false) then some "numsub-counts-pattern-subscribers" else none
        else none
      | [] => none
    else none

/-- the write tasks a publish would have if its message were dispatched at once -/
def tasksNow (t : Table) (cmd : List Bytes) : List Push :=
  match cmd with
  | [n, ch, msg] =>
    if toLower n == b "publish" then (t.filter (·.matches ch)).flatMap fun e => e.subs.map fun s => Push.message s e.name msg else []
  | _ => []

/-- first per-command class along the block (on the model's evolving table), and the tasks each publish would
    have had at publish time -/
def walk (immediate : Bool) : Table → List (Nat × List Bytes) → Option String × List Push
  | _, [] => (none, [])
  | t, (conn, cmd) :: rest =>
    match cmdClass t conn cmd with
    | some c => (some c, [])
    | none =>
      let r := step t conn cmd
      let t1 := if immediate then (dispatchAll r.table).1 else r.table
      let (c, ts) := walk immediate t1 rest
      (c, tasksNow t cmd ++ ts)

def pubsOf (cmds : List (Nat × List Bytes)) : List Pub :=
  cmds.filterMap fun (conn, cmd) => match cmd with
    | [n, ch, msg] => if toLower n == b "publish" then some ⟨conn, ch, msg⟩ else none
    | _ => none

/-- two publishes of one publisher to one channel whose write tasks reach a common connection -/
def sharedWriters (pubs : List Pub) (tasks : List Push) : Bool :=
  let groups := (pubs.map fun p => (p.publisher, p.channel)).eraseDups
  let conns := (tasks.map (·.conn)).eraseDups
  groups.any fun g =>
    let ps := ((pubs.filter fun p => p.publisher == g.1 && p.channel == g.2).map (·.payload)).eraseDups
    conns.any fun c => (ps.filter fun m => tasks.any fun t => match t with
      | .message c' _ m' => c' == c && m' == m
      | _ => false).length ≥ 2

/-- the class of a block: `mode` is seq | burst | held | heldrev -/
def classifyBlock (mode : String) (t : Table) (cmds : List (Nat × List Bytes)) : String :=
  let immediate := mode == "seq"
  match walk immediate t cmds with
  | (some c, _) => c
  | (none, atPublish) =>
    let tasks := (runBlock immediate t cmds).2.2.2
    if !permB atPublish tasks then "subscription-change-races-inflight-message"
    else if !immediate && sharedWriters (pubsOf cmds) tasks then "concurrent-writers-reorder-messages"
    else "-"

end Sugar.Known.PubSub
