def hello := "world"
