/-
  Driver.EvictLines — transcript lines of the evict suite (C08).

  line  := "V" seq now db conn maxmem policy "C" argc xhex* "S" estate "R" kind xhex "E" (estate | "-")
  estate := state "F" ndb (db ncells cell* nkeys xhex*)* "U" ndb (db ncells cell* nkeys xhex*)*
  cell  := "n" | "e" xkey count added index        (LFU)      | "e" xkey time index     (LRU)
  kind  := ok | err | panic (handler goroutine) | crash (background goroutine: process ended) | hang
-/
import SugarModel.Driver.Transcript
import SugarModel.Model.Evict
import SugarModel.Spec.EvictPolicy
import SugarModel.KnownEvict
namespace Sugar.Driver
open Sugar Sugar.Evict


/-! local copies of the comparison helpers of Driver/Main.lean (the executable's root module) -/
namespace Ev
def showEntry : Option Entry → String
  | none => "absent"
  | some e => s!"{reprStr e.val} exp={e.exp}"

def firstStoreDiff (m i : KMap Entry) : Option String :=
  let keys := (m.map (·.1) ++ i.map (·.1)).eraseDups
  keys.findSome? fun k =>
    if KMap.get m k == KMap.get i k then none
    else some s!"key={toHex k} model=({showEntry (KMap.get m k)}) impl=({showEntry (KMap.get i k)})"

def stateDiff (m i : State) : Option String :=
  if m == i then none else
  if m.mem != i.mem then some s!"mem model={m.mem} impl={i.mem}" else
  let idxs := (m.dbs.map (·.1) ++ i.dbs.map (·.1)).eraseDups
  let r := idxs.findSome? fun d =>
    match NMap.get m.dbs d, NMap.get i.dbs d with
    | none, none => none
    | some _, none => some s!"db={d} exists in model only"
    | none, some _ => some s!"db={d} exists in impl only"
    | some a, some c =>
      if a == c then none
      else match firstStoreDiff a.store c.store with
        | some s => some s!"db={d} store {s}"
        | none => if a.vol != c.vol then some s!"db={d} volatile model={a.vol.map toHex} impl={c.vol.map toHex}"
                  else some s!"db={d} store order"
  (r.orElse fun _ => if m.conns != i.conns then some s!"connections model={m.conns} impl={i.conns}" else none).orElse fun _ =>
    if m.embDb != i.embDb then some s!"embedded db model={m.embDb} impl={i.embDb}" else some "dbs differ"

def stripPrefix (pre bs : Bytes) : Option Bytes :=
  if bs.take pre.length == pre then some (bs.drop pre.length) else none

def consumeGroups : Nat → Nat → Bool → List Bytes → Bytes → Bool
  | 0, _, _, _, _ => false
  | _ + 1, 0, _, _, rest => rest.isEmpty
  | fuel + 1, k + 1, distinct, pool, rest =>
    match pool.find? fun g => !g.isEmpty && rest.take g.length == g with
    | none => false
    | some g => consumeGroups fuel k distinct (if distinct then pool.erase g else pool) (rest.drop g.length)

def replyMatches (r : Res) (impl : Bytes) : Bool :=
  match r with
  | .ok a => a == impl
  | .err _ => false
  | .okPerm hdr groups =>
    match stripPrefix hdr impl with
    | none => false
    | some rest => consumeGroups (groups.length + 2) groups.length true groups rest
  | .okPick hdr k distinct groups =>
    match stripPrefix hdr impl with
    | none => false
    | some rest => consumeGroups (k + 2) k distinct groups rest

def showRes : Res → String
  | .ok a => s!"ok({toHex a})"
  | .err a => s!"err({toHex a})"
  | .okPerm h g => s!"okPerm({toHex h},{g.map toHex})"
  | .okPick h k d g => s!"okPick({toHex h},{k},{d},{g.map toHex})"

def hintOf (ok : Bool) (bs : Bytes) : List Bytes :=
  if !ok then [] else
  match parseReply bs with
  | some (.arr xs) => xs.filterMap fun v => match v with
    | .bulk s => some s
    | _ => none
  | some (.bulk s) => [s]
  | _ => []
end Ev
open Ev

/-- a parsed cache plus "every index field equals the cell position" -/
def pLfuCache : P (Nat × Cache LfuE × Bool) := do
  let db ← pNat
  let n ← pNat
  let cells ← rep n (do
    match (← tok) with
    | "n" => pure (none, -1)
    | "e" => do
      let k ← pBytes; let c ← pNat; let a ← pNat; let i ← pInt
      pure (some (⟨k, c, a⟩ : LfuE), i)
    | t => throw s!"bad cell {t}")
  let nk ← pNat
  let ks ← rep nk pBytes
  let idxOk := (List.range cells.length).all fun i => match cells.getD i (none, 0) with
    | (none, _) => true
    | (some _, j) => j == (i : Int)
  pure (db, ⟨ks, cells.map (·.1)⟩, idxOk)

def pLruCache : P (Nat × Cache LruE × Bool) := do
  let db ← pNat
  let n ← pNat
  let cells ← rep n (do
    match (← tok) with
    | "n" => pure (none, -1)
    | "e" => do
      let k ← pBytes; let a ← pNat; let i ← pInt
      pure (some (⟨k, a⟩ : LruE), i)
    | t => throw s!"bad cell {t}")
  let nk ← pNat
  let ks ← rep nk pBytes
  let idxOk := (List.range cells.length).all fun i => match cells.getD i (none, 0) with
    | (none, _) => true
    | (some _, j) => j == (i : Int)
  pure (db, ⟨ks, cells.map (·.1)⟩, idxOk)

def pEState : P (EState × Bool) := do
  let s ← pState
  expect "F"
  let nf ← pNat
  let fs ← rep nf pLfuCache
  expect "U"
  let nu ← pNat
  let us ← rep nu pLruCache
  pure ({ s := s, lfu := fs.map fun (d, c, _) => (d, c), lru := us.map fun (d, c, _) => (d, c) },
        fs.all (·.2.2) && us.all (·.2.2))

structure ETransition where
  seq : String
  ctx : Ctx
  cmd : List Bytes
  kind : String
  payload : Bytes
  pre : EState
  post : Option EState
  idxOk : Bool

def pETransition : P ETransition := do
  expect "V"
  let seq ← tok
  let now ← pInt
  let db ← pNat
  let connTok ← tok
  let conn : Option Nat := if connTok == "e" then none else connTok.toNat?
  let maxmem ← pNat
  let pol ← pPolicy
  expect "C"
  let argc ← pNat
  let cmd ← rep argc pBytes
  expect "S"
  let (pre, ok1) ← pEState
  expect "R"
  let kind ← tok
  let payload ← pBytes
  expect "E"
  let rest ← get
  let (post, ok2) ← match rest with
    | "-" :: _ => do let _ ← tok; pure (none, true)
    | _ => do let (p, o) ← pEState; pure (some p, o)
  pure ⟨seq, { db := db, now := now, cfg := ⟨maxmem, pol⟩, conn := conn }, cmd, kind, payload, pre, post, ok1 && ok2⟩

/-! ### comparison modulo the order-isomorphism of heap stamps -/

def stampsOf (es : EState) : List Nat :=
  (es.lfu.flatMap fun (_, c) => c.cells.filterMap fun o => o.map (·.added)) ++
  (es.lru.flatMap fun (_, c) => c.cells.filterMap fun o => o.map (·.time))

def rankOf (sorted : List Nat) (t : Nat) : Nat := (sorted.filter (· < t)).length

def canonE (ranks : List Nat) (es : EState) : EState :=
  let srt (ks : List Bytes) := ks.mergeSort bytesLe
  { s := canonState es.s,
    lfu := (es.lfu.map fun (d, c) => (d, (⟨srt c.keys, c.cells.map fun o => o.map fun e => { e with added := rankOf ranks e.added }⟩ : Cache LfuE))).mergeSort (fun a c => a.1 ≤ c.1),
    lru := (es.lru.map fun (d, c) => (d, (⟨srt c.keys, c.cells.map fun o => o.map fun e => { e with time := rankOf ranks e.time }⟩ : Cache LruE))).mergeSort (fun a c => a.1 ≤ c.1),
    ticks := 0, phase := 0 }

def ranksFor (pre post : EState) : List Nat := (stampsOf pre ++ stampsOf post).eraseDups.mergeSort (· ≤ ·)

def showLfu (c : Cache LfuE) : String :=
  " ".intercalate (c.cells.map fun o => match o with
    | none => "nil"
    | some e => s!"{toHex e.key}:{e.count}@{e.added}")

def showLru (c : Cache LruE) : String :=
  " ".intercalate (c.cells.map fun o => match o with
    | none => "nil"
    | some e => s!"{toHex e.key}@{e.time}")

def eStateDiff (m i : EState) : Option String :=
  if m == i then none else
  match stateDiff m.s i.s with
  | some d => some d
  | none =>
    if m.lfu != i.lfu then
      some ("lfu " ++ " | ".intercalate ((m.lfu.map (·.1) ++ i.lfu.map (·.1)).eraseDups.filterMap fun d =>
        if m.lfu.get d == i.lfu.get d then none else
        some s!"db={d} model=[{((m.lfu.get d).map showLfu).getD "absent"}] keys={((m.lfu.get d).map fun c => c.keys.map toHex).getD []} impl=[{((i.lfu.get d).map showLfu).getD "absent"}] keys={((i.lfu.get d).map fun c => c.keys.map toHex).getD []}"))
    else if m.lru != i.lru then
      some ("lru " ++ " | ".intercalate ((m.lru.map (·.1) ++ i.lru.map (·.1)).eraseDups.filterMap fun d =>
        if m.lru.get d == i.lru.get d then none else
        some s!"db={d} model=[{((m.lru.get d).map showLru).getD "absent"}] impl=[{((i.lru.get d).map showLru).getD "absent"}]"))
    else some "estate differs"

def died (t : ETransition) : Bool := t.kind == "panic" || t.kind == "crash" || t.kind == "hang"

def envFor (t : ETransition) (mask order : Nat) (flip : List Bytes := []) (holdUntil : Nat := 0) : Env :=
  { base := 1 + (stampsOf t.pre).foldl max 0, mask := mask, dbOrder := order, flip := flip, hold := t.cmd.drop 1, holdUntil := holdUntil,
    keep := match t.post with
      | some p => p.s.dbs.map fun (d, x) => (d, x.store.map (·.1))
      | none => [],
    died := died t }

def callerDbE (t : ETransition) : Nat :=
  match t.ctx.conn with
  | none => t.pre.s.embDb
  | some id => (NMap.get t.pre.s.conns id).getD 0

def eReplyDiff (r : ERes) (t : ETransition) : Option String :=
  let impl := t.payload
  if t.kind == "ok" then
    match r with
    | .res (.err a) => some s!"outcome model=err({toHex a}) impl=ok({toHex impl})"
    | .res r => if replyMatches r impl then none else some s!"reply model={showRes r} impl={toHex impl}"
    | .anySimple => if impl.head? == some 43 && impl.length ≥ 3 then none else some s!"reply model=simple-string impl={toHex impl}"
    | .errPrefix p => some s!"outcome model=err({toHex p}…) impl=ok({toHex impl})"
  else if t.kind == "err" then
    match r with
    | .res (.err a) => if a == impl then none else some s!"errtext model={toHex a} impl={toHex impl}"
    | .errPrefix p => if impl.take p.length == p then none else some s!"errtext model={toHex p}… impl={toHex impl}"
    | .res r => some s!"outcome model={showRes r} impl=err({toHex impl})"
    | .anySimple => some s!"outcome model=simple-string impl=err({toHex impl})"
  else some s!"outcome model=returns impl={t.kind}"

/-- model agreement for one resolution of the open choices; also returns the model's transition for the classifier -/
def verdictEWith (t : ETransition) (mask order : Nat) (flip : List Bytes := []) (cmd : Option (List Bytes) := none) (holdUntil : Nat := 0) : String × Option (Except Halt (ERes × EState)) :=
  if !t.idxOk then ("DIFF index-field of a heap cell differs from its position", none) else
  if callerDbE t != t.ctx.db && t.cmd.headD [] != b "@tick" then (s!"DIFF context-db dispatcher={t.ctx.db} connection-table={callerDbE t}", none) else
  match stepE t.ctx (envFor t mask order flip holdUntil) t.pre (cmd.getD t.cmd) with
  | none => ("SKIP unmodelled-command", none)
  | some r =>
    (match r with
    | .error (.unmod why) => s!"SKIP unmod:{why.replace " " "_"}"
    | .error (.panic w) => if t.kind == "panic" || t.kind == "crash" then "OK panic" else s!"DIFF outcome model=panic({w.replace " " "_"}) impl={t.kind}"
    | .error (.hang w) => if t.kind == "hang" then "OK hang" else s!"DIFF outcome model=hang({w.replace " " "_"}) impl={t.kind}"
    | .error (.stuck w) => s!"DIFF no-model-run({w.replace " " "_"}) impl={t.kind}"
    | .ok (res, es') =>
      match eReplyDiff res t with
      | some d => s!"DIFF {d}"
      | none =>
        match t.post with
        | none => "DIFF missing post state"
        | some post =>
          let m := canonE (ranksFor t.pre es') es'
          let i := canonE (ranksFor t.pre post) post
          match eStateDiff m i with
          | some d => s!"DIFF state {d}"
          | none => "OK", some r)

def sublists {α : Type} : List α → List (List α)
  | [] => [[]]
  | x :: r => (sublists r) ++ (sublists r).map (x :: ·)

def eVerdict (t : ETransition) : String × Option (Except Halt (ERes × EState)) :=
  let first := verdictEWith t 0 0
  if !first.1.startsWith "DIFF" then first else
  let ndb := t.pre.s.dbs.length + 1
  let orders := [1, 1, 2, 6, 24].getD ndb 1
  let random := t.ctx.cfg.policy == .allkeysRandom || t.ctx.cfg.policy == .volatileRandom
  let flips : List (List Bytes) := if random then sublists ((t.cmd.drop 1).eraseDups.take 3) else [[]]
  let masks := if random then [0] else List.range 32
  -- handleDel ranges over the map returned by KeysExist: the keys are deleted in any order
  let cmds : List (List Bytes) :=
    if toLower (t.cmd.headD []) == b "del" && (t.cmd.drop 1).eraseDups.length ≥ 2 && (t.cmd.drop 1).eraseDups.length ≤ 4 then
      (perms (t.cmd.drop 1).eraseDups).map fun ks => t.cmd.take 1 ++ ks
    else [t.cmd]
  let holds := if random then [0, 1, 2, 3] else [0]
  let cands := cmds.flatMap fun c => masks.flatMap fun m => (List.range orders).flatMap fun o => holds.flatMap fun hu => flips.map fun f => (m, o, f, c, hu)
  match (cands.drop 1).findSome? fun (m, o, f, c, hu) =>
      let v := verdictEWith t m o f (some c) hu
      if v.1.startsWith "DIFF" then none else some v with
  | some v => v
  | none => first

/-- the command's own effect (no memory limit) on the dataset: what a surviving key must still look like -/
def baseEffect (t : ETransition) : Option (State × Bool × Int) :=
  let n := toLower (t.cmd.headD [])
  -- bookkeeping commands store nothing; whether they answer with an error is not this property's business
  if n == b "touch" || n == b "objectfreq" || n == b "objectidletime" then some (t.pre.s, t.kind != "err", t.pre.s.mem) else
  let ctx := { t.ctx with cfg := { maxMemory := 0, policy := t.ctx.cfg.policy }, hint := hintOf (t.kind == "ok") t.payload }
  let peak := match progOf ctx t.cmd with
    | some p => Spec.Evict.progPeak ctx p t.pre.s t.pre.s.mem
    | none => t.pre.s.mem
  match step ctx t.pre.s t.cmd with
  | some (s', .done (.err _)) => some (s', false, peak)
  | some (s', .done _) => some (s', true, peak)
  | _ => none

def evVerdict (toks : List String) : String :=
  match pETransition.run toks with
  | .error e => s!"? BAD {e}"
  | .ok (t, _) =>
    let (mv, mr) := eVerdict t
    let cE (es : EState) : EState := { es with s := canonState es.s }
    let base := (baseEffect t).map fun (s, ok, pk) => (canonState s, ok, pk)
    let t := { t with pre := cE t.pre, post := t.post.map cE }
    -- a command that panics by itself (no limit configured) is the business of the wire / data-type properties
    let basePanics : Bool :=
      let ctx := { t.ctx with cfg := { maxMemory := 0, policy := t.ctx.cfg.policy }, hint := hintOf (t.kind == "ok") t.payload }
      match step ctx t.pre.s t.cmd with
      | some (_, .panic _) => true
      | _ => false
    let sv := if (basePanics && t.ctx.cfg.maxMemory != 0) == true then "na" else
      Spec.Evict.verdict t.ctx t.cmd t.pre base (died t) (t.kind == "err") t.post
    -- the model's own transition, judged by the same spec: names the class of a known deviation
    let cls : String := match mr with
      | none => "-"
      | some r =>
        let (mdied, mhang, merr, mpost) : Bool × Bool × Bool × Option EState := match r with
          | .error (.hang _) => (true, true, false, none)
          | .error _ => (true, false, false, none)
          | .ok (.res (.err _), e) => (false, false, true, some (cE e))
          | .ok (.errPrefix _, e) => (false, false, true, some (cE e))
          | .ok (_, e) => (false, false, false, some (cE e))
        let mvd := if basePanics == true then "na" else Spec.Evict.verdict t.ctx t.cmd t.pre base mdied merr mpost
        (Known.classifyEvict t.ctx t.pre t.cmd mvd mhang mpost).getD "-"
    s!"{t.seq} {mv} ## ev={sv} ecls={cls}"

end Sugar.Driver
