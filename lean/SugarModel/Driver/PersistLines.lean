/-
  Driver.PersistLines — X lines of the persistence suites: one crash image (the bytes on disk at an
  observation point or command boundary), the datasets admissible at that instant, and what a fresh
  instance restored from the image serves.

  X id mode point now now2 sync J inj W nrewrites U stuck
      aof : L xlog|- P xpre|- Q <state|!|->
      snap: F xmanifest|- G n (dirname len lastsave Q <state|!|->)*
      Y (- | copyNow S state) A lastsave N n (S state)* R kind lastsave [S state]
-/
import SugarModel.Driver.Transcript
import SugarModel.Spec.Durable
namespace Sugar.Driver
open Sugar Sugar.Persist

def pFile : P (Option Bytes) := do
  let t ← tok
  if t == "-" then pure none else
  match fromHex t with
  | some bs => pure (some bs)
  | none => throw s!"bad hex {t}"

/-- decoded JSON state: `none` = does not decode, `some none` = empty file -/
def pDecoded : P (Option (Option State)) := do
  let toks ← get
  match toks with
  | "!" :: r => set r; pure none
  | "-" :: r => set r; pure (some none)
  | _ => do let s ← pState; pure (some (some s))

def dataset (s : State) : List (Nat × List (Bytes × Entry)) := s.dbs.map fun (i, d) => (i, d.store)

/-- comparison form for restored states: maps sorted, volatile index sorted (its order after a
    preamble / snapshot restore is Go map order) -/
def canonRestored (s : State) : State :=
  let c := canonState s
  { c with dbs := c.dbs.map fun (i, d) => (i, (⟨d.store, d.vol.mergeSort bytesLe⟩ : Db)) }

/-- values for which `KeyData.GetMem` fails (`[]interface{}`, what JSON makes of a stored list): FLUSHDB skips such a key
    when it deducts the accounted sizes, DEL refuses it. The model gives them size 0 and says no command touches them
    (Model/Value.lean); a restore that replays a FLUSHDB over them leaves the *memory figure* outside the modelled domain —
    the dataset is still compared. -/
def hasMemErrVal (ds : List (Nat × List (Bytes × Entry))) : Bool :=
  ds.any fun (_, kes) => kes.any fun (_, e) => match e.val with
    | .ilist _ => true
    | _ => false

def sameRestored (memUnmodelled : Bool) (a c : State) : Bool :=
  canonRestored a == canonRestored c ||
    (memUnmodelled && canonRestored { a with mem := 0 } == canonRestored { c with mem := 0 })

def isRelExpiry (cmd : List Bytes) : Bool :=
  let n := toLower (cmd.headD [])
  let opts := (cmd.drop 2).map toLower
  n == b "expire" || n == b "pexpire" ||
  ((n == b "set" || n == b "getex") && (opts.contains (b "ex") || opts.contains (b "px")))

def absDeadlineOf (cmd : List Bytes) : Option Int :=
  let n := toLower (cmd.headD [])
  if n == b "expireat" then (parseInt64 (cmd.getD 2 [])).map (· * 1000)
  else if n == b "pexpireat" then parseInt64 (cmd.getD 2 [])
  else if n == b "set" || n == b "getex" then
    let rec find : List Bytes → Option Int
      | o :: v :: r => if toLower o == b "exat" then (parseInt64 v).map (· * 1000)
                       else if toLower o == b "pxat" then parseInt64 v else find (v :: r)
      | _ => none
    find (cmd.drop 2)
  else none

def hasNonZeroDb (s : State) : Bool := s.dbs.any fun (i, d) => i != 0 && !d.store.isEmpty

def lossyVal : Val → Bool
  | .list _ => true | .set _ _ => true | .zset _ _ => true | .ilist _ => true | .nil => true
  | .int _ => true      -- comes back as float64: the text is the same below 2^53, but INCR / DECR no longer accept it
  | .str s => !isAscii s
  | .hash h => h.any fun (f, v) => !isAscii f || (match v with | .str s => !isAscii s | .int _ => true | _ => false)
  | _ => false

def nonFinite : Flt → Bool
  | .fin _ => false
  | _ => true

/-- encoding/json refuses ±Inf (and NaN): a dataset holding one cannot be written as a preamble or snapshot -/
def stateNonFinite (s : State) : Bool :=
  s.dbs.any fun (_, d) => d.store.any fun (_, e) => match e.val with
    | .flt f => nonFinite f
    | .hash h => h.any fun (_, v) => match v with | .flt f => nonFinite f | _ => false
    | .zset _ ms => ms.any fun (_, sc) => nonFinite sc
    | _ => false

def stateLossy (now : Int) (s : State) : Bool :=
  s.dbs.any fun (_, d) => d.store.any fun (k, e) => !e.expired now && (lossyVal e.val || !isAscii k)

/-- classes of crash images / histories on which the unchanged code is known to lose or change data;
    decidable from the image, the observation point and the admissible datasets alone -/
def classifyAof (point : String) (now2 : Int) (log : Bytes) (preEmpty : Bool) (preDecodes : Bool) (copySrc : Option State)
    (injected : Bool) (stuck : Bool) (cands : List State) : String :=
  let cmds := (parseLog (log.length + 1) log).1
  let tail := (parseLog (log.length + 1) log).2
  let mk := b "*2\r\n$6\r\nSELECT\r\n$1\r\n"
  -- a complete SELECT record whose index has more than one character under the `$1` length prefix
  let badMarker := tail.take mk.length == mk && (match (tail.drop (mk.length + 1)).head? with | none => false | some c => c != 13)
  let inRewriteWindow := ["aof.preamble.write.done", "aof.preamble.sync.done", "aof.log.truncate.begin"].any fun p => point.startsWith p
  let preBeingWritten := point.startsWith "aof.preamble.truncate.done" || point.startsWith "aof.preamble.write.done~torn"
  if point == "hang" then (if stuck then "rewrite-after-failed-write-hangs" else "-")
  else if point == "redurable" then "torn-tail-blocks-later-appends"
  else if preBeingWritten then "rewrite-crash-mid-preamble-loses-dataset"
  else if badMarker then "unreadable-select-header-hides-log"
  else if cmds.any isRelExpiry then "relative-expiry-replayed-at-restore-time"
  else if cmds.any (fun c => match absDeadlineOf c with | some t => decide (t ≤ now2) | none => false) then "deadline-passed-before-replay"
  else if injected then "write-during-rewrite-erased"
  else if inRewriteWindow && cmds.length > 1 then "rewrite-crash-window-replays-old-log"
  else if (match copySrc with | some s => !preEmpty && stateLossy now2 s | none => false) then "preamble-retypes-values"
  -- last: a fresh random choice changes which members a set holds, never which keys exist
  else if cmds.any (fun c => toLower (c.headD []) == b "spop") then "random-command-replayed"
  else "-"

/-- placement of the live keys: which key lives in which logical database (C20's persistence leg) -/
def placement (now : Int) (s : State) : List (Nat × Bytes) :=
  (digest now s).map fun r => (r.1, r.2.1)

def placementVerdict (point kind : String) (now2 : Int) (cands : List State) (r : Option State) : String :=
  if point != "boundary" then "na" else
  match kind, r with
  | "ok", some rs => if cands.any (fun s => placement now2 s == placement now2 rs) then "adm" else "rej:key-placement-not-preserved"
  | "undumpable", _ => "na"
  | k, _ => s!"rej:restart-{k}"

def pTail (mode : String) : P (Option (Int × State) × Int × List Int × List State × String × Int × Option State) := do
  let _ := mode
  expect "Y"
  let toks ← get
  let copy ← match toks with
    | "-" :: r => do set r; pure none
    | _ => do let t ← pInt; expect "S"; let s ← pState; pure (some (t, s))
  expect "A"
  let lastSave ← pInt
  expect "K"
  let nk ← pNat
  let ks ← rep nk pInt
  expect "N"
  let n ← pNat
  let cands ← rep n (do expect "S"; pState)
  expect "R"
  let kind ← tok
  let ls ← pInt
  let r ← if kind == "ok" then (do expect "S"; let s ← pState; pure (some s)) else pure none
  pure (copy, lastSave, ks, cands, kind, ls, r)

def showRestored : Restored → String
  | .ok _ => "ok" | .panic => "panic" | .unmod w => s!"unmod({w})"

/-- verdict of one aof-mode image -/
def verdictAof (id point : String) (now2 : Int) (inj stuck : Bool) (nrw : Nat) : P String := do
  expect "L"; let log ← pFile
  expect "P"; let pre ← pFile
  expect "Q"; let q ← pDecoded
  let (copy, _, _, cands, kind, _, r) ← pTail "aof"
  let logB := log.getD []
  let preEmpty := (pre.getD []).isEmpty
  -- 1. the model of restore against what the fresh instance serves
  let preDs : Option (List (Nat × List (Bytes × Entry))) := match q with
    | none => none
    | some none => some []
    | some (some s) => some (dataset s)
  -- SPOP is re-executed with a fresh random choice: the model's replay of it is not comparable
  let hasRandom := (parseLog (logB.length + 1) logB).1.any fun c => toLower (c.headD []) == b "spop"
  let m := if hasRandom then Restored.unmod "SPOP re-executed with a fresh random choice" else restore now2 preDs logB
  let modelV : String := match m, kind, r with
    | .ok s, "ok", some rs =>
      let flushReplayed := (parseLog (logB.length + 1) logB).1.any fun c => toLower (c.headD []) == b "flushdb"
      if sameRestored (flushReplayed && hasMemErrVal (preDs.getD [])) s rs then "OK" else "DIFF restored-state model=" ++ ((toString (repr (canonRestored s).dbs)).replace "\n" " ") ++ s!" mem={s.mem} impl=" ++ ((toString (repr (canonRestored rs).dbs)).replace "\n" " ") ++ s!" mem={rs.mem}"
    | .panic, "panic", _ => "OK"
    | .unmod w, _, _ => s!"SKIP {w}"
    | m, k, _ => s!"DIFF restore-outcome model={showRestored m} impl={k}"
  -- 2. the JSON retyping function against the real decoder (when this process wrote the preamble)
  let jr : String := match copy, q with
    | some (t, src), some (some qs) =>
      match jsonState t src with
      | none => "na"
      | some ds =>
        let lhs := (ds.filter fun (_, es) => true).map fun (i, es) => (i, (es.mergeSort fun a c => bytesLe a.1 c.1))
        let rhs := (dataset (canonState qs))
        if lhs.mergeSort (fun a c => a.1 ≤ c.1) == (rhs.map fun (i, es) => (i, es.map fun (k, e) => (k, (⟨canonVal e.val, e.exp⟩ : Entry)))).mergeSort (fun a c => a.1 ≤ c.1) then "ok" else "diff"
    | _, _ => "na"
  let modelV := if jr == "diff" && !modelV.startsWith "DIFF" then "DIFF json-retyping the decoded preamble is not jsonVal of the copied state" else modelV
  -- 3. the property
  let dur : String := match kind, r with
    | "ok", some rs => if durable now2 cands rs then "adm" else "rej:recovered-dataset-is-not-an-admissible-one"
    | "undumpable", _ => "na"           -- the restored state holds a value outside the dump's domain (NaN …)
    | k, _ => s!"rej:restart-{k}"
  let cls := classifyAof point now2 logB preEmpty q.isSome (copy.map (·.2)) inj stuck cands
  -- C02 judges every restart of a stopped server (command boundaries) and every crash of a history without
  -- rewrite; C09 judges everything from the first rewrite on
  let own := if nrw == 0 then "C02" else if point == "boundary" || point == "redurable" then "C02+C09" else "C09"
  pure s!"{id} {modelV} ## dur={dur} dcls={cls} own={own} pt={point} jr={jr} ncand={cands.length} iso={placementVerdict point kind now2 cands r} cls={cls} nf={if cands.any stateNonFinite then 1 else 0}"

/-- classes of snapshot images on which the unchanged code is known to lose or change data -/
def classifySnap (point : String) (now2 : Int) (manifestOk : Bool) (dangling : Bool) (copySrc : Option State) (cands : List State) (stuck : Bool) : String :=
  let inWindow := ["snapshot.take.manifest.created", "snapshot.take.manifest.written", "snapshot.take.manifest.closed",
                   "snapshot.take.dir.created", "snapshot.take.state.created", "snapshot.take.state.written~torn"].any fun p => point.startsWith p
  if point == "hang" then (if stuck then "rewrite-after-failed-write-hangs" else "-")
  else if (match copySrc with | some s => stateLossy now2 s | none => false) || cands.any (stateLossy now2) then "snapshot-retypes-values"
  -- the two classes below were repaired upstream (state file first, manifest by rename): they are listed as fixed,
  -- excuse nothing, and come last so that they never hide a listed class
  else if inWindow then "snapshot-crash-window-loses-previous"
  else if !manifestOk && point.startsWith "snapshot.take.manifest.written~torn" then "snapshot-crash-window-loses-previous"
  else if dangling then "failed-snapshot-leaves-dangling-manifest"
  else "-"

def pSnapDirs : P (List SnapDir) := do
  expect "G"
  let n ← pNat
  rep n (do
    let name ← pNat
    let len ← pNat
    let ls ← pInt
    expect "Q"
    let q ← pDecoded
    let st : Option (Option (List (Nat × List (Bytes × Entry)) × Int)) :=
      match q with
      | none => if len == 0 then some none else some none
      | some none => some none           -- empty file: json error
      | some (some s) => some (some (dataset s, ls))
    pure (⟨name, st⟩ : SnapDir))

def verdictSnap (id point : String) (now2 : Int) (stuck : Bool) : P String := do
  expect "F"; let mf ← pFile
  let mdec ← pNat
  let mms ← pInt
  let dirs ← pSnapDirs
  let (copy, liveLs, ks, cands, kind, ls, r) ← pTail "snap"
  let manifest : Option (Option Int) := match mf with
    | none => none
    | some _ => if mdec == 1 then some (some mms) else some none
  -- a snapshot directory without state.bin is reported with length 0 and no decodable content
  let (m, mls) := restoreSnap now2 ⟨manifest, dirs⟩
  let modelV : String := match m, kind, r with
    | .ok s, "ok", some rs =>
      if canonRestored s == canonRestored rs then (if mls == ls then "OK" else s!"DIFF lastsave model={mls} impl={ls}")
      else "DIFF restored-state model=" ++ ((toString (repr (canonRestored s).dbs)).replace "\n" " ") ++ " impl=" ++ ((toString (repr (canonRestored rs).dbs)).replace "\n" " ")
    | .panic, "panic", _ => "OK"
    | .unmod w, _, _ => s!"SKIP {w}"
    | m, k, _ => s!"DIFF restore-outcome model={showRestored m} impl={k}"
  -- JSON retyping against the real decoder, for the state file this process wrote last
  let jr : String := match copy with
    | some (t, src) =>
      match jsonState t src, (dirs.find? fun d => (d.name : Int) == t).bind (·.state) with
      | some ds, some (some (qs, _)) =>
        let norm (x : List (Nat × List (Bytes × Entry))) := (x.map fun (i, es) => (i, (es.map fun (ke : Bytes × Entry) => (ke.1, (⟨canonVal ke.2.val, ke.2.exp⟩ : Entry))).mergeSort fun a c => bytesLe a.1 c.1)).mergeSort fun a c => a.1 ≤ c.1
        if norm ds == norm qs then "ok" else "diff"
      | _, _ => "na"
    | none => "na"
  let modelV := if jr == "diff" && !modelV.startsWith "DIFF" then "DIFF json-retyping the decoded state file is not jsonVal of the copied state" else modelV
  -- the property: the restored dataset is one of the admissible snapshots, with its LASTSAVE
  let dur : String := match kind, r with
    | "ok", some rs =>
      if (cands.zip ks).any (fun (s, k) => digest now2 s == digest now2 rs && k == ls) then "adm"
      else if cands.any (fun s => digest now2 s == digest now2 rs) then "rej:lastsave-does-not-name-the-restored-snapshot"
      else "rej:restored-dataset-is-no-complete-snapshot"
    | "undumpable", _ => "na"
    | k, _ => s!"rej:restart-{k}"
  -- the running server's LASTSAVE after the step: the time of the last snapshot that completed
  let liveBad := point == "boundary" && liveLs != ks.headD 0
  let dur := if liveBad then "rej:live-lastsave-names-a-snapshot-that-did-not-complete" else dur
  -- the manifest names a snapshot whose state file is missing or does not decode
  let dangling := mdec == 1 && mms != 0 && (match (dirs.find? fun d => (d.name : Int) == mms).bind (·.state) with | some (some _) => false | _ => true)
  let cls := if liveBad then "-" else classifySnap point now2 (mdec == 1 || mf.isNone) dangling (copy.map (·.2)) cands stuck
  -- C03 judges restarts of a stopped server; C10 judges crash images and what a (failed) attempt leaves behind
  let own := if point == "start" then "C03" else if point == "boundary" then "C03+C10" else "C10"
  pure s!"{id} {modelV} ## dur={dur} dcls={cls} own={own} pt={point} jr={jr} ncand={cands.length} iso={placementVerdict point kind now2 cands r} cls={cls} nf={if cands.any stateNonFinite then 1 else 0}"

/-- S lines: the automatic snapshot trigger. `S id threshold changes fired` -/
def verdictS (line : String) : String :=
  let toks := (line.splitOn " ").filter (· ≠ "")
  let p : P String := do
    expect "S"
    let id ← tok
    let thr ← pNat
    let n ← pNat
    let fired ← tok
    let modelV := if autoFires n thr == (fired == "1") then "OK" else s!"DIFF auto-trigger model={autoFires n thr} impl={fired}"
    -- the property: once the configured number of writes has accumulated, a snapshot within one interval
    let dur := if n ≥ thr && fired != "1" then "rej:no-automatic-snapshot-after-threshold" else "adm"
    let cls := if n > thr then "change-counter-overshoots-threshold" else "-"
    pure s!"{id} {modelV} ## dur={dur} dcls={cls} own=C03 pt=auto jr=na ncand=0"
  match p.run toks with
  | .ok (v, _) => v
  | .error e => s!"{toks.getD 1 "?"} SKIP parse:{e} ## dur=na"

def verdictX (line : String) : String :=
  let toks := (line.splitOn " ").filter (· ≠ "")
  let p : P String := do
    expect "X"
    let id ← tok
    let mode ← tok
    let point ← tok
    let _now ← pInt
    let now2 ← pInt
    let _sync ← tok
    expect "J"; let inj ← tok
    expect "W"; let nrw ← pNat
    expect "U"; let stuck ← tok
    expect "O"; let opName ← tok; let opKind ← tok; let opText ← pBytes; let liveNonFinite ← tok
    -- an engine step (snapshot / rewrite) that was not obstructed must not fail: "nothing new to snapshot" is the
    -- only refusal the property allows
    -- (a rewrite that returns an error changes nothing on disk before it fails: the images stay judged as they are)
    let opFailed := opName == "@snapshot" && opKind != "ok" && opKind != "hang" &&
                    opText != b "nothing new to snapshot"
    if point == "hang" then
      let cls := if stuck == "1" then "rewrite-after-failed-write-hangs" else "-"
      let own := if mode == "aof" then "C09" else "C03"
      pure s!"{id} OK ## dur=rej:server-stops-answering dcls={cls} own={own} pt=hang jr=na ncand=0"
    else do
      let v ← if mode == "aof" then verdictAof id point now2 (inj == "1") (stuck == "1") nrw
              else verdictSnap id point now2 (stuck == "1")
      if opFailed && point == "boundary" then
        -- overrides the verdict of the image: the step itself failed
        let parts := v.splitOn " ## "
        let head := parts.headD ""
        let cls := if liveNonFinite == "1" then "nonfinite-float-blocks-json-persistence" else "-"
        pure s!"{head} ## dur=rej:{opName.drop 1}-failed dcls={cls} own={if mode == "aof" then "C09" else "C03+C10"} pt=boundary jr=na ncand=0 iso=na cls={cls}"
      else pure v
  match p.run toks with
  | .ok (v, _) => v
  | .error e => s!"{toks.getD 1 "?"} SKIP parse:{e} ## dur=na"

end Sugar.Driver
