/-
  Driver.RaftLines — transcript lines of the raft suite (property C07).
    F: one log entry applied by the state machines of several independent nodes
    K: one client command on a node of a three-node cluster: where handleCommand executed it
    Q: one batch of client commands on a three-node cluster, every node dumped after quiescence
  Cluster layout of K/Q lines: node 0 = leader, node 1 = follower that forwards, node 2 = follower that does not.
-/
import SugarModel.Driver.Transcript
import SugarModel.Model.Raft
import SugarModel.Known.Raft
namespace Sugar.Driver
open Sugar Sugar.Raft Sugar.Known.Raft

/-- the datasets of a node: per logical database its keys, values and deadlines (an absent database is an
    empty one; volatile-key index, memory figure and connection table are not part of it) -/
def datasetOf (s : State) : List (Nat × KMap Entry) :=
  ((canonState s).dbs.filter fun (_, d) => !d.store.isEmpty).map fun (i, d) => (i, d.store)

def allEq {α : Type} [BEq α] : List α → Bool
  | [] => true
  | x :: r => r.all (· == x)

/-! ### N lines — snapshot transfer -/

/-- C07 on a snapshot transfer: the node that installs another node's snapshot (FSM.Snapshot → Persist → FSM.Restore)
    holds the same dataset. The source holds JSON-faithful values without deadlines, so the model of the transfer is
    the identity on the dataset; a panic, an error or a hang of the transfer is a departure of its own. -/
def nVerdict (toks : List String) : String :=
  let p : P String := do
    expect "N"
    let seq ← tok
    expect "C"
    let argc ← pNat
    let _cmd ← rep argc pBytes
    expect "R"
    let kind ← tok
    let _payload ← pBytes
    expect "S"
    let src ← pState
    expect "E"
    let dst ← pState
    let same := datasetOf src == datasetOf dst
    let model := if kind == "ok" && same then "OK"
                 else if kind != "ok" then s!"DIFF transfer model=ok impl={kind}"
                 else "DIFF restored dataset differs from the source's"
    let rep := if kind != "ok" then s!"rej:snapshot-transfer-{kind}" else if same then "adm" else "rej:replica-restored-from-snapshot-differs"
    pure s!"{seq} {model} ## rep={rep} rcls=-"
  match p.run toks with
  | .ok (v, _) => v
  | .error e => s!"{toks.getD 1 "?"} BAD {e}"

/-! ### F lines -/

structure FNode where
  now : Int
  kind : String
  payload : Bytes
  pre : State
  post : State

structure FLine where
  seq : String
  entry : LogEntry
  nodes : List FNode

def pFLine : P FLine := do
  expect "F"
  let seq ← tok
  let db ← pNat
  let proto ← pNat
  let n ← pNat
  expect "C"
  let argc ← pNat
  let cmd ← rep argc pBytes
  let nodes ← rep n (do
    expect "N"
    let now ← pInt
    expect "R"
    let kind ← tok
    let payload ← pBytes
    expect "S"
    let pre ← pState
    expect "E"
    let post ← pState
    pure (⟨now, kind, payload, pre, post⟩ : FNode))
  pure ⟨seq, { db := db, proto := proto, cmd := cmd }, nodes⟩

/-- C07 on one entry: nodes that agreed before agree after (same dataset in every database), and the
    state machine answers -/
def fSpec (l : FLine) : String :=
  if !allEq (l.nodes.map fun n => datasetOf n.pre) then "na:diverged-before"
  else if l.nodes.any (·.kind == "hang") then "rej:hang"
  else if !allEq (l.nodes.map fun n => datasetOf n.post) then "rej:diverged"
  else "adm"

/-- the model's outcome for the entry depends on the resolution of Go map iteration order -/
def orderDependent (l : FLine) : Bool :=
  match l.nodes.head? with
  | none => false
  | some n =>
    let k := ((l.entry.cmd.drop 1).eraseDups.length).min 4
    let tries := [1, 1, 2, 6, 24].getD k 1
    let outs := (List.range tries).map fun o =>
      (applyEntry .leader { db := l.entry.db, now := n.now, order := o } n.pre l.entry).map fun r => datasetOf r.1
    !allEq outs

def fClass (l : FLine) : String :=
  match classifyEntry (l.nodes.map fun n => (n.now, n.pre)) l.entry with
  | some c => c
  | none => if orderDependent l then clsMapOrder else "-"

/-! ### K lines -/

structure KLine where
  seq : String
  role : String
  cmd : List Bytes
  kind : String
  payload : Bytes
  done : Bool
  mutd : Bool
  didx : Nat
  cmp : Bool
  flag : Bool
  pre : Option State
  post : Option State

def pOptState : P (Option State) := do
  match (← get) with
  | "-" :: r => set r; pure none
  | _ => return some (← pState)

def pKLine : P KLine := do
  expect "K"
  let seq ← tok
  let role ← tok
  expect "C"
  let argc ← pNat
  let cmd ← rep argc pBytes
  expect "R"
  let kind ← tok
  let payload ← pBytes
  expect "O"
  let done ← pNat
  let mutp ← pNat
  let didx ← pNat
  let cmp ← pNat
  let flag ← pNat
  expect "S"
  let pre ← pOptState
  expect "E"
  let post ← pOptState
  pure ⟨seq, role, cmd, kind, payload, done != 0, mutp != 0, didx, cmp != 0, flag != 0, pre, post⟩

def notLeaderMsg : Bytes := b "not cluster leader, cannot carry out command"

/-- the route observed: on the leader a replicated command moves raft's last index; on a follower the
    refusal has its own error text and a forwarded command is answered +OK without the handler having run;
    everything else was served (or failed before the dispatch) on the node itself -/
def observedRoute (k : KLine) : Route :=
  if k.role == "leader" then (if k.didx > 0 then .raftApply else .localExec)
  else if k.kind == "err" && k.payload == notLeaderMsg then .reject
  else if k.kind == "ok" && k.payload == b "+OK\r\n" && !k.done && !k.mutd then .forward
  else .localExec

def kChanged (k : KLine) : Bool :=
  match k.pre, k.post with
  | some a, some c => k.cmp && datasetOf a != datasetOf c
  | _, _ => false

def kVerdict (k : KLine) : String :=
  if k.kind == "skip" then s!"{k.seq} SKIP not-executed:{String.fromUTF8! (ByteArray.mk k.payload.toArray)} ## rep=na rcls=-" else
  let isLeader := k.role == "leader"
  let fwd := k.role == "ffwd"
  let obs := observedRoute k
  let row := findRow k.cmd
  let modelV := match routeOf isLeader fwd k.cmd with
    | none => if obs == Route.localExec && k.kind == "err" then "OK" else s!"DIFF route model=unsupported-command impl={reprStr obs}"
    | some r =>
      if r != obs then s!"DIFF route model={reprStr r} impl={reprStr obs}"
      else if r == Route.localExec && k.done && localTailPanics k.cmd && k.kind != "panic" then "DIFF outcome model=panic(nil-aof-engine) impl=" ++ k.kind
      else if r == Route.localExec && k.kind == "panic" && !(k.done && localTailPanics k.cmd) then "SKIP local-handler-panic"
      else "OK"
  let mutatingCmd := match row with
    | some r => mutating r
    | none => false
  let ranHere := k.done || k.mutd
  let spec :=
    if obs == Route.localExec && mutatingCmd && ranHere then (if isLeader then "rej:not-replicated" else "rej:applied-locally-on-non-leader")
    else if obs == Route.localExec && kChanged k then "rej:local-mutation"
    else "adm"
  let cls := if sunionRead k.cmd then clsSunion else "-"
  s!"{k.seq} {modelV} ## rep={spec} rcls={cls} route={reprStr obs}"

/-! ### Q lines -/

structure QOp where
  node : Nat
  db : Nat
  kind : String
  payload : Bytes
  cmd : List Bytes

structure QNode where
  now : Int
  pre : State
  post : State

structure QLine where
  seq : String
  ops : List QOp
  nodes : List QNode
  timedOut : Bool

def pQLine : P QLine := do
  expect "Q"
  let seq ← tok
  let n ← pNat
  expect "OPS"
  let m ← pNat
  let ops ← rep m (do
    let node ← pNat
    let db ← pNat
    let kind ← tok
    let payload ← pBytes
    expect "C"
    let argc ← pNat
    let cmd ← rep argc pBytes
    pure (⟨node, db, kind, payload, cmd⟩ : QOp))
  expect "NODES"
  let nodes ← rep n (do
    let now ← pInt
    expect "S"
    let pre ← pState
    expect "E"
    let post ← pState
    pure (⟨now, pre, post⟩ : QNode))
  expect "T"
  let t ← pNat
  pure ⟨seq, ops, nodes, t != 0⟩

def hintOfReply (kind : String) (payload : Bytes) : List Bytes :=
  if kind != "ok" then [] else
  match parseReply payload with
  | some (.arr xs) => xs.filterMap fun v => match v with
    | .bulk s => some s
    | _ => none
  | some (.bulk s) => [s]
  | _ => []

def acked (o : QOp) : Bool := o.kind == "ok" && o.payload == b "+OK\r\n"

/-- what a batch does to the cluster according to the model -/
inductive Eff where
  | entry (e : LogEntry) (hint : List Bytes)
  | localAt (node db : Nat) (cmd : List Bytes)
  | nothing

def effOf (o : QOp) : Eff :=
  match routeOf (o.node == 0) (o.node == 1) o.cmd with
  | none => .nothing
  | some .localExec => .localAt o.node o.db o.cmd
  | some .raftApply => .entry (leaderEntry o.db o.cmd) (hintOfReply o.kind o.payload)
  | some .forward => if acked o then .entry (forwardedEntry o.db o.cmd) [] else .nothing
  | some .reject => .nothing

/-- forwarded messages of the batch: an equal message queued later evicts the earlier one -/
def isEvicted (ops : List QOp) (i : Nat) : Bool :=
  match ops[i]? with
  | none => false
  | some o =>
    routeOf (o.node == 0) (o.node == 1) o.cmd == some .forward && acked o &&
    (ops.drop (i + 1)).any fun p => p.node == o.node && p.cmd == o.cmd && acked p &&
      routeOf (p.node == 0) (p.node == 1) p.cmd == some .forward

inductive Fold where
  | ok (s : State)
  | skip (why : String)

/-- the model's prediction of node `j`'s state after the batch -/
def modelFold (ops : List QOp) (j : Nat) (now : Int) (pre : State) (order : Nat := 0) : Fold :=
  let role : Role := if j == 0 then .leader else .follower
  (List.range ops.length).foldl (fun acc i =>
    match acc with
    | .skip w => .skip w
    | .ok s =>
      match ops[i]? with
      | none => .ok s
      | some o =>
        if isEvicted ops i then .ok s else
        match effOf o with
        | .nothing => .ok s
        | .localAt node db cmd =>
          if node != j then .ok s else
          let c : Ctx := { db := db, now := now, conn := some 1, order := order }
          (match progOf c cmd with
          | none => .skip "unmodelled-command"
          | some p => match runCl role c p s with
            | (s', .done _) => .ok s'
            | (_, .unmod w) => .skip ("unmod:" ++ w.replace " " "_")
            | (_, _) => .skip "abnormal-outcome")
        | .entry e hint =>
          if j != 0 && spopRandom s e.db e.cmd then .skip "random-pick-on-a-follower" else
          match applyEntry role { db := e.db, now := now, hint := hint, order := order } s e with
          | none => .skip "unmodelled-command"
          | some (s', .done _) => .ok s'
          | some (_, .unmod w) => .skip ("unmod:" ++ w.replace " " "_")
          | some (_, _) => .skip "abnormal-outcome") (.ok pre)

/-- what the property demands of the leader's state: every answered replicated command took effect once, in
    order, in the database of the connection that issued it; refused commands and reads change nothing -/
def specFold (ops : List QOp) (now : Int) (pre : State) : Fold :=
  ops.foldl (fun acc o =>
    match acc with
    | .skip w => .skip w
    | .ok s =>
      let route := routeOf (o.node == 0) (o.node == 1) o.cmd
      let applies := (route == some .raftApply && (o.kind == "ok" || o.kind == "err")) || (route == some .forward && acked o)
      if !applies then .ok s else
      match step { db := o.db, now := now, hint := hintOfReply o.kind o.payload } s o.cmd with
      | none => .skip "unmodelled-command"
      | some (s', .done _) => .ok s'
      | some (_, .unmod w) => .skip ("unmod:" ++ w.replace " " "_")
      | some (_, .panic _) => .skip "panic") (.ok pre)

def qModelWith (q : QLine) (order : Nat) : String :=
  let rs := q.nodes.zipIdx.map fun (n, j) => (j, n, modelFold q.ops j n.now n.pre order)
  match rs.findSome? fun (_, _, f) => match f with
    | .skip w => some w
    | .ok _ => none with
  | some w => s!"SKIP {w}"
  | none =>
    match rs.findSome? fun (j, n, f) => match f with
      | .ok s => if datasetOf s == datasetOf n.post then none else some j
      | .skip _ => none with
    | some j => s!"DIFF node={j} dataset after the batch differs from the model's"
    | none => "OK"

/-- Go map iteration order inside a handler (which operand SUNION adds into, …) is resolved by trying the
    permutation indices, as for single transitions -/
def qModel (q : QLine) : String :=
  let first := qModelWith q 0
  if !first.startsWith "DIFF" then first else
  match (List.range 24).drop 1 |>.findSome? fun o =>
      let v := qModelWith q o
      if v.startsWith "DIFF" then none else some v with
  | some v => v
  | none => first

def qSpec (q : QLine) : String :=
  if !allEq (q.nodes.map fun n => datasetOf n.pre) then "na:diverged-before"
  else if !allEq (q.nodes.map fun n => datasetOf n.post) then "rej:diverged"
  else match q.nodes.head? with
    | none => "na"
    | some n0 =>
      match specFold q.ops n0.now n0.pre with
      | .skip _ => "adm"
      | .ok s => if datasetOf s == datasetOf n0.post then "adm" else "rej:acknowledged-write-not-in-effect"

def qClass (q : QLine) : String :=
  let fw := q.ops.filter fun o => routeOf (o.node == 0) (o.node == 1) o.cmd == some .forward && acked o
  let pre0 := (q.nodes.head?.map (·.pre)).getD { dbs := [], mem := 0 }
  if fw.any (·.db != 0) then clsFwdDb0
  else if (List.range q.ops.length).any (isEvicted q.ops) then clsFwdDup
  else if q.ops.any (fun o => routeOf (o.node == 0) (o.node == 1) o.cmd == some .localExec && sunionRead o.cmd) then clsSunion
  else if q.ops.any (fun o => routeOf (o.node == 0) (o.node == 1) o.cmd != some .localExec && spopRandom pre0 o.db o.cmd) then clsSpop
  else if q.ops.any (fun o => routeOf (o.node == 0) (o.node == 1) o.cmd != some .localExec && relativeExpiry o.cmd) then clsRelExp
  else "-"

def qVerdict (q : QLine) : String :=
  s!"{q.seq} {qModel q} ## rep={qSpec q} rcls={qClass q} timeout={if q.timedOut then 1 else 0}"

def runP {α : Type} (p : P α) (toks : List String) : Except String α :=
  match p.run toks with
  | .ok (a, []) => .ok a
  | .ok (_, r) => .error s!"trailing tokens: {r.take 3}"
  | .error e => .error e

def kLineVerdict (toks : List String) : String :=
  match runP pKLine toks with
  | .error e => s!"{toks.getD 1 "?"} BAD {e}"
  | .ok k => kVerdict k

def qLineVerdict (toks : List String) : String :=
  match runP pQLine toks with
  | .error e => s!"{toks.getD 1 "?"} BAD {e}"
  | .ok q => qVerdict q

end Sugar.Driver
