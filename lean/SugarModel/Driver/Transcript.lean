/-
  Driver.Transcript — parser for the harness' line protocol and canonical comparison of states.

  line   := "T" seq now db conn maxmem policy      (conn: "e" = embedded, else connection id) "C" argc xhex* "R" kind xhex "S" state "E" state
  state  := "M" mem "N" ndbs db* "C" nconns (id db)* "B" embeddedDb
  db     := "D" idx "K" nkeys (xkey exp val)* "V" nvol xhex*
  exp    := "-" | int(ms)
  val    := "n" | "s" xhex | "i" int | "f" xhex | "L" n xhex* | "H" n (xfield scalar)*
          | "S" oid n xhex* | "Z" oid n (xmember xscore)*   (oid: pointer-sharing class, 0 = unshared)
  scalar := "s" xhex | "i" int | "f" xhex
-/
import SugarModel.Model.Dispatch
namespace Sugar.Driver
open Sugar

abbrev P := StateT (List String) (Except String)

def tok : P String := do
  match (← get) with
  | [] => throw "unexpected end of line"
  | t :: r => set r; pure t

def expect (s : String) : P Unit := do
  let t ← tok
  if t == s then pure () else throw s!"expected {s}, got {t}"

def pInt : P Int := do
  let t ← tok
  match t.toInt? with
  | some i => pure i
  | none => throw s!"bad int {t}"

def pNat : P Nat := do
  let i ← pInt
  if i < 0 then throw "negative count" else pure i.toNat

def pBytes : P Bytes := do
  let t ← tok
  match fromHex t with
  | some bs => pure bs
  | none => throw s!"bad hex {t}"

def rep {α : Type} : Nat → P α → P (List α)
  | 0, _ => pure []
  | n + 1, p => do let a ← p; let r ← rep n p; pure (a :: r)

/-- float text as produced by strconv.FormatFloat(f,'g',-1,64) -/
def fltOfText (t : Bytes) : Except String Flt :=
  if t == b "+Inf" then .ok .pinf
  else if t == b "-Inf" then .ok .ninf
  else match parseNumLit t with
    | some l => if l.hasP then .error "p-exponent float" else .ok (.fin l.dec)
    | none => .error s!"unparsable float {toHex t}"

def pFlt : P Flt := do
  let t ← pBytes
  match fltOfText t with
  | .ok f => pure f
  | .error e => throw e

def pScalar : P Scalar := do
  match (← tok) with
  | "s" => return .str (← pBytes)
  | "i" => return .int (← pInt)
  | "f" => return .flt (← pFlt)
  | t => throw s!"bad scalar tag {t}"

def pVal : P Val := do
  match (← tok) with
  | "n" => return .nil
  | "s" => return .str (← pBytes)
  | "i" => return .int (← pInt)
  | "f" => return .flt (← pFlt)
  | "L" => do let n ← pNat; return .list (← rep n pBytes)
  | "H" => do
      let n ← pNat
      return .hash (← rep n (do let f ← pBytes; let v ← pScalar; pure (f, v)))
  | "S" => do let o ← pNat; let n ← pNat; return .set o (← rep n pBytes)
  | "Z" => do
      let o ← pNat
      let n ← pNat
      return .zset o (← rep n (do let m ← pBytes; let sc ← pFlt; pure (m, sc)))
  | "A" => do
      let n ← pNat
      return .ilist (← rep n pBytes)
  | t => throw s!"bad value tag {t}"

def pExp : P (Option Int) := do
  let t ← tok
  if t == "-" then pure none else
  match t.toInt? with
  | some i => pure (some i)
  | none => throw s!"bad deadline {t}"

def pDb : P (Nat × Db) := do
  expect "D"
  let idx ← pNat
  expect "K"
  let n ← pNat
  let es ← rep n (do let k ← pBytes; let e ← pExp; let v ← pVal; pure (k, (⟨v, e⟩ : Entry)))
  expect "V"
  let nv ← pNat
  let vol ← rep nv pBytes
  pure (idx, ⟨es, vol⟩)

def pState : P State := do
  expect "M"
  let mem ← pInt
  expect "N"
  let n ← pNat
  let dbs ← rep n pDb
  expect "C"
  let nc ← pNat
  let conns ← rep nc (do let id ← pNat; let d ← pNat; pure (id, d))
  expect "B"
  let emb ← pNat
  pure { dbs := dbs, mem := mem, conns := conns, embDb := emb }

def pPolicy : P Policy := do
  match (← tok) with
  | "noeviction" => pure .noeviction
  | "allkeys-lru" => pure .allkeysLru
  | "allkeys-lfu" => pure .allkeysLfu
  | "volatile-lru" => pure .volatileLru
  | "volatile-lfu" => pure .volatileLfu
  | "allkeys-random" => pure .allkeysRandom
  | "volatile-random" => pure .volatileRandom
  | t => throw s!"bad policy {t}"

inductive Observed where
  | ok (reply : Bytes)
  | err (msg : Bytes)
  | panic
deriving Repr, DecidableEq

structure Transition where
  seq : String
  ctx : Ctx
  cmd : List Bytes
  obs : Observed
  pre : State
  post : State
  /-- what the command's key function declares for this command vector: (read keys, write keys); `none` when the
      harness did not report it or the key function refused the vector -/
  kf : Option (List Bytes × List Bytes) := none

def pTransition : P Transition := do
  expect "T"
  let seq ← tok
  let now ← pInt
  let db ← pNat
  let connTok ← tok
  let conn : Option Nat := if connTok == "e" then none else connTok.toNat?
  let maxmem ← pNat
  let pol ← pPolicy
  expect "C"
  let argc ← pNat
  let cmd ← rep argc pBytes
  expect "R"
  let kind ← tok
  let payload ← pBytes
  let obs ← match kind with
    | "ok" => pure (Observed.ok payload)
    | "err" => pure (Observed.err payload)
    | "panic" => pure Observed.panic
    | t => throw s!"bad result kind {t}"
  expect "S"
  let pre ← pState
  expect "E"
  let post ← pState
  let kf ← tryCatch (do
      expect "KF"
      let st ← tok
      if st != "ok" then pure none else
      expect "r"
      let nr ← pNat
      let rs ← rep nr pBytes
      expect "w"
      let nw ← pNat
      let ws ← rep nw pBytes
      pure (some (rs, ws))) (fun _ => pure none)
  pure ⟨seq, { db := db, now := now, cfg := ⟨maxmem, pol⟩, conn := conn }, cmd, obs, pre, post, kf⟩

def parseLine (line : String) : Except String Transition :=
  let toks := (line.splitOn " ").filter (· ≠ "")
  match pTransition.run toks with
  | .ok (t, []) => .ok t
  | .ok (_, r) => .error s!"trailing tokens: {r.take 3}"
  | .error e => .error e

/-! ### canonical form (Go maps have no order; the dump sorts, so the model state is sorted too) -/

def sortK {α : Type} (m : KMap α) : KMap α := m.mergeSort fun a c => bytesLe a.1 c.1

def canonVal : Val → Val
  | .hash h => .hash (sortK h)
  | .set o ms => .set o (ms.mergeSort bytesLe)
  | .zset o ms => .zset o (sortK ms)
  | v => v

def canonDb (d : Db) : Db :=
  ⟨sortK (d.store.map fun (k, e) => (k, (⟨canonVal e.val, e.exp⟩ : Entry))), d.vol⟩

/-- pointer classes renumbered canonically: an oid held by a single key becomes 0, shared ones are
    numbered 1, 2, … by first occurrence in (database, key) order -/
def renumberOids (s : State) : State :=
  let all : List Nat := s.dbs.flatMap fun (_, d) => d.store.filterMap fun (_, e) => if e.val.oid != 0 then some e.val.oid else none
  let shared : List Nat := (all.filter fun o => (all.filter (· == o)).length ≥ 2).eraseDups
  let newId (o : Nat) : Nat := match shared.idxOf? o with
    | some i => i + 1
    | none => 0
  { s with dbs := s.dbs.map fun (i, d) => (i, (⟨d.store.map fun (k, e) => (k, (⟨e.val.withOid (newId e.val.oid), e.exp⟩ : Entry)), d.vol⟩ : Db)) }

def canonState (s : State) : State :=
  renumberOids { s with dbs := (s.dbs.map fun (i, d) => (i, canonDb d)).mergeSort (fun a c => a.1 ≤ c.1),
                        conns := s.conns.mergeSort (fun a c => a.1 ≤ c.1) }

end Sugar.Driver
