/-
  Driver.SchedLines — I lines of the interleaving suite (C05): two commands forced through one
  interleaving of their keyspace steps on the real code, with the outcomes of the two serial orders.

  I id now dbA dbB CA n x* CB n x* K order BL b TA trace TB trace R kindA xA kindB xB S pre E post [D copy]
    SAB kindA xA kindB xB S post [D copy] SBA kindA xA kindB xB S post [D copy]
-/
import SugarModel.Driver.Transcript
import SugarModel.Driver.PersistLines
import SugarModel.Model.Sched
namespace Sugar.Driver
open Sugar Sugar.Sched Sugar.Persist

structure ObsOut where
  kind : String
  bytes : Bytes
deriving BEq, Repr

def pObsOut : P ObsOut := do let k ← tok; let x ← pBytes; pure ⟨k, x⟩

/-- does the model's outcome denote the observed one (deterministic replies only) -/
def outMatches (o : Outcome Res) (x : ObsOut) : Option Bool :=
  match o with
  | .done (.ok r) => some (x.kind == "ok" && r == x.bytes)
  | .done (.err m) => some (x.kind == "err" && m == x.bytes)
  | .done _ => none                      -- map-order / random replies are not part of this suite
  | .panic _ => some (x.kind == "panic")
  | .unmod _ => none

def showOut : Outcome Res → String
  | .done (.ok r) => s!"ok({toHex r})"
  | .done (.err m) => s!"err({toHex m})"
  | .done _ => "ok(nondeterministic)"
  | .panic w => s!"panic({w.replace " " "_"})"
  | .unmod w => s!"unmod({w.replace " " "_"})"

/-- key arguments that two commands have in common (any argument after the command word) -/
def shareArg (a c : List Bytes) : Bool := (a.drop 1).any fun k => (c.drop 1).contains k

def isSerialOrder (order : String) : Bool :=
  let l := order.toList
  let afterFirstB := l.dropWhile (· == 'A')
  let afterFirstA := l.dropWhile (· == 'B')
  afterFirstB.all (· == 'B') || afterFirstA.all (· == 'A')

structure Serial where
  a : ObsOut
  b : ObsOut
  post : State
  copy : Option (Option (Option State))

def pSerial (snap : Bool) : P Serial := do
  let a ← pObsOut
  let b ← pObsOut
  expect "S"
  let post ← pState
  let copy ← if snap then (do expect "D"; let d ← pDecoded; pure (some d)) else pure none
  pure ⟨a, b, post, copy⟩

def datasetEq (now : Int) (x y : State) : Bool := digest now x == digest now y

def verdictI (line : String) : String :=
  let toks := (line.splitOn " ").filter (· ≠ "")
  let p : P String := do
    expect "I"
    let id ← tok
    let now ← pInt
    let dbA ← pNat
    let dbB ← pNat
    expect "CA"; let na ← pNat; let cmdA ← rep na pBytes
    expect "CB"; let nb ← pNat; let cmdB ← rep nb pBytes
    expect "K"; let order ← tok
    expect "BL"; let blocked ← tok
    expect "TA"; let ta ← tok
    expect "TB"; let tb ← tok
    expect "R"
    let ra ← pObsOut
    let rb ← pObsOut
    expect "S"; let pre ← pState
    expect "E"; let post ← pState
    let snap := cmdB == [b "@snapshot"]
    let copy ← if snap then (do expect "D"; let d ← pDecoded; pure (some d)) else pure none
    expect "SAB"; let sab ← pSerial snap
    expect "SBA"; let sba ← pSerial snap
    let cA : Ctx := { db := dbA, now := now, conn := some 2 }
    let cB : Ctx := { db := dbB, now := now, conn := some 3 }
    let sched := order.toList.map (· == 'A')
    if snap then
      -- the state copy must be the dataset before the write command or after it (JSON-encoded)
      let want (s : State) : Option (List (Nat × List (Bytes × Entry))) := jsonState now s
      let norm (x : List (Nat × List (Bytes × Entry))) := ((x.filter fun (_, es) => !es.isEmpty).map fun (i, es) => (i, (es.map fun (ke : Bytes × Entry) => (ke.1, (⟨canonVal ke.2.val, ke.2.exp⟩ : Entry))).mergeSort fun a c => bytesLe a.1 c.1)).mergeSort fun a c => a.1 ≤ c.1
      let got : Option (List (Nat × List (Bytes × Entry))) := match copy with
        | some (some (some s)) => some (dataset s)
        | _ => none
      let spec : String := match got, want pre, want post with
        | some g, some w1, some w2 => if norm g == norm w1 || norm g == norm w2 then "adm" else "rej:state-copy-holds-a-half-applied-command"
        | none, _, _ => if rb.kind == "err" then "adm" else "rej:no-state-copy"       -- "nothing new to snapshot"
        | _, _, _ => "na"
      -- model of the copy: it waits while a write command is in flight, so it sees the dataset after A
      -- whenever A had started; otherwise the dataset before
      let aIsWrite := datasetEq now pre post == false
      let modelV : String :=
        match got, want post, want pre with
        | some g, some w2, some w1 =>
          if norm g == norm w2 || (!aIsWrite && norm g == norm w1) then "OK" else s!"DIFF state-copy is not the dataset after the command in flight (blocked={blocked})"
        | _, _, _ => "SKIP copy-outside-json-domain"
      pure s!"{id} {modelV} ## atom={spec} acls=- order={order} mode=copy dur={spec} dcls=- own=C03"
    else
    -- DEL walks the Go map that KeysExist returned: the order in which it deletes its keys is not the
    -- argument order; every order is tried (the observed one is among them)
    let variants (c : List Bytes) : List (List Bytes) :=
      if toLower (c.headD []) == b "del" && c.length ≤ 5 then
        let ks := c.drop 1
        (List.range ([1, 1, 2, 6, 24].getD ks.length 1)).map fun n => c.headD [] :: nthPerm n ks
      else [c]
    let judge (ca cb : List Bytes) (oa ob : Nat) : Option (String × Sched.Result) :=
      match interleave { cA with order := oa } { cB with order := ob } ca cb sched pre with
      | none => none
      | some r =>
        let trA := if r.traceA.isEmpty then "-" else ",".intercalate r.traceA
        let trB := if r.traceB.isEmpty then "-" else ",".intercalate r.traceB
        let modelV : String :=
          match outMatches r.a ra, outMatches r.b rb with
          | none, _ => s!"SKIP {showOut r.a}"
          | _, none => s!"SKIP {showOut r.b}"
          | some okA, some okB =>
            if trA != ta || trB != tb then s!"DIFF keyspace-steps model=A:{trA}/B:{trB} impl=A:{ta}/B:{tb}"
            else if !okA then s!"DIFF replyA model={showOut r.a} impl={ra.kind}({toHex ra.bytes})"
            else if !okB then s!"DIFF replyB model={showOut r.b} impl={rb.kind}({toHex rb.bytes})"
            else match (if canonState r.post == canonState post then none else some "state") with
              | some d => s!"DIFF {d} after the schedule"
              | none => "OK"
        some (modelV, r)
    -- handlers that walk a Go map of their operands (SINTER*, SUNION*, SDIFF* …) take the order from `Ctx.order`:
    -- every order is tried, as for single commands
    let orders (c : List Bytes) : List Nat :=
      let n := ((c.drop 1).eraseDups.length).min 3
      List.range ([1, 1, 2, 6].getD n 1)
    let tries := (variants cmdA).flatMap fun ca => (variants cmdB).flatMap fun cb =>
      (orders cmdA).flatMap fun oa => (orders cmdB).filterMap fun ob => judge ca cb oa ob
    match (tries.find? fun t => !t.1.startsWith "DIFF").orElse (fun _ => tries.head?) with
    | none => pure s!"{id} SKIP unmodelled-command ## atom=na acls=- order={order}"
    | some (modelV, _) =>
      -- Go maps and slices returned by GetValues are the stored objects: the hash writers and LSET change
      -- them in place before their SetValues; the model's values are immutable, so a disagreement on
      -- such a pair is outside the modelled domain (the serial-order verdict below still applies)
      let inPlace (c : List Bytes) := [b "hset", b "hsetnx", b "hdel", b "hincrby", b "hincrbyfloat", b "lset"].contains (toLower (c.headD []))
      -- (FLUSHDB / FLUSHALL read the accounted size of every stored value since the flush-accounting repair: they share every key)
      let isFlush (c : List Bytes) := [b "flushdb", b "flushall"].contains (toLower (c.headD []))
      let modelV := if modelV.startsWith "DIFF" && (shareArg cmdA cmdB || isFlush cmdA || isFlush cmdB) && (inPlace cmdA || inPlace cmdB)
                    then "SKIP in-place-mutation-of-a-shared-map-or-slice-between-keyspace-steps" else modelV
      -- the property: replies and final dataset equal those of one of the two serial orders (same build)
      let eqSerial (x : Serial) : Bool := x.a == ra && x.b == rb && datasetEq now x.post post
      let spec := if eqSerial sab || eqSerial sba then "adm" else "rej:outcome-of-no-serial-order"
      let cls := if isSerialOrder order then "-" else if shareArg cmdA cmdB || toLower (cmdA.headD []) == b "flushdb" || toLower (cmdB.headD []) == b "flushdb" || toLower (cmdA.headD []) == b "flushall" || toLower (cmdB.headD []) == b "flushall"
                 then "keyspace-steps-of-commands-interleave" else "-"
      pure s!"{id} {modelV} ## atom={spec} acls={cls} order={order} mode=pair"
  match p.run toks with
  | .ok (v, _) => v
  | .error e => s!"{toks.getD 1 "?"} SKIP parse:{e} ## atom=na"

end Sugar.Driver
