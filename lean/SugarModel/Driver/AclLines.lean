/-
  Driver.AclLines — transcript lines of the ACL suites.
    Z: one authorization decision of AuthorizeConnection on a constructed user / command
    A: one command of an ACL history on a registered connection (state before / after)
-/
import SugarModel.Driver.Transcript
import SugarModel.Spec.Policy
import SugarModel.Model.AclStep
import SugarModel.Model.Wire
namespace Sugar.Driver
open Sugar Sugar.Acl

def pBool : P Bool := do
  match (← tok) with
  | "1" => pure true
  | "0" => pure false
  | t => throw s!"bad bool {t}"

def pList : P (List Bytes) := do let n ← pNat; rep n pBytes

def pUser : P User := do
  let name ← pBytes
  let en ← pBool
  let np ← pBool
  let nk ← pBool
  let npw ← pNat
  let pws ← rep npw (do let s ← pBool; let v ← pBytes; pure (⟨s, v⟩ : Password))
  let ic ← pList; let ec ← pList; let im ← pList; let em ← pList
  let rk ← pList; let wk ← pList; let ich ← pList; let ech ← pList
  pure { name := name, enabled := en, noPass := np, noKeys := nk, passwords := pws, inclCats := ic, exclCats := ec,
         inclCmds := im, exclCmds := em, readKeys := rk, writeKeys := wk, inclChans := ich, exclChans := ech }

structure MetaLine where
  m : CmdMeta
  sub : Spec.Footprint       -- what the sub-command's extractor names

def pMeta : P MetaLine := do
  let comm ← pBytes
  let cats ← pList
  let r ← pList; let w ← pList; let c ← pList
  let sr ← pList; let sw ← pList; let sc ← pList
  pure ⟨⟨comm, cats, r, w, c⟩, ⟨sr, sw, sc⟩⟩

def denyName : Deny → String
  | .unauthenticated => "unauthenticated" | .disabled => "disabled" | .categories => "categories" | .command => "command"
  | .channel => "channel" | .noKeys => "nokeys" | .readKeys => "readkeys" | .writeKeys => "writekeys"

def fullFootprint (ml : MetaLine) : Spec.Footprint :=
  ⟨(ml.m.readKeys ++ ml.sub.reads).eraseDups, (ml.m.writeKeys ++ ml.sub.writes).eraseDups, (ml.m.channels ++ ml.sub.channels).eraseDups⟩

/-- class of inputs on which the decision procedure admits what the policy forbids -/
def classifyAcl (auth : Bool) (u : User) (ml : MetaLine) : String :=
  let f := fullFootprint ml
  let mr (k : Bytes) := u.readKeys.any fun g => globMatch g k
  let mw (k : Bytes) := u.writeKeys.any fun g => globMatch g k
  let chOk (ch : Bytes) := (u.inclChans.any fun g => globMatch g ch) && !(u.exclChans.any fun g => globMatch g ch)
  if auth && !u.enabled then "disabled-user-stays-authorized"
  else if !(ml.sub.channels.all chOk) || !(ml.sub.reads.all mr) || !(ml.sub.writes.all mw) then "subcommand-footprint-not-checked"
  else if ml.m.cats.contains (b "pubsub") && (!(f.reads.all mr && f.writes.all mw) || (u.noKeys && !(f.reads.isEmpty && f.writes.isEmpty))) then "pubsub-category-skips-key-checks"
  else if !f.reads.isEmpty && u.readKeys.isEmpty && !u.noKeys then "empty-read-pattern-list-allows-reads"
  else if f.reads.any mr && !f.reads.all mr then "any-read-key-suffices"
  else if f.writes.any mw && !f.writes.all mw then "any-write-key-suffices"
  else "-"

def aclSpecVerdict (rp auth : Bool) (u : User) (ml : MetaLine) (implAllowed : Bool) : String :=
  if !rp then "uns" else
  if !implAllowed then "adm" else
  if Spec.policyAllowed globMatch auth u ml.m.comm ml.m.cats (fullFootprint ml) then "adm" else "rej"

def zVerdict (toks : List String) : String :=
  let p : P String := do
    expect "Z"
    let seq ← tok
    let rp ← pBool
    let auth ← pBool
    expect "U"
    let u ← pUser
    expect "M"
    let ml ← pMeta
    expect "R"
    let res ← tok
    -- X 1: the gate changed the command vector it was asked about (the keys it is given share the command's array)
    let mutated ← tryCatch (do expect "X"; pBool) (fun _ => pure false)
    let model := match authorize globMatch rp auth u ml.m with
      | none => "allow"
      | some d => denyName d
    let mv := if model == res then "OK" else s!"DIFF decision model={model} impl={res}"
    let av := if mutated then "rej:command-rewritten" else aclSpecVerdict rp auth u ml (res == "allow")
    let cls := if mutated then "gate-rewrites-command-arguments" else classifyAcl auth u ml
    pure s!"{seq} {mv} ## acl={av} cls={cls} shape={model}"
  match p.run toks with
  | .ok (s, _) => s
  | .error e => s!"? BAD {e}"

/-! ### ACL histories -/

structure ConnDump where
  cid : Nat
  auth : Bool
  ref : Option Nat          -- index into the user list, or none = detached
  detached : Option User

def pAclState : P (Bool × List User × List ConnDump) := do
  expect "Q"
  let rp ← pBool
  let nu ← pNat
  let us ← rep nu pUser
  let nc ← pNat
  let cs ← rep nc (do
    let cid ← pNat
    let a ← pBool
    let r ← pInt
    if r < 0 then
      let u ← pUser
      pure (⟨cid, a, none, some u⟩ : ConnDump)
    else pure (⟨cid, a, some r.toNat, none⟩ : ConnDump))
  pure (rp, us, cs)

/-- load a dump into the model's heap representation: listed users get ids 1.., detached ones 1000+cid -/
def loadAcl (d : Bool × List User × List ConnDump) : AclState :=
  let (rp, us, cs) := d
  let listed : List (Nat × User) := us.zipIdx.map fun (u, i) => (i + 1, u)
  let det : List (Nat × User) := cs.filterMap fun c => c.detached.map fun u => (1000 + c.cid, u)
  { heap := listed ++ det, order := listed.map (·.1), requirePass := rp,
    conns := cs.map fun c => (c.cid, (⟨c.auth, match c.ref with
      | some i => i + 1
      | none => 1000 + c.cid⟩ : Conn)) }

def canonList (l : List Bytes) : List Bytes := l.eraseDups.mergeSort bytesLe

def canonUser (u : User) : User :=
  { u with inclCats := canonList u.inclCats, exclCats := canonList u.exclCats, inclCmds := canonList u.inclCmds,
           exclCmds := canonList u.exclCmds, readKeys := canonList u.readKeys, writeKeys := canonList u.writeKeys,
           inclChans := canonList u.inclChans, exclChans := canonList u.exclChans }

/-- observable form of an ACL state: users in list order; per connection the flag and the user it points
    at (position in the list, or the detached user's record) -/
def canonAcl (a : AclState) : List User × List (Nat × Bool × Option Nat × Option User) :=
  (a.users.map fun p => canonUser p.2,
   (a.conns.mergeSort fun x y => x.1 ≤ y.1).map fun (cid, c) =>
     match a.order.idxOf? c.user with
     | some i => (cid, c.authenticated, some i, none)
     | none => (cid, c.authenticated, none, some (canonUser (a.get c.user))))

def aVerdict (toks : List String) : String :=
  let p : P String := do
    expect "A"
    let seq ← tok
    let cid ← pNat
    expect "C"
    let argc ← pNat
    let cmd ← rep argc pBytes
    expect "P"
    let sha ← pBytes
    expect "M"
    let ml ← pMeta
    expect "R"
    let kind ← tok
    let payload ← pBytes
    let denyKind ← tok
    expect "S"
    let pre ← pAclState
    expect "E"
    let post ← pAclState
    expect "D"
    let same ← pBool
    let a := loadAcl pre
    let (a', out) := aclStep a cid cmd sha ml.m
    let stateOk := canonAcl a' == canonAcl (loadAcl post)
    let conn : Conn := (a.conns.get cid).getD ⟨false, 0⟩
    let u := a.get conn.user
    let implAllowed := denyKind == "-"
    let mv : String := match out with
      | .unmod w => s!"SKIP unmod:{w.replace " " "_"}"
      | .panic => if kind == "panic" then "OK panic" else s!"DIFF outcome model=panic impl={kind}"
      | .denied d => if denyKind == denyName d then (if stateOk then "OK denied" else "DIFF acl-state-after-denial") else s!"DIFF decision model={denyName d} impl={denyKind}"
      | .anyOk => if denyKind != "-" then s!"DIFF decision model=allow impl={denyKind}" else if stateOk then "OK" else "DIFF acl-state"
      | .reply bs => if denyKind != "-" then s!"DIFF decision model=allow impl={denyKind}"
                     else if kind == "ok" && payload == bs then (if stateOk then "OK" else "DIFF acl-state")
                     else s!"DIFF reply model={toHex bs} impl={kind}:{toHex payload}"
      | .err m => if denyKind != "-" then s!"DIFF decision model=allow impl={denyKind}"
                  else if kind == "err" && payload == m then (if stateOk then "OK" else "DIFF acl-state")
                  else s!"DIFF reply model=err:{toHex m} impl={kind}:{toHex payload}"
    -- C06 verdict: gate soundness + a denied command changes nothing
    let gate := aclSpecVerdict a.requirePass conn.authenticated u ml implAllowed
    let c06 := if toLower (cmd.headD []) == b "@register" then "na" else if !implAllowed && !(same && canonAcl (loadAcl pre) == canonAcl (loadAcl post)) then "rej:denied-command-had-effect" else gate
    -- C11 verdict: AUTH outcome against the stored credentials; failed AUTH leaves identity unchanged
    let n := toLower (cmd.headD [])
    let c11 : String :=
      if n == b "auth" && (cmd.length == 2 || cmd.length == 3) && implAllowed then
        let target := if cmd.length == 2 then a.find (b "default") else a.find (cmd.getD 1 [])
        let want := Spec.authShouldSucceed (target.map a.get) (cmd.getLast?.getD []) sha
        let got := kind == "ok"
        let postA := loadAcl post
        let pc : Conn := (postA.conns.get cid).getD ⟨false, 0⟩
        if want != got then "rej:auth-outcome"
        else if got && !(pc.authenticated && some pc.user == (if cmd.length == 2 then postA.find (b "default") else postA.find (cmd.getD 1 []))) then "rej:auth-identity"
        else if !got && canonAcl (loadAcl pre) != canonAcl postA then "rej:failed-auth-changed-state"
        else "adm"
      else if n == b "@register" then
        let postA := loadAcl post
        let pc : Conn := (postA.conns.get cid).getD ⟨false, 0⟩
        if some pc.user == postA.find (b "default") && pc.authenticated == (postA.get pc.user).noPass then "adm" else "rej:new-connection-identity"
      else if n == b "acl" && toLower (cmd.getD 1 []) == b "deluser" && implAllowed && kind == "ok" then
        let postA := loadAcl post
        if (postA.find (b "default")).isNone then "rej:default-deleted"
        else if (cmd.drop 2).any (fun nm => nm != b "default" && (postA.find nm).isSome) then "rej:user-not-deleted" else "adm"
      else if implAllowed && !Spec.exempt ml.m.comm && a.requirePass && (a.order.idxOf? conn.user).isNone then
        -- the connection's user object is no longer the table's: later decisions must follow the table
        match a.find u.name with
        | none => "rej:deleted-user-acted"
        | some t => if Spec.policyAllowed globMatch conn.authenticated (a.get t) ml.m.comm ml.m.cats (fullFootprint ml) then "adm" else "rej:stale-rules"
      else "na"
    let nm := String.fromUTF8! (ByteArray.mk (n ++ (if n == b "acl" then 45 :: toLower (cmd.getD 1 []) else [])).toArray)
    let wire : String × String :=
      if kind == "panic" then ("rej:panic", s!"{nm}-panic")
      else if kind == "err" then (if payload.any (fun c => c == 13 || c == 10) then ("rej:malformed", "error-reply-carries-crlf") else ("adm", "-"))
      else if payload.isEmpty || (parseReply payload).isSome then ("adm", "-")
      else ("rej:malformed", s!"{nm}-malformed-reply")
    pure s!"{seq} {mv} ## acl={c06} auth={c11} cls={classifyAcl conn.authenticated u ml} shape={nm} wire={wire.1} wcls={wire.2}"
  match p.run toks with
  | .ok (s, _) => s
  | .error e => s!"? BAD {e}"

/-! ### wire sessions -/

def wVerdict (toks : List String) : String :=
  let p : P String := do
    expect "W"
    let seq ← tok
    let kind ← tok
    let nw ← pNat
    let writes ← rep nw pBytes
    expect "R"
    let out ← pBytes
    expect "H"
    let hung ← pBool
    expect "P"
    let responsive ← pBool
    expect "L"
    let alive ← pBool
    let mv : String :=
      if kind == "malformed" then "SKIP unmod:malformed-input"
      else match Wire.serve writes with
        | .unmod w => s!"SKIP unmod:{w.replace " " "_"}"
        | .out bs => if bs == out && responsive && !hung then "OK" else s!"DIFF wire model=out({bs.length}B,responsive) impl=({out.length}B,responsive={responsive},hung={hung})"
        | .hang bs => if bs == out && !responsive then "OK hang" else s!"DIFF wire model=hang-after({bs.length}B) impl=({out.length}B,responsive={responsive})"
    let complete (w : Bytes) := (Wire.parseStream (w.length + 1) w).isSome
    let cls : String :=
      if writes.any (fun w => !w.isEmpty && w.length % 8192 == 0) then "message-multiple-of-8192-blocks-reader"
      else if writes.any (fun w => match Wire.parseStream (w.length + 1) w with
          | some cs => cs.length > 1
          | none => false) then "pipelined-commands-only-first-answered"
      else if !(writes.all complete) then "command-split-across-writes"
      else "-"
    let spec : String :=
      if !alive then "rej:process-or-listener-dead"
      else if kind == "malformed" then "adm"
      else match Wire.expected writes with
        | none => "uns"
        | some e => if e == out && responsive then "adm" else "rej:framing"
    pure s!"{seq} {mv} ## wire={spec} wcls={cls} shape={kind}"
  match p.run toks with
  | .ok (s, _) => s
  | .error e => s!"? BAD {e}"

end Sugar.Driver
