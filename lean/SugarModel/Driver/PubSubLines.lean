/-
  Driver.PubSubLines — transcript lines of the pub/sub suite.
    P: one block of commands on the subscription table (table before / after, replies, what every connection received)
    G: one (pattern, name) pair evaluated by gobwas/glob
-/
import SugarModel.Driver.Transcript
import SugarModel.Model.PubSub
import SugarModel.Spec.SubTable
import SugarModel.Known.PubSub
namespace Sugar.Driver
open Sugar Sugar.PubSub

def pPsTable : P Table := do
  let n ← pNat
  rep n (do
    let name ← pBytes
    let pat ← tok
    let k ← pNat
    let subs ← rep k pNat
    pure ({ name := name, pat := pat == "1", subs := subs } : Chan))

def canonTable (t : Table) : Table := t.map fun c => { c with subs := c.subs.mergeSort (fun a c => a ≤ c), queue := [] }

/-- split a byte stream into RESP values -/
def splitStream : Nat → Bytes → Option (List RespVal)
  | 0, _ => none
  | _ + 1, [] => some []
  | f + 1, bs =>
    match parseOne (bs.length + 1) bs with
    | none => none
    | some (v, rest) => (splitStream f rest).map (v :: ·)

def pushOf (conn : Nat) : RespVal → Option Push
  | .arr [.bulk k, .bulk n, .bulk m] => if k == b "message" then some (.message conn n m) else none
  | .arr [.bulk a, .bulk n, .int i] => if i ≥ 0 then some (.confirm conn a n i.toNat) else none
  | _ => none

def multisetEq (a c : List Bytes) : Bool := Spec.Sub.sortBytes a == Spec.Sub.sortBytes c

def unsubGroup (act name : Bytes) (i : Nat) : Bytes := arrHdr 3 ++ simpleStr act ++ bulkStr name ++ intReply i

/-- model outcome against the observed reply -/
def outDiff (o : Out) (kind : String) (payload : Bytes) : Option String :=
  match o with
  | .reply bs => if kind == "ok" && payload == bs then none else some s!"reply model={toHex bs} impl={kind}:{toHex payload}"
  | .silent => if kind == "ok" && payload.isEmpty then none else some s!"reply model=none impl={kind}:{toHex payload}"
  | .err m => if kind == "err" && payload == m then none else some s!"reply model=err:{toHex m} impl={kind}:{toHex payload}"
  | .panic => if kind == "panic" then none else some s!"outcome model=panic impl={kind}:{toHex payload}"
  | .unmod _ => none
  | .unsubReply act names =>
    let want := names.zipIdx.map fun (n, i) => unsubGroup act n (i + 1)
    match (if kind == "ok" then parseReply payload else none) with
    | some (.arr items) =>
      if multisetEq (items.map (·.enc)) want then none
      else some s!"unsubscribe-reply model={names.map toHex} impl={toHex payload}"
    | _ => some s!"unsubscribe-reply model={names.map toHex} impl={kind}:{toHex payload}"

structure PsCmdLine where
  conn : Nat
  cmd : List Bytes
  kind : String
  payload : Bytes

def pVerdict (toks : List String) : String :=
  let p : P String := do
    expect "P"
    let seq ← tok
    let mode ← tok
    let n ← pNat
    let cmds ← rep n (do
      let conn ← pNat
      let argc ← pNat
      let cmd ← rep argc pBytes
      let kind ← tok
      let payload ← pBytes
      pure (⟨conn, cmd, kind, payload⟩ : PsCmdLine))
    expect "S"
    let pre ← pPsTable
    expect "E"
    let post ← pPsTable
    expect "V"
    let nc ← pNat
    let streams ← rep nc (do
      let id ← pNat
      let bs ← pBytes
      pure (id, bs))
    let immediate := mode == "seq"
    let plain := cmds.map fun c => (c.conn, c.cmd)
    let parsed : List (Nat × Option (List Push)) := streams.map fun (id, bs) =>
      (id, (splitStream (bs.length + 1) bs).bind fun vs => vs.mapM (pushOf id))
    let wellFormed := parsed.all (·.2.isSome)
    let recv : List (Nat × List Push) := parsed.map fun (id, o) => (id, o.getD [])
    let (t', outs, confirms, tasks) := runBlock immediate pre plain
    let unmod : Option String := outs.findSome? fun o => match o with
      | .unmod w => some w
      | _ => none
    let onlyPublish := cmds.all fun c => toLower (c.cmd.headD []) == b "publish"
    let mv : String :=
      match unmod with
      | some w => s!"SKIP unmod:{w.replace " " "_"}"
      | none =>
        if mode == "burst" && !onlyPublish then "SKIP unmod:burst-with-table-changes" else
        if !wellFormed then "DIFF push-stream-not-a-sequence-of-confirmations-and-messages" else
        match (outs.zip cmds).findSome? fun (o, c) => outDiff o c.kind c.payload with
        | some d => s!"DIFF {d}"
        | none =>
          if canonTable t' != canonTable post then s!"DIFF table model={reprStr (canonTable t')} impl={reprStr (canonTable post)}" else
          let conns := ((recv.map (·.1)) ++ (confirms.map (·.conn)) ++ (tasks.map (·.conn))).eraseDups
          let got (c : Nat) : List Push := ((recv.find? (·.1 == c)).map (·.2)).getD []
          match conns.find? fun c => (got c).filter Spec.Sub.isConfirm != confirms.filter (·.conn == c) with
          | some c => s!"DIFF confirmations conn={c} model={reprStr (confirms.filter (·.conn == c))} impl={reprStr ((got c).filter Spec.Sub.isConfirm)}"
          | none =>
            match conns.find? fun c => !Known.PubSub.permB ((got c).filter (!Spec.Sub.isConfirm ·)) (tasks.filter (·.conn == c)) with
            | some c => s!"DIFF deliveries conn={c} model={reprStr (tasks.filter (·.conn == c))} impl={reprStr ((got c).filter (!Spec.Sub.isConfirm ·))}"
            | none => "OK"
    let obsOf (c : PsCmdLine) : Spec.Sub.Obs := if c.kind == "ok" then .ok c.payload else if c.kind == "err" then .err c.payload else .panic
    let sv := if !wellFormed then "rej:malformed-push" else
      Spec.Sub.blockVerdict pre post (cmds.map fun c => (c.conn, c.cmd, obsOf c)) recv
    let cls := Known.PubSub.classifyBlock mode pre plain
    let nm := match cmds with
      | [c] => String.fromUTF8! (ByteArray.mk ((toLower (c.cmd.headD [])) ++ (if toLower (c.cmd.headD []) == b "pubsub" then 45 :: toLower (c.cmd.getD 1 []) else [])).toArray)
      | _ => mode
    pure s!"{seq} {mv} ## ps={sv} scls={cls} shape={nm}/{mode}/{pre.length}"
  match p.run toks with
  | .ok (s, _) => s
  | .error e => s!"? BAD {e}"

def gVerdict (toks : List String) : String :=
  let p : P String := do
    expect "G"
    let seq ← tok
    let pat ← pBytes
    let s ← pBytes
    let res ← tok
    let mv : String :=
      if !(okBytes pat && okBytes s) then "SKIP unmod:byte-outside-the-modelled-alphabet" else
      let model := match parsePat pat with
        | none => "p"
        | some ts => if matchTop ts s then "1" else "0"
      if model == res then "OK" else s!"DIFF glob pattern={toHex pat} name={toHex s} model={model} impl={res}"
    pure s!"{seq} {mv} ## ps=na scls=- shape=glob"
  match p.run toks with
  | .ok (s, _) => s
  | .error e => s!"? BAD {e}"

end Sugar.Driver
