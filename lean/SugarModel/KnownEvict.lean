/-
  Known (eviction part) — classes of inputs on which the max-memory machinery of the *model* (hence of the code it
  mirrors) departs from Spec.EvictPolicy. The class is a function of the configuration, the pre-state, the command
  and the clause the model's own transition violates (the model is a computable function of the input).
-/
import SugarModel.Spec.EvictPolicy
namespace Sugar.Known
open Sugar Sugar.Evict

def hasNilCell (es : EState) : Bool :=
  es.lfu.any (fun (_, c) => c.cells.any Option.isNone) || es.lru.any (fun (_, c) => c.cells.any Option.isNone)

/-- `modelVerdict`: Spec.Evict.verdict of the model's own transition on this input; `hang`: the model loops -/
def classifyEvict (c : Ctx) (pre : EState) (cmd : List Bytes) (modelVerdict : String) (hang : Bool)
    (mpost : Option EState) : Option String :=
  let n := toLower (cmd.headD [])
  let pol := c.cfg.policy
  if modelVerdict == "rej:down" then
    if n == b "@tick" then some "background-sampler-pass-never-returns"
    else if hang then some "allkeys-random-spins-with-nothing-to-evict"
    else if hasNilCell pre then some "flush-leaves-nil-heap-cells"
    else if !pre.s.hasDb c.db && (n == b "flushdb" || n == b "flushall") then some "flushdb-before-first-write-panics"
    else if !pre.s.hasDb c.db && (n == b "objectfreq" || n == b "objectidletime") then some "object-command-before-first-write-panics"
    else if pol == .volatileRandom then some "volatile-random-indexes-volatile-list-by-database-count"
    else none
  else if modelVerdict == "rej:order" && isLruPol pol then some "lru-evicts-most-recently-used-first"
  else if (modelVerdict == "rej:residue" || modelVerdict == "rej:stale") && isLruPol pol then some "lru-duplicate-entries-outlive-their-key"
  else if modelVerdict == "rej:candidate" && (pol == .volatileLfu || pol == .volatileLru) then some "volatile-cache-keeps-persisted-key"
  else if modelVerdict == "rej:candidate" && pol == .volatileRandom then some "volatile-index-keeps-persisted-key"
  else if modelVerdict == "rej:below-limit" && pre.s.mem < 0 then some "negative-usage-counter-reads-as-over-the-limit"
  else if modelVerdict == "rej:admitted" && pol == .noeviction then some "noeviction-admits-in-place-collection-writes"
  else if modelVerdict == "rej:partial" && pol == .noeviction && (n == b "lpush" || n == b "rpush") then some "refused-push-leaves-empty-list"
  else if modelVerdict == "rej:survivor" && pol != .noeviction &&
      (match mpost with
       | some p => (cmd.drop 1).any fun k => match p.s.lookup c.db k with
         | some e => e.val == .nil
         | none => false
       | none => false) then some "expiry-write-resurrects-evicted-key-as-nil"
  else none

end Sugar.Known
