/-
  Base.Num — exact decimals standing in for float64 on the domain where float64 parse → shortest
  format is the identity (≤ 15 significant digits), `AdaptType` (internal/utils.go:41, i.e.
  `big.ParseFloat(s, 10, 256, ToNearestEven)` + IsInt/Int64 clamp/Float64), `%v`/`%g` formatting
  (strconv.FormatFloat(f,'g',-1,64)), `strconv.ParseFloat`.
  Outside the exact domain every function answers `none`/`unmod` — the model never guesses.
-/
import SugarModel.Base.Bytes
namespace Sugar

/-- a decimal m·10^e; normal form: m = 0 ∧ e = 0, or m % 10 ≠ 0 -/
structure Dec where
  m : Int
  e : Int
deriving DecidableEq, Repr, Inhabited

/-- strip trailing zeros of the mantissa; fuel = number of digits is enough -/
def Dec.normFuel : Nat → Int → Int → Dec
  | 0, m, e => ⟨m, e⟩
  | f + 1, m, e => if m = 0 then ⟨0, 0⟩ else if m % 10 = 0 then Dec.normFuel f (m / 10) (e + 1) else ⟨m, e⟩

def Dec.norm (m e : Int) : Dec := Dec.normFuel (m.natAbs + 1) m e

def pow10 (n : Nat) : Int := (10 ^ n : Nat)

/-- exact sum of two decimals -/
def Dec.add (a c : Dec) : Dec :=
  let e := min a.e c.e
  Dec.norm (a.m * pow10 (a.e - e).toNat + c.m * pow10 (c.e - e).toNat) e

def Dec.neg (a : Dec) : Dec := ⟨-a.m, a.e⟩

def Dec.ofInt (i : Int) : Dec := Dec.norm i 0

/-- the integer value if the decimal is integer-valued -/
def Dec.toInt? (a : Dec) : Option Int := if a.e ≥ 0 then some (a.m * pow10 a.e.toNat) else none

def Dec.lt (a c : Dec) : Bool :=
  let e := min a.e c.e
  a.m * pow10 (a.e - e).toNat < c.m * pow10 (c.e - e).toNat

def Dec.nd (a : Dec) : Nat := (natDigits a.m.natAbs).length

/-- domain on which float64 holds the decimal's shortest representation exactly as written:
    at most 15 significant digits, decimal exponent well inside the normal range -/
def Dec.inF64 (a : Dec) : Bool :=
  a.m = 0 || (a.nd ≤ 15 && decide (-280 ≤ a.e + a.nd) && decide (a.e + a.nd ≤ 280))

/-- dyadic and small: float64 *arithmetic* (+) on such values is exact: multiples of 1/4 below 2^40 -/
def Dec.isQuarter (a : Dec) : Bool :=
  decide (a.e ≥ -2) && decide ((a.m * pow10 (a.e + 2).toNat) % 25 = 0) &&
  decide ((a.m * pow10 (a.e + 2).toNat).natAbs < 100 * 1099511627776)

inductive Flt where
  | fin (d : Dec)
  | pinf
  | ninf
deriving DecidableEq, Repr, Inhabited

/-- strconv.FormatFloat(f, 'g', -1, 64) == fmt `%v` / `%g` of a float64, for `inF64` decimals -/
def Dec.fmtG (a : Dec) : Bytes :=
  if a.m = 0 then b "0" else
  let ds := natDigits a.m.natAbs
  let nd := ds.length
  let dp : Int := nd + a.e
  let exp := dp - 1
  let sign : Bytes := if a.m < 0 then b "-" else []
  if exp < -4 || exp ≥ 6 then
    -- d.ddddde±XX
    let mant := match ds with
      | [] => []
      | d :: rest => if rest.isEmpty then [d] else d :: 46 :: rest
    let es := natDigits exp.natAbs
    let es := if es.length < 2 then 48 :: es else es
    sign ++ mant ++ b "e" ++ (if exp < 0 then b "-" else b "+") ++ es
  else if dp ≤ 0 then
    sign ++ b "0." ++ List.replicate (-dp).toNat 48 ++ ds
  else if dp.toNat ≥ nd then
    sign ++ ds ++ List.replicate (dp.toNat - nd) 48
  else
    sign ++ ds.take dp.toNat ++ b "." ++ ds.drop dp.toNat

/-- strconv.FormatFloat(f, 'f', -1, 64): shortest digits, never an exponent -/
def Dec.fmtF (a : Dec) : Bytes :=
  if a.m = 0 then b "0" else
  let ds := natDigits a.m.natAbs
  let nd := ds.length
  let dp : Int := nd + a.e
  let sign : Bytes := if a.m < 0 then b "-" else []
  if dp ≤ 0 then sign ++ b "0." ++ List.replicate (-dp).toNat 48 ++ ds
  else if dp.toNat ≥ nd then sign ++ ds ++ List.replicate (dp.toNat - nd) 48
  else sign ++ ds.take dp.toNat ++ b "." ++ ds.drop dp.toNat

def Flt.fmtF : Flt → Bytes
  | .fin d => d.fmtF
  | .pinf => b "+Inf"
  | .ninf => b "-Inf"

def Flt.fmtG : Flt → Bytes
  | .fin d => d.fmtG
  | .pinf => b "+Inf"
  | .ninf => b "-Inf"

/-! ### number grammar of big.Float.Parse (base 10) and strconv.ParseFloat -/

structure NumLit where
  neg : Bool
  intDigits : Bytes
  fracDigits : Bytes
  exp : Int          -- decimal exponent
  hasP : Bool        -- binary exponent marker p/P present (big.Float only)
deriving Repr

def spanDigits (s : Bytes) : Bytes × Bytes := s.span isDigit

/-- sign? (digits [. digits?] | . digits) ([eEpP] sign? digits)?  — whole string -/
def parseNumLit (s : Bytes) : Option NumLit :=
  let (neg, r) := match s with
    | 43 :: r => (false, r)
    | 45 :: r => (true, r)
    | r => (false, r)
  let (ip, r) := spanDigits r
  let (fp, r, hadPoint) := match r with
    | 46 :: r' => let (f, r'') := spanDigits r'; (f, r'', true)
    | _ => ([], r, false)
  let _ := hadPoint
  if ip.isEmpty && fp.isEmpty then none else
  match r with
  | [] => some ⟨neg, ip, fp, 0, false⟩
  | c :: r' =>
    if c == 101 || c == 69 || c == 112 || c == 80 then
      let (eneg, ds) := match r' with
        | 43 :: q => (false, q)
        | 45 :: q => (true, q)
        | q => (false, q)
      if allDigits ds then
        let v : Int := digitsVal ds
        some ⟨neg, ip, fp, if eneg then -v else v, c == 112 || c == 80⟩
      else none
    else none

inductive Adapted where
  | str (s : Bytes)
  | int (i : Int)
  | flt (f : Flt)
  | unmod            -- outside the exactly-modelled numeric domain
deriving DecidableEq, Repr

def NumLit.dec (l : NumLit) : Dec :=
  let m : Int := digitsVal (l.intDigits ++ l.fracDigits)
  Dec.norm (if l.neg then -m else m) (l.exp - l.fracDigits.length)

/-- internal/utils.go:41 AdaptType -/
def adaptType (s : Bytes) : Adapted :=
  if s == b "Inf" || s == b "inf" || s == b "+Inf" || s == b "+inf" then .flt .pinf
  else if s == b "-Inf" || s == b "-inf" then .flt .ninf
  else match parseNumLit s with
  | none => .str s
  | some l =>
    if l.hasP then .unmod
    else if (l.intDigits.length + l.fracDigits.length > 30) || l.exp.natAbs > 30 then .unmod
    else
      let d := l.dec
      match d.toInt? with
      | some i => .int (if i > maxInt64 then maxInt64 else if i < minInt64 then minInt64 else i)
      | none => if d.inF64 then .flt (.fin d) else .unmod

/-- strconv.ParseFloat(s, 64) on the modelled domain. `none` = Go returns an error;
    `some none` = outside the modelled domain. (ParseFloat also accepts hex floats, underscores
    only with base prefix, "infinity", "nan": those answer `some none`.) -/
def parseFloat64 (s : Bytes) : Option (Option Flt) :=
  let ls := toLower s
  if ls == b "inf" || ls == b "+inf" || ls == b "infinity" || ls == b "+infinity" then some (some .pinf)
  else if ls == b "-inf" || ls == b "-infinity" then some (some .ninf)
  else if ls == b "nan" || ls == b "+nan" || ls == b "-nan" then some none
  else match parseNumLit s with
  | none => if s.any (fun c => c == 95 || c == 120 || c == 88) then some none else none
  | some l =>
    if l.hasP then (if s.any (fun c => c == 120 || c == 88) then some none else none)
    else if (l.intDigits.length + l.fracDigits.length > 30) || l.exp.natAbs > 30 then some none
    else let d := l.dec; if d.inF64 then some (some (.fin d)) else some none

/-- float64(int64) conversion, exact below 2^53 -/
def Flt.ofInt (i : Int) : Option Flt :=
  if i.natAbs < 9007199254740992 then some (.fin (Dec.ofInt i)) else none

/-- float64 addition on the exact domain (multiples of 1/4 below 2^40; infinities) -/
def Flt.add : Flt → Flt → Option Flt
  | .fin a, .fin c => if a.isQuarter && c.isQuarter then
      let r := a.add c; if r.isQuarter then some (.fin r) else none else none
  | .pinf, .ninf => none
  | .ninf, .pinf => none
  | .pinf, _ => some .pinf
  | _, .pinf => some .pinf
  | .ninf, _ => some .ninf
  | _, .ninf => some .ninf

end Sugar
