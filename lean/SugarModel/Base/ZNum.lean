/-
  Base.ZNum — float64 operations the sorted-set code performs on scores, on the exactly-modelled
  domain of Base.Num: ordering (`<`, `cmp.Compare`), `score * Score(int weight)`, `%f`,
  `strconv.ParseFloat` with its error text, and `strings.Contains` / internal.CompareLex on bytes.
-/
import SugarModel.Base.Num
namespace Sugar

def Flt.zero : Flt := .fin ⟨0, 0⟩

/-- float64 `<` (no NaN in the domain) -/
def Flt.lt : Flt → Flt → Bool
  | .ninf, .ninf => false
  | .ninf, _ => true
  | _, .ninf => false
  | .pinf, _ => false
  | .fin _, .pinf => true
  | .fin a, .fin c => a.lt c

def Flt.le (a c : Flt) : Bool := !c.lt a

def Flt.isInf : Flt → Bool
  | .fin _ => false
  | _ => true

/-- `score * Score(weight)` for an int weight: exact for weight ±1, and for quarter-valued scores with a
    small weight; `none` outside the exact domain (NaN, negative zero, rounding) -/
def Flt.mulInt (f : Flt) (w : Int) : Option Flt :=
  match f with
  | .pinf => if w > 0 then some .pinf else if w < 0 then some .ninf else none
  | .ninf => if w > 0 then some .ninf else if w < 0 then some .pinf else none
  | .fin d =>
    if w == 1 then some (.fin d)
    else if (d.m == 0 && w < 0) || (d.m < 0 && w == 0) then none          -- IEEE negative zero
    else if w == -1 then some (.fin ⟨-d.m, d.e⟩)
    else if d.isQuarter && w.natAbs < 1048576 then
      let r := Dec.norm (d.m * w) d.e
      if r.isQuarter then some (.fin r) else none
    else none

/-- fmt `%f` (six decimals): exact when the decimal has at most six fractional digits -/
def Dec.fmt6 (a : Dec) : Option Bytes :=
  if a.e < -6 then none else
  if a.m = 0 then some (b "0.000000") else
  let scaled : Nat := a.m.natAbs * (10 ^ (a.e + 6).toNat)
  let ds := natDigits scaled
  let ds := if ds.length ≤ 6 then List.replicate (7 - ds.length) 48 ++ ds else ds
  let sign : Bytes := if a.m < 0 then b "-" else []
  some (sign ++ ds.take (ds.length - 6) ++ b "." ++ ds.drop (ds.length - 6))

def Flt.fmt6 : Flt → Option Bytes
  | .fin d => d.fmt6
  | .pinf => some (b "+Inf")
  | .ninf => some (b "-Inf")

/-- `strings.Contains(s, sub)` -/
def containsSub : Bytes → Bytes → Bool
  | [], sub => sub.isEmpty
  | c :: r, sub => sub.isPrefixOf (c :: r) || containsSub r sub

/-- first non-zero `cmp.Compare(s1[i], s2[i])` over the common length, 0 if none -/
def firstByteCmp : Bytes → Bytes → Int
  | x :: xs, y :: ys => if x < y then -1 else if y < x then 1 else firstByteCmp xs ys
  | _, _ => 0

/-- internal/utils.go:235 CompareLex -/
def compareLex (s1 s2 : Bytes) : Int :=
  if s1 == s2 then 0
  else if containsSub s1 s2 then 1
  else if containsSub s2 s1 then -1
  else firstByteCmp s1 s2

/-- three-way comparison of byte strings in plain lexicographic order (the reference order) -/
def lexCmp (s1 s2 : Bytes) : Int := if s1 == s2 then 0 else if bytesLt s1 s2 then -1 else 1

end Sugar
