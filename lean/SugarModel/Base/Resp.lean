/-
  Base.Resp — RESP2 reply builders as the handlers write them with fmt.Sprintf, a RESP value type,
  an encoder and a strict parser (`parseOne`) used by the wire-protocol property (C12).
-/
import SugarModel.Base.Bytes
namespace Sugar

def okReply : Bytes := b "+OK\r\n"
def nilBulk : Bytes := b "$-1\r\n"

/-- `+%v\r\n` -/
def simpleStr (s : Bytes) : Bytes := 43 :: s ++ crlf
/-- `:%d\r\n` -/
def intReply (i : Int) : Bytes := 58 :: fmtInt i ++ crlf
/-- `$%d\r\n%s\r\n` -/
def bulkStr (s : Bytes) : Bytes := 36 :: fmtNat s.length ++ crlf ++ s ++ crlf
/-- `*%d\r\n` -/
def arrHdr (n : Nat) : Bytes := 42 :: fmtNat n ++ crlf

inductive RespVal where
  | simple (s : Bytes)
  | error (s : Bytes)
  | int (i : Int)
  | bulk (s : Bytes)
  | nullBulk
  | nullArr
  | arr (xs : List RespVal)
deriving Repr, Inhabited

end Sugar

namespace Sugar

/-- split at the first CR LF -/
def splitCrlf : Bytes → Option (Bytes × Bytes)
  | [] => none
  | [_] => none
  | 13 :: 10 :: r => some ([], r)
  | c :: r => (splitCrlf r).map fun (l, r') => (c :: l, r')

def cleanLine (l : Bytes) : Bool := l.all fun c => c != 13 && c != 10

/-- strict RESP2 parser: first value of the buffer and the residue. Fuel bounds array nesting. -/
def parseOne : Nat → Bytes → Option (RespVal × Bytes)
  | 0, _ => none
  | _ + 1, [] => none
  | f + 1, t :: r =>
    match splitCrlf r with
    | none => none
    | some (line, rest) =>
      if !cleanLine line then none else
      if t == 43 then some (.simple line, rest)
      else if t == 45 then some (.error line, rest)
      else if t == 58 then (parseIntDec line).map fun i => (.int i, rest)
      else if t == 36 then
        if line == b "-1" then some (.nullBulk, rest) else
        if !allDigits line then none else
        let n := digitsVal line
        if rest.length < n + 2 then none else
        let body := rest.take n
        match rest.drop n with
        | 13 :: 10 :: rest' => some (.bulk body, rest')
        | _ => none
      else if t == 42 then
        if line == b "-1" then some (.nullArr, rest) else
        if !allDigits line then none else
        let n := digitsVal line
        let rec elems (k : Nat) (buf : Bytes) (acc : List RespVal) : Option (List RespVal × Bytes) :=
          match k with
          | 0 => some (acc.reverse, buf)
          | k + 1 =>
            match parseOne f buf with
            | none => none
            | some (v, buf') => elems k buf' (v :: acc)
        (elems n rest []).map fun (xs, rest') => (.arr xs, rest')
      else if t == 37 then
        -- RESP3 map `%n`: n key/value pairs, read as 2n values (HELLO 3 answers one)
        if !allDigits line then none else
        let n := digitsVal line
        let rec pairs (k : Nat) (buf : Bytes) (acc : List RespVal) : Option (List RespVal × Bytes) :=
          match k with
          | 0 => some (acc.reverse, buf)
          | k + 1 =>
            match parseOne f buf with
            | none => none
            | some (v, buf') => pairs k buf' (v :: acc)
        (pairs (2 * n) rest []).map fun (xs, rest') => (.arr xs, rest')
      else none

/-- a reply is well-formed iff it is exactly one RESP value -/
def parseReply (bs : Bytes) : Option RespVal :=
  match parseOne (bs.length + 1) bs with
  | some (v, []) => some v
  | _ => none

end Sugar

namespace Sugar

mutual
/-- canonical RESP2 encoding -/
def RespVal.enc : RespVal → Bytes
  | .simple s => simpleStr s
  | .error s => 45 :: s ++ crlf
  | .int i => intReply i
  | .bulk s => bulkStr s
  | .nullBulk => nilBulk
  | .nullArr => b "*-1\r\n"
  | .arr xs => arrHdr xs.length ++ RespVal.encList xs
def RespVal.encList : List RespVal → Bytes
  | [] => []
  | x :: r => x.enc ++ RespVal.encList r
end

instance : BEq RespVal := ⟨fun a c => a.enc == c.enc⟩

/-- the string a client reads from a simple or bulk string reply -/
def RespVal.str? : RespVal → Option Bytes
  | .simple s => some s
  | .bulk s => some s
  | _ => none

def RespVal.isNil : RespVal → Bool
  | .nullBulk => true
  | .nullArr => true
  | _ => false

end Sugar
