/-
  Base.Resp — RESP2 reply builders as the handlers write them with fmt.Sprintf, a RESP value type,
  an encoder and a strict parser (`parseOne`) used by the wire-protocol property (C12).
-/
import SugarModel.Base.Bytes
namespace Sugar

def okReply : Bytes := b "+OK\r\n"
def nilBulk : Bytes := b "$-1\r\n"

/-- `+%v\r\n` -/
def simpleStr (s : Bytes) : Bytes := 43 :: s ++ crlf
/-- `:%d\r\n` -/
def intReply (i : Int) : Bytes := 58 :: fmtInt i ++ crlf
/-- `$%d\r\n%s\r\n` -/
def bulkStr (s : Bytes) : Bytes := 36 :: fmtNat s.length ++ crlf ++ s ++ crlf
/-- `*%d\r\n` -/
def arrHdr (n : Nat) : Bytes := 42 :: fmtNat n ++ crlf

inductive RespVal where
  | simple (s : Bytes)
  | error (s : Bytes)
  | int (i : Int)
  | bulk (s : Bytes)
  | nullBulk
  | nullArr
  | arr (xs : List RespVal)
deriving Repr, Inhabited

end Sugar
