/-
  Base.KMap — association lists keyed by byte strings (Go maps, canonicalised by lookup).
  `get` finds the first binding; `put` replaces the first binding in place or appends;
  `del` removes every binding of the key.
-/
import SugarModel.Base.Bytes
namespace Sugar

abbrev KMap (α : Type) := List (Bytes × α)

namespace KMap
variable {α : Type}

def get (m : KMap α) (k : Bytes) : Option α :=
  match m with
  | [] => none
  | (k', v) :: r => if k' = k then some v else get r k

def has (m : KMap α) (k : Bytes) : Bool := (get m k).isSome

def put (m : KMap α) (k : Bytes) (v : α) : KMap α :=
  match m with
  | [] => [(k, v)]
  | (k', v') :: r => if k' = k then (k, v) :: r else (k', v') :: put r k v

def del (m : KMap α) (k : Bytes) : KMap α :=
  match m with
  | [] => []
  | (k', v') :: r => if k' = k then del r k else (k', v') :: del r k

def keys (m : KMap α) : List Bytes := m.map Prod.fst

@[simp] theorem get_nil (k : Bytes) : get ([] : KMap α) k = none := rfl

@[simp] theorem get_put_same (m : KMap α) (k : Bytes) (v : α) : get (put m k v) k = some v := by
  induction m with
  | nil => simp [put, get]
  | cons p r ih =>
    obtain ⟨k', v'⟩ := p
    by_cases h : k' = k
    · simp [put, get, h]
    · simp [put, get, h, ih]

theorem get_put_other (m : KMap α) (k k2 : Bytes) (v : α) (h : k ≠ k2) :
    get (put m k v) k2 = get m k2 := by
  induction m with
  | nil => simp [put, get, h]
  | cons p r ih =>
    obtain ⟨k', v'⟩ := p
    by_cases h1 : k' = k
    · subst h1; simp [put, get, h]
    · by_cases h2 : k' = k2
      · subst h2; simp [put, get, h1]
      · simp [put, get, h1, h2, ih]

@[simp] theorem get_del_same (m : KMap α) (k : Bytes) : get (del m k) k = none := by
  induction m with
  | nil => simp [del, get]
  | cons p r ih =>
    obtain ⟨k', v'⟩ := p
    by_cases h : k' = k
    · simp [del, h, ih]
    · simp [del, get, h, ih]

theorem get_del_other (m : KMap α) (k k2 : Bytes) (h : k ≠ k2) :
    get (del m k) k2 = get m k2 := by
  induction m with
  | nil => simp [del, get]
  | cons p r ih =>
    obtain ⟨k', v'⟩ := p
    by_cases h1 : k' = k
    · subst h1; simp [del, get, h, ih]
    · by_cases h2 : k' = k2
      · subst h2; simp [del, get, h1]
      · simp [del, get, h1, h2, ih]

theorem get_put (m : KMap α) (k k2 : Bytes) (v : α) :
    get (put m k v) k2 = if k = k2 then some v else get m k2 := by
  by_cases h : k = k2
  · subst h; simp
  · simp [h, get_put_other m k k2 v h]

theorem get_del (m : KMap α) (k k2 : Bytes) :
    get (del m k) k2 = if k = k2 then none else get m k2 := by
  by_cases h : k = k2
  · subst h; simp
  · simp [h, get_del_other m k k2 h]

end KMap

/-- maps keyed by database index -/
abbrev NMap (α : Type) := List (Nat × α)

namespace NMap
variable {α : Type}

def get (m : NMap α) (k : Nat) : Option α :=
  match m with
  | [] => none
  | (k', v) :: r => if k' = k then some v else get r k

def put (m : NMap α) (k : Nat) (v : α) : NMap α :=
  match m with
  | [] => [(k, v)]
  | (k', v') :: r => if k' = k then (k, v) :: r else (k', v') :: put r k v

@[simp] theorem get_put_same (m : NMap α) (k : Nat) (v : α) : get (put m k v) k = some v := by
  induction m with
  | nil => simp [put, get]
  | cons p r ih =>
    obtain ⟨k', v'⟩ := p
    by_cases h : k' = k
    · simp [put, get, h]
    · simp [put, get, h, ih]

theorem get_put_other (m : NMap α) (k k2 : Nat) (v : α) (h : k ≠ k2) :
    get (put m k v) k2 = get m k2 := by
  induction m with
  | nil => simp [put, get, h]
  | cons p r ih =>
    obtain ⟨k', v'⟩ := p
    by_cases h1 : k' = k
    · subst h1; simp [put, get, h]
    · by_cases h2 : k' = k2
      · subst h2; simp [put, get, h1]
      · simp [put, get, h1, h2, ih]

end NMap
end Sugar
