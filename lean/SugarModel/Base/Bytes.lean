/-
  Base.Bytes — byte strings (Go `string` is an arbitrary byte sequence), decimal integer
  parsing/formatting as `strconv.ParseInt(s, 10, 64)` / `%d` do it, ASCII case mapping.
  Core Lean only.
-/
namespace Sugar

abbrev Bytes := List UInt8

/-- ASCII string literal to bytes (model source uses ASCII literals only). -/
def b (s : String) : Bytes := s.toList.map fun c => c.toNat.toUInt8

def isDigit (c : UInt8) : Bool := 48 ≤ c && c ≤ 57

def lowerByte (c : UInt8) : UInt8 := if 65 ≤ c && c ≤ 90 then c + 32 else c
def upperByte (c : UInt8) : UInt8 := if 97 ≤ c && c ≤ 122 then c - 32 else c

/-- `strings.ToLower` restricted to ASCII input. -/
def toLower (s : Bytes) : Bytes := s.map lowerByte
def toUpper (s : Bytes) : Bytes := s.map upperByte

/-- true iff every byte is < 0x80 (the domain on which `toLower`/`toUpper` model Go). -/
def isAscii (s : Bytes) : Bool := s.all (· < 128)

/-- `strings.EqualFold` on ASCII. -/
def eqFold (a c : Bytes) : Bool := toLower a == toLower c

/-- decimal digits, least significant first (fuel > n suffices) -/
def digitsRevF : Nat → Nat → Bytes
  | 0, _ => []
  | f + 1, n => (48 + n % 10).toUInt8 :: (if n < 10 then [] else digitsRevF f (n / 10))

/-- decimal digits of a natural number, most significant first -/
def natDigits (n : Nat) : Bytes := (digitsRevF (n + 1) n).reverse

/-- value of a digit list given least significant digit first -/
def valRev : Bytes → Nat
  | [] => 0
  | d :: r => (d.toNat - 48) + 10 * valRev r

/-- `%d` of an integer -/
def fmtInt (i : Int) : Bytes :=
  match i with
  | .ofNat n => natDigits n
  | .negSucc n => 45 :: natDigits (n + 1)

def fmtNat (n : Nat) : Bytes := natDigits n

/-- value of a digit string (all bytes must be digits) -/
def digitsVal (ds : Bytes) : Nat := valRev ds.reverse

def allDigits (ds : Bytes) : Bool := !ds.isEmpty && ds.all isDigit

def minInt64 : Int := -9223372036854775808
def maxInt64 : Int := 9223372036854775807

/-- `strconv.ParseInt(s, 10, 64)`: optional sign, one or more decimal digits, in range. -/
def parseInt64 (s : Bytes) : Option Int :=
  let (neg, ds) := match s with
    | 43 :: r => (false, r)
    | 45 :: r => (true, r)
    | r => (false, r)
  if allDigits ds then
    let v : Int := digitsVal ds
    let v := if neg then -v else v
    if minInt64 ≤ v && v ≤ maxInt64 then some v else none
  else none

/-- a signed decimal integer of any magnitude (the syntax of a RESP integer line) -/
def parseIntDec (s : Bytes) : Option Int :=
  match s with
  | 45 :: r => if allDigits r then some (-(digitsVal r : Int)) else none
  | 43 :: r => if allDigits r then some (digitsVal r : Int) else none
  | r => if allDigits r then some (digitsVal r : Int) else none

/-- two's-complement wrap of an integer into the int64 range (Go `int64` arithmetic). -/
def wrap64 (i : Int) : Int :=
  let m : Int := 18446744073709551616
  let r := i % m
  if r ≥ 9223372036854775808 then r - m else r

/-- `uint64(x)` conversion of an int64 -/
def toU64 (i : Int) : Nat := (i % 18446744073709551616).toNat

/-- lexicographic order on byte strings (Go `<` on strings) -/
def bytesLt : Bytes → Bytes → Bool
  | [], [] => false
  | [], _ :: _ => true
  | _ :: _, [] => false
  | x :: xs, y :: ys => if x < y then true else if y < x then false else bytesLt xs ys

def bytesLe (x y : Bytes) : Bool := !bytesLt y x

def crlf : Bytes := [13, 10]

/-- hex rendering used by the transcript protocol: `x` followed by two hex digits per byte -/
def hexDigit (n : Nat) : Char := if n < 10 then Char.ofNat (48 + n) else Char.ofNat (87 + n)

def toHex (s : Bytes) : String :=
  "x" ++ String.mk (s.flatMap fun c => [hexDigit (c.toNat / 16), hexDigit (c.toNat % 16)])

def hexVal (c : Char) : Option Nat :=
  if '0' ≤ c && c ≤ '9' then some (c.toNat - 48)
  else if 'a' ≤ c && c ≤ 'f' then some (c.toNat - 87)
  else none

def fromHexChars : List Char → Option Bytes
  | [] => some []
  | [_] => none
  | h :: l :: r => do
      let hv ← hexVal h
      let lv ← hexVal l
      let rest ← fromHexChars r
      pure ((hv * 16 + lv).toUInt8 :: rest)

def fromHex (s : String) : Option Bytes :=
  match s.toList with
  | 'x' :: r => fromHexChars r
  | _ => none

end Sugar
