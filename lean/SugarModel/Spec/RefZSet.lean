/-
  Spec.RefZSet — reference semantics of the sorted-set commands (C17): a map member ↦ score ordered by
  (score, member bytes). Built from the property statement, then SugarDB's command documentation
  (docs/docs/commands/sorted_set: ZRANGE takes score bounds by default and REV only reverses the order;
  lexicographic bounds are plain inclusive strings; ZLEXCOUNT answers 0 when scores differ), then Redis
  where SugarDB is silent. Silent or ambiguous points are `unspec`; reply *shapes* (flat or nested
  member/score arrays, `:n` or `*1 :n` ranks) are not constrained — only the members, scores, order.
-/
import SugarModel.Base.ZNum
import SugarModel.Spec.RefColl
namespace Sugar.Spec
open Sugar

abbrev ZM := Bytes × Flt

/-- the reference order: by score, then by member bytes -/
def zLe (x y : ZM) : Bool := x.2.lt y.2 || (x.2 == y.2 && bytesLe x.1 y.1)

def refOrder (ms : KMap Flt) : List ZM := ms.mergeSort zLe

def zAllSame : List ZM → Bool
  | x :: y :: r => x.2 == y.2 && zAllSame (y :: r)
  | _ => true

section
variable (now : Int) (a : ADb)

def zsetOf? (k : Bytes) : Option (Option (KMap Flt)) :=   -- none = wrong type, some none = absent
  match a.get k with
  | none => some none
  | some e => match e.val with
    | .zset ms => some (some ms)
    | _ => none

def postZSet (k : Bytes) (ms : KMap Flt) (keepExp : Bool) (p : ADb) : Bool :=
  let ex := if keepExp then expOf a k else none
  let ok (e : Option Int) := sameDb p (purge now (a.put k ⟨.zset (sortK ms), e⟩))
  if ms.isEmpty then sameDb p (purge now (a.del k)) || ok ex || ok (expOf a k)
  else ok ex || ok (expOf a k)

/-- a score argument: none = not a number, some none = outside the exact domain / not-a-number -/
def scoreArg (t : Bytes) : Option (Option Flt) := parseFloat64 t

def isExclusive (t : Bytes) : Bool := t.head? == some 40

/-- a lexicographic bound the way SugarDB documents it (a plain string); Redis' `[x`, `(x`, `-`, `+`
    spellings would mean something else, so they are not judged -/
def lexBound? (t : Bytes) : Option Bytes :=
  if t.head? == some 91 || t.head? == some 40 || t == b "-" || t == b "+" then none else some t

def inLexRef (m lo hi : Bytes) : Bool := bytesLe lo m && bytesLe m hi

/-! ### reply readers -/

def isArrVal : RespVal → Bool
  | .arr _ => true
  | _ => false

def pairTexts : List Bytes → Option (List (Bytes × Option Bytes))
  | [] => some []
  | m :: s :: r => (pairTexts r).map fun t => (m, some s) :: t
  | _ => none

/-- members (and scores) a reply lists, whatever its shape: `[m …]`, `[m s m s …]`, `[[m] …]`, `[[m s] …]` -/
def zReplyElems (ws : Bool) (v : RespVal) : Option (List (Bytes × Option Bytes)) :=
  match v with
  | .arr xs =>
    if !xs.isEmpty && xs.all isArrVal then
      xs.mapM fun x => match x with
        | .arr [m] => (elemText m).map fun t => (t, none)
        | .arr [m, s] => match elemText m, elemText s with
          | some t, some u => some (t, some u)
          | _, _ => none
        | _ => none
    else match arrTexts xs with
      | none => none
      | some ts => if ws then pairTexts ts else some (ts.map fun t => (t, none))
  | _ => none

def elemOk (ws : Bool) (z : ZM) (e : Bytes × Option Bytes) : Bool :=
  e.1 == z.1 && (match e.2 with
    | none => !ws
    | some s => ws && numEq s z.2.fmtF)

def Obs.zOrdered (o : Obs) (ws : Bool) (zs : List ZM) : Bool :=
  match o with
  | .ok v => match zReplyElems ws v with
    | some es => es.length == zs.length && (zs.zip es).all fun (z, e) => elemOk ws z e
    | none => false
  | _ => false

def Obs.zAnyOrder (o : Obs) (ws : Bool) (zs : List ZM) : Bool :=
  match o with
  | .ok v => match zReplyElems ws v with
    | some es =>
      let es' := es.mergeSort fun x y => bytesLe x.1 y.1
      let zs' := zs.mergeSort fun x y => bytesLe x.1 y.1
      es'.length == zs'.length && (zs'.zip es').all fun (z, e) => elemOk ws z e
    | none => false
  | _ => false

def Obs.isEmptyArr (o : Obs) : Bool := isArr o fun xs => xs.isEmpty

/-! ### ZADD / ZINCRBY -/

structure ZFlags where
  nx : Bool := false
  xx : Bool := false
  gt : Bool := false
  lt : Bool := false
  ch : Bool := false
  incr : Bool := false

def zaddFlags : List Bytes → ZFlags → ZFlags × List Bytes
  | [], f => (f, [])
  | t :: r, f =>
    let w := toLower t
    if w == b "nx" then zaddFlags r { f with nx := true }
    else if w == b "xx" then zaddFlags r { f with xx := true }
    else if w == b "gt" then zaddFlags r { f with gt := true }
    else if w == b "lt" then zaddFlags r { f with lt := true }
    else if w == b "ch" then zaddFlags r { f with ch := true }
    else if w == b "incr" then zaddFlags r { f with incr := true }
    else (f, t :: r)

inductive Parsed (α : Type) where
  | ok (a : α)
  | bad            -- the command is malformed: an error reply, nothing changes
  | silent         -- outside the judged domain

def zaddPairs : List Bytes → Parsed (List ZM)
  | [] => .ok []
  | [_] => .bad
  | s :: m :: r =>
    match scoreArg s, zaddPairs r with
    | none, _ => .bad
    | _, .bad => .bad
    | some none, _ => .silent
    | _, .silent => .silent
    | some (some f), .ok rest => .ok ((m, f) :: rest)

/-- is the pair applied, given the member's current score -/
def zaddAllowed (f : ZFlags) (old : Option Flt) (new : Flt) : Bool :=
  match old with
  | none => !f.xx
  | some o => !f.nx && !(f.gt && !o.lt new) && !(f.lt && !new.lt o)

/-- the sum of two scores: none = not a number (an error), some none = outside the exact domain -/
def scoreSum (x y : Flt) : Option (Option Flt) :=
  match x, y with
  | .pinf, .ninf => none
  | .ninf, .pinf => none
  | _, _ => some (x.add y)

def specZAdd (cmd : List Bytes) : Verdict :=
  if cmd.length < 4 then errNoChange now a else
  match cmd with
  | _ :: key :: args =>
    let (f, rest) := zaddFlags args {}
    if rest.isEmpty then errNoChange now a else
    match zaddPairs rest with
    | .bad => errNoChange now a
    | .silent => unspec
    | .ok pairs =>
      if (f.nx && f.xx) || (f.nx && (f.gt || f.lt)) || (f.gt && f.lt) || (f.incr && pairs.length != 1) then errNoChange now a else
      match zsetOf? a key with
      | none => errNoChange now a
      | some cur =>
        let ms := cur.getD []
        if f.incr then
          match pairs with
          | [(m, d)] =>
            let old := ms.get m
            (match (match old with
                    | none => some (some d)
                    | some o => scoreSum o d) with
             | none => errNoChange now a
             | some none => unspec
             | some (some nw) =>
               if zaddAllowed f old nw then ⟨false, (·.isNum nw.fmtF), postZSet now a key (ms.put m nw) true⟩
               else noChange now a Obs.isNil)
          | _ => errNoChange now a
        else
          let r := pairs.foldl (fun (acc : KMap Flt × Nat × Nat) (z : ZM) =>
            let old := acc.1.get z.1
            if zaddAllowed f old z.2 then
              (acc.1.put z.1 z.2, if old.isNone then acc.2.1 + 1 else acc.2.1,
               if old.isSome && old != some z.2 then acc.2.2 + 1 else acc.2.2)
            else acc) (ms, 0, 0)
          ⟨false, (·.isInt (if f.ch then r.2.1 + r.2.2 else r.2.1)), postZSet now a key r.1 true⟩
  | _ => errNoChange now a

def specZIncrBy (cmd : List Bytes) : Verdict :=
  match cmd with
  | [_, key, inc, m] =>
    match scoreArg inc with
    | none => errNoChange now a
    | some none => unspec
    | some (some d) =>
      match zsetOf? a key with
      | none => errNoChange now a
      | some cur =>
        let ms := cur.getD []
        match (match ms.get m with
               | none => some (some d)
               | some o => scoreSum o d) with
        | none => errNoChange now a
        | some none => unspec
        | some (some nw) => ⟨false, (·.isNum nw.fmtF), postZSet now a key (ms.put m nw) true⟩
  | _ => errNoChange now a

/-! ### point reads, ZREM -/

def specZRem (cmd : List Bytes) : Verdict :=
  if cmd.length < 3 then errNoChange now a else
  match cmd with
  | _ :: key :: ms =>
    match zsetOf? a key with
    | none => errNoChange now a
    | some none => noChange now a (·.isInt 0)
    | some (some s) =>
      let gone := ms.eraseDups.filter fun m => (s.get m).isSome
      ⟨false, (·.isInt gone.length), postZSet now a key (s.filter fun z => !gone.contains z.1) true⟩
  | _ => errNoChange now a

def specZCard (cmd : List Bytes) : Verdict :=
  match cmd with
  | [_, key] => match zsetOf? a key with
    | none => errNoChange now a
    | some cur => noChange now a (·.isInt (cur.getD []).length)
  | _ => errNoChange now a

def specZScore (cmd : List Bytes) : Verdict :=
  match cmd with
  | [_, key, m] => match zsetOf? a key with
    | none => errNoChange now a
    | some cur => match (cur.getD []).get m with
      | none => noChange now a Obs.isNil
      | some s => noChange now a (·.isNum s.fmtF)
  | _ => errNoChange now a

def specZMScore (cmd : List Bytes) : Verdict :=
  if cmd.length < 3 then errNoChange now a else
  match cmd with
  | _ :: key :: ms => match zsetOf? a key with
    | none => errNoChange now a
    | some cur =>
      noChange now a fun r => isArr r fun xs => xs.length == ms.length && (xs.zip ms).all fun (x, m) =>
        match (cur.getD []).get m with
        | none => x.isNil
        | some s => (elemText x).map (fun t => numEq t s.fmtF) == some true
  | _ => errNoChange now a

def specZCount (cmd : List Bytes) : Verdict :=
  match cmd with
  | [_, key, lo, hi] =>
    if isExclusive lo || isExclusive hi then unspec else
    match scoreArg lo, scoreArg hi with
    | none, _ => errNoChange now a
    | _, none => errNoChange now a
    | some none, _ => unspec
    | _, some none => unspec
    | some (some l), some (some h) =>
      match zsetOf? a key with
      | none => errNoChange now a
      | some cur => noChange now a (·.isInt ((cur.getD []).filter fun z => l.le z.2 && z.2.le h).length)
  | _ => errNoChange now a

def specZLexCount (cmd : List Bytes) : Verdict :=
  match cmd with
  | [_, key, lo, hi] =>
    match zsetOf? a key with
    | none => errNoChange now a
    | some cur =>
      match lexBound? lo, lexBound? hi with
      | some l, some h =>
        let ms := cur.getD []
        let n := (ms.filter fun z => inLexRef z.1 l h).length
        if zAllSame ms then noChange now a (·.isInt n)
        else noChange now a fun r => r.isInt 0 || r.isInt n      -- documented: 0 when the scores differ
      | _, _ => unspec
  | _ => errNoChange now a

def specZRank (cmd : List Bytes) (rev : Bool) : Verdict :=
  if cmd.length < 3 || cmd.length > 4 then errNoChange now a else
  match cmd with
  | _ :: key :: m :: opt =>
    match (match opt with
           | [] => some false
           | [o] => if isAscii o && (eqFold o (b "withscore") || eqFold o (b "withscores")) then some true else none
           | _ => none) with
    | none => unspec
    | some ws =>
      match zsetOf? a key with
      | none => errNoChange now a
      | some cur =>
        let order := if rev then (refOrder (cur.getD [])).reverse else refOrder (cur.getD [])
        match order.findIdx? (fun z => z.1 == m), (cur.getD []).get m with
        | some i, some s =>
          noChange now a fun r =>
            if ws then isArr r fun xs => match xs with
              | [x, y] => (match x with
                  | .int j => j == i
                  | _ => false) && (elemText y).map (fun t => numEq t s.fmtF) == some true
              | _ => false
            else r.isInt i || isArr r fun xs => match xs with
              | [.int j] => j == i
              | _ => false
        | _, _ => noChange now a Obs.isNil
  | _ => errNoChange now a

/-! ### removal by position / range -/

def specZPop (cmd : List Bytes) (max : Bool) : Verdict :=
  if cmd.length < 2 || cmd.length > 3 then errNoChange now a else
  match cmd with
  | _ :: key :: rest =>
    match (match rest with
           | [] => some 1
           | c :: _ => parseInt64 c) with
    | none => errNoChange now a
    | some count =>
      if count < 0 then unspec else
      match zsetOf? a key with
      | none => errNoChange now a
      | some none => noChange now a fun r => r.isEmptyArr || r.isNil
      | some (some ms) =>
        let order := if max then (refOrder ms).reverse else refOrder ms
        let popped := order.take count.toNat
        ⟨false, (·.zAnyOrder true popped), postZSet now a key (ms.filter fun z => !(popped.any fun p => p.1 == z.1)) true⟩
  | _ => errNoChange now a

def isZmpopWord (t : Bytes) : Bool :=
  isAscii t && (toLower t == b "min" || toLower t == b "max" || toLower t == b "count")

/-- first key holding a non-empty sorted set; a key of another type met before it fails the command -/
def zmpopTarget : List Bytes → Option (Option (Bytes × KMap Flt))    -- none = wrong type met
  | [] => some none
  | k :: r => match zsetOf? a k with
    | none => none
    | some none => zmpopTarget r
    | some (some ms) => if ms.isEmpty then zmpopTarget r else some (some (k, ms))

def specZMPop (cmd : List Bytes) : Verdict :=
  if cmd.length < 2 then errNoChange now a else
  let keys := (cmd.drop 1).takeWhile fun t => !isZmpopWord t
  let opts := ((cmd.drop 1).dropWhile fun t => !isZmpopWord t).map toLower
  if keys.isEmpty then errNoChange now a else
  match (match opts with
         | [p] => if p == b "min" || p == b "max" then some (p == b "max", some 1) else none
         | [p, c, n] =>
           if (p == b "min" || p == b "max") && c == b "count" then some (p == b "max", parseInt64 n)
           else if p == b "count" && (n == b "min" || n == b "max") then some (n == b "max", parseInt64 c)
           else none
         | _ => none) with
  | none => unspec
  | some (_, none) => errNoChange now a
  | some (max, some count) =>
    if count ≤ 0 then errNoChange now a else
    match zmpopTarget a keys with
    | none => errNoChange now a
    | some none => noChange now a fun r => r.isEmptyArr || r.isNil
    | some (some (key, ms)) =>
      let order := if max then (refOrder ms).reverse else refOrder ms
      let popped := order.take count.toNat
      ⟨false, fun r => r.zAnyOrder true popped || (match r with
          | .ok (.arr [k, v]) => elemText k == some key && (Obs.ok v).zAnyOrder true popped
          | _ => false),
        postZSet now a key (ms.filter fun z => !(popped.any fun p => p.1 == z.1)) true⟩

def specZRandMember (cmd : List Bytes) : Verdict :=
  if cmd.length < 2 || cmd.length > 4 then errNoChange now a else
  match cmd with
  | _ :: key :: rest =>
    match (match rest with
           | [] => some (none, false)
           | [c] => (parseInt64 c).map fun n => (some n, false)
           | [c, w] => if isAscii w && eqFold w (b "withscores") then (parseInt64 c).map fun n => (some n, true) else none
           | _ => none) with
    | none => errNoChange now a
    | some (count, ws) =>
      match zsetOf? a key with
      | none => errNoChange now a
      | some cur =>
        let ms := cur.getD []
        let known (es : List (Bytes × Option Bytes)) : Bool :=
          es.all fun e => match ms.get e.1 with
            | some s => elemOk ws (e.1, s) e
            | none => false
        noChange now a fun r =>
          match count with
          | none =>
            if ms.isEmpty then r.isNil || r.isEmptyArr
            else (match r with
              | .ok v => (match v.str? with
                  | some m => (ms.get m).isSome
                  | none => match zReplyElems false v with
                    | some [e] => known [e]
                    | _ => false)
              | _ => false)
          | some n =>
            if ms.isEmpty || n == 0 then r.isEmptyArr || (ms.isEmpty && r.isNil)
            else match r with
              | .ok v => (match zReplyElems ws v with
                  | some es =>
                    known es &&
                    (if n > 0 then es.length == min n.toNat ms.length && (es.map (·.1)).eraseDups.length == es.length
                     else es.length == n.natAbs)
                  | none => false)
              | _ => false
  | _ => errNoChange now a

def specZRemRangeByScore (cmd : List Bytes) : Verdict :=
  match cmd with
  | [_, key, lo, hi] =>
    if isExclusive lo || isExclusive hi then unspec else
    match scoreArg lo, scoreArg hi with
    | none, _ => errNoChange now a
    | _, none => errNoChange now a
    | some none, _ => unspec
    | _, some none => unspec
    | some (some l), some (some h) =>
      match zsetOf? a key with
      | none => errNoChange now a
      | some none => noChange now a (·.isInt 0)
      | some (some ms) =>
        ⟨false, (·.isInt (ms.filter fun z => l.le z.2 && z.2.le h).length),
          postZSet now a key (ms.filter fun z => !(l.le z.2 && z.2.le h)) true⟩
  | _ => errNoChange now a

def specZRemRangeByRank (cmd : List Bytes) : Verdict :=
  match cmd with
  | [_, key, st, en] =>
    match parseInt64 st, parseInt64 en with
    | some s, some e =>
      match zsetOf? a key with
      | none => errNoChange now a
      | some none => noChange now a (·.isInt 0)
      | some (some ms) =>
        match normRange ms.length s e with
        | none => noChange now a (·.isInt 0)
        | some (lo, hi) =>
          let gone := ((refOrder ms).drop lo).take (hi - lo + 1)
          ⟨false, (·.isInt gone.length), postZSet now a key (ms.filter fun z => !(gone.any fun p => p.1 == z.1)) true⟩
    | _, _ => errNoChange now a
  | _ => errNoChange now a

def specZRemRangeByLex (cmd : List Bytes) : Verdict :=
  match cmd with
  | [_, key, lo, hi] =>
    match zsetOf? a key with
    | none => errNoChange now a
    | some none => noChange now a (·.isInt 0)
    | some (some ms) =>
      match lexBound? lo, lexBound? hi with
      | some l, some h =>
        let n := (ms.filter fun z => inLexRef z.1 l h).length
        let removed := postZSet now a key (ms.filter fun z => !inLexRef z.1 l h) true
        if zAllSame ms then ⟨false, (·.isInt n), removed⟩
        else ⟨false, fun r => r.isInt 0 || r.isInt n, fun p => sameDb p (purge now a) || removed p⟩
      | _, _ => unspec
  | _ => errNoChange now a

/-! ### ZRANGE / ZRANGESTORE -/

structure ROpts where
  byscore : Bool := false
  bylex : Bool := false
  rev : Bool := false
  ws : Bool := false
  limit : Option (Int × Int) := none

def rangeOpts : List Bytes → ROpts → Parsed ROpts
  | [], o => .ok o
  | t :: r, o =>
    if !isAscii t then .silent else
    let w := toLower t
    if w == b "byscore" then rangeOpts r { o with byscore := true }
    else if w == b "bylex" then rangeOpts r { o with bylex := true }
    else if w == b "rev" then rangeOpts r { o with rev := true }
    else if w == b "withscores" then rangeOpts r { o with ws := true }
    else if w == b "limit" then
      match r with
      | off :: cnt :: r' =>
        (match parseInt64 off, parseInt64 cnt with
         | some x, some y => if o.limit.isSome then .silent else rangeOpts r' { o with limit := some (x, y) }
         | _, _ => .bad)
      | _ => .bad
    else .silent

inductive Sel where
  | ok (zs : List ZM)
  | okOrEmpty (zs : List ZM)     -- BYLEX over unequal scores: documented "only works if all scores are equal"
  | bad
  | silent
  | badOrEmpty                   -- negative LIMIT offset: an error (SugarDB) or nothing (Redis)

def window (o : ROpts) (zs : List ZM) : List ZM :=
  match o.limit with
  | none => zs
  | some (off, cnt) => if cnt < 0 then zs.drop off.toNat else (zs.drop off.toNat).take cnt.toNat

/-- the members a range query selects, in reply order -/
def rangeSelect (ms : KMap Flt) (start stop : Bytes) (o : ROpts) : Sel :=
  if o.byscore && o.bylex then .silent else
  if (match o.limit with
      | some (off, _) => decide (off < 0)
      | none => false) then .badOrEmpty else
  if o.bylex then
    match lexBound? start, lexBound? stop with
    | some l, some h =>
      let asc := (ms.filter fun z => inLexRef z.1 l h).mergeSort fun x y => bytesLe x.1 y.1
      let res := window o (if o.rev then asc.reverse else asc)
      if zAllSame ms then .ok res else .okOrEmpty res
    | _, _ => .silent
  else
    if isExclusive start || isExclusive stop then .silent else
    match scoreArg start, scoreArg stop with
    | none, _ => .bad
    | _, none => .bad
    | some none, _ => .silent
    | _, some none => .silent
    | some (some l), some (some h) =>
      if o.rev && h.lt l then .silent else      -- Redis reads `REV` bounds as max min; SugarDB as min max
      let asc := (refOrder ms).filter fun z => l.le z.2 && z.2.le h
      .ok (window o (if o.rev then asc.reverse else asc))

def specZRange (cmd : List Bytes) : Verdict :=
  if cmd.length < 4 then errNoChange now a else
  match cmd with
  | _ :: key :: start :: stop :: opts =>
    match rangeOpts opts {} with
    | .bad => errNoChange now a
    | .silent => unspec
    | .ok o =>
      match zsetOf? a key with
      | none => errNoChange now a
      | some cur =>
        match rangeSelect (cur.getD []) start stop o with
        | .bad => errNoChange now a
        | .silent => unspec
        | .badOrEmpty => noChange now a fun r => r.isErr || r.isEmptyArr
        | .ok zs => noChange now a (·.zOrdered o.ws zs)
        | .okOrEmpty zs => noChange now a fun r => r.zOrdered o.ws zs || r.isEmptyArr
  | _ => errNoChange now a

def specZRangeStore (cmd : List Bytes) : Verdict :=
  if cmd.length < 5 then errNoChange now a else
  match cmd with
  | _ :: dst :: src :: start :: stop :: opts =>
    match rangeOpts opts {} with
    | .bad => errNoChange now a
    | .silent => unspec
    | .ok o =>
      match zsetOf? a src with
      | none => errNoChange now a
      | some cur =>
        if (zsetOf? a dst).isNone then unspec else
        match rangeSelect (cur.getD []) start stop o with
        | .bad => errNoChange now a
        | .silent => unspec
        | .badOrEmpty => ⟨false, fun r => r.isErr || r.isInt 0, fun p => sameDb p (purge now a) || postZSet now a dst [] false p⟩
        | .ok zs => ⟨false, (·.isInt zs.length), postZSet now a dst zs false⟩
        | .okOrEmpty zs => ⟨false, fun r => r.isInt zs.length || r.isInt 0, fun p => postZSet now a dst zs false p || postZSet now a dst [] false p⟩
  | _ => errNoChange now a

/-! ### ZDIFF / ZINTER / ZUNION and the STORE forms -/

def isCombineWord (t : Bytes) : Bool :=
  isAscii t && (toLower t == b "weights" || toLower t == b "aggregate" || toLower t == b "withscores")

structure COpts where
  weights : Option (List Int) := none
  aggregate : Bytes := b "sum"
  ws : Bool := false

def takeWeights : List Bytes → List Int → Parsed (List Int × List Bytes)
  | [], acc => .ok (acc, [])
  | t :: r, acc =>
    if isCombineWord t then .ok (acc, t :: r) else
    match parseInt64 t with
    | some w => takeWeights r (acc ++ [w])
    | none => match parseFloat64 t with
      | none => .bad
      | some _ => .silent        -- a fractional weight: documented as allowed, refused by strconv.Atoi

def combineOpts : Nat → List Bytes → COpts → Parsed COpts
  | 0, _, o => .ok o
  | _, [], o => .ok o
  | f + 1, t :: r, o =>
    let w := toLower t
    if w == b "withscores" then combineOpts f r { o with ws := true }
    else if w == b "aggregate" then
      match r with
      | g :: r' =>
        if !isAscii g then .silent else
        if toLower g == b "sum" || toLower g == b "min" || toLower g == b "max" then combineOpts f r' { o with aggregate := toLower g }
        else .bad
      | [] => .bad
    else if w == b "weights" then
      match takeWeights r [] with
      | .ok (ws, r') => combineOpts f r' { o with weights := some ws }
      | .bad => .bad
      | .silent => .silent
    else .bad

def aggRef (aggregate : Bytes) (x y : Flt) : Option Flt :=
  if aggregate == b "sum" then x.add y
  else if aggregate == b "min" then some (if y.lt x then y else x)
  else some (if x.lt y then y else x)

/-- weighted operands folded member by member; none = arithmetic outside the exact domain -/
def combineRef (inter : Bool) (aggregate : Bytes) (ops : List (KMap Flt × Int)) : Option (KMap Flt) :=
  let members := (ops.flatMap fun p => p.1.map (·.1)).eraseDups
  let wanted := members.filter fun m => !inter || ops.all fun p => (p.1.get m).isSome
  wanted.mapM fun m =>
    let scores := ops.filterMap fun p => (p.1.get m).map fun s => s.mulInt p.2
    match scores with
    | [] => none
    | s0 :: rest =>
      (rest.foldl (fun (acc : Option Flt) s => match acc, s with
        | some x, some y => aggRef aggregate x y
        | _, _ => none) s0).map fun s => (m, s)

def specZCombine (cmd : List Bytes) (inter store : Bool) : Verdict :=
  if (store && cmd.length < 3) || (!store && cmd.length < 2) then errNoChange now a else
  let args := if store then cmd.drop 2 else cmd.drop 1
  let dst := cmd.getD 1 []
  let keys := args.takeWhile fun t => !isCombineWord t
  -- without a numkeys argument a destination spelled like an option word has no agreed reading
  if store && isCombineWord dst then unspec else
  if keys.isEmpty then errNoChange now a else
  match combineOpts (args.length + 1) (args.dropWhile fun t => !isCombineWord t) {} with
  | .bad => errNoChange now a
  | .silent => unspec
  | .ok o =>
    if (match o.weights with
        | some ws => ws.length != keys.length
        | none => false) then errNoChange now a else
    let weights := o.weights.getD (keys.map fun _ => 1)
    if store && (zsetOf? a dst).isNone then unspec else
    if inter && keys.any (fun k => zsetOf? a k == some none) then
      -- an absent operand makes the intersection empty whatever the other operands hold
      (if store then ⟨false, fun r => r.isInt 0 || r.isErr, fun p => sameDb p (purge now a) && (keys.any fun k => (zsetOf? a k).isNone) || postZSet now a dst [] false p⟩
       else noChange now a fun r => r.isEmptyArr || r.isErr)
    else
    match keys.mapM fun k => (zsetOf? a k).map fun o => o.getD [] with
    | none => errNoChange now a
    | some sets =>
      match combineRef inter o.aggregate (sets.zip weights) with
      | none => unspec
      | some res =>
        if store then ⟨false, (·.isInt res.length), postZSet now a dst res false⟩
        else noChange now a (·.zAnyOrder o.ws res)

def specZDiff (cmd : List Bytes) (store : Bool) : Verdict :=
  if (store && cmd.length < 3) || (!store && cmd.length < 2) then errNoChange now a else
  let args := if store then cmd.drop 2 else cmd.drop 1
  let dst := cmd.getD 1 []
  let ws := !store && (match args.getLast? with
    | some t => isAscii t && eqFold t (b "withscores")
    | none => false)
  let keys := if ws then args.dropLast else args
  if keys.isEmpty then errNoChange now a else
  if !store && keys.any (fun t => isAscii t && eqFold t (b "withscores")) then unspec else
  if store && (zsetOf? a dst).isNone then unspec else
  if zsetOf? a (keys.headD []) == some none then
    (if store then ⟨false, fun r => r.isInt 0 || r.isErr, fun p => (sameDb p (purge now a) && (keys.any fun k => (zsetOf? a k).isNone)) || postZSet now a dst [] false p⟩
     else noChange now a fun r => r.isEmptyArr || r.isErr)
  else
  match keys.mapM fun k => (zsetOf? a k).map fun o => o.getD [] with
  | none => errNoChange now a
  | some sets =>
    match sets with
    | [] => errNoChange now a
    | base :: others =>
      let res := base.filter fun z => !(others.any fun o => (o.get z.1).isSome)
      if store then ⟨false, (·.isInt res.length), postZSet now a dst res false⟩
      else noChange now a (·.zAnyOrder ws res)

end

/-- reference verdict for the sorted-set commands -/
def specZSet (now : Int) (a : ADb) (cmd : List Bytes) : Option Verdict :=
  match cmd with
  | [] => none
  | name :: _ =>
    if !isAscii name then none else
    let n := toLower name
    if n == b "zadd" then some (specZAdd now a cmd)
    else if n == b "zincrby" then some (specZIncrBy now a cmd)
    else if n == b "zrem" then some (specZRem now a cmd)
    else if n == b "zcard" then some (specZCard now a cmd)
    else if n == b "zscore" then some (specZScore now a cmd)
    else if n == b "zmscore" then some (specZMScore now a cmd)
    else if n == b "zcount" then some (specZCount now a cmd)
    else if n == b "zlexcount" then some (specZLexCount now a cmd)
    else if n == b "zrank" then some (specZRank now a cmd false)
    else if n == b "zrevrank" then some (specZRank now a cmd true)
    else if n == b "zpopmin" then some (specZPop now a cmd false)
    else if n == b "zpopmax" then some (specZPop now a cmd true)
    else if n == b "zmpop" then some (specZMPop now a cmd)
    else if n == b "zrandmember" then some (specZRandMember now a cmd)
    else if n == b "zremrangebyscore" then some (specZRemRangeByScore now a cmd)
    else if n == b "zremrangebyrank" then some (specZRemRangeByRank now a cmd)
    else if n == b "zremrangebylex" then some (specZRemRangeByLex now a cmd)
    else if n == b "zrange" then some (specZRange now a cmd)
    else if n == b "zrangestore" then some (specZRangeStore now a cmd)
    else if n == b "zdiff" then some (specZDiff now a cmd false)
    else if n == b "zdiffstore" then some (specZDiff now a cmd true)
    else if n == b "zinter" then some (specZCombine now a cmd true false)
    else if n == b "zinterstore" then some (specZCombine now a cmd true true)
    else if n == b "zunion" then some (specZCombine now a cmd false false)
    else if n == b "zunionstore" then some (specZCombine now a cmd false true)
    else none

/-- the reference verdict for any specified command -/
def specAll (now : Int) (a : ADb) (cmd : List Bytes) : Option Verdict :=
  ((specKv now a cmd).orElse fun _ => specColl now a cmd).orElse fun _ => specZSet now a cmd

end Sugar.Spec
