/-
  Spec.RefColl — reference semantics of the list (C15), hash (C14) and set (C16) commands on the
  abstract dataset of Spec.RefMap: a sequence, a field ↦ bytes map, a finite set. Built from the
  property statements and SugarDB's command descriptions / API doc comments; silent points are
  `unspec`. Where Redis and SugarDB's documentation differ both documented behaviours are accepted.
-/
import SugarModel.Spec.RefMap
namespace Sugar.Spec
open Sugar

section
variable (now : Int) (a : ADb)

def isArr (o : Obs) (p : List RespVal → Bool) : Bool :=
  match o with
  | .ok (.arr xs) => p xs
  | _ => false

/-- element of an array reply read as bytes (bulk/simple string, or an integer rendered in decimal) -/
def elemText : RespVal → Option Bytes
  | .bulk s => some s
  | .simple s => some s
  | .int i => some (fmtInt i)
  | _ => none

def arrTexts (xs : List RespVal) : Option (List Bytes) := xs.mapM elemText

/-- reply is an array whose elements read as exactly `ws` in order -/
def Obs.isTexts (o : Obs) (ws : List Bytes) : Bool := isArr o fun xs => arrTexts xs == some ws

/-- reply is an array whose elements are a permutation of `ws` -/
def Obs.isTextsPerm (o : Obs) (ws : List Bytes) : Bool :=
  isArr o fun xs => match arrTexts xs with
    | some ts => ts.mergeSort bytesLe == ws.mergeSort bytesLe
    | none => false

/-- `Option Bytes` per element: none = nil -/
def Obs.isOptTexts (o : Obs) (ws : List (Option Bytes)) : Bool :=
  isArr o fun xs => xs.length == ws.length && (xs.zip ws).all fun (x, w) => match w with
    | none => x.isNil
    | some t => elemText x == some t

def listOf? (k : Bytes) : Option (Option (List Bytes)) :=   -- none = wrong type, some none = absent
  match a.get k with
  | none => some none
  | some e => match e.val with
    | .list xs => some (some xs)
    | _ => none

def expOf (k : Bytes) : Option Int := (a.get k).bind (·.exp)

/-- the dataset with `k` bound to list `xs` (deadline kept); an empty result may be stored or removed -/
def postList (k : Bytes) (xs : List Bytes) (p : ADb) : Bool :=
  if xs.isEmpty then sameDb p (purge now (a.del k)) || sameDb p (purge now (a.put k ⟨.list [], expOf a k⟩))
  else sameDb p (purge now (a.put k ⟨.list xs, expOf a k⟩))

/-! ### lists (C15) -/

def specPush (cmd : List Bytes) (left x : Bool) : Verdict :=
  if cmd.length < 3 then errNoChange now a else
  match cmd with
  | _ :: key :: elems =>
    match listOf? a key with
    | none => errNoChange now a
    | some none =>
      if x then noChange now a fun r => r.isErr || r.isInt 0
      else ⟨false, (·.isInt elems.length), fun p =>
        sameDb p (purge now (a.put key ⟨.list elems, none⟩)) || sameDb p (purge now (a.put key ⟨.list elems.reverse, none⟩))⟩
    | some (some l) =>
      let n : Int := l.length + elems.length
      if left then ⟨false, (·.isInt n), fun p =>
        postList now a key (elems ++ l) p || postList now a key (elems.reverse ++ l) p⟩
      else ⟨false, (·.isInt n), postList now a key (l ++ elems)⟩
  | _ => errNoChange now a

def specPop (cmd : List Bytes) (left : Bool) : Verdict :=
  if cmd.length < 2 || cmd.length > 3 then errNoChange now a else
  match cmd with
  | _ :: key :: rest =>
    match listOf? a key with
    | none => errNoChange now a
    | some none => noChange now a Obs.isNil
    | some (some l) =>
      match rest with
      | [] =>
        (match (if left then l.head? else l.getLast?) with
        | none => noChange now a Obs.isNil
        | some e => ⟨false, fun r => r.isStr e || r.isTexts [e], postList now a key (if left then l.drop 1 else l.dropLast)⟩)
      | c :: _ =>
        match parseInt64 c with
        | none => errNoChange now a
        | some n =>
          if n < 0 then unspec else
          if l.isEmpty then noChange now a fun r => r.isNil || r.isTexts [] else
          let k := min n.toNat l.length
          let popped := if left then l.take k else l.reverse.take k
          let rest' := if left then l.drop k else l.take (l.length - k)
          ⟨false, (·.isTexts popped), postList now a key rest'⟩
  | _ => errNoChange now a

def specLLen (cmd : List Bytes) : Verdict :=
  match cmd with
  | [_, key] => match listOf? a key with
    | none => errNoChange now a
    | some none => noChange now a (·.isInt 0)
    | some (some l) => noChange now a (·.isInt l.length)
  | _ => errNoChange now a

def specLIndex (cmd : List Bytes) : Verdict :=
  match cmd with
  | [_, key, idx] => match listOf? a key with
    | none => errNoChange now a
    | some none => noChange now a Obs.isNil
    | some (some l) => match parseInt64 idx with
      | none => errNoChange now a
      | some i =>
        let i := if i < 0 then (l.length : Int) + i else i
        if i < 0 || i ≥ l.length then noChange now a Obs.isNil
        else noChange now a (·.isStr (l.getD i.toNat []))
  | _ => errNoChange now a

/-- inclusive range with negative indices from the tail and clamping (the statement's normalisation) -/
def normRange (len : Nat) (s e : Int) : Option (Nat × Nat) :=
  let len' : Int := len
  let s := if s < 0 then len' + s else s
  let e := if e < 0 then len' + e else e
  let s := if s < 0 then 0 else s
  let e := if e ≥ len' then len' - 1 else e
  if len == 0 || s > e || s ≥ len' then none else some (s.toNat, e.toNat)

def specLRange (cmd : List Bytes) : Verdict :=
  match cmd with
  | [_, key, st, en] => match listOf? a key with
    | none => errNoChange now a
    | some none => noChange now a (·.isTexts [])
    | some (some l) => match parseInt64 st, parseInt64 en with
      | some s, some e => match normRange l.length s e with
        | none => noChange now a (·.isTexts [])
        | some (lo, hi) => noChange now a (·.isTexts ((l.drop lo).take (hi - lo + 1)))
      | _, _ => errNoChange now a
  | _ => errNoChange now a

def specLSet (cmd : List Bytes) : Verdict :=
  match cmd with
  | [_, key, idx, v] => match listOf? a key with
    | none => errNoChange now a
    | some none => errNoChange now a
    | some (some l) => match parseInt64 idx with
      | none => errNoChange now a
      | some i =>
        let i := if i < 0 then (l.length : Int) + i else i
        if i < 0 || i ≥ l.length then errNoChange now a
        else ⟨false, Obs.isOK, postList now a key (l.set i.toNat v)⟩
  | _ => errNoChange now a

def specLTrim (cmd : List Bytes) : Verdict :=
  match cmd with
  | [_, key, st, en] => match listOf? a key with
    | none => errNoChange now a
    | some none => match parseInt64 st, parseInt64 en with
      | some _, some _ => noChange now a Obs.isOK
      | _, _ => ⟨false, fun r => r.isOK || r.isErr, fun p => sameDb p (purge now a)⟩
    | some (some l) => match parseInt64 st, parseInt64 en with
      | some s, some e => match normRange l.length s e with
        | none => ⟨false, Obs.isOK, postList now a key []⟩
        | some (lo, hi) => ⟨false, Obs.isOK, postList now a key ((l.drop lo).take (hi - lo + 1))⟩
      | _, _ => errNoChange now a
  | _ => errNoChange now a

def removeFirstN : List Bytes → Bytes → Nat → List Bytes
  | [], _, _ => []
  | x :: r, v, n => if n == 0 then x :: r else if x == v then removeFirstN r v (n - 1) else x :: removeFirstN r v n

def specLRem (cmd : List Bytes) : Verdict :=
  match cmd with
  | [_, key, cnt, v] => match parseInt64 cnt with
    | none => errNoChange now a
    | some c => match listOf? a key with
      | none => errNoChange now a
      | some none => noChange now a (·.isInt 0)
      | some (some l) =>
        let l' := if c > 0 then removeFirstN l v c.toNat
                  else if c < 0 then (removeFirstN l.reverse v c.natAbs).reverse
                  else l.filter (· != v)
        ⟨false, (·.isInt ((l.length : Int) - l'.length)), postList now a key l'⟩
  | _ => errNoChange now a

def specLMove (cmd : List Bytes) : Verdict :=
  match cmd with
  | [_, src, dst, wf, wt] =>
    if !isAscii wf || !isAscii wt then unspec else
    let wf := toLower wf
    let wt := toLower wt
    if !(wf == b "left" || wf == b "right") || !(wt == b "left" || wt == b "right") then errNoChange now a else
    match listOf? a src, listOf? a dst with
    | none, _ => errNoChange now a
    | _, none => errNoChange now a
    | some none, _ => noChange now a fun r => r.isNil || r.isErr
    | some (some sl), d =>
      match (if wf == b "left" then sl.head? else sl.getLast?) with
      | none => noChange now a fun r => r.isNil || r.isErr
      | some e =>
        let replyOk (r : Obs) := r.isOK || r.isStr e
        if src == dst then
          let rot := if wf == b "left" then sl.drop 1 else sl.dropLast
          let l' := if wt == b "left" then e :: rot else rot ++ [e]
          ⟨false, replyOk, postList now a src l'⟩
        else
          let sl' := if wf == b "left" then sl.drop 1 else sl.dropLast
          match d with
          | some (some dl) =>
            let dl' := if wt == b "left" then e :: dl else dl ++ [e]
            ⟨false, replyOk, fun p =>
              (match p.get dst with
               | some en => en.val == .list dl' && en.exp == expOf a dst
               | none => false) &&
              postList now (a.del dst) src sl' (p.del dst)⟩
          | _ =>
            -- absent destination: documented as an error; Redis creates it
            ⟨false, fun r => r.isErr || replyOk r, fun p =>
              sameDb p (purge now a) ||
              ((match p.get dst with
                | some en => en.val == .list [e]
                | none => false) && postList now (a.del dst) src sl' (p.del dst))⟩
  | _ => errNoChange now a

/-! ### hashes (C14) -/

def hashOf? (k : Bytes) : Option (Option (KMap Bytes)) :=
  match a.get k with
  | none => some none
  | some e => match e.val with
    | .hash h => some (some h)
    | _ => none

def postHash (k : Bytes) (h : KMap Bytes) (p : ADb) : Bool :=
  if h.isEmpty then sameDb p (purge now (a.del k)) || sameDb p (purge now (a.put k ⟨.hash [], expOf a k⟩))
  else sameDb p (purge now (a.put k ⟨.hash (sortK h), expOf a k⟩))

def fvPairs : List Bytes → List (Bytes × Bytes)
  | f :: v :: r => (f, v) :: fvPairs r
  | _ => []

def specHSet (cmd : List Bytes) (nx : Bool) : Verdict :=
  if cmd.length < 4 then errNoChange now a else
  match cmd with
  | _ :: key :: args =>
    if args.length % 2 != 0 then errNoChange now a else
    if (fvPairs args).any (fun p => (kindOf p.2).isNone) then unspec else
    match hashOf? a key with
    | none => errNoChange now a
    | some cur =>
      let h := cur.getD []
      let final := (fvPairs args).foldl (fun (m : KMap Bytes) (f, v) => if nx && (h.get f).isSome then m else m.put f v) h
      let fresh := ((fvPairs args).map (·.1)).eraseDups.filter fun f => (h.get f).isNone
      let distinct := ((fvPairs args).map (·.1)).eraseDups
      ⟨false, fun r => r.isInt fresh.length || (!nx && r.isInt distinct.length), postHash now a key final⟩
  | _ => errNoChange now a

def specHGet (cmd : List Bytes) : Verdict :=
  if cmd.length < 3 then errNoChange now a else
  match cmd with
  | _ :: key :: fields =>
    match hashOf? a key with
    | none => errNoChange now a
    | some none => noChange now a fun r => r.isNil || r.isOptTexts (fields.map fun _ => none)
    | some (some h) =>
      let ws := fields.map fun f => h.get f
      noChange now a fun r => r.isOptTexts ws || (match ws with
        | [some t] => r.isStr t
        | [none] => r.isNil
        | _ => false)
  | _ => errNoChange now a

def specHStrLen (cmd : List Bytes) : Verdict :=
  if cmd.length < 3 then errNoChange now a else
  match cmd with
  | _ :: key :: fields =>
    match hashOf? a key with
    | none => errNoChange now a
    | some none => unspec
    | some (some h) =>
      let ws := fields.map fun f => fmtInt (((h.get f).map fun (t : Bytes) => (t.length : Int)).getD 0)
      noChange now a fun r => r.isTexts ws || (match ws with
        | [t] => r.isStr t || (match r with | .ok (.int i) => fmtInt i == t | _ => false)
        | _ => false)
  | _ => errNoChange now a

def specHRead (cmd : List Bytes) (which : Nat) : Verdict :=   -- 0 vals, 1 keys, 2 getall, 3 len
  match cmd with
  | [_, key] =>
    match hashOf? a key with
    | none => errNoChange now a
    | some cur =>
      let h := cur.getD []
      if which == 3 then noChange now a (·.isInt h.length)
      else if which == 0 then noChange now a (·.isTextsPerm (h.map (·.2)))
      else if which == 1 then noChange now a (·.isTextsPerm (h.map (·.1)))
      else noChange now a fun r => isArr r fun xs => match arrTexts xs with
        | some ts => (fvPairs ts).length * 2 == ts.length &&
                     sortK (fvPairs ts) == sortK h
        | none => false
  | _ => errNoChange now a

def specHExists (cmd : List Bytes) : Verdict :=
  match cmd with
  | [_, key, f] =>
    match hashOf? a key with
    | none => errNoChange now a
    | some cur => noChange now a (·.isInt (if ((cur.getD []).get f).isSome then 1 else 0))
  | _ => errNoChange now a

def specHDel (cmd : List Bytes) : Verdict :=
  if cmd.length < 3 then errNoChange now a else
  match cmd with
  | _ :: key :: fields =>
    match hashOf? a key with
    | none => errNoChange now a
    | some none => noChange now a (·.isInt 0)
    | some (some h) =>
      let gone := fields.eraseDups.filter fun f => (h.get f).isSome
      ⟨false, (·.isInt gone.length), postHash now a key (gone.foldl (fun m f => m.del f) h)⟩
  | _ => errNoChange now a

def numEq (x y : Bytes) : Bool :=
  x == y || (match parseFloat64 x, parseFloat64 y with
    | some (some p), some (some q) => p == q
    | _, _ => false)

def Obs.isNum (o : Obs) (t : Bytes) : Bool :=
  match o with
  | .ok v => match elemText v with
    | some s => numEq s t
    | none => false
  | _ => false

def specHIncrBy (cmd : List Bytes) (float : Bool) : Verdict :=
  match cmd with
  | [_, key, field, incr] =>
    match hashOf? a key with
    | none => errNoChange now a
    | some cur =>
      let h := cur.getD []
      let post (t : Bytes) : ADb → Bool := fun p =>
        match p.get key with
        | some e => (match e.val with
            | .hash h' => (match h'.get field with
                | some t' => numEq t' t
                | none => false) && sortK (h'.del field) == sortK (h.del field)
            | _ => false) && e.exp == expOf a key && sameDb (p.del key) (purge now (a.del key))
        | none => false
      if float then
        match parseFloat64 incr with
        | none => errNoChange now a
        | some none => unspec
        | some (some d) =>
          match (match h.get field with
                 | none => some (some (Flt.fin ⟨0, 0⟩))
                 | some t => match adaptType t with
                   | .int i => (Flt.ofInt i).map some
                   | .flt f => some (some f)
                   | .str _ => some none
                   | .unmod => none) with
          | none => unspec
          | some none => errNoChange now a
          | some (some cur) =>
            match cur.add d with
            | none => (match h.get field with
                | none => ⟨false, (·.isNum d.fmtG), post d.fmtG⟩
                | some _ => unspec)
            | some r => ⟨false, (·.isNum r.fmtG), post r.fmtG⟩
      else
        match parseInt64 incr with
        | none => errNoChange now a
        | some d =>
          match (match h.get field with
                 | none => some (some 0)
                 | some t => match adaptType t with
                   | .int i => some (some i)
                   | .str _ => some none
                   | _ => none) with
          | none => unspec          -- float-valued field: the statement does not say what HINCRBY does
          | some none => errNoChange now a
          | some (some cur) =>
            if cur + d < minInt64 || cur + d > maxInt64 then errNoChange now a
            else ⟨false, (·.isNum (fmtInt (cur + d))), post (fmtInt (cur + d))⟩
  | _ => errNoChange now a

def specHRandField (cmd : List Bytes) : Verdict :=
  if cmd.length < 2 || cmd.length > 4 then errNoChange now a else
  match cmd with
  | _ :: key :: rest =>
    match hashOf? a key with
    | none => match rest with
      | c :: _ => if (parseInt64 c).isNone then errNoChange now a else ⟨false, fun r => r.isErr || r.isTexts [], fun p => sameDb p (purge now a)⟩
      | [] => errNoChange now a
    | some cur =>
      let h := cur.getD []
      let wv : Option Bool := match rest with
        | [_, w] => if !isAscii w then none else some (eqFold w (b "withvalues"))
        | _ => some false
      if (rest.head?.bind parseInt64) == some 0 then noChange now a fun r => r.isTexts [] || r.isErr else
      match wv, rest with
      | none, _ => unspec
      | some false, [_, _] => errNoChange now a
      | some withvalues, _ =>
        match (match rest with
               | [] => some 1
               | c :: _ => parseInt64 c) with
        | none => errNoChange now a
        | some count =>
          if count == 0 then noChange now a fun r => r.isTexts [] || r.isErr else
          let okFields (fs : List Bytes) : Bool :=
            fs.all (fun f => (h.get f).isSome) &&
            (if count > 0 then fs.eraseDups.length == fs.length && fs.length == min count.toNat h.length
             else fs.length == count.natAbs || h.isEmpty)
          noChange now a fun r =>
            (rest.isEmpty && (match r with
              | .ok v => (match v.str? with
                  | some f => (h.get f).isSome
                  | none => v.isNil && h.isEmpty)
              | _ => false)) ||
            isArr r fun xs => match arrTexts xs with
              | none => false
              | some ts =>
                if count == 0 || h.isEmpty then ts.isEmpty
                else if withvalues then
                  (fvPairs ts).length * 2 == ts.length && okFields ((fvPairs ts).map (·.1)) &&
                  (fvPairs ts).all fun (f, v) => h.get f == some v
                else okFields ts
  | _ => errNoChange now a

/-! ### sets (C16) -/

def setOf? (k : Bytes) : Option (Option (List Bytes)) :=
  match a.get k with
  | none => some none
  | some e => match e.val with
    | .set ms => some (some ms)
    | _ => none

def postSet (k : Bytes) (ms : List Bytes) (keepExp : Bool) (p : ADb) : Bool :=
  let ex := if keepExp then expOf a k else none
  let ok (e : Option Int) := sameDb p (purge now (a.put k ⟨.set (ms.mergeSort bytesLe), e⟩))
  if ms.isEmpty then sameDb p (purge now (a.del k)) || ok ex || ok (expOf a k)
  else ok ex || ok (expOf a k)

def specSAdd (cmd : List Bytes) : Verdict :=
  if cmd.length < 3 then errNoChange now a else
  match cmd with
  | _ :: key :: ms =>
    match setOf? a key with
    | none => errNoChange now a
    | some cur =>
      let s := cur.getD []
      let added := ms.eraseDups.filter fun m => !s.contains m
      ⟨false, (·.isInt added.length), postSet now a key (s ++ added) true⟩
  | _ => errNoChange now a

def specSRem (cmd : List Bytes) : Verdict :=
  if cmd.length < 3 then errNoChange now a else
  match cmd with
  | _ :: key :: ms =>
    match setOf? a key with
    | none => errNoChange now a
    | some none => noChange now a (·.isInt 0)
    | some (some s) =>
      let gone := ms.eraseDups.filter s.contains
      ⟨false, (·.isInt gone.length), postSet now a key (s.filter fun m => !gone.contains m) true⟩
  | _ => errNoChange now a

def specSRead (cmd : List Bytes) (which : Nat) : Verdict :=  -- 0 scard 1 smembers 2 sismember 3 smismember
  let arityOk := if which == 2 then cmd.length == 3 else if which == 3 then cmd.length ≥ 3 else cmd.length == 2
  if !arityOk then errNoChange now a else
  match cmd with
  | _ :: key :: args =>
    match setOf? a key with
    | none => errNoChange now a
    | some cur =>
      let s := cur.getD []
      if which == 0 then noChange now a (·.isInt s.length)
      else if which == 1 then noChange now a (·.isTextsPerm s)
      else if which == 2 then noChange now a (·.isInt (if s.contains (args.headD []) then 1 else 0))
      else noChange now a (·.isTexts (args.map fun m => if s.contains m then b "1" else b "0"))
  | _ => errNoChange now a

/-- operands of the algebra commands: `none` if some operand holds another type -/
def operands (keys : List Bytes) : Option (List (List Bytes)) :=
  keys.mapM fun k => (setOf? a k).map fun o => o.getD []

def unionAll (ss : List (List Bytes)) : List Bytes := (ss.flatten).eraseDups
def interAllS : List (List Bytes) → List Bytes
  | [] => []
  | s :: r => r.foldl (fun acc t => acc.filter t.contains) s
def diffAll : List (List Bytes) → List Bytes
  | [] => []
  | s :: r => s.filter fun m => !(r.any fun t => t.contains m)

/-- SUNION / SINTER / SDIFF (op 0/1/2); `dest = some d` for the STORE forms -/
def specSAlgebra (cmd : List Bytes) (op : Nat) (store : Bool) : Verdict :=
  if (store && cmd.length < 3) || (!store && cmd.length < 2) then errNoChange now a else
  let keys := if store then cmd.drop 2 else cmd.drop 1
  let dest := cmd.getD 1 []
  -- an operand entry without a value (left behind by an expiry write on a dead key: a listed finding of C08 / C04)
  -- is neither a set nor another type: the property does not say how it reads
  if keys.any (fun k => match a.get k with | some e => e.val == .nilv | none => false) then unspec else
  if op == 1 && !store && keys.any (fun k => setOf? a k == some none) then
    -- an absent operand makes the intersection empty whatever the other operands hold
    noChange now a fun r => r.isTextsPerm [] || r.isErr
  else if op == 2 && setOf? a (keys.headD []) == some none then
    (if store then unspec else noChange now a fun r => r.isTextsPerm [] || r.isErr)
  else
  match operands a keys with
  | none => if op == 2 && (setOf? a (keys.headD [])).isSome then unspec else errNoChange now a
  | some ss =>
    let res := if op == 0 then unionAll ss else if op == 1 then interAllS ss else diffAll ss
    if store then
      match a.get dest with
      | some e => if (match e.val with | .set _ => false | _ => true) then unspec else
          ⟨false, (·.isInt res.length), postSet now a dest res false⟩
      | none => ⟨false, (·.isInt res.length), postSet now a dest res false⟩
    else noChange now a (·.isTextsPerm res)

def specSInterCard (cmd : List Bytes) : Verdict :=
  if cmd.length < 2 then errNoChange now a else
  if !(cmd.all isAscii) then unspec else
  match cmd.findIdx? (fun t => eqFold t (b "limit")) with
  | none =>
    if (cmd.drop 1).any (fun k => setOf? a k == some none) then noChange now a fun r => r.isInt 0 || r.isErr else
    (match operands a (cmd.drop 1) with
     | none => errNoChange now a
     | some ss => noChange now a (·.isInt (interAllS ss).length))
  | some i =>
    if i < 2 then errNoChange now a else
    match cmd[i + 1]? with
    | none => errNoChange now a
    | some l => match intArg? l with
      | none => unspec
      | some none => errNoChange now a
      | some (some lim) =>
        if lim < 0 then unspec else
        if ((cmd.take i).drop 1).any (fun k => setOf? a k == some none) then noChange now a fun r => r.isInt 0 || r.isErr else
        match operands a ((cmd.take i).drop 1) with
        | none => errNoChange now a
        | some ss =>
          let n := (interAllS ss).length
          noChange now a (·.isInt (if lim > 0 && lim.toNat < n then lim else n))

def specSMove (cmd : List Bytes) : Verdict :=
  match cmd with
  | [_, src, dst, m] =>
    match setOf? a src, setOf? a dst with
    | none, _ => errNoChange now a
    | some none, none => noChange now a fun r => r.isInt 0 || r.isErr
    | _, none => errNoChange now a
    | some none, _ => noChange now a (·.isInt 0)
    | some (some s), d =>
      if !s.contains m then noChange now a fun r => r.isInt 0 || (d == some none && r.isErr)
      else if src == dst then noChange now a (·.isInt 1)
      else
        let moved (p : ADb) : Bool :=
          (match p.get dst with
           | some e => e.val == .set (((d.bind id).getD [] ++ (if ((d.bind id).getD []).contains m then [] else [m])).mergeSort bytesLe)
           | none => false) &&
          postSet now (a.del dst) src (s.erase m) true (p.del dst)
        match d with
        | some (some _) => ⟨false, (·.isInt 1), moved⟩
        | _ => ⟨false, fun r => r.isInt 1 || r.isErr, fun p => moved p || sameDb p (purge now a)⟩
  | _ => errNoChange now a

def specSPick (cmd : List Bytes) (pop : Bool) : Verdict :=
  if cmd.length < 2 || cmd.length > 3 then errNoChange now a else
  match cmd with
  | _ :: key :: rest =>
    match (match rest with
           | [] => some (some 1)
           | c :: _ => intArg? c) with
    | none => unspec
    | some none => errNoChange now a
    | some (some count) =>
      match setOf? a key with
      | none => errNoChange now a
      | some none => noChange now a fun r => r.isNil || r.isTexts []
      | some (some s) =>
        if count < 0 && pop then unspec else
        let sized (ts : List Bytes) : Bool :=
          ts.all s.contains &&
          (if count ≥ 0 then ts.eraseDups.length == ts.length && ts.length == min count.toNat s.length
           else ts.length == count.natAbs || s.isEmpty)
        let picks (r : Obs) : Option (List Bytes) :=
          match r with
          | .ok (.arr xs) => arrTexts xs
          | .ok v => if rest.isEmpty then (match v.str? with
              | some t => some [t]
              | none => if v.isNil then some [] else none) else none
          | _ => none
        if !pop then noChange now a fun r => match picks r with
          | some ts => sized ts
          | none => false
        else
          -- the removed members are exactly those returned: checked jointly by the driver through `pickOk`
          ⟨false, fun r => match picks r with
            | some ts => sized ts
            | none => false,
           fun p => match p.get key with
            | none => sameDb p (purge now (a.del key))
            | some e => match e.val with
              | .set s' => s'.all s.contains && sameDb (p.del key) (purge now (a.del key)) &&
                           (if count.toNat ≥ s.length then s'.isEmpty else s'.length + count.toNat == s.length)
              | _ => false⟩
  | _ => errNoChange now a

end

/-- reference verdict for the collection commands -/
def specColl (now : Int) (a : ADb) (cmd : List Bytes) : Option Verdict :=
  match cmd with
  | [] => none
  | name :: _ =>
    if !isAscii name then none else
    let n := toLower name
    if n == b "lpush" then some (specPush now a cmd true false)
    else if n == b "lpushx" then some (specPush now a cmd true true)
    else if n == b "rpush" then some (specPush now a cmd false false)
    else if n == b "rpushx" then some (specPush now a cmd false true)
    else if n == b "lpop" then some (specPop now a cmd true)
    else if n == b "rpop" then some (specPop now a cmd false)
    else if n == b "llen" then some (specLLen now a cmd)
    else if n == b "lindex" then some (specLIndex now a cmd)
    else if n == b "lrange" then some (specLRange now a cmd)
    else if n == b "lset" then some (specLSet now a cmd)
    else if n == b "ltrim" then some (specLTrim now a cmd)
    else if n == b "lrem" then some (specLRem now a cmd)
    else if n == b "lmove" then some (specLMove now a cmd)
    else if n == b "hset" then some (specHSet now a cmd false)
    else if n == b "hsetnx" then some (specHSet now a cmd true)
    else if n == b "hget" || n == b "hmget" then some (specHGet now a cmd)
    else if n == b "hstrlen" then some (specHStrLen now a cmd)
    else if n == b "hvals" then some (specHRead now a cmd 0)
    else if n == b "hkeys" then some (specHRead now a cmd 1)
    else if n == b "hgetall" then some (specHRead now a cmd 2)
    else if n == b "hlen" then some (specHRead now a cmd 3)
    else if n == b "hexists" then some (specHExists now a cmd)
    else if n == b "hdel" then some (specHDel now a cmd)
    else if n == b "hincrby" then some (specHIncrBy now a cmd false)
    else if n == b "hincrbyfloat" then some (specHIncrBy now a cmd true)
    else if n == b "hrandfield" then some (specHRandField now a cmd)
    else if n == b "sadd" then some (specSAdd now a cmd)
    else if n == b "srem" then some (specSRem now a cmd)
    else if n == b "scard" then some (specSRead now a cmd 0)
    else if n == b "smembers" then some (specSRead now a cmd 1)
    else if n == b "sismember" then some (specSRead now a cmd 2)
    else if n == b "smismember" then some (specSRead now a cmd 3)
    else if n == b "sunion" then some (specSAlgebra now a cmd 0 false)
    else if n == b "sinter" then some (specSAlgebra now a cmd 1 false)
    else if n == b "sdiff" then some (specSAlgebra now a cmd 2 false)
    else if n == b "sunionstore" then some (specSAlgebra now a cmd 0 true)
    else if n == b "sinterstore" then some (specSAlgebra now a cmd 1 true)
    else if n == b "sdiffstore" then some (specSAlgebra now a cmd 2 true)
    else if n == b "sintercard" then some (specSInterCard now a cmd)
    else if n == b "smove" then some (specSMove now a cmd)
    else if n == b "spop" then some (specSPick now a cmd true)
    else if n == b "srandmember" then some (specSPick now a cmd false)
    else none

end Sugar.Spec
