/-
  Spec.SubTable — what property C18 demands, as an executable reference over the *set of subscriptions*
  `(connection, kind, name)`:

  * a publish to `ch` is delivered exactly once to each connection holding a subscription to channel `ch` or to a
    pattern matching `ch` at the time of the publish, and to nobody else;
  * messages of one publisher to one channel reach a connection in publish order;
  * (P)SUBSCRIBE confirms every argument once, in order, with the number of subscriptions the connection holds after
    that argument; (P)UNSUBSCRIBE removes exactly the named subscriptions of its own kind and confirms each of them
    once, the counts being the numbers of subscriptions left (the shape — one array, any order — is accepted;
    whether a name the connection does not hold is confirmed too is left open);
  * PUBSUB NUMSUB / NUMPAT / CHANNELS are functions of the subscription set.
  Reply texts of errors and the reply of PUBLISH are not specified.
-/
import SugarModel.Model.PubSub
namespace Sugar.Spec.Sub
open Sugar Sugar.PubSub

structure Sub where
  conn : Nat
  pat : Bool
  name : Bytes
deriving DecidableEq, Repr

abbrev Subs := List Sub

/-- the subscriptions a table holds -/
def absT (t : Table) : Subs := (t.flatMap fun c => c.subs.map fun s => (⟨s, c.pat, c.name⟩ : Sub)).eraseDups

def insert (σ : Subs) (s : Sub) : Subs := if σ.contains s then σ else σ ++ [s]

def setEq (a c : Subs) : Bool := a.all c.contains && c.all a.contains

def Sub.matches (s : Sub) (ch : Bytes) : Bool := if s.pat then gideal s.name ch else s.name == ch

/-- connections that must receive a message published to `ch` -/
def targets (σ : Subs) (ch : Bytes) : List Nat := ((σ.filter (·.matches ch)).map (·.conn)).eraseDups

/-- running subscription count of a connection -/
def countOf (σ : Subs) (conn : Nat) : Nat := (σ.filter (·.conn == conn)).length

inductive Obs where
  | ok (bs : Bytes)
  | err (msg : Bytes)
  | panic
deriving Repr

def Obs.isOk : Obs → Bool
  | .ok _ => true
  | _ => false

def Obs.isErr : Obs → Bool
  | .err _ => true
  | _ => false

structure CmdSpec where
  σ' : Subs
  confirms : List Push := []
  deliveries : List (Nat × Bytes) := []
  replyOk : Bool
  specified : Bool := true

/-- confirmations of (P)SUBSCRIBE: one per argument with the running count -/
def subscribeSpec (conn : Nat) (withPat : Bool) : List Bytes → Subs → List Push → Subs × List Push
  | [], σ, ps => (σ, ps)
  | n :: r, σ, ps =>
    let σ1 := insert σ ⟨conn, withPat, n⟩
    subscribeSpec conn withPat r σ1 (ps ++ [.confirm conn (action withPat false) n (countOf σ1 conn)])

def strOf : RespVal → Option Bytes
  | .simple s => some s
  | .bulk s => some s
  | _ => none

/-- one confirmation `[action, name, count]` -/
def confirmOf : RespVal → Option (Bytes × Bytes × Int)
  | .arr [a, n, .int k] =>
    match strOf a, strOf n with
    | some a, some n => some (a, n, k)
    | _, _ => none
  | _ => none

def sortInts (l : List Int) : List Int := l.mergeSort (fun a c => a ≤ c)

/-- reply of (P)UNSUBSCRIBE: every name in `required` confirmed exactly once, nothing outside `required ++ optional`,
    and the counts attached to the required names are the numbers of subscriptions left: n0-1 … n0-k in some order -/
def unsubReplyOk (act : Bytes) (required optional : List Bytes) (n0 : Nat) (bs : Bytes) : Bool :=
  match parseReply bs with
  | some (.arr items) =>
    match items.mapM confirmOf with
    | none => false
    | some cs =>
      cs.all (fun c => toLower c.1 == act && (required.contains c.2.1 || optional.contains c.2.1))
      && required.all (fun n => (cs.filter fun c => c.2.1 == n).length == 1)
      && sortInts ((cs.filter fun c => required.contains c.2.1).map (·.2.2))
          == sortInts ((List.range required.length).map fun (i : Nat) => (n0 : Int) - 1 - (i : Int))
  | _ => false

def bulksOf : RespVal → Option (List Bytes)
  | .arr xs => xs.mapM fun v => match v with
    | .bulk s => some s
    | _ => none
  | _ => none

def activeNames (σ : Subs) (pat : Bool) : List Bytes := ((σ.filter (·.pat == pat)).map (·.name)).eraseDups

def numSubExpected (σ : Subs) (names : List Bytes) : RespVal :=
  .arr (names.map fun n => .arr [.bulk n, .int (σ.filter fun s => !s.pat && s.name == n).length])

/-- the reference step of one command, given the reply observed -/
def specCmd (σ : Subs) (conn : Nat) (cmd : List Bytes) (obs : Obs) : CmdSpec :=
  if !(cmd.all okBytes && σ.all (okBytes ·.name)) then { σ' := σ, replyOk := true, specified := false } else
  match cmd with
  | [] => { σ' := σ, replyOk := true, specified := false }
  | name :: args =>
    let n := toLower name
    if n == b "subscribe" || n == b "psubscribe" then
      let withPat := n == b "psubscribe"
      if args.isEmpty || (withPat && args.any fun a => !compiles a) then { σ' := σ, replyOk := obs.isErr }
      else if conn == 0 then { σ' := σ, replyOk := true, specified := false }
      else
        let (σ1, ps) := subscribeSpec conn withPat args σ []
        { σ' := σ1, confirms := ps, replyOk := obs.isOk }
    else if n == b "unsubscribe" || n == b "punsubscribe" then
      let withPat := n == b "punsubscribe"
      let mine (s : Sub) : Bool := s.conn == conn && s.pat == withPat
      let required := if args.isEmpty then (σ.filter mine).map (·.name) else args.eraseDups.filter fun a => σ.contains ⟨conn, withPat, a⟩
      let optional := args.filter fun a => !required.contains a
      let σ1 := σ.filter fun s => !(mine s && required.contains s.name)
      { σ' := σ1, replyOk := match obs with
          | .ok bs => unsubReplyOk (action withPat true) required optional (countOf σ conn) bs
          | _ => false }
    else if n == b "publish" then
      match args with
      | [ch, msg] => { σ' := σ, deliveries := (targets σ ch).map fun c => (c, msg), replyOk := obs.isOk }
      | _ => { σ' := σ, replyOk := obs.isErr }
    else if n == b "pubsub" then
      match args with
      | [] => { σ' := σ, replyOk := obs.isErr }
      | sub :: rest =>
        let s := toLower sub
        if s == b "channels" then
          if rest.length > 1 then { σ' := σ, replyOk := obs.isErr } else
          match rest with
          | [[]] => { σ' := σ, replyOk := true, specified := false }
          | _ =>
            let p := rest.head?
            if (match p with
              | some p => !compiles p
              | none => false) then { σ' := σ, replyOk := obs.isErr } else
            let sel (nm : Bytes) (lit : Bool) : Bool := match p with
              | none => true
              | some p => gideal p nm || (lit && nm == p)
            let required := (activeNames σ false).filter (sel · false)
            let allowed := ((activeNames σ false) ++ (activeNames σ true)).filter (sel · true)
            { σ' := σ, replyOk := match obs with
                | .ok bs => match (parseReply bs).bind bulksOf with
                  | some l => l.eraseDups.length == l.length && required.all l.contains && l.all allowed.contains
                  | none => false
                | _ => false }
        else if s == b "numpat" then
          { σ' := σ, replyOk := match obs with
              | .ok bs => bs == intReply (activeNames σ true).length
              | _ => false }
        else if s == b "numsub" then
          { σ' := σ, replyOk := match obs with
              | .ok bs => match parseReply bs with
                | some v => v == numSubExpected σ rest
                | none => false
              | _ => false }
        else { σ' := σ, replyOk := obs.isErr }
    else { σ' := σ, replyOk := true, specified := false }

/-! ### a block of commands and what the connections received -/

structure Pub where
  publisher : Nat
  channel : Bytes
  payload : Bytes
deriving DecidableEq, Repr

structure BlockSpec where
  σ : Subs
  confirms : List Push := []
  deliveries : List (Nat × Bytes) := []
  pubs : List Pub := []
  replyOk : Bool := true
  specified : Bool := true

def specBlock : List (Nat × List Bytes × Obs) → BlockSpec → BlockSpec
  | [], acc => acc
  | (conn, cmd, obs) :: rest, acc =>
    let r := specCmd acc.σ conn cmd obs
    let pub : List Pub := match cmd with
      | [n, ch, msg] => if toLower n == b "publish" then [⟨conn, ch, msg⟩] else []
      | _ => []
    specBlock rest { σ := r.σ', confirms := acc.confirms ++ r.confirms, deliveries := acc.deliveries ++ r.deliveries,
                     pubs := acc.pubs ++ pub, replyOk := acc.replyOk && r.replyOk, specified := acc.specified && r.specified }

def sortBytes (l : List Bytes) : List Bytes := l.mergeSort bytesLe

def isConfirm : Push → Bool
  | .confirm .. => true
  | _ => false

def msgOf : Push → Option (Bytes × Bytes)
  | .message _ n m => some (n, m)
  | _ => none

def increasing : List Nat → Bool
  | a :: c :: r => a < c && increasing (c :: r)
  | _ => true

/-- publish order per (publisher, channel): on every connection and under every label, the messages of one publisher
    to one channel are observed in the order they were published (checked when the payloads of the block are pairwise
    distinct, so that an observed message identifies its publish) -/
def fifoOk (pubs : List Pub) (received : List (Bytes × Bytes)) : Bool :=
  let payloads := pubs.map (·.payload)
  if payloads.eraseDups.length != payloads.length then true else
  let groups := (pubs.map fun p => (p.publisher, p.channel)).eraseDups
  let labels := (received.map (·.1)).eraseDups
  groups.all fun g =>
    let ps := (pubs.filter fun p => p.publisher == g.1 && p.channel == g.2).map (·.payload)
    labels.all fun l => increasing ((received.filter (·.1 == l)).filterMap fun r => ps.idxOf? r.2)

/-- the verdict of the reference on one block: `pre`/`post` tables as dumped from the implementation, the commands
    with the replies observed, and per connection the pushes it received during the block, in order -/
def blockVerdict (pre post : Table) (cmds : List (Nat × List Bytes × Obs)) (streams : List (Nat × List Push)) : String :=
  let r := specBlock cmds { σ := absT pre }
  if !r.specified then "uns" else
  if cmds.any (fun c => match c.2.2 with
      | .panic => true
      | _ => false) then "rej:panic" else
  if !r.replyOk then "rej:reply" else
  let conns := ((streams.map (·.1)) ++ (r.confirms.map (·.conn)) ++ (r.deliveries.map (·.1))).eraseDups
  let stream (c : Nat) : List Push := ((streams.find? (·.1 == c)).map (·.2)).getD []
  if !(conns.all fun c => (stream c).filter isConfirm == r.confirms.filter (·.conn == c)) then "rej:confirm" else
  if !setEq (absT post) r.σ then "rej:post" else
  if !(conns.all fun c =>
      sortBytes (((stream c).filterMap msgOf).map (·.2)) == sortBytes ((r.deliveries.filter (·.1 == c)).map (·.2))) then "rej:delivery" else
  if !(conns.all fun c => fifoOk r.pubs ((stream c).filterMap msgOf)) then "rej:order" else "adm"

end Sugar.Spec.Sub
