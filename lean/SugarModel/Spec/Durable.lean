/-
  Spec.Durable — what the persistence properties (C02, C09, C03, C10) demand of a restart, stated on
  datasets as a client observes them: keys per database with their type, full content and deadline,
  minus keys whose deadline has passed at the time of the restart.
-/
import SugarModel.Model.Persist
import SugarModel.Spec.RefMap
namespace Sugar.Persist
open Sugar

/-- value as a client reads it back (TYPE + the full per-type read) -/
inductive OVal where
  | text (s : Bytes)                         -- string / integer / float: the text GET answers
  | list (xs : List Bytes)
  | hash (fs : List (Bytes × Bytes))         -- sorted by field
  | set (ms : List Bytes)                    -- sorted
  | zset (ms : List (Bytes × Bytes))         -- sorted by member, score text
  | broken (what : String)                   -- a value no command of its original type accepts
deriving DecidableEq, Repr

def scalarText' : Scalar → Bytes
  | .str s => s
  | .int i => fmtInt i
  | .flt f => f.fmtG

def obsVal : Val → OVal
  | .nil => .broken "nil"
  | .str s => .text s
  | .int i => .text (fmtInt i)
  | .flt f => .text f.fmtG
  | .list xs => .list xs
  | .ilist _ => .broken "[]interface{}"
  | .hash h => .hash ((h.map fun (f, v) => (f, scalarText' v)).mergeSort fun a c => bytesLe a.1 c.1)
  | .set _ ms => .set (ms.mergeSort bytesLe)
  | .zset _ ms => .zset ((ms.map fun (m, sc) => (m, sc.fmtG)).mergeSort fun a c => bytesLe a.1 c.1)

/-- the observable dataset at time `now`: (database, key, value, deadline) of every live key, sorted -/
def digest (now : Int) (s : State) : List (Nat × Bytes × OVal × Option Int) :=
  let rows := s.dbs.flatMap fun (i, d) =>
    d.store.filterMap fun (k, e) =>
      if e.expired now then none else some (i, k, obsVal e.val, e.exp)
  rows.mergeSort fun a c => a.1 < c.1 || (a.1 == c.1 && bytesLe a.2.1 c.2.1)

/-- **the durability demand**: the recovered dataset equals the dataset at one of the admissible
    instants (`cands`: from the last acknowledged command to the command in flight at the crash) -/
def durable (now : Int) (cands : List State) (recovered : State) : Bool :=
  cands.any fun s => digest now s == digest now recovered

end Sugar.Persist
