/-
  Spec.RefMap — the sequential reference map for the key/value and expiry commands
  (properties C01, C04). Built from the property statements, then SugarDB's own documentation
  (command descriptions, embedded-API doc comments); where both are silent the verdict is
  `unspecified` and any non-crashing behaviour is accepted.

  The abstract dataset of one logical database maps a key to a value and an optional deadline and
  contains only keys whose deadline has not passed (`abs` purges). Scalars are abstracted to the
  bytes a read returns.
-/
import SugarModel.Base.Resp
import SugarModel.Model.Keyspace
namespace Sugar.Spec
open Sugar

inductive Kind where
  | str | int | flt
deriving DecidableEq, Repr

inductive AVal where
  | nilv
  | scalar (text : Bytes) (kind : Kind)
  | list (xs : List Bytes)
  | hash (h : KMap Bytes)          -- field ↦ bytes read back, sorted by field
  | set (ms : List Bytes)          -- sorted
  | zset (ms : KMap Flt)           -- sorted by member
deriving DecidableEq, Repr

structure AEntry where
  val : AVal
  exp : Option Int
deriving DecidableEq, Repr

/-- one logical database, live keys only -/
abbrev ADb := KMap AEntry

def sortK {α : Type} (m : KMap α) : KMap α := m.mergeSort fun a c => bytesLe a.1 c.1

/-- bytes a hash reader returns for a field value (floats are rendered with FormatFloat 'f') -/
def scalarText : Scalar → Bytes
  | .str s => s
  | .int i => fmtInt i
  | .flt f => f.fmtF

def absVal : Val → AVal
  | .nil => .nilv
  | .str s => .scalar s .str
  | .int i => .scalar (fmtInt i) .int
  | .flt f => .scalar f.fmtG .flt
  | .list xs => .list xs
  | .hash h => .hash (sortK (h.map fun (f, v) => (f, scalarText v)))
  | .set _ ms => .set (ms.mergeSort bytesLe)
  | .zset _ ms => .zset (sortK ms)
  | .ilist xs => .list xs

def liveAt (now : Int) (exp : Option Int) : Bool :=
  match exp with
  | none => true
  | some t => !decide (t < now)

/-- abstraction of one concrete database at clock reading `now` -/
def absDb (now : Int) (d : Db) : ADb :=
  sortK ((d.store.filter fun (_, e) => liveAt now e.exp).map fun (k, e) => (k, (⟨absVal e.val, e.exp⟩ : AEntry)))

def abs (now : Int) (s : State) (db : Nat) : ADb := absDb now (s.db db)

def purge (now : Int) (a : ADb) : ADb := a.filter fun (_, e) => liveAt now e.exp

/-- equality of values up to the scalar kind tag -/
def AVal.same : AVal → AVal → Bool
  | .scalar t _, .scalar u _ => t == u
  | a, c => a == c

def AEntry.same (a c : AEntry) : Bool := a.val.same c.val && a.exp == c.exp

def sameDb (a c : ADb) : Bool :=
  let a := sortK a; let c := sortK c
  a.length == c.length && (a.zip c).all fun (x, y) => x.1 == y.1 && x.2.same y.2

/-- what the check observes of one command -/
inductive Obs where
  | ok (v : RespVal)       -- a well-formed reply
  | malformed              -- reply bytes are not exactly one RESP value
  | err                    -- the handler returned an error
  | panic
deriving Repr

def Obs.isErr : Obs → Bool
  | .err => true
  | _ => false

def Obs.isStr (o : Obs) (s : Bytes) : Bool :=
  match o with
  | .ok v => v.str? == some s
  | _ => false

def Obs.isNil : Obs → Bool
  | .ok v => v.isNil
  | _ => false

def Obs.isInt (o : Obs) (i : Int) : Bool :=
  match o with
  | .ok (.int j) => i == j
  | _ => false

def Obs.isOK (o : Obs) : Bool := o.isStr (b "OK")

structure Verdict where
  unspecified : Bool := false
  replyOk : Obs → Bool
  postOk : ADb → Bool

def Verdict.admits (v : Verdict) (o : Obs) (post : ADb) : Bool :=
  match o with
  | .panic => false                                   -- a crash is never admitted
  | _ => v.unspecified || (v.replyOk o && v.postOk post)

def unspec : Verdict := ⟨true, fun _ => true, fun _ => true⟩

section
variable (now : Int) (a : ADb)

/-- error reply, dataset unchanged -/
def errNoChange : Verdict := ⟨false, Obs.isErr, fun p => sameDb p (purge now a)⟩
/-- exact reply predicate and exact post dataset (compared after purge) -/
def exact (r : Obs → Bool) (post : ADb) : Verdict := ⟨false, r, fun p => sameDb p (purge now post)⟩
def noChange (r : Obs → Bool) : Verdict := exact now r a

def kindOf (v : Bytes) : Option Kind :=
  match adaptType v with
  | .str _ => some .str
  | .int _ => some .int
  | .flt _ => some .flt
  | .unmod => none

def isScalar : AVal → Bool
  | .scalar _ _ => true
  | _ => false

/-! ### SET -/

structure SOpts where
  nx : Bool := false
  xx : Bool := false
  get : Bool := false
  exp : Option Int := none
  bad : Bool := false          -- syntax error
  silent : Bool := false       -- documented grammar says nothing (non-positive time, out-of-range)

def parseSetOpts : List Bytes → SOpts → SOpts
  | [], o => o
  | t :: r, o =>
    if !isAscii t then { o with silent := true } else
    let kw := toLower t
    if kw == b "get" then parseSetOpts r { o with get := true }
    else if kw == b "nx" then (if o.nx || o.xx then { o with bad := true } else parseSetOpts r { o with nx := true })
    else if kw == b "xx" then (if o.nx || o.xx then { o with bad := true } else parseSetOpts r { o with xx := true })
    else if kw == b "ex" || kw == b "px" || kw == b "exat" || kw == b "pxat" then
      match r with
      | [] => { o with bad := true }
      | n :: r' =>
        if o.exp.isSome then { o with bad := true } else
        match parseInt64 n with
        | none => { o with bad := true }
        | some n =>
          if n ≤ 0 || n > 4000000000 then { o with silent := true } else
          let t := if kw == b "ex" then now + n * 1000 else if kw == b "px" then now + n
                   else if kw == b "exat" then n * 1000 else n
          parseSetOpts r' { o with exp := some t }
    else { o with bad := true }

def specSet (cmd : List Bytes) : Verdict :=
  if cmd.length < 3 || cmd.length > 7 then errNoChange now a else
  match cmd with
  | _ :: key :: value :: opts =>
    let o := parseSetOpts now opts {}
    if o.silent then unspec else
    if o.bad then errNoChange now a else
    match kindOf value with
    | none => unspec
    | some kind =>
      let old := a.get key
      if (o.nx && old.isSome) || (o.xx && old.isNone) then
        -- not written: an error (SugarDB) or a nil reply (Redis) are both "did not set"
        noChange now a fun r => r.isErr || r.isNil
      else
        let okDeadline (e : Option Int) : Bool :=
          match o.exp with
          | some t => e == some t
          | none => e == none || (old.isSome && e == (old.bind (·.exp)))   -- live key: keeping its TTL is not excluded
        let postOk (p : ADb) : Bool :=
          match p.get key with
          | none => (o.exp.map fun t => decide (t < now)) == some true      -- written with a deadline already past
          | some e => e.val.same (.scalar value kind) && okDeadline e.exp &&
                      sameDb (p.del key) (purge now (a.del key))
        let replyOk (r : Obs) : Bool :=
          if o.get then
            match old with
            | none => r.isNil
            | some e => match e.val with
              | .scalar t _ => r.isStr t
              | _ => true
          else r.isOK
        match old with
        | some ⟨v, _⟩ => if o.get && !isScalar v then unspec else ⟨false, replyOk, postOk⟩
        | none => ⟨false, replyOk, postOk⟩
  | _ => errNoChange now a

/-! ### reads -/

def specGet (cmd : List Bytes) : Verdict :=
  match cmd with
  | [_, key] =>
    match a.get key with
    | none => noChange now a Obs.isNil
    | some e => match e.val with
      | .scalar t _ => noChange now a (·.isStr t)
      | .nilv => unspec
      | _ => errNoChange now a
  | _ => errNoChange now a

def specMGet (cmd : List Bytes) : Verdict :=
  if cmd.length < 2 then errNoChange now a else
  let keys := cmd.drop 1
  let want : Option (List RespVal) := keys.mapM fun k =>
    match a.get k with
    | none => some RespVal.nullBulk
    | some e => match e.val with
      | .scalar t _ => some (RespVal.bulk t)
      | _ => none
  match want with
  | none => unspec
  | some ws => noChange now a fun r => match r with
    | .ok (.arr xs) => xs.length == ws.length && (xs.zip ws).all fun (x, w) =>
        (w.isNil && x.isNil) || (!w.isNil && x.str? == w.str?)
    | _ => false

def specStrLen (cmd : List Bytes) : Verdict :=
  match cmd with
  | [_, key] =>
    match a.get key with
    | none => noChange now a (·.isInt 0)
    | some e => match e.val with
      | .scalar t .str => noChange now a (·.isInt t.length)
      | .scalar _ _ => unspec
      | .nilv => unspec
      | _ => errNoChange now a
  | _ => errNoChange now a

def intArg? (s : Bytes) : Option (Option Int) :=
  match adaptType s with
  | .int i => some (some i)
  | .unmod => none
  | _ => some none

def specGetRange (cmd : List Bytes) : Verdict :=
  match cmd with
  | [_, key, st, en] =>
    match intArg? st, intArg? en with
    | none, _ => unspec
    | _, none => unspec
    | some none, _ => errNoChange now a
    | _, some none => errNoChange now a
    | some (some s), some (some e) =>
      match a.get key with
      | none => ⟨false, fun r => r.isErr || r.isStr [], fun p => sameDb p (purge now a)⟩
      | some en => match en.val with
        | .scalar t .str =>
          let len : Int := t.length
          let s := if s < 0 then len + s else s
          let e := if e < 0 then len + e else e
          let s := if s < 0 then 0 else s
          let e := if e ≥ len then len - 1 else e
          if len == 0 || s > e then ⟨true, fun _ => true, fun p => sameDb p (purge now a)⟩
          else noChange now a (·.isStr ((t.drop s.toNat).take (e - s + 1).toNat))
        | .scalar _ _ => unspec
        | .nilv => unspec
        | _ => errNoChange now a
  | _ => errNoChange now a

def typeName : AVal → List Bytes
  | .nilv => []
  | .scalar _ _ => [b "string", b "integer", b "float"]
  | .list _ => [b "list"]
  | .hash _ => [b "hash"]
  | .set _ => [b "set"]
  | .zset _ => [b "zset"]

def specType (cmd : List Bytes) : Verdict :=
  match cmd with
  | [_, key] =>
    match a.get key with
    | none => noChange now a fun r => r.isErr || r.isStr (b "none")
    | some e => if e.val == .nilv then unspec else noChange now a fun r => (typeName e.val).any r.isStr
  | _ => errNoChange now a

/-! ### writes -/

def specMSet (cmd : List Bytes) : Verdict :=
  let args := cmd.drop 1
  if args.length % 2 != 0 then errNoChange now a else
  let rec go : List Bytes → Option (List (Bytes × Bytes × Kind))
    | k :: v :: r => do let kd ← kindOf v; let rest ← go r; pure ((k, v, kd) :: rest)
    | _ => some []
  match go args with
  | none => unspec
  | some pairs =>
    let final := pairs.foldl (fun (m : KMap (Bytes × Kind)) (k, v, kd) => m.put k (v, kd)) []
    ⟨false, Obs.isOK, fun p =>
      final.all (fun (k, (v, kd)) => match p.get k with
        | none => false
        | some e => e.val.same (.scalar v kd) &&
                    (e.exp == none || e.exp == ((a.get k).bind (·.exp)))) &&
      sameDb (final.foldl (fun m (k, _) => m.del k) p) (purge now (final.foldl (fun m (k, _) => m.del k) a))⟩

def specDel (cmd : List Bytes) : Verdict :=
  if cmd.length < 2 then errNoChange now a else
  let keys := (cmd.drop 1).eraseDups
  let present := keys.filter fun k => (a.get k).isSome
  exact now (·.isInt present.length) (present.foldl (fun m k => m.del k) a)

/-- INCR/DECR/INCRBY/DECRBY with 64-bit range check ("limited to 64 bit signed integers") -/
def specIncr (key : Bytes) (delta : Int) : Verdict :=
  let store (n : Int) (exp : Option Int) : Verdict :=
    if n < minInt64 || n > maxInt64 then errNoChange now a
    else exact now (·.isInt n) (a.put key ⟨.scalar (fmtInt n) .int, exp⟩)
  match a.get key with
  | none => store delta none
  | some e => match e.val with
    | .scalar t _ => match parseInt64 t with
      | some cur => store (cur + delta) e.exp
      | none => errNoChange now a
    | .nilv => unspec
    | _ => errNoChange now a

def specIncrCmd (cmd : List Bytes) (sign : Int) (needArg : Bool) : Verdict :=
  match needArg, cmd with
  | false, [_, key] => specIncr now a key sign
  | true, [_, key, n] => match parseInt64 n with
    | some n => specIncr now a key (sign * n)
    | none => errNoChange now a
  | _, _ => errNoChange now a

def specIncrByFloat (cmd : List Bytes) : Verdict :=
  match cmd with
  | [_, key, n] =>
    match parseFloat64 n with
    | none => errNoChange now a
    | some none => unspec
    | some (some incr) =>
      let store (f : Flt) (exp : Option Int) : Verdict :=
        exact now (·.isStr f.fmtG) (a.put key ⟨.scalar f.fmtG .flt, exp⟩)
      match a.get key with
      | none => store incr none
      | some e => match e.val with
        | .scalar t _ => match parseFloat64 t with
          | none => errNoChange now a
          | some none => unspec
          | some (some cur) => match cur.add incr with
            | none => unspec
            | some r => store r e.exp
        | .nilv => unspec
        | _ => errNoChange now a
  | _ => errNoChange now a

def specAppend (cmd : List Bytes) : Verdict :=
  match cmd with
  | [_, key, v] =>
    match a.get key with
    | none => match kindOf v with
      | none => unspec
      | some kd => exact now (·.isInt v.length) (a.put key ⟨.scalar v kd, none⟩)
    | some e => match e.val with
      | .scalar t .str =>
        let nv := t ++ v
        match kindOf nv with
        | none => unspec
        | some kd => exact now (·.isInt nv.length) (a.put key ⟨.scalar nv kd, e.exp⟩)
      | .scalar _ _ => unspec
      | .nilv => unspec
      | _ => errNoChange now a
  | _ => errNoChange now a

def specSetRange (cmd : List Bytes) : Verdict :=
  match cmd with
  | [_, key, off, v] =>
    match intArg? off with
    | none => unspec
    | some none => errNoChange now a
    | some (some o) =>
      match a.get key with
      | none =>
        -- "If the string does not exist, a new string is created" — contents beyond "ends with v" not pinned
        if o < 0 then unspec else
        ⟨false, fun r => match r with | .ok (.int _) => true | _ => false,
          fun p => match p.get key with
            | some e => (match e.val with
                | .scalar t _ => decide (t.length ≥ v.length) && t.drop (t.length - v.length) == v
                | _ => false) && sameDb (p.del key) (purge now a)
            | none => false⟩
      | some e => match e.val with
        | .scalar t .str =>
          if o < 0 || o > t.length then unspec else
          let r := t.take o.toNat ++ v ++ t.drop (o.toNat + v.length)
          match kindOf r with
          | none => unspec
          | some kd => exact now (·.isInt r.length) (a.put key ⟨.scalar r kd, e.exp⟩)
        | .scalar _ _ => unspec
        | .nilv => unspec
        | _ => errNoChange now a
  | _ => errNoChange now a

def specRename (cmd : List Bytes) : Verdict :=
  match cmd with
  | [_, old, new] =>
    match a.get old with
    | none => errNoChange now a
    | some e =>
      if e.val == .nilv then unspec else
      if old == new then noChange now a fun r => r.isOK || r.isErr
      else ⟨false, Obs.isOK, fun p =>
        (p.get old).isNone &&
        (match p.get new with
          | some e' => e'.val.same e.val && (e'.exp == e.exp || e'.exp == none)
          | none => false) &&
        sameDb ((p.del old).del new) (purge now ((a.del old).del new))⟩
  | _ => errNoChange now a

def specFlush (cmd : List Bytes) : Verdict :=
  match cmd with
  | [_] => exact now Obs.isOK []
  | _ => errNoChange now a

def specGetDel (cmd : List Bytes) : Verdict :=
  match cmd with
  | [_, key] =>
    match a.get key with
    | none => noChange now a Obs.isNil
    | some e => match e.val with
      | .scalar t _ => exact now (·.isStr t) (a.del key)
      | .nilv => unspec
      | _ => errNoChange now a
  | _ => errNoChange now a

def specGetEx (cmd : List Bytes) : Verdict :=
  if cmd.length < 2 || cmd.length > 4 then errNoChange now a else
  match cmd with
  | _ :: key :: rest =>
    match a.get key with
    | none => noChange now a Obs.isNil
    | some e => match e.val with
      | .scalar t _ =>
        let withExp (x : Option Int) : Verdict := exact now (·.isStr t) (a.put key ⟨e.val, x⟩)
        match rest with
        | [] => noChange now a (·.isStr t)
        | [opt] =>
          if !isAscii opt then unspec
          else if toLower opt == b "persist" then withExp none
          else unspec
        | opt :: n :: _ =>
          if !isAscii opt then unspec else
          let kw := toLower opt
          if kw == b "persist" then unspec else
          match parseInt64 n with
          | none => if kw == b "ex" || kw == b "px" || kw == b "exat" || kw == b "pxat" then errNoChange now a else unspec
          | some n =>
            if n ≤ 0 || n > 4000000000 then unspec
            else if kw == b "ex" then withExp (some (now + n * 1000))
            else if kw == b "px" then withExp (some (now + n))
            else if kw == b "exat" then withExp (some (n * 1000))
            else if kw == b "pxat" then withExp (some n)
            else errNoChange now a
      | .nilv => unspec
      | _ => errNoChange now a
  | _ => errNoChange now a

/-! ### expiry (C04) -/

def specTTL (cmd : List Bytes) : Verdict :=
  match cmd with
  | [name, key] =>
    if !isAscii name then unspec else
    match a.get key with
    | none => noChange now a (·.isInt (-2))
    | some e => match e.exp with
      | none => noChange now a (·.isInt (-1))
      | some t =>
        if toLower name == b "pttl" then noChange now a (·.isInt (t - now))
        else noChange now a fun r => match r with
          | .ok (.int s) => decide (s ≥ 0) && decide ((s * 1000 - (t - now)).natAbs < 1000)
          | _ => false
  | _ => errNoChange now a

def specExpireTime (cmd : List Bytes) : Verdict :=
  match cmd with
  | [name, key] =>
    if !isAscii name then unspec else
    match a.get key with
    | none => noChange now a (·.isInt (-2))
    | some e => match e.exp with
      | none => noChange now a (·.isInt (-1))
      | some t => noChange now a (·.isInt (if toLower name == b "pexpiretime" then t else t / 1000))
  | _ => errNoChange now a

def specPersist (cmd : List Bytes) : Verdict :=
  match cmd with
  | [_, key] =>
    match a.get key with
    | none => noChange now a (·.isInt 0)
    | some e => match e.exp with
      | none => noChange now a (·.isInt 0)
      | some _ => exact now (·.isInt 1) (a.put key ⟨e.val, none⟩)
  | _ => errNoChange now a

/-- EXPIRE / PEXPIRE / EXPIREAT / PEXPIREAT with NX | XX | GT | LT -/
def specExpire (cmd : List Bytes) : Verdict :=
  if cmd.length < 3 || cmd.length > 4 then errNoChange now a else
  match cmd with
  | name :: key :: n :: optl =>
    if !isAscii name then unspec else
    match parseInt64 n with
    | none => errNoChange now a
    | some n =>
      let nm := toLower name
      if n.natAbs > 4000000000 then unspec else
      let t := if nm == b "expire" then now + n * 1000 else if nm == b "pexpire" then now + n
               else if nm == b "expireat" then n * 1000 else n
      match a.get key with
      | none => noChange now a (·.isInt 0)
      | some e =>
        let set : Verdict := exact now (·.isInt 1) (a.put key ⟨e.val, some t⟩)
        let zero : Verdict := noChange now a (·.isInt 0)
        match optl with
        | [] => set
        | [opt] =>
          if !isAscii opt then unspec else
          let o := toLower opt
          if o == b "nx" then (if e.exp.isSome then zero else set)
          else if o == b "xx" then (if e.exp.isNone then zero else set)
          else if o == b "gt" then
            match e.exp with
            | none => zero
            | some c => if t > c then set else if t == c then noChange now a (fun r => r.isInt 0 || r.isInt 1) else zero
          else if o == b "lt" then
            match e.exp with
            | none => set
            | some c => if t < c then set else if t == c then noChange now a (fun r => r.isInt 0 || r.isInt 1) else zero
          else errNoChange now a
        | _ => errNoChange now a
  | _ => errNoChange now a

end

/-- the reference verdict for one command on the abstract dataset of the selected database;
    `none` = the command is outside this specification -/
def specKv (now : Int) (a : ADb) (cmd : List Bytes) : Option Verdict :=
  match cmd with
  | [] => none
  | name :: _ =>
    if !isAscii name then none else
    let n := toLower name
    if n == b "set" then some (specSet now a cmd)
    else if n == b "get" then some (specGet now a cmd)
    else if n == b "mget" then some (specMGet now a cmd)
    else if n == b "mset" then some (specMSet now a cmd)
    else if n == b "del" then some (specDel now a cmd)
    else if n == b "incr" then some (specIncrCmd now a cmd 1 false)
    else if n == b "decr" then some (specIncrCmd now a cmd (-1) false)
    else if n == b "incrby" then some (specIncrCmd now a cmd 1 true)
    else if n == b "decrby" then some (specIncrCmd now a cmd (-1) true)
    else if n == b "incrbyfloat" then some (specIncrByFloat now a cmd)
    else if n == b "append" then some (specAppend now a cmd)
    else if n == b "setrange" then some (specSetRange now a cmd)
    else if n == b "getrange" || n == b "substr" then some (specGetRange now a cmd)
    else if n == b "strlen" then some (specStrLen now a cmd)
    else if n == b "rename" then some (specRename now a cmd)
    else if n == b "getdel" then some (specGetDel now a cmd)
    else if n == b "getex" then some (specGetEx now a cmd)
    else if n == b "type" then some (specType now a cmd)
    else if n == b "flushdb" || n == b "flushall" then some (specFlush now a cmd)
    else if n == b "ttl" || n == b "pttl" then some (specTTL now a cmd)
    else if n == b "expiretime" || n == b "pexpiretime" then some (specExpireTime now a cmd)
    else if n == b "persist" then some (specPersist now a cmd)
    else if n == b "expire" || n == b "pexpire" || n == b "expireat" || n == b "pexpireat" then some (specExpire now a cmd)
    else none

end Sugar.Spec
