/-
  Spec.Policy — the declarative policy of C06 and the reference user table of C11.
  C06: when the server requires authentication a command may run only if the connection is
  authenticated as an enabled user whose rules allow every category, the command, every read key,
  every write key and every channel it names. AUTH, HELLO, PING, ECHO are exempt.
-/
import SugarModel.Model.Acl
namespace Sugar.Spec
open Sugar Sugar.Acl

/-- keys / channels the command names according to *both* extraction functions (command and sub-command) -/
structure Footprint where
  reads : List Bytes
  writes : List Bytes
  channels : List Bytes
deriving Repr

def exempt (comm : Bytes) : Bool :=
  toLower comm == b "auth" || toLower comm == b "hello" || toLower comm == b "ping" || toLower comm == b "echo"

def catAllowed (u : User) (c : Bytes) : Bool :=
  (u.inclCats.contains star || u.inclCats.contains c) && !(u.exclCats.contains star || u.exclCats.contains c)

def cmdAllowed (u : User) (comm : Bytes) : Bool :=
  (u.inclCmds.contains star || u.inclCmds.contains comm) && !(u.exclCmds.contains star || u.exclCmds.contains comm)

/-- the policy of the property statement -/
def policyAllowed (gmatch : Bytes → Bytes → Bool) (authenticated : Bool) (u : User) (comm : Bytes) (cats : List Bytes)
    (f : Footprint) : Bool :=
  exempt comm ||
  (authenticated && u.enabled &&
   cats.all (catAllowed u) &&
   cmdAllowed u comm &&
   ((f.reads.isEmpty && f.writes.isEmpty) || !u.noKeys) &&
   f.reads.all (fun k => u.readKeys.any fun g => gmatch g k) &&
   f.writes.all (fun k => u.writeKeys.any fun g => gmatch g k) &&
   f.channels.all (fun ch => (u.inclChans.any fun g => gmatch g ch) && !(u.exclChans.any fun g => gmatch g ch)))

/-- C11: AUTH succeeds exactly when the user exists, is enabled, and is password-less or the supplied
    password equals a plaintext password or hashes to a SHA-256 entry -/
def authShouldSucceed (u : Option User) (pw sha : Bytes) : Bool :=
  match u with
  | none => false
  | some u => u.enabled && (u.noPass || u.passwords.any fun p => (!p.sha && p.value == pw) || (p.sha && p.value == sha))

end Sugar.Spec
