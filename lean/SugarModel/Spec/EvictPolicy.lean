/-
  Spec.EvictPolicy — what property C08 demands of one transition under a memory limit.

  Inputs: the configuration, the command, the state before (dataset, tracked usage, eviction bookkeeping),
  the command's own effect on the dataset when no limit is configured (`base`: state, whether it succeeds, and the
  highest tracked usage it reaches on the way — the reference semantics of the command itself belongs to the other
  properties), whether the server died
  (panic in a connection or background goroutine, or a loop that never ends), whether an error was returned, and
  the state after. States are given in canonical form (maps sorted).

  "Usage" is the figure the server itself accounts and reports (`memUsed`); whether that figure matches the
  dataset is property C19's business, not this one's.

  Verdicts: "adm", "na" (no limit configured / the command's own semantics is outside the model) or "rej:<clause>":
    down        the server must keep running under every policy
    admitted    noeviction: a write (a command that stores or changes a value) at usage ≥ limit was not refused
    refused     noeviction: a command was refused although usage never reached the limit (or it stores nothing)
    partial     noeviction: a command was refused half way (its own first write took usage to the limit) and left
                part of its effect behind
    post        noeviction: something was removed or changed beyond the command's own effect
    survivor    eviction policy: a key that survives is not what the command alone leaves
    below-limit a key was removed although usage never reached the limit
    candidate   volatile-*: a key without a deadline was removed
    overshoot   eviction went on after usage was back under the limit
    order       LFU: a removed key had a higher recorded count than a surviving candidate;
                LRU: a removed key had a later recorded access than a surviving candidate, or the key the command
                itself has just used was removed while another candidate survives
                (otherwise pairs not named by the command itself, both recorded before the command)
    residue     a removed key is still in the volatile index or in a heap
    stale       a heap holds an entry for a key that is not in the store
-/
import SugarModel.Model.Evict
namespace Sugar.Spec.Evict
open Sugar Sugar.Evict

def keysOf (s : State) : List (Nat × Bytes) := s.dbs.flatMap fun (d, x) => x.store.map fun (k, _) => (d, k)

def sameData (a c : State) : Bool :=
  (keysOf a ++ keysOf c).all fun (d, k) => a.lookup d k == c.lookup d k

/-- unchanged, except that keys whose deadline had already passed may have been collected (lazy expiry is not eviction) -/
def sameUpToExpiry (now : Int) (a c : State) : Bool :=
  (keysOf a ++ keysOf c).all fun (d, k) => a.lookup d k == c.lookup d k ||
    (match a.lookup d k with
     | some e => e.expired now && (c.lookup d k).isNone
     | none => false)

def isVolatilePol (p : Policy) : Bool := p == .volatileLfu || p == .volatileLru || p == .volatileRandom

def lfuCount (es : EState) (d : Nat) (k : Bytes) : Option Nat :=
  match es.lfu.get d with
  | none => none
  | some c => (c.cells.filterMap id).findSome? fun e => if e.key == k then some e.count else none

/-- latest recorded access of `k` (the LRU heap may hold several entries for one key) -/
def lruTime (es : EState) (d : Nat) (k : Bytes) : Option Nat :=
  match es.lru.get d with
  | none => none
  | some c =>
    let ts := (c.cells.filterMap id).filterMap fun e => if e.key == k then some e.time else none
    if ts.isEmpty then none else some (ts.foldl max 0)

def cachedKeys (es : EState) (d : Nat) : List Bytes :=
  (((es.lfu.get d).map fun c => (c.cells.filterMap id).map (·.key) ++ c.keys).getD []) ++
  (((es.lru.get d).map fun c => (c.cells.filterMap id).map (·.key) ++ c.keys).getD [])

def hasDeadline (s : State) (d : Nat) (k : Bytes) : Bool :=
  match s.lookup d k with
  | some e => e.exp.isSome
  | none => false

/-- highest tracked usage reached while the command runs alone (no limit configured) -/
def progPeak {α : Type} (c : Ctx) : Prog α → State → Int → Int
  | .ret _, _, p => p
  | .call pr k, s, p =>
    match pr.exec c s with
    | none => p
    | some (s', r) => progPeak c (k r) s' (max p s'.mem)
  | .panic _, _, p => p
  | .unmod _, _, p => p

def verdict (c : Ctx) (cmd : List Bytes) (pre : EState) (base : Option (State × Bool × Int)) (died isErr : Bool)
    (post : Option EState) : String :=
  if c.cfg.maxMemory == 0 then "na" else
  if died then "rej:down" else
  match base, post with
  | none, _ => "na"
  | _, none => "na"
  | some (sb, baseOk, basePeak), some post =>
    let limit : Int := c.cfg.maxMemory
    if c.cfg.policy == .noeviction then
      let full := decide (pre.s.mem ≥ limit)
      let isWrite := (keysOf sb).any fun (d, k) => (sb.lookup d k).map (·.val) != (pre.s.lookup d k).map (·.val)
      if full && isWrite then
        if !isErr then "rej:admitted" else if !sameUpToExpiry c.now pre.s post.s then "rej:post" else "adm"
      else if full && isErr then
        -- a command that would store the value already there may be refused as well
        if !sameUpToExpiry c.now pre.s post.s then "rej:post" else "adm"
      else
        if isErr && baseOk then
          -- refused although usage was below the limit when the command started: admissible only if the command itself
          -- drove usage to the limit, and then nothing of it may stay behind
          if max basePeak pre.s.mem < limit then "rej:refused"
          else if !sameUpToExpiry c.now pre.s post.s then "rej:partial" else "adm"
        else if !sameData sb post.s then "rej:post" else "adm"
    else
      let evicted := (keysOf sb).filter fun (d, k) => (post.s.lookup d k).isNone
      let named (k : Bytes) : Bool := (cmd.drop 1).contains k
      -- a key the command writes may have been removed by the policy first and then created afresh (no deadline)
      let survOk := (keysOf post.s).all fun (d, k) => post.s.lookup d k == sb.lookup d k ||
        (named k && match post.s.lookup d k, sb.lookup d k with
          | some p, some q => p.val == q.val && p.exp.isNone
          | _, _ => false)
      if !survOk then "rej:survivor" else
      let peak := max basePeak pre.s.mem
      -- what the command itself deletes afterwards
      let ownDel := ((keysOf pre.s).filter fun (d, k) => (sb.lookup d k).isNone).map fun (d, k) => costOf pre.s d k
      if !evicted.isEmpty && peak < limit then "rej:below-limit" else
      if isVolatilePol c.cfg.policy && evicted.any (fun (d, k) => !hasDeadline sb d k) then "rej:candidate" else
      if !evicted.isEmpty && !(evicted.any fun (d, k) => decide (post.s.mem + costOf sb d k + ownDel.sum ≥ limit)) then "rej:overshoot" else
      let cand (d : Nat) (k : Bytes) : Bool := !isVolatilePol c.cfg.policy || hasDeadline sb d k
      let orderOk : Bool :=
        if isLfuPol c.cfg.policy then
          evicted.all fun (d, e) => named e || match lfuCount pre d e with
            | none => true
            | some ce => (post.s.db d).store.all fun (s, _) => named s || !cand d s || match lfuCount pre d s with
              | none => true
              | some cs => ce ≤ cs
        else if isLruPol c.cfg.policy then
          evicted.all fun (d, e) =>
            -- the key the command itself has just used is the most recently used one: it may go only last
            if named e then !((post.s.db d).store.any fun (s, _) => !named s && cand d s) else
            match lruTime pre d e with
            | none => true
            | some te => (post.s.db d).store.all fun (s, _) => named s || !cand d s || match lruTime pre d s with
              | none => true
              | some ts => te ≤ ts
        else true
      if !orderOk then "rej:order" else
      if evicted.any (fun (d, k) => (post.s.db d).vol.contains k || (cachedKeys post d).contains k) then "rej:residue" else
      if post.s.dbs.any (fun (d, _) => (cachedKeys post d).any fun k => (post.s.lookup d k).isNone) then "rej:stale" else
      "adm"

end Sugar.Spec.Evict
