import SugarModel.Base.Bytes
import SugarModel.Base.Num
import SugarModel.Base.KMap
import SugarModel.Base.Resp
import SugarModel.Model.Value
import SugarModel.Model.Keyspace
import SugarModel.Model.Generic
