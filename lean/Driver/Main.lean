/-
  Driver.Main — reads transition lines on stdin, runs the executable model on each, prints one
  verdict line per transition:
    <seq> OK | <seq> SKIP <reason> | <seq> DIFF <what> … | <seq> BAD <parse error>
-/
import SugarModel.Driver.Transcript
open Sugar Sugar.Driver

def showVal (v : Val) : String := reprStr v
def showEntry : Option Entry → String
  | none => "absent"
  | some e => s!"{reprStr e.val} exp={e.exp}"

def firstStoreDiff (m i : KMap Entry) : Option String :=
  let keys := (m.map (·.1) ++ i.map (·.1)).eraseDups
  keys.findSome? fun k =>
    if KMap.get m k == KMap.get i k then none
    else some s!"key={toHex k} model=({showEntry (KMap.get m k)}) impl=({showEntry (KMap.get i k)})"

def stateDiff (m i : State) : Option String :=
  if m == i then none else
  if m.mem != i.mem then some s!"mem model={m.mem} impl={i.mem}" else
  let idxs := (m.dbs.map (·.1) ++ i.dbs.map (·.1)).eraseDups
  let r := idxs.findSome? fun d =>
    match NMap.get m.dbs d, NMap.get i.dbs d with
    | none, none => none
    | some _, none => some s!"db={d} exists in model only"
    | none, some _ => some s!"db={d} exists in impl only"
    | some a, some c =>
      if a == c then none
      else match firstStoreDiff a.store c.store with
        | some s => some s!"db={d} store {s}"
        | none => if a.vol != c.vol then some s!"db={d} volatile model={a.vol.map toHex} impl={c.vol.map toHex}"
                  else some s!"db={d} store order"
  r.orElse fun _ => some "dbs differ"

def verdict (t : Transition) : String :=
  match step t.ctx t.pre t.cmd with
  | none => "SKIP unmodelled-command"
  | some (s', out) =>
    match out with
    | .unmod why => s!"SKIP unmod:{why.replace " " "_"}"
    | .panic w =>
      if t.obs != .panic then s!"DIFF outcome model=panic({w.replace " " "_"}) impl={reprStr t.obs}"
      else match stateDiff (canonState s') (canonState t.post) with
        | some d => s!"DIFF state-after-panic {d}"
        | none => "OK panic"
    | .done r =>
      let replyDiff : Option String :=
        match r, t.obs with
        | .ok a, .ok c => if a == c then none else some s!"reply model={toHex a} impl={toHex c}"
        | .err a, .err c => if a == c then none else some s!"errtext model={toHex a} impl={toHex c}"
        | .ok a, .err c => some s!"outcome model=ok({toHex a}) impl=err({toHex c})"
        | .err a, .ok c => some s!"outcome model=err({toHex a}) impl=ok({toHex c})"
        | .ok a, .panic => some s!"outcome model=ok({toHex a}) impl=panic"
        | .err a, .panic => some s!"outcome model=err({toHex a}) impl=panic"
      match replyDiff with
      | some d => s!"DIFF {d}"
      | none => match stateDiff (canonState s') (canonState t.post) with
        | some d => s!"DIFF state {d}"
        | none => "OK"

partial def loop (h : IO.FS.Stream) (out : IO.FS.Stream) : IO Unit := do
  let line ← h.getLine
  if line.isEmpty then return ()
  let line := line.trimRight
  if line.isEmpty then loop h out else
  if line.startsWith "U " || line.startsWith "H " then
    let ws := line.splitOn " "
    out.putStrLn s!"{ws.getD 1 "?"} SKIP {if line.startsWith "H " then "hang" else "dump:" ++ ws.getD 2 "?"}"
    loop h out
  else
  match parseLine line with
  | .error e => out.putStrLn s!"? BAD {e}"
  | .ok t => out.putStrLn s!"{t.seq} {verdict t}"
  loop h out

def main : IO Unit := do
  let out ← IO.getStdout
  loop (← IO.getStdin) out
  out.flush
