/-
  Driver.Main — reads transition lines on stdin, runs the executable model on each, prints one
  verdict line per transition:
    <seq> OK | <seq> SKIP <reason> | <seq> DIFF <what> … | <seq> BAD <parse error>
-/
import SugarModel.Driver.Transcript
import SugarModel.Spec.RefZSet
import SugarModel.Known
import SugarModel.Generated.CommandTable
import SugarModel.Driver.AclLines
import SugarModel.Driver.PersistLines
import SugarModel.Driver.SchedLines
import SugarModel.Driver.PubSubLines
import SugarModel.Driver.EvictLines
import SugarModel.Driver.RaftLines
open Sugar Sugar.Driver

def showVal (v : Val) : String := reprStr v
def showEntry : Option Entry → String
  | none => "absent"
  | some e => s!"{reprStr e.val} exp={e.exp}"

def firstStoreDiff (m i : KMap Entry) : Option String :=
  let keys := (m.map (·.1) ++ i.map (·.1)).eraseDups
  keys.findSome? fun k =>
    if KMap.get m k == KMap.get i k then none
    else some s!"key={toHex k} model=({showEntry (KMap.get m k)}) impl=({showEntry (KMap.get i k)})"

def stateDiff (m i : State) : Option String :=
  if m == i then none else
  if m.mem != i.mem then some s!"mem model={m.mem} impl={i.mem}" else
  let idxs := (m.dbs.map (·.1) ++ i.dbs.map (·.1)).eraseDups
  let r := idxs.findSome? fun d =>
    match NMap.get m.dbs d, NMap.get i.dbs d with
    | none, none => none
    | some _, none => some s!"db={d} exists in model only"
    | none, some _ => some s!"db={d} exists in impl only"
    | some a, some c =>
      if a == c then none
      else match firstStoreDiff a.store c.store with
        | some s => some s!"db={d} store {s}"
        | none => if a.vol != c.vol then some s!"db={d} volatile model={a.vol.map toHex} impl={c.vol.map toHex}"
                  else some s!"db={d} store order"
  (r.orElse fun _ => if m.conns != i.conns then some s!"connections model={m.conns} impl={i.conns}" else none).orElse fun _ =>
    if m.embDb != i.embDb then some s!"embedded db model={m.embDb} impl={i.embDb}" else some "dbs differ"

/-- strip `pre` from the front of `bs` -/
def stripPrefix (pre bs : Bytes) : Option Bytes :=
  if bs.take pre.length == pre then some (bs.drop pre.length) else none

/-- `rest` is a concatenation of exactly `k` groups drawn from `pool` (without reuse if `distinct`) -/
def consumeGroups : Nat → Nat → Bool → List Bytes → Bytes → Bool
  | 0, _, _, _, _ => false
  | _ + 1, 0, _, _, rest => rest.isEmpty
  | fuel + 1, k + 1, distinct, pool, rest =>
    match pool.find? fun g => !g.isEmpty && rest.take g.length == g with
    | none => false
    | some g => consumeGroups fuel k distinct (if distinct then pool.erase g else pool) (rest.drop g.length)

def replyMatches (r : Res) (impl : Bytes) : Bool :=
  match r with
  | .ok a => a == impl
  | .err _ => false
  | .okPerm hdr groups =>
    match stripPrefix hdr impl with
    | none => false
    | some rest => consumeGroups (groups.length + 2) groups.length true groups rest
  | .okPick hdr k distinct groups =>
    match stripPrefix hdr impl with
    | none => false
    | some rest => consumeGroups (k + 2) k distinct groups rest

def showRes : Res → String
  | .ok a => s!"ok({toHex a})"
  | .err a => s!"err({toHex a})"
  | .okPerm h g => s!"okPerm({toHex h},{g.map toHex})"
  | .okPick h k d g => s!"okPick({toHex h},{k},{d},{g.map toHex})"

/-- the bulk strings a reply names, in order (one level of nesting: sorted-set replies are arrays of arrays) -/
def hintOf : Observed → List Bytes
  | .ok bs => match parseReply bs with
    | some (.arr xs) => xs.flatMap fun v => match v with
      | .bulk s => [s]
      | .arr ys => ys.filterMap fun w => match w with
        | .bulk s => some s
        | _ => none
      | _ => []
    | some (.bulk s) => [s]
    | _ => []
  | _ => []

/-- the database the dispatcher puts in the request context (sugardb/modules.go:108-121) -/
def callerDb (t : Transition) : Nat :=
  match t.ctx.conn with
  | none => t.pre.embDb
  | some id => (NMap.get t.pre.conns id).getD 0

def verdictWith (t : Transition) (order : Nat) : String :=
  if callerDb t != t.ctx.db then s!"DIFF context-db dispatcher={t.ctx.db} connection-table={callerDb t}" else
  let ctx := { t.ctx with order := order, hint := hintOf t.obs }
  match step ctx t.pre t.cmd with
  | none => "SKIP unmodelled-command"
  | some (s', out) =>
    match out with
    | .unmod why => s!"SKIP unmod:{why.replace " " "_"}"
    | .panic w =>
      if t.obs != .panic then s!"DIFF outcome model=panic({w.replace " " "_"}) impl={reprStr t.obs}"
      else match stateDiff (canonState s') (canonState t.post) with
        | some d => s!"DIFF state-after-panic {d}"
        | none => "OK panic"
    | .done r =>
      let replyDiff : Option String :=
        match r, t.obs with
        | .err a, .err c => if a == c then none else some s!"errtext model={toHex a} impl={toHex c}"
        | .err a, .ok c => some s!"outcome model=err({toHex a}) impl=ok({toHex c})"
        | r, .ok c => if replyMatches r c then none else some s!"reply model={showRes r} impl={toHex c}"
        | r, .err c => some s!"outcome model={showRes r} impl=err({toHex c})"
        | r, .panic => some s!"outcome model={showRes r} impl=panic"
      match replyDiff with
      | some d => s!"DIFF {d}"
      | none => match stateDiff (canonState s') (canonState t.post) with
        | some d => s!"DIFF state {d}"
        | none => "OK"

def toObs : Observed → Spec.Obs
  | .ok bs => match parseReply bs with
    | some v => .ok v
    | none => .malformed
  | .err _ => .err
  | .panic => .panic

/-- verdict of the key/value reference spec on the *implementation's* transition -/
def specKvVerdict (t : Transition) : String :=
  let a := Spec.abs t.ctx.now t.pre t.ctx.db
  let p := Spec.abs t.ctx.now t.post t.ctx.db
  match Spec.specAll t.ctx.now a t.cmd with
  | none => "na"
  | some v =>
    match toObs t.obs with
    | .panic => "rej"
    | o => if v.unspecified then "uns" else if v.admits o p then "adm" else
        (if !v.replyOk o then "rej:reply" else "rej:post")

/-- accounted size of a dataset: what a fresh server loaded with it reports (C19's reference) -/
def memFn (s : State) : Int :=
  (s.dbs.map fun (_, d) => (d.store.map fun (k, e) => e.getMem + keyMem k).sum).sum

/-- C19 per transition: the command moves the counter by what the dataset's accounted size moves, or it lands on the
    exact figure of the dataset it leaves (FLUSHALL resets the counter: an earlier drift is then gone — the property itself) -/
def memVerdict (t : Transition) : String :=
  if t.post.mem - t.pre.mem == memFn t.post - memFn t.pre || t.post.mem == memFn t.post then "adm" else "rej"

/-- keys named by one keyspace primitive: (read, written) -/
def primKeys : Prim → List Bytes × List Bytes
  | .keysExist ks => (ks, []) | .getExpiry k => ([k], []) | .getValues ks => (ks, [])
  | .setValues es => ([], es.map (·.1)) | .setExpiry k _ _ => ([], [k]) | .deleteKey k => ([], [k])
  | .mutObj k _ => ([], [k]) | .tagOid k _ => ([], [k])
  | _ => ([], [])

/-- keys the model program touches when run on this state: (read, written) -/
def accessed (c : Ctx) : Prog Res → State → List Bytes × List Bytes
  | .ret _, _ => ([], [])
  | .panic _, _ => ([], [])
  | .unmod _, _ => ([], [])
  | .call p k, s =>
    let (r0, w0) := primKeys p
    match p.exec c s with
    | none => (r0, w0)
    | some (s', r) => let (r1, w1) := accessed c (k r) s'; (r0 ++ r1, w0 ++ w1)

/-- C06 on a data command: the footprint the command's key function declares to the authorization gate covers what the
    command touches — every key it writes is a declared write key, every key it reads a declared read or write key.
    (`na`: no declaration reported, or the command is outside the modelled handler rows.) -/
def fpVerdict (t : Transition) : String :=
  match t.kf, progOf t.ctx t.cmd with
  | some (rs, ws), some prog =>
    let (ar, aw) := accessed t.ctx prog t.pre
    if aw.any (fun k => !ws.contains k) then "rej:write-undeclared"
    else if ar.any (fun k => !rs.contains k && !ws.contains k) then "rej:read-undeclared"
    else "adm"
  | _, _ => "na"

def dbOrEmpty (s : State) (j : Nat) : Db := canonDb (s.db j)

def allDbIdx (t : Transition) : List Nat := ((t.pre.dbs.map (·.1)) ++ (t.post.dbs.map (·.1))).eraseDups

/-- what the connection table must look like after the command (C20: SELECT moves only the issuing
    connection, SWAPDB exchanges the two databases for every client connection, nothing else moves any) -/
def expectedConns (t : Transition) : Option (NMap Nat) :=
  let n := toLower (t.cmd.headD [])
  let ok := match t.obs with
    | .ok _ => true
    | _ => false
  let sortC (m : NMap Nat) := m.mergeSort (fun a c => a.1 ≤ c.1)
  if n == b "select" && ok then
    match t.ctx.conn, (t.cmd.getD 1 []) with
    | some id, d => (parseInt64 d).map fun v => sortC (NMap.put t.pre.conns id v.toNat)
    | none, _ => none            -- SELECT through the embedded API: not specified
  else if n == b "swapdb" && ok then
    match parseInt64 (t.cmd.getD 1 []), parseInt64 (t.cmd.getD 2 []) with
    | some a, some c => some (sortC (t.pre.conns.map fun (id, d) => (id, if d == a.toNat then c.toNat else if d == c.toNat then a.toNat else d)))
    | _, _ => none
  else if n == b "hello" then none
  else some (sortC t.pre.conns)

def isoVerdict (t : Transition) : String :=
  let n := toLower (t.cmd.headD [])
  let connsOk := match expectedConns t with
    | none => true
    | some e => e == t.post.conns.mergeSort (fun a c => a.1 ≤ c.1)
  let embOk := t.pre.embDb == t.post.embDb
  if !connsOk then "rej:conn" else if !embOk then "rej:embedded" else
  if n == b "flushall" then "na" else
  -- pointer classes are numbered over the whole dump: a new shared object in the selected database shifts the numbers
  -- elsewhere, so every other database is compared with its classes renumbered on its own
  let own (d : Db) : Db := (((renumberOids { dbs := [(0, d)], mem := 0 }).dbs.get 0).getD d)
  if (allDbIdx t).all fun j => j == t.ctx.db || own (dbOrEmpty t.pre j) == own (dbOrEmpty t.post j) then "adm" else "rej"

def rowOf (name : Bytes) : Option Gen.CmdRow :=
  Gen.commandTable.find? fun r => r.sub == "" && b r.name == toLower name

/-- read-only per the command table (categories contain read and not write), or a failing invocation -/
def pureVerdict (t : Transition) : String :=
  let ro := match rowOf (t.cmd.headD []) with
    | some r => r.cats.contains "read" && !r.cats.contains "write"
    | none => false
  let failing := match t.obs with
    | .err _ => true
    | _ => false
  let n := toLower (t.cmd.headD [])
  let isStore := n.length > 5 && n.drop (n.length - 5) == b "store"
  let shared (s : State) : Nat := (canonState s).dbs.foldl (fun m (_, d) => d.store.foldl (fun m (_, e) => max m e.val.oid) m) 0
  if isStore && !failing then (if shared t.post > shared t.pre then "rej:alias" else "adm") else
  if !(ro || failing) then "na" else
  if (allDbIdx t).all fun j => Spec.sameDb (Spec.abs t.ctx.now t.pre j) (Spec.abs t.ctx.now t.post j) then "adm" else "rej"

def hasDeadline (t : Transition) : String :=
  let ks := Known.keyArgs t.cmd
  let f (s : State) := ks.any fun k => match s.lookup t.ctx.db k with
    | some e => e.exp.isSome
    | none => false
  if f t.pre || f t.post then "1" else "0"

def shapeOf (t : Transition) : String :=
  match t.cmd with
  | _ :: k :: _ =>
    match t.pre.lookup t.ctx.db k with
    | none => "absent"
    | some e =>
      let tag := match e.val with
        | .nil => "nil" | .str _ => "str" | .int _ => "int" | .flt _ => "flt"
        | .list _ => "list" | .hash _ => "hash" | .set _ _ => "set" | .zset _ _ => "zset" | .ilist _ => "ilist"
      if e.expired t.ctx.now then "expired-" ++ tag else if e.exp.isSome then "ttl-" ++ tag else tag
  | _ => "nokey"

/-- Go map iteration order is resolved by trying the permutations of up to four distinct operands -/
def verdict (t : Transition) : String :=
  let n := ((t.cmd.drop 1).eraseDups.length).min 4
  let isZ := (toLower (t.cmd.headD [])).head? == some 122
  -- sorted-set commands: the iteration order of one map (tie arrangements) instead of operand permutations
  let tries := if isZ then zTries t.pre t.ctx.db else [1, 1, 2, 6, 24].getD n 1
  let first := verdictWith t 0
  if !first.startsWith "DIFF" then first else
  match (List.range tries).drop 1 |>.findSome? fun o =>
      let v := verdictWith t o
      if v.startsWith "DIFF" then none else some v with
  | some v => v
  | none => first


/-! ### raft suite: one log entry on one node's state machine (F lines) -/

open Sugar.Raft in
def fNodeWith (e : LogEntry) (n : FNode) (order : Nat) : String :=
  let obs? : Option Observed := match n.kind with
    | "ok" => some (.ok n.payload)
    | "err" => some (.err n.payload)
    | "panic" => some .panic
    | _ => none                                  -- hang
  let env : Ctx := { db := e.db, now := n.now, order := order, hint := match obs? with
    | some o => hintOf o
    | none => [] }
  -- every node of an F experiment is the leader of its own single-node cluster
  match applyEntry .leader env n.pre e with
  | none => "SKIP unmodelled-command"
  | some (s', out) =>
    match out, obs? with
    | .unmod why, _ => s!"SKIP unmod:{why.replace " " "_"}"
    | .hang, none => "OK hang"
    | .hang, some o => s!"DIFF outcome model=deadlock impl={reprStr o}"
    | _, none => "DIFF outcome model=answers impl=hang"
    | .panic w, some o =>
      if o != .panic then s!"DIFF outcome model=panic({w.replace " " "_"}) impl={reprStr o}"
      else match stateDiff (canonState s') (canonState n.post) with
        | some d => s!"DIFF state-after-panic {d}"
        | none => "OK panic"
    | .done r, some o =>
      let replyDiff : Option String :=
        match r, o with
        | .err a, .err c => if a == c then none else some s!"errtext model={toHex a} impl={toHex c}"
        | .err a, .ok c => some s!"outcome model=err({toHex a}) impl=ok({toHex c})"
        | r, .ok c => if replyMatches r c then none else some s!"reply model={showRes r} impl={toHex c}"
        | r, .err c => some s!"outcome model={showRes r} impl=err({toHex c})"
        | r, .panic => some s!"outcome model={showRes r} impl=panic"
      match replyDiff with
      | some d => s!"DIFF {d}"
      | none => match stateDiff (canonState s') (canonState n.post) with
        | some d => s!"DIFF state {d}"
        | none => "OK"

open Sugar.Raft in
def fNode (e : LogEntry) (n : FNode) : String :=
  let k := ((e.cmd.drop 1).eraseDups.length).min 4
  let tries := [1, 1, 2, 6, 24].getD k 1
  let first := fNodeWith e n 0
  if !first.startsWith "DIFF" then first else
  match (List.range tries).drop 1 |>.findSome? fun o =>
      let v := fNodeWith e n o
      if v.startsWith "DIFF" then none else some v with
  | some v => v
  | none => first

def fVerdict (toks : List String) : String :=
  match runP pFLine toks with
  | .error e => s!"{toks.getD 1 "?"} BAD {e}"
  | .ok l =>
    let vs : List String := l.nodes.map (fNode l.entry)
    let model := match vs.find? (fun (v : String) => v.startsWith "DIFF") with
      | some d => d
      | none => match vs.find? (fun (v : String) => v.startsWith "SKIP") with
        | some k => k
        | none => "OK"
    s!"{l.seq} {model} ## rep={fSpec l} rcls={fClass l}"

/-- C12 on one command: the bytes the connection loop would write are exactly one well-formed RESP value
    (`-Error <text>\r\n` for a handler error), and the handler does not panic (no `recover` in the
    server: a panic in a connection goroutine ends the process) -/
def wireVerdict (t : Transition) : String × String :=
  let name := String.fromUTF8! (ByteArray.mk (toLower (t.cmd.headD [])).toArray)
  match t.obs with
  | .panic => ("rej:panic", s!"{name}-panic")
  | .err msg => if msg.any (fun c => c == 13 || c == 10) then ("rej:malformed", "error-reply-carries-crlf") else ("adm", "-")
  | .ok bs =>
    if bs.isEmpty then ("adm", "-") else
    match parseReply bs with
    | some _ => ("adm", "-")
    | none =>
      if bs == b "*0" then ("rej:malformed", "empty-array-without-terminator")
      else if bs.head? == some 43 then ("rej:malformed", "simple-string-reply-carries-crlf")
      else ("rej:malformed", s!"{name}-malformed-reply")

partial def loop (h : IO.FS.Stream) (out : IO.FS.Stream) : IO Unit := do
  let line ← h.getLine
  if line.isEmpty then return ()
  let line := line.trimRight
  if line.isEmpty then loop h out else
  if line.startsWith "Z " then
    out.putStrLn (zVerdict ((line.splitOn " ").filter (· ≠ "")))
    loop h out
  else if line.startsWith "W " then
    out.putStrLn (wVerdict ((line.splitOn " ").filter (· ≠ "")))
    loop h out
  else if line.startsWith "V " then
    out.putStrLn (evVerdict ((line.splitOn " ").filter (· ≠ "")))
    loop h out
  else if line.startsWith "A " then
    out.putStrLn (aVerdict ((line.splitOn " ").filter (· ≠ "")))
    loop h out
  else if line.startsWith "I " then
    out.putStrLn (verdictI line)
    loop h out
  else if line.startsWith "S " then
    out.putStrLn (verdictS line)
    loop h out
  else if line.startsWith "X " then
    out.putStrLn (verdictX line)
    loop h out
  else if line.startsWith "P " then
    out.putStrLn (pVerdict ((line.splitOn " ").filter (· ≠ "")))
    loop h out
  else if line.startsWith "G " then
    out.putStrLn (gVerdict ((line.splitOn " ").filter (· ≠ "")))
    loop h out
  else if line.startsWith "F " then
    out.putStrLn (fVerdict ((line.splitOn " ").filter (· ≠ "")))
    loop h out
  else if line.startsWith "N " then
    out.putStrLn (nVerdict ((line.splitOn " ").filter (· ≠ "")))
    loop h out
  else if line.startsWith "K " then
    out.putStrLn (kLineVerdict ((line.splitOn " ").filter (· ≠ "")))
    loop h out
  else if line.startsWith "Q " then
    out.putStrLn (qLineVerdict ((line.splitOn " ").filter (· ≠ "")))
    loop h out
  else
  if line.startsWith "U " || line.startsWith "H " then
    let ws := line.splitOn " "
    out.putStrLn s!"{ws.getD 1 "?"} SKIP {if line.startsWith "H " then "hang" else "dump:" ++ ws.getD 2 "?"}"
    loop h out
  else
  match parseLine line with
  | .error e => out.putStrLn s!"? BAD {e}"
  | .ok t => out.putStrLn s!"{t.seq} {verdict t} ## kv={specKvVerdict t} cls={(Known.classifyAll t.ctx t.pre t.cmd).getD "-"} mcls={(Known.classifyMem t.ctx t.pre t.cmd).getD "-"} pcls={(Known.classifyPure t.ctx t.pre t.cmd).getD "-"} pure={pureVerdict t} mem={memVerdict t} iso={isoVerdict t} dl={hasDeadline t} shape={shapeOf t} wire={(wireVerdict t).1} wcls={(wireVerdict t).2} acl={fpVerdict t}"
  loop h out

def main : IO Unit := do
  let out ← IO.getStdout
  loop (← IO.getStdin) out
  out.flush
