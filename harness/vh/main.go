// vh — verification harness: drives the real SugarDB code in-process and writes transcripts.
package main

import (
	"bufio"
	"flag"
	"fmt"
	"os"

	"github.com/echovault/sugardb/verifharness/core"
)

func main() {
	if len(os.Args) < 2 {
		fmt.Fprintln(os.Stderr, "usage: vh <kv|gen-facts|...> [flags]")
		os.Exit(2)
	}
	sub := os.Args[1]
	fs := flag.NewFlagSet(sub, flag.ExitOnError)
	seed := fs.Int64("seed", 1, "PRNG seed")
	tier := fs.String("tier", "quick", "quick|thorough")
	out := fs.String("out", "-", "output file")
	leanDir := fs.String("lean", "", "lean project dir (gen-facts)")
	replay := fs.String("replay", "", "replay file")
	_ = fs.Parse(os.Args[2:])

	// the code under test prints diagnostics with fmt.Printf: keep our stdout, silence theirs
	realStdout := os.Stdout
	if devnull, e := os.OpenFile(os.DevNull, os.O_WRONLY, 0); e == nil {
		os.Stdout = devnull
	}
	var w *bufio.Writer
	if *out == "-" {
		w = bufio.NewWriterSize(realStdout, 1<<20)
	} else {
		f, err := os.Create(*out)
		if err != nil {
			fmt.Fprintln(os.Stderr, err)
			os.Exit(2)
		}
		defer f.Close()
		w = bufio.NewWriterSize(f, 1<<20)
	}
	defer w.Flush()

	var err error
	switch sub {
	case "kv":
		err = core.RunFamily(core.KvFamily(), w, *seed, *tier, *replay)
	case "list":
		err = core.RunFamily(core.ListFamily(), w, *seed, *tier, *replay)
	case "hash":
		err = core.RunFamily(core.HashFamily(), w, *seed, *tier, *replay)
	case "set":
		err = core.RunFamily(core.SetFamily(), w, *seed, *tier, *replay)
	case "zset":
		err = core.RunFamily(core.ZSetFamily(), w, *seed, *tier, *replay)
	case "aclz":
		err = core.RunAclZ(w, *seed, *tier, *replay)
	case "acla":
		err = core.RunAclA(w, *seed, *tier, *replay)
	case "aof":
		err = core.RunAof(w, *seed, *tier, *replay)
	case "snap":
		err = core.RunSnap(w, *seed, *tier, *replay)
	case "autotrial":
		err = core.RunAutoTrialChild(w, *replay)
	case "sched":
		err = core.RunSched(w, *seed, *tier, *replay)
	case "wire":
		err = core.RunWire(w, *seed, *tier, *replay)
	case "pubsub":
		err = core.RunPubSub(w, *seed, *tier, *replay)
	case "evict":
		err = core.RunEvict(w, *seed, *tier, *replay)
	case "evict-child":
		err = core.RunEvictChild(w, *replay, int(*seed))
	case "raft":
		err = core.RunRaft(w, *seed, *tier, *replay)
	case "gen-facts":
		err = core.GenFacts(*leanDir)
	default:
		err = fmt.Errorf("unknown subcommand %s", sub)
	}
	if err != nil {
		w.Flush()
		fmt.Fprintln(os.Stderr, "vh:", err)
		os.Exit(2)
	}
}
