module github.com/echovault/sugardb/verifharness

go 1.22.0

require (
	github.com/echovault/sugardb v0.0.0
	github.com/gobwas/glob v0.2.3
	github.com/hashicorp/raft v1.5.0
)

require (
	github.com/armon/go-metrics v0.4.1 // indirect
	github.com/boltdb/bolt v1.3.1 // indirect
	github.com/fatih/color v1.13.0 // indirect
	github.com/google/btree v0.0.0-20180813153112-4030bb1f1f0c // indirect
	github.com/hashicorp/errwrap v1.0.0 // indirect
	github.com/hashicorp/go-hclog v1.5.0 // indirect
	github.com/hashicorp/go-immutable-radix v1.0.0 // indirect
	github.com/hashicorp/go-msgpack v0.5.5 // indirect
	github.com/hashicorp/go-multierror v1.0.0 // indirect
	github.com/hashicorp/go-sockaddr v1.0.0 // indirect
	github.com/hashicorp/golang-lru v0.5.0 // indirect
	github.com/hashicorp/memberlist v0.5.0 // indirect
	github.com/hashicorp/raft-boltdb v0.0.0-20230125174641-2a8082862702 // indirect
	github.com/mattn/go-colorable v0.1.12 // indirect
	github.com/mattn/go-isatty v0.0.14 // indirect
	github.com/miekg/dns v1.1.26 // indirect
	github.com/sean-/seed v0.0.0-20170313163322-e2103e2c3529 // indirect
	github.com/sethvargo/go-retry v0.2.4 // indirect
	github.com/tidwall/resp v0.1.1 // indirect
	golang.org/x/crypto v0.0.0-20190923035154-9ee001bba392 // indirect
	golang.org/x/net v0.0.0-20190923162816-aa69164e4478 // indirect
	golang.org/x/sys v0.0.0-20220728004956-3c1f35247d10 // indirect
	gopkg.in/yaml.v3 v3.0.1 // indirect
)

replace github.com/echovault/sugardb => /repo
