package core

import (
	"bufio"
	"bytes"
	"sync/atomic"

	"encoding/json"
	"fmt"
	"net"
	"os"
	"strings"
	"sync"
	"time"
)

// WireSeq is one client session: the byte chunks written one after another on a fresh connection.
type WireSeq struct {
	ID     string   `json:"id"`
	Writes []string `json:"writes"` // hex
	Kind   string   `json:"kind"`
}

type collector struct {
	mu     sync.Mutex
	buf    bytes.Buffer
	last   time.Time
	eof    bool
	inRead atomic.Bool // true while the collector sits in Read with everything read so far already in buf
}

// settled waits until the collector has stored what it read and is back in Read (or at EOF): with the
// server blocked in its own Read nothing is in flight any more.
func (c *collector) settled(max time.Duration) {
	for t0 := time.Now(); time.Since(t0) < max; {
		c.mu.Lock()
		eof := c.eof
		c.mu.Unlock()
		if eof || c.inRead.Load() {
			return
		}
		time.Sleep(50 * time.Microsecond)
	}
}

func (c *collector) run(conn net.Conn) {
	tmp := make([]byte, 65536)
	for {
		c.inRead.Store(true)
		n, err := conn.Read(tmp)
		c.inRead.Store(false)
		c.mu.Lock()
		if n > 0 {
			c.buf.Write(tmp[:n])
			c.last = time.Now()
		}
		if err != nil {
			c.eof = true
			c.mu.Unlock()
			return
		}
		c.mu.Unlock()
	}
}

func (c *collector) quiet(d time.Duration, max time.Duration) {
	start := time.Now()
	for {
		time.Sleep(2 * time.Millisecond)
		c.mu.Lock()
		idle := time.Since(c.last)
		c.mu.Unlock()
		if idle > d || time.Since(start) > max {
			return
		}
	}
}

var readsStarted, readsDone atomic.Int64

// curCollector is the collector of the session in progress (waitBlocked stops early when it saw EOF).
var curCollector *collector

func init() {
	HookExtra = func(name string) {
		switch name {
		case "readmessage.read.before":
			readsStarted.Add(1)
		case "readmessage.read.after":
			readsDone.Add(1)
		default:
			psPoint(name)
		}
	}
}

// blockedReads = goroutines currently inside a Read of ReadMessage (started - completed).
func blockedReads() int64 { return readsStarted.Load() - readsDone.Load() }

// waitBlocked returns once at least `minDone` reads have completed and exactly one connection goroutine
// sits in a Read: everything the server had to write for the bytes received so far has been written.
func waitBlocked(minDone int64, max time.Duration) bool {
	t0 := time.Now()
	for time.Since(t0) < max {
		if readsDone.Load() >= minDone && blockedReads() == 1 {
			return true
		}
		if c := curCollector; c != nil {
			c.mu.Lock()
			eof := c.eof
			c.mu.Unlock()
			if eof && blockedReads() == 0 {
				return false // the server closed the connection: nothing more will happen
			}
		}
		time.Sleep(100 * time.Microsecond)
	}
	return false
}

// runWireSeq measures a session twice (a third time when the two disagree) and writes the agreed line:
// what one measurement sees depends on when the collector is read, and a loaded machine can make a
// single reading come too early; a server behaviour that really differs from run to run is written as a
// U line (not comparable).
func runWireSeq(w *bufio.Writer, seqW *bufio.Writer, in *Inst, s WireSeq) {
	var a, b bytes.Buffer
	wa, wb := bufio.NewWriter(&a), bufio.NewWriter(&b)
	runWireOnce(wa, nil, in, s)
	wa.Flush()
	runWireOnce(wb, nil, in, s)
	wb.Flush()
	line := a.String()
	if a.String() != b.String() {
		var c bytes.Buffer
		wc := bufio.NewWriter(&c)
		runWireOnce(wc, nil, in, s)
		wc.Flush()
		switch c.String() {
		case a.String():
		case b.String():
			line = b.String()
		default:
			line = fmt.Sprintf("U %s three-measurements-of-the-session-disagree\n", s.ID)
		}
	}
	w.WriteString(line)
	if seqW != nil {
		j, _ := json.Marshal(s)
		seqW.Write(j)
		seqW.WriteByte('\n')
	}
}

func runWireOnce(w *bufio.Writer, seqW *bufio.Writer, in *Inst, s WireSeq) {
	if os.Getenv("VH_DEBUG") != "" {
		fmt.Fprintf(os.Stderr, "%s seq %s started=%d done=%d\n", time.Now().Format("15:04:05.000"), s.ID, readsStarted.Load(), readsDone.Load())
	}
	// earlier connections have been closed: wait until their goroutines have left ReadMessage; the
	// synchronisation below counts reads globally, so a session is not started next to a stale reader
	for t0 := time.Now(); blockedReads() != 0 && time.Since(t0) < 20*time.Second; {
		time.Sleep(100 * time.Microsecond)
	}
	if blockedReads() != 0 {
		fmt.Fprintf(w, "U %s stale-reader-from-an-earlier-session\n", s.ID)
		return
	}
	client, server := net.Pipe()
	go in.S.VerifServe(server)
	col := &collector{last: time.Now()}
	curCollector = col
	defer func() { curCollector = nil }()
	go col.run(client)
	hung := !waitBlocked(0, 10*time.Second)
	for _, hx := range s.Writes {
		data := UnhexCmd([]string{hx})[0]
		if len(data) == 0 {
			continue
		}
		d0 := readsDone.Load()
		_ = client.SetWriteDeadline(time.Now().Add(time.Second))
		if _, err := client.Write([]byte(data)); err != nil {
			hung = true
		}
		// the pipe is synchronous: the server has consumed the bytes in ceil(len/8192) reads; wait until
		// those have completed and it blocks in its next Read
		if !waitBlocked(d0+int64((len(data)+8191)/8192), 10*time.Second) {
			hung = true
		}
	}
	// is the first connection still responsive? (a blocked reader does not answer a fresh PING)
	col.settled(time.Second)
	col.mu.Lock()
	before := col.buf.Len()
	col.mu.Unlock()
	_ = client.SetWriteDeadline(time.Now().Add(300 * time.Millisecond))
	d1 := readsDone.Load()
	_ = client.SetWriteDeadline(time.Now().Add(time.Second))
	_, _ = client.Write(Encode([]string{"PING"}))
	waitBlocked(d1+1, 10*time.Second)
	col.settled(time.Second)
	col.mu.Lock()
	out := append([]byte{}, col.buf.Bytes()...)
	col.mu.Unlock()
	probe := string(out[before:])
	out = out[:before]
	responsive := probe == "+PONG\r\n"
	_ = client.Close()
	for t0 := time.Now(); blockedReads() != 0 && time.Since(t0) < 20*time.Second; {
		time.Sleep(100 * time.Microsecond)
	}
	// liveness: a second connection must still be served
	c2, s2 := net.Pipe()
	go in.S.VerifServe(s2)
	alive := false
	_ = c2.SetDeadline(time.Now().Add(time.Second))
	if _, err := c2.Write(Encode([]string{"PING"})); err == nil {
		b := make([]byte, 16)
		if n, err := c2.Read(b); err == nil && string(b[:n]) == "+PONG\r\n" {
			alive = true
		}
	}
	_ = c2.Close()
	var sb strings.Builder
	fmt.Fprintf(&sb, "W %s %s %d", s.ID, s.Kind, len(s.Writes))
	for _, hx := range s.Writes {
		sb.WriteString(" x" + hx)
	}
	fmt.Fprintf(&sb, " R %s H %s P %s L %s", X(string(out)), b01(hung), b01(responsive), b01(alive))
	w.WriteString(sb.String())
	w.WriteByte('\n')
	if seqW != nil {
		j, _ := json.Marshal(s)
		seqW.Write(j)
		seqW.WriteByte('\n')
	}
}

func padTo(total int) []string {
	// an ECHO command whose encoding is exactly `total` bytes
	for l := total; l > 0; l-- {
		c := Encode([]string{"ECHO", strings.Repeat("x", l)})
		if len(c) == total {
			return []string{"ECHO", strings.Repeat("x", l)}
		}
		if len(c) < total {
			break
		}
	}
	return nil
}

// RunWire writes the transcript of the framing suite (PING / ECHO over an exact-segmentation pipe).
func RunWire(w *bufio.Writer, seed int64, tier string, replay string) error {
	var seqW *bufio.Writer
	if sp := os.Getenv("VH_SEQS"); sp != "" {
		f, err := os.Create(sp)
		if err != nil {
			return err
		}
		defer f.Close()
		seqW = bufio.NewWriter(f)
		defer seqW.Flush()
	}
	in, err := NewInst(Opts{})
	if err != nil {
		return err
	}
	defer in.S.ShutDown()
	if replay != "" {
		data, err := os.ReadFile(replay)
		if err != nil {
			return err
		}
		var rp struct {
			Seq WireSeq `json:"seq"`
		}
		if err := json.Unmarshal(data, &rp); err != nil {
			return err
		}
		runWireSeq(w, seqW, in, rp.Seq)
		return nil
	}
	id := 0
	emit := func(kind string, writes ...[]byte) {
		s := WireSeq{ID: fmt.Sprintf("w%d", id), Kind: kind}
		for _, wr := range writes {
			s.Writes = append(s.Writes, HexCmd([]string{string(wr)})[0])
		}
		id++
		runWireSeq(w, seqW, in, s)
	}
	msgs := []string{"", "a", "hello", "a\r\nb", "\x00", "\x00x\x00", "\xff\xfe", "+OK", "$5", strings.Repeat("z", 100)}
	var cmds [][]string
	cmds = append(cmds, []string{"PING"}, []string{"ping"}, []string{"PING", "a", "b"}, []string{"ECHO"})
	for _, m := range msgs {
		cmds = append(cmds, []string{"PING", m}, []string{"ECHO", m})
	}
	// 1. one command per write, three in a row
	for i, c := range cmds {
		emit("single", Encode(c), Encode(cmds[(i+3)%len(cmds)]), Encode([]string{"PING"}))
	}
	// 2. reply sizes around the 1 KB chunking boundary and large payloads
	for _, n := range []int{1000, 1012, 1013, 1014, 1015, 1016, 1017, 1018, 1019, 1020, 2036, 2037, 2038, 2039, 2040, 2041, 3060, 3061, 3062, 3063, 3064, 3065, 5000, 8100} {
		emit("size", Encode([]string{"ECHO", strings.Repeat("y", n)}), Encode([]string{"PING"}))
	}
	// 3. message sizes around the 8192-byte read chunk
	for _, total := range []int{8190, 8191, 8192, 8193, 8194, 16383, 16384, 16385, 24576, 9000, 20000} {
		if c := padTo(total); c != nil {
			emit("chunk", Encode(c), Encode([]string{"PING"}))
		}
	}
	// 4. pipelines: 2..5 commands in one write
	g := NewGen(seed)
	for k := 2; k <= 5; k++ {
		for r := 0; r < 8; r++ {
			var buf []byte
			for j := 0; j < k; j++ {
				buf = append(buf, Encode(cmds[g.R.Intn(len(cmds))])...)
			}
			emit("pipeline", buf, Encode([]string{"PING"}))
		}
	}
	// 5. one command split across two writes at every cut (short commands), selected cuts (long)
	for _, c := range [][]string{{"PING"}, {"ECHO", "hello"}, {"ECHO", "a\r\nb"}, {"PING", ""}} {
		enc := Encode(c)
		for cut := 1; cut < len(enc); cut++ {
			emit("split", enc[:cut], enc[cut:], Encode([]string{"PING"}))
		}
	}
	nr := 40
	if tier == "thorough" {
		nr = 600
	}
	for r := 0; r < nr; r++ {
		c := cmds[g.R.Intn(len(cmds))]
		enc := Encode(c)
		// three-way split
		if len(enc) > 4 {
			a := 1 + g.R.Intn(len(enc)-2)
			b2 := a + 1 + g.R.Intn(len(enc)-a-1)
			emit("split", enc[:a], enc[a:b2], enc[b2:], Encode([]string{"PING"}))
		}
	}
	// 6. malformed input: only "error or close, process alive" is required
	for _, bad := range []string{"*1\r\n$4\r\nPIN", "*2\r\n$4\r\nECHO\r\n$99999999\r\nab\r\n", "$-5\r\n", "*-1\r\n", "\r\n", "GARBAGE\r\n", "*1\r\n$4\r\nPINGXX\r\n", "*3\r\n$4\r\nECHO\r\n", "\x00\x00\x00", "*1\r\n:5\r\n", "*1\r\n+PING\r\n", "* 1\r\n$4\r\nPING\r\n", "*1\r\n$04\r\nPING\r\n", "PING\r\n", "ECHO hello world\r\n", "*99999999999999999999\r\n"} {
		emit("malformed", []byte(bad), Encode([]string{"PING"}))
	}
	for r := 0; r < nr; r++ {
		n := 1 + g.R.Intn(40)
		bs := make([]byte, n)
		for i := range bs {
			const alpha = "*$\r\n0123456789PINGECHO+-: \x00\xff"
			bs[i] = alpha[g.R.Intn(len(alpha))]
		}
		emit("malformed", bs, Encode([]string{"PING"}))
	}
	return nil
}
