package core

// Persistence suites (C02 append-only log, C09 rewrite, C03 snapshot round trip, C10 snapshot crash):
// a workload runs on an instance with a data directory; at every observation point of the file
// operations (internal/verifhook) and at every command boundary the bytes on disk are captured as a
// crash image; every image (and byte-level truncations of the file that grew last) is restored on a
// fresh instance and the restored keyspace is dumped. One X line per image.

import (
	"context"
	"bufio"
	"encoding/json"
	"fmt"
	"net"
	"os"
	"path/filepath"
	"sort"
	"strings"
	"time"

	"github.com/echovault/sugardb/internal"
	"github.com/echovault/sugardb/internal/verifhook"
	"github.com/echovault/sugardb/sugardb"
)

// POp is one step of a persistence history.
type POp struct {
	Conn     int      `json:"conn"`               // -1 embedded, >=0 registered connection
	Cmd      []string `json:"cmd,omitempty"`      // hex arguments; ["@rewrite"] / ["@snapshot"] call the engines directly
	Adv      int64    `json:"adv,omitempty"`      // advance the clock before the step
	Inject   []string `json:"inject,omitempty"`   // a write command (hex) executed by another caller ...
	InjectAt string   `json:"injectAt,omitempty"` // ... when the step reaches this observation point
}

// PSeq is a replayable persistence history.
type PSeq struct {
	ID         string `json:"id"`
	Mode       string `json:"mode"` // aof | snap
	Sync       string `json:"sync"`
	Ops        []POp  `json:"ops"`
	RestoreAdv int64  `json:"restoreAdv,omitempty"` // clock distance between the crash and the restart
	Torn       int    `json:"torn,omitempty"`       // byte-level truncations per growing write (0 = none, -1 = every offset)
	Redurable  int    `json:"redurable,omitempty"`  // after restoring the final image cut by this many bytes, write again and restart once more
	NoGuard    bool   `json:"noGuard,omitempty"`    // do not repair a stuck mutation flag before a rewrite / snapshot
	Auto       *AutoSpec `json:"auto,omitempty"`    // an automatic-snapshot trial instead of a history
}

type image struct {
	point    string
	op       int
	now      int64
	files    map[string][]byte // relative path -> content
	lo, hi   int               // admissible dataset indices into states
	copyIdx  int               // index of the state the latest preamble/snapshot encodes (-1 none)
	copyNow  int64
	lastSave int64 // LASTSAVE value the server reported at the last acknowledged boundary (snap mode)
	injected bool  // an injected write was acknowledged during the step in flight, before this image
	rewrites int   // rewrites / snapshots started so far
	stuck    bool  // stateMutationInProgress was set when the step began
	prevSnap int   // state index the last completed snapshot encodes (-1 none), its time
	prevMs   int64
	curSnap  int // state index of the snapshot being written (-1 none), its time
	curMs    int64
	opName   string // the step acknowledged last ("@snapshot", "@rewrite", … or "cmd") and how it ended
	opKind   string
	opText   string
}

func readTree(dir string) map[string][]byte {
	out := map[string][]byte{}
	filepath.Walk(dir, func(p string, info os.FileInfo, err error) error {
		if err != nil || info.IsDir() {
			if err == nil && info.IsDir() && p != dir {
				rel, _ := filepath.Rel(dir, p)
				out[rel+"/"] = nil
			}
			return nil
		}
		b, e := os.ReadFile(p)
		if e == nil {
			rel, _ := filepath.Rel(dir, p)
			out[rel] = b
		}
		return nil
	})
	return out
}

func writeTree(dir string, files map[string][]byte) error {
	names := make([]string, 0, len(files))
	for n := range files {
		names = append(names, n)
	}
	sort.Strings(names)
	for _, n := range names {
		if strings.HasSuffix(n, "/") {
			if err := os.MkdirAll(filepath.Join(dir, n), 0o755); err != nil {
				return err
			}
			continue
		}
		if err := os.MkdirAll(filepath.Dir(filepath.Join(dir, n)), 0o755); err != nil {
			return err
		}
		if err := os.WriteFile(filepath.Join(dir, n), files[n], 0o644); err != nil {
			return err
		}
	}
	return nil
}

func scratchBase() string {
	if b := os.Getenv("VH_TMP"); b != "" {
		os.MkdirAll(b, 0o755)
		return b
	}
	return os.TempDir()
}

// NewInstAt is NewInst with the virtual clock starting at ms.
func NewInstAt(o Opts, ms int64) (in *Inst, err error) {
	defer func() {
		if r := recover(); r != nil {
			in, err = nil, fmt.Errorf("panic: %v", r)
		}
	}()
	clk := NewVClock(ms)
	s, e := sugardb.NewSugarDB(sugardb.VerifWithClock(clk), sugardb.WithConfig(BaseConfig(o)))
	if e != nil {
		return nil, e
	}
	return &Inst{S: s, Clock: clk, Opts: o}, nil
}

// restoreImage starts a fresh instance on a copy of the image and dumps what it serves.
func restoreImage(files map[string][]byte, mode, sync string, now int64) (kind, dump string, lastSave int64) {
	dir, err := os.MkdirTemp(scratchBase(), "vhr")
	if err != nil {
		return "err", "", 0
	}
	defer os.RemoveAll(dir)
	if err := writeTree(dir, files); err != nil {
		return "err", "", 0
	}
	o := Opts{DataDir: dir, AOFSync: sync}
	if mode == "aof" {
		o.RestoreAOF = true
	} else {
		o.RestoreSnap = true
	}
	type res struct {
		in  *Inst
		err error
	}
	ch := make(chan res, 1)
	go func() {
		in, e := NewInstAt(o, now)
		ch <- res{in, e}
	}()
	var in *Inst
	select {
	case r := <-ch:
		if r.err != nil {
			if strings.HasPrefix(r.err.Error(), "panic:") {
				return "panic", "", 0
			}
			return "err", "", 0
		}
		in = r.in
	case <-time.After(5 * time.Second):
		return "hang", "", 0
	}
	defer in.S.ShutDown()
	d, err := in.Dump()
	if err != nil {
		return "undumpable", strings.ReplaceAll(err.Error(), " ", "_"), 0
	}
	ls := int64(0)
	if mode == "snap" {
		r := in.Exec(nil, []string{"lastsave"})
		if r.Kind == "ok" {
			fmt.Sscanf(r.Bytes, ":%d", &ls)
		}
	}
	return "ok", d, ls
}

// decodeState renders a JSON-encoded map[int]map[string]KeyData in the state-dump format.
func decodeState(b []byte, wrapped bool) string {
	if len(b) == 0 {
		return "-"
	}
	state := map[int]map[string]internal.KeyData{}
	if wrapped {
		so := new(internal.SnapshotObject)
		if err := json.Unmarshal(b, so); err != nil {
			return "!"
		}
		state = so.State
	} else if err := json.Unmarshal(b, &state); err != nil {
		return "!"
	}
	raw := sugardb.VerifRaw{Store: state, Volatile: map[int][]string{}, Conns: map[*net.Conn]internal.ConnectionInfo{}}
	d, err := DumpState(raw, func(*net.Conn) int { return 0 })
	if err != nil {
		return "!"
	}
	return d
}

type pRun struct {
	w       *bufio.Writer
	seq     PSeq
	in      *Inst
	dir     string
	states  []string
	acked   int
	images  []*image
	pending [][]*image // images waiting for the state after the command in flight, per nesting level
	curOp   int
	armed   bool
	copyIdx int
	copyNow int64
	lastSv  int64
	conns   []*net.Conn
	injDone bool
	failed  error
	pendCopyIdx int
	pendCopyNow int64
	injAcked    bool
	rewrites    int
	stuck       bool
	outerPoint  string
	prevSnap    int
	prevMs      int64
	curSnap     int
	curMs       int64
	opName      string
	opKind      string
	opText      string
}

func (p *pRun) conn(i int) *net.Conn {
	if i < 0 {
		return nil
	}
	for len(p.conns) <= i {
		p.conns = append(p.conns, p.in.NewConn())
	}
	return p.conns[i]
}

func (p *pRun) snap(point string) {
	sub := "aof"
	if p.seq.Mode == "snap" {
		sub = "snapshots"
	}
	files := map[string][]byte{}
	for n, b := range readTree(filepath.Join(p.dir, sub)) {
		files[sub+"/"+n] = b
	}
	im := &image{point: point, op: p.curOp, now: p.in.Clock.Ms(), files: files, lo: p.acked, hi: -1, copyIdx: p.copyIdx, copyNow: p.copyNow, lastSave: p.lastSv,
		injected: p.injAcked, rewrites: p.rewrites, stuck: p.stuck, prevSnap: p.prevSnap, prevMs: p.prevMs, curSnap: p.curSnap, curMs: p.curMs,
		opName: p.opName, opKind: p.opKind, opText: p.opText}
	p.images = append(p.images, im)
	if len(p.pending) > 0 {
		p.pending[len(p.pending)-1] = append(p.pending[len(p.pending)-1], im)
	} else {
		im.hi = p.acked
	}
}

// begin/end bracket one command (top level or injected): images taken in between may hold the
// dataset before it or after it.
func (p *pRun) begin() { p.pending = append(p.pending, nil) }
func (p *pRun) end() error {
	d, err := p.in.Dump()
	if err != nil {
		return err
	}
	p.states = append(p.states, d)
	p.acked = len(p.states) - 1
	top := p.pending[len(p.pending)-1]
	p.pending = p.pending[:len(p.pending)-1]
	for _, im := range top {
		im.hi = p.acked
	}
	if len(p.pending) > 0 {
		// images of the enclosing command taken before this inner one was acknowledged stay as they are
	}
	return nil
}

func (p *pRun) hook(name string) {
	if !p.armed {
		return
	}
	if strings.HasPrefix(name, "keyspace.") || strings.HasPrefix(name, "pubsub.") || strings.HasPrefix(name, "readmessage.") {
		return // nothing is written to disk between these points: the images of the file-operation points cover them
	}
	if name == "aof.preamble.state.copied" || name == "snapshot.take.state.copied" {
		p.pendCopyIdx, p.pendCopyNow = p.acked, p.in.Clock.Ms()
	}
	if name == "snapshot.take.state.copied" {
		p.curSnap, p.curMs = p.acked, p.in.Clock.Ms()
	}
	if name == "snapshot.take.end" {
		p.prevSnap, p.prevMs, p.curSnap = p.curSnap, p.curMs, -1
	}
	if name == "aof.preamble.write.done" || name == "snapshot.take.state.written" {
		p.copyIdx, p.copyNow = p.pendCopyIdx, p.pendCopyNow
	}
	if len(p.pending) >= 2 {
		// inside an injected write: keep the point of the enclosing step in front
		p.snap(p.outerPoint + ">" + name)
		return
	}
	p.outerPoint = name
	p.snap(name)
	op := p.seq.Ops[p.curOp]
	if !p.injDone && op.InjectAt == name && len(op.Inject) > 0 && len(p.pending) == 1 {
		p.injDone = true
		p.begin()
		res, err := p.in.S.VerifHandle(ctxBg(), Encode(UnhexCmd(op.Inject)), p.conn(1), false, false)
		_ = res
		_ = err
		if e := p.end(); e != nil {
			p.failed = e
		}
		p.injAcked = true
		p.stuck = p.in.S.VerifSnapshot().StateMutationInProgress
		p.snap(name + "+injected")
	}
}

func xfile(b []byte, ok bool) string {
	if !ok {
		return "-"
	}
	return X(string(b))
}

func (p *pRun) emit(id string, im *image, files map[string][]byte, point string) {
	kind, dump, ls := restoreImage(files, p.seq.Mode, p.seq.Sync, im.now+p.seq.RestoreAdv)
	var sb strings.Builder
	fmt.Fprintf(&sb, "X %s %s %s %d %d %s J %s W %d U %s", id, p.seq.Mode, point, im.now, im.now+p.seq.RestoreAdv, p.seq.Sync, b01(im.injected), im.rewrites, b01(im.stuck))
	on, ok := im.opName, im.opKind
	if on == "" {
		on, ok = "-", "-"
	}
	// does the live dataset at this instant hold a non-finite float (text +Inf / -Inf in the dump)?
	nf := false
	if im.lo >= 0 && im.lo < len(p.states) {
		nf = strings.Contains(p.states[im.lo], " f x2b496e66") || strings.Contains(p.states[im.lo], " f x2d496e66")
	}
	fmt.Fprintf(&sb, " O %s %s %s %s", on, ok, X(im.opText), b01(nf))
	if p.seq.Mode == "aof" {
		lg, lok := files["aof/log.aof"]
		pr, pok := files["aof/preamble.bin"]
		fmt.Fprintf(&sb, " L %s P %s Q %s", xfile(lg, lok), xfile(pr, pok), decodeState(pr, false))
	} else {
		mf, mok := files["snapshots/manifest.bin"]
		mdec, mms := 0, int64(0)
		if mok {
			var man struct {
				LatestSnapshotMilliseconds int64
				LatestSnapshotHash         [16]byte
			}
			if json.Unmarshal(mf, &man) == nil {
				mdec, mms = 1, man.LatestSnapshotMilliseconds
			}
		}
		fmt.Fprintf(&sb, " F %s %d %d", xfile(mf, mok), mdec, mms)
		// every snapshot directory: name, state file bytes decoded
		var names []string
		for n := range files {
			if strings.HasSuffix(n, "/state.bin") {
				names = append(names, n)
			}
		}
		sort.Strings(names)
		var dirs []string
		for n := range files {
			if strings.HasSuffix(n, "/") && n != "snapshots/" {
				dirs = append(dirs, strings.TrimSuffix(strings.TrimPrefix(n, "snapshots/"), "/"))
			}
		}
		sort.Strings(dirs)
		fmt.Fprintf(&sb, " G %d", len(dirs))
		for _, d := range dirs {
			b, ok := files["snapshots/"+d+"/state.bin"]
			ls := int64(0)
			if ok {
				so := new(internal.SnapshotObject)
				if json.Unmarshal(b, so) == nil {
					ls = so.LatestSnapshotMilliseconds
				}
			}
			fmt.Fprintf(&sb, " %s %d %d Q %s", d, len(b), ls, decodeState(b, true))
			_ = ok
		}
	}
	if im.copyIdx >= 0 {
		fmt.Fprintf(&sb, " Y %d S %s", im.copyNow, p.states[im.copyIdx])
	} else {
		sb.WriteString(" Y -")
	}
	hi := im.hi
	if hi < 0 {
		hi = len(p.states) - 1
	}
	if p.seq.Mode == "snap" {
		// admissible after a restart from snapshots: the last completed snapshot (or nothing), or the one being written
		idx, ms := []int{0}, []int64{0}
		if im.prevSnap >= 0 {
			idx, ms = []int{im.prevSnap}, []int64{im.prevMs}
		}
		if im.curSnap >= 0 {
			idx, ms = append(idx, im.curSnap), append(ms, im.curMs)
		}
		fmt.Fprintf(&sb, " A %d K %d", im.lastSave, len(ms))
		for _, m := range ms {
			fmt.Fprintf(&sb, " %d", m)
		}
		fmt.Fprintf(&sb, " N %d", len(idx))
		for _, k := range idx {
			fmt.Fprintf(&sb, " S %s", p.states[k])
		}
	} else {
		fmt.Fprintf(&sb, " A %d K 0 N %d", im.lastSave, hi-im.lo+1)
		for k := im.lo; k <= hi; k++ {
			fmt.Fprintf(&sb, " S %s", p.states[k])
		}
	}
	fmt.Fprintf(&sb, " R %s %d", kind, ls)
	if kind == "ok" {
		sb.WriteString(" S " + dump)
	}
	p.w.WriteString(sb.String())
	p.w.WriteByte('\n')
}

var activeRun *pRun

func init() {
	verifhook.SetHandler(func(name string) {
		if HookExtra != nil {
			HookExtra(name)
		}
		if HookSched != nil {
			HookSched(name)
		}
		if HookAuto != nil {
			HookAuto(name)
		}
		if r := activeRun; r != nil {
			r.hook(name)
		}
	})
}

// HookExtra lets other suites (wire) observe the same points.
var HookExtra func(name string)

func runPSeq(w *bufio.Writer, seqW *bufio.Writer, s PSeq) error {
	dir, err := os.MkdirTemp(scratchBase(), "vhp")
	if err != nil {
		return err
	}
	defer os.RemoveAll(dir)
	in, err := NewInst(Opts{DataDir: dir, AOFSync: s.Sync})
	if err != nil {
		return err
	}
	defer in.S.ShutDown()
	p := &pRun{w: w, seq: s, in: in, dir: dir, copyIdx: -1, prevSnap: -1, curSnap: -1}
	d0, err := in.Dump()
	if err != nil {
		return err
	}
	p.states = []string{d0}
	activeRun = p
	defer func() { activeRun = nil }()
	p.curOp = 0
	p.snap("start")
	for i, op := range s.Ops {
		if op.Adv != 0 {
			in.Clock.Advance(op.Adv)
		}
		if len(op.Cmd) == 0 {
			continue
		}
		cmd := UnhexCmd(op.Cmd)
		p.curOp, p.injDone = i, false // injAcked stays set: a write erased by a rewrite stays lost
		c := p.conn(op.Conn)
		engineOp := cmd[0] == "@rewrite" || cmd[0] == "@snapshot" || cmd[0] == "@snapshot-blocked"
		p.stuck = in.S.VerifSnapshot().StateMutationInProgress
		if engineOp && p.stuck && !s.NoGuard {
			// a failed write left stateMutationInProgress set (the state copy would spin for ever):
			// clear it with a successful write, which is part of the history like any other command
			p.begin()
			line, _, e := in.Transition(fmt.Sprintf("%s.%dg", s.ID, i), c, []string{"set", "guard", "1"})
			if e != nil {
				return e
			}
			if line != "" {
				w.WriteString(line)
				w.WriteByte('\n')
			}
			if err := p.end(); err != nil {
				return err
			}
			p.stuck = in.S.VerifSnapshot().StateMutationInProgress
		}
		if engineOp {
			p.rewrites++
		}
		p.begin()
		p.armed = true
		var r Result
		switch cmd[0] {
		case "@rewrite":
			r = execFn(in, func() error { return in.S.VerifRewriteAOF() })
		case "@snapshot":
			r = execFn(in, func() error { return in.S.VerifTakeSnapshotSync() })
		case "@snapshot-blocked":
			// the snapshot directory cannot be created: a regular file sits at its path
			blocker := filepath.Join(dir, "snapshots", fmt.Sprint(in.Clock.Ms()))
			os.MkdirAll(filepath.Dir(blocker), 0o755)
			os.WriteFile(blocker, []byte("x"), 0o644)
			r = execFn(in, func() error { return in.S.VerifTakeSnapshotSync() })
			os.Remove(blocker)
		default:
			// ordinary commands also go through the transition printer, so the model is compared on them
			line, res, e := in.Transition(fmt.Sprintf("%s.%d", s.ID, i), c, cmd)
			if e != nil {
				p.armed = false
				return e
			}
			r = res
			if line != "" {
				w.WriteString(line)
				w.WriteByte('\n')
			}
		}
		p.armed = false
		p.opName, p.opKind, p.opText = "cmd", r.Kind, ""
		if engineOp {
			p.opName, p.opText = cmd[0], r.Bytes
		}
		if r.Kind == "hang" {
			if engineOp {
				// report it as an image of its own: the server no longer answers, nothing can be restored from it
				fmt.Fprintf(w, "X %s.%d.hang %s hang %d %d %s J 0 W %d U %s O %s hang x 0\n", s.ID, i, s.Mode, in.Clock.Ms(), in.Clock.Ms(), s.Sync, p.rewrites, b01(p.stuck), cmd[0])
			} else {
				fmt.Fprintf(w, "H %s.%d\n", s.ID, i)
			}
			break
		}
		if p.seq.Mode == "snap" {
			lr := in.Exec(nil, []string{"lastsave"})
			if lr.Kind == "ok" {
				fmt.Sscanf(lr.Bytes, ":%d", &p.lastSv)
			}
		}
		if err := p.end(); err != nil {
			fmt.Fprintf(w, "U %s.%d %s\n", s.ID, i, strings.ReplaceAll(err.Error(), " ", "_"))
			break
		}
		if p.failed != nil {
			fmt.Fprintf(w, "U %s.%d %s\n", s.ID, i, strings.ReplaceAll(p.failed.Error(), " ", "_"))
			break
		}
		p.snap("boundary")
	}
	activeRun = nil
	// restore every image; torn variants of the file that grew since the previous image
	var prev map[string][]byte
	for k, im := range p.images {
		id := fmt.Sprintf("%s.%d.i%d", s.ID, im.op, k)
		p.emit(id, im, im.files, im.point)
		if s.Torn != 0 && prev != nil {
			for name, b := range im.files {
				pb := prev[name]
				if strings.HasSuffix(name, "/") || len(b) <= len(pb) || string(b[:len(pb)]) != string(pb) {
					continue
				}
				offs := []int{}
				if s.Torn < 0 {
					for o := len(pb) + 1; o < len(b); o++ {
						offs = append(offs, o)
					}
				} else {
					step := (len(b) - len(pb)) / (s.Torn + 1)
					if step < 1 {
						step = 1
					}
					for o := len(pb) + step; o < len(b) && len(offs) < s.Torn; o += step {
						offs = append(offs, o)
					}
				}
				for _, o := range offs {
					cut := map[string][]byte{}
					for n2, b2 := range im.files {
						cut[n2] = b2
					}
					cut[name] = b[:o]
					// a torn write is a crash before the point was reached: admissible datasets as at the previous image
					tim := *im
					tim.lo = p.images[k-1].lo
					p.emit(fmt.Sprintf("%s.t%d", id, o), &tim, cut, im.point+"~torn")
				}
			}
		}
		prev = im.files
	}
	if s.Redurable > 0 && len(p.images) > 0 {
		p.redurable(s)
	}
	if s.Mode == "aof" && len(p.images) > 0 {
		// clean stop, restart, go on (a rewrite first / plain writes in database 0), stop, restart again
		p.recontinue(s, true)
		p.recontinue(s, false)
	}
	if s.Mode == "snap" {
		// crash inside a snapshot, restart, write, snapshot again, restart again: the directory must stay usable
		n := 0
		for k, im := range p.images {
			if !strings.HasPrefix(im.point, "snapshot.take.") || n >= 24 {
				continue
			}
			p.recrash(s, k, im)
			n++
		}
	}
	if seqW != nil {
		j, _ := json.Marshal(s)
		seqW.Write(j)
		seqW.WriteByte('\n')
	}
	return nil
}

// redurable: crash with a torn last record, restart, write again (acknowledged), restart again.
func (p *pRun) redurable(s PSeq) {
	last := p.images[len(p.images)-1]
	lg, ok := last.files["aof/log.aof"]
	if !ok || len(lg) <= s.Redurable {
		return
	}
	files := map[string][]byte{}
	for n, b := range last.files {
		files[n] = b
	}
	files["aof/log.aof"] = lg[:len(lg)-s.Redurable]
	dir, err := os.MkdirTemp(scratchBase(), "vhd")
	if err != nil {
		return
	}
	defer os.RemoveAll(dir)
	if writeTree(dir, files) != nil {
		return
	}
	in, err := NewInstAt(Opts{DataDir: dir, AOFSync: s.Sync, RestoreAOF: true}, last.now)
	if err != nil {
		return
	}
	r1 := in.Exec(nil, []string{"set", "after-crash", "1"})
	r2 := in.Exec(nil, []string{"rpush", "after-crash-list", "x"})
	d, derr := in.Dump()
	in.S.ShutDown()
	if derr != nil || r1.Kind != "ok" || r2.Kind != "ok" {
		return
	}
	sub := readTree(filepath.Join(dir, "aof"))
	files2 := map[string][]byte{}
	for n, b := range sub {
		files2["aof/"+n] = b
	}
	q := &pRun{w: p.w, seq: s, states: []string{d}, prevSnap: -1, curSnap: -1}
	q.seq.RestoreAdv = 0
	im := &image{point: "redurable", op: last.op, now: last.now, files: files2, lo: 0, hi: 0, copyIdx: -1, prevSnap: -1, curSnap: -1}
	q.emit(fmt.Sprintf("%s.%d.redurable", s.ID, last.op), im, files2, "redurable")
}

// recontinue: the server was stopped after the last step of the history; a new process restores the log, carries on
// (optionally a rewrite before anything else, then writes issued by the embedded caller, i.e. in database 0) and is
// stopped; what a third process restores must be the dataset the second one held.
func (p *pRun) recontinue(s PSeq, rewriteFirst bool) {
	last := p.images[len(p.images)-1]
	if _, ok := last.files["aof/log.aof"]; !ok {
		return
	}
	dir, err := os.MkdirTemp(scratchBase(), "vhr")
	if err != nil {
		return
	}
	defer os.RemoveAll(dir)
	if writeTree(dir, last.files) != nil {
		return
	}
	in, err := NewInstAt(Opts{DataDir: dir, AOFSync: s.Sync, RestoreAOF: true}, last.now)
	if err != nil {
		return
	}
	tag := "recontinue"
	dcopy, copyNow := "", int64(0)
	if rewriteFirst {
		tag = "recontinue-rewrite"
		// the dataset the preamble of this rewrite encodes: what the restarted process serves before anything else
		var cerr error
		if dcopy, cerr = in.Dump(); cerr != nil {
			in.S.ShutDown()
			return
		}
		copyNow = in.Clock.Ms()
		if r := execFn(in, func() error { return in.S.VerifRewriteAOF() }); r.Kind != "ok" {
			in.S.ShutDown()
			return
		}
	}
	r1 := in.Exec(nil, []string{"set", "after-restart", "1"})
	r2 := in.Exec(nil, []string{"append", "after-restart-text", "ab"})
	d, derr := in.Dump()
	in.S.ShutDown()
	if derr != nil || r1.Kind != "ok" || r2.Kind != "ok" {
		return
	}
	files2 := map[string][]byte{}
	for n, b := range readTree(filepath.Join(dir, "aof")) {
		files2["aof/"+n] = b
	}
	q := &pRun{w: p.w, seq: s, states: []string{d}, prevSnap: -1, curSnap: -1}
	q.seq.RestoreAdv = 0
	im := &image{point: "boundary", op: last.op, now: last.now, files: files2, lo: 0, hi: 0, copyIdx: -1, prevSnap: -1, curSnap: -1, rewrites: last.rewrites}
	if rewriteFirst {
		im.rewrites++
		q.states = append(q.states, dcopy)
		im.copyIdx, im.copyNow = 1, copyNow
	}
	q.emit(fmt.Sprintf("%s.%d.%s", s.ID, last.op, tag), im, files2, "boundary")
}

// recrash: the server died at this point of a snapshot; it is restarted on what is on disk, takes a write and
// a new snapshot, and is restarted once more.
func (p *pRun) recrash(s PSeq, k int, im *image) {
	dir, err := os.MkdirTemp(scratchBase(), "vhc")
	if err != nil {
		return
	}
	defer os.RemoveAll(dir)
	if writeTree(dir, im.files) != nil {
		return
	}
	in, err := NewInstAt(Opts{DataDir: dir, RestoreSnap: true}, im.now+1000)
	if err != nil {
		return
	}
	r1 := in.Exec(nil, []string{"set", "after-crash", "v"})
	in.Clock.Advance(10)
	ms := in.Clock.Ms()
	r2 := execFn(in, func() error { return in.S.VerifTakeSnapshotSync() })
	d, derr := in.Dump()
	in.S.ShutDown()
	if derr != nil || r1.Kind != "ok" || r2.Kind == "hang" {
		return
	}
	files2 := map[string][]byte{}
	for n, b := range readTree(filepath.Join(dir, "snapshots")) {
		files2["snapshots/"+n] = b
	}
	q := &pRun{w: p.w, seq: s, states: []string{d}, prevSnap: 0, prevMs: ms, curSnap: -1, copyIdx: -1}
	q.seq.RestoreAdv = 0
	im2 := &image{point: "boundary", op: im.op, now: ms + 1000, files: files2, lo: 0, hi: 0, copyIdx: -1, prevSnap: 0, prevMs: ms, curSnap: -1,
		opName: "@snapshot", opKind: r2.Kind, opText: r2.Bytes, lastSave: ms}
	if r2.Kind != "ok" {
		im2.lastSave = 0
	}
	q.emit(fmt.Sprintf("%s.%d.i%d.recrash", s.ID, im.op, k), im2, files2, "boundary")
}

func execFn(in *Inst, f func() error) Result {
	done := make(chan Result, 1)
	go func() {
		defer func() {
			if r := recover(); r != nil {
				done <- Result{"panic", fmt.Sprint(r)}
			}
		}()
		if err := f(); err != nil {
			done <- Result{"err", err.Error()}
			return
		}
		done <- Result{"ok", ""}
	}()
	select {
	case r := <-done:
		return r
	case <-time.After(3 * time.Second):
		in.Dead = true
		return Result{"hang", ""}
	}
}

func ctxBg() context.Context { return context.Background() }
