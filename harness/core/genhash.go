package core

var HashFields = []string{"f1", "f2", "f3", "", "f\r\n", "\x00\xff"}

func (g *Gen) HashCommand() []string {
	k := func() string { return g.Pick(Keys) }
	f := func() string { return g.Pick(HashFields) }
	v := func() string { return g.Pick(Values) }
	fields := func() []string {
		n := 1 + g.R.Intn(3)
		var o []string
		for i := 0; i < n; i++ {
			o = append(o, f())
		}
		return o
	}
	switch g.R.Intn(24) {
	case 0, 1, 2, 3:
		n := 1 + g.R.Intn(3)
		c := []string{g.Pick([]string{"hset", "hset", "HSET", "hsetnx"}), k()}
		for i := 0; i < n; i++ {
			c = append(c, f(), v())
		}
		if g.Chance(0.08) {
			c = append(c, f())
		}
		return c
	case 4, 5:
		return append([]string{g.Pick([]string{"hget", "hmget"}), k()}, fields()...)
	case 6:
		return append([]string{"hstrlen", k()}, fields()...)
	case 7:
		return []string{"hvals", k()}
	case 8:
		return []string{"hkeys", k()}
	case 9, 10:
		return []string{"hgetall", k()}
	case 11:
		return []string{"hlen", k()}
	case 12:
		return []string{"hexists", k(), f()}
	case 13, 14:
		return append([]string{"hdel", k()}, fields()...)
	case 15, 16:
		return []string{g.Pick([]string{"hincrby", "HINCRBY"}), k(), f(), g.Pick(SmallInts)}
	case 17, 18:
		return []string{"hincrbyfloat", k(), f(), g.Pick(FloatArgs)}
	case 19, 20, 21:
		c := []string{"hrandfield", k()}
		if g.Chance(0.8) {
			c = append(c, g.Pick([]string{"0", "1", "2", "3", "-1", "-2", "-5", "10", "x"}))
			if g.Chance(0.4) {
				c = append(c, g.Pick([]string{"withvalues", "WITHVALUES", "nope"}))
			}
		}
		return c
	default:
		name := g.Pick([]string{"hset", "hget", "hdel", "hlen", "hincrby", "hexists", "hgetall", "hrandfield", "hstrlen", "hvals", "hkeys", "hincrbyfloat", "hsetnx", "hmget"})
		n := g.R.Intn(6)
		c := []string{name}
		for i := 0; i < n; i++ {
			c = append(c, g.Pick([]string{"k1", "1", "a", ""}))
		}
		return c
	}
}

func hashAlphabet() [][]string {
	return [][]string{
		{"hset", "k1", "f1", "v1"}, {"hset", "k1", "f1", "007", "f2", "1.50"}, {"hset", "k1", "f3", ""}, {"hset", "k1", "f1", "x", "f1", "y"},
		{"hsetnx", "k1", "f1", "new", "f9", "n9"}, {"hset", "k2", "f", "v"}, {"hget", "k1", "f1"}, {"hget", "k1", "f1", "nope", "f2"}, {"hmget", "k1", "f1", "nope"},
		{"hmget", "k9", "f1"}, {"hstrlen", "k1", "f1", "f2", "nope"}, {"hvals", "k1"}, {"hkeys", "k1"}, {"hgetall", "k1"}, {"hgetall", "k2"}, {"hlen", "k1"},
		{"hexists", "k1", "f1"}, {"hexists", "k1", "nope"}, {"hdel", "k1", "f1"}, {"hdel", "k1", "f1", "f1", "f2"}, {"hdel", "k1", "nope"},
		{"hincrby", "k1", "f2", "5"}, {"hincrby", "k1", "n", "-3"}, {"hincrby", "k1", "f1", "1"}, {"hincrby", "k9", "n", "9223372036854775807"},
		{"hincrbyfloat", "k1", "f2", "0.25"}, {"hincrbyfloat", "k1", "n", "1.5"}, {"hincrbyfloat", "k9", "n", "3"},
		{"hrandfield", "k1"}, {"hrandfield", "k1", "2"}, {"hrandfield", "k1", "-3"}, {"hrandfield", "k1", "10", "withvalues"}, {"hrandfield", "k1", "1", "withvalues"},
		{"del", "k1"}, {"set", "k1", "v"}, {"type", "k1"}, {"expire", "k1", "1"}, {"ttl", "k1"}, {"get", "k1"},
	}
}

func hashBases() [][]Op {
	mk := func(cmds ...[]string) []Op {
		var o []Op
		for _, c := range cmds {
			o = append(o, Op{Conn: -1, Cmd: HexCmd(c)})
		}
		return o
	}
	return [][]Op{
		mk(),
		mk([]string{"hset", "k1", "f1", "a", "f2", "10", "f3", "2.5"}, []string{"set", "k2", "str"}),
		mk([]string{"hset", "k1", "f1", "a", "f2", "b"}, []string{"pexpire", "k1", "1000"}, []string{"rpush", "k2", "x"}),
	}
}

// HashFamily is the hash-command suite.
func HashFamily() Family {
	return Family{Name: "hash", Alphabet: hashAlphabet(), Bases: hashBases(), AdvBases: []int{2},
		Command: func(g *Gen, now int64) []string { return g.HashCommand() }, Scripts: hashScripts()}
}

// hashScripts: deterministic histories kept as regression tests of repaired defects.
func hashScripts() [][][]string {
	return [][][]string{
		// HDEL leaves a hash without fields; HRANDFIELD on it answers the empty array for every count
		// (was: a negative count panicked in rand.Intn(0))
		{{"hset", "k1", "f1", "a", "f2", "b"}, {"hdel", "k1", "f1", "f1", "f2"}, {"hrandfield", "k1", "-3"}, {"hrandfield", "k1", "-1", "withvalues"},
			{"hrandfield", "k1", "2"}, {"hrandfield", "k1"}, {"hlen", "k1"}},
		// HSET on an existing hash answers the number of fields it names (was: the size of the hash afterwards)
		{{"hset", "k1", "f1", "v1"}, {"hset", "k1", "f3", ""}, {"hset", "k1", "f1", "x", "f2", "y", "f3", "z"}, {"hset", "k1", "f1", "a", "f1", "b"}, {"hlen", "k1"}},
		// HINCRBY past the int64 boundary fails and leaves the field (was: the sum wrapped around)
		{{"hincrby", "k9", "n", "9223372036854775807"}, {"hincrby", "k9", "n", "9223372036854775807"}, {"hget", "k9", "n"}, {"hincrby", "k9", "n", "1"},
			{"hincrby", "k9", "n", "-9223372036854775808"}, {"hincrby", "k9", "n", "-9223372036854775808"}, {"hincrby", "k9", "n", "-1"}, {"hgetall", "k9"}},
	}
}
