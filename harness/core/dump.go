package core

import (
	"math"
	"net"
	"encoding/hex"
	"fmt"
	"sort"
	"strconv"
	"strings"
	"time"

	"github.com/echovault/sugardb/internal"
	"github.com/echovault/sugardb/internal/modules/set"
	"github.com/echovault/sugardb/internal/modules/sorted_set"
	"github.com/echovault/sugardb/sugardb"
)

// X renders bytes in the transcript's hex form.
func X(s string) string { return "x" + hex.EncodeToString([]byte(s)) }

func fmtFloat(f float64) string { return strconv.FormatFloat(f, 'g', -1, 64) }

func dumpScalar(sb *strings.Builder, v interface{}) error {
	switch t := v.(type) {
	case string:
		fmt.Fprintf(sb, " s %s", X(t))
	case int:
		fmt.Fprintf(sb, " i %d", t)
	case float64:
		if t != t {
			return fmt.Errorf("NaN value")
		}
		fmt.Fprintf(sb, " f %s", X(fmtFloat(t)))
	default:
		return fmt.Errorf("unsupported scalar %T", v)
	}
	return nil
}

// oidOf gives the pointer-sharing class of a set / sorted set value (0 = held by one key only).
type oidMap map[interface{}]int

func dumpVal(sb *strings.Builder, v interface{}, oids oidMap) error {
	switch t := v.(type) {
	case nil:
		sb.WriteString(" n")
	case string, int, float64:
		return dumpScalar(sb, v)
	case []string:
		fmt.Fprintf(sb, " L %d", len(t))
		for _, e := range t {
			sb.WriteString(" " + X(e))
		}
	case []interface{}:
		fmt.Fprintf(sb, " A %d", len(t))
		for _, e := range t {
			es, ok := e.(string)
			if !ok {
				return fmt.Errorf("unsupported list element %T", e)
			}
			sb.WriteString(" " + X(es))
		}
	case map[string]interface{}:
		fs := make([]string, 0, len(t))
		for f := range t {
			fs = append(fs, f)
		}
		sort.Strings(fs)
		fmt.Fprintf(sb, " H %d", len(fs))
		for _, f := range fs {
			sb.WriteString(" " + X(f))
			if err := dumpScalar(sb, t[f]); err != nil {
				return err
			}
		}
	case *set.Set:
		ms := t.GetAll()
		sort.Strings(ms)
		fmt.Fprintf(sb, " S %d %d", oids[t], len(ms))
		for _, m := range ms {
			sb.WriteString(" " + X(m))
		}
	case *sorted_set.SortedSet:
		ms := t.GetAll()
		sort.Slice(ms, func(i, j int) bool { return ms[i].Value < ms[j].Value })
		fmt.Fprintf(sb, " Z %d %d", oids[t], len(ms))
		for _, m := range ms {
			if m.Score != m.Score {
				return fmt.Errorf("NaN value")
			}
			if m.Score == 0 && math.Signbit(float64(m.Score)) {
				// IEEE negative zero (0 * -1): outside the exact-decimal score domain of the model
				return fmt.Errorf("negative zero score")
			}
			fmt.Fprintf(sb, " %s %s", X(string(m.Value)), X(fmtFloat(float64(m.Score))))
		}
	default:
		return fmt.Errorf("unsupported value %T", v)
	}
	return nil
}

// DumpState renders the keyspace bookkeeping canonically (maps sorted).
func DumpState(raw sugardb.VerifRaw, connID func(*net.Conn) int) (string, error) {
	var sb strings.Builder
	idx := make([]int, 0, len(raw.Store))
	for db, m := range raw.Store {
		if m != nil {
			idx = append(idx, db)
		}
	}
	sort.Ints(idx)
	// pointer classes: objects referenced by two or more keys, numbered by first occurrence
	refs := map[interface{}]int{}
	var order []interface{}
	for _, db := range idx {
		keys := make([]string, 0, len(raw.Store[db]))
		for k := range raw.Store[db] {
			keys = append(keys, k)
		}
		sort.Strings(keys)
		for _, k := range keys {
			switch t := raw.Store[db][k].Value.(type) {
			case *set.Set, *sorted_set.SortedSet:
				if refs[t] == 0 {
					order = append(order, t)
				}
				refs[t]++
			}
		}
	}
	oids := oidMap{}
	n := 0
	for _, o := range order {
		if refs[o] >= 2 {
			n++
			oids[o] = n
		}
	}
	fmt.Fprintf(&sb, "M %d N %d", raw.MemUsed, len(idx))
	for _, db := range idx {
		m := raw.Store[db]
		keys := make([]string, 0, len(m))
		for k := range m {
			keys = append(keys, k)
		}
		sort.Strings(keys)
		fmt.Fprintf(&sb, " D %d K %d", db, len(keys))
		for _, k := range keys {
			kd := m[k]
			sb.WriteString(" " + X(k))
			if kd.ExpireAt == (time.Time{}) {
				sb.WriteString(" -")
			} else {
				if kd.ExpireAt.Nanosecond()%1000000 != 0 {
					return "", fmt.Errorf("sub-millisecond deadline on %q", k)
				}
				fmt.Fprintf(&sb, " %d", kd.ExpireAt.UnixMilli())
			}
			if err := dumpVal(&sb, kd.Value, oids); err != nil {
				return "", err
			}
		}
		vol := raw.Volatile[db]
		fmt.Fprintf(&sb, " V %d", len(vol))
		for _, k := range vol {
			sb.WriteString(" " + X(k))
		}
	}
	// connection table: id -> selected database (id 0 = the entry keyed by the nil connection)
	type cd struct{ id, db int }
	var cs []cd
	for c, info := range raw.Conns {
		cs = append(cs, cd{connID(c), info.Database})
	}
	sort.Slice(cs, func(i, j int) bool { return cs[i].id < cs[j].id })
	fmt.Fprintf(&sb, " C %d", len(cs))
	for _, c := range cs {
		fmt.Fprintf(&sb, " %d %d", c.id, c.db)
	}
	fmt.Fprintf(&sb, " B %d", raw.Embedded.Database)
	return sb.String(), nil
}

var _ = internal.KeyData{}
