package core

import (
	"context"
	"fmt"
	"io"
	"log"
	"net"
	"strings"
	"time"

	"github.com/echovault/sugardb/internal"
	"github.com/echovault/sugardb/internal/config"
	"github.com/echovault/sugardb/internal/constants"
	"github.com/echovault/sugardb/sugardb"
)

func init() { log.SetOutput(io.Discard) }

// Opts selects the configuration of a fresh instance.
type Opts struct {
	DataDir        string
	MaxMemory      uint64
	Policy         string
	RestoreAOF     bool
	RestoreSnap    bool
	AOFSync        string
	RequirePass    bool
	Password       string
	AclConfig      string
	SnapThreshold  uint64
	SnapInterval   time.Duration
	EvictionSample uint
}

// BaseConfig builds a standalone configuration without touching the network.
func BaseConfig(o Opts) config.Config {
	pol := o.Policy
	if pol == "" {
		pol = constants.NoEviction
	}
	sync := o.AOFSync
	if sync == "" {
		sync = "no"
	}
	if o.SnapThreshold == 0 {
		o.SnapThreshold = 1 << 40
	}
	if o.SnapInterval == 0 {
		o.SnapInterval = 1000 * time.Hour
	}
	if o.EvictionSample == 0 {
		o.EvictionSample = 20
	}
	return config.Config{
		CertKeyPairs:      [][]string{},
		ClientCAs:         []string{},
		Port:              7480,
		BindAddr:          "localhost",
		DataDir:           o.DataDir,
		AclConfig:         o.AclConfig,
		RequirePass:       o.RequirePass,
		Password:          o.Password,
		SnapShotThreshold: o.SnapThreshold,
		SnapshotInterval:  o.SnapInterval,
		RestoreAOF:        o.RestoreAOF,
		RestoreSnapshot:   o.RestoreSnap,
		AOFSyncStrategy:   sync,
		MaxMemory:         o.MaxMemory,
		EvictionPolicy:    pol,
		EvictionSample:    o.EvictionSample,
		EvictionInterval:  1000 * time.Hour,
		Modules:           []string{},
	}
}

// Inst is one server under test with its virtual clock.
type Inst struct {
	S     *sugardb.SugarDB
	Clock *VClock
	Opts  Opts
	Conns []*net.Conn
	Dead  bool // a command hung; the instance must not be reused
}

const StartMs = int64(1700000000000)

func NewInst(o Opts) (*Inst, error) {
	clk := NewVClock(StartMs)
	s, err := sugardb.NewSugarDB(sugardb.VerifWithClock(clk), sugardb.WithConfig(BaseConfig(o)))
	if err != nil {
		return nil, err
	}
	return &Inst{S: s, Clock: clk, Opts: o}, nil
}

// NewConn registers a pipe end as a TCP client (no read loop).
func (in *Inst) NewConn() *net.Conn {
	a, _ := net.Pipe()
	c := net.Conn(a)
	in.S.VerifRegisterConn(&c)
	in.Conns = append(in.Conns, &c)
	return &c
}

func Encode(cmd []string) []byte {
	var sb strings.Builder
	fmt.Fprintf(&sb, "*%d\r\n", len(cmd))
	for _, t := range cmd {
		fmt.Fprintf(&sb, "$%d\r\n%s\r\n", len(t), t)
	}
	return []byte(sb.String())
}

// Result of one command.
type Result struct {
	Kind  string // ok | err | panic | hang
	Bytes string // reply bytes, error text, or panic text
}

// Exec runs one command through handleCommand. conn == nil means the embedded caller.
func (in *Inst) Exec(conn *net.Conn, cmd []string) Result {
	done := make(chan Result, 1)
	go func() {
		defer func() {
			if r := recover(); r != nil {
				done <- Result{"panic", fmt.Sprint(r)}
			}
		}()
		res, err := in.S.VerifHandle(context.Background(), Encode(cmd), conn, false, conn == nil)
		if err != nil {
			done <- Result{"err", err.Error()}
			return
		}
		done <- Result{"ok", string(res)}
	}()
	select {
	case r := <-done:
		return r
	case <-time.After(3 * time.Second):
		in.Dead = true
		return Result{"hang", ""}
	}
}

// ConnID numbers registered connections from 1; the nil connection is 0.
func (in *Inst) ConnID(c *net.Conn) int {
	if c == nil {
		return 0
	}
	for i, x := range in.Conns {
		if x == c {
			return i + 1
		}
	}
	return 999
}

func (in *Inst) Dump() (string, error) { return DumpState(in.S.VerifSnapshot(), in.ConnID) }

// DbOf returns the database a caller is on.
func (in *Inst) DbOf(conn *net.Conn) int {
	raw := in.S.VerifSnapshot()
	if conn == nil {
		return raw.Embedded.Database
	}
	return raw.Conns[conn].Database
}

// Transition executes cmd and renders the transcript line.
func (in *Inst) Transition(seq string, conn *net.Conn, cmd []string) (string, Result, error) {
	pre, err := in.Dump()
	if err != nil {
		// state outside the dump's domain (e.g. a deadline wrapped by time.Duration overflow):
		// still execute, but the transition is reported as not comparable
		r := in.Exec(conn, cmd)
		return fmt.Sprintf("U %s %s", seq, strings.ReplaceAll(err.Error(), " ", "_")), r, nil
	}
	db := in.DbOf(conn)
	now := in.Clock.Ms()
	r := in.Exec(conn, cmd)
	if r.Kind == "hang" {
		return "", r, nil
	}
	post, err := in.Dump()
	if err != nil {
		return fmt.Sprintf("U %s %s", seq, strings.ReplaceAll(err.Error(), " ", "_")), r, nil
	}
	pol := in.Opts.Policy
	if pol == "" {
		pol = constants.NoEviction
	}
	var sb strings.Builder
	connTok := "e"
	if conn != nil {
		connTok = fmt.Sprint(in.ConnID(conn))
	}
	fmt.Fprintf(&sb, "T %s %d %d %s %d %s C %d", seq, now, db, connTok, in.Opts.MaxMemory, pol, len(cmd))
	for _, a := range cmd {
		sb.WriteString(" " + X(a))
	}
	payload := r.Bytes
	if r.Kind == "panic" {
		payload = ""
	}
	fmt.Fprintf(&sb, " R %s %s S %s E %s", r.Kind, X(payload), pre, post)
	sb.WriteString(declaredFootprint(cmd))
	return sb.String(), r, nil
}

var keyFuncs map[string]internal.KeyExtractionFunc

// declaredFootprint renders what the command's key function declares to the authorization gate for this vector:
// " KF ok r <n> <keys> w <n> <keys>", " KF err" when it refuses the vector, "" for commands without one
// (sub-command tables are not looked at).
func declaredFootprint(cmd []string) (out string) {
	if keyFuncs == nil {
		keyFuncs = map[string]internal.KeyExtractionFunc{}
		for _, c := range AllCommands() {
			if c.KeyExtractionFunc != nil && len(c.SubCommands) == 0 {
				keyFuncs[strings.ToLower(c.Command)] = c.KeyExtractionFunc
			}
		}
	}
	if len(cmd) == 0 {
		return ""
	}
	f, ok := keyFuncs[strings.ToLower(cmd[0])]
	if !ok {
		return ""
	}
	defer func() {
		if recover() != nil {
			out = " KF err"
		}
	}()
	res, err := f(append([]string{}, cmd...))
	if err != nil {
		return " KF err"
	}
	var sb strings.Builder
	fmt.Fprintf(&sb, " KF ok r %d", len(res.ReadKeys))
	for _, k := range res.ReadKeys {
		sb.WriteString(" " + X(k))
	}
	fmt.Fprintf(&sb, " w %d", len(res.WriteKeys))
	for _, k := range res.WriteKeys {
		sb.WriteString(" " + X(k))
	}
	return sb.String()
}
