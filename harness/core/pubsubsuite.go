package core

// Pub/Sub suite (property C18). Real connections are synchronous net.Pipe pairs whose server end is handed to
// handleCommand (registered TCP clients, or unregistered ends used the way sugardb/api_pubsub.go uses them for
// embedded subscribers). Everything the server pushes on a connection (subscribe confirmations written by
// PubSub.Subscribe, messages written by the delivery goroutines of Channel.Start) is collected on the client end.
//
// Quiescence is decided by counters at the observation points of internal/modules/pubsub/channel.go, never by
// sleeping: enqueued == dispatched, spawned writers == finished writers, bytes written == bytes collected.
// The same points let the harness force delivery schedules (hold the dispatchers; release writers in reverse).
//
// One transcript line per block:
//   P <seq> <mode> <n> { <conn> <argc> <xarg>* <kind> <xpayload> }*n S <table> E <table> V <nconns> { <id> <xstream> }*
//   table := <nchans> { <xname> <pat> <nsubs> <connId>* }*        (entries in table order, subscriber ids ascending)
//   G <seq> <xpattern> <xname> <0|1|p>                             (gobwas/glob on one pair; p = compile panic)

import (
	"bufio"
	"context"
	"encoding/json"
	"fmt"
	"net"
	"os"
	"sort"
	"strings"
	"sync"
	"sync/atomic"
	"time"

	"github.com/gobwas/glob"
)

type psHookState struct {
	enq, dbeg, dend, spawn, wbeg, wend atomic.Int64
	mu                                 sync.Mutex
	cond                               *sync.Cond
	hold                               bool
	permits                            int
	holdWriters                        bool
	parked                             []chan struct{}
}

var psH = func() *psHookState { h := &psHookState{}; h.cond = sync.NewCond(&h.mu); return h }()

// psPoint is the handler of the pub/sub observation points.
func psPoint(name string) {
	h := psH
	switch name {
	case "pubsub.publish.enqueue":
		h.enq.Add(1)
	case "pubsub.dispatch.begin":
		h.mu.Lock()
		h.dbeg.Add(1)
		for h.hold && h.permits == 0 {
			h.cond.Wait()
		}
		if h.hold {
			h.permits--
		}
		h.mu.Unlock()
	case "pubsub.write.spawn":
		h.spawn.Add(1)
	case "pubsub.write.begin":
		h.mu.Lock()
		if h.holdWriters {
			ch := make(chan struct{})
			h.parked = append(h.parked, ch)
			h.wbeg.Add(1)
			h.mu.Unlock()
			<-ch
		} else {
			h.wbeg.Add(1)
			h.mu.Unlock()
		}
	case "pubsub.write.end":
		h.wend.Add(1)
	case "pubsub.dispatch.end":
		h.dend.Add(1)
	}
}

// countConn counts the bytes of completed writes of the server end.
type countConn struct {
	net.Conn
	n *atomic.Int64
}

func (c countConn) Write(b []byte) (int, error) {
	n, err := c.Conn.Write(b)
	c.n.Add(int64(n))
	return n, err
}

type psConn struct {
	id      int
	ptr     *net.Conn // what the server sees
	cli     net.Conn
	written atomic.Int64
	nread   atomic.Int64
	mu      sync.Mutex
	buf     []byte
}

func (c *psConn) collect() {
	tmp := make([]byte, 65536)
	for {
		n, err := c.cli.Read(tmp)
		if n > 0 {
			c.mu.Lock()
			c.buf = append(c.buf, tmp[:n]...)
			c.mu.Unlock()
			c.nread.Add(int64(n))
		}
		if err != nil {
			return
		}
	}
}

func (c *psConn) size() int {
	c.mu.Lock()
	defer c.mu.Unlock()
	return len(c.buf)
}

func (c *psConn) since(off int) string {
	c.mu.Lock()
	defer c.mu.Unlock()
	return string(c.buf[off:])
}

const psWaitMax = 30 * time.Second

func psWait(cond func() bool) bool {
	t0 := time.Now()
	for i := 0; ; i++ {
		if cond() {
			return true
		}
		if time.Since(t0) > psWaitMax {
			return false
		}
		if i < 200 {
			time.Sleep(20 * time.Microsecond)
		} else {
			time.Sleep(500 * time.Microsecond)
		}
	}
}

func psBytesSettled(conns []*psConn) bool {
	for _, c := range conns {
		if c != nil && c.written.Load() != c.nread.Load() {
			return false
		}
	}
	return true
}

// psQuiet: every enqueued message has been dispatched, every spawned writer has finished, every byte is collected.
func psQuiet(conns []*psConn) bool {
	h := psH
	return psWait(func() bool {
		if h.enq.Load() != h.dend.Load() {
			return false
		}
		if h.spawn.Load() != h.wend.Load() {
			return false
		}
		return psBytesSettled(conns)
	})
}

// PsCmd is one command of a block; Conn 0 is the embedded caller without a connection (nil), 1..2 registered TCP
// clients, 3..4 pipe ends used as embedded subscribers.
type PsCmd struct {
	Conn int      `json:"conn"`
	Cmd  []string `json:"cmd"` // hex
}

// PsOp is one block: mode seq (quiescence after every command), burst (commands back to back, quiescence at the end),
// held (dispatchers parked until the end of the block), heldrev (as held, then writers released newest first).
type PsOp struct {
	Mode string  `json:"mode"`
	Cmds []PsCmd `json:"cmds"`
}

type PsSeq struct {
	ID  string `json:"id"`
	Ops []PsOp `json:"ops"`
}

const psNConn = 4

func dumpPsTable(in *Inst, ids map[*net.Conn]int) string {
	chans := in.S.VerifPubSub().GetAllChannels()
	var sb strings.Builder
	fmt.Fprintf(&sb, "%d", len(chans))
	for _, ch := range chans {
		subs := ch.Subscribers()
		var l []int
		for p := range subs {
			id, ok := ids[p]
			if !ok {
				id = 999
			}
			l = append(l, id)
		}
		sort.Ints(l)
		fmt.Fprintf(&sb, " %s %s %d", X(ch.Name()), b01(ch.Pattern() != nil), len(l))
		for _, id := range l {
			fmt.Fprintf(&sb, " %d", id)
		}
	}
	return sb.String()
}

var psHooksProbed, psHooksPresent bool

// psProbeHooks checks once that the observation points exist in the tree under test.
func psProbeHooks(in *Inst, conns []*psConn) bool {
	if psHooksProbed {
		return psHooksPresent
	}
	psHooksProbed = true
	e0 := psH.enq.Load()
	_ = in.Exec(conns[1].ptr, []string{"SUBSCRIBE", "@probe"})
	_ = in.Exec(nil, []string{"PUBLISH", "@probe", "x"})
	psHooksPresent = psH.enq.Load() == e0+1
	return psHooksPresent
}

func runPsSeq(w *bufio.Writer, seqW *bufio.Writer, s PsSeq) error {
	in, err := NewInst(Opts{})
	if err != nil {
		return err
	}
	defer in.S.ShutDown()
	conns := make([]*psConn, psNConn+1)
	ids := map[*net.Conn]int{}
	for i := 1; i <= psNConn; i++ {
		srv, cli := net.Pipe()
		c := &psConn{id: i, cli: cli}
		var sc net.Conn = countConn{srv, &c.written}
		c.ptr = &sc
		if i <= 2 {
			in.S.VerifRegisterConn(c.ptr)
		}
		ids[c.ptr] = i
		conns[i] = c
		go c.collect()
	}
	defer func() {
		for _, c := range conns[1:] {
			_ = c.cli.Close()
			_ = (*c.ptr).Close()
		}
	}()
	if !psHooksProbed {
		// a throw-away instance decides whether the observation points are compiled in
		pin, err := NewInst(Opts{})
		if err != nil {
			return err
		}
		pc := make([]*psConn, 2)
		srv, cli := net.Pipe()
		c := &psConn{id: 1, cli: cli}
		var sc net.Conn = countConn{srv, &c.written}
		c.ptr = &sc
		pin.S.VerifRegisterConn(c.ptr)
		pc[1] = c
		go c.collect()
		ok := psProbeHooks(pin, pc)
		if ok {
			psQuiet(pc)
		}
		_ = cli.Close()
		pin.S.ShutDown()
		if !ok {
			return fmt.Errorf("the pub/sub observation points (verifhook.Point \"pubsub.*\" in internal/modules/pubsub/channel.go) are missing from the tree under test")
		}
	}
	h := psH
	for oi, op := range s.Ops {
		pre := dumpPsTable(in, ids)
		offs := make([]int, psNConn+1)
		for i := 1; i <= psNConn; i++ {
			offs[i] = conns[i].size()
		}
		held := op.Mode == "held" || op.Mode == "heldrev"
		if held {
			h.mu.Lock()
			h.hold = true
			h.permits = 0
			h.mu.Unlock()
		}
		hung := false
		var sb strings.Builder
		fmt.Fprintf(&sb, "P %s.%d %s %d", s.ID, oi, op.Mode, len(op.Cmds))
		for _, pc := range op.Cmds {
			cmd := UnhexCmd(pc.Cmd)
			var cp *net.Conn
			if pc.Conn >= 1 && pc.Conn <= psNConn {
				cp = conns[pc.Conn].ptr
			}
			var r Result
			if cp == nil && len(cmd) > 0 && strings.Contains(strings.ToLower(cmd[0]), "subscribe") {
				// (P)SUBSCRIBE / (P)UNSUBSCRIBE need a connection; the generators never emit this
				r = Result{"err", "no connection"}
			} else {
				r = in.execEmb(cp, cmd, pc.Conn == 0 || pc.Conn > 2)
			}
			if r.Kind == "hang" {
				hung = true
				break
			}
			if op.Mode == "seq" {
				if !psQuiet(conns) {
					hung = true
					break
				}
			} else if !psWait(func() bool { return psBytesSettled(conns) }) {
				hung = true
				break
			}
			payload := r.Bytes
			if r.Kind == "panic" {
				payload = ""
			}
			fmt.Fprintf(&sb, " %d %d", pc.Conn, len(cmd))
			for _, a := range cmd {
				sb.WriteString(" " + X(a))
			}
			fmt.Fprintf(&sb, " %s %s", r.Kind, X(payload))
		}
		if held && !hung {
			if op.Mode == "heldrev" {
				// dispatch one message at a time with the writers parked, so that the writers of each message
				// form a group; then let the groups write newest first
				h.mu.Lock()
				h.holdWriters = true
				h.parked = nil
				h.mu.Unlock()
				var groups [][]chan struct{}
				for h.dend.Load() < h.enq.Load() {
					d0 := h.dend.Load()
					h.mu.Lock()
					n0 := len(h.parked)
					h.permits = 1
					h.cond.Broadcast()
					h.mu.Unlock()
					if !psWait(func() bool { return h.dend.Load() == d0+1 && h.wbeg.Load() == h.spawn.Load() }) {
						hung = true
						break
					}
					h.mu.Lock()
					groups = append(groups, append([]chan struct{}{}, h.parked[n0:]...))
					h.mu.Unlock()
				}
				h.mu.Lock()
				h.holdWriters = false
				h.mu.Unlock()
				for gi := len(groups) - 1; gi >= 0; gi-- {
					for _, ch := range groups[gi] {
						e0 := h.wend.Load()
						close(ch)
						if !psWait(func() bool { return h.wend.Load() == e0+1 }) {
							hung = true
						}
					}
				}
			}
			h.mu.Lock()
			h.hold = false
			h.permits = 0
			h.cond.Broadcast()
			h.mu.Unlock()
		}
		if !hung && !psQuiet(conns) {
			hung = true
		}
		if hung {
			h.mu.Lock()
			h.hold, h.holdWriters = false, false
			for _, ch := range h.parked {
				select {
				case <-ch:
				default:
					func() { defer func() { _ = recover() }(); close(ch) }()
				}
			}
			h.parked = nil
			h.cond.Broadcast()
			h.mu.Unlock()
			fmt.Fprintf(w, "H %s.%d\n", s.ID, oi)
			break
		}
		post := dumpPsTable(in, ids)
		fmt.Fprintf(&sb, " S %s E %s V %d", pre, post, psNConn)
		for i := 1; i <= psNConn; i++ {
			fmt.Fprintf(&sb, " %d %s", i, X(conns[i].since(offs[i])))
		}
		w.WriteString(sb.String())
		w.WriteByte('\n')
	}
	if seqW != nil {
		j, _ := json.Marshal(s)
		seqW.Write(j)
		seqW.WriteByte('\n')
	}
	return nil
}

// ---- generators

var psPlain = []string{"a", "b", "ab", "a.b", "b.a", "abc", "a*", "?", "a.b.c", "ba", "a", "b", "ab", "a.b", ""}
var psPats = []string{"*", "a*", "?", "a?", "[ab]", "a.*", "*b", "a*b", "[a-c]*", "[!a]", "a", "ab", "b?", "*.*", "**", "a?b", "[!a-b]*", "a.b", "*", "a*", "[", "[]", "[b-a]"}

type psGen struct {
	g   *Gen
	msg int
}

func (p *psGen) name() string { return p.g.Pick(psPlain) }
func (p *psGen) pat() string  { return p.g.Pick(psPats) }
func (p *psGen) either() string {
	if p.g.Chance(0.5) {
		return p.name()
	}
	return p.pat()
}
func (p *psGen) sub() int { return 1 + p.g.R.Intn(psNConn) }
func (p *psGen) any() int { return p.g.R.Intn(psNConn + 1) }
func (p *psGen) names(min, max int, f func() string) []string {
	n := min + p.g.R.Intn(max-min+1)
	var out []string
	for i := 0; i < n; i++ {
		out = append(out, f())
	}
	return out
}

func pc(conn int, cmd ...string) PsCmd { return PsCmd{Conn: conn, Cmd: HexCmd(cmd)} }

func (p *psGen) publish() PsCmd {
	p.msg++
	return pc(p.any(), p.g.Pick([]string{"PUBLISH", "publish"}), p.name(), fmt.Sprintf("m%d", p.msg))
}

func (p *psGen) tableCmd() PsCmd {
	switch p.g.R.Intn(8) {
	case 0, 1, 2:
		return pc(p.sub(), append([]string{p.g.Pick([]string{"SUBSCRIBE", "subscribe"})}, p.names(1, 3, p.name)...)...)
	case 3, 4:
		f := p.pat
		if p.g.Chance(0.15) {
			f = p.either
		}
		return pc(p.sub(), append([]string{p.g.Pick([]string{"PSUBSCRIBE", "psubscribe"})}, p.names(1, 2, f)...)...)
	case 5, 6:
		f := p.name
		if p.g.Chance(0.2) {
			f = p.either
		}
		return pc(p.sub(), append([]string{"UNSUBSCRIBE"}, p.names(0, 2, f)...)...)
	default:
		return pc(p.sub(), append([]string{"PUNSUBSCRIBE"}, p.names(0, 2, p.pat)...)...)
	}
}

func (p *psGen) introspect() PsCmd {
	switch p.g.R.Intn(6) {
	case 0:
		return pc(p.any(), "PUBSUB", "CHANNELS")
	case 1:
		return pc(p.any(), "pubsub", "channels", p.pat())
	case 2:
		return pc(p.any(), "PUBSUB", "NUMPAT")
	case 3, 4:
		return pc(p.any(), append([]string{"PUBSUB", "NUMSUB"}, p.names(0, 3, p.either)...)...)
	default:
		return p.g.Pick3([]PsCmd{pc(p.any(), "PUBLISH", "a"), pc(p.sub(), "SUBSCRIBE"), pc(p.any(), "PUBSUB", "CHANNELS", "a", "b"),
			pc(p.any(), "PUBSUB"), pc(p.any(), "PUBLISH", "a", "m", "x"), pc(p.sub(), "PSUBSCRIBE"), pc(p.any(), "PUBSUB", "NUMPAT", "x")})
	}
}

func (g *Gen) Pick3(xs []PsCmd) PsCmd { return xs[g.R.Intn(len(xs))] }

func (p *psGen) op(tier string) PsOp {
	r := p.g.R.Intn(100)
	switch {
	case r < 30:
		return PsOp{Mode: "seq", Cmds: []PsCmd{p.tableCmd()}}
	case r < 50:
		return PsOp{Mode: "seq", Cmds: []PsCmd{p.publish()}}
	case r < 70:
		return PsOp{Mode: "seq", Cmds: []PsCmd{p.introspect()}}
	case r < 78:
		n := 2 + p.g.R.Intn(5)
		if tier == "thorough" && p.g.Chance(0.1) {
			n = 100 + p.g.R.Intn(400)
		}
		o := PsOp{Mode: "burst"}
		pub, ch := p.any(), p.name()
		for i := 0; i < n; i++ {
			if p.g.Chance(0.15) {
				pub, ch = p.any(), p.name()
			}
			p.msg++
			o.Cmds = append(o.Cmds, pc(pub, "PUBLISH", ch, fmt.Sprintf("m%d", p.msg)))
		}
		return o
	default:
		mode := "held"
		if r >= 90 {
			mode = "heldrev"
		}
		o := PsOp{Mode: mode}
		n := 2 + p.g.R.Intn(4)
		pub, ch := p.any(), p.name()
		for i := 0; i < n; i++ {
			if p.g.Chance(0.65) {
				p.msg++
				o.Cmds = append(o.Cmds, pc(pub, "PUBLISH", ch, fmt.Sprintf("m%d", p.msg)))
			} else {
				o.Cmds = append(o.Cmds, p.tableCmd())
			}
		}
		return o
	}
}

func globLine(w *bufio.Writer, seqW *bufio.Writer, id, p, s string) {
	res := "p"
	func() {
		defer func() { _ = recover() }()
		m := glob.MustCompile(p)
		res = b01(m.Match(s))
	}()
	fmt.Fprintf(w, "G %s %s %s %s\n", id, X(p), X(s), res)
	if seqW != nil {
		j, _ := json.Marshal(map[string]interface{}{"id": id, "glob": HexCmd([]string{p, s})})
		seqW.Write(j)
		seqW.WriteByte('\n')
	}
}

func runGlobLines(w *bufio.Writer, seqW *bufio.Writer, seed int64, tier string) {
	g := NewGen(seed)
	id := 0
	emit := func(p, s string) {
		globLine(w, seqW, fmt.Sprintf("g%d", id), p, s)
		id++
	}
	all := append(append([]string{}, psPlain...), psPats...)
	for _, p := range all {
		for _, s := range all {
			emit(p, s)
		}
		emit(p, "")
	}
	n := 3000
	if tier == "thorough" {
		n = 60000
	}
	const pa = "ab.*?[]!-c"
	const sa = "abc.*?-"
	for i := 0; i < n; i++ {
		pl, sl := g.R.Intn(6), g.R.Intn(6)
		pb, sbb := make([]byte, pl), make([]byte, sl)
		for j := range pb {
			pb[j] = pa[g.R.Intn(len(pa))]
		}
		for j := range sbb {
			sbb[j] = sa[g.R.Intn(len(sa))]
		}
		emit(string(pb), string(sbb))
	}
}

// RunPubSub writes the transcript of the pub/sub suite.
func RunPubSub(w *bufio.Writer, seed int64, tier string, replay string) error {
	var seqW *bufio.Writer
	if sp := os.Getenv("VH_SEQS"); sp != "" {
		f, err := os.Create(sp)
		if err != nil {
			return err
		}
		defer f.Close()
		seqW = bufio.NewWriter(f)
		defer seqW.Flush()
	}
	if replay != "" {
		data, err := os.ReadFile(replay)
		if err != nil {
			return err
		}
		var rp struct {
			Seq struct {
				PsSeq
				Glob []string `json:"glob"`
			} `json:"seq"`
		}
		if err := json.Unmarshal(data, &rp); err != nil {
			return err
		}
		if len(rp.Seq.Glob) == 2 {
			ps := UnhexCmd(rp.Seq.Glob)
			globLine(w, nil, rp.Seq.ID, ps[0], ps[1])
			return nil
		}
		return runPsSeq(w, seqW, rp.Seq.PsSeq)
	}
	runGlobLines(w, seqW, seed, tier)
	sid := 0
	script := func(ops ...PsOp) error {
		sid++
		return runPsSeq(w, seqW, PsSeq{ID: fmt.Sprintf("s%d", sid), Ops: ops})
	}
	one := func(conn int, cmd ...string) PsOp { return PsOp{Mode: "seq", Cmds: []PsCmd{pc(conn, cmd...)}} }
	blk := func(mode string, cmds ...PsCmd) PsOp { return PsOp{Mode: mode, Cmds: cmds} }
	// scripted histories: the situations the property text singles out
	scripts := [][]PsOp{
		// subscribe, publish, read back; unsubscribe, then silence
		{one(1, "SUBSCRIBE", "a"), one(0, "PUBLISH", "a", "m1"), one(1, "UNSUBSCRIBE", "a"), one(0, "PUBLISH", "a", "m2"), one(0, "PUBSUB", "NUMSUB", "a")},
		// everybody leaves, somebody comes back: introspection must follow
		{one(1, "SUBSCRIBE", "a"), one(0, "PUBSUB", "NUMSUB", "a"), one(1, "UNSUBSCRIBE", "a"), one(0, "PUBSUB", "NUMSUB", "a"), one(1, "SUBSCRIBE", "a"), one(3, "SUBSCRIBE", "a"),
			one(0, "PUBSUB", "NUMSUB", "a"), one(0, "PUBSUB", "CHANNELS"), one(0, "PUBLISH", "a", "m1"), one(1, "UNSUBSCRIBE"), one(3, "UNSUBSCRIBE", "a"), one(0, "PUBSUB", "NUMSUB", "a"), one(0, "PUBSUB", "CHANNELS")},
		// patterns whose wildcards span dots
		{one(3, "PSUBSCRIBE", "a.*", "a?b"), one(0, "PUBSUB", "NUMPAT"), one(0, "PUBLISH", "a.b", "m1"), one(0, "PUBLISH", "a.b.c", "m2"), one(0, "PUBLISH", "a.b", "m3"), one(2, "PUBLISH", "abc", "m4"),
			one(3, "PUNSUBSCRIBE", "a.*", "a?b"), one(0, "PUBSUB", "NUMPAT"), one(0, "PUBLISH", "a.b", "m5")},
		// a channel and a matching pattern on one connection
		{one(1, "SUBSCRIBE", "ab"), one(1, "PSUBSCRIBE", "a*"), one(2, "PUBLISH", "ab", "m1"), one(0, "PUBSUB", "CHANNELS"), one(0, "PUBSUB", "NUMSUB", "ab", "a*"), one(0, "PUBSUB", "NUMPAT")},
		// running counts
		{one(1, "SUBSCRIBE", "a"), one(1, "SUBSCRIBE", "b"), one(1, "PSUBSCRIBE", "a*", "b?"), one(1, "SUBSCRIBE", "a", "a"), one(1, "UNSUBSCRIBE", "a"), one(1, "UNSUBSCRIBE", "a", "b"), one(1, "PUNSUBSCRIBE")},
		// a name used both as channel and as pattern
		{one(1, "SUBSCRIBE", "a*"), one(2, "PSUBSCRIBE", "a*"), one(0, "PUBLISH", "ab", "m1"), one(0, "PUBLISH", "a*", "m2"), one(0, "PUBSUB", "NUMPAT")},
		{one(1, "PSUBSCRIBE", "a*"), one(2, "SUBSCRIBE", "a*"), one(0, "PUBLISH", "ab", "m1"), one(0, "PUBLISH", "a*", "m2"), one(2, "UNSUBSCRIBE", "a*"), one(0, "PUBSUB", "NUMSUB", "a*")},
		// PUNSUBSCRIBE and plain subscriptions whose names match
		{one(1, "SUBSCRIBE", "ab", "b"), one(1, "PSUBSCRIBE", "a?"), one(1, "PUNSUBSCRIBE", "a*"), one(0, "PUBLISH", "ab", "m1"), one(1, "PUNSUBSCRIBE", "*")},
		// a pattern that does not compile (regression of a repaired defect: glob.MustCompile used to panic): PSUBSCRIBE is refused
		// as a whole, PUNSUBSCRIBE treats it as a pattern matching nothing, PUBSUB CHANNELS answers an error
		{one(1, "SUBSCRIBE", "["), one(2, "PSUBSCRIBE", "a*", "[", "b*"), one(0, "PUBSUB", "NUMPAT"), one(2, "PSUBSCRIBE", "a*", "b*"), one(0, "PUBLISH", "[", "m1"), one(0, "PUBLISH", "ab", "m2"),
			one(0, "PUBSUB", "CHANNELS", "["), one(0, "PUBSUB", "CHANNELS", "[b-a]"), one(1, "PUNSUBSCRIBE", "[]"), one(2, "PUNSUBSCRIBE", "[", "a*"), one(0, "PUBSUB", "NUMPAT"), one(0, "PUBSUB", "CHANNELS")},
		// bursts and forced schedules
		{one(1, "SUBSCRIBE", "a"), one(3, "SUBSCRIBE", "a"), blk("burst", pc(0, "PUBLISH", "a", "m1"), pc(0, "PUBLISH", "a", "m2"), pc(0, "PUBLISH", "a", "m3"), pc(2, "PUBLISH", "a", "m4")),
			blk("heldrev", pc(0, "PUBLISH", "a", "m5"), pc(0, "PUBLISH", "a", "m6")),
			blk("held", pc(0, "PUBLISH", "a", "m7"), pc(1, "UNSUBSCRIBE", "a"), pc(2, "SUBSCRIBE", "a")),
			blk("held", pc(0, "PUBLISH", "a", "m8"), pc(0, "PUBLISH", "a", "m9"))},
	}
	for _, sc := range scripts {
		if err := script(sc...); err != nil {
			return err
		}
	}
	n, length := 300, 40
	if tier == "thorough" {
		n, length = 2500, 60
	}
	g := NewGen(seed)
	for i := 0; i < n; i++ {
		p := &psGen{g: g}
		s := PsSeq{ID: fmt.Sprintf("p%d", i)}
		for j := 0; j < length; j++ {
			s.Ops = append(s.Ops, p.op(tier))
		}
		if err := runPsSeq(w, seqW, s); err != nil {
			return err
		}
	}
	return nil
}

// execEmb is Exec with an explicit embedded flag (the embedded API passes a pipe end together with embedded=true).
func (in *Inst) execEmb(conn *net.Conn, cmd []string, embedded bool) Result {
	done := make(chan Result, 1)
	go func() {
		defer func() {
			if r := recover(); r != nil {
				done <- Result{"panic", fmt.Sprint(r)}
			}
		}()
		res, err := in.S.VerifHandle(context.Background(), Encode(cmd), conn, false, embedded)
		if err != nil {
			done <- Result{"err", err.Error()}
			return
		}
		done <- Result{"ok", string(res)}
	}()
	select {
	case r := <-done:
		return r
	case <-time.After(psWaitMax):
		in.Dead = true
		return Result{"hang", ""}
	}
}
