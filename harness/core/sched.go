package core

// Interleaving suite (C05): two commands run concurrently on one instance; every keyspace primitive
// entry is an observation point (internal/verifhook) where the calling goroutine is parked until the
// controller releases it, so every interleaving of the keyspace steps of the two commands can be
// forced on the real code. One I line per schedule, with the outcomes of the two serial orders.

import (
	"bufio"
	"encoding/json"
	"fmt"
	"net"
	"os"
	"path/filepath"
	"runtime"
	"strconv"
	"strings"
	"sync"
	"time"
)

// SchedSeq is a replayable interleaving experiment.
type SchedSeq struct {
	ID    string   `json:"id"`
	Base  []Op     `json:"base"`
	A     []string `json:"a"` // hex command of actor A (connection 1)
	B     []string `json:"b"` // hex command of actor B (connection 2); ["@snapshot"] = the snapshot engine
	DbA   int      `json:"dbA,omitempty"`
	DbB   int      `json:"dbB,omitempty"`
	Sched string   `json:"sched,omitempty"` // when set: run only this schedule (string over 'A','B')
	Max   int      `json:"max,omitempty"`
}

type schedEvent struct {
	actor int
	point string // "" = finished
	res   Result
}

type schedCtl struct {
	mu     sync.Mutex
	actors map[int64]int
	evt    chan schedEvent
	resume [2]chan struct{}
	armed  bool
}

var activeSched *schedCtl

func goid() int64 {
	var buf [64]byte
	n := runtime.Stack(buf[:], false)
	f := strings.Fields(string(buf[:n]))
	if len(f) < 2 {
		return -1
	}
	id, _ := strconv.ParseInt(f[1], 10, 64)
	return id
}

func (c *schedCtl) hook(name string) {
	switch name {
	case "keyspace.flush", "keyspace.keysExist", "keyspace.getExpiry", "keyspace.getValues", "keyspace.setValues",
		"keyspace.setExpiry", "keyspace.deleteKey", "keyspace.getState":
	default:
		return // other points (cache updates, memory adjustment) are not scheduling points
	}
	c.mu.Lock()
	a, ok := c.actors[goid()]
	armed := c.armed
	c.mu.Unlock()
	if !ok || !armed {
		return
	}
	c.evt <- schedEvent{actor: a, point: name}
	<-c.resume[a]
}

func init() {
	HookSched = func(name string) {
		if c := activeSched; c != nil {
			c.hook(name)
		}
	}
}

// HookSched is called by the shared verifhook handler (persist.go).
var HookSched func(name string)

type schedOutcome struct {
	trace    [2][]string
	res      [2]Result
	post     string
	choices  []int // decision taken at each point where both actors were enabled
	enabled  []int // number of enabled actors at each decision
	order    string
	blockedB bool
	copyDump string // snapshot actor: the dataset its state copy holds
	ok       bool
}

func (s SchedSeq) isSnap() bool { return len(s.B) == 1 && UnhexCmd(s.B)[0] == "@snapshot" }

// runSchedule executes the experiment once, following `prefix` at the decisions and preferring A afterwards.
func runSchedule(s SchedSeq, prefix []int) (out schedOutcome, pre string, now int64, err error) {
	dir := ""
	o := Opts{}
	if s.isSnap() {
		dir, err = os.MkdirTemp(scratchBase(), "vhs")
		if err != nil {
			return
		}
		defer os.RemoveAll(dir)
		o.DataDir = dir
	}
	in, e := NewInst(o)
	if e != nil {
		err = e
		return
	}
	defer in.S.ShutDown()
	var conns []*net.Conn
	getConn := func(i int) *net.Conn {
		for len(conns) <= i {
			conns = append(conns, in.NewConn())
		}
		return conns[i]
	}
	for _, op := range s.Base {
		if op.Adv != 0 {
			in.Clock.Advance(op.Adv)
		}
		if len(op.Cmd) == 0 {
			continue
		}
		var c *net.Conn
		if op.Conn >= 0 {
			c = getConn(op.Conn)
		}
		if r := in.Exec(c, UnhexCmd(op.Cmd)); r.Kind == "hang" {
			err = fmt.Errorf("base hang")
			return
		}
	}
	cA, cB := getConn(1), getConn(2)
	if s.DbA != 0 {
		in.Exec(cA, []string{"select", fmt.Sprint(s.DbA)})
	}
	if s.DbB != 0 {
		in.Exec(cB, []string{"select", fmt.Sprint(s.DbB)})
	}
	time.Sleep(2 * time.Millisecond) // let the asynchronous cache updates of the base commands finish
	pre, err = in.Dump()
	if err != nil {
		return
	}
	now = in.Clock.Ms()
	ctl := &schedCtl{actors: map[int64]int{}, evt: make(chan schedEvent, 4)}
	ctl.resume[0], ctl.resume[1] = make(chan struct{}), make(chan struct{})
	ctl.armed = true
	activeSched = ctl
	defer func() { activeSched = nil }()
	cmds := [2][]string{UnhexCmd(s.A), UnhexCmd(s.B)}
	cs := [2]*net.Conn{cA, cB}
	start := func(a int) {
		go func() {
			ctl.mu.Lock()
			ctl.actors[goid()] = a
			ctl.mu.Unlock()
			var r Result
			func() {
				defer func() {
					if x := recover(); x != nil {
						r = Result{"panic", fmt.Sprint(x)}
					}
				}()
				if cmds[a][0] == "@snapshot" {
					if e := in.S.VerifTakeSnapshotSync(); e != nil {
						r = Result{"err", e.Error()}
					} else {
						r = Result{"ok", ""}
					}
					return
				}
				res, e := in.S.VerifHandle(ctxBg(), Encode(cmds[a]), cs[a], false, false)
				if e != nil {
					r = Result{"err", e.Error()}
				} else {
					r = Result{"ok", string(res)}
				}
			}()
			ctl.evt <- schedEvent{actor: a, point: "", res: r}
		}()
	}
	state := [2]int{0, 0} // 0 not started, 1 parked, 2 done, 3 running/blocked
	pending := [2]string{}
	wait := func(a int, d time.Duration) bool {
		// wait for the next event of actor a; events of the other actor are recorded as they come
		deadline := time.After(d)
		for {
			select {
			case ev := <-ctl.evt:
				if ev.point == "" {
					state[ev.actor] = 2
					out.res[ev.actor] = ev.res
				} else {
					state[ev.actor] = 1
					pending[ev.actor] = ev.point
					out.trace[ev.actor] = append(out.trace[ev.actor], ev.point)
				}
				if ev.actor == a {
					return true
				}
			case <-deadline:
				return false
			}
		}
	}
	state[0] = 3
	start(0)
	if !wait(0, 3*time.Second) {
		in.Dead = true
		err = fmt.Errorf("actor A never reached a point")
		return
	}
	state[1] = 3
	start(1)
	if !wait(1, 3*time.Second) {
		in.Dead = true
		err = fmt.Errorf("actor B never reached a point")
		return
	}
	var order strings.Builder
	for state[0] != 2 || state[1] != 2 {
		var en []int
		for a := 0; a < 2; a++ {
			if state[a] == 1 {
				en = append(en, a)
			}
		}
		if len(en) == 0 {
			// somebody is running/blocked: wait for whoever moves
			moved := false
			for a := 0; a < 2; a++ {
				if state[a] == 3 {
					if wait(a, 3*time.Second) {
						moved = true
						break
					}
				}
			}
			if !moved {
				in.Dead = true
				err = fmt.Errorf("deadlock: no actor can move")
				return
			}
			continue
		}
		pick := en[0]
		if len(en) == 2 {
			d := len(out.choices)
			c := 0
			if d < len(prefix) {
				c = prefix[d]
			}
			out.choices = append(out.choices, c)
			out.enabled = append(out.enabled, 2)
			pick = en[c]
		}
		order.WriteByte("AB"[pick])
		state[pick] = 3
		ctl.resume[pick] <- struct{}{}
		// only the state copy of the snapshot engine is expected to wait for the other actor (it spins while a
		// write command is in flight); a command that does not reach its next point is given much longer, so
		// that a loaded machine cannot turn a slow step into a spurious "blocked" (and a wrong recorded order)
		patience := 5 * time.Second
		if pick == 1 && s.isSnap() {
			patience = 700 * time.Millisecond
		}
		if !wait(pick, patience) {
			// the released actor neither finished nor reached another point: it is waiting for the other one
			if pick == 1 {
				out.blockedB = true
			}
			if state[1-pick] == 2 {
				// nobody left to unblock it
				if !wait(pick, 3*time.Second) {
					in.Dead = true
					err = fmt.Errorf("actor %d hangs", pick)
					return
				}
			}
		}
	}
	ctl.mu.Lock()
	ctl.armed = false
	ctl.mu.Unlock()
	time.Sleep(2 * time.Millisecond)
	out.post, err = in.Dump()
	if err != nil {
		return
	}
	out.order = order.String()
	if s.isSnap() {
		out.copyDump = "-"
		files := readTree(filepath.Join(dir, "snapshots"))
		for n, b := range files {
			if strings.HasSuffix(n, "/state.bin") {
				out.copyDump = decodeState(b, true)
			}
		}
	}
	out.ok = true
	return
}

func xres(r Result) string {
	p := r.Bytes
	if r.Kind == "panic" {
		p = ""
	}
	return r.Kind + " " + X(p)
}

func serialRun(s SchedSeq, first int) (string, error) {
	// both commands one after the other on a fresh instance: prefix of all-`first` choices gives a serial schedule
	pfx := make([]int, 64)
	for i := range pfx {
		pfx[i] = first
	}
	// choice index is into the enabled list [A,B]; once the first actor is done only one is enabled
	o, _, _, err := runSchedule(s, pfx)
	if err != nil {
		return "", err
	}
	cp := ""
	if s.isSnap() {
		cp = " D " + o.copyDump
	}
	return fmt.Sprintf("%s %s S %s%s", xres(o.res[0]), xres(o.res[1]), o.post, cp), nil
}

func runSchedSeq(w *bufio.Writer, seqW *bufio.Writer, s SchedSeq) error {
	if seqW != nil {
		j, _ := json.Marshal(s)
		seqW.Write(j)
		seqW.WriteByte('\n')
	}
	sab, err := serialRun(s, 0)
	if err != nil {
		fmt.Fprintf(w, "U %s.0 %s\n", s.ID, strings.ReplaceAll(err.Error(), " ", "_"))
		return nil
	}
	sba, err := serialRun(s, 1)
	if err != nil {
		fmt.Fprintf(w, "U %s.0 %s\n", s.ID, strings.ReplaceAll(err.Error(), " ", "_"))
		return nil
	}
	max := s.Max
	if max == 0 {
		max = 40
	}
	stack := [][]int{{}}
	n := 0
	for len(stack) > 0 && n < max {
		pfx := stack[len(stack)-1]
		stack = stack[:len(stack)-1]
		if s.Sched != "" {
			pfx = nil
		}
		o, pre, now, err := runSchedule(s, pfx)
		if err != nil {
			fmt.Fprintf(w, "U %s.%d %s\n", s.ID, n, strings.ReplaceAll(err.Error(), " ", "_"))
			n++
			continue
		}
		for d := len(pfx); d < len(o.choices); d++ {
			if o.choices[d] == 0 && o.enabled[d] == 2 {
				alt := append(append([]int{}, o.choices[:d]...), 1)
				stack = append(stack, alt)
			}
		}
		var sb strings.Builder
		a, b := UnhexCmd(s.A), UnhexCmd(s.B)
		fmt.Fprintf(&sb, "I %s.%d %d %d %d CA %d", s.ID, n, now, s.DbA, s.DbB, len(a))
		for _, x := range a {
			sb.WriteString(" " + X(x))
		}
		fmt.Fprintf(&sb, " CB %d", len(b))
		for _, x := range b {
			sb.WriteString(" " + X(x))
		}
		tr := func(t []string) string {
			if len(t) == 0 {
				return "-"
			}
			return strings.ReplaceAll(strings.Join(t, ","), "keyspace.", "")
		}
		cp := ""
		if s.isSnap() {
			cp = " D " + o.copyDump
		}
		fmt.Fprintf(&sb, " K %s BL %s TA %s TB %s R %s %s S %s E %s%s SAB %s SBA %s", o.order, b01(o.blockedB), tr(o.trace[0]), tr(o.trace[1]), xres(o.res[0]), xres(o.res[1]), pre, o.post, cp, sab, sba)
		w.WriteString(sb.String())
		w.WriteByte('\n')
		n++
		if s.Sched != "" {
			break
		}
	}
	return nil
}

// RunSched writes the transcript of the interleaving suite.
func RunSched(w *bufio.Writer, seed int64, tier string, replay string) error {
	var seqW *bufio.Writer
	if sp := os.Getenv("VH_SEQS"); sp != "" {
		f, err := os.Create(sp)
		if err != nil {
			return err
		}
		defer f.Close()
		seqW = bufio.NewWriter(f)
		defer seqW.Flush()
	}
	if replay != "" {
		data, err := os.ReadFile(replay)
		if err != nil {
			return err
		}
		var rp struct {
			Seq SchedSeq `json:"seq"`
		}
		if err := json.Unmarshal(data, &rp); err != nil {
			return err
		}
		return runSchedSeq(w, seqW, rp.Seq)
	}
	g := NewGen(seed)
	pairs := schedPairs(g, tier)
	for i, s := range pairs {
		s.ID = fmt.Sprintf("p%d", i)
		if err := runSchedSeq(w, seqW, s); err != nil {
			return err
		}
	}
	return nil
}

func schedPairs(g *Gen, tier string) []SchedSeq {
	h := func(c ...string) []string { return HexCmd(c) }
	base := func(cmds ...[]string) []Op {
		var o []Op
		for _, c := range cmds {
			o = append(o, Op{Conn: -1, Cmd: HexCmd(c)})
		}
		return o
	}
	b0 := base([]string{"set", "n", "5"}, []string{"set", "k1", "a"}, []string{"set", "k2", "b"}, []string{"rpush", "l1", "x", "y"}, []string{"rpush", "l2", "z"},
		[]string{"hset", "h1", "f", "1"}, []string{"sadd", "s1", "m1", "m2"}, []string{"sadd", "s2", "m2", "m3"})
	// one command per family and step shape; every ordered pair on shared keys, some on distinct keys
	cmds := [][]string{
		{"incr", "n"}, {"incrby", "n", "10"}, {"append", "k1", "Z"}, {"set", "k1", "new"}, {"get", "k1"}, {"mget", "k1", "k2", "nokey"}, {"mset", "k1", "p", "k2", "q"},
		{"del", "k1", "k2"}, {"rename", "k1", "k2"}, {"getdel", "k1"}, {"setrange", "k1", "1", "ZZ"}, {"expire", "k1", "100"}, {"persist", "k1"}, {"getex", "k1", "px", "5000"},
		{"lpush", "l1", "p"}, {"rpush", "l1", "q"}, {"lpop", "l1"}, {"lmove", "l1", "l2", "left", "right"}, {"lset", "l1", "0", "W"}, {"lrange", "l1", "0", "-1"}, {"llen", "l1"},
		{"hset", "h1", "g", "2"}, {"hincrby", "h1", "f", "3"}, {"hdel", "h1", "f"}, {"hget", "h1", "f"},
		{"sadd", "s1", "m9"}, {"srem", "s1", "m1"}, {"smove", "s1", "s2", "m1"}, {"sismember", "s1", "m1"}, {"scard", "s1"}, {"sinterstore", "s3", "s1", "s2"}, {"flushdb"},
	}
	var out []SchedSeq
	add := func(a, b []string) { out = append(out, SchedSeq{Base: b0, A: h(a...), B: h(b...)}) }
	// scripted core
	add([]string{"incr", "n"}, []string{"incr", "n"})
	add([]string{"mget", "k1", "nokey2"}, []string{"mset", "k1", "2", "nokey2", "2"})
	add([]string{"mget", "k1", "k2"}, []string{"mset", "k1", "2", "k2", "2"})
	add([]string{"lpush", "l1", "p"}, []string{"lpush", "l1", "q"})
	add([]string{"rename", "k1", "k2"}, []string{"get", "k2"})
	out = append(out, SchedSeq{Base: b0, A: h("rename", "k1", "k3"), B: h("@snapshot")})
	out = append(out, SchedSeq{Base: b0, A: h("lmove", "l1", "l2", "left", "right"), B: h("@snapshot")})
	out = append(out, SchedSeq{Base: b0, A: h("smove", "s1", "s2", "m1"), B: h("@snapshot")})
	out = append(out, SchedSeq{Base: b0, A: h("set", "k1", "v"), B: h("@snapshot")})
	n := 60
	if tier == "thorough" {
		n = 600
	}
	for i := 0; i < n; i++ {
		a := cmds[g.R.Intn(len(cmds))]
		b := cmds[g.R.Intn(len(cmds))]
		s := SchedSeq{Base: b0, A: h(a...), B: h(b...)}
		if g.Chance(0.1) {
			s.DbB = 1
		}
		out = append(out, s)
	}
	return out
}
