package core

var SetMembers = []string{"a", "b", "c", "d", "", "m\r\n", "\x00\xff", "007"}

func (g *Gen) SetCommand() []string {
	k := func() string { return g.Pick(Keys) }
	m := func() string { return g.Pick(SetMembers) }
	members := func() []string {
		n := 1 + g.R.Intn(4)
		var o []string
		for i := 0; i < n; i++ {
			o = append(o, m())
		}
		return o
	}
	keys := func() []string {
		n := 1 + g.R.Intn(3)
		var o []string
		for i := 0; i < n; i++ {
			o = append(o, k())
		}
		return o
	}
	cnt := func() string { return g.Pick([]string{"0", "1", "2", "3", "-1", "-2", "-5", "10", "x", "1e0", ""}) }
	switch g.R.Intn(30) {
	case 0, 1, 2, 3:
		return append([]string{g.Pick([]string{"sadd", "SADD"}), k()}, members()...)
	case 4:
		return []string{"scard", k()}
	case 5, 6:
		return append([]string{"sdiff"}, keys()...)
	case 7, 8:
		return append([]string{"sdiffstore", k()}, keys()...)
	case 9, 10:
		return append([]string{"sinter"}, keys()...)
	case 11, 12:
		c := append([]string{"sintercard"}, keys()...)
		if g.Chance(0.5) {
			c = append(c, g.Pick([]string{"limit", "LIMIT"}))
			if g.Chance(0.9) {
				c = append(c, g.Pick([]string{"0", "1", "2", "-1", "x"}))
			}
		}
		return c
	case 13, 14:
		return append([]string{"sinterstore", k()}, keys()...)
	case 15:
		return []string{"sismember", k(), m()}
	case 16, 17:
		return []string{"smembers", k()}
	case 18:
		return append([]string{"smismember", k()}, members()...)
	case 19, 20:
		return []string{"smove", k(), k(), m()}
	case 21, 22:
		c := []string{g.Pick([]string{"spop", "SPOP"}), k()}
		if g.Chance(0.7) {
			c = append(c, cnt())
		}
		return c
	case 23:
		c := []string{"srandmember", k()}
		if g.Chance(0.7) {
			c = append(c, cnt())
		}
		return c
	case 24:
		return append([]string{"srem", k()}, members()...)
	case 25, 26:
		return append([]string{"sunion"}, keys()...)
	case 27, 28:
		return append([]string{"sunionstore", k()}, keys()...)
	default:
		name := g.Pick([]string{"sadd", "scard", "sdiff", "sdiffstore", "sinter", "sintercard", "sinterstore", "sismember", "smembers", "smismember", "smove", "spop", "srandmember", "srem", "sunion", "sunionstore"})
		n := g.R.Intn(5)
		c := []string{name}
		for i := 0; i < n; i++ {
			c = append(c, g.Pick([]string{"k1", "1", "a", ""}))
		}
		return c
	}
}

func setAlphabet() [][]string {
	return [][]string{
		{"sadd", "k1", "a", "b"}, {"sadd", "k1", "x", "x", "y"}, {"sadd", "k9", "n", "n"}, {"sadd", "k2", "b", "c"}, {"scard", "k1"}, {"scard", "k9"},
		{"sdiff", "k1", "k2"}, {"sdiff", "k1", "k9"}, {"sdiff", "k9", "k1"}, {"sdiffstore", "k3", "k1", "k2"}, {"sdiffstore", "k1", "k1", "k2"},
		{"sinter", "k1", "k2"}, {"sinter", "k1"}, {"sinter", "k1", "k9"}, {"sinter", "k1", "k2", "k3"}, {"sintercard", "k1", "k2"}, {"sintercard", "k1", "k2", "limit", "1"},
		{"sinterstore", "k3", "k1", "k2"}, {"sinterstore", "k3", "k1"}, {"sinterstore", "k1", "k1"}, {"sismember", "k1", "a"}, {"smembers", "k1"}, {"smembers", "k3"},
		{"smismember", "k1", "a", "zz"}, {"smove", "k1", "k2", "a"}, {"smove", "k1", "k1", "a"}, {"smove", "k1", "k9", "a"}, {"spop", "k1"}, {"spop", "k1", "10"}, {"spop", "k1", "-1"},
		{"srandmember", "k1"}, {"srandmember", "k1", "2"}, {"srandmember", "k1", "-3"}, {"srem", "k1", "a", "zz"}, {"srem", "k3", "a"}, {"sunion", "k1", "k2"}, {"sunion", "k1"}, {"sunion", "k1", "k9"},
		{"sunionstore", "k3", "k1", "k2"}, {"sunionstore", "k3", "k1"}, {"sunionstore", "k1", "k1", "k2"}, {"sadd", "k3", "q"}, {"del", "k1"}, {"set", "k1", "v"}, {"type", "k1"},
	}
}

func setBases() [][]Op {
	mk := func(cmds ...[]string) []Op {
		var o []Op
		for _, c := range cmds {
			o = append(o, Op{Conn: -1, Cmd: HexCmd(c)})
		}
		return o
	}
	return [][]Op{
		mk(),
		mk([]string{"sadd", "k1", "a", "b", "c"}, []string{"sadd", "k2", "b", "c", "d"}, []string{"set", "k4", "str"}),
		mk([]string{"sadd", "k1", "a", "b"}, []string{"sadd", "k2", "b"}, []string{"sadd", "k3", "a", "z"}, []string{"pexpire", "k1", "1000"}),
	}
}

// SetFamily is the set-command suite.
func SetFamily() Family {
	return Family{Name: "set", Alphabet: setAlphabet(), Bases: setBases(), AdvBases: []int{2},
		Command: func(g *Gen, now int64) []string { return g.SetCommand() }, Scripts: setScripts()}
}

// setScripts: deterministic histories for deviations the random histories reach only with some seeds.
func setScripts() [][][]string {
	return [][][]string{
		// three sets that intersect pairwise in two members and have no common member: whatever order the
		// operand map is walked in, one half reaches LIMIT 1 (it used to be returned as the answer; regression
		// of the repair: the limit bounds the final intersection only); then with a member common to all three
		{{"sadd", "ta", "p", "q", "r", "s"}, {"sadd", "tb", "p", "q", "t", "u"}, {"sadd", "tc", "r", "s", "t", "u"}, {"sintercard", "ta", "tb", "tc", "limit", "1"},
			{"sadd", "ta", "z", "y"}, {"sadd", "tb", "z", "y"}, {"sadd", "tc", "z", "y"}, {"sintercard", "ta", "tb", "tc", "limit", "1"}, {"sintercard", "ta", "tb", "tc", "LIMIT", "5"},
			{"sintercard", "ta", "tb", "tc", "tb", "limit", "2"}, {"sintercard", "ta", "tb", "tc"}},
		// regression of the SADD reply on a new key: repeated elements are counted once (was: the number of arguments)
		{{"sadd", "k1", "x", "x", "y"}, {"scard", "k1"}, {"sadd", "k1", "y", "z", "z"}, {"sadd", "k2", "n", "n"}},
		// regression of SINTERCARD LIMIT over a single key (given once or twice): the limit caps the answer
		{{"sadd", "k1", "a", "b", "c", "b"}, {"sintercard", "k1", "LIMIT", "2"}, {"sintercard", "k1", "k1", "limit", "1"}, {"sintercard", "k1", "limit", "5"}, {"sintercard", "k1", "limit", "0"}},
		// regression of SUNION / SUNIONSTORE (appended last so that the ids of the earlier scripts do not move): the
		// union is a new set — the operands keep their members (was: one operand received the others' members), the
		// destination shares nothing with a source (later writes to either side do not show in the other), an absent
		// key is the empty set (was: "not a set"), a value of another type is an error that changes nothing
		{{"sadd", "k1", "a", "b", "c"}, {"sadd", "k2", "b", "c", "d"}, {"sadd", "k5", "e"}, {"sunion", "k1", "k2"}, {"smembers", "k1"}, {"smembers", "k2"},
			{"sunion", "k1", "k2", "k5"}, {"sunion", "k5", "k2", "k1", "k2"}, {"smembers", "k5"}, {"sunionstore", "k3", "k1", "k2"}, {"smembers", "k1"},
			{"sadd", "k1", "x", "x", "y"}, {"smembers", "k3"}, {"srem", "k3", "a"}, {"spop", "k3", "10"}, {"smembers", "k1"}, {"sunionstore", "k3", "k1"},
			{"sadd", "k3", "z"}, {"smembers", "k1"}, {"smove", "k1", "k3", "a"}, {"sunionstore", "k1", "k1", "k2"}, {"smembers", "k2"},
			{"sunion", "k1", "missing"}, {"sunion", "missing", "k1"}, {"sunion", "missing", "gone"}, {"sunionstore", "k6", "missing", "k2", "gone"}, {"smembers", "k6"},
			{"sunionstore", "k6", "missing"}, {"smembers", "k6"}, {"type", "k6"}, {"set", "k4", "str"}, {"sunion", "k1", "k4", "missing"}, {"sunion", "missing", "k4", "k1"},
			{"sunionstore", "k6", "k2", "k4"}, {"smembers", "k6"}, {"sunionstore", "k4", "k1", "k2"}, {"type", "k4"}},
		// regression of SINTERSTORE: a lone operand is copied (was: the destination held the operand's own set), an
		// absent operand empties the destination (was: the old destination stayed), a value of another type is an
		// error whichever operand is absent
		{{"sadd", "k1", "a", "b", "c"}, {"sinterstore", "k3", "k1"}, {"sadd", "k1", "x", "x", "y"}, {"smembers", "k3"}, {"srem", "k3", "a"}, {"smembers", "k1"},
			{"sinterstore", "k1", "k1"}, {"sinterstore", "k1", "k1", "k1"}, {"sadd", "k3", "q"}, {"sinterstore", "k3", "k1", "k2"}, {"smembers", "k3"}, {"type", "k3"},
			{"sadd", "k3", "q"}, {"sinterstore", "k3", "k2", "k1"}, {"scard", "k3"}, {"sadd", "k2", "a", "x"}, {"sinterstore", "k3", "k1", "k2"}, {"smembers", "k3"},
			{"set", "k4", "str"}, {"sinterstore", "k3", "missing", "k4", "k1"}, {"sinterstore", "k3", "k4", "missing"}, {"sinterstore", "k3", "k1", "missing", "k4"}, {"smembers", "k3"},
			{"sinterstore", "k4", "k1", "missing"}, {"type", "k4"}, {"sinterstore", "k3", "k1", "k2", "k1", "missing"}, {"scard", "k3"}},
	}
}
