package core

import (
	"sync/atomic"
	"time"
)

// VClock is the injected server clock: unix milliseconds, advanced only by the harness.
type VClock struct{ ms atomic.Int64 }

func NewVClock(ms int64) *VClock { c := &VClock{}; c.ms.Store(ms); return c }
func (c *VClock) Now() time.Time  { return time.UnixMilli(c.ms.Load()) }
func (c *VClock) After(d time.Duration) <-chan time.Time { return time.After(d) }
func (c *VClock) Ms() int64       { return c.ms.Load() }
func (c *VClock) Set(ms int64)    { c.ms.Store(ms) }
func (c *VClock) Advance(d int64) { c.ms.Add(d) }
