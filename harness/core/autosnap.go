package core

// Automatic snapshot trigger (C03): the snapshot engine's ticker compares the change counter with the
// threshold at every tick. The harness gives the engine a short real interval, waits for a tick,
// performs a batch of writes before the next one, and then watches two more ticks: did a snapshot start?

import (
	"bufio"
	"encoding/json"
	"fmt"
	"os"
	"os/exec"
	"strings"
	"sync/atomic"
	"time"
)

var autoTicks, autoTicksDone, autoTaken, autoPublished atomic.Int64

func init() {
	HookAuto = func(name string) {
		switch name {
		case "snapshot.tick":
			autoTicks.Add(1)
		case "snapshot.tick.done":
			autoTicksDone.Add(1)
		case "snapshot.take.begin":
			autoTaken.Add(1)
		case "snapshot.take.manifest.renamed":
			autoPublished.Add(1)
		}
	}
}

// HookAuto is called by the shared verifhook handler.
var HookAuto func(name string)

func waitCount(c *atomic.Int64, target int64, d time.Duration) bool {
	deadline := time.Now().Add(d)
	for c.Load() < target {
		if time.Now().After(deadline) {
			return false
		}
		time.Sleep(200 * time.Microsecond)
	}
	return true
}

// AutoSpec is one automatic-snapshot trial: threshold and the batch of commands issued between two ticks.
type AutoSpec struct {
	Thr   uint64     `json:"thr"`
	Batch [][]string `json:"batch"`
}

var autoSeqW *bufio.Writer

// runAutoTrial runs the trial in a process of its own: a snapshot engine's ticker goroutine outlives
// its server, so only a fresh process has exactly one ticking engine.
func runAutoTrial(w *bufio.Writer, id string, thr uint64, batch [][]string) {
	if autoSeqW != nil {
		sj, _ := json.Marshal(PSeq{ID: id, Mode: "snap", Auto: &AutoSpec{Thr: thr, Batch: batch}})
		autoSeqW.Write(sj)
		autoSeqW.WriteByte('\n')
	}
	j, _ := json.Marshal(batch)
	cmd := exec.Command(os.Args[0], "autotrial", "-replay", fmt.Sprintf("%s|%d|%s", id, thr, string(j)))
	cmd.Env = os.Environ()
	out, err := cmd.Output()
	line := strings.TrimSpace(string(out))
	if err != nil || !(strings.HasPrefix(line, "S ") || strings.HasPrefix(line, "U ")) {
		fmt.Fprintf(w, "U %s auto-trial-process-failed\n", id)
		return
	}
	w.WriteString(line + "\n")
}

// RunAutoTrialChild is the body of the child process.
func RunAutoTrialChild(w *bufio.Writer, spec string) error {
	parts := strings.SplitN(spec, "|", 3)
	if len(parts) != 3 {
		return fmt.Errorf("bad trial spec")
	}
	var thr uint64
	fmt.Sscanf(parts[1], "%d", &thr)
	var batch [][]string
	if err := json.Unmarshal([]byte(parts[2]), &batch); err != nil {
		return err
	}
	autoTrialBody(w, parts[0], thr, batch)
	return nil
}

func autoTrialBody(w *bufio.Writer, id string, thr uint64, batch [][]string) {
	for _, c := range batch {
		if len(c) == 1 && c[0] == "@wait" {
			autoTrialPhases(w, id, thr, batch)
			return
		}
	}
	for attempt := 0; attempt < 8; attempt++ {
		dir, err := os.MkdirTemp(scratchBase(), "vha")
		if err != nil {
			return
		}
		in, err := NewInst(Opts{DataDir: dir, SnapThreshold: thr, SnapInterval: 40 * time.Millisecond})
		if err != nil {
			os.RemoveAll(dir)
			return
		}
		ok := func() bool {
			t0 := autoTicksDone.Load()
			if !waitCount(&autoTicksDone, t0+1, 2*time.Second) {
				return false
			}
			startTicks := autoTicks.Load()
			taken0 := autoTaken.Load()
			keys := 0
			for _, c := range batch {
				r := in.Exec(nil, c)
				if r.Kind != "ok" {
					return false
				}
			}
			raw := in.S.VerifSnapshot()
			for _, m := range raw.Store {
				keys += len(m)
			}
			if autoTicks.Load() != startTicks {
				return false // a tick fell inside the batch: the counter was seen half way, try again
			}
			d0 := autoTicksDone.Load()
			if !waitCount(&autoTicksDone, d0+2, 2*time.Second) {
				return false
			}
			fired := autoTaken.Load() > taken0
			var n int
			for _, c := range batch {
				n += autoChanges(c)
			}
			fmt.Fprintf(w, "S %s %d %d %s\n", id, thr, n, b01(fired))
			return true
		}()
		in.S.ShutDown()
		os.RemoveAll(dir)
		if ok {
			return
		}
	}
	fmt.Fprintf(w, "U %s auto-trial-not-settled\n", id)
}

// autoTrialPhases: a trial in several phases separated by ["@wait"] (two ticks each). The line reports the last phase:
// n = writes since the last snapshot that was PUBLISHED (a tick that finds nothing new publishes nothing and must not
// forget the writes it has seen), fired = a snapshot was published within two ticks of the last phase.
func autoTrialPhases(w *bufio.Writer, id string, thr uint64, batch [][]string) {
	var phases [][][]string
	cur := [][]string{}
	for _, c := range batch {
		if len(c) == 1 && c[0] == "@wait" {
			phases = append(phases, cur)
			cur = [][]string{}
			continue
		}
		cur = append(cur, c)
	}
	phases = append(phases, cur)
	for attempt := 0; attempt < 8; attempt++ {
		dir, err := os.MkdirTemp(scratchBase(), "vha")
		if err != nil {
			return
		}
		in, err := NewInst(Opts{DataDir: dir, SnapThreshold: thr, SnapInterval: 40 * time.Millisecond})
		if err != nil {
			os.RemoveAll(dir)
			return
		}
		ok := func() bool {
			since := 0
			for i, ph := range phases {
				t0 := autoTicksDone.Load()
				if !waitCount(&autoTicksDone, t0+1, 2*time.Second) {
					return false
				}
				startTicks := autoTicks.Load()
				pub0 := autoPublished.Load()
				for _, c := range ph {
					if r := in.Exec(nil, c); r.Kind != "ok" {
						return false
					}
					since += autoChanges(c)
				}
				if autoTicks.Load() != startTicks {
					return false // a tick fell inside the phase: try again
				}
				d0 := autoTicksDone.Load()
				if !waitCount(&autoTicksDone, d0+2, 2*time.Second) {
					return false
				}
				published := autoPublished.Load() > pub0
				if i == len(phases)-1 {
					fmt.Fprintf(w, "S %s %d %d %s\n", id, thr, since, b01(published))
					return true
				}
				if published {
					since = 0
				}
			}
			return false
		}()
		in.S.ShutDown()
		os.RemoveAll(dir)
		if ok {
			return
		}
	}
	fmt.Fprintf(w, "U %s auto-trial-not-settled\n", id)
}

// autoChanges: how many times SetValues' loop body runs for the command (one per key written)
func autoChanges(c []string) int {
	switch c[0] {
	case "set":
		return 1
	case "mset":
		return (len(c) - 1) / 2
	}
	return 0
}

func runAutoTrials(w *bufio.Writer, tier string) {
	mk := func(n int) [][]string {
		var b [][]string
		for i := 0; i < n; i++ {
			b = append(b, []string{"set", fmt.Sprintf("k%d", i), "v"})
		}
		return b
	}
	thr := uint64(3)
	for n := 1; n <= 6; n++ {
		runAutoTrial(w, fmt.Sprintf("auto.set%d", n), thr, mk(n))
	}
	runAutoTrial(w, "auto.mset2plus2", thr, [][]string{{"mset", "a", "1", "b", "2"}, {"mset", "c", "1", "d", "2"}})
	runAutoTrial(w, "auto.mset3", thr, [][]string{{"mset", "a", "1", "b", "2", "c", "3"}})
	runAutoTrial(w, "auto.set1mset2", thr, [][]string{{"set", "a", "1"}, {"mset", "b", "1", "c", "2"}})
	// a tick that finds the dataset unchanged ("nothing new to snapshot") must not forget the writes it has seen:
	// three writes, a snapshot; the same three values again, a tick that publishes nothing; one new write
	wait := []string{"@wait"}
	runAutoTrial(w, "auto.idem3.new1", thr, [][]string{{"set", "a", "1"}, {"set", "b", "1"}, {"set", "c", "1"}, wait,
		{"set", "a", "1"}, {"set", "b", "1"}, {"set", "c", "1"}, wait, {"set", "d", "1"}})
	runAutoTrial(w, "auto.snap3.new1", thr, [][]string{{"set", "a", "1"}, {"set", "b", "1"}, {"set", "c", "1"}, wait, {"set", "d", "1"}})
	runAutoTrial(w, "auto.idem2.new1", thr, [][]string{{"set", "a", "1"}, {"set", "b", "1"}, {"set", "c", "1"}, wait,
		{"set", "a", "1"}, {"set", "b", "1"}, wait, {"set", "d", "1"}})
	if tier == "thorough" {
		for _, t := range []uint64{1, 2, 5} {
			for n := 1; n <= int(t)+2; n++ {
				runAutoTrial(w, fmt.Sprintf("auto.t%d.set%d", t, n), t, mk(n))
			}
		}
	}
}
