package core

import (
	"bufio"
	"encoding/json"
	"fmt"
	"os"
)

// write-heavy command mix over the modelled families
func (g *Gen) persistCommand(now int64) []string {
	switch g.R.Intn(10) {
	case 0, 1, 2, 3:
		return g.KvCommand(now)
	case 4, 5:
		return g.ListCommand()
	case 6, 7:
		return g.HashCommand()
	default:
		return g.SetCommand()
	}
}

func genAofSeq(g *Gen, id string, n int, tier string) PSeq {
	s := PSeq{ID: id, Mode: "aof", Sync: g.Pick([]string{"always", "always", "always", "no", "everysec"})}
	if g.Chance(0.25) {
		s.RestoreAdv = []int64{1, 1000, 5000, 100000}[g.R.Intn(4)]
	}
	s.Torn = 1
	if tier == "thorough" {
		s.Torn = 3
		if g.Chance(0.2) {
			s.Torn = -1
		}
	}
	if g.Chance(0.3) {
		s.Redurable = 1 + g.R.Intn(6)
	}
	now := StartMs
	tcp := g.Chance(0.5)
	conn := -1
	if tcp {
		conn = 0
	}
	// a class-free core: database 0, no expiry, deterministic commands — most histories stay inside it
	plain := g.Chance(0.5)
	for i := 0; i < n; i++ {
		var adv int64
		if !plain && g.Chance(0.15) {
			adv = []int64{1, 500, 1000, 1500, 10000}[g.R.Intn(5)]
		}
		now += adv
		op := POp{Conn: conn, Adv: adv}
		switch {
		case g.Chance(0.08):
			op.Cmd = HexCmd([]string{"@rewrite"})
			if g.Chance(0.4) {
				op.Inject = HexCmd(g.Pick2([][]string{{"set", "inj", "1"}, {"rpush", "injl", "x"}, {"incr", "injc"}, {"append", "k1", "!"}, {"del", "k1"}}))
				op.InjectAt = g.Pick([]string{"aof.rewrite.begin", "aof.preamble.state.copied", "aof.preamble.truncate.done", "aof.preamble.write.done", "aof.preamble.sync.done"})
			}
		case !plain && tcp && g.Chance(0.06):
			op.Cmd = HexCmd([]string{"select", g.Pick([]string{"0", "1", "1", "2", "10"})})
		case plain:
			op.Cmd = HexCmd(g.plainWrite())
		default:
			op.Cmd = HexCmd(g.persistCommand(now))
		}
		s.Ops = append(s.Ops, op)
	}
	return s
}

// deterministic writes on database 0 without deadlines (the class-free core of the log property)
func (g *Gen) plainWrite() []string {
	k := g.Pick([]string{"k1", "k2", "k3", "c\r\nk", ""})
	v := g.Pick([]string{"a", "", "hello world", "a\r\nb", "\x00\xff", "007", "12", "-3", "2.5", "9007199254740993", "x y"})
	switch g.R.Intn(16) {
	case 0, 1, 2:
		return []string{"set", k, v}
	case 3:
		return []string{"append", k, v}
	case 4:
		return []string{g.Pick([]string{"incr", "decr"}), g.Pick([]string{"n1", "n2"})}
	case 5:
		return []string{g.Pick([]string{"incrby", "decrby"}), g.Pick([]string{"n1", "n2"}), g.Pick([]string{"1", "-1", "5", "0"})}
	case 6:
		return []string{"del", k, g.Pick([]string{"k1", "l1", "h1", "s1"})}
	case 7:
		return []string{g.Pick([]string{"rpush", "lpush"}), g.Pick([]string{"l1", "l2"}), v, g.Pick([]string{"x", "y"})}
	case 8:
		return []string{g.Pick([]string{"lpop", "rpop"}), g.Pick([]string{"l1", "l2"})}
	case 9:
		return []string{"hset", g.Pick([]string{"h1", "h2"}), g.Pick([]string{"f1", "f2"}), v}
	case 10:
		return []string{"hdel", g.Pick([]string{"h1", "h2"}), g.Pick([]string{"f1", "f2"})}
	case 11:
		return []string{"sadd", g.Pick([]string{"s1", "s2"}), v, g.Pick([]string{"m1", "m2"})}
	case 12:
		return []string{"srem", g.Pick([]string{"s1", "s2"}), v, "m1"}
	case 13:
		return []string{"mset", "k1", v, "k2", g.Pick([]string{"p", "q"})}
	case 14:
		return []string{"rename", k, g.Pick([]string{"k1", "k2"})}
	default:
		return []string{"get", k}
	}
}

func aofScripts() []PSeq {
	h := func(c ...string) []string { return HexCmd(c) }
	return []PSeq{
		{ID: "s0", Mode: "aof", Sync: "always", Torn: -1, Redurable: 3, Ops: []POp{{Conn: -1, Cmd: h("set", "k1", "a")}, {Conn: -1, Cmd: h("rpush", "l1", "x", "y")}, {Conn: -1, Cmd: h("incr", "n1")}, {Conn: -1, Cmd: h("hset", "h1", "f", "v")}, {Conn: -1, Cmd: h("sadd", "s1", "m")}}},
		{ID: "s1", Mode: "aof", Sync: "always", Torn: 2, Ops: []POp{{Conn: -1, Cmd: h("set", "k1", "a")}, {Conn: -1, Cmd: h("incr", "n1")}, {Conn: -1, Cmd: h("@rewrite")}, {Conn: -1, Cmd: h("incr", "n1")}, {Conn: -1, Cmd: h("@rewrite")}, {Conn: -1, Cmd: h("set", "k2", "b")}}},
		{ID: "s2", Mode: "aof", Sync: "always", Ops: []POp{{Conn: -1, Cmd: h("@rewrite")}, {Conn: -1, Cmd: h("set", "k1", "a")}}},
		{ID: "s3", Mode: "aof", Sync: "always", Ops: []POp{{Conn: 0, Cmd: h("select", "1")}, {Conn: 0, Cmd: h("set", "k1", "in-db-1")}, {Conn: 0, Cmd: h("select", "10")}, {Conn: 0, Cmd: h("set", "k1", "in-db-10")}, {Conn: -1, Cmd: h("set", "k2", "in-db-0")}}},
		{ID: "s4", Mode: "aof", Sync: "always", RestoreAdv: 5000, Ops: []POp{{Conn: -1, Cmd: h("set", "k1", "a", "ex", "10")}, {Conn: -1, Cmd: h("set", "k2", "b")}, {Conn: -1, Cmd: h("expire", "k2", "100")}}},
		{ID: "s5", Mode: "aof", Sync: "always", Ops: []POp{{Conn: -1, Cmd: h("set", "k1", "a")}, {Conn: -1, Cmd: h("rpush", "l1", "x")}, {Conn: -1, Cmd: h("incr", "n1")}, {Conn: -1, Cmd: h("@rewrite"), Inject: h("set", "inj", "1"), InjectAt: "aof.preamble.state.copied"}, {Conn: -1, Cmd: h("set", "k3", "c")}}},
		{ID: "s7", Mode: "aof", Sync: "always", Ops: []POp{{Conn: -1, Cmd: h("set", "k1", "a")}, {Conn: -1, Cmd: h("set", "k2", "b")}, {Conn: -1, Cmd: h("@rewrite")}, {Conn: -1, Cmd: h("del", "k1", "k2")}, {Conn: -1, Cmd: h("@rewrite")}, {Conn: -1, Cmd: h("set", "k3", "c")}}},
		{ID: "s8", Mode: "aof", Sync: "always", Ops: []POp{{Conn: -1, Cmd: h("set", "k1", "a")}, {Conn: -1, Cmd: h("@rewrite")}, {Conn: -1, Cmd: h("flushall")}, {Conn: -1, Cmd: h("@rewrite")}}},
		{ID: "s9", Mode: "aof", Sync: "always", Ops: []POp{{Conn: -1, Cmd: h("set", "k1", "a")}, {Conn: -1, Cmd: h("set", "k2", "a-much-longer-value-than-before")}, {Conn: -1, Cmd: h("@rewrite")}, {Conn: -1, Cmd: h("del", "k2")}, {Conn: -1, Cmd: h("@rewrite")}, {Conn: -1, Cmd: h("@rewrite")}}},
		{ID: "s10", Mode: "aof", Sync: "always", NoGuard: true, Ops: []POp{{Conn: -1, Cmd: h("set", "k1", "a")}, {Conn: -1, Cmd: h("rename", "nosuchkey", "k2")}, {Conn: -1, Cmd: h("@rewrite")}}},
		{ID: "s11", Mode: "aof", Sync: "always", Ops: []POp{{Conn: -1, Cmd: h("sadd", "s1", "a", "b", "c", "d", "e", "f", "g", "h")}, {Conn: -1, Cmd: h("spop", "s1", "4")}, {Conn: -1, Cmd: h("set", "k1", "a")}}},
		{ID: "s13", Mode: "aof", Sync: "always", Ops: []POp{{Conn: -1, Cmd: h("sadd", "s1", "a", "b", "c", "d", "e", "f", "g", "h")}, {Conn: -1, Cmd: h("spop", "s1", "4")}, {Conn: -1, Cmd: h("@rewrite")}}},
		{ID: "s14", Mode: "aof", Sync: "always", Ops: []POp{{Conn: -1, Cmd: h("lpush", "k1", "b", "a")}, {Conn: -1, Cmd: h("@rewrite")}, {Conn: -1, Cmd: h("rename", "k1", "k2")}, {Conn: -1, Cmd: h("set", "k3", "c")}}},
		{ID: "s12", Mode: "aof", Sync: "always", Ops: []POp{{Conn: -1, Cmd: h("set", "k1", "a", "pxat", fmt.Sprint(StartMs+500))}, {Conn: -1, Cmd: h("append", "k1", "x")}, {Conn: -1, Adv: 1000, Cmd: h("set", "k2", "b")}}},
		{ID: "s6", Mode: "aof", Sync: "always", Ops: []POp{{Conn: -1, Cmd: h("sadd", "s1", "a", "b")}, {Conn: -1, Cmd: h("hset", "h1", "f", "1")}, {Conn: -1, Cmd: h("rpush", "l1", "x")}, {Conn: -1, Cmd: h("set", "n", "5")}, {Conn: -1, Cmd: h("@rewrite")}, {Conn: -1, Cmd: h("incr", "n")}}},
	}
}

// RunAof writes the transcript of the append-only-log suite (C02, C09).
func RunAof(w *bufio.Writer, seed int64, tier string, replay string) error {
	return runPersist(w, seed, tier, replay, "aof")
}

// RunSnap writes the transcript of the snapshot suite (C03, C10).
func RunSnap(w *bufio.Writer, seed int64, tier string, replay string) error {
	return runPersist(w, seed, tier, replay, "snap")
}

func runPersist(w *bufio.Writer, seed int64, tier string, replay string, mode string) error {
	var seqW *bufio.Writer
	if sp := os.Getenv("VH_SEQS"); sp != "" {
		f, err := os.Create(sp)
		if err != nil {
			return err
		}
		defer f.Close()
		seqW = bufio.NewWriter(f)
		defer seqW.Flush()
	}
	if replay != "" {
		data, err := os.ReadFile(replay)
		if err != nil {
			return err
		}
		var rp struct {
			Seq PSeq `json:"seq"`
		}
		if err := json.Unmarshal(data, &rp); err != nil {
			return err
		}
		if rp.Seq.Auto != nil {
			runAutoTrial(w, rp.Seq.ID, rp.Seq.Auto.Thr, rp.Seq.Auto.Batch)
			return nil
		}
		return runPSeq(w, seqW, rp.Seq)
	}
	g := NewGen(seed)
	var scripts []PSeq
	nRandom, length := 40, 14
	if tier == "thorough" {
		nRandom, length = 400, 24
	}
	if mode == "aof" {
		scripts = aofScripts()
	} else {
		scripts = snapScripts()
	}
	for _, s := range scripts {
		if err := runPSeq(w, seqW, s); err != nil {
			return err
		}
	}
	if mode == "snap" {
		autoSeqW = seqW
		runAutoTrials(w, tier)
		autoSeqW = nil
	}
	for i := 0; i < nRandom; i++ {
		var s PSeq
		if mode == "aof" {
			s = genAofSeq(g, fmt.Sprintf("r%d", i), length, tier)
		} else {
			s = genSnapSeq(g, fmt.Sprintf("r%d", i), length, tier)
		}
		if err := runPSeq(w, seqW, s); err != nil {
			return err
		}
	}
	return nil
}

func snapScripts() []PSeq {
	h := func(c ...string) []string { return HexCmd(c) }
	return []PSeq{
		{ID: "s0", Mode: "snap", Sync: "no", Torn: 2, Ops: []POp{{Conn: -1, Cmd: h("set", "k1", "a")}, {Conn: -1, Cmd: h("set", "k2", "b")}, {Conn: -1, Cmd: h("@snapshot")}, {Conn: -1, Adv: 10, Cmd: h("set", "k3", "c")}, {Conn: -1, Adv: 10, Cmd: h("@snapshot")}, {Conn: -1, Cmd: h("set", "k4", "d")}}},
		{ID: "s1", Mode: "snap", Sync: "no", Ops: []POp{{Conn: -1, Cmd: h("rpush", "l1", "x")}, {Conn: -1, Cmd: h("hset", "h1", "f", "1")}, {Conn: -1, Cmd: h("sadd", "s1", "m")}, {Conn: -1, Cmd: h("set", "n", "5")}, {Conn: -1, Cmd: h("@snapshot")}}},
		{ID: "s2", Mode: "snap", Sync: "no", RestoreAdv: 5000, Ops: []POp{{Conn: -1, Cmd: h("set", "k1", "a", "px", "1000")}, {Conn: -1, Cmd: h("set", "k2", "b", "px", "100000")}, {Conn: -1, Cmd: h("@snapshot")}}},
		{ID: "s3", Mode: "snap", Sync: "no", Ops: []POp{{Conn: -1, Cmd: h("set", "k1", "a")}, {Conn: -1, Cmd: h("@snapshot")}, {Conn: -1, Adv: 10, Cmd: h("@snapshot")}, {Conn: -1, Adv: 10, Cmd: h("set", "k1", "b")}, {Conn: -1, Adv: 10, Cmd: h("@snapshot")}}},
		{ID: "s5", Mode: "snap", Sync: "no", Ops: []POp{{Conn: -1, Cmd: h("set", "a", "x", "px", "100")}, {Conn: -1, Cmd: h("set", "b", "y")}, {Conn: 0, Cmd: h("select", "1")}, {Conn: 0, Cmd: h("set", "a", "z")}, {Conn: 0, Cmd: h("set", "b", "w", "px", "100")},
			{Conn: -1, Adv: 200, Cmd: h("@snapshot")}, {Conn: -1, Adv: 10, Cmd: h("set", "c", "1")}}},
		{ID: "s6", Mode: "snap", Sync: "no", Ops: []POp{{Conn: -1, Cmd: h("set", "k1", "a")}, {Conn: -1, Cmd: h("@snapshot")}, {Conn: -1, Adv: 10, Cmd: h("set", "k1", "b")}, {Conn: -1, Adv: 10, Cmd: h("@snapshot-blocked")}, {Conn: -1, Adv: 10, Cmd: h("set", "k2", "c")}, {Conn: -1, Adv: 10, Cmd: h("@snapshot")}}},
		{ID: "s7", Mode: "snap", Sync: "no", Ops: []POp{{Conn: -1, Cmd: h("set", "k1", "a")}, {Conn: -1, Cmd: h("@snapshot-blocked")}, {Conn: -1, Adv: 10, Cmd: h("@snapshot")}}},
		{ID: "s8", Mode: "snap", Sync: "no", Ops: []POp{{Conn: -1, Cmd: h("set", "k1", "a")}, {Conn: -1, Cmd: h("hset", "h1", "f", "inf")}, {Conn: -1, Cmd: h("@snapshot")}, {Conn: -1, Adv: 10, Cmd: h("set", "k2", "b")}}},
		{ID: "s4", Mode: "snap", Sync: "no", Ops: []POp{{Conn: 0, Cmd: h("select", "1")}, {Conn: 0, Cmd: h("set", "k1", "db1")}, {Conn: -1, Cmd: h("set", "k1", "db0")}, {Conn: -1, Cmd: h("@snapshot")}}},
	}
}

func genSnapSeq(g *Gen, id string, n int, tier string) PSeq {
	s := PSeq{ID: id, Mode: "snap", Sync: "no"}
	if g.Chance(0.3) {
		s.RestoreAdv = []int64{1, 1000, 5000, 100000}[g.R.Intn(4)]
	}
	s.Torn = 1
	if tier == "thorough" {
		s.Torn = 4
	}
	now := StartMs
	tcp := g.Chance(0.4)
	conn := -1
	if tcp {
		conn = 0
	}
	plain := g.Chance(0.5)
	for i := 0; i < n; i++ {
		adv := int64(1 + g.R.Intn(3))
		if !plain && g.Chance(0.15) {
			adv = []int64{1, 500, 1000, 1500, 10000}[g.R.Intn(5)]
		}
		now += adv
		op := POp{Conn: conn, Adv: adv}
		switch {
		case g.Chance(0.15):
			op.Cmd = HexCmd([]string{"@snapshot"})
			if g.Chance(0.15) {
				op.Cmd = HexCmd([]string{"@snapshot-blocked"})
			}
		case !plain && tcp && g.Chance(0.06):
			op.Cmd = HexCmd([]string{"select", g.Pick([]string{"0", "1", "1", "2", "10"})})
		case !plain && g.Chance(0.2):
			// same key names on several databases, short deadlines: expiry must be judged per database
			op.Cmd = HexCmd([]string{"set", g.Pick([]string{"a", "b"}), g.Pick([]string{"x", "y"}), "px", g.Pick([]string{"100", "400", "2000"})})
		case plain:
			op.Cmd = HexCmd(g.plainString())
		default:
			op.Cmd = HexCmd(g.persistCommand(now))
		}
		s.Ops = append(s.Ops, op)
	}
	s.Ops = append(s.Ops, POp{Conn: conn, Adv: 5, Cmd: HexCmd([]string{"@snapshot"})})
	return s
}

// string-valued writes only (values the JSON encoding carries unchanged)
func (g *Gen) plainString() []string {
	k := g.Pick([]string{"k1", "k2", "k3", "key with space"})
	v := g.Pick([]string{"a", "", "hello world", "a\r\nb", "x y", "<&>", "q\"uote", "tab\t"})
	switch g.R.Intn(6) {
	case 0, 1, 2:
		return []string{"set", k, v}
	case 3:
		return []string{"append", k, v}
	case 4:
		return []string{"del", k}
	default:
		return []string{"mset", "k1", v, "k2", "z"}
	}
}
