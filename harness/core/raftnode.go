package core

// Cluster-mode instances for the raft suite: real NewSugarDB with BootstrapCluster / JoinAddr on
// loopback (dynamic ports), each node with its own virtual clock. Nothing here re-implements the
// server: commands go through handleCommand (VerifHandle) or through the node's own raft.FSM
// (built by internal/raft from the options NewSugarDB passed to it).

import (
	"context"
	"encoding/json"
	"fmt"
	"net"
	"os"
	"sync"
	"syscall"
	"time"

	"github.com/echovault/sugardb/internal"
	"github.com/echovault/sugardb/internal/verifhook"
	"github.com/echovault/sugardb/sugardb"
	hraft "github.com/hashicorp/raft"
)

// RNode is one cluster-mode server.
type RNode struct {
	S     *sugardb.SugarDB
	Clock *VClock
	ID    string
	Fwd   bool
	FSM   hraft.FSM
	Inner *hraft.Raft
	Disc  int
	conns map[int]*net.Conn
	all   []*net.Conn
	Dead  bool
}

func freePort() (int, error) {
	for try := 0; try < 50; try++ {
		l, err := net.Listen("tcp", "127.0.0.1:0")
		if err != nil {
			return 0, err
		}
		p := l.Addr().(*net.TCPAddr).Port
		u, err := net.ListenPacket("udp", fmt.Sprintf("127.0.0.1:%d", p))
		l.Close()
		if err != nil {
			continue
		}
		u.Close()
		return p, nil
	}
	return 0, fmt.Errorf("no free loopback port")
}

var portMu sync.Mutex
var usedPorts = map[int]bool{}

func distinctPort() (int, error) {
	portMu.Lock()
	defer portMu.Unlock()
	for try := 0; try < 100; try++ {
		p, err := freePort()
		if err != nil {
			return 0, err
		}
		if !usedPorts[p] {
			usedPorts[p] = true
			return p, nil
		}
	}
	return 0, fmt.Errorf("no unused loopback port")
}

// NewRNode starts one node. join == "" bootstraps a cluster of its own.
func NewRNode(id string, fwd bool, join string, clockMs int64) (*RNode, error) {
	clk := NewVClock(clockMs)
	cfg := BaseConfig(Opts{})
	var err error
	var port, disc, rport int
	if port, err = distinctPort(); err != nil {
		return nil, err
	}
	if disc, err = distinctPort(); err != nil {
		return nil, err
	}
	if rport, err = distinctPort(); err != nil {
		return nil, err
	}
	cfg.ServerID = id
	cfg.BindAddr = "127.0.0.1"
	cfg.Port = uint16(port)
	cfg.DiscoveryPort = uint16(disc)
	cfg.RaftBindAddr = "127.0.0.1"
	cfg.RaftBindPort = uint16(rport)
	cfg.BootstrapCluster = join == ""
	cfg.JoinAddr = join
	cfg.ForwardCommand = fwd
	cfg.DataDir = ""
	s, err := sugardb.NewSugarDB(sugardb.VerifWithClock(clk), sugardb.WithConfig(cfg))
	if err != nil {
		return nil, err
	}
	n := &RNode{S: s, Clock: clk, ID: id, Fwd: fwd, Disc: disc, conns: map[int]*net.Conn{}}
	n.Inner = s.VerifRaft().VerifInner()
	n.FSM = s.VerifRaft().VerifNewFSM()
	return n, nil
}

func raftWaitFor(d time.Duration, cond func() bool) bool {
	end := time.Now().Add(d)
	for {
		if cond() {
			return true
		}
		if time.Now().After(end) {
			return false
		}
		time.Sleep(2 * time.Millisecond)
	}
}

func (n *RNode) IsLeader() bool { return n.Inner.State() == hraft.Leader }

// Shutdown stops the gossip and raft layers of the node.
func (n *RNode) Shutdown() {
	done := make(chan struct{})
	go func() {
		defer close(done)
		defer func() { _ = recover() }()
		_ = n.Inner.Shutdown().Error()
		n.S.VerifMemberList().MemberListShutdown()
	}()
	select {
	case <-done:
	case <-time.After(5 * time.Second):
	}
}

// ---- observation of where a command executed ----------------------------------------------------

type pointLog struct {
	done bool // handlecommand.handler.done reached on the calling goroutine
	mut  bool // a mutating keyspace primitive was entered on the calling goroutine
}

var trackMu sync.Mutex
var tracked = map[int64]*pointLog{}

func installPointTracker() {
	verifhook.SetHandler(func(name string) {
		g := goid()
		trackMu.Lock()
		if p, ok := tracked[g]; ok {
			switch name {
			case "handlecommand.handler.done":
				p.done = true
			case "keyspace.setValues", "keyspace.setExpiry", "keyspace.deleteKey", "keyspace.flush":
				p.mut = true
			}
		}
		trackMu.Unlock()
	})
}

// Conn returns the node's client connection that has `db` selected (SELECT runs on the node itself).
func (n *RNode) Conn(db int) *net.Conn {
	if c, ok := n.conns[db]; ok {
		return c
	}
	a, _ := net.Pipe()
	c := net.Conn(a)
	n.S.VerifRegisterConn(&c)
	n.all = append(n.all, &c)
	n.conns[db] = &c
	if db != 0 {
		_, _ = n.S.VerifHandle(context.Background(), Encode([]string{"select", fmt.Sprint(db)}), &c, false, false)
	}
	return &c
}

func (n *RNode) connID(c *net.Conn) int {
	for i, x := range n.all {
		if x == c {
			return i + 1
		}
	}
	return 0
}

func (n *RNode) Dump() (string, error) { return DumpState(n.S.VerifSnapshot(), n.connID) }

// Exec sends one client command to the node through handleCommand on a connection with `db` selected.
func (n *RNode) Exec(db int, cmd []string) (Result, pointLog) {
	conn := n.Conn(db)
	type out struct {
		r Result
		p pointLog
	}
	ch := make(chan out, 1)
	go func() {
		g := goid()
		pl := &pointLog{}
		trackMu.Lock()
		tracked[g] = pl
		trackMu.Unlock()
		fin := func(r Result) {
			trackMu.Lock()
			delete(tracked, g)
			p := *pl
			trackMu.Unlock()
			ch <- out{r, p}
		}
		defer func() {
			if r := recover(); r != nil {
				fin(Result{"panic", fmt.Sprint(r)})
			}
		}()
		res, err := n.S.VerifHandle(context.Background(), Encode(cmd), conn, false, false)
		if err != nil {
			fin(Result{"err", err.Error()})
			return
		}
		fin(Result{"ok", string(res)})
	}()
	select {
	case o := <-ch:
		return o.r, o.p
	case <-time.After(4 * time.Second):
		n.Dead = true
		return Result{"hang", ""}, pointLog{}
	}
}

// Apply feeds one log entry to the node's state machine (raft.FSM.Apply), built exactly as
// raftApplyCommand builds it.
func (n *RNode) Apply(db, proto int, cmd []string) Result {
	req := internal.ApplyRequest{Type: "command", ServerID: n.ID, ConnectionID: "1", Protocol: proto, Database: db, CMD: cmd}
	b, err := json.Marshal(req)
	if err != nil {
		return Result{"err", "marshal: " + err.Error()}
	}
	ch := make(chan Result, 1)
	go func() {
		defer func() {
			if r := recover(); r != nil {
				ch <- Result{"panic", fmt.Sprint(r)}
			}
		}()
		r := n.FSM.Apply(&hraft.Log{Type: hraft.LogCommand, Data: b})
		ar, ok := r.(internal.ApplyResponse)
		if !ok {
			ch <- Result{"err", fmt.Sprintf("unprocessable entity %v", r)}
			return
		}
		if ar.Error != nil {
			ch <- Result{"err", ar.Error.Error()}
			return
		}
		ch <- Result{"ok", string(ar.Response)}
	}()
	select {
	case r := <-ch:
		return r
	case <-time.After(3 * time.Second):
		n.Dead = true
		return Result{"hang", ""}
	}
}

// ---- a three-node cluster --------------------------------------------------------------------

// Cluster: node 0 bootstraps (leader), node 1 forwards, node 2 does not forward.
type Cluster struct {
	Nodes   []*RNode
	markers int
}

// BarrierDb holds the marker key of Barrier.
const BarrierDb = 15

// Barrier writes a marker through the leader and waits until every node's store shows it. Raft's
// AppliedIndex runs ahead of the state machine on followers (entries are handed to the FSM goroutine
// asynchronously); the state machine applies in log order, so a node that shows the marker has applied
// everything before it. Returns the marker command and the leader's reply (the marker is part of the
// batch the transcript reports).
func (c *Cluster) Barrier(d time.Duration) ([]string, Result, bool) {
	c.markers++
	val := fmt.Sprintf("b%d", c.markers)
	cmd := []string{"set", "__barrier", val}
	res, _ := c.Leader().Exec(BarrierDb, cmd)
	ok := raftWaitFor(d, func() bool {
		for _, n := range c.Nodes {
			raw := n.S.VerifSnapshot()
			kd, found := raw.Store[BarrierDb]["__barrier"]
			if !found || fmt.Sprint(kd.Value) != val {
				return false
			}
		}
		return true
	})
	return cmd, res, ok
}

func NewCluster(clocks []int64) (*Cluster, error) {
	var lastErr error
	for attempt := 0; attempt < 3; attempt++ {
		c, err := newClusterOnce(clocks)
		if err == nil {
			return c, nil
		}
		lastErr = err
	}
	return nil, lastErr
}

func newClusterOnce(clocks []int64) (*Cluster, error) {
	c := &Cluster{}
	tag := fmt.Sprintf("%d", time.Now().UnixNano()%1000000)
	lead, err := NewRNode("N0-"+tag, true, "", StartMs+clocks[0])
	if err != nil {
		return nil, err
	}
	c.Nodes = append(c.Nodes, lead)
	if !raftWaitFor(30*time.Second, lead.IsLeader) {
		c.Shutdown()
		return nil, fmt.Errorf("node 0 did not become leader")
	}
	join := fmt.Sprintf("%s/127.0.0.1:%d", lead.ID, lead.Disc)
	for i := 1; i < len(clocks); i++ {
		n, err := NewRNode(fmt.Sprintf("N%d-%s", i, tag), i == 1, join, StartMs+clocks[i])
		if err != nil {
			c.Shutdown()
			return nil, err
		}
		c.Nodes = append(c.Nodes, n)
		if !raftWaitFor(40*time.Second, func() bool { return n.S.VerifRaft().HasJoinedCluster() }) {
			c.Shutdown()
			return nil, fmt.Errorf("node %d did not join", i)
		}
	}
	ok := raftWaitFor(40*time.Second, func() bool {
		f := lead.Inner.GetConfiguration()
		if f.Error() != nil || len(f.Configuration().Servers) != len(clocks) {
			return false
		}
		for _, n := range c.Nodes {
			if n.S.VerifMemberList().VerifMembers() != len(clocks) {
				return false
			}
		}
		return true
	})
	if !ok || !c.Quiesce(0, 20*time.Second) {
		c.Shutdown()
		return nil, fmt.Errorf("cluster did not settle")
	}
	return c, nil
}

func (c *Cluster) Leader() *RNode { return c.Nodes[0] }

// Quiesce waits until the leader's log has grown to at least `minIndex`, every gossip queue is
// empty and every node has applied the leader's last index (no fixed sleeps: polls raft's own counters).
func (c *Cluster) Quiesce(minIndex uint64, d time.Duration) bool {
	stable := 0
	reached := false
	var quietSince time.Time
	raftWaitFor(d, func() bool {
		l := c.Leader().Inner.LastIndex()
		quiet := true
		for _, n := range c.Nodes {
			if n.Inner.AppliedIndex() != l || n.Inner.LastIndex() != l || n.S.VerifMemberList().VerifQueued() != 0 {
				quiet = false
			}
		}
		if !quiet {
			stable = 0
			quietSince = time.Time{}
			return false
		}
		if l >= minIndex {
			stable++
			reached = stable >= 3
			return reached
		}
		// quiet but short of the expected index: a forwarded message is either in some node's gossip queue or
		// being handled; when every queue has been empty and every index still for three seconds (six gossip
		// intervals) nothing more is on its way
		if quietSince.IsZero() {
			quietSince = time.Now()
		}
		return time.Since(quietSince) > 3*time.Second
	})
	return reached
}

func (c *Cluster) Shutdown() {
	var wg sync.WaitGroup
	for i := len(c.Nodes) - 1; i >= 0; i-- {
		wg.Add(1)
		go func(n *RNode) { defer wg.Done(); n.Shutdown() }(c.Nodes[i])
	}
	wg.Wait()
}

// silenceStderr points fd 2 at /dev/null (raft and memberlist log there) and returns a restore function.
func silenceStderr() func() {
	if os.Getenv("VH_RAFT_LOG") != "" {
		return func() {}
	}
	dn, err := os.OpenFile(os.DevNull, os.O_WRONLY, 0)
	if err != nil {
		return func() {}
	}
	saved, err := syscall.Dup(2)
	if err != nil {
		return func() {}
	}
	if err := syscall.Dup3(int(dn.Fd()), 2, 0); err != nil {
		return func() {}
	}
	return func() {
		_ = syscall.Dup3(saved, 2, 0)
		_ = syscall.Close(saved)
		dn.Close()
	}
}
