package core

import (
	"bufio"
	"encoding/hex"
	"encoding/json"
	"fmt"
	"net"
	"os"
)

// Op is one step of a replayable history.
type Op struct {
	Conn int      `json:"conn"`          // -1 embedded, >=0 index of a registered TCP-style connection
	Cmd  []string `json:"cmd,omitempty"` // hex-encoded arguments
	Adv  int64    `json:"adv,omitempty"` // advance the virtual clock by this many ms before the command
	At   int64    `json:"at,omitempty"`  // or set the virtual clock to this absolute ms (if non-zero)
	Tick int      `json:"tick,omitempty"` // evict suite: run one background TTL-sampler pass on database Tick-1 instead of a command
}

// Seq is a replayable sequence on a fresh instance.
type Seq struct {
	ID   string `json:"id"`
	Opts Opts   `json:"opts"`
	Ops  []Op   `json:"ops"`
}

func HexCmd(cmd []string) []string {
	o := make([]string, len(cmd))
	for i, a := range cmd {
		o[i] = hex.EncodeToString([]byte(a))
	}
	return o
}

func UnhexCmd(h []string) []string {
	o := make([]string, len(h))
	for i, a := range h {
		b, _ := hex.DecodeString(a)
		o[i] = string(b)
	}
	return o
}

// Runner executes sequences and writes transcript lines.
type Runner struct {
	W     *bufio.Writer
	SeqW  *bufio.Writer
	Hangs int
	Lines int
}

// RunSeq executes a sequence on a fresh instance, emitting one transition per command.
func (r *Runner) RunSeq(s Seq) error {
	in, err := NewInst(s.Opts)
	if err != nil {
		return err
	}
	defer in.S.ShutDown()
	var conns []*net.Conn
	for i, op := range s.Ops {
		if op.At != 0 {
			in.Clock.Set(op.At)
		}
		if op.Adv != 0 {
			in.Clock.Advance(op.Adv)
		}
		if len(op.Cmd) == 0 {
			continue
		}
		var c *net.Conn
		if op.Conn >= 0 {
			for len(conns) <= op.Conn {
				conns = append(conns, in.NewConn())
			}
			c = conns[op.Conn]
		}
		line, res, err := in.Transition(fmt.Sprintf("%s.%d", s.ID, i), c, UnhexCmd(op.Cmd))
		if err != nil {
			return fmt.Errorf("seq %s op %d: %v", s.ID, i, err)
		}
		if res.Kind == "hang" {
			r.Hangs++
			fmt.Fprintf(r.W, "H %s.%d\n", s.ID, i)
			break
		}
		r.W.WriteString(line)
		r.W.WriteByte('\n')
		r.Lines++
	}
	if r.SeqW != nil {
		j, _ := json.Marshal(s)
		r.SeqW.Write(j)
		r.SeqW.WriteByte('\n')
	}
	return nil
}

// kvAlphabet is the small alphabet used for exhaustive depth-2 enumeration.
func kvAlphabet() [][]string {
	n := StartMs
	return [][]string{
		{"set", "k1", "a"}, {"set", "k1", "007"}, {"set", "k1", "1.50"}, {"set", "k1", ""}, {"set", "k2", "5"},
		{"set", "k1", "b", "nx"}, {"set", "k1", "b", "xx"}, {"set", "k1", "c", "get"}, {"set", "k1", "d", "px", "1000"},
		{"set", "k1", "e", "pxat", fmt.Sprint(n + 500)}, {"set", "k1", "v", "nx", "xx"},
		{"get", "k1"}, {"get", "k3"}, {"mget", "k1", "k2", "k9"}, {"mset", "k1", "x", "k2", "10"},
		{"del", "k1"}, {"del", "k1", "k1", "k2"}, {"incr", "k1"}, {"decr", "k2"}, {"incrby", "k2", "5"},
		{"decrby", "k2", "-9223372036854775808"}, {"incrbyfloat", "k2", "0.25"}, {"append", "k1", "zz"}, {"append", "k2", "1"},
		{"setrange", "k1", "1", "ZZ"}, {"setrange", "k9", "0", "q"}, {"getrange", "k1", "0", "-1"}, {"getrange", "k1", "5", "10"},
		{"strlen", "k1"}, {"rename", "k1", "k2"}, {"rename", "k1", "k1"}, {"getdel", "k1"}, {"getex", "k1", "px", "1000"}, {"getex", "k1", "persist"},
		{"type", "k1"}, {"type", "k3"}, {"flushdb"}, {"ttl", "k1"}, {"pttl", "k1"}, {"expire", "k1", "1"}, {"pexpire", "k1", "1500", "gt"},
		{"pexpireat", "k1", fmt.Sprint(n + 1500), "lt"}, {"persist", "k1"}, {"pexpiretime", "k1"}, {"expire", "k1", "1", "nx"}, {"expire", "k1", "10", "xx"},
	}
}

// kvScripts are deterministic regression histories of repaired defects (GETEX PERSIST, GETRANGE/SUBSTR index
// clamping, MGET of the empty string, SETRANGE on an absent key): the inputs that used to fail, each followed by
// the reads that show the repaired effect.
func kvScripts() [][][]string {
	return [][][]string{
		{{"set", "k1", "d", "px", "1000"}, {"getex", "k1", "PERSIST"}, {"pttl", "k1"}, {"get", "k1"}},
		{{"set", "k1", "d", "ex", "100"}, {"getex", "k1", "persist", "x"}, {"ttl", "k1"}, {"expiretime", "k1"}},
		{{"set", "k1", "d"}, {"getex", "k1", "Persist", "1"}, {"ttl", "k1"}},
		{{"set", "k1", "abc"}, {"getrange", "k1", "5", "10"}, {"getrange", "k1", "-7", "100"}, {"substr", "k1", "10", "1"},
			{"substr", "k1", "2", "-100"}, {"getrange", "k1", "-50", "-100"}, {"getrange", "k1", "-100", "-50"},
			{"getrange", "k1", "3", "3"}, {"getrange", "k1", "4", "0"}, {"substr", "k1", "-1", "-3"},
			{"getrange", "k1", "0", "9223372036854775807"}, {"getrange", "k1", "-9223372036854775808", "2"}, {"get", "k1"}},
		{{"set", "k1", ""}, {"getrange", "k1", "0", "-1"}, {"substr", "k1", "5", "-7"}, {"getrange", "k1", "-1", "1"}},
		{{"set", "k1", ""}, {"mget", "k1", "k2", "k1"}, {"set", "k2", "0"}, {"mget", "k2", "k1", "k9"}},
		{{"setrange", "k9", "5", "ab"}, {"get", "k9"}, {"strlen", "k9"}, {"setrange", "k9", "1", "Z"}, {"get", "k9"}},
		{{"setrange", "k8", "-3", "q"}, {"get", "k8"}, {"setrange", "k7", "0", ""}, {"mget", "k7", "k8"}, {"type", "k7"}},
		// RENAME moves the value with its own deadline (was: the overwritten key's deadline was kept, the source's dropped)
		{{"set", "k1", "old", "px", "1000"}, {"set", "k2", "7", "px", "3000"}, {"rename", "k1", "k2"}, {"pttl", "k2"}, {"get", "k2"}, {"get", "k1"}, {"pttl", "k1"}},
		{{"set", "k1", "p"}, {"set", "k2", "7", "px", "3000"}, {"rename", "k1", "k2"}, {"pttl", "k2"}, {"ttl", "k2"}, {"get", "k2"}},
		{{"set", "k1", "a", "ex", "100"}, {"rename", "k1", "k3"}, {"ttl", "k3"}, {"expiretime", "k3"}, {"set", "k2", "b", "ex", "100"}, {"rename", "k2", "k3"}, {"ttl", "k3"}, {"rename", "k3", "k3"}, {"ttl", "k3"}},
		// INCR / DECR / INCRBY / DECRBY at the int64 boundary fail and leave the value (was: the result wrapped around)
		{{"decrby", "k2", "-9223372036854775808"}, {"get", "k2"}, {"set", "k1", "9223372036854775807"}, {"incr", "k1"}, {"get", "k1"},
			{"incrby", "k1", "1"}, {"decrby", "k1", "-1"}, {"incrby", "k1", "-9223372036854775808"}, {"get", "k1"}, {"decr", "k1"}, {"decr", "k1"}, {"get", "k1"}},
		{{"set", "k1", "-9223372036854775808", "px", "5000"}, {"decr", "k1"}, {"decrby", "k1", "9223372036854775807"}, {"incrby", "k1", "-1"}, {"pttl", "k1"},
			{"decrby", "k1", "-9223372036854775808"}, {"get", "k1"}, {"set", "k2", "-1"}, {"decrby", "k2", "-9223372036854775808"}, {"incr", "k2"}, {"get", "k2"}},
	}
}

// kvBases are the setups from which the exhaustive enumeration starts.
func kvBases() [][]Op {
	mk := func(cmds ...[]string) []Op {
		var o []Op
		for _, c := range cmds {
			o = append(o, Op{Conn: -1, Cmd: HexCmd(c)})
		}
		return o
	}
	return [][]Op{
		mk(),
		mk([]string{"set", "k1", "hello"}, []string{"set", "k2", "10"}, []string{"rpush", "k3", "a", "b", "c"}),
		mk([]string{"set", "k1", "v", "px", "1000"}, []string{"set", "k2", "2.5"}, []string{"hset", "k3", "f", "1"}),
		mk([]string{"set", "k1", "old", "px", "1000"}, []string{"set", "k2", "7", "px", "3000"}, []string{"sadd", "k3", "m"}),
	}
}

// Family describes one harness suite: exhaustive depth 2 over an alphabet from bases, then random histories.
type Family struct {
	Name     string
	Alphabet [][]string
	Bases    [][]Op
	AdvBases []int         // indices of bases that are also enumerated with the clock advanced
	Command  func(g *Gen, now int64) []string
	Scripts  [][][]string // scripted histories run first (embedded caller, no clock advance)
}

func familySeq(f Family, g *Gen, id string, n int) Seq {
	s := Seq{ID: id}
	now := StartMs
	tcp := g.Chance(0.4)
	conn := -1
	if tcp {
		conn = 0
	}
	for i := 0; i < n; i++ {
		if tcp && g.Chance(0.15) {
			conn = g.R.Intn(3)
		}
		var adv int64
		if g.Chance(0.2) {
			adv = []int64{1, 499, 500, 999, 1000, 1001, 1500, 2000, 10000, 100000}[g.R.Intn(10)]
		}
		now += adv
		var cmd []string
		switch {
		case g.Chance(0.2):
			cmd = g.KvCommand(now)
		case g.Chance(0.04):
			cmd = g.OtherTypeCommand()
		case g.Chance(0.05):
			cmd = []string{g.Pick([]string{"select", "SELECT"}), g.Pick([]string{"0", "1", "1", "2", "10", "11", "-1", "x", "99999999999999999999"})}
		case g.Chance(0.02):
			cmd = []string{"swapdb", g.Pick([]string{"0", "1", "2", "10", "x"}), g.Pick([]string{"0", "1", "2", "-1"})}
		case g.Chance(0.01):
			cmd = g.Pick2([][]string{{"ping"}, {"ping", "hi"}, {"echo", "a\r\nb"}, {"echo"}})
		default:
			cmd = f.Command(g, now)
		}
		s.Ops = append(s.Ops, Op{Conn: conn, Cmd: HexCmd(cmd), Adv: adv})
	}
	return s
}

// RunFamily writes the transcript of one family suite.
func RunFamily(f Family, w *bufio.Writer, seed int64, tier string, replay string) error {
	r := &Runner{W: w}
	if sp := os.Getenv("VH_SEQS"); sp != "" {
		fl, err := os.Create(sp)
		if err != nil {
			return err
		}
		defer fl.Close()
		r.SeqW = bufio.NewWriter(fl)
		defer r.SeqW.Flush()
	}
	if replay != "" {
		data, err := os.ReadFile(replay)
		if err != nil {
			return err
		}
		var rp struct {
			Seq Seq `json:"seq"`
		}
		if err := json.Unmarshal(data, &rp); err != nil {
			return err
		}
		return r.RunSeq(rp.Seq)
	}
	for si, sc := range f.Scripts {
		var ops []Op
		for _, c := range sc {
			ops = append(ops, Op{Conn: -1, Cmd: HexCmd(c)})
		}
		if err := r.RunSeq(Seq{ID: fmt.Sprintf("s%d", si), Ops: ops}); err != nil {
			return err
		}
	}
	id := 0
	for bi, base := range f.Bases {
		advs := []int64{0}
		for _, ab := range f.AdvBases {
			if ab == bi {
				advs = []int64{0, 1001}
			}
		}
		for _, adv := range advs {
			for _, c1 := range f.Alphabet {
				for _, c2 := range f.Alphabet {
					ops := append([]Op{}, base...)
					ops = append(ops, Op{Conn: -1, Cmd: HexCmd(c1), Adv: adv}, Op{Conn: -1, Cmd: HexCmd(c2)})
					if err := r.RunSeq(Seq{ID: fmt.Sprintf("x%d", id), Ops: ops}); err != nil {
						return err
					}
					id++
				}
			}
		}
	}
	nRandom, length := 300, 40
	if tier == "thorough" {
		nRandom, length = 5000, 80
	}
	g := NewGen(seed)
	for i := 0; i < nRandom; i++ {
		if err := r.RunSeq(familySeq(f, g, fmt.Sprintf("r%d", i), length)); err != nil {
			return err
		}
	}
	return nil
}

// ListFamily is the list-command suite.
func ListFamily() Family {
	return Family{Name: "list", Alphabet: listAlphabet(), Bases: listBases(), AdvBases: []int{2},
		Command: func(g *Gen, now int64) []string { return g.ListCommand() }, Scripts: listScripts()}
}

// KvFamily is the generic/string suite.
func KvFamily() Family {
	return Family{Name: "kv", Alphabet: kvAlphabet(), Bases: kvBases(), AdvBases: []int{2, 3},
		Command: func(g *Gen, now int64) []string { return g.KvCommand(now) }, Scripts: kvScripts()}
}
