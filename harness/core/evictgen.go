package core

import (
	"bufio"
	"encoding/json"
	"fmt"
	"os"
)

var evictPolicies = []string{"noeviction", "allkeys-lfu", "allkeys-lru", "volatile-lfu", "volatile-lru", "allkeys-random", "volatile-random"}

func eop(conn int, cmd ...string) Op { return Op{Conn: conn, Cmd: HexCmd(cmd)} }

// evictScripts: scripted histories, every policy x a few limits. Key/value sizes are chosen so that the
// tracked usage hits some limits exactly (2-char key + 2-char string = 60 bytes, + int value = 50 bytes).
func evictScripts() []Seq {
	var out []Seq
	id := 0
	add := func(pol string, limit uint64, ops ...Op) {
		out = append(out, Seq{ID: fmt.Sprintf("s%d", id), Opts: Opts{MaxMemory: limit, Policy: pol}, Ops: ops})
		id++
	}
	e := func(cmd ...string) Op { return eop(-1, cmd...) }
	for _, pol := range evictPolicies {
		for _, limit := range []uint64{120, 180, 200, 300} {
			// fill with equal-sized persistent keys, read some, cross the limit, read back
			add(pol, limit, e("set", "k1", "aa"), e("set", "k2", "bb"), e("get", "k1"), e("get", "k1"), e("set", "k3", "cc"),
				e("get", "k2"), e("set", "k4", "dd"), e("set", "k5", "ee"), e("get", "k1"), e("get", "k3"), e("set", "k6", "ff"), e("objectfreq", "k1"), e("objectidletime", "k1"))
			// volatile keys mixed with persistent ones
			add(pol, limit, e("set", "k1", "aa", "px", "500000"), e("set", "k2", "bb"), e("get", "k1"), e("set", "k3", "cc", "ex", "900"), e("get", "k3"), e("get", "k3"),
				e("set", "k4", "dd"), e("expire", "k4", "100"), e("get", "k4"), e("set", "k5", "ee"), e("touch", "k1", "k3", "k5"), e("set", "k6", "ff"), e("get", "k2"))
			// delete and re-create, persist, overwrite
			add(pol, limit, e("set", "k1", "aa"), e("get", "k1"), e("get", "k1"), e("get", "k1"), e("del", "k1"), e("objectfreq", "k1"), e("set", "k1", "zz"), e("objectfreq", "k1"),
				e("set", "k2", "bb"), e("get", "k2"), e("set", "k3", "cc"), e("set", "k4", "dd"), e("objectfreq", "k1"), e("get", "k1"))
			add(pol, limit, e("set", "k1", "aa", "ex", "100"), e("get", "k1"), e("persist", "k1"), e("set", "k2", "bb", "ex", "100"), e("get", "k2"), e("get", "k2"),
				e("set", "k3", "cc", "ex", "100"), e("get", "k3"), e("get", "k3"), e("set", "k4", "dd", "ex", "100"), e("get", "k4"), e("get", "k4"), e("set", "k5", "ee"), e("get", "k1"))
		}
		// recency / frequency order among volatile keys when a persistent key pushes usage over the limit
		add(pol, 180, e("set", "k1", "aa", "ex", "100"), e("get", "k1"), e("set", "k2", "bb", "ex", "100"), e("get", "k2"), e("set", "k3", "cc"), e("get", "k1"), e("get", "k2"))
		add(pol, 180, e("set", "k1", "aa", "ex", "100"), e("get", "k1"), e("get", "k1"), e("set", "k2", "bb", "ex", "100"), e("get", "k2"), e("set", "k3", "cc"), e("get", "k1"), e("get", "k2"))
		if pol != "noeviction" {
			// the background sampler (started under every eviction policy; one pass per EvictionInterval)
			tick := Op{Conn: -1, Tick: 1}
			add(pol, 1000, e("set", "k1", "aa"), tick)
			add(pol, 1000, eop(0, "set", "k1", "aa", "ex", "100"), eop(1, "select", "1"), eop(1, "set", "k2", "bb", "ex", "100"), Op{Conn: -1, Tick: 2})
		}
		if pol == "allkeys-lfu" || pol == "volatile-random" {
			tick := Op{Conn: -1, Tick: 1}
			add(pol, 1000, e("set", "k1", "aa", "ex", "100"), e("set", "k2", "bb", "ex", "100"), e("set", "k3", "cc"), tick)
		}
		if pol == "allkeys-lfu" {
			var ops []Op
			for i := 0; i < 21; i++ {
				ops = append(ops, e("set", fmt.Sprintf("v%d", i), "x", "ex", "100"))
			}
			add(pol, 100000, append(ops, Op{Conn: -1, Tick: 1})...)
			add(pol, 1000, e("set", "k1", "aa", "ex", "100"), e("flushdb"), Op{Conn: -1, Tick: 1})
		}
		// flush, then continue
		add(pol, 200, e("set", "k1", "aa"), e("get", "k1"), e("set", "k2", "bb"), e("flushdb"), e("set", "k3", "cc"), e("get", "k3"))
		add(pol, 1000, e("set", "k1", "aa", "ex", "100"), e("get", "k1"), e("flushdb"), e("set", "k3", "cc"), e("get", "k3"), e("objectfreq", "k3"))
		add(pol, 1000, e("set", "k1", "aa"), e("touch", "k1"), e("flushall"), e("touch", "k1"), e("objectfreq", "k1"))
		add(pol, 1000, e("set", "k1", "aa"), e("get", "k1"), e("flushdb"), e("objectfreq", "k1"))
		add(pol, 1000, e("set", "k1", "aa"), e("get", "k1"), e("flushdb"), e("objectidletime", "k1"))
		// OBJECTFREQ / OBJECTIDLETIME before the first write (the database has no cache yet), then after it
		add(pol, 1000, e("objectfreq", "k1"), e("objectidletime", "k1"), e("set", "k1", "aa"), e("objectfreq", "k1"), e("objectidletime", "k1"))
		// a second database without keys while the first one crosses the limit again and again (allkeys-random used to
		// spin in the empty database's adjustment; volatile-random used to index its empty volatile list)
		add(pol, 120, eop(1, "select", "1"), eop(0, "set", "k1", "aa"), eop(0, "set", "k2", "aa"), eop(0, "set", "k3", "aa"), eop(0, "set", "k4", "aa"),
			eop(0, "set", "k5", "aa"), eop(0, "set", "k6", "aa"), eop(0, "set", "k7", "aa"), eop(0, "set", "k8", "aa"), eop(1, "set", "k9", "bb"), eop(0, "get", "k8"))
		// flush under pressure: the counter follows the data, the heaps and the volatile index are emptied
		add(pol, 200, e("set", "k1", "aa", "ex", "100"), e("set", "k2", "bb"), e("get", "k1"), e("set", "k3", "cc", "ex", "100"), e("flushall"), e("set", "k4", "dd", "ex", "100"),
			e("set", "k5", "ee"), e("get", "k4"), e("set", "k6", "ff", "ex", "100"), e("set", "k7", "gg"), e("del", "k4"), e("objectfreq", "k5"), e("objectidletime", "k5"))
		// everything deleted while above the limit (usage only grows on overwrite)
		add(pol, 150, e("set", "k1", "aa"), e("set", "k1", "bb"), e("set", "k1", "cc"), e("del", "k1"), e("set", "k2", "dd"), e("get", "k2"), e("set", "k3", "ee"))
		// expiry of volatile keys under a limit
		add(pol, 180, e("set", "k1", "aa", "px", "100"), e("set", "k2", "bb", "px", "100"), e("get", "k1"), Op{Conn: -1, Cmd: HexCmd([]string{"get", "k1"}), Adv: 200},
			e("set", "k3", "cc"), e("set", "k4", "dd"), e("get", "k2"), e("set", "k5", "ee"))
		// two databases
		add(pol, 200, eop(0, "set", "k1", "aa"), eop(0, "get", "k1"), eop(1, "select", "1"), eop(1, "set", "k2", "bb"), eop(1, "get", "k2"), eop(0, "set", "k3", "cc"),
			eop(1, "set", "k4", "dd", "ex", "100"), eop(0, "get", "k3"), eop(1, "get", "k4"), eop(0, "set", "k5", "ee"), eop(1, "set", "k6", "ff"))
		// other value types
		add(pol, 400, e("rpush", "l1", "a", "b"), e("sadd", "s1", "m1", "m2"), e("hset", "h1", "f", "v"), e("set", "k1", "5"), e("incr", "k1"), e("lrange", "l1", "0", "-1"),
			e("smembers", "s1"), e("hget", "h1", "f"), e("set", "k2", "aa"), e("sadd", "s1", "m3"), e("rpush", "l1", "c"), e("set", "k3", "bb"), e("set", "k4", "cc"))
	}
	// noeviction: a push on an absent key is one write (it used to be two, the first of which could reach the limit and
	// leave an empty list behind when the second was refused); at the limit it is refused and leaves nothing
	add("noeviction", 160, e("set", "k1", "aa"), e("set", "k2", "bb"), e("rpush", "l1", "a"), e("lrange", "l1", "0", "-1"), e("lpush", "l2", "a"))
	add("noeviction", 120, e("set", "k1", "aa"), e("set", "k2", "bb"), e("rpush", "l1", "a"), e("lpush", "l2", "a", "b"), e("llen", "l1"), e("type", "l2"), e("rpushx", "l1", "a"))
	// noeviction: exact hits of the limit with equal-sized entries (60 and 50 bytes)
	for _, n := range []int{1, 2, 3, 4} {
		var ops []Op
		for i := 1; i <= n+2; i++ {
			ops = append(ops, e("set", fmt.Sprintf("k%d", i), "vv"))
		}
		ops = append(ops, e("get", "k1"), e("del", "k1"), e("set", "k9", "ww"), e("set", "k1", "xx"))
		add("noeviction", uint64(60*n), ops...)
		ops = nil
		for i := 1; i <= n+2; i++ {
			ops = append(ops, e("set", fmt.Sprintf("k%d", i), "7"))
		}
		ops = append(ops, e("incr", "k1"), e("del", "k1", "k2"), e("set", "k8", "1"), e("append", "k8", "x"))
		add("noeviction", uint64(50*n), ops...)
	}
	// deleting the value-less entries that SET … PX leaves behind at the limit drives the usage counter below zero:
	// the next cache update then treats usage as over the limit (found by the thorough tier)
	add("allkeys-lfu", 120, e("set", "k6", "xxxxxxxxxxxxxxxxxxxx"), e("set", "k1", "xxxxxxxxxxxxxxxxxxxx", "px", "100"), e("set", "k5", "5", "px", "100"),
		e("del", "k6", "k1"), e("touch", "k5"))
	// long access histories: recorded counts far beyond a byte (a busy key must stay ahead of a less busy one)
	for _, pol := range []string{"allkeys-lfu", "volatile-lfu"} {
		ops := []Op{e("set", "k1", "aa", "ex", "900"), e("set", "k2", "bb", "ex", "900"), e("set", "k3", "cc", "ex", "900")}
		for i := 0; i < 262; i++ {
			ops = append(ops, e("get", "k3"))
		}
		for i := 0; i < 258; i++ {
			ops = append(ops, e("get", "k2"))
		}
		ops = append(ops, e("objectfreq", "k3"), e("objectfreq", "k2"), e("set", "k4", "dd", "ex", "900"), e("set", "k5", "ee", "ex", "900"), e("set", "k6", "ff", "ex", "900"))
		add(pol, 240, ops...)
	}
	return out
}

var evictKeys = []string{"k1", "k2", "k3", "k4", "k5", "k6"}
var evictVals = []string{"aa", "bb", "cc", "dd", "5", "12", "hello", "xxxxxxxxxxxxxxxxxxxx", ""}

func evictRandom(g *Gen, id string, n int) Seq {
	pol := g.Pick(evictPolicies)
	limit := []uint64{120, 180, 240, 300, 150, 200, 250, 360, 500, 1000}[g.R.Intn(10)]
	s := Seq{ID: id, Opts: Opts{MaxMemory: limit, Policy: pol}}
	k := func() string { return g.Pick(evictKeys) }
	v := func() string { return g.Pick(evictVals) }
	tcp := g.Chance(0.3)
	conn := -1
	if tcp {
		conn = 0
	}
	collections := g.Chance(0.3)
	for i := 0; i < n; i++ {
		if tcp && g.Chance(0.15) {
			conn = g.R.Intn(2)
		}
		var adv int64
		if g.Chance(0.04) {
			adv = []int64{50, 1000, 200000}[g.R.Intn(3)]
		}
		if pol != "noeviction" && g.Chance(0.002) {
			s.Ops = append(s.Ops, Op{Conn: -1, Tick: 1 + g.R.Intn(2), Adv: adv})
			continue
		}
		var cmd []string
		x := g.R.Intn(1000)
		switch {
		case x < 300:
			cmd = []string{"set", k(), v()}
		case x < 400:
			cmd = append([]string{"set", k(), v()}, g.Pick2([][]string{{"px", "100"}, {"ex", "100"}, {"px", "500000"}, {"ex", "1000"}, {"nx"}, {"xx"}, {"get"}, {"nx", "ex", "50"}})...)
		case x < 560:
			cmd = []string{"get", k()}
		case x < 610:
			cmd = append([]string{"touch", k()}, g.Pick2([][]string{{}, {}, {k()}, {k(), k()}})...)
		case x < 660:
			cmd = []string{g.Pick([]string{"objectfreq", "objectfreq", "objectidletime"}), k()}
		case x < 710:
			cmd = []string{g.Pick([]string{"expire", "pexpire"}), k(), g.Pick([]string{"100", "100000", "1"})}
		case x < 740:
			cmd = []string{"persist", k()}
		case x < 800:
			cmd = append([]string{"del", k()}, g.Pick2([][]string{{}, {}, {k()}})...)
		case x < 820:
			cmd = []string{g.Pick([]string{"ttl", "pttl", "type", "strlen"}), k()}
		case x < 850:
			cmd = []string{"mget", k(), k()}
		case x < 880:
			cmd = g.Pick2([][]string{{"incr", k()}, {"append", k(), "zz"}, {"getdel", k()}, {"getex", k(), "persist"}, {"getex", k(), "ex", "100"}, {"mset", k(), v()}})
		case x < 890:
			cmd = []string{"flushdb"}
		case x < 894:
			cmd = []string{"flushall"}
		case x < 910 && tcp:
			cmd = []string{"select", g.Pick([]string{"0", "1", "1", "2"})}
		case x < 930:
			cmd = []string{"rename", k(), k()}
		case collections && x < 960:
			cmd = g.Pick2([][]string{{"rpush", "l" + k(), "a"}, {"lpush", "l" + k(), "b", "c"}, {"lpop", "l" + k()}, {"sadd", "s" + k(), "m1"}, {"sadd", "s" + k(), "m2", "m3"},
				{"srem", "s" + k(), "m1"}, {"hset", "h" + k(), "f", "v"}, {"hset", "h" + k(), "g", "5"}, {"hdel", "h" + k(), "f"}, {"llen", "l" + k()}, {"scard", "s" + k()}, {"hget", "h" + k(), "f"}})
		default:
			cmd = []string{"set", k(), g.Pick([]string{"aa", "bb", "7"})}
		}
		s.Ops = append(s.Ops, Op{Conn: conn, Cmd: HexCmd(cmd), Adv: adv})
	}
	return s
}

// RunEvict writes the transcript of the evict suite.
func RunEvict(w *bufio.Writer, seed int64, tier string, replay string) error {
	var seqs []Seq
	if replay != "" {
		data, err := os.ReadFile(replay)
		if err != nil {
			return err
		}
		var rp struct {
			Seq Seq `json:"seq"`
		}
		if err := json.Unmarshal(data, &rp); err != nil {
			return err
		}
		seqs = []Seq{rp.Seq}
	} else {
		seqs = evictScripts()
		n, length := 260, 30
		if tier == "thorough" {
			n, length = 1500, 50
		}
		g := NewGen(seed)
		for i := 0; i < n; i++ {
			seqs = append(seqs, evictRandom(g, fmt.Sprintf("r%d", i), length))
		}
	}
	if sp := os.Getenv("VH_SEQS"); sp != "" {
		fl, err := os.Create(sp)
		if err != nil {
			return err
		}
		bw := bufio.NewWriter(fl)
		for _, s := range seqs {
			j, _ := json.Marshal(s)
			bw.Write(j)
			bw.WriteByte('\n')
		}
		bw.Flush()
		fl.Close()
	}
	return runEvictSeqs(w, seqs)
}
