package core

// evict suite (C08): histories under a memory limit, one "V" transcript line per command with the
// keyspace dump *and* the eviction bookkeeping (LFU / LRU heap arrays) before and after.
//
// Determinism:
//   - the asynchronous cache updates (`go func` in getValues / setValues / setExpiry) are counted through
//     verifhook points; every keyspace primitive waits at its entry until no update is in flight, so each
//     update runs right after the primitive that spawned it (one of the schedules the code allows);
//   - the per-database adjustMemoryUsage goroutines are serialised (their order stays open: the model
//     enumerates it);
//   - the heaps stamp entries with time.Now().UnixMilli(): commands are spaced so that every stamp taken
//     during a command is strictly greater than every earlier stamp.
// Every history runs in a child process: a panic in a background goroutine ends the process (observed as
// `crash`), an unbounded loop is observed as `hang` (process CPU time, not wall time, decides).

import (
	"bufio"
	"bytes"
	"context"
	"encoding/hex"
	"encoding/json"
	"fmt"
	"net"
	"os"
	"os/exec"
	"runtime"
	"sort"
	"strings"
	"sync"
	"sync/atomic"
	"syscall"
	"time"

	"github.com/echovault/sugardb/internal/verifhook"
)

type evictCtl struct {
	async  atomic.Int64
	adjust atomic.Int64
	token  sync.Mutex
}

func (c *evictCtl) quiet() bool { return c.async.Load() == 0 && c.adjust.Load() == 0 }

func (c *evictCtl) point(name string) {
	switch name {
	case "keyspace.async.spawn":
		c.async.Add(1)
	case "keyspace.async.done":
		c.async.Add(-1)
	case "keyspace.adjust.spawn":
		c.adjust.Add(1)
	case "keyspace.adjust.enter":
		c.token.Lock()
	case "keyspace.adjust.exit":
		c.token.Unlock()
		c.adjust.Add(-1)
	case "keyspace.prim.enter":
		for !c.quiet() {
			time.Sleep(20 * time.Microsecond)
		}
	}
}

// cpuNow is the process CPU time not attributed to the garbage collector (the code under test forces a full
// collection on every admission test and every eviction; its cost grows with the heap, not with the command).
func cpuNow() time.Duration {
	// plain process CPU time. (An earlier version subtracted the runtime's estimate of garbage-collector CPU, guarded by
	// "if it is smaller than the total": the estimate is updated in bursts and can overtake the total, so the difference
	// jumped by seconds within milliseconds and commands were declared spinning. The forced collections of the code under
	// test are now covered by requiring wall time as well, see waitFor.)
	var ru syscall.Rusage
	if err := syscall.Getrusage(syscall.RUSAGE_SELF, &ru); err != nil {
		return 0
	}
	return time.Duration(ru.Utime.Nano() + ru.Stime.Nano())
}

const (
	evictCPUBudget  = 4 * time.Second   // non-GC process CPU spent inside one command before it counts as a (spinning) hang
	evictSpinWall   = 4 * time.Second   // … and at least this much wall time must have passed as well
	evictWallBudget = 180 * time.Second // last resort
	evictChildSeqs  = 40                // sequences per child process (every instance leaks its ticker goroutine and its heap)
)

// waitingStates are goroutine states in which a goroutine cannot make progress by itself.
var waitingStates = map[string]bool{"semacquire": true, "sync.Mutex.Lock": true, "sync.RWMutex.Lock": true, "sync.RWMutex.RLock": true,
	"chan send": true, "chan receive": true, "select": true, "sync.WaitGroup.Wait": true, "sleep": true, "sync.Cond.Wait": true,
	"chan send (nil chan)": true, "chan receive (nil chan)": true, "select (no cases)": true}

// serverBusy reports whether some goroutine executing code of the server under test is running, runnable or in any
// state other than a plain lock / channel / sleep wait (e.g. inside a forced garbage collection).
func serverBusy() bool {
	buf := make([]byte, 4<<20)
	n := runtime.Stack(buf, true)
	for _, blk := range strings.Split(string(buf[:n]), "\n\n") {
		if !strings.Contains(blk, "sugardb.(*SugarDB)") {
			continue
		}
		hdr := blk
		if i := strings.IndexByte(hdr, '\n'); i >= 0 {
			hdr = hdr[:i]
		}
		i, j := strings.IndexByte(hdr, '['), strings.LastIndexByte(hdr, ']')
		if i < 0 || j < i {
			return true
		}
		st := hdr[i+1 : j]
		if k := strings.IndexByte(st, ','); k >= 0 {
			st = st[:k]
		}
		if !waitingStates[st] {
			return true
		}
	}
	return false
}

// waitFor polls cond; "" = cond became true, otherwise the reason the command counts as hung:
//
//	spin:    more than evictCPUBudget of non-GC process CPU was burnt inside this one command;
//	blocked: for a while no goroutine of the server could run at all (every one of them parked on a lock, a channel or
//	         a sleep), confirmed on consecutive goroutine dumps — wall time alone never decides.
func waitFor(cond func() bool, cpu0 time.Duration, t0 time.Time) string {
	n := 0
	idle := 0
	for !cond() {
		n++
		if n < 200 {
			time.Sleep(20 * time.Microsecond)
		} else {
			time.Sleep(500 * time.Microsecond)
		}
		if n%64 == 0 {
			// a spinning command burns a core for as long as it is watched: both clocks must agree
			if c := cpuNow() - cpu0; c > evictCPUBudget && time.Since(t0) > evictSpinWall {
				return fmt.Sprintf("spin cpu=%v wall=%v", c, time.Since(t0))
			}
			if time.Since(t0) > evictWallBudget {
				return fmt.Sprintf("wall %v", time.Since(t0))
			}
		}
		if n > 1000 && n%100 == 0 {
			if serverBusy() {
				idle = 0
			} else {
				idle++
				if idle >= 6 {
					return fmt.Sprintf("blocked wall=%v", time.Since(t0))
				}
			}
		}
	}
	return ""
}

func (in *Inst) evictDump() (string, error) {
	st, err := in.Dump()
	if err != nil {
		return "", err
	}
	c := in.S.VerifEvictSnapshot()
	var sb strings.Builder
	sb.WriteString(st)
	dbs := make([]int, 0)
	for db := range c.LFU {
		dbs = append(dbs, db)
	}
	sort.Ints(dbs)
	fmt.Fprintf(&sb, " F %d", len(dbs))
	for _, db := range dbs {
		es := c.LFU[db]
		fmt.Fprintf(&sb, " %d %d", db, len(es))
		for _, e := range es {
			if e.Nil {
				sb.WriteString(" n")
			} else {
				fmt.Fprintf(&sb, " e %s %d %d %d", X(e.Key), e.Count, e.AddedTime, e.Index)
			}
		}
		ks := append([]string{}, c.LFUKeys[db]...)
		sort.Strings(ks)
		dumpList(&sb, ks)
	}
	dbs = dbs[:0]
	for db := range c.LRU {
		dbs = append(dbs, db)
	}
	sort.Ints(dbs)
	fmt.Fprintf(&sb, " U %d", len(dbs))
	for _, db := range dbs {
		es := c.LRU[db]
		fmt.Fprintf(&sb, " %d %d", db, len(es))
		for _, e := range es {
			if e.Nil {
				sb.WriteString(" n")
			} else {
				fmt.Fprintf(&sb, " e %s %d %d", X(e.Key), e.UnixTime, e.Index)
			}
		}
		ks := append([]string{}, c.LRUKeys[db]...)
		sort.Strings(ks)
		dumpList(&sb, ks)
	}
	return sb.String(), nil
}

// evictChildRun executes sequences from index `from` on, writing V lines to w. It never returns after a
// hang (exit 3); a crash ends the process from inside the runtime (exit 2).
func evictChildRun(w *bufio.Writer, seqs []Seq, from int) error {
	ctl := &evictCtl{}
	verifhook.SetHandler(ctl.point)
	var lastMs int64
	for si := from; si < len(seqs) && si < from+evictChildSeqs; si++ {
		s := seqs[si]
		in, err := NewInst(s.Opts)
		if err != nil {
			return err
		}
		var conns []*net.Conn
		pol := s.Opts.Policy
		if pol == "" {
			pol = "noeviction"
		}
		dead := false
		for i, op := range s.Ops {
			if op.At != 0 {
				in.Clock.Set(op.At)
			}
			if op.Adv != 0 {
				in.Clock.Advance(op.Adv)
			}
			if len(op.Cmd) == 0 && op.Tick == 0 {
				continue
			}
			var c *net.Conn
			if op.Conn >= 0 && op.Tick == 0 {
				for len(conns) <= op.Conn {
					conns = append(conns, in.NewConn())
				}
				c = conns[op.Conn]
			}
			cmd := UnhexCmd(op.Cmd)
			tickDb := op.Tick - 1
			if op.Tick > 0 {
				// one pass of the sampler goroutine that NewSugarDB starts under every eviction policy
				cmd = []string{"@tick", fmt.Sprint(tickDb)}
			}
			// stamps taken during this command must exceed every earlier stamp
			for time.Now().UnixMilli() <= lastMs {
				time.Sleep(200 * time.Microsecond)
			}
			pre, err := in.evictDump()
			if err != nil {
				fmt.Fprintf(w, "U %s.%d %s\n", s.ID, i, strings.ReplaceAll(err.Error(), " ", "_"))
				break
			}
			connTok := "e"
			if c != nil {
				connTok = fmt.Sprint(in.ConnID(c))
			}
			hdrDb := in.DbOf(c)
			if op.Tick > 0 {
				hdrDb = tickDb
			}
			fmt.Fprintf(w, "V %s.%d %d %d %s %d %s C %d", s.ID, i, in.Clock.Ms(), hdrDb, connTok, s.Opts.MaxMemory, pol, len(cmd))
			for _, a := range cmd {
				w.WriteString(" " + X(a))
			}
			fmt.Fprintf(w, " S %s", pre)
			w.Flush()
			cpu0, t0 := cpuNow(), time.Now()
			done := make(chan Result, 1)
			go func() {
				defer func() {
					if r := recover(); r != nil {
						done <- Result{"panic", fmt.Sprint(r)}
					}
				}()
				if op.Tick > 0 {
					if err := in.S.VerifSamplerTick(tickDb); err != nil {
						done <- Result{"err", err.Error()}
						return
					}
					done <- Result{"ok", ""}
					return
				}
				res, err := in.S.VerifHandle(context.Background(), Encode(cmd), c, false, c == nil)
				if err != nil {
					done <- Result{"err", err.Error()}
					return
				}
				done <- Result{"ok", string(res)}
			}()
			var res Result
			got := false
			why := waitFor(func() bool {
				select {
				case res = <-done:
					got = true
				default:
				}
				return got
			}, cpu0, t0)
			if why == "" && res.Kind != "panic" {
				why = waitFor(ctl.quiet, cpu0, t0)
			}
			if why != "" {
				fmt.Fprintf(w, " R hang %s E -\n", X(why))
				w.Flush()
				os.Exit(3)
			}
			lastMs = time.Now().UnixMilli()
			if res.Kind == "panic" {
				// locks may be left held by the unwound handler: no dump, the history ends here
				fmt.Fprintf(w, " R panic %s E -\n", X(firstLine(res.Bytes)))
				w.Flush()
				dead = true
				break
			}
			post, err := in.evictDump()
			if err != nil {
				fmt.Fprintf(w, " R %s %s E - D %s\n", res.Kind, X(res.Bytes), strings.ReplaceAll(err.Error(), " ", "_"))
				w.Flush()
				break
			}
			fmt.Fprintf(w, " R %s %s E %s\n", res.Kind, X(res.Bytes), post)
			w.Flush()
		}
		if !dead {
			in.S.ShutDown()
		}
	}
	return nil
}

func firstLine(s string) string {
	if i := strings.IndexByte(s, '\n'); i >= 0 {
		return s[:i]
	}
	return s
}

// RunEvictChild is the `vh evict-child` entry.
func RunEvictChild(w *bufio.Writer, seqFile string, from int) error {
	data, err := os.ReadFile(seqFile)
	if err != nil {
		return err
	}
	var seqs []Seq
	for _, l := range bytes.Split(data, []byte("\n")) {
		if len(bytes.TrimSpace(l)) == 0 {
			continue
		}
		var s Seq
		if err := json.Unmarshal(l, &s); err != nil {
			return err
		}
		seqs = append(seqs, s)
	}
	return evictChildRun(w, seqs, from)
}

// runEvictSeqs drives child processes over all sequences and copies their lines to w.
func runEvictSeqs(w *bufio.Writer, seqs []Seq) error {
	if len(seqs) == 0 {
		return nil
	}
	tmp, err := os.CreateTemp("", "vh-evict-*.seqs")
	if err != nil {
		return err
	}
	defer os.Remove(tmp.Name())
	bw := bufio.NewWriter(tmp)
	index := map[string]int{}
	for i, s := range seqs {
		j, _ := json.Marshal(s)
		bw.Write(j)
		bw.WriteByte('\n')
		index[s.ID] = i
	}
	bw.Flush()
	tmp.Close()
	self, err := os.Executable()
	if err != nil {
		return err
	}
	from := 0
	for from < len(seqs) {
		cmd := exec.Command(self, "evict-child", "-replay", tmp.Name(), "-seed", fmt.Sprint(from), "-out", "-")
		var stdout, stderr bytes.Buffer
		cmd.Stdout = &stdout
		cmd.Stderr = &stderr
		runErr := cmd.Run()
		out := stdout.String()
		complete := out
		partial := ""
		if i := strings.LastIndexByte(out, '\n'); i >= 0 {
			complete, partial = out[:i+1], out[i+1:]
		} else {
			complete, partial = "", out
		}
		w.WriteString(complete)
		if runErr == nil {
			if partial != "" {
				return fmt.Errorf("evict child ended normally with a partial line")
			}
			from += evictChildSeqs
			continue
		}
		code := -1
		if ee, ok := runErr.(*exec.ExitError); ok {
			code = ee.ExitCode()
		}
		// which sequence was the child in?
		seqOf := func(line string) (int, bool) {
			f := strings.Fields(line)
			if len(f) < 2 {
				return 0, false
			}
			id := f[1]
			if j := strings.LastIndexByte(id, '.'); j >= 0 {
				id = id[:j]
			}
			n, ok := index[id]
			return n, ok
		}
		switch {
		case code == 3: // hang reported by the child itself (line complete)
			lines := strings.Split(strings.TrimRight(complete, "\n"), "\n")
			n, ok := seqOf(lines[len(lines)-1])
			if !ok {
				return fmt.Errorf("evict child: hang exit without a line")
			}
			from = n + 1
		case partial != "" && strings.HasPrefix(partial, "V "):
			msg := ""
			for _, l := range strings.Split(stderr.String(), "\n") {
				if strings.HasPrefix(l, "panic:") || strings.HasPrefix(l, "fatal error:") {
					msg = l
					break
				}
			}
			if msg == "" {
				return fmt.Errorf("evict child died (exit %d) without a panic message: %s", code, tail(stderr.String(), 600))
			}
			fmt.Fprintf(w, "%s R crash %s E -\n", partial, X(msg))
			n, ok := seqOf(partial)
			if !ok {
				return fmt.Errorf("evict child: unknown sequence in %q", partial[:40])
			}
			from = n + 1
		default:
			return fmt.Errorf("evict child failed (exit %d) between commands: %s", code, tail(stderr.String(), 800))
		}
	}
	return nil
}

func tail(s string, n int) string {
	if len(s) > n {
		return s[len(s)-n:]
	}
	return s
}

var _ = hex.EncodeToString
