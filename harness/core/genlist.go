package core

// list family generator

var ListElems = []string{"a", "b", "c", "a", "x", "", "007", "a\r\nb", "\x00\xff", "zz"}

func (g *Gen) ListCommand() []string {
	k := func() string { return g.Pick(Keys) }
	e := func() string { return g.Pick(ListElems) }
	idx := func() string { return g.Pick(IndexArgs) }
	elems := func() []string {
		n := 1 + g.R.Intn(3)
		var o []string
		for i := 0; i < n; i++ {
			o = append(o, e())
		}
		return o
	}
	switch g.R.Intn(22) {
	case 0, 1, 2:
		return append([]string{g.Pick([]string{"lpush", "LPUSH", "lpushx"}), k()}, elems()...)
	case 3, 4, 5:
		return append([]string{g.Pick([]string{"rpush", "rpush", "rpushx", "RPUSHX"}), k()}, elems()...)
	case 6, 7:
		c := []string{g.Pick([]string{"lpop", "rpop", "LPOP", "RPOP"}), k()}
		if g.Chance(0.5) {
			c = append(c, g.Pick([]string{"0", "1", "2", "3", "-2", "10", "x", ""}))
		}
		return c
	case 8:
		return []string{"llen", k()}
	case 9, 10, 11:
		return []string{"lrange", k(), idx(), idx()}
	case 12, 13:
		return []string{"lindex", k(), idx()}
	case 14, 15:
		return []string{"lset", k(), idx(), e()}
	case 16, 17:
		return []string{"ltrim", k(), idx(), idx()}
	case 18, 19:
		return []string{"lrem", k(), g.Pick([]string{"0", "1", "2", "-1", "-2", "5", "x"}), e()}
	case 20:
		return []string{"lmove", k(), k(), g.Pick([]string{"left", "right", "LEFT", "up"}), g.Pick([]string{"left", "right", "RIGHT", ""})}
	default:
		name := g.Pick([]string{"lpush", "rpush", "lpop", "llen", "lrange", "lindex", "lset", "ltrim", "lrem", "lmove"})
		n := g.R.Intn(6)
		c := []string{name}
		for i := 0; i < n; i++ {
			c = append(c, g.Pick([]string{"k1", "1", "a", ""}))
		}
		return c
	}
}

func listAlphabet() [][]string {
	return [][]string{
		{"lpush", "k1", "a", "b"}, {"rpush", "k1", "c"}, {"rpush", "k1", "a", "a", "a", "y"}, {"lpushx", "k1", "z"}, {"rpushx", "k9", "z"},
		{"lpop", "k1"}, {"rpop", "k1"}, {"lpop", "k1", "2"}, {"rpop", "k1", "0"}, {"lpop", "k1", "10"}, {"llen", "k1"}, {"llen", "k2"},
		{"lrange", "k1", "0", "-1"}, {"lrange", "k1", "0", "3"}, {"lrange", "k1", "1", "1"}, {"lrange", "k1", "-5", "1"}, {"lrange", "k1", "0", "100"}, {"lrange", "k1", "2", "1"},
		{"lindex", "k1", "0"}, {"lindex", "k1", "-1"}, {"lindex", "k1", "3"}, {"lset", "k1", "0", "Q"}, {"lset", "k1", "-1", "Q"}, {"lset", "k1", "5", "Q"},
		{"ltrim", "k1", "0", "1"}, {"ltrim", "k1", "1", "-1"}, {"ltrim", "k1", "-5", "1"}, {"ltrim", "k1", "2", "1"}, {"ltrim", "k1", "0", "100"},
		{"lrem", "k1", "0", "a"}, {"lrem", "k1", "1", "a"}, {"lrem", "k1", "-2", "a"}, {"lmove", "k1", "k3", "left", "right"}, {"lmove", "k1", "k1", "left", "left"},
		{"lmove", "k1", "k3", "right", "left"}, {"lmove", "k1", "k9", "left", "left"}, {"del", "k1"}, {"set", "k1", "v"}, {"type", "k1"}, {"get", "k1"},
		{"expire", "k1", "1"}, {"ttl", "k1"},
	}
}

func listBases() [][]Op {
	mk := func(cmds ...[]string) []Op {
		var o []Op
		for _, c := range cmds {
			o = append(o, Op{Conn: -1, Cmd: HexCmd(c)})
		}
		return o
	}
	return [][]Op{
		mk(),
		mk([]string{"rpush", "k1", "a", "b", "c"}, []string{"rpush", "k3", "x"}, []string{"set", "k2", "str"}),
		mk([]string{"rpush", "k1", "a", "a", "b", "a", "a"}, []string{"rpush", "k3", "x", "y"}, []string{"pexpire", "k1", "1000"}),
	}
}

// listScripts: aliasing probes. After every command that stores a slice derived from another list
// (LMOVE, LTRIM, LPOP/RPOP with count, LREM, LSET) both lists are appended to and re-read, so a
// shared backing array shows up as a change of the list that was not written.
func listScripts() [][][]string {
	var out [][][]string
	shrink := [][][]string{
		{{"rpush", "k1", "a", "b", "c", "d"}, {"rpop", "k1", "1"}},
		{{"rpush", "k1", "a", "b", "c", "d"}, {"lpop", "k1", "2"}},
		{{"rpush", "k1", "a", "b", "c", "d", "e"}, {"ltrim", "k1", "0", "2"}},
		{{"rpush", "k1", "a", "b", "c", "d"}, {"lrem", "k1", "1", "d"}},
		{{"rpush", "k1", "a", "b", "c"}},
	}
	for _, pre := range shrink {
		for _, wf := range []string{"left", "right"} {
			for _, wt := range []string{"left", "right"} {
				for _, dstPre := range [][][]string{{{"rpush", "k2", "x"}}, {{"rpush", "k2", "x", "y", "z"}, {"rpop", "k2", "2"}}} {
					var sc [][]string
					sc = append(sc, pre...)
					sc = append(sc, dstPre...)
					sc = append(sc, []string{"lmove", "k1", "k2", wf, wt},
						[]string{"rpush", "k1", "Z"}, []string{"lrange", "k2", "0", "10"}, []string{"lpush", "k1", "Y"}, []string{"rpush", "k2", "Q"},
						[]string{"lset", "k1", "0", "W"}, []string{"lrange", "k2", "0", "10"}, []string{"lmove", "k2", "k1", wt, wf}, []string{"rpush", "k2", "R"},
						[]string{"lset", "k2", "0", "V"}, []string{"llen", "k1"}, []string{"rename", "k1", "k3"}, []string{"rpush", "k3", "T"}, []string{"llen", "k2"})
					out = append(out, sc)
				}
			}
		}
	}
	// regression scripts: the inputs on which LRANGE / LTRIM / LREM / LMOVE used to fail (former witnesses of
	// lrange-index-panic, lrange-negative-end-miscomputed, ltrim-index-panic, lrem-skips-adjacent-matches,
	// lmove-empty-source-panic), appended last so that the ids of the aliasing probes do not move
	out = append(out,
		[][]string{{"lpush", "k1", "a", "b"}, {"lrange", "k1", "-5", "1"}, {"lrange", "k1", "0", "2"}, {"lrange", "k1", "1", "1"},
			{"lrange", "k1", "2", "2"}, {"lrange", "k1", "0", "-2"}, {"lrange", "k1", "-1", "-7"}, {"lrange", "k1", "-100", "100"},
			{"lrange", "k1", "-9223372036854775808", "9223372036854775807"}, {"rpush", "k1", "c"}, {"lrange", "k1", "0", "3"}, {"lrange", "k1", "-2", "-2"}},
		[][]string{{"lpush", "k1", "a", "b"}, {"ltrim", "k1", "-5", "1"}, {"lrange", "k1", "0", "-1"}, {"ltrim", "k1", "-9223372036854775808", "0"},
			{"lrange", "k1", "0", "-1"}, {"ltrim", "k1", "-5", "-5"}, {"llen", "k1"}, {"exists", "k1"}},
		[][]string{{"rpush", "k1", "a", "a", "a", "y"}, {"lrem", "k1", "0", "a"}, {"lrange", "k1", "0", "-1"}},
		[][]string{{"rpush", "k1", "a", "a", "a", "y", "a"}, {"lrem", "k1", "2", "a"}, {"lrange", "k1", "0", "-1"}, {"lrem", "k1", "5", "a"},
			{"lrange", "k1", "0", "-1"}, {"lrem", "k1", "0", "y"}, {"llen", "k1"}},
		[][]string{{"rpush", "k1", "a", "b", "c"}, {"rpush", "k3", "x"}, {"lpop", "k1", "10"}, {"lmove", "k1", "k3", "left", "right"},
			{"lmove", "k1", "k3", "right", "left"}, {"lmove", "k1", "k1", "left", "right"}, {"lrange", "k3", "0", "-1"}, {"llen", "k1"}},
	)
	return out
}
