package core

import (
	"fmt"
	"math/rand"
	"strconv"
)

// Gen derives every random choice from one PRNG.
type Gen struct{ R *rand.Rand }

func NewGen(seed int64) *Gen { return &Gen{R: rand.New(rand.NewSource(seed))} }

func (g *Gen) Pick(xs []string) string { return xs[g.R.Intn(len(xs))] }
func (g *Gen) Chance(p float64) bool    { return g.R.Float64() < p }
func (g *Gen) Pick2(xs [][]string) []string { return xs[g.R.Intn(len(xs))] }

var Keys = []string{"k1", "k2", "k3", "k4", "", "k1", "k2", "c\r\nk"}

// Values written by SET/MSET/APPEND: strings, canonical and non-canonical numerics, edge ints,
// binary, CR/LF, and a few outside the exact float domain (the model answers "unmodelled" there).
var Values = []string{
	"", "a", "abc", "hello world", "007", "7", "-0", "+5", "1e3", "1.50", "1.5", "0.25", "-2.75",
	"Inf", "-inf", "+Inf", "9223372036854775807", "9223372036854775808", "-9223372036854775808",
	"12345678901234567890", "9007199254740993", "1234567890123456789", "-9007199254740993", "a\r\nb", "\x00\xff", "\xc3\xbcn\xc3\xaf", "3.0", ".5", "5.", "1e", "0x10",
	"1_000", "123456.75", "1234567.25", "0.00001", "0.0001", "1e-7", "1E2", "10", "-1", "0", "42",
	"1p3", "0.12345678901234567", "1e400", "nan", "infinity", " 1", "1 ",
}

var SmallInts = []string{"0", "1", "-1", "2", "5", "10", "-3", "100", "9223372036854775807", "-9223372036854775808", "x", "", "1.5", "1e1", "+2"}
var FloatArgs = []string{"0.25", "1.5", "-2.75", "3", "0.5", "1e2", "inf", "-inf", "x", "", "0.1", "1e400", "nan", "1_0", "0x1p-2", ".5", "5."}
var IndexArgs = []string{"0", "1", "2", "3", "-1", "-2", "-3", "5", "-7", "100", "x", "1e0", "1.5", ""}

// KvCommand draws one command of the generic/string families (mostly valid, sometimes malformed).
func (g *Gen) KvCommand(nowMs int64) []string {
	k := func() string { return g.Pick(Keys) }
	v := func() string { return g.Pick(Values) }
	caseOf := func(s string) string {
		switch g.R.Intn(6) {
		case 0:
			return upper(s)
		default:
			return s
		}
	}
	secs := func() string {
		return g.Pick([]string{"1", "2", "10", "100", "0", "-1", "x", "", "9999999999", "5000000000"})
	}
	ms := func() string {
		return g.Pick([]string{"1", "500", "1500", "2000", "100000", "0", "-5", "x", "1.5"})
	}
	atSecs := func() string {
		return g.Pick([]string{strconv.FormatInt(nowMs/1000+1, 10), strconv.FormatInt(nowMs/1000+10, 10), strconv.FormatInt(nowMs/1000-5, 10), strconv.FormatInt(nowMs/1000, 10), "0", "1", "x"})
	}
	atMs := func() string {
		return g.Pick([]string{strconv.FormatInt(nowMs+1, 10), strconv.FormatInt(nowMs+1500, 10), strconv.FormatInt(nowMs-1, 10), strconv.FormatInt(nowMs, 10), "0", "x"})
	}
	setOpts := func() []string {
		var o []string
		n := g.R.Intn(4)
		for i := 0; i < n; i++ {
			switch g.R.Intn(9) {
			case 0:
				o = append(o, caseOf("nx"))
			case 1:
				o = append(o, caseOf("xx"))
			case 2:
				o = append(o, caseOf("get"))
			case 3:
				o = append(o, caseOf("ex"), secs())
			case 4:
				o = append(o, caseOf("px"), ms())
			case 5:
				o = append(o, caseOf("exat"), atSecs())
			case 6:
				o = append(o, caseOf("pxat"), atMs())
			case 7:
				o = append(o, g.Pick([]string{"ex", "px", "keepttl", "zz", "", "\xc3\xa9x"}))
			case 8:
				o = append(o, caseOf("get"))
			}
		}
		return o
	}
	expOpt := func() []string {
		switch g.R.Intn(8) {
		case 0:
			return []string{caseOf("nx")}
		case 1:
			return []string{caseOf("xx")}
		case 2:
			return []string{caseOf("gt")}
		case 3:
			return []string{caseOf("lt")}
		case 4:
			return []string{g.Pick([]string{"zz", "", "nx xx"})}
		case 5:
			return []string{"nx", "xx"}
		}
		return nil
	}
	switch g.R.Intn(40) {
	case 0, 1, 2, 3:
		return append([]string{caseOf("set"), k(), v()}, setOpts()...)
	case 4:
		n := g.R.Intn(4)
		c := []string{caseOf("mset")}
		for i := 0; i < n; i++ {
			c = append(c, k(), v())
		}
		if g.Chance(0.1) {
			c = append(c, k())
		}
		return c
	case 5, 6, 7:
		return []string{caseOf("get"), k()}
	case 8:
		n := 1 + g.R.Intn(3)
		c := []string{"mget"}
		for i := 0; i < n; i++ {
			c = append(c, k())
		}
		return c
	case 9, 10:
		n := 1 + g.R.Intn(3)
		c := []string{"del"}
		for i := 0; i < n; i++ {
			c = append(c, k())
		}
		return c
	case 11:
		return []string{"persist", k()}
	case 12:
		return []string{g.Pick([]string{"expiretime", "pexpiretime", "PEXPIRETIME"}), k()}
	case 13, 14:
		return []string{g.Pick([]string{"ttl", "pttl", "PTTL", "TTL"}), k()}
	case 15, 16:
		if g.Chance(0.5) {
			return append([]string{caseOf("expire"), k(), secs()}, expOpt()...)
		}
		return append([]string{caseOf("pexpire"), k(), ms()}, expOpt()...)
	case 17, 18:
		if g.Chance(0.5) {
			return append([]string{caseOf("expireat"), k(), atSecs()}, expOpt()...)
		}
		return append([]string{caseOf("pexpireat"), k(), atMs()}, expOpt()...)
	case 19, 20:
		return []string{g.Pick([]string{"incr", "decr"}), k()}
	case 21, 22:
		return []string{g.Pick([]string{"incrby", "decrby"}), k(), g.Pick(SmallInts)}
	case 23, 24:
		return []string{"incrbyfloat", k(), g.Pick(FloatArgs)}
	case 25:
		return []string{"rename", k(), k()}
	case 26:
		if g.Chance(0.3) {
			return []string{g.Pick([]string{"flushall", "FLUSHALL"})}
		}
		return []string{g.Pick([]string{"flushdb", "FLUSHDB"})}
	case 27:
		return []string{"getdel", k()}
	case 28, 29:
		c := []string{"getex", k()}
		switch g.R.Intn(8) {
		case 0:
			c = append(c, caseOf("ex"), secs())
		case 1:
			c = append(c, caseOf("px"), ms())
		case 2:
			c = append(c, caseOf("exat"), atSecs())
		case 3:
			c = append(c, caseOf("pxat"), atMs())
		case 4:
			c = append(c, caseOf("persist"))
		case 5:
			c = append(c, caseOf("persist"), "1")
		case 6:
			c = append(c, "zz", "1")
		}
		return c
	case 30, 31:
		return []string{caseOf("type"), k()}
	case 32, 33:
		return []string{"setrange", k(), g.Pick(IndexArgs), v()}
	case 34:
		return []string{"strlen", k()}
	case 35, 36:
		return []string{g.Pick([]string{"getrange", "substr"}), k(), g.Pick(IndexArgs), g.Pick(IndexArgs)}
	case 37, 38:
		return []string{"append", k(), v()}
	default:
		// malformed arity of a random command
		name := g.Pick([]string{"set", "get", "del", "mget", "incr", "incrby", "expire", "ttl", "rename", "flushdb", "getex", "type", "setrange", "strlen", "getrange", "append", "persist", "getdel", "decrby", "incrbyfloat", "expireat"})
		n := g.R.Intn(6)
		c := []string{name}
		for i := 0; i < n; i++ {
			c = append(c, g.Pick([]string{"k1", "1", "a", ""}))
		}
		return c
	}
}

// OtherTypeSetup creates keys of the other value types through the real handlers.
func OtherTypeSetup() [][]string {
	return [][]string{
		{"rpush", "k3", "a", "b", "c"},
		{"hset", "k4", "f1", "v1", "f2", "007"},
	}
}

// OtherTypeCommand occasionally plants a list/hash/set/zset under a key of the universe.
func (g *Gen) OtherTypeCommand() []string {
	k := g.Pick(Keys)
	switch g.R.Intn(4) {
	case 0:
		return []string{"rpush", k, "a", "b"}
	case 1:
		return []string{"hset", k, "f", g.Pick(Values)}
	case 2:
		return []string{"sadd", k, "m1", "m2"}
	default:
		return []string{"zadd", k, "1.5", "m1", "2", "m2"}
	}
}

func upper(s string) string {
	b := []byte(s)
	for i, c := range b {
		if c >= 'a' && c <= 'z' {
			b[i] = c - 32
		}
	}
	return string(b)
}

var _ = fmt.Sprint
