package core

import (
	"slices"
	"bufio"
	"crypto/sha256"
	"encoding/hex"
	"encoding/json"
	"fmt"
	"net"
	"os"
	"sort"
	"strings"

	"github.com/echovault/sugardb/internal"
	"github.com/echovault/sugardb/internal/config"
	"github.com/echovault/sugardb/internal/modules/acl"
)

func shaHex(s string) string {
	h := sha256.Sum256([]byte(s))
	return hex.EncodeToString(h[:])
}

func b01(v bool) string {
	if v {
		return "1"
	}
	return "0"
}

func dumpList(sb *strings.Builder, xs []string) {
	fmt.Fprintf(sb, " %d", len(xs))
	for _, x := range xs {
		sb.WriteString(" " + X(x))
	}
}

func dumpUser(sb *strings.Builder, u *acl.User) {
	fmt.Fprintf(sb, " %s %s %s %s %d", X(u.Username), b01(u.Enabled), b01(u.NoPassword), b01(u.NoKeys), len(u.Passwords))
	for _, p := range u.Passwords {
		fmt.Fprintf(sb, " %s %s", b01(strings.EqualFold(p.PasswordType, acl.PasswordSHA256)), X(p.PasswordValue))
	}
	for _, l := range [][]string{u.IncludedCategories, u.ExcludedCategories, u.IncludedCommands, u.ExcludedCommands,
		u.IncludedReadKeys, u.IncludedWriteKeys, u.IncludedPubSubChannels, u.ExcludedPubSubChannels} {
		dumpList(sb, l)
	}
}

func denyKind(err error) string {
	if err == nil {
		return "-"
	}
	m := err.Error()
	switch {
	case strings.HasPrefix(m, "user must be authenticated"):
		return "unauthenticated"
	case strings.HasPrefix(m, "not authorised: user "):
		return "disabled"
	case strings.HasPrefix(m, "unauthorized access to the following categories"):
		return "categories"
	case strings.HasPrefix(m, "not authorised to run"):
		return "command"
	case strings.HasPrefix(m, "not authorised to access channel"):
		return "channel"
	case strings.HasPrefix(m, "not authorised to access any keys"):
		return "nokeys"
	case strings.HasPrefix(m, "not authorised to access the following read keys"):
		return "readkeys"
	case strings.HasPrefix(m, "not authorised to access the following write keys"):
		return "writekeys"
	}
	return "-"
}

type zMeta struct {
	comm, sub           string
	cats, subCats       []string
	reads, writes, ch   []string
	sreads, swrites, sc []string
}

func (m zMeta) dump(sb *strings.Builder) {
	comm := m.comm
	cats := append([]string{}, m.cats...)
	if m.sub != "" {
		comm = m.comm + "|" + m.sub
		cats = append(cats, m.subCats...)
	}
	sb.WriteString(" " + X(comm))
	dumpList(sb, cats)
	dumpList(sb, m.reads)
	dumpList(sb, m.writes)
	dumpList(sb, m.ch)
	dumpList(sb, m.sreads)
	dumpList(sb, m.swrites)
	dumpList(sb, m.sc)
}

func subsets(xs []string) [][]string {
	var out [][]string
	for m := 0; m < 1<<len(xs); m++ {
		var s []string
		for i, x := range xs {
			if m&(1<<i) != 0 {
				s = append(s, x)
			}
		}
		out = append(out, s)
	}
	return out
}

// RunAclZ enumerates authorization decisions of AuthorizeConnection on constructed users and commands.
type zInput struct {
	ID          string   `json:"id"`
	RequirePass bool     `json:"RequirePass"`
	Auth        bool     `json:"Auth"`
	User        acl.User `json:"User"`
	Comm        string   `json:"Comm"`
	Sub         string   `json:"Sub"`
	Cats        []string `json:"Cats"`
	SubCats     []string `json:"SubCats"`
	Reads       []string `json:"Reads"`
	Writes      []string `json:"Writes"`
	Ch          []string `json:"Ch"`
	SReads      []string `json:"SReads"`
	SWrites     []string `json:"SWrites"`
	SCh         []string `json:"SCh"`
}

func RunAclZ(w *bufio.Writer, seed int64, tier string, replay string) error {
	n := 0
	var seqW *bufio.Writer
	if sp := os.Getenv("VH_SEQS"); sp != "" && replay == "" {
		f, err := os.Create(sp)
		if err != nil {
			return err
		}
		defer f.Close()
		seqW = bufio.NewWriter(f)
		defer seqW.Flush()
	}
	emit := func(rp, auth bool, u acl.User, m zMeta) error {
		a := acl.NewACL(config.Config{RequirePass: rp, Password: "pw"})
		uc := u
		a.Users = append(a.Users, &uc)
		p1, _ := net.Pipe()
		conn := net.Conn(p1)
		a.Connections[&conn] = acl.Connection{Authenticated: auth, User: &uc}
		a.CompileGlobs()
		// the command vector as a client sends it: the key functions of the real commands return sub-slices of it
		// (ReadKeys: cmd[1:2], …), so the gate sees keys that share the command's backing array; two option words follow
		cmdv := append([]string{m.comm}, m.writes...)
		cmdv = append(cmdv, m.reads...)
		cmdv = append(cmdv, "opt", "10")
		sent := append([]string{}, cmdv...)
		wk, rk := []string{}, []string{} // a command without keys of a kind gets a fresh empty slice, as the real key functions do
		if len(m.writes) > 0 {
			wk = cmdv[1 : 1+len(m.writes)]
		}
		if len(m.reads) > 0 {
			rk = cmdv[1+len(m.writes) : 1+len(m.writes)+len(m.reads)]
		}
		command := internal.Command{Command: m.comm, Categories: append([]string{}, m.cats...),
			KeyExtractionFunc: func(cmd []string) (internal.KeyExtractionFuncResult, error) {
				return internal.KeyExtractionFuncResult{Channels: m.ch, ReadKeys: rk, WriteKeys: wk}, nil
			}}
		sub := internal.SubCommand{}
		if m.sub != "" {
			sub = internal.SubCommand{Command: m.sub, Categories: append([]string{}, m.subCats...),
				KeyExtractionFunc: func(cmd []string) (internal.KeyExtractionFuncResult, error) {
					return internal.KeyExtractionFuncResult{Channels: m.sc, ReadKeys: m.sreads, WriteKeys: m.swrites}, nil
				}}
		}
		var err error
		func() {
			defer func() {
				if r := recover(); r != nil {
					err = fmt.Errorf("PANIC %v", r)
				}
			}()
			err = a.AuthorizeConnection(&conn, cmdv, command, sub)
		}()
		mutated := !slices.Equal(sent, cmdv)
		res := "allow"
		if err != nil {
			res = denyKind(err)
			if res == "-" {
				res = "other:" + strings.ReplaceAll(err.Error(), " ", "_")
			}
		}
		var sb strings.Builder
		fmt.Fprintf(&sb, "Z z%d %s %s U", n, b01(rp), b01(auth))
		dumpUser(&sb, &u)
		sb.WriteString(" M")
		m.dump(&sb)
		fmt.Fprintf(&sb, " R %s X %s", res, b01(mutated))
		w.WriteString(sb.String())
		w.WriteByte('\n')
		if seqW != nil {
			j, _ := json.Marshal(map[string]interface{}{"id": fmt.Sprintf("z%d", n), "z": zInput{fmt.Sprintf("z%d", n), rp, auth, u, m.comm, m.sub, m.cats, m.subCats, m.reads, m.writes, m.ch, m.sreads, m.swrites, m.sc}})
			seqW.Write(j)
			seqW.WriteByte('\n')
		}
		n++
		_ = p1.Close()
		return nil
	}
	if replay != "" {
		data, err := os.ReadFile(replay)
		if err != nil {
			return err
		}
		var rp struct {
			Seq struct {
				Z zInput `json:"z"`
			} `json:"seq"`
		}
		if err := json.Unmarshal(data, &rp); err != nil {
			return err
		}
		z := rp.Seq.Z
		return emit(z.RequirePass, z.Auth, z.User, zMeta{z.Comm, z.Sub, z.Cats, z.SubCats, z.Reads, z.Writes, z.Ch, z.SReads, z.SWrites, z.SCh})
	}
	base := func() acl.User {
		return acl.User{Username: "u", Enabled: true, IncludedCategories: []string{"*"}, IncludedCommands: []string{"*"},
			IncludedReadKeys: []string{"*"}, IncludedWriteKeys: []string{"*"}, IncludedPubSubChannels: []string{"*"},
			ExcludedCategories: []string{}, ExcludedCommands: []string{}, ExcludedPubSubChannels: []string{}, Passwords: []acl.Password{}}
	}
	keyPats := [][]string{{"*"}, {"a*"}, {"b*"}, {"a*", "b*"}, {}}
	keySets := subsets([]string{"a1", "b1", "c1"})
	// 1. key dimensions
	for _, rk := range keyPats {
		for _, wk := range keyPats {
			for _, nk := range []bool{false, true} {
				for _, en := range []bool{true, false} {
					for _, reads := range keySets {
						for _, writes := range keySets {
							u := base()
							u.IncludedReadKeys, u.IncludedWriteKeys, u.NoKeys, u.Enabled = rk, wk, nk, en
							if err := emit(true, true, u, zMeta{comm: "cmdx", cats: []string{"read"}, reads: reads, writes: writes}); err != nil {
								return err
							}
						}
					}
				}
			}
		}
	}
	// 2. category / command dimensions
	type cmdT struct {
		name string
		cats []string
	}
	for _, ic := range [][]string{{"*"}, {"read"}, {"read", "write"}, {"fast"}, {}} {
		for _, ec := range [][]string{{}, {"write"}, {"*"}, {"read"}} {
			for _, im := range [][]string{{"*"}, {"get"}, {"set", "get"}, {}} {
				for _, em := range [][]string{{}, {"get"}, {"*"}} {
					for _, c := range []cmdT{{"get", []string{"read", "fast"}}, {"set", []string{"write", "slow"}}, {"nocat", []string{}}, {"PING", []string{"fast"}}, {"auth", []string{"slow"}}} {
						for _, auth := range []bool{true, false} {
							for _, rp := range []bool{true, false} {
								u := base()
								u.IncludedCategories, u.ExcludedCategories, u.IncludedCommands, u.ExcludedCommands = ic, ec, im, em
								if err := emit(rp, auth, u, zMeta{comm: c.name, cats: c.cats, reads: []string{"a1"}}); err != nil {
									return err
								}
							}
						}
					}
				}
			}
		}
	}
	// 3. channel dimensions, with a sub-command that names channels of its own
	chSets := subsets([]string{"c1", "d1"})
	for _, ich := range [][]string{{"*"}, {"c*"}, {"c1"}, {}} {
		for _, ech := range [][]string{{}, {"c1"}, {"*"}} {
			for _, chans := range chSets {
				for _, sc := range chSets {
					for _, withKeys := range []bool{false, true} {
						for _, sub := range []string{"", "numsub"} {
							u := base()
							u.IncludedPubSubChannels, u.ExcludedPubSubChannels = ich, ech
							u.IncludedReadKeys = []string{"b*"}
							m := zMeta{comm: "pubsub", sub: sub, cats: []string{"pubsub", "slow"}, subCats: []string{"pubsub"}, ch: chans}
							if sub != "" {
								m.sc = sc
							} else if len(sc) > 0 {
								continue
							}
							if withKeys {
								m.reads = []string{"a1"}
							}
							if err := emit(true, true, u, m); err != nil {
								return err
							}
						}
					}
				}
			}
		}
	}
	// 4. random mixes
	g := NewGen(seed)
	nr := 4000
	if tier == "thorough" {
		nr = 200000
	}
	pick := func(xs [][]string) []string { return xs[g.R.Intn(len(xs))] }
	for i := 0; i < nr; i++ {
		u := base()
		u.Enabled = g.Chance(0.9)
		u.NoKeys = g.Chance(0.15)
		u.IncludedCategories = pick([][]string{{"*"}, {"read"}, {"read", "write"}, {"pubsub", "read"}, {}})
		u.ExcludedCategories = pick([][]string{{}, {}, {"write"}, {"*"}, {"dangerous"}})
		u.IncludedCommands = pick([][]string{{"*"}, {"*"}, {"get", "mget"}, {"set", "get", "pubsub|numsub"}, {}})
		u.ExcludedCommands = pick([][]string{{}, {}, {"get"}, {"*"}, {"pubsub|numsub"}})
		u.IncludedReadKeys = pick(keyPats)
		u.IncludedWriteKeys = pick(keyPats)
		u.IncludedPubSubChannels = pick([][]string{{"*"}, {"c*"}, {"c1"}, {}})
		u.ExcludedPubSubChannels = pick([][]string{{}, {}, {"c1"}, {"*"}})
		c := []cmdT{{"get", []string{"read", "fast"}}, {"mget", []string{"read", "fast"}}, {"set", []string{"write", "slow"}}, {"pubsub", []string{"pubsub", "slow"}}, {"echo", []string{"fast"}}, {"HELLO", []string{"fast"}}}[g.R.Intn(6)]
		m := zMeta{comm: c.name, cats: c.cats, reads: pick(keySets), writes: pick(keySets)}
		if c.name == "pubsub" {
			m.ch = pick(chSets)
			if g.Chance(0.5) {
				m.sub, m.subCats, m.sc = "numsub", []string{"pubsub"}, pick(chSets)
				if g.Chance(0.2) {
					m.sreads = pick(keySets)
				}
			}
		}
		if err := emit(g.Chance(0.9), g.Chance(0.85), u, m); err != nil {
			return err
		}
	}
	return nil
}

// ---- ACL histories

func dumpAclState(in *Inst) string {
	a := in.S.VerifACL()
	var sb strings.Builder
	fmt.Fprintf(&sb, "Q %s %d", b01(a.Config.RequirePass), len(a.Users))
	for _, u := range a.Users {
		dumpUser(&sb, u)
	}
	type ce struct {
		id int
		c  acl.Connection
	}
	var cs []ce
	for p, c := range a.Connections {
		cs = append(cs, ce{in.ConnID(p), c})
	}
	sort.Slice(cs, func(i, j int) bool { return cs[i].id < cs[j].id })
	fmt.Fprintf(&sb, " %d", len(cs))
	for _, c := range cs {
		ref := -1
		for i, u := range a.Users {
			if u == c.c.User {
				ref = i
			}
		}
		fmt.Fprintf(&sb, " %d %s %d", c.id, b01(c.c.Authenticated), ref)
		if ref < 0 {
			dumpUser(&sb, c.c.User)
		}
	}
	return sb.String()
}

func lookupMeta(in *Inst, cmd []string) (zMeta, bool) {
	for _, c := range in.S.VerifCommands() {
		if strings.EqualFold(c.Command, cmd[0]) {
			m := zMeta{comm: c.Command, cats: c.Categories}
			if k, err := c.KeyExtractionFunc(cmd); err == nil {
				m.reads, m.writes, m.ch = k.ReadKeys, k.WriteKeys, k.Channels
			} else {
				return m, false
			}
			sc, err := internal.GetSubCommand(c, cmd)
			if err != nil {
				return m, false
			}
			if s, ok := sc.(internal.SubCommand); ok {
				m.sub, m.subCats = s.Command, s.Categories
				if k, err := s.KeyExtractionFunc(cmd); err == nil {
					m.sreads, m.swrites, m.sc = k.ReadKeys, k.WriteKeys, k.Channels
				} else {
					return m, false
				}
			}
			return m, true
		}
	}
	return zMeta{}, false
}

// AclOp is one step of an ACL history.
type AclOp struct {
	Conn int      `json:"conn"`
	Cmd  []string `json:"cmd"` // hex
}

type AclSeq struct {
	ID  string  `json:"id"`
	Ops []AclOp `json:"ops"`
}

func runAclSeq(w *bufio.Writer, seqW *bufio.Writer, s AclSeq) error {
	in, err := NewInst(Opts{RequirePass: true, Password: "pw"})
	if err != nil {
		return err
	}
	defer in.S.ShutDown()
	var conns []*net.Conn
	dead := map[int]bool{}
	for i, op := range s.Ops {
		cmd := UnhexCmd(op.Cmd)
		if dead[op.Conn] {
			// DELUSER put a read deadline in the past on this connection: the server's read loop closes it,
			// so it issues nothing more (the harness bypasses the read loop and must not keep using it)
			continue
		}
		for len(conns) <= op.Conn {
			// registration is itself a transition
			a, _ := net.Pipe()
			c := net.Conn(a)
			in.Conns = append(in.Conns, &c)
			conns = append(conns, &c)
			pre := dumpAclState(in)
			in.S.VerifRegisterConn(&c)
			post := dumpAclState(in)
			var sb strings.Builder
			fmt.Fprintf(&sb, "A %s.%dr %d C 1 %s P x M", s.ID, i, in.ConnID(&c), X("@register"))
			zMeta{comm: "@register"}.dump(&sb)
			fmt.Fprintf(&sb, " R ok x - S %s E %s D 1", pre, post)
			w.WriteString(sb.String())
			w.WriteByte('\n')
		}
		c := conns[op.Conn]
		m, ok := lookupMeta(in, cmd)
		if !ok {
			continue
		}
		pre := dumpAclState(in)
		dpre, _ := in.Dump()
		r := in.Exec(c, cmd)
		if r.Kind == "hang" {
			fmt.Fprintf(w, "H %s.%d\n", s.ID, i)
			break
		}
		post := dumpAclState(in)
		dpost, _ := in.Dump()
		if len(cmd) >= 2 && strings.EqualFold(cmd[0], "acl") && strings.EqualFold(cmd[1], "deluser") && r.Kind == "ok" {
			a := in.S.VerifACL()
			for ci, cp := range conns {
				cu := a.Connections[cp].User
				listed := false
				for _, u := range a.Users {
					if u == cu {
						listed = true
					}
				}
				if cu != nil && !listed {
					dead[ci] = true
				}
			}
		}
		dk := "-"
		if r.Kind == "err" {
			dk = denyKind(fmt.Errorf("%s", r.Bytes))
		}
		payload := r.Bytes
		if r.Kind == "panic" {
			payload = ""
		}
		var sb strings.Builder
		fmt.Fprintf(&sb, "A %s.%d %d C %d", s.ID, i, in.ConnID(c), len(cmd))
		for _, a := range cmd {
			sb.WriteString(" " + X(a))
		}
		pwArg := cmd[len(cmd)-1]
		if strings.EqualFold(cmd[0], "hello") {
			for k := 2; k+2 < len(cmd); k++ {
				if strings.EqualFold(cmd[k], "auth") {
					pwArg = cmd[k+2]
					break
				}
				if strings.EqualFold(cmd[k], "setname") {
					k++
				}
			}
		}
		fmt.Fprintf(&sb, " P %s M", X(shaHex(pwArg)))
		m.dump(&sb)
		fmt.Fprintf(&sb, " R %s %s %s S %s E %s D %s", r.Kind, X(payload), dk, pre, post, b01(dpre == dpost))
		w.WriteString(sb.String())
		w.WriteByte('\n')
	}
	if seqW != nil {
		j, _ := json.Marshal(s)
		seqW.Write(j)
		seqW.WriteByte('\n')
	}
	return nil
}

var aclTokens = []string{"on", "off", "ON", ">p1", ">p2", "<p1", "nopass", "resetpass", "nocommands", "allCategories", "+@read", "+@write", "-@write",
	"+@all", "-@all", "+@fast", "+@slow", "+@admin", "+@dangerous", "+@pubsub", "allKeys", "~a*", "%R~a*", "%W~b*", "%RW~c*", "%R~*", "nokeys", "resetkeys", "NOKEYS",
	"allChannels", "+&c*", "-&c1", "resetchannels", "allCommands", "+get", "+set", "-set", "+mget", "+acl|whoami", "+acl|setuser", "+all", "+@a", "~", "x",
	"~[", "%R~[b-a]", "%W~[", "%RW~a[", "+&[", "-&[a", "&[", "~a**"}

func (g *Gen) aclCommand() []string {
	name := g.Pick([]string{"alice", "bob", "default", "alice", "carol"})
	switch g.R.Intn(20) {
	case 0, 1, 2, 3, 4:
		n := g.R.Intn(5)
		c := []string{"acl", g.Pick([]string{"setuser", "SETUSER"}), name}
		for i := 0; i < n; i++ {
			t := g.Pick(aclTokens)
			if g.Chance(0.1) {
				t = "#" + shaHex(g.Pick([]string{"p1", "p2"}))
			}
			if g.Chance(0.05) {
				t = "!" + shaHex("p1")
			}
			if g.Chance(0.01) {
				t = ""
			}
			c = append(c, t)
		}
		if g.Chance(0.02) {
			return []string{"acl", "setuser"}
		}
		return c
	case 5:
		n := 1 + g.R.Intn(2)
		c := []string{"acl", "deluser"}
		for i := 0; i < n; i++ {
			c = append(c, g.Pick([]string{"alice", "bob", "default", "ghost", "carol"}))
		}
		return c
	case 6, 7, 8:
		pw := g.Pick([]string{"pw", "p1", "p2", "wrong", "", shaHex("p1"), shaHex("pw")})
		if g.Chance(0.4) {
			return []string{"auth", pw}
		}
		return []string{g.Pick([]string{"auth", "AUTH"}), g.Pick([]string{"alice", "bob", "default", "ghost"}), pw}
	case 9:
		return []string{"acl", "whoami"}
	case 10:
		return []string{"acl", "users"}
	case 11:
		return g.Pick2([][]string{{"auth"}, {"auth", "a", "b", "c"}, {"acl", "deluser"}, {"ping"}, {"echo", "x"}})
	case 12:
		u := g.Pick([]string{"alice", "bob", "default", "ghost"})
		pw := g.Pick([]string{"pw", "p1", "p2", "wrong", ""})
		pr := g.Pick([]string{"2", "3", "3", "2", "4", "x", "-1", ""})
		return g.Pick2([][]string{{"hello"}, {"HELLO", pr}, {"hello", pr, "auth", u, pw}, {"hello", pr, "AUTH", u}, {"hello", pr, "auth"},
			{"hello", pr, "setname", "n1"}, {"hello", pr, "setname"}, {"hello", pr, "setname", "n", "auth"}, {"hello", pr, "auth", u, pw, "setname", "n2"},
			{"hello", pr, "setname", "n", "auth", u, pw}, {"hello", pr, "foo", "bar"}, {"hello", pr, "auth", u, pw, "setname"},
			{"hello", pr, "setname", "a", "setname", "b", "x"}, {"hello", pr, "auth", u, pw, "foo", "bar"}, {"hello", pr, "setname", "n", u},
			{"hello", pr, "auth", u, pw, "auth", u}})
	default:
		return g.Pick2([][]string{{"get", "a1"}, {"get", "b1"}, {"set", "a1", "v"}, {"set", "b1", "v"}, {"mget", "a1", "b1"}, {"mset", "a1", "1", "b1", "2"},
			{"del", "a1", "b1"}, {"rename", "a1", "b1"}, {"publish", "c1", "m"}, {"publish", "d1", "m"}, {"pubsub", "numsub", "c1", "d1"}, {"pubsub", "channels"},
			{"lmove", "a1", "b1", "left", "left"}, {"sunionstore", "a1", "b1", "c1"}, {"sismember", "a1", "b1"}, {"ttl", "a1"}, {"flushdb"}, {"acl", "list"}, {"type", "b1"}})
	}
}

// RunAclA writes the transcript of ACL histories over three registered connections.
func RunAclA(w *bufio.Writer, seed int64, tier string, replay string) error {
	var seqW *bufio.Writer
	if sp := os.Getenv("VH_SEQS"); sp != "" {
		f, err := os.Create(sp)
		if err != nil {
			return err
		}
		defer f.Close()
		seqW = bufio.NewWriter(f)
		defer seqW.Flush()
	}
	if replay != "" {
		data, err := os.ReadFile(replay)
		if err != nil {
			return err
		}
		var rp struct {
			Seq AclSeq `json:"seq"`
		}
		if err := json.Unmarshal(data, &rp); err != nil {
			return err
		}
		return runAclSeq(w, seqW, rp.Seq)
	}
	// scripted credential matrix: every user shape x every AUTH form, plus rule edits seen by an open connection
	sid := 0
	script := func(ops ...AclOp) error {
		sid++
		return runAclSeq(w, seqW, AclSeq{ID: fmt.Sprintf("s%d", sid), Ops: ops})
	}
	op := func(c int, cmd ...string) AclOp { return AclOp{Conn: c, Cmd: HexCmd(cmd)} }
	for _, enabled := range []string{"on", "off"} {
		for _, pwTokens := range [][]string{{}, {"nopass"}, {">p1"}, {"#" + shaHex("p1")}, {">p1", "#" + shaHex("p2")}, {">" + shaHex("p2")}, {">p1", "nopass"}, {"nopass", ">p1"}} {
			for _, pw := range []string{"p1", "p2", "", shaHex("p1"), shaHex("p2"), "x"} {
				for _, order := range []int{0, 1} {
					toks := append([]string{"acl", "setuser", "alice"}, pwTokens...)
					var ops []AclOp
					ops = append(ops, op(0, "auth", "pw"))
					if order == 0 {
						ops = append(ops, op(0, append(toks, enabled)...))
					} else {
						ops = append(ops, op(0, toks...), op(0, "acl", "setuser", "alice", enabled))
					}
					ops = append(ops, op(1, "auth", "alice", pw), op(1, "acl", "whoami"), op(1, "get", "a1"))
					if err := script(ops...); err != nil {
						return err
					}
				}
			}
		}
	}
	for _, edit := range [][]string{{"-get"}, {"nocommands"}, {"off"}, {"resetkeys"}, {"-@read"}, {"%R~b*"}, {"nokeys"}, {"resetpass"}} {
		if err := script(op(0, "auth", "pw"), op(0, "acl", "setuser", "alice", "on", ">p1", "+@all", "allKeys"), op(1, "auth", "alice", "p1"), op(1, "get", "a1"),
			op(0, append([]string{"acl", "setuser", "alice"}, edit...)...), op(1, "get", "a1"), op(1, "set", "a1", "v"), op(2, "auth", "alice", "p1"), op(2, "get", "a1"),
			op(0, "acl", "deluser", "alice"), op(2, "auth", "alice", "p1"), op(0, "acl", "users")); err != nil {
			return err
		}
	}
	// regressions of repaired defects: several keys of which one is outside the patterns, an empty read-pattern
	// list on an edited user, a user switched off under an open connection, SETUSER without a name / with an empty token
	for _, keyRules := range [][]string{{"%R~a*", "%W~a*"}, {"%R~a*", "%W~*"}, {"%R~*", "%W~a*"}, {"%W~b*"}, {"%R~b*"}, {"~a*", "~b*"}} {
		if err := script(op(0, "auth", "pw"), op(0, "acl", "setuser", "alice", "on", ">p1", "+@all", "allKeys"), op(1, "auth", "alice", "p1"),
			op(0, "acl", "setuser", "alice", "resetkeys"), op(1, "get", "a1"),
			op(0, append([]string{"acl", "setuser", "alice"}, keyRules...)...),
			op(1, "get", "a1"), op(1, "get", "b1"), op(1, "mget", "a1", "b1"), op(1, "mget", "b1", "a1"), op(1, "mget", "a1", "a1"), op(1, "set", "a1", "v"), op(1, "set", "b1", "v"),
			op(1, "mset", "a1", "1", "b1", "2"), op(1, "mset", "b1", "1", "a1", "2"), op(1, "del", "a1", "b1"), op(1, "rename", "a1", "b1"), op(1, "sunionstore", "a1", "b1", "c1"),
			op(1, "lmove", "a1", "b1", "left", "left"), op(1, "ttl", "c1")); err != nil {
			return err
		}
	}
	if err := script(op(0, "auth", "pw"), op(0, "acl", "setuser", "alice", "on", ">p1", "+@all", "allKeys"), op(1, "auth", "alice", "p1"), op(1, "get", "a1"),
		op(0, "acl", "setuser", "alice", ">p2", "off"), op(1, "get", "a1"), op(1, "set", "a1", "v"), op(1, "acl", "whoami"), op(1, "ping"), op(1, "auth", "alice", "p1"),
		op(0, "acl", "setuser", "alice", "on"), op(1, "get", "a1"), op(0, "acl", "setuser", "default", "off"), op(0, "get", "a1"), op(2, "auth", "pw"), op(2, "auth", "alice", "p2"), op(2, "get", "a1")); err != nil {
		return err
	}
	if err := script(op(0, "auth", "pw"), op(0, "acl", "setuser"), op(0, "ACL", "SETUSER"), op(0, "acl", "setuser", "alice", ""), op(0, "acl", "setuser", ""),
		op(0, "acl", "setuser", "bob", "on", "", ">p1"), op(0, "acl", "setuser", "alice", "on", ">p1"), op(0, "acl", "setuser", "alice", "off", ""), op(0, "acl", "users"),
		op(1, "auth", "alice", "p1"), op(1, "acl", "whoami")); err != nil {
		return err
	}
	// a pattern that does not compile is refused and the user is left as it was (glob.MustCompile used to panic)
	for _, bad := range []string{"~[", "%R~[b-a]", "%W~[", "%RW~a[", "+&[", "-&[a"} {
		if err := script(op(0, "auth", "pw"), op(0, "acl", "setuser", "alice", "on", ">p1", "+@all", "~a*"), op(1, "auth", "alice", "p1"), op(1, "get", "a1"),
			op(0, "acl", "setuser", "alice", bad), op(0, "acl", "setuser", "alice", "off", "~b*", bad, "nopass"), op(0, "acl", "setuser", "bob", "on", bad), op(0, "acl", "users"),
			op(1, "get", "a1"), op(1, "get", "b1"), op(1, "publish", "c1", "m"), op(0, "acl", "setuser", bad), op(0, "acl", "setuser", "alice", "&["), op(1, "get", "a1")); err != nil {
			return err
		}
	}
	n, length := 250, 40
	if tier == "thorough" {
		n, length = 4000, 80
	}
	g := NewGen(seed)
	for i := 0; i < n; i++ {
		s := AclSeq{ID: fmt.Sprintf("a%d", i)}
		// connection 0 authenticates as default first in most histories, so that edits are possible
		if g.Chance(0.85) {
			s.Ops = append(s.Ops, AclOp{Conn: 0, Cmd: HexCmd([]string{"auth", "pw"})})
		}
		for j := 0; j < length; j++ {
			s.Ops = append(s.Ops, AclOp{Conn: g.R.Intn(3), Cmd: HexCmd(g.aclCommand())})
		}
		if err := runAclSeq(w, seqW, s); err != nil {
			return err
		}
	}
	return nil
}
