package core

// raft suite (property C07). Three kinds of experiment, all on cluster-mode instances of the real server:
//
//	fsm     — the same command log fed to the state machines (raft.FSM.Apply) of independent nodes with
//	          different clocks; one F line per entry with every node's reply and dumps
//	disp    — one client command sent to the leader / a forwarding follower / a non-forwarding follower of a
//	          real three-node cluster; one K line with where handleCommand executed it
//	cluster — batches of client commands sent to nodes of a real three-node cluster on loopback; after each
//	          batch the cluster is quiesced (raft indices, gossip queues) and every node is dumped: one Q line
//
// Line formats (x… = hex):
//
//	F seq db proto n C argc x* ( N now R kind x S state E state )^n
//	K seq role C argc x* R kind x O done mut didx chg flag
//	Q seq n OPS m ( node db kind x C argc x* )^m NODES ( now S state E state )^n T timedout
//	N seq C 1 x(@transfer) R kind x S state-of-the-source E state-of-the-restored-node      (snapshot transfer)
import (
	"bufio"
	"bytes"
	"encoding/json"
	"fmt"
	"io"
	"os"
	"strings"
	"time"

	"github.com/echovault/sugardb/internal"
)

type RaftOp struct {
	Node int      `json:"node"`
	Db   int      `json:"db"`
	Cmd  []string `json:"cmd,omitempty"` // hex
	Bar  bool     `json:"bar,omitempty"` // cluster: quiesce and dump after this op
	Adv  int64    `json:"adv,omitempty"` // fsm: advance every node's clock before the entry
}

type RaftSeq struct {
	ID     string   `json:"id"`
	RKind  string   `json:"rkind"`
	Clocks []int64  `json:"clocks"`
	Role   string   `json:"role,omitempty"`
	Ops    []RaftOp `json:"ops"`
}

type raftRun struct {
	w       *bufio.Writer
	seqW    *bufio.Writer
	pool    []*RNode
	poolUse int
	cl      *Cluster
	pre     *Inst // standalone instance used to pre-flight dispatch invocations
	preDirs []string
	table   map[string]internal.Command
	timing  string
}

func (r *raftRun) recordSeq(s RaftSeq) {
	if r.seqW != nil {
		j, _ := json.Marshal(s)
		r.seqW.Write(j)
		r.seqW.WriteByte('\n')
	}
}

// ---- fsm experiments ----------------------------------------------------------------------------

func (r *raftRun) poolNodes(n int, fresh bool) ([]*RNode, error) {
	// the nodes of one experiment must have the same history (which databases exist, residue of flushed
	// volatile-key slices): they are replaced together
	for _, x := range r.pool {
		if x.Dead {
			fresh = true
		}
	}
	if len(r.pool) < n {
		fresh = true
	}
	if fresh || r.poolUse >= 60 {
		for _, x := range r.pool {
			go x.Shutdown()
		}
		r.pool = nil
		r.poolUse = 0
	}
	live := r.pool[:0]
	for _, x := range r.pool {
		if x.Dead {
			go x.Shutdown()
		} else {
			live = append(live, x)
		}
	}
	r.pool = live
	type res struct {
		n   *RNode
		err error
	}
	need := n - len(r.pool)
	if need > 0 {
		ch := make(chan res, need)
		for i := 0; i < need; i++ {
			go func(i int) {
				x, err := NewRNode(fmt.Sprintf("S%d-%d", i, time.Now().UnixNano()%1000000), false, "", StartMs)
				if err == nil && !raftWaitFor(30*time.Second, x.IsLeader) {
					err = fmt.Errorf("single node did not become leader")
				}
				ch <- res{x, err}
			}(i)
		}
		for i := 0; i < need; i++ {
			x := <-ch
			if x.err != nil {
				return nil, x.err
			}
			r.pool = append(r.pool, x.n)
		}
	}
	r.poolUse++
	return r.pool[:n], nil
}

func dataOnly(dump string) string {
	// the dump up to the connection table
	if i := strings.LastIndex(dump, " C "); i >= 0 {
		return dump[:i]
	}
	return dump
}

// expiredArg: does the entry name a key whose deadline has passed on some node (touching it on a
// raft leader deadlocks the node: getValues holds the store lock while it waits for its own delete entry)
func expiredArg(nodes []*RNode, db int, cmd []string) bool {
	for _, n := range nodes {
		raw := n.S.VerifSnapshot()
		now := n.Clock.Now()
		for _, a := range cmd[1:] {
			if kd, ok := raw.Store[db][a]; ok && kd.ExpireAt != (time.Time{}) && kd.ExpireAt.Before(now) {
				return true
			}
		}
	}
	return false
}

func (r *raftRun) fLine(seq string, nodes []*RNode, db, proto int, cmd []string) (bool, error) {
	var sb strings.Builder
	fmt.Fprintf(&sb, "F %s %d %d %d C %d", seq, db, proto, len(nodes), len(cmd))
	for _, a := range cmd {
		sb.WriteString(" " + X(a))
	}
	hung := false
	pres := make([]string, len(nodes))
	nows := make([]int64, len(nodes))
	for i, n := range nodes {
		pre, err := n.Dump()
		if err != nil {
			fmt.Fprintf(r.w, "U %s %s\n", seq, strings.ReplaceAll(err.Error(), " ", "_"))
			return false, nil
		}
		pres[i] = pre
		nows[i] = n.Clock.Ms()
	}
	results := make([]Result, len(nodes))
	done := make(chan int, len(nodes))
	for i, n := range nodes {
		go func(i int, n *RNode) { results[i] = n.Apply(db, proto, cmd); done <- i }(i, n)
	}
	for range nodes {
		<-done
	}
	for i, n := range nodes {
		res := results[i]
		post := pres[i]
		if res.Kind == "hang" {
			hung = true
		} else {
			var err error
			post, err = n.Dump()
			if err != nil {
				fmt.Fprintf(r.w, "U %s %s\n", seq, strings.ReplaceAll(err.Error(), " ", "_"))
				return false, nil
			}
		}
		payload := res.Bytes
		if res.Kind == "panic" || res.Kind == "hang" {
			payload = ""
		}
		fmt.Fprintf(&sb, " N %d R %s %s S %s E %s", nows[i], res.Kind, X(payload), pres[i], post)
	}
	r.w.WriteString(sb.String())
	r.w.WriteByte('\n')
	return hung, nil
}

// runFsm applies the log to every node; with `filter` entries naming an expired key are dropped
// (and removed from the recorded sequence) unless probes remain.
func (r *raftRun) runFsm(s RaftSeq, fresh bool, filter bool, probes *int) error {
	nodes, err := r.poolNodes(len(s.Clocks), fresh)
	if err != nil {
		return err
	}
	for i, n := range nodes {
		n.Clock.Set(StartMs + s.Clocks[i])
		if !fresh {
			n.Apply(0, 2, []string{"flushall"})
		}
	}
	var kept []RaftOp
	for _, op := range s.Ops {
		if op.Adv != 0 {
			for _, n := range nodes {
				n.Clock.Advance(op.Adv)
			}
		}
		cmd := UnhexCmd(op.Cmd)
		if len(cmd) == 0 {
			kept = append(kept, op)
			continue
		}
		if filter && expiredArg(nodes, op.Db, cmd) {
			if *probes <= 0 {
				// keep the clock advance, drop the entry
				if op.Adv != 0 {
					kept = append(kept, RaftOp{Adv: op.Adv})
				}
				continue
			}
			*probes--
		}
		kept = append(kept, op)
		hung, err := r.fLine(fmt.Sprintf("%s.%d", s.ID, len(kept)-1), nodes, op.Db, 2, cmd)
		if err != nil {
			return err
		}
		if hung {
			break
		}
	}
	s.Ops = kept
	r.recordSeq(s)
	return nil
}

// syncFamilies: the replicated (Sync) commands of the modelled families
func (r *raftRun) isSync(name string) bool {
	c, ok := r.table[strings.ToLower(name)]
	return ok && c.Sync
}

// rowSync: the Sync flag handleCommand would use for this invocation (sub-command flag when one matches)
func (r *raftRun) rowSync(cmd []string) bool {
	c, ok := r.table[strings.ToLower(cmd[0])]
	if !ok {
		return false
	}
	if len(cmd) >= 2 {
		for _, sc := range c.SubCommands {
			if strings.EqualFold(sc.Command, cmd[1]) {
				return sc.Sync
			}
		}
	}
	return c.Sync
}

func (r *raftRun) genEntry(g *Gen, now int64) []string {
	for {
		var cmd []string
		switch g.R.Intn(8) {
		case 0, 1, 2:
			cmd = g.KvCommand(now)
		case 3, 4:
			cmd = g.ListCommand()
		case 5:
			cmd = g.HashCommand()
		default:
			cmd = g.SetCommand()
		}
		if len(cmd) > 0 && r.isSync(cmd[0]) {
			// arguments that are not ASCII travel through encoding/json (outside the exact model: the entry is
			// judged by the spec only); keep a few of them
			ascii := true
			for _, a := range cmd {
				for i := 0; i < len(a); i++ {
					if a[i] >= 0x80 {
						ascii = false
					}
				}
			}
			if ascii || g.Chance(0.15) {
				return cmd
			}
		}
	}
}

func fsmScripts() [][]RaftOp {
	mk := func(db int, cmds ...[]string) []RaftOp {
		var o []RaftOp
		for _, c := range cmds {
			o = append(o, RaftOp{Db: db, Cmd: HexCmd(c)})
		}
		return o
	}
	withAdv := func(ops []RaftOp, at int, adv int64) []RaftOp { ops[at].Adv = adv; return ops }
	return [][]RaftOp{
		mk(0, []string{"sadd", "k1", "a", "b", "c", "d", "e", "f", "g", "h"}, []string{"spop", "k1"}, []string{"spop", "k1", "3"}),
		mk(0, []string{"sadd", "k1", "a", "b"}, []string{"spop", "k1", "2"}, []string{"sadd", "k2", "x"}, []string{"spop", "k2"}),
		mk(1, []string{"set", "k1", "v", "ex", "100"}, []string{"set", "k2", "v"}, []string{"expire", "k2", "50"}, []string{"pexpire", "k2", "70000"}),
		mk(0, []string{"set", "k1", "v"}, []string{"getex", "k1", "px", "5000"}, []string{"getex", "k1", "persist"}, []string{"set", "k1", "w", "pxat", fmt.Sprint(StartMs + 90000000)}),
		mk(2, []string{"rpush", "k3", "a", "b", "c"}, []string{"lpop", "k3"}, []string{"lmove", "k3", "k4", "left", "right"}, []string{"hset", "k2", "f", "1"}, []string{"hincrby", "k2", "f", "41"}, []string{"flushdb"}),
		mk(3, []string{"set", "k1", "1"}, []string{"incr", "k1"}, []string{"mset", "k2", "a", "k3", "b"}, []string{"rename", "k2", "k4"}, []string{"del", "k1", "k3"}, []string{"flushall"}),
		mk(0, []string{"sadd", "k1", "a", "b"}, []string{"sadd", "k2", "b", "c"}, []string{"sunionstore", "k3", "k1", "k2"}, []string{"sinterstore", "k4", "k1", "k2"}, []string{"sdiffstore", "k1", "k1", "k2"}, []string{"smove", "k2", "k4", "c"}),
		// a key whose deadline has passed, touched on a leader
		withAdv(mk(0, []string{"set", "k1", "v", "pxat", fmt.Sprint(StartMs + 500)}, []string{"append", "k1", "x"}), 1, 1000),
	}
}

func (r *raftRun) sweepFsm(seed int64, tier string) error {
	clockSets := [][]int64{{0, 1234567}, {0, 86400123, 17}}
	for i, sc := range fsmScripts() {
		probes := 1
		clocks := clockSets[i%2]
		if i == len(fsmScripts())-1 {
			clocks = []int64{0, 17}
		}
		if err := r.runFsm(RaftSeq{ID: fmt.Sprintf("fs%d", i), RKind: "fsm", Clocks: clocks, Ops: sc}, false, false, &probes); err != nil {
			return err
		}
	}
	nSeq, length := 120, 14
	if tier == "thorough" {
		nSeq, length = 1500, 30
	}
	g := NewGen(seed)
	probes := 0
	if tier == "thorough" {
		probes = 2
	}
	for i := 0; i < nSeq; i++ {
		s := RaftSeq{ID: fmt.Sprintf("fr%d", i), RKind: "fsm", Clocks: clockSets[g.R.Intn(2)]}
		now := StartMs
		for j := 0; j < length; j++ {
			var adv int64
			if g.Chance(0.08) {
				adv = []int64{1, 500, 1000, 2000}[g.R.Intn(4)]
			}
			now += adv
			db := []int{0, 0, 0, 1, 1, 3}[g.R.Intn(6)]
			s.Ops = append(s.Ops, RaftOp{Db: db, Cmd: HexCmd(r.genEntry(g, now)), Adv: adv})
		}
		if err := r.runFsm(s, false, true, &probes); err != nil {
			return err
		}
	}
	return nil
}

// ---- snapshot transfer ---------------------------------------------------------------------------

// memSink is a raft.SnapshotSink that keeps the snapshot in memory.
type memSink struct {
	bytes.Buffer
	id string
}

func (m *memSink) ID() string    { return m.id }
func (m *memSink) Cancel() error { return nil }
func (m *memSink) Close() error  { return nil }

// sweepTransfer: a node that joins late or restarts after log compaction does not replay the log, it installs a
// snapshot of another node's state machine (FSM.Snapshot → Persist → FSM.Restore). The source holds plain ASCII
// strings without deadlines in several databases (values that survive JSON unchanged): the restored node must hold
// the same dataset. One N line per experiment.
func (r *raftRun) sweepTransfer() error {
	datasets := [][]RaftOp{
		ops(0, 0, []string{"set", "a0", "x"}, []string{"set", "b0", "y"}),
		append(append(ops(0, 0, []string{"set", "a0", "x"}, []string{"mset", "b0", "y", "c0", "z"}), ops(0, 1, []string{"set", "a1", "p"})...),
			ops(0, 3, []string{"set", "a3", "q"}, []string{"set", "b3", "r"})...),
		append(ops(0, 2, []string{"set", "only2", "v"}), ops(0, 1, []string{"set", "only1", "w"})...),
	}
	for i, ds := range datasets {
		if err := r.runTransfer(fmt.Sprintf("tr%d", i), ds); err != nil {
			return err
		}
	}
	return nil
}

func (r *raftRun) runTransfer(seq string, ds []RaftOp) error {
	{
		nodes, err := r.poolNodes(2, true)
		if err != nil {
			return err
		}
		src, dst := nodes[0], nodes[1]
		for _, o := range ds {
			if res := src.Apply(o.Db, 2, UnhexCmd(o.Cmd)); res.Kind != "ok" {
				fmt.Fprintf(r.w, "U %s source-not-prepared\n", seq)
				return nil
			}
		}
		pre, err := src.Dump()
		if err != nil {
			fmt.Fprintf(r.w, "U %s %s\n", seq, strings.ReplaceAll(err.Error(), " ", "_"))
			return nil
		}
		ch := make(chan Result, 1)
		go func() {
			defer func() {
				if x := recover(); x != nil {
					ch <- Result{"panic", fmt.Sprint(x)}
				}
			}()
			snap, err := src.FSM.Snapshot()
			if err != nil {
				ch <- Result{"err", "snapshot: " + err.Error()}
				return
			}
			sink := &memSink{id: fmt.Sprintf("2-10-%d", src.Clock.Ms())}
			if err := snap.Persist(sink); err != nil {
				ch <- Result{"err", "persist: " + err.Error()}
				return
			}
			snap.Release()
			if err := dst.FSM.Restore(io.NopCloser(bytes.NewReader(sink.Bytes()))); err != nil {
				ch <- Result{"err", "restore: " + err.Error()}
				return
			}
			ch <- Result{"ok", ""}
		}()
		var res Result
		select {
		case res = <-ch:
		case <-time.After(5 * time.Second):
			res = Result{"hang", ""}
			src.Dead, dst.Dead = true, true
		}
		post, err := dst.Dump()
		if err != nil {
			fmt.Fprintf(r.w, "U %s %s\n", seq, strings.ReplaceAll(err.Error(), " ", "_"))
			return nil
		}
		payload := res.Bytes
		if res.Kind == "hang" {
			payload = ""
		}
		fmt.Fprintf(r.w, "N %s C 1 %s R %s %s S %s E %s\n", seq, X("@transfer"), res.Kind, X(payload), pre, post)
		r.recordSeq(RaftSeq{ID: seq, RKind: "transfer", Ops: ds})
	}
	return nil
}

// ---- the three-node cluster --------------------------------------------------------------------

var clusterClocks = []int64{0, 37, 5000}

func (r *raftRun) cluster() (*Cluster, error) {
	if r.cl == nil {
		c, err := NewCluster(clusterClocks)
		if err != nil {
			return nil, err
		}
		r.cl = c
	}
	return r.cl, nil
}

// resetCluster empties every node's dataset through its own state machine (no client path involved).
func (r *raftRun) resetCluster(c *Cluster) {
	c.markers = 0
	for i, n := range c.Nodes {
		n.Clock.Set(StartMs + clusterClocks[i])
		n.Apply(0, 2, []string{"flushall"})
	}
}

func (r *raftRun) qLine(seq string, c *Cluster, ops []RaftOp, results []Result, pres []string, timedOut bool) error {
	var sb strings.Builder
	fmt.Fprintf(&sb, "Q %s %d OPS %d", seq, len(c.Nodes), len(ops))
	for i, op := range ops {
		cmd := UnhexCmd(op.Cmd)
		payload := results[i].Bytes
		if results[i].Kind == "panic" || results[i].Kind == "hang" {
			payload = ""
		}
		fmt.Fprintf(&sb, " %d %d %s %s C %d", op.Node, op.Db, results[i].Kind, X(payload), len(cmd))
		for _, a := range cmd {
			sb.WriteString(" " + X(a))
		}
	}
	sb.WriteString(" NODES")
	for i, n := range c.Nodes {
		post, err := n.Dump()
		if err != nil {
			fmt.Fprintf(r.w, "U %s %s\n", seq, strings.ReplaceAll(err.Error(), " ", "_"))
			return nil
		}
		fmt.Fprintf(&sb, " %d S %s E %s", n.Clock.Ms(), pres[i], post)
	}
	t := 0
	if timedOut {
		t = 1
	}
	fmt.Fprintf(&sb, " T %d", t)
	r.w.WriteString(sb.String())
	r.w.WriteByte('\n')
	r.w.Flush()
	return nil
}

// distinctForwards: how many entries the forwarded commands of a batch add to the leader's log when
// each distinct message is delivered once
func distinctForwards(c *Cluster, ops []RaftOp, results []Result) int {
	seen := map[string]bool{}
	for i, op := range ops {
		if op.Node != 0 && c.Nodes[op.Node].Fwd && results[i].Kind == "ok" && results[i].Bytes == "+OK\r\n" {
			seen[fmt.Sprint(op.Node)+"|"+strings.Join(op.Cmd, ",")] = true
		}
	}
	return len(seen)
}

func (r *raftRun) runCluster(s RaftSeq, fresh bool) error {
	if fresh && r.cl != nil {
		r.cl.Shutdown()
		r.cl = nil
	}
	c, err := r.cluster()
	if err != nil {
		return err
	}
	if !fresh {
		r.resetCluster(c)
	}
	dumps := func() ([]string, error) {
		var o []string
		for _, n := range c.Nodes {
			d, err := n.Dump()
			if err != nil {
				return nil, err
			}
			o = append(o, d)
		}
		return o, nil
	}
	pres, err := dumps()
	if err != nil {
		return err
	}
	var batch []RaftOp
	var results []Result
	l0 := c.Leader().Inner.LastIndex()
	viaRaft := 0
	for i, op := range s.Ops {
		cmd := UnhexCmd(op.Cmd)
		if len(cmd) > 0 {
			node := c.Nodes[op.Node]
			before := c.Leader().Inner.LastIndex()
			res, _ := node.Exec(op.Db, cmd)
			if res.Kind == "hang" {
				fmt.Fprintf(r.w, "H %s.%d\n", s.ID, i)
				r.cl.Shutdown()
				r.cl = nil
				r.recordSeq(s)
				return nil
			}
			if op.Node == 0 {
				// what the leader itself appended while serving the command (its reply comes after the apply)
				viaRaft += int(c.Leader().Inner.LastIndex() - before)
			}
			batch = append(batch, op)
			results = append(results, res)
		}
		if op.Bar {
			// entries the leader's log must reach: one per replicated command the leader served itself plus
			// one per distinct forwarded message (forwarded commands arrive by gossip: bounded wait)
			target := l0 + uint64(viaRaft+distinctForwards(c, batch, results))
			timedOut := !c.Quiesce(target, 25*time.Second)
			// the leader's log now holds what it will hold; a marker written behind it tells when every
			// node's state machine has got that far
			mcmd, mres, mok := c.Barrier(25 * time.Second)
			batch = append(batch, RaftOp{Node: 0, Db: BarrierDb, Cmd: HexCmd(mcmd)})
			results = append(results, mres)
			if !mok {
				timedOut = true
			}
			if err := r.qLine(fmt.Sprintf("%s.%d", s.ID, i), c, batch, results, pres, timedOut); err != nil {
				return err
			}
			batch, results = nil, nil
			if pres, err = dumps(); err != nil {
				return err
			}
			l0 = c.Leader().Inner.LastIndex()
			viaRaft = 0
		}
	}
	r.recordSeq(s)
	return nil
}

// ---- dispatch rows -------------------------------------------------------------------------------

func dispSeed() [][]string {
	return [][]string{
		{"set", "dk", "v"}, {"set", "dn", "5"}, {"rpush", "dl", "a", "b", "c"}, {"hset", "dh", "f", "1"},
		{"sadd", "ds", "a", "b"}, {"sadd", "ds2", "b", "c"}, {"zadd", "dz", "1", "a", "2", "b"}, {"zadd", "dz2", "1", "b", "5", "c"},
	}
}

// dispArgs: a well-formed invocation for the data commands; everything else is sent bare
var dispArgs = map[string][]string{
	"set": {"dk", "w"}, "mset": {"dk", "w", "dk2", "x"}, "get": {"dk"}, "mget": {"dk", "dn"}, "del": {"dk"}, "persist": {"dk"},
	"expiretime": {"dk"}, "pexpiretime": {"dk"}, "ttl": {"dk"}, "pttl": {"dk"}, "expire": {"dk", "1000"}, "pexpire": {"dk", "1000000"},
	"expireat": {"dk", "1900000000"}, "pexpireat": {"dk", "1900000000000"}, "incr": {"dn"}, "decr": {"dn"}, "incrby": {"dn", "3"},
	"incrbyfloat": {"dn", "0.5"}, "decrby": {"dn", "2"}, "rename": {"dk", "dk3"}, "getdel": {"dk"}, "getex": {"dk", "ex", "1000"},
	"type": {"dk"}, "touch": {"dk"}, "hset": {"dh", "g", "2"}, "hsetnx": {"dh", "g2", "2"}, "hget": {"dh", "f"}, "hmget": {"dh", "f"},
	"hstrlen": {"dh", "f"}, "hvals": {"dh"}, "hrandfield": {"dh"}, "hlen": {"dh"}, "hkeys": {"dh"}, "hincrbyfloat": {"dh", "f", "1.5"},
	"hincrby": {"dh", "f", "2"}, "hgetall": {"dh"}, "hexists": {"dh", "f"}, "hdel": {"dh", "f"}, "lpush": {"dl", "z"}, "lpushx": {"dl", "z"},
	"lpop": {"dl"}, "llen": {"dl"}, "lrange": {"dl", "0", "1"}, "lindex": {"dl", "0"}, "lset": {"dl", "0", "q"}, "ltrim": {"dl", "0", "1"},
	"lrem": {"dl", "1", "a"}, "lmove": {"dl", "dl2", "left", "right"}, "rpop": {"dl"}, "rpush": {"dl", "z"}, "rpushx": {"dl", "z"},
	"sadd": {"ds", "z"}, "scard": {"ds"}, "sdiff": {"ds", "ds2"}, "sdiffstore": {"ds3", "ds", "ds2"}, "sinter": {"ds", "ds2"},
	"sintercard": {"ds", "ds2"}, "sinterstore": {"ds3", "ds", "ds2"}, "sismember": {"ds", "a"}, "smembers": {"ds"}, "smismember": {"ds", "a"},
	"smove": {"ds", "ds2", "a"}, "spop": {"ds"}, "srandmember": {"ds"}, "srem": {"ds", "a"}, "sunion": {"ds", "ds2"}, "sunionstore": {"ds3", "ds", "ds2"},
	"zadd": {"dz", "3", "c"}, "zcard": {"dz"}, "zincrby": {"dz", "1", "a"}, "zrem": {"dz", "a"}, "zscore": {"dz", "a"}, "zpopmin": {"dz"}, "zpopmax": {"dz"},
	"setrange": {"dk", "0", "Q"}, "strlen": {"dk"}, "substr": {"dk", "0", "0"}, "getrange": {"dk", "0", "0"}, "append": {"dk", "x"},
	"zdiffstore": {"dz3", "dz", "dz2"}, "zinterstore": {"dz3", "dz", "dz2"}, "zunionstore": {"dz3", "dz", "dz2"}, "zmpop": {"dz", "min"},
	"zremrangebylex": {"dz", "[a", "[b"}, "zremrangebyrank": {"dz", "0", "0"}, "zremrangebyscore": {"dz", "0", "1"}, "zrangestore": {"dz3", "dz", "0", "-1"},
	"publish": {"ch", "msg"}, "acl setuser": {"vu", "on"}, "acl deluser": {"vu"}, "acl getuser": {"default"}, "module load": {"/nonexistent.so"}, "module unload": {"nomod"},
	"select": {"0"}, "swapdb": {"7", "8"}, "echo": {"hi"}, "flushall": {}, "flushdb": {},
}

// never executed on a cluster node: SAVE starts a raft snapshot in a detached goroutine, whose
// GetState closure spins or panics outside any frame the harness could recover
var dispNever = map[string]bool{"save": true}

type dispRow struct {
	name, sub string
	sync      bool
}

func dispRows() []dispRow {
	var rows []dispRow
	for _, c := range AllCommands() {
		rows = append(rows, dispRow{strings.ToLower(c.Command), "", c.Sync})
		for _, sc := range c.SubCommands {
			rows = append(rows, dispRow{strings.ToLower(c.Command), strings.ToLower(sc.Command), sc.Sync})
		}
	}
	return rows
}

func dispInvocation(row dispRow, bare bool) []string {
	cmd := []string{row.name}
	key := row.name
	if row.sub != "" {
		cmd = append(cmd, row.sub)
		key += " " + row.sub
	}
	if a, ok := dispArgs[key]; ok && !bare {
		cmd = append(cmd, a...)
	}
	return cmd
}

// preflight: the invocation run by a standalone server with a nil connection (as the state machine
// runs it); a panic or hang there must not be repeated inside raft's own goroutine
func (r *raftRun) preflight(cmd []string) (string, error) {
	if r.pre == nil || r.pre.Dead {
		dir, err := os.MkdirTemp("", "vh-raft-pre")
		if err != nil {
			return "", err
		}
		r.preDirs = append(r.preDirs, dir)
		in, err := NewInst(Opts{DataDir: dir})
		if err != nil {
			return "", err
		}
		r.pre = in
	}
	r.pre.Exec(nil, []string{"flushall"})
	for _, c := range dispSeed() {
		r.pre.Exec(nil, c)
	}
	return r.pre.Exec(nil, cmd).Kind, nil
}

func roleNode(role string) int {
	switch role {
	case "leader":
		return 0
	case "ffwd":
		return 1
	}
	return 2
}

type kObs struct {
	kind, bytes string
	done        bool
	changed     bool
	didx        int
}

func (r *raftRun) kLine(seq string, c *Cluster, role string, cmd []string, skip string) (kObs, error) {
	var sb strings.Builder
	fmt.Fprintf(&sb, "K %s %s C %d", seq, role, len(cmd))
	for _, a := range cmd {
		sb.WriteString(" " + X(a))
	}
	if skip != "" {
		fmt.Fprintf(&sb, " R skip %s O 0 0 0 0 0 S - E -", X(skip))
		r.w.WriteString(sb.String())
		r.w.WriteByte('\n')
		return kObs{}, nil
	}
	n := c.Nodes[roleNode(role)]
	pre, err := n.Dump()
	if err != nil {
		return kObs{}, err
	}
	idx0 := n.Inner.LastIndex()
	res, pl := n.Exec(0, cmd)
	idx1 := n.Inner.LastIndex()
	post := pre
	if res.Kind != "hang" {
		if post, err = n.Dump(); err != nil {
			return kObs{}, err
		}
	}
	b2i := func(b bool) int {
		if b {
			return 1
		}
		return 0
	}
	payload := res.Bytes
	if res.Kind == "panic" || res.Kind == "hang" {
		payload = ""
	}
	didx := 0
	if role == "leader" {
		didx = int(idx1 - idx0)
	}
	raw := n.S.VerifSnapshot()
	cmp := !(role == "ffwd" && r.rowSync(cmd))
	if !cmp {
		post = pre
	}
	fmt.Fprintf(&sb, " R %s %s O %d %d %d %d %d S %s E %s", res.Kind, X(payload), b2i(pl.done), b2i(pl.mut), didx,
		b2i(cmp), b2i(raw.StateMutationInProgress), pre, post)
	r.w.WriteString(sb.String())
	r.w.WriteByte('\n')
	r.w.Flush()
	return kObs{res.Kind, res.Bytes, pl.done, dataOnly(pre) != dataOnly(post), didx}, nil
}

// seedAll puts the same data on every node through each node's own state machine (no client path, no raft)
func (r *raftRun) seedAll(c *Cluster) {
	r.resetCluster(c)
	for _, n := range c.Nodes {
		for _, cmd := range dispSeed() {
			n.Apply(0, 2, cmd)
		}
	}
}

// runDisp: the rows of one role on one cluster. Commands a forwarding follower hands on are sent bare (the
// leader answers them with an arity error and changes nothing) so that the follower's dump before/after the
// call is not disturbed by replication; FLUSHALL / FLUSHDB are valid bare and go last.
func (r *raftRun) runDisp(role string, seqs []RaftSeq, fresh bool) error {
	if fresh && r.cl != nil {
		r.cl.Shutdown()
		r.cl = nil
	}
	c, err := r.cluster()
	if err != nil {
		return err
	}
	if !c.Quiesce(0, 25*time.Second) {
		return fmt.Errorf("cluster not quiet before the dispatch rows")
	}
	if _, _, ok := c.Barrier(25 * time.Second); !ok {
		return fmt.Errorf("cluster does not replicate before the dispatch rows")
	}
	dirty := true
	l0 := c.Leader().Inner.LastIndex()
	forwarded := 0
	for _, s := range seqs {
		cmd := UnhexCmd(s.Ops[0].Cmd)
		skip := ""
		if dispNever[strings.ToLower(cmd[0])] {
			skip = "never-executed"
		} else if role == "leader" || (role == "ffwd" && r.rowSync(cmd)) {
			// the invocation will run inside raft's own goroutine on every node
			k, err := r.preflight(cmd)
			if err != nil {
				return err
			}
			if k == "panic" || k == "hang" {
				skip = "standalone-" + k
			}
		}
		if dirty {
			r.seedAll(c)
			dirty = false
		}
		res, err := r.kLine(s.ID+".0", c, role, cmd, skip)
		if err != nil {
			return err
		}
		if res.changed || res.didx > 0 {
			dirty = true
		}
		if role == "ffwd" && res.kind == "ok" && res.bytes == "+OK\r\n" && !res.done {
			forwarded++
		}
		r.recordSeq(s)
	}
	// what was handed to raft or to the gossip layer is let through before the cluster is used again
	c.Quiesce(l0+uint64(forwarded), 25*time.Second)
	c.Barrier(25 * time.Second)
	return nil
}

func (r *raftRun) sweepDisp() error {
	rows := dispRows()
	for _, role := range []string{"leader", "fnofwd", "ffwd"} {
		var seqs []RaftSeq
		add := func(row dispRow) {
			cmd := dispInvocation(row, false)
			seqs = append(seqs, RaftSeq{ID: fmt.Sprintf("d%s%d", role[:2], len(seqs)), RKind: "disp", Clocks: clusterClocks, Role: role,
				Ops: []RaftOp{{Node: roleNode(role), Cmd: HexCmd(cmd)}}})
		}
		// a forwarding follower: first what it serves itself (dumps before/after are comparable: nothing is in
		// flight), then what it hands on (where the handler ran is observed at the hook points), flushes last
		var late []dispRow
		for _, row := range rows {
			if row.name == "flushall" || row.name == "flushdb" || (role == "ffwd" && row.sync) {
				continue
			}
			add(row)
		}
		for _, row := range rows {
			if row.name == "flushall" || row.name == "flushdb" {
				late = append(late, row)
			} else if role == "ffwd" && row.sync {
				add(row)
			}
		}
		for _, row := range late {
			add(row)
		}
		if err := r.runDisp(role, seqs, false); err != nil {
			return err
		}
	}
	return nil
}

// ---- cluster workloads -----------------------------------------------------------------------------

type cgen struct {
	g *Gen
}

func (c cgen) safeWrite(db int) []string {
	g := c.g
	sk := func() string { return g.Pick([]string{"s1", "s2", "s3"}) }
	switch g.R.Intn(16) {
	case 0, 1:
		return []string{"set", sk(), g.Pick([]string{"a", "hello", "007", "1.50", "x y"})}
	case 2:
		return []string{"mset", "s1", g.Pick([]string{"p", "q"}), "s4", "r"}
	case 3:
		return []string{"incrby", g.Pick([]string{"n1", "n2"}), g.Pick([]string{"1", "5", "-3"})}
	case 4:
		return []string{"append", "s1", g.Pick([]string{"z", "yy"})}
	case 5:
		return []string{"del", sk(), "n1"}
	case 6, 7:
		return []string{g.Pick([]string{"rpush", "lpush"}), g.Pick([]string{"l1", "l2"}), g.Pick([]string{"a", "b", "c"}), g.Pick([]string{"d", "e"})}
	case 8:
		return []string{g.Pick([]string{"lpop", "rpop"}), g.Pick([]string{"l1", "l2"})}
	case 9, 10:
		return []string{"hset", g.Pick([]string{"h1", "h2"}), g.Pick([]string{"f", "g"}), g.Pick([]string{"1", "v", "2.5"})}
	case 11:
		return []string{"hincrby", "h3", "c", g.Pick([]string{"1", "10"})}
	case 12, 13:
		return []string{"sadd", g.Pick([]string{"t1", "t2", "t3"}), g.Pick([]string{"a", "b", "c"}), g.Pick([]string{"c", "d", "e"})}
	case 14:
		return []string{"srem", g.Pick([]string{"t1", "t2"}), g.Pick([]string{"a", "b", "c"})}
	default:
		return []string{"smove", g.Pick([]string{"t1", "t2"}), "t3", g.Pick([]string{"a", "b", "c"})}
	}
}

var longKey = strings.Repeat("long-key-name-", 6)

// commutingForwards: distinct writes that commute, some sharing a long common prefix of their encoding
func (c cgen) commutingForwards(k int) [][]string {
	g := c.g
	var out [][]string
	for i := 0; i < k; i++ {
		switch g.R.Intn(5) {
		case 0:
			out = append(out, []string{"sadd", longKey + "set", fmt.Sprintf("member-%d", i)})
		case 1:
			out = append(out, []string{"set", fmt.Sprintf("%s%d", longKey, i), fmt.Sprintf("v%d", i)})
		case 2:
			out = append(out, []string{"hset", longKey + "hash", fmt.Sprintf("field-%d", i), fmt.Sprintf("%d", i)})
		case 3:
			out = append(out, []string{"set", longKey + "same", strings.Repeat("x", 70) + fmt.Sprint(i)})
		default:
			out = append(out, []string{"sadd", fmt.Sprintf("u%d", i), "m"})
		}
	}
	// `set longKey+same …` twice would not commute: keep the last only
	seen := false
	var o2 [][]string
	for i := len(out) - 1; i >= 0; i-- {
		if out[i][0] == "set" && out[i][1] == longKey+"same" {
			if seen {
				continue
			}
			seen = true
		}
		o2 = append([][]string{out[i]}, o2...)
	}
	return o2
}

func ops(node, db int, cmds ...[]string) []RaftOp {
	var o []RaftOp
	for _, c := range cmds {
		o = append(o, RaftOp{Node: node, Db: db, Cmd: HexCmd(c)})
	}
	return o
}

func bar(o []RaftOp) []RaftOp {
	if len(o) > 0 {
		o[len(o)-1].Bar = true
	}
	return o
}

func clusterScripts() [][]RaftOp {
	cat := func(xs ...[]RaftOp) []RaftOp {
		var o []RaftOp
		for _, x := range xs {
			o = append(o, x...)
		}
		return o
	}
	setup := func() []RaftOp {
		return bar(cat(ops(0, 0, []string{"set", "s1", "a"}, []string{"rpush", "l1", "a", "b"}, []string{"sadd", "t1", "a", "b", "c", "d", "e", "f"}, []string{"sadd", "t2", "c", "x"}),
			ops(0, 1, []string{"set", "s1", "one"}, []string{"hset", "h1", "f", "1"}), ops(0, 2, []string{"set", "s2", "two"})))
	}
	return [][]RaftOp{
		// plain replication in several databases, then flushes issued on the leader
		cat(setup(), bar(ops(0, 1, []string{"flushdb"})), bar(ops(0, 0, []string{"set", "s9", "z"})), bar(ops(0, 2, []string{"flushall"}))),
		// writes sent to the follower that does not forward: rejected, nothing changes anywhere
		cat(setup(), bar(ops(2, 0, []string{"set", "s1", "no"}, []string{"del", "s1"}, []string{"flushall"}, []string{"sadd", "t1", "q"}))),
		// writes forwarded from database 0: several distinct messages in one gossip interval, long common prefixes
		cat(setup(), bar(ops(1, 0, []string{"sadd", longKey + "set", "member-1"}, []string{"sadd", longKey + "set", "member-2"}, []string{"sadd", longKey + "set", "member-3"},
			[]string{"set", longKey + "a", "1"}, []string{"set", longKey + "b", "2"}))),
		// FLUSHDB forwarded from database 0
		cat(setup(), bar(ops(1, 0, []string{"flushdb"}))),
		// FLUSHALL forwarded
		cat(setup(), bar(ops(1, 0, []string{"flushall"}))),
		// a write forwarded from a connection on database 1
		cat(setup(), bar(ops(1, 1, []string{"set", "fw", "v"}))),
		// the same write forwarded twice within one gossip interval
		cat(setup(), bar(ops(1, 0, []string{"rpush", "l1", "x"}, []string{"rpush", "l1", "x"}))),
		// a random pop
		cat(setup(), bar(ops(0, 0, []string{"spop", "t1", "2"}))),
		// a deadline relative to the applying node's clock
		cat(setup(), bar(ops(0, 0, []string{"set", "s1", "v", "ex", "1000"}))),
		cat(setup(), bar(ops(0, 1, []string{"expire", "s1", "500"}))),
		// a read served by one node that changes that node's dataset
		cat(setup(), bar(ops(1, 0, []string{"sunion", "t1", "t2"}))),
		cat(setup(), bar(ops(0, 0, []string{"get", "s1"}, []string{"lrange", "l1", "0", "1"}, []string{"smembers", "t1"})), bar(ops(2, 1, []string{"hgetall", "h1"}, []string{"get", "s1"}))),
	}
}

func (r *raftRun) sweepCluster(seed int64, tier string) error {
	for i, sc := range clusterScripts() {
		if err := r.runCluster(RaftSeq{ID: fmt.Sprintf("cs%d", i), RKind: "cluster", Clocks: clusterClocks, Ops: sc}, false); err != nil {
			return err
		}
	}
	nSeq := 4
	if tier == "thorough" {
		nSeq = 60
	}
	g := NewGen(seed + 77)
	cg := cgen{g}
	for i := 0; i < nSeq; i++ {
		var o []RaftOp
		nb := 2 + g.R.Intn(3)
		for b := 0; b < nb; b++ {
			var batch []RaftOp
			switch g.R.Intn(6) {
			case 0, 1, 2:
				m := 3 + g.R.Intn(6)
				for j := 0; j < m; j++ {
					db := []int{0, 0, 1, 2}[g.R.Intn(4)]
					batch = append(batch, ops(0, db, cg.safeWrite(db))...)
				}
			case 3:
				for _, c := range cg.commutingForwards(2 + g.R.Intn(4)) {
					batch = append(batch, ops(1, 0, c)...)
				}
			case 4:
				batch = ops(2, []int{0, 1}[g.R.Intn(2)], cg.safeWrite(0), cg.safeWrite(0))
			default:
				db := []int{0, 1, 2}[g.R.Intn(3)]
				// the database must exist on every node before it is flushed (FLUSHDB of an absent database panics
				// inside every state machine)
				batch = ops(0, db, []string{"set", "s1", "pre"}, []string{g.Pick([]string{"flushdb", "flushall"})})
			}
			o = append(o, bar(batch)...)
		}
		if err := r.runCluster(RaftSeq{ID: fmt.Sprintf("cr%d", i), RKind: "cluster", Clocks: clusterClocks, Ops: o}, false); err != nil {
			return err
		}
	}
	return nil
}

// ---- entry -----------------------------------------------------------------------------------------

// RunRaft writes the transcript of the raft suite.
func RunRaft(w *bufio.Writer, seed int64, tier string, replay string) (err error) {
	var r *raftRun
	restore := silenceStderr()
	defer func() {
		restore()
		if err != nil {
			fmt.Fprintln(os.Stderr, "raft suite:", err)
		}
		if r != nil && r.timing != "" {
			fmt.Fprintln(os.Stderr, "raft suite timing:", r.timing)
		}
	}()
	installPointTracker()
	r = &raftRun{w: w, table: map[string]internal.Command{}}
	for _, c := range AllCommands() {
		r.table[strings.ToLower(c.Command)] = c
	}
	if sp := os.Getenv("VH_SEQS"); sp != "" {
		f, e := os.Create(sp)
		if e != nil {
			return e
		}
		defer f.Close()
		r.seqW = bufio.NewWriter(f)
		defer r.seqW.Flush()
	}
	defer func() {
		if r.cl != nil {
			r.cl.Shutdown()
		}
		for _, n := range r.pool {
			n.Shutdown()
		}
		for _, d := range r.preDirs {
			os.RemoveAll(d)
		}
	}()
	if replay != "" {
		data, e := os.ReadFile(replay)
		if e != nil {
			return e
		}
		var rp struct {
			Seq RaftSeq `json:"seq"`
		}
		if e := json.Unmarshal(data, &rp); e != nil {
			return e
		}
		one := 1 << 30
		switch rp.Seq.RKind {
		case "fsm":
			return r.runFsm(rp.Seq, true, false, &one)
		case "disp":
			return r.runDisp(rp.Seq.Role, []RaftSeq{rp.Seq}, true)
		case "transfer":
			return r.runTransfer(rp.Seq.ID, rp.Seq.Ops)
		case "cluster":
			return r.runCluster(rp.Seq, true)
		}
		return fmt.Errorf("unknown raft experiment kind %q", rp.Seq.RKind)
	}
	t0 := time.Now()
	if err = r.sweepFsm(seed, tier); err != nil {
		return err
	}
	t1 := time.Now()
	if err = r.sweepTransfer(); err != nil {
		return err
	}
	if err = r.sweepCluster(seed, tier); err != nil {
		return err
	}
	t2 := time.Now()
	err = r.sweepDisp()
	r.timing = fmt.Sprintf("fsm %.1fs cluster %.1fs dispatch %.1fs", t1.Sub(t0).Seconds(), t2.Sub(t1).Seconds(), time.Since(t2).Seconds())
	return err
}
